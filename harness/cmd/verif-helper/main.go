// verif-helper lets the real git client talk to go-git's server side:
//
//	git fetch --upload-pack='verif-helper upload-pack' file:///abs/repo.git
//	git push  --receive-pack='verif-helper receive-pack' file:///abs/repo.git ...
//
// git runs "<helper> <service> '<path>'" through the shell with the pack
// protocol on stdin/stdout and GIT_PROTOCOL in the environment.
package main

import (
	"context"
	"fmt"
	"io"
	"os"

	"github.com/go-git/go-billy/v6/osfs"
	_ "github.com/go-git/go-git/v6"
	"github.com/go-git/go-git/v6/plumbing/cache"
	"github.com/go-git/go-git/v6/plumbing/transport"
	"github.com/go-git/go-git/v6/storage/filesystem"
)

func main() {
	if len(os.Args) < 3 {
		fmt.Fprintln(os.Stderr, "usage: verif-helper upload-pack|receive-pack <gitdir>")
		os.Exit(2)
	}
	dir := os.Args[len(os.Args)-1]
	if fi, err := os.Stat(dir + "/.git"); err == nil && fi.IsDir() {
		dir += "/.git"
	}
	st := filesystem.NewStorage(osfs.New(dir), cache.NewObjectLRUDefault())
	var err error
	// stdin is wrapped like go-git's own file transport does: the server
	// closes its reader once per negotiation round
	switch os.Args[1] {
	case "upload-pack":
		err = transport.UploadPack(context.Background(), st, io.NopCloser(os.Stdin), os.Stdout,
			&transport.UploadPackRequest{GitProtocol: os.Getenv("GIT_PROTOCOL")})
	case "receive-pack":
		err = transport.ReceivePack(context.Background(), st, io.NopCloser(os.Stdin), os.Stdout,
			&transport.ReceivePackRequest{GitProtocol: os.Getenv("GIT_PROTOCOL")})
	default:
		fmt.Fprintln(os.Stderr, "verif-helper: unknown service", os.Args[1])
		os.Exit(2)
	}
	st.Close()
	if err != nil {
		fmt.Fprintln(os.Stderr, "verif-helper:", err)
		os.Exit(1)
	}
}
