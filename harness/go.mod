module verif/harness

go 1.26.0

require (
	github.com/go-git/go-billy/v6 v6.0.0-alpha.2
	github.com/go-git/go-git/v6 v6.0.0
	pgregory.net/rapid v1.3.0
)

require github.com/go-git/gcfg/v2 v2.0.2 // indirect

replace github.com/go-git/go-git/v6 => /repo
