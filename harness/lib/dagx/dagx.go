// Package dagx builds generated git histories without going through go-git's
// encoders: a serialisable Spec (commits with parents, committer times and
// path edits; annotated tags on anything) is turned into raw git objects
// (SHA-1), a reference reachability model over them, and — when wanted — a
// real repository on disk (loose objects, refs through `git update-ref`).
//
// Every choice is in the Spec; indices are resolved modulo at build time so any
// Spec that rapid shrinks to is still valid.
package dagx

import (
	"bytes"
	"compress/zlib"
	"crypto/sha1"
	"encoding/hex"
	"fmt"
	"os"
	"path/filepath"
	"sort"
	"strings"
	"sync"

	"pgregory.net/rapid"

	"verif/harness/lib/gitx"
)

// Paths is the path universe for edits: names repeat across levels ("a" at the
// root, in d/ and in d/e/), and "d"/"e" as files conflict with the directories.
var Paths = []string{"a", "b", "d/a", "d/b", "d/e/a", "e/a", "d", "e", "c"}

// WidePaths is the opt-in path universe (Spec.PathSet == 1): three levels of
// directories with several entries each, so that a subtree can differ from its
// variants in different entries at every level.
var WidePaths = []string{"a", "b", "d/a", "d/b", "d/c", "d/e/a", "d/e/b", "d/e/f/a", "d/e/f/b", "e/a", "e/b", "d", "e", "c"}

// PathsOf returns the path universe of a path set (0 = Paths, 1 = WidePaths; modulo 2).
func PathsOf(set int) []string {
	if mod(set, 2) == 1 {
		return WidePaths
	}
	return Paths
}

// DirsOf returns the directories of a path set (every proper prefix of a path), sorted.
func DirsOf(set int) []string {
	seen := map[string]bool{}
	var out []string
	for _, p := range PathsOf(set) {
		for i := 0; i < len(p); i++ {
			if p[i] == '/' && !seen[p[:i]] {
				seen[p[:i]] = true
				out = append(out, p[:i])
			}
		}
	}
	sort.Strings(out)
	return out
}

// Edit operations.
const (
	OpDelete  = 0
	OpFile    = 1
	OpExec    = 2
	OpSymlink = 3
	OpGitlink = 4
)

// Edit changes one path of the tree a commit starts from.
type Edit struct {
	Path int // index into Paths (modulo)
	Op   int // Op* (modulo 5)
	Blob int // blob pool index (modulo); for gitlinks: even = id of an earlier commit of this history, odd = an id that names nothing
}

// Graft replaces one directory of the tree under construction by the same
// directory of an earlier commit's tree (a revert or cherry-pick of a directory,
// a merge that takes a directory from the other side): the subtree object of the
// source re-appears unchanged.
type Graft struct {
	Dir  int // index into DirsOf(Spec.PathSet) (modulo)
	From int // commit index (modulo i); ignored for commit 0
}

// Commit i has parents among commits < i.
type Commit struct {
	Parents []int  // absolute indices, resolved modulo i, duplicates dropped; ignored for commit 0
	Base    int    // tree to start from: -1 first parent's (empty for a root), -2 empty, k>=0 tree of commit k%i (a revert)
	Edits   []Edit // applied to the base tree
	Time    int    // committer (and author) time offset in seconds; arbitrary, so parents may be newer than children
	// Grafts are applied to the base tree before the edits (opt-in; absent in specs of generators that do not use them).
	Grafts []Graft `json:",omitempty"`
}

// Tag kinds.
const (
	TagCommit = 0
	TagTree   = 1
	TagBlob   = 2
	TagTag    = 3
)

// Tag is an annotated tag object.
type Tag struct {
	Kind int // Tag* (modulo 4)
	Idx  int // commit index / commit whose root tree / blob index / earlier tag (falls back to a commit when there is none)
}

// Spec describes one history.
type Spec struct {
	NBlobs  int
	Commits []Commit
	Tags    []Tag
	// PathSet selects the path universe of the edits: 0 = Paths, 1 = WidePaths (opt-in).
	PathSet int `json:",omitempty"`
}

// Obj is one raw git object.
type Obj struct {
	Type string // commit, tree, blob, tag
	Data []byte
	ID   string // hex SHA-1
	Kids []int  // indices of directly referenced objects (gitlinks excluded)
}

// Built is the object graph of a Spec.
type Built struct {
	Objs    []Obj
	Index   map[string]int // id -> object index
	Commits []int          // object index of commit i
	Roots   []int          // object index of the root tree of commit i
	Tags    []int          // object index of tag i
	Blobs   []int          // object index of pool blob i (only those that were stored)
	AllBlob []int          // object index of every blob of the pool (all are stored)
	Trees   []int          // every tree object, in creation order
	Parents [][]int        // resolved parents (commit indices)
	Times   []int64        // committer time of commit i
	Skewed  int            // number of (child,parent) pairs with parent strictly newer than child
	Merges  int            // commits with >= 2 parents
	Gitlink int            // gitlink entries written
}

// BaseTime is the committer time of offset 0.
const BaseTime = 1700000000

func mod(a, n int) int {
	if n <= 0 {
		return 0
	}
	a %= n
	if a < 0 {
		a += n
	}
	return a
}

type fileEnt struct {
	mode string
	id   string // hex
}

func (b *Built) add(typ string, data []byte, kids []int) int {
	h := sha1.New()
	fmt.Fprintf(h, "%s %d\x00", typ, len(data))
	h.Write(data)
	id := hex.EncodeToString(h.Sum(nil))
	if i, ok := b.Index[id]; ok {
		return i
	}
	b.Objs = append(b.Objs, Obj{Type: typ, Data: data, ID: id, Kids: kids})
	i := len(b.Objs) - 1
	b.Index[id] = i
	if typ == "tree" {
		b.Trees = append(b.Trees, i)
	}
	return i
}

// writeTree stores the tree for the files below prefix and returns its index.
func (b *Built) writeTree(files map[string]fileEnt, prefix string) int {
	type ent struct {
		name, mode, id string
		isDir          bool
	}
	seen := map[string]bool{}
	var ents []ent
	var kids []int
	names := make([]string, 0, len(files))
	for p := range files {
		names = append(names, p)
	}
	sort.Strings(names)
	for _, p := range names {
		if !strings.HasPrefix(p, prefix) {
			continue
		}
		rest := p[len(prefix):]
		if i := strings.IndexByte(rest, '/'); i >= 0 {
			d := rest[:i]
			if seen[d] {
				continue
			}
			seen[d] = true
			sub := b.writeTree(files, prefix+d+"/")
			ents = append(ents, ent{d, "40000", b.Objs[sub].ID, true})
			kids = append(kids, sub)
			continue
		}
		f := files[p]
		ents = append(ents, ent{rest, f.mode, f.id, false})
		if f.mode != "160000" {
			kids = append(kids, b.Index[f.id])
		} else {
			b.Gitlink++
		}
	}
	key := func(e ent) string {
		if e.isDir {
			return e.name + "/"
		}
		return e.name
	}
	sort.Slice(ents, func(i, j int) bool { return key(ents[i]) < key(ents[j]) })
	var buf bytes.Buffer
	for _, e := range ents {
		raw, _ := hex.DecodeString(e.id)
		buf.WriteString(e.mode + " " + e.name + "\x00")
		buf.Write(raw)
	}
	return b.add("tree", buf.Bytes(), kids)
}

// Build turns the spec into objects. It never fails: indices are taken modulo.
func Build(s Spec) *Built {
	b := &Built{Index: map[string]int{}}
	nb := s.NBlobs
	if nb < 1 {
		nb = 1
	}
	for i := 0; i < nb; i++ {
		data := []byte{}
		if i > 0 { // blob 0 is the empty blob
			data = []byte(fmt.Sprintf("blob %d\n", i))
		}
		b.AllBlob = append(b.AllBlob, b.add("blob", data, nil))
	}
	b.Blobs = b.AllBlob
	trees := make([]map[string]fileEnt, len(s.Commits))
	paths, dirs := PathsOf(s.PathSet), DirsOf(s.PathSet)
	for i, c := range s.Commits {
		var ps []int
		if i > 0 {
			seen := map[int]bool{}
			for _, p := range c.Parents {
				p = mod(p, i)
				if !seen[p] {
					seen[p] = true
					ps = append(ps, p)
				}
			}
		}
		b.Parents = append(b.Parents, ps)
		files := map[string]fileEnt{}
		var base map[string]fileEnt
		switch {
		case c.Base == -1 && len(ps) > 0:
			base = trees[ps[0]]
		case c.Base >= 0 && i > 0:
			base = trees[mod(c.Base, i)]
		}
		for k, v := range base {
			files[k] = v
		}
		for _, g := range c.Grafts {
			if i == 0 {
				break
			}
			d := dirs[mod(g.Dir, len(dirs))]
			for k := range files {
				if k == d || strings.HasPrefix(k, d+"/") || strings.HasPrefix(d, k+"/") {
					delete(files, k)
				}
			}
			for k, v := range trees[mod(g.From, i)] {
				if k == d || strings.HasPrefix(k, d+"/") {
					files[k] = v
				}
			}
		}
		for _, e := range c.Edits {
			p := paths[mod(e.Path, len(paths))]
			// a file replaces a directory of the same name and vice versa
			for k := range files {
				if strings.HasPrefix(k, p+"/") || strings.HasPrefix(p, k+"/") {
					delete(files, k)
				}
			}
			blob := b.Objs[b.AllBlob[mod(e.Blob, nb)]].ID
			switch mod(e.Op, 5) {
			case OpDelete:
				delete(files, p)
			case OpFile:
				files[p] = fileEnt{"100644", blob}
			case OpExec:
				files[p] = fileEnt{"100755", blob}
			case OpSymlink:
				files[p] = fileEnt{"120000", blob}
			case OpGitlink:
				var id string
				if e.Blob%2 == 0 && i > 0 {
					id = b.Objs[b.Commits[mod(e.Blob/2, i)]].ID
				} else {
					sum := sha1.Sum([]byte(fmt.Sprintf("gitlink %d", e.Blob)))
					id = hex.EncodeToString(sum[:])
				}
				files[p] = fileEnt{"160000", id}
			}
		}
		trees[i] = files
		root := b.writeTree(files, "")
		b.Roots = append(b.Roots, root)
		tm := int64(BaseTime + c.Time)
		b.Times = append(b.Times, tm)
		var buf bytes.Buffer
		fmt.Fprintf(&buf, "tree %s\n", b.Objs[root].ID)
		kids := []int{root}
		for _, p := range ps {
			fmt.Fprintf(&buf, "parent %s\n", b.Objs[b.Commits[p]].ID)
			kids = append(kids, b.Commits[p])
			if b.Times[p] > tm {
				b.Skewed++
			}
		}
		if len(ps) >= 2 {
			b.Merges++
		}
		fmt.Fprintf(&buf, "author A U Thor <author@example.com> %d +0000\n", tm)
		fmt.Fprintf(&buf, "committer C O Mitter <committer@example.com> %d +0000\n", tm)
		// the index in the message keeps otherwise identical commits distinct
		fmt.Fprintf(&buf, "\nc%d\n", i)
		b.Commits = append(b.Commits, b.add("commit", buf.Bytes(), kids))
	}
	for i, t := range s.Tags {
		var target int
		kind := mod(t.Kind, 4)
		nc := len(b.Commits)
		switch {
		case kind == TagTag && i > 0:
			target = b.Tags[mod(t.Idx, i)]
		case kind == TagBlob:
			target = b.AllBlob[mod(t.Idx, nb)]
		case kind == TagTree && nc > 0:
			target = b.Roots[mod(t.Idx, nc)]
		case nc > 0:
			target = b.Commits[mod(t.Idx, nc)]
		default:
			target = b.AllBlob[0]
		}
		var buf bytes.Buffer
		fmt.Fprintf(&buf, "object %s\ntype %s\ntag t%d\n", b.Objs[target].ID, b.Objs[target].Type, i)
		fmt.Fprintf(&buf, "tagger T Agger <tagger@example.com> %d +0000\n\ntag %d\n", BaseTime+i, i)
		b.Tags = append(b.Tags, b.add("tag", buf.Bytes(), []int{target}))
	}
	return b
}

// Reach returns the set (by object index) of everything reachable from roots.
// cut lists commits (object indices) whose parents are not followed (shallow
// boundary); their trees still are.
func (b *Built) Reach(roots []int, cut map[int]bool) []bool {
	r := make([]bool, len(b.Objs))
	q := append([]int(nil), roots...)
	for len(q) > 0 {
		x := q[len(q)-1]
		q = q[:len(q)-1]
		if r[x] {
			continue
		}
		r[x] = true
		o := b.Objs[x]
		if o.Type == "commit" && cut[x] {
			q = append(q, o.Kids[0]) // tree only
			continue
		}
		q = append(q, o.Kids...)
	}
	return r
}

// IsAncestor reports whether commit a (commit index) is reachable from commit b.
func (b *Built) IsAncestor(a, of int) bool {
	return b.Reach([]int{b.Commits[of]}, nil)[b.Commits[a]]
}

var zpool = sync.Pool{New: func() any {
	zw, _ := zlib.NewWriterLevel(nil, zlib.BestSpeed)
	return zw
}}

// WriteLoose writes every object (or only those marked in only, if non-nil)
// as a loose object below gitdir/objects.
func (b *Built) WriteLoose(gitdir string, only []bool) {
	for i, o := range b.Objs {
		if only != nil && !only[i] {
			continue
		}
		dir := filepath.Join(gitdir, "objects", o.ID[:2])
		p := filepath.Join(dir, o.ID[2:])
		if _, err := os.Stat(p); err == nil {
			continue
		}
		if err := os.MkdirAll(dir, 0o755); err != nil {
			panic("INFRA: " + err.Error())
		}
		var buf bytes.Buffer
		zw := zpool.Get().(*zlib.Writer)
		zw.Reset(&buf)
		fmt.Fprintf(zw, "%s %d\x00", o.Type, len(o.Data))
		zw.Write(o.Data)
		zw.Close()
		zpool.Put(zw)
		if err := os.WriteFile(p, buf.Bytes(), 0o444); err != nil {
			panic("INFRA: " + err.Error())
		}
	}
}

// Ref is a reference to create: name -> object id (hex), or a symbolic target.
type Ref struct {
	Name   string
	ID     string
	Symref string
}

// WriteRefs creates the references with one `git update-ref --stdin` (so git
// validates names and targets) plus `git symbolic-ref` for symbolic ones.
func WriteRefs(gitdir string, refs []Ref) {
	var in bytes.Buffer
	for _, r := range refs {
		if r.Symref == "" {
			fmt.Fprintf(&in, "update %s %s\n", r.Name, r.ID)
		}
	}
	if in.Len() > 0 {
		gitx.MustIn(gitdir, in.Bytes(), "update-ref", "--stdin")
	}
	for _, r := range refs {
		if r.Symref != "" {
			gitx.Must(gitdir, "symbolic-ref", r.Name, r.Symref)
		}
	}
}

// GenOpts bounds the generator.
type GenOpts struct {
	MaxCommits int
	MaxTags    int
	MaxEdits   int
	// TagChains > 0 adds, after the MaxTags independent tags, up to that many tag
	// chains: an annotated tag of a commit (sometimes of a tree or blob) followed by
	// 1-2 annotated tags each tagging the previous tag object. Zero keeps the draw
	// sequence of callers that do not set it.
	TagChains int
	// MinTagChains is the least number of chains drawn (only with TagChains > 0).
	MinTagChains int
	// SubtreeRecur > 0 draws, with that probability in percent, the history from the
	// subtree-recurrence family (GenRecur) instead: wide path universe, a focus
	// directory whose subtree object re-appears in several commits (directory
	// reverts, cherry-picks of a directory, merges taking a directory from the other
	// side) between variants that differ from it in different entries. Zero keeps
	// the draw sequence of callers that do not set it.
	SubtreeRecur int
}

// Gen draws a history: chains, merges (incl. criss-cross and octopus), new
// roots, reverts to earlier trees, arbitrary committer times.
func Gen(t *rapid.T, o GenOpts) Spec {
	if o.MaxCommits < 1 {
		o.MaxCommits = 8
	}
	if o.MaxEdits < 1 {
		o.MaxEdits = 3
	}
	if o.SubtreeRecur > 0 && rapid.IntRange(0, 99).Draw(t, "recurk") < o.SubtreeRecur {
		return GenRecur(t, o)
	}
	s := Spec{NBlobs: rapid.IntRange(1, 5).Draw(t, "nblobs")}
	n := rapid.IntRange(1, o.MaxCommits).Draw(t, "ncommits")
	monotone := rapid.IntRange(0, 4).Draw(t, "monotone") == 4
	for i := 0; i < n; i++ {
		c := Commit{Base: -1}
		if i > 0 {
			np := 1
			switch k := rapid.IntRange(0, 9).Draw(t, "npk"); {
			case k == 0:
				np = 0
			case k >= 6 && k <= 8:
				np = 2
			case k == 9:
				np = 3
			}
			for j := 0; j < np; j++ {
				if rapid.IntRange(0, 2).Draw(t, "near") > 0 {
					c.Parents = append(c.Parents, i-1-mod(j, i))
				} else {
					c.Parents = append(c.Parents, rapid.IntRange(0, i-1).Draw(t, "parent"))
				}
			}
			switch k := rapid.IntRange(0, 9).Draw(t, "basek"); {
			case k == 8:
				c.Base = rapid.IntRange(0, i-1).Draw(t, "revert")
			case k == 9:
				c.Base = -2
			}
		}
		ne := rapid.IntRange(0, o.MaxEdits).Draw(t, "nedits")
		for j := 0; j < ne; j++ {
			e := Edit{Path: rapid.IntRange(0, len(Paths)-1).Draw(t, "path"), Op: OpFile, Blob: rapid.IntRange(0, s.NBlobs-1).Draw(t, "blob")}
			switch k := rapid.IntRange(0, 11).Draw(t, "opk"); {
			case k == 8:
				e.Op = OpDelete
			case k == 9:
				e.Op = OpExec
			case k == 10:
				e.Op = OpSymlink
			case k == 11:
				e.Op = OpGitlink
				e.Blob = rapid.IntRange(0, 7).Draw(t, "gitlink")
			}
			c.Edits = append(c.Edits, e)
		}
		if monotone {
			c.Time = i
		} else {
			c.Time = rapid.IntRange(0, 30).Draw(t, "time")
		}
		s.Commits = append(s.Commits, c)
	}
	nt := rapid.IntRange(0, o.MaxTags).Draw(t, "ntags")
	for i := 0; i < nt; i++ {
		k := TagCommit
		switch v := rapid.IntRange(0, 9).Draw(t, "tagk"); {
		case v == 7:
			k = TagTree
		case v == 8:
			k = TagBlob
		case v == 9:
			k = TagTag
		}
		s.Tags = append(s.Tags, Tag{Kind: k, Idx: rapid.IntRange(0, n+2).Draw(t, "tagidx")})
	}
	if o.TagChains > 0 {
		nch := rapid.IntRange(min(o.MinTagChains, o.TagChains), o.TagChains).Draw(t, "ntagchains")
		for i := 0; i < nch; i++ {
			k := TagCommit
			switch v := rapid.IntRange(0, 7).Draw(t, "chainbasek"); {
			case v == 6:
				k = TagTree
			case v == 7:
				k = TagBlob
			}
			// late commits are the ones a second-phase transfer still has to deliver
			idx := rapid.IntRange(0, n-1).Draw(t, "chainbase")
			if rapid.IntRange(0, 1).Draw(t, "chainlate") == 1 {
				idx = n - 1 - rapid.IntRange(0, min(2, n-1)).Draw(t, "chainbaselate")
			}
			s.Tags = append(s.Tags, Tag{Kind: k, Idx: idx})
			for j, l := 0, rapid.IntRange(1, 2).Draw(t, "chainlen"); j < l; j++ {
				s.Tags = append(s.Tags, Tag{Kind: TagTag, Idx: len(s.Tags) - 1}) // Idx is taken modulo its own index: the previous tag
			}
		}
	}
	return s
}

// recurOldBlobs is the number of pool blobs the first commits of a GenRecur
// history draw from; later edits mostly bring content of their own.
const recurOldBlobs = 4

// GenRecur draws a history of the subtree-recurrence family. Layout: an optional
// unrelated root (commit 0), the populated root of the main line, then 3-9
// commits: edits (mostly below a focus directory, mostly introducing content no
// earlier commit has), restorations of a directory from an earlier commit
// (Graft), whole-tree reverts, merges that may take a directory from the second
// parent, forks from earlier commits. Nothing in it is more than a Spec: Build
// decides what the objects are.
func GenRecur(t *rapid.T, o GenOpts) Spec {
	s := Spec{PathSet: 1}
	if rapid.IntRange(0, 5).Draw(t, "narrowpaths") == 0 {
		s.PathSet = 0
	}
	paths, dirs := PathsOf(s.PathSet), DirsOf(s.PathSet)
	focus := rapid.IntRange(0, len(dirs)-1).Draw(t, "focusdir")
	var below []int // paths below the focus directory
	for i, p := range paths {
		if strings.HasPrefix(p, dirs[focus]+"/") {
			below = append(below, i)
		}
	}
	steps := rapid.IntRange(3, 9).Draw(t, "nsteps")
	side := rapid.IntRange(0, 1).Draw(t, "sideroot")
	n := side + 1 + steps
	s.NBlobs = recurOldBlobs + 2*n
	monotone := rapid.IntRange(0, 3).Draw(t, "monotone") > 0
	tm := func(i int) int {
		if monotone {
			return i
		}
		return rapid.IntRange(0, 30).Draw(t, "time")
	}
	edit := func(i, j int, inFocus bool) Edit {
		e := Edit{Op: OpFile}
		if inFocus && len(below) > 0 {
			e.Path = below[rapid.IntRange(0, len(below)-1).Draw(t, "focuspath")]
		} else {
			e.Path = rapid.IntRange(0, len(paths)-1).Draw(t, "path")
		}
		switch k := rapid.IntRange(0, 9).Draw(t, "blobk"); {
		case k < 6:
			e.Blob = recurOldBlobs + 2*i + j%2 // content of this commit's own
		case k < 8:
			e.Blob = rapid.IntRange(0, recurOldBlobs-1).Draw(t, "oldblob")
		default:
			e.Blob = rapid.IntRange(0, s.NBlobs-1).Draw(t, "blob")
		}
		switch k := rapid.IntRange(0, 11).Draw(t, "opk"); {
		case k == 9:
			e.Op = OpDelete
		case k == 10:
			e.Op = OpExec
		case k == 11:
			e.Op = OpSymlink
		}
		return e
	}
	if side == 1 {
		c := Commit{Base: -1, Time: tm(0)}
		for j, ne := 0, rapid.IntRange(1, 2).Draw(t, "nedits"); j < ne; j++ {
			c.Edits = append(c.Edits, edit(0, j, false))
		}
		s.Commits = append(s.Commits, c)
	}
	root := Commit{Base: -2, Time: tm(side)} // no parents: a root also at index 1
	for pi, p := range paths {
		isDir := false
		for _, d := range dirs {
			isDir = isDir || d == p
		}
		if isDir || rapid.IntRange(0, 4).Draw(t, "populate") == 0 {
			continue
		}
		root.Edits = append(root.Edits, Edit{Path: pi, Op: OpFile, Blob: rapid.IntRange(0, recurOldBlobs-1).Draw(t, "oldblob")})
	}
	s.Commits = append(s.Commits, root)
	tip := side // last commit of the main line
	for i := side + 1; i < n; i++ {
		c := Commit{Base: -1, Parents: []int{tip}, Time: tm(i)}
		any := func(label string) int { return rapid.IntRange(side, i-1).Draw(t, label) }
		dir := func() int {
			if rapid.IntRange(0, 4).Draw(t, "otherdir") == 0 {
				return rapid.IntRange(0, len(dirs)-1).Draw(t, "dir")
			}
			return focus
		}
		ne := 0
		switch k := rapid.IntRange(0, 11).Draw(t, "stepk"); {
		case k <= 3: // edit
			ne = rapid.IntRange(1, 2).Draw(t, "nedits")
		case k <= 7: // a directory as some earlier commit had it
			c.Grafts = []Graft{{Dir: dir(), From: any("graftfrom")}}
			ne = rapid.IntRange(0, 1).Draw(t, "nedits")
		case k == 8: // whole-tree revert
			c.Base = any("revert")
			ne = rapid.IntRange(0, 1).Draw(t, "nedits")
		case k <= 10: // merge
			other := any("mergeparent")
			c.Parents = append(c.Parents, other)
			if rapid.IntRange(0, 2).Draw(t, "takedir") > 0 {
				c.Grafts = []Graft{{Dir: dir(), From: other}}
			}
			ne = rapid.IntRange(0, 1).Draw(t, "nedits")
		default: // fork
			c.Parents = []int{any("forkparent")}
			ne = rapid.IntRange(1, 2).Draw(t, "nedits")
		}
		for j := 0; j < ne; j++ {
			c.Edits = append(c.Edits, edit(i, j, rapid.IntRange(0, 5).Draw(t, "infocus") > 0))
		}
		s.Commits = append(s.Commits, c)
		tip = i
	}
	nt := rapid.IntRange(0, min(o.MaxTags, 2)).Draw(t, "ntags")
	for i := 0; i < nt; i++ {
		s.Tags = append(s.Tags, Tag{Kind: rapid.IntRange(0, 3).Draw(t, "tagk"), Idx: rapid.IntRange(0, n+2).Draw(t, "tagidx")})
	}
	return s
}

// ChainBase follows tag index tip of the spec down to the first tag that does not
// tag a tag and returns that tag's kind (TagCommit, TagTree, TagBlob) and, for
// commits and trees, the commit index it resolves to (-1 for blobs or when the
// history has no commits), the way Build resolves them.
func ChainBase(s Spec, tip int) (kind, commit int) {
	i := mod(tip, len(s.Tags))
	for i > 0 && mod(s.Tags[i].Kind, 4) == TagTag {
		i = mod(s.Tags[i].Idx, i)
	}
	kind = mod(s.Tags[i].Kind, 4)
	if kind == TagTag {
		kind = TagCommit // tag 0 cannot tag a tag: Build falls back to a commit
	}
	if kind == TagBlob || len(s.Commits) == 0 {
		return kind, -1
	}
	return kind, mod(s.Tags[i].Idx, len(s.Commits))
}

// ChainTips returns, for every tag index of the spec that tags a tag and is not
// itself tagged by a later tag (the outermost tag of a chain of length >= 2), that
// index. It resolves indices the way Build does.
func ChainTips(s Spec) []int {
	inner := map[int]bool{}
	nested := map[int]bool{}
	for i, t := range s.Tags {
		if mod(t.Kind, 4) == TagTag && i > 0 {
			inner[mod(t.Idx, i)] = true
			nested[i] = true
		}
	}
	var out []int
	for i := range s.Tags {
		if nested[i] && !inner[i] {
			out = append(out, i)
		}
	}
	return out
}
