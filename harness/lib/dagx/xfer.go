package dagx

// Shared plumbing for the transfer properties (C36 fetch/clone, C38 push):
// repositories on disk made of generated objects, reference state set and read
// through real git, bounded git subprocesses, and the peers that pair go-git
// with real git (git daemon behind an injected dialer; verif-helper as
// --upload-pack/--receive-pack).

import (
	"bytes"
	"context"
	"errors"
	"fmt"
	"io"
	"net"
	"os"
	"os/exec"
	"path/filepath"
	"sort"
	"strings"
	"sync"
	"syscall"
	"time"

	"verif/harness/lib/gitx"
)

// ScratchDir creates a scratch directory ($VERIF_SCRATCH or /dev/shm).
func ScratchDir(prefix string) string {
	base := os.Getenv("VERIF_SCRATCH")
	if base == "" {
		base = "/dev/shm"
	}
	d, err := os.MkdirTemp(base, prefix)
	if err != nil {
		panic("INFRA: scratch: " + err.Error())
	}
	return d
}

// HelperPath is the verif-helper binary the driver built ($VERIF_BIN_DIR), or
// $VERIF_HELPER for runs by hand.
func HelperPath() string {
	if p := os.Getenv("VERIF_HELPER"); p != "" {
		return p
	}
	p := filepath.Join(os.Getenv("VERIF_BIN_DIR"), "verif-helper")
	if _, err := os.Stat(p); err != nil {
		panic("INFRA: verif-helper not built (config key helpers / VERIF_BIN_DIR): " + err.Error())
	}
	return p
}

// GitRes is the outcome of a bounded git invocation.
type GitRes struct {
	Out, Err string
	Code     int
	TimedOut bool
}

// GitT runs git with the sealed environment and a deadline; the whole process
// group is killed on expiry (git spawns helpers). Exit 129 and start failures
// are INFRA.
func GitT(timeout time.Duration, dir string, env []string, stdin []byte, args ...string) GitRes {
	ctx, cancel := context.WithTimeout(context.Background(), timeout)
	defer cancel()
	cmd := exec.Command("git", args...)
	cmd.Dir = dir
	cmd.Env = gitx.Env(env...)
	cmd.SysProcAttr = &syscall.SysProcAttr{Setpgid: true}
	if stdin != nil {
		cmd.Stdin = bytes.NewReader(stdin)
	}
	var so, se bytes.Buffer
	cmd.Stdout, cmd.Stderr = &so, &se
	if err := cmd.Start(); err != nil {
		panic("INFRA: git start: " + err.Error())
	}
	done := make(chan error, 1)
	go func() { done <- cmd.Wait() }()
	var err error
	timedOut := false
	select {
	case err = <-done:
	case <-ctx.Done():
		timedOut = true
		syscall.Kill(-cmd.Process.Pid, syscall.SIGKILL)
		err = <-done
	}
	r := GitRes{Out: so.String(), Err: se.String(), TimedOut: timedOut}
	if err != nil {
		var ee *exec.ExitError
		if errors.As(err, &ee) {
			r.Code = ee.ExitCode()
			if r.Code == 129 && !timedOut {
				panic(fmt.Sprintf("INFRA: git %v: usage error: %s", args, r.Err))
			}
		} else if !timedOut {
			panic(fmt.Sprintf("INFRA: git %v: %v", args, err))
		}
		if r.Code == 0 {
			r.Code = -1
		}
	}
	return r
}

// InitBare creates an empty bare repository whose HEAD names refs/heads/main.
func InitBare(dir string) { gitx.Init(dir, true, "") }

// ListRefs returns refname -> object id of every reference (HEAD excluded).
func ListRefs(gitdir string) map[string]string {
	out := gitx.Must(gitdir, "for-each-ref", "--format=%(refname) %(objectname)")
	m := map[string]string{}
	for _, l := range strings.Split(out, "\n") {
		if f := strings.Fields(l); len(f) == 2 {
			m[f[0]] = f[1]
		}
	}
	return m
}

// SetRefs makes the repository's references exactly refs (name -> id) and
// points HEAD (symbolically) at head.
func SetRefs(gitdir string, refs map[string]string, head string) {
	cur := ListRefs(gitdir)
	var in bytes.Buffer
	var names []string
	for n := range cur {
		if _, ok := refs[n]; !ok {
			names = append(names, n)
		}
	}
	sort.Strings(names)
	for _, n := range names {
		fmt.Fprintf(&in, "delete %s\n", n)
	}
	names = names[:0]
	for n := range refs {
		names = append(names, n)
	}
	sort.Strings(names)
	for _, n := range names {
		if cur[n] != refs[n] {
			fmt.Fprintf(&in, "update %s %s\n", n, refs[n])
		}
	}
	if in.Len() > 0 {
		gitx.MustIn(gitdir, in.Bytes(), "update-ref", "--stdin")
	}
	if head != "" {
		gitx.Must(gitdir, "symbolic-ref", "HEAD", head)
	}
}

// Fsck runs git fsck --connectivity-only (it honours the shallow file).
func Fsck(gitdir string) (bool, string) {
	out, errs, code := gitx.Try(gitdir, "fsck", "--connectivity-only", "--no-dangling", "--no-progress")
	return code == 0, strings.TrimSpace(out + "\n" + errs)
}

// Shallow returns the sorted contents of the shallow file.
func Shallow(gitdir string) []string {
	b, err := os.ReadFile(filepath.Join(gitdir, "shallow"))
	if err != nil {
		return nil
	}
	var out []string
	for _, l := range strings.Split(string(b), "\n") {
		if l = strings.TrimSpace(l); l != "" {
			out = append(out, l)
		}
	}
	sort.Strings(out)
	return out
}

// Daemons tracks `git daemon --inetd` children spawned by a dialer so they can
// be reaped when a case ends.
type Daemons struct {
	mu    sync.Mutex
	cmds  []*exec.Cmd
	conns []net.Conn
}

// Dialer returns a dial function for go-git's git:// transport: every
// connection is served by a fresh `git daemon --inetd` exporting basePath, so
// the peer is real git (upload-pack and receive-pack) and no socket is needed.
func (d *Daemons) Dialer(basePath string) func(ctx context.Context, network, addr string) (net.Conn, error) {
	return func(ctx context.Context, network, addr string) (net.Conn, error) {
		c1, c2 := net.Pipe()
		cmd := exec.Command("git", "daemon", "--inetd", "--export-all", "--base-path="+basePath, "--enable=receive-pack", "--informative-errors")
		cmd.Env = gitx.Env()
		cmd.SysProcAttr = &syscall.SysProcAttr{Setpgid: true}
		stdin, err := cmd.StdinPipe()
		if err != nil {
			return nil, err
		}
		stdout, err := cmd.StdoutPipe()
		if err != nil {
			return nil, err
		}
		if err := cmd.Start(); err != nil {
			return nil, err
		}
		d.mu.Lock()
		d.cmds = append(d.cmds, cmd)
		d.conns = append(d.conns, c2)
		d.mu.Unlock()
		go func() { io.Copy(stdin, c2); stdin.Close() }()
		go func() { io.Copy(c2, stdout); c2.Close() }()
		return c1, nil
	}
}

// Close kills and reaps every daemon.
func (d *Daemons) Close() {
	d.mu.Lock()
	defer d.mu.Unlock()
	for _, c := range d.conns {
		c.Close()
	}
	for _, c := range d.cmds {
		if c.Process != nil {
			syscall.Kill(-c.Process.Pid, syscall.SIGKILL)
		}
		c.Wait()
	}
	d.cmds, d.conns = nil, nil
}

// ExtraCommit builds a commit object that is not part of any Spec: a child of
// parentID with the given tree, used to give a client local-only history.
func ExtraCommit(parentID, treeID string, n int) Obj {
	var buf bytes.Buffer
	fmt.Fprintf(&buf, "tree %s\n", treeID)
	if parentID != "" {
		fmt.Fprintf(&buf, "parent %s\n", parentID)
	}
	tm := BaseTime + 1000 + n
	fmt.Fprintf(&buf, "author L Ocal <local@example.com> %d +0000\ncommitter L Ocal <local@example.com> %d +0000\n\nlocal %d\n", tm, tm, n)
	b := &Built{Index: map[string]int{}}
	i := b.add("commit", buf.Bytes(), nil)
	return b.Objs[i]
}

// WriteObj writes one loose object.
func WriteObj(gitdir string, o Obj) {
	b := &Built{Objs: []Obj{o}}
	b.WriteLoose(gitdir, nil)
}

// TreeOfCommit returns the tree id recorded in a raw commit object.
func TreeOfCommit(data []byte) string {
	if bytes.HasPrefix(data, []byte("tree ")) && len(data) >= 45 {
		return string(data[5:45])
	}
	return ""
}
