// Package deps pins the harness-only dependencies in go.mod/go.sum.
package deps

import (
	_ "github.com/anishathalye/porcupine"
	_ "github.com/go-git/go-billy/v6/memfs"
	_ "github.com/go-git/go-billy/v6/osfs"
	_ "github.com/go-git/go-git/v6"
	_ "github.com/go-git/go-git/v6/backend"
	_ "github.com/go-git/go-git/v6/plumbing/transport/ssh"
	_ "golang.org/x/sync/errgroup"
	_ "pgregory.net/rapid"
)
