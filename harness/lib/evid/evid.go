// Package evid is the glue between a property check and the driver: it runs a
// serialisable case through an oracle, classifies it, suppresses failures that
// the committed KNOWN_FINDINGS.txt lists (only when the driver has confirmed the
// witness still fails: VERIF_KNOWN), records the last (i.e. shrunk) failing case
// and writes per-shard statistics that the driver merges into evidence/<id>.json.
package evid

import (
	"encoding/json"
	"fmt"
	"hash/fnv"
	"os"
	"runtime/debug"
	"sort"
	"strconv"
	"strings"
	"sync"
	"testing"
	"time"

	"pgregory.net/rapid"
)

// Failure describes one violation of the property on one case.
type Failure struct {
	Sig string `json:"sig"` // narrow signature: entry point + shape of the minimal case
	Msg string `json:"msg"`
}

// Result is what an oracle returns for one case.
type Result struct {
	Key        string   // canonical key for distinctness ("" = JSON of the case)
	NonTrivial bool     // by the property's stated rule
	Labels     []string // classification, for the histogram
	Discard    bool     // outside the property's domain (counted, never a pass)
	Fail       *Failure
}

// Failf builds a failing result.
func Failf(sig, format string, a ...any) *Failure {
	return &Failure{Sig: sig, Msg: fmt.Sprintf(format, a...)}
}

// Recorder accumulates statistics for one test function in one process.
type Recorder struct {
	mu        sync.Mutex
	ID, Test  string
	start     time.Time
	evals     int
	discarded int
	distinct  map[uint64]struct{}
	labels    map[string]int
	samples   []json.RawMessage
	nsamples  int
	knownHits map[string]int
	known     map[string]bool
	failed    bool
	lastFail  *failRec
	Extra     map[string]any
	exhaust   bool
}

type failRec struct {
	Sig  string          `json:"sig"`
	Msg  string          `json:"msg"`
	Case json.RawMessage `json:"case"`
}

// Tier returns "quick" or "thorough".
func Tier() string {
	if os.Getenv("VERIF_TIER") == "thorough" {
		return "thorough"
	}
	return "quick"
}

// Thorough reports whether the thorough tier is running.
func Thorough() bool { return Tier() == "thorough" }

// Seed returns VERIF_SEED (default 1).
func Seed() int64 {
	n, err := strconv.ParseInt(os.Getenv("VERIF_SEED"), 10, 64)
	if err != nil {
		return 1
	}
	return n
}

// Shard returns (index, count) of this process among the driver's shards.
func Shard() (int, int) {
	i, _ := strconv.Atoi(os.Getenv("VERIF_SHARD"))
	n, _ := strconv.Atoi(os.Getenv("VERIF_NSHARDS"))
	if n <= 0 {
		n = 1
	}
	return i, n
}

// N returns the per-shard case budget the driver passed for non-rapid loops
// (VERIF_N), or def.
func N(def int) int {
	if n, err := strconv.Atoi(os.Getenv("VERIF_N")); err == nil && n > 0 {
		return n
	}
	return def
}

// Scratch returns a fresh scratch directory under /dev/shm removed at test end.
func Scratch(t testing.TB) string {
	base := os.Getenv("VERIF_SCRATCH")
	if base == "" {
		base = "/dev/shm"
	}
	d, err := os.MkdirTemp(base, "vf-")
	if err != nil {
		t.Fatalf("INFRA: scratch: %v", err)
	}
	t.Cleanup(func() { os.RemoveAll(d) })
	return d
}

// Open creates a recorder; statistics are written at test cleanup to
// $VERIF_OUT (if set).
func Open(t testing.TB, id string) *Recorder {
	r := &Recorder{ID: id, Test: t.Name(), start: time.Now(),
		distinct: map[uint64]struct{}{}, labels: map[string]int{},
		knownHits: map[string]int{}, known: map[string]bool{}, Extra: map[string]any{}}
	for _, s := range strings.Split(os.Getenv("VERIF_KNOWN"), "\x1f") {
		if s != "" {
			r.known[s] = true
		}
	}
	t.Cleanup(func() { r.flush(t) })
	return r
}

// IsKnown reports whether sig is a confirmed-open known finding (its witness
// still fails on the current tree), so generators can steer around it.
func (r *Recorder) IsKnown(sig string) bool { return r.known[sig] }

// SetExhaustive marks the run as a complete enumeration of a finite space.
func (r *Recorder) SetExhaustive() { r.exhaust = true }

func hash64(s string) uint64 {
	h := fnv.New64a()
	h.Write([]byte(s))
	return h.Sum64()
}

func trunc(b []byte, n int) json.RawMessage {
	if len(b) <= n {
		return b
	}
	s, _ := json.Marshal(string(b[:n]) + "…(truncated)")
	return s
}

// Record registers one evaluated case and returns the failure to report, or nil
// (a known finding is counted and swallowed).
func (r *Recorder) Record(c any, res Result) *Failure {
	cj, err := json.Marshal(c)
	if err != nil {
		cj, _ = json.Marshal(fmt.Sprintf("%+v", c))
	}
	r.mu.Lock()
	defer r.mu.Unlock()
	if res.Fail != nil && r.known[res.Fail.Sig] {
		r.knownHits[res.Fail.Sig]++
		res.Fail = nil
		res.Labels = append(res.Labels, "known-finding-hit")
	}
	if res.Fail != nil {
		r.failed = true
		r.lastFail = &failRec{Sig: res.Fail.Sig, Msg: res.Fail.Msg, Case: cj}
		return res.Fail
	}
	if r.failed { // shrinking phase: not part of the statistics
		return nil
	}
	if res.Discard {
		r.discarded++
		return nil
	}
	r.evals++
	for _, l := range res.Labels {
		r.labels[l]++
	}
	if res.NonTrivial {
		k := res.Key
		if k == "" {
			k = string(cj)
		}
		h := hash64(r.Test + "\x00" + k)
		if _, ok := r.distinct[h]; !ok {
			r.distinct[h] = struct{}{}
			// deterministic sampling: the 1st, 2nd, 4th, 8th ... distinct non-trivial case
			n := len(r.distinct)
			if n&(n-1) == 0 && len(r.samples) < 12 {
				r.samples = append(r.samples, trunc(cj, 1500))
			}
		}
	} else if r.nsamples < 1 {
		r.nsamples++
		r.samples = append(r.samples, trunc(cj, 600))
	}
	return nil
}

type shardOut struct {
	ID         string            `json:"id"`
	Test       string            `json:"test"`
	Evals      int               `json:"evaluations"`
	Discarded  int               `json:"discarded"`
	Distinct   []string          `json:"distinct_hashes"`
	Labels     map[string]int    `json:"labels"`
	Samples    []json.RawMessage `json:"samples"`
	KnownHits  map[string]int    `json:"known_hits"`
	Failure    *failRec          `json:"failure,omitempty"`
	Extra      map[string]any    `json:"extra,omitempty"`
	Exhaustive bool              `json:"exhaustive,omitempty"`
	WallS      float64           `json:"wall_s"`
	TestFailed bool              `json:"test_failed"`
}

func (r *Recorder) flush(t testing.TB) {
	out := os.Getenv("VERIF_OUT")
	if out == "" {
		return
	}
	r.mu.Lock()
	defer r.mu.Unlock()
	so := shardOut{ID: r.ID, Test: r.Test, Evals: r.evals, Discarded: r.discarded, Labels: r.labels,
		Samples: r.samples, KnownHits: r.knownHits, Failure: r.lastFail, Extra: r.Extra,
		Exhaustive: r.exhaust, WallS: time.Since(r.start).Seconds(), TestFailed: t.Failed()}
	hs := make([]uint64, 0, len(r.distinct))
	for h := range r.distinct {
		hs = append(hs, h)
	}
	sort.Slice(hs, func(i, j int) bool { return hs[i] < hs[j] })
	if len(hs) > 2_000_000 {
		hs = hs[:2_000_000]
	}
	for _, h := range hs {
		so.Distinct = append(so.Distinct, strconv.FormatUint(h, 36))
	}
	b, _ := json.Marshal(so)
	f, err := os.OpenFile(out, os.O_APPEND|os.O_CREATE|os.O_WRONLY, 0o644)
	if err != nil {
		t.Logf("INFRA: cannot write %s: %v", out, err)
		return
	}
	f.Write(append(b, '\n'))
	f.Close()
}

// Safe runs check, turning a panic into a failure with a signature naming the
// innermost non-runtime frame.
func Safe[C any](check func(C) Result, c C) (res Result) {
	defer func() {
		if p := recover(); p != nil {
			st := string(debug.Stack())
			if ps, ok := p.(string); ok && strings.HasPrefix(ps, "INFRA:") {
				res = Result{Fail: &Failure{Sig: "INFRA", Msg: ps}}
				return
			}
			res = Result{NonTrivial: true, Fail: &Failure{Sig: "panic:" + panicSite(st), Msg: fmt.Sprintf("panic: %v\n%s", p, st)}}
		}
	}()
	return check(c)
}

func panicSite(st string) string {
	lines := strings.Split(st, "\n")
	seenPanic := false
	for _, l := range lines {
		if strings.HasPrefix(l, "panic(") {
			seenPanic = true
			continue
		}
		if !seenPanic || strings.HasPrefix(l, "\t") || strings.HasPrefix(l, "runtime.") || l == "" {
			continue
		}
		if i := strings.LastIndex(l, "("); i > 0 {
			l = l[:i]
		}
		if i := strings.LastIndex(l, "/"); i >= 0 {
			l = l[i+1:]
		}
		return l
	}
	return "unknown"
}

// Spec is a property stated over serialisable cases.
type Spec[C any] struct {
	ID    string
	Gen   func(t *rapid.T, r *Recorder) C
	Check func(c C) Result // deterministic in c and the code under test
}

type replayFile struct {
	Property string          `json:"property"`
	Test     string          `json:"test"`
	Sig      string          `json:"sig,omitempty"`
	Msg      string          `json:"msg,omitempty"`
	Case     json.RawMessage `json:"case"`
}

// Run drives spec with rapid, or replays $VERIF_REPLAY (a case file) without
// rapid when that is set and names this test.
func Run[C any](t *testing.T, spec Spec[C]) {
	if p := os.Getenv("VERIF_REPLAY"); p != "" {
		replay(t, spec, p)
		return
	}
	r := Open(t, spec.ID)
	track := os.Getenv("VERIF_TRACK_CURRENT") != ""
	rapid.Check(t, func(rt *rapid.T) {
		c := spec.Gen(rt, r)
		if track {
			MarkCurrent(spec.ID, t.Name(), c)
		}
		res := Safe(spec.Check, c)
		if f := r.Record(c, res); f != nil {
			rt.Fatalf("[%s] %s", f.Sig, f.Msg)
		}
	})
}

// Each evaluates check on explicitly enumerated cases (no rapid): used for
// exhaustive sub-spaces and corpus replays. Stops at the first new failure.
func Each[C any](t *testing.T, r *Recorder, check func(C) Result, c C) bool {
	res := Safe(check, c)
	if f := r.Record(c, res); f != nil {
		t.Errorf("[%s] %s", f.Sig, f.Msg)
		return false
	}
	return true
}

func replay[C any](t *testing.T, spec Spec[C], path string) {
	b, err := os.ReadFile(path)
	if err != nil {
		t.Fatalf("INFRA: %v", err)
	}
	var rf replayFile
	if err := json.Unmarshal(b, &rf); err != nil {
		t.Fatalf("INFRA: bad replay file %s: %v", path, err)
	}
	if rf.Test != "" && rf.Test != t.Name() {
		t.Skipf("replay file is for %s", rf.Test)
	}
	var c C
	if err := json.Unmarshal(rf.Case, &c); err != nil {
		t.Fatalf("INFRA: bad case in %s: %v", path, err)
	}
	res := Safe(spec.Check, c)
	out := map[string]any{"replay": path, "test": t.Name(), "failed": res.Fail != nil}
	if res.Fail != nil {
		out["sig"] = res.Fail.Sig
		out["msg"] = res.Fail.Msg
	}
	if o := os.Getenv("VERIF_OUT"); o != "" {
		jb, _ := json.Marshal(out)
		f, err := os.OpenFile(o, os.O_APPEND|os.O_CREATE|os.O_WRONLY, 0o644)
		if err == nil {
			f.Write(append(jb, '\n'))
			f.Close()
		}
	}
	if res.Fail != nil {
		t.Errorf("[%s] %s", res.Fail.Sig, res.Fail.Msg)
	}
}

// MarkCurrent persists the case about to be evaluated so that the driver can
// attribute a process crash or hang (fatal error, out of memory, infinite loop)
// to it. Used by checks whose property is "never crashes or hangs".
func MarkCurrent(id, test string, c any) {
	dir := os.Getenv("VERIF_SCRATCH")
	if dir == "" {
		return
	}
	cj, err := json.Marshal(c)
	if err != nil {
		return
	}
	b, _ := json.Marshal(replayFile{Property: id, Test: test, Sig: "crash-or-hang", Case: cj})
	tmp := dir + "/current-case.json.tmp"
	if os.WriteFile(tmp, b, 0o644) == nil {
		os.Rename(tmp, dir+"/current-case.json")
	}
}

// Fuzz wires a native fuzz target to the same oracle as the rapid test:
// mk decodes fuzzer bytes into a case, check is the oracle, replayTest is the
// name of the regular test whose replay path (evid.Run) accepts the same case
// type. With VERIF_FUZZ_EXPORT=<path> the target only writes the case as a
// replay file (used by the driver to convert a Go fuzz crasher).
func Fuzz[C any](f *testing.F, id, replayTest string, mk func([]byte) C, check func(C) Result) {
	known := map[string]bool{}
	for _, s := range strings.Split(os.Getenv("VERIF_KNOWN"), "\x1f") {
		if s != "" {
			known[s] = true
		}
	}
	export := os.Getenv("VERIF_FUZZ_EXPORT")
	f.Fuzz(func(t *testing.T, data []byte) {
		c := mk(data)
		if export != "" {
			cj, _ := json.Marshal(c)
			b, _ := json.Marshal(replayFile{Property: id, Test: replayTest, Sig: "fuzz-crasher", Case: cj})
			os.WriteFile(export, b, 0o644)
			return
		}
		res := Safe(check, c)
		if res.Fail != nil && res.Fail.Sig != "INFRA" && !known[res.Fail.Sig] {
			t.Fatalf("[%s] %s", res.Fail.Sig, res.Fail.Msg)
		}
	})
}
