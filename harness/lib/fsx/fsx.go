// Package fsx provides billy.Filesystem wrappers used by the fault / crash
// enumeration checks (C20, C21, C29):
//
//   - recfs   : records every filesystem call (kind, normalised path, go-git
//     call site) without changing behaviour (a Ctl with no plan);
//   - faultfs : makes exactly one chosen call return an injected error without
//     executing it; every other call is passed through (Ctl.FailSeq /
//     Ctl.FailMatch);
//   - crashfs : models a process stop: the k-th *mutating* call and every call
//     after it return an error and touch nothing ("freeze"), so deferred
//     clean-ups of the code under test cannot tidy up what a dead process could
//     not tidy up either. Optionally the k-th call, when it is a Write, applies
//     a proper prefix of its bytes first (torn final write) (Ctl.CrashAt).
//
// One Ctl can wrap several filesystems (dotgit and worktree): the call
// numbering is global over all of them, which is what "the process stops" means.
//
// Everything is deterministic: no clock, no RNG. Temp-file names (random in
// billy) are normalised in the trace.
package fsx

import (
	"errors"
	"fmt"
	"io"
	"io/fs"
	"os"
	"path"
	"regexp"
	"runtime"
	"strings"
	"sync"

	"github.com/go-git/go-billy/v6"
)

// ErrInjected is the error returned by the single failed call of a fault plan.
var ErrInjected = &fs.PathError{Op: "fsx", Path: "injected", Err: errors.New("injected I/O error")}

// ErrCrashed is returned by every call at and after the crash point.
var ErrCrashed = errors.New("fsx: process stopped (crash point reached)")

// Event is one intercepted call.
type Event struct {
	Seq    int    // index among all intercepted calls
	MutSeq int    // index among mutating calls, -1 when the call does not mutate
	FS     string // label given to Wrap ("dotgit", "wt")
	Op     string // create open openfile stat lstat rename remove readdir mkdirall symlink readlink tempfile chmod | write writeat read readat truncate close sync lock fstat
	Path   string // path relative to the wrapped root, temp names and object ids normalised
	Raw    string // path relative to the wrapped root, as passed
	Arg    string // flags / sizes
	Site   string // innermost go-git function on the stack
	// ClassNth is the ordinal of this call among the calls with the same FS, Op,
	// (normalised) Path and Site: an address that survives reordering of
	// independent calls, unlike Seq / MutSeq.
	ClassNth int
}

// Address returns the Match that selects exactly this call in a re-execution.
func (e Event) Address() Match {
	return Match{FS: e.FS, Op: e.Op, Path: e.Path, Site: e.Site, Nth: e.ClassNth, Exact: true}
}

func (e Event) String() string {
	s := fmt.Sprintf("%s:%s %s", e.FS, e.Op, e.Path)
	if e.Arg != "" {
		s += " " + e.Arg
	}
	return s + " @" + e.Site
}

// Match selects calls for a fault plan by class instead of by sequence number.
type Match struct {
	FS  string // "" = any
	Op  string // exact op kind; "*" = any call
	Nth int    // the Nth call (0-based) satisfying all the filters
	// optional filters, for hand-written witnesses that should survive
	// unrelated changes of the call sequence
	Path string // "" = any; else the path as passed (relative to the wrapped root)
	Site string // "" = any; else a substring of the go-git call site
	// Exact: Path is compared with the normalised path and Site must be equal
	// (the form produced by Event.Address).
	Exact bool `json:",omitempty"`
}

func (m *Match) matches(label, op, raw, norm, site string) bool {
	if !(m.Op == op || m.Op == "*") || !(m.FS == "" || m.FS == label) {
		return false
	}
	if m.Exact {
		return m.Path == norm && m.Site == site
	}
	return (m.Path == "" || m.Path == raw) && (m.Site == "" || strings.Contains(site, m.Site))
}

// Ctl is the shared controller of a set of wrapped filesystems.
type Ctl struct {
	mu     sync.Mutex
	events []Event
	keep   bool
	nAll   int
	nMut   int

	failSeq   int
	failMatch *Match
	matchSeen int

	crashAt    int
	crashMatch *Match
	torn       int
	dead       bool
	classSeen  map[string]int

	fired *Event
	tmp   map[string]string
	ntmp  int
}

// NewCtl returns a controller that only records (recfs). keepTrace=false keeps
// counters and the fired event only.
func NewCtl(keepTrace bool) *Ctl {
	return &Ctl{keep: keepTrace, failSeq: -1, crashAt: -1, tmp: map[string]string{}, classSeen: map[string]int{}}
}

// FailSeq plans one injected error at the call with sequence number seq.
func (c *Ctl) FailSeq(seq int) *Ctl { c.failSeq = seq; return c }

// FailMatch plans one injected error at the Nth call of a class.
func (c *Ctl) FailMatch(m Match) *Ctl { c.failMatch = &m; return c }

// CrashAt plans a freeze at the k-th mutating call (0-based). torn>0 lets that
// call, when it is a Write/WriteAt of n>=2 bytes, apply 1+(torn-1)%(n-1) bytes.
func (c *Ctl) CrashAt(k, torn int) *Ctl { c.crashAt = k; c.torn = torn; return c }

// CrashMatch plans a freeze at the mutating call selected by m (Event.Address
// form: the Nth call of its class).
func (c *Ctl) CrashMatch(m Match, torn int) *Ctl { c.crashMatch = &m; c.torn = torn; return c }

// Disarm removes every plan (the controller keeps recording). A frozen
// controller stays frozen.
func (c *Ctl) Disarm() {
	c.mu.Lock()
	c.failSeq, c.failMatch, c.crashAt, c.crashMatch = -1, nil, -1, nil
	c.mu.Unlock()
}

// Reset forgets the trace, the counters and the fired event, and unfreezes.
func (c *Ctl) Reset() {
	c.mu.Lock()
	c.events, c.nAll, c.nMut, c.matchSeen, c.fired, c.dead = nil, 0, 0, 0, nil, false
	c.failSeq, c.failMatch, c.crashAt, c.crashMatch, c.torn = -1, nil, -1, nil, 0
	c.classSeen = map[string]int{}
	c.mu.Unlock()
}

// Armed reports whether a fault or crash plan is set.
func (c *Ctl) Armed() bool {
	c.mu.Lock()
	defer c.mu.Unlock()
	return c.crashAt >= 0 || c.crashMatch != nil || c.failSeq >= 0 || c.failMatch != nil
}

// Calls returns the number of intercepted calls.
func (c *Ctl) Calls() int { c.mu.Lock(); defer c.mu.Unlock(); return c.nAll }

// Mutations returns the number of mutating calls executed (or reached).
func (c *Ctl) Mutations() int { c.mu.Lock(); defer c.mu.Unlock(); return c.nMut }

// Dead reports whether the crash point was reached.
func (c *Ctl) Dead() bool { c.mu.Lock(); defer c.mu.Unlock(); return c.dead }

// Fired returns the call at which the fault or the crash happened, or nil.
func (c *Ctl) Fired() *Event {
	c.mu.Lock()
	defer c.mu.Unlock()
	if c.fired == nil {
		return nil
	}
	e := *c.fired
	return &e
}

// Trace returns a copy of the recorded events.
func (c *Ctl) Trace() []Event {
	c.mu.Lock()
	defer c.mu.Unlock()
	return append([]Event(nil), c.events...)
}

type verdict int

const (
	vRun verdict = iota
	vFail
	vCrash     // frozen: do nothing
	vCrashTorn // frozen, but a write may apply a prefix first
)

var (
	reHexPath = regexp.MustCompile(`(^|/)[0-9a-f]{2}/[0-9a-f]{38,62}`)
	reHex     = regexp.MustCompile(`[0-9a-f]{12,64}`)
	reTmpNum  = regexp.MustCompile(`[0-9]{5,}`)
)

func normPath(p string) string {
	p = reHexPath.ReplaceAllString(p, "${1}XX/H")
	p = reHex.ReplaceAllString(p, "H")
	p = reTmpNum.ReplaceAllString(p, "N")
	return p
}

// site returns the innermost go-git frame of the caller, skipping go-git's own
// thin filesystem / io helpers so that the name says which logic made the call.
func site() string {
	var pcs [48]uintptr
	n := runtime.Callers(3, pcs[:])
	frames := runtime.CallersFrames(pcs[:n])
	const mod = "github.com/go-git/go-git/v6"
	for {
		f, more := frames.Next()
		fn := f.Function
		if strings.HasPrefix(fn, mod) {
			fn = strings.TrimPrefix(fn, mod)
			fn = strings.TrimPrefix(fn, "/")
			fn = strings.TrimPrefix(fn, ".")
			skip := strings.Contains(fn, "worktreeFilesystem") || strings.HasPrefix(fn, "utils/ioutil") ||
				strings.HasPrefix(fn, "utils/sync") || strings.HasPrefix(fn, "utils/trace") || strings.HasPrefix(fn, "utils/binary")
			if !skip {
				if fn == "" {
					fn = "git"
				}
				return fn
			}
		}
		if !more {
			return "?"
		}
	}
}

// step registers a call and decides what happens to it.
func (c *Ctl) step(label, op, raw, arg string, mut bool) verdict {
	st := site()
	c.mu.Lock()
	defer c.mu.Unlock()
	if c.dead {
		return vCrash
	}
	p := raw
	if t, ok := c.tmp[label+"\x00"+raw]; ok {
		p = t
	}
	norm := normPath(p)
	ck := label + "\x00" + op + "\x00" + norm + "\x00" + st
	ev := Event{Seq: c.nAll, MutSeq: -1, FS: label, Op: op, Path: norm, Raw: raw, Arg: arg, Site: st, ClassNth: c.classSeen[ck]}
	c.classSeen[ck]++
	if mut {
		ev.MutSeq = c.nMut
	}
	c.nAll++
	v := vRun
	switch {
	case mut && ((c.crashAt >= 0 && ev.MutSeq == c.crashAt) ||
		(c.crashMatch != nil && c.crashMatch.matches(label, op, raw, norm, st) && ev.ClassNth == c.crashMatch.Nth)):
		c.dead = true
		v = vCrash
		if c.torn > 0 && (op == "write" || op == "writeat") {
			v = vCrashTorn
		}
	case c.failSeq >= 0 && ev.Seq == c.failSeq:
		v = vFail
	case c.failMatch != nil && c.fired == nil && c.failMatch.matches(label, op, raw, norm, st):
		if c.failMatch.Exact {
			if ev.ClassNth == c.failMatch.Nth {
				v = vFail
			}
		} else {
			if c.matchSeen == c.failMatch.Nth {
				v = vFail
			}
			c.matchSeen++
		}
	}
	if mut {
		c.nMut++
	}
	if v != vRun {
		e := ev
		c.fired = &e
	}
	if c.keep {
		c.events = append(c.events, ev)
	}
	return v
}

func (c *Ctl) noteTemp(label, raw, dir, prefix string) {
	c.mu.Lock()
	c.tmp[label+"\x00"+raw] = path.Join(dir, prefix+fmt.Sprintf("<tmp%d>", c.ntmp))
	c.ntmp++
	c.mu.Unlock()
}

func (c *Ctl) noteRename(label, from, to string) {
	c.mu.Lock()
	delete(c.tmp, label+"\x00"+from)
	c.mu.Unlock()
}

// FS is the wrapper.
type FS struct {
	under  billy.Filesystem
	c      *Ctl
	label  string
	prefix string // path of this (chrooted) view relative to the wrapped root
}

// Wrap wraps under; label names the filesystem in events.
func (c *Ctl) Wrap(under billy.Filesystem, label string) *FS {
	return &FS{under: under, c: c, label: label}
}

// Under returns the wrapped filesystem.
func (s *FS) Under() billy.Filesystem { return s.under }

func (s *FS) rel(name string) string {
	if s.prefix == "" {
		return path.Clean(name)
	}
	return path.Join(s.prefix, name)
}

func (s *FS) do(op, name, arg string, mut bool) error {
	switch s.c.step(s.label, op, s.rel(name), arg, mut) {
	case vFail:
		return &fs.PathError{Op: op, Path: name, Err: ErrInjected.Err}
	case vCrash, vCrashTorn:
		return ErrCrashed
	}
	return nil
}

func (s *FS) wrapFile(f billy.File, err error, name string) (billy.File, error) {
	if err != nil {
		return nil, err
	}
	return &File{File: f, s: s, name: s.rel(name)}, nil
}

func (s *FS) Create(name string) (billy.File, error) {
	if err := s.do("create", name, "", true); err != nil {
		return nil, err
	}
	f, err := s.under.Create(name)
	return s.wrapFile(f, err, name)
}

func (s *FS) Open(name string) (billy.File, error) {
	if err := s.do("open", name, "", false); err != nil {
		return nil, err
	}
	f, err := s.under.Open(name)
	return s.wrapFile(f, err, name)
}

func flagString(flag int) string {
	var b []string
	switch flag & (os.O_RDONLY | os.O_WRONLY | os.O_RDWR) {
	case os.O_WRONLY:
		b = append(b, "WRONLY")
	case os.O_RDWR:
		b = append(b, "RDWR")
	default:
		b = append(b, "RDONLY")
	}
	for _, x := range []struct {
		f int
		n string
	}{{os.O_CREATE, "CREATE"}, {os.O_EXCL, "EXCL"}, {os.O_TRUNC, "TRUNC"}, {os.O_APPEND, "APPEND"}} {
		if flag&x.f != 0 {
			b = append(b, x.n)
		}
	}
	return strings.Join(b, "|")
}

func (s *FS) OpenFile(name string, flag int, perm fs.FileMode) (billy.File, error) {
	mut := flag&(os.O_CREATE|os.O_TRUNC) != 0
	if err := s.do("openfile", name, flagString(flag), mut); err != nil {
		return nil, err
	}
	f, err := s.under.OpenFile(name, flag, perm)
	return s.wrapFile(f, err, name)
}

func (s *FS) Stat(name string) (fs.FileInfo, error) {
	if err := s.do("stat", name, "", false); err != nil {
		return nil, err
	}
	return s.under.Stat(name)
}

func (s *FS) Lstat(name string) (fs.FileInfo, error) {
	if err := s.do("lstat", name, "", false); err != nil {
		return nil, err
	}
	return s.under.Lstat(name)
}

func (s *FS) Rename(from, to string) error {
	if err := s.do("rename", from, "-> "+normPath(s.rel(to)), true); err != nil {
		return err
	}
	err := s.under.Rename(from, to)
	if err == nil {
		s.c.noteRename(s.label, s.rel(from), s.rel(to))
	}
	return err
}

func (s *FS) Remove(name string) error {
	if err := s.do("remove", name, "", true); err != nil {
		return err
	}
	return s.under.Remove(name)
}

func (s *FS) Join(elem ...string) string { return s.under.Join(elem...) }

func (s *FS) TempFile(dir, prefix string) (billy.File, error) {
	if err := s.do("tempfile", path.Join(dir, prefix+"*"), "", true); err != nil {
		return nil, err
	}
	f, err := s.under.TempFile(dir, prefix)
	if err != nil {
		return nil, err
	}
	s.c.noteTemp(s.label, s.rel(f.Name()), s.rel(dir), prefix)
	return &File{File: f, s: s, name: s.rel(f.Name())}, nil
}

func (s *FS) ReadDir(name string) ([]fs.DirEntry, error) {
	if err := s.do("readdir", name, "", false); err != nil {
		return nil, err
	}
	return s.under.ReadDir(name)
}

func (s *FS) MkdirAll(name string, perm fs.FileMode) error {
	if err := s.do("mkdirall", name, "", true); err != nil {
		return err
	}
	return s.under.MkdirAll(name, perm)
}

func (s *FS) Symlink(target, link string) error {
	if err := s.do("symlink", link, "", true); err != nil {
		return err
	}
	return s.under.Symlink(target, link)
}

func (s *FS) Readlink(link string) (string, error) {
	if err := s.do("readlink", link, "", false); err != nil {
		return "", err
	}
	return s.under.Readlink(link)
}

// Chmod implements billy.Chmod when the wrapped filesystem does.
func (s *FS) Chmod(name string, mode fs.FileMode) error {
	ch, ok := s.under.(billy.Chmod)
	if !ok {
		return billy.ErrNotSupported
	}
	if err := s.do("chmod", name, mode.String(), true); err != nil {
		return err
	}
	return ch.Chmod(name, mode)
}

func (s *FS) Chroot(p string) (billy.Filesystem, error) {
	u, err := s.under.Chroot(p)
	if err != nil {
		return nil, err
	}
	return &FS{under: u, c: s.c, label: s.label, prefix: s.rel(p)}, nil
}

func (s *FS) Root() string { return s.under.Root() }

// Capabilities forwards the capabilities of the wrapped filesystem.
func (s *FS) Capabilities() billy.Capability { return billy.Capabilities(s.under) }

// File wraps an open file.
type File struct {
	billy.File
	s    *FS
	name string
}

func (f *File) do(op, arg string, mut bool) verdict {
	return f.s.c.step(f.s.label, op, f.name, arg, mut)
}

func (f *File) err(op string, v verdict) error {
	if v == vFail {
		return &fs.PathError{Op: op, Path: f.File.Name(), Err: ErrInjected.Err}
	}
	return ErrCrashed
}

func (f *File) Write(p []byte) (int, error) {
	switch v := f.do("write", fmt.Sprintf("%dB", len(p)), true); v {
	case vRun:
		return f.File.Write(p)
	case vCrashTorn:
		if len(p) >= 2 {
			n := 1 + (f.s.c.torn-1)%(len(p)-1)
			m, _ := f.File.Write(p[:n])
			return m, ErrCrashed
		}
		return 0, ErrCrashed
	default:
		return 0, f.err("write", v)
	}
}

func (f *File) WriteAt(p []byte, off int64) (int, error) {
	switch v := f.do("writeat", fmt.Sprintf("%dB@%d", len(p), off), true); v {
	case vRun:
		return f.File.WriteAt(p, off)
	case vCrashTorn:
		if len(p) >= 2 {
			n := 1 + (f.s.c.torn-1)%(len(p)-1)
			m, _ := f.File.WriteAt(p[:n], off)
			return m, ErrCrashed
		}
		return 0, ErrCrashed
	default:
		return 0, f.err("writeat", v)
	}
}

func (f *File) Read(p []byte) (int, error) {
	if v := f.do("read", "", false); v != vRun {
		return 0, f.err("read", v)
	}
	return f.File.Read(p)
}

func (f *File) ReadAt(p []byte, off int64) (int, error) {
	if v := f.do("readat", "", false); v != vRun {
		return 0, f.err("readat", v)
	}
	return f.File.ReadAt(p, off)
}

func (f *File) Seek(off int64, whence int) (int64, error) {
	if f.s.c.Dead() {
		return 0, ErrCrashed
	}
	return f.File.Seek(off, whence)
}

func (f *File) Stat() (fs.FileInfo, error) {
	if v := f.do("fstat", "", false); v != vRun {
		return nil, f.err("fstat", v)
	}
	return f.File.Stat()
}

func (f *File) Truncate(size int64) error {
	if v := f.do("truncate", fmt.Sprintf("%d", size), true); v != vRun {
		return f.err("truncate", v)
	}
	return f.File.Truncate(size)
}

// Close always releases the descriptor (a dead process has none); an injected
// or post-crash Close reports an error after doing so.
func (f *File) Close() error {
	v := f.do("close", "", false)
	e := f.File.Close()
	if v != vRun {
		return f.err("close", v)
	}
	return e
}

// Lock implements billy.Locker when the wrapped file does.
func (f *File) Lock() error {
	if v := f.do("lock", "", false); v != vRun {
		return f.err("lock", v)
	}
	if l, ok := f.File.(billy.Locker); ok {
		return l.Lock()
	}
	return nil
}

// Unlock implements billy.Locker.
func (f *File) Unlock() error {
	if l, ok := f.File.(billy.Locker); ok {
		return l.Unlock()
	}
	return nil
}

// Sync implements billy.Syncer when the wrapped file does; it is a crash point
// (the property lists it) although a process stop loses nothing that was written.
func (f *File) Sync() error {
	if v := f.do("sync", "", true); v != vRun {
		return f.err("sync", v)
	}
	if sy, ok := f.File.(billy.Syncer); ok {
		return sy.Sync()
	}
	return nil
}

var (
	_ billy.Filesystem = (*FS)(nil)
	_ billy.Chmod      = (*FS)(nil)
	_ billy.Capable    = (*FS)(nil)
	_ billy.File       = (*File)(nil)
	_ billy.Locker     = (*File)(nil)
	_ io.Writer        = (*File)(nil)
)
