package fsx

import (
	"bytes"
	"fmt"
	"os"
	"os/exec"
	"path/filepath"
	"sort"
	"strings"
	"time"

	"pgregory.net/rapid"

	"verif/harness/lib/gitx"
)

// Recipe describes a small repository built by the real git (fast-import for
// the history, checkout for index + worktree, then local edits). Every random
// choice of a generated repository is in here, so a case that embeds a Recipe
// replays exactly.
type Recipe struct {
	Commits  []Commit `json:"commits"`            // Commits[i].Parent < i (or -1)
	Tags     []Tag    `json:"tags,omitempty"`     //
	Head     string   `json:"head"`               // branch name, or "@<i>" for detached at commit i
	Dirty    []Edit   `json:"dirty,omitempty"`    // local edits after checkout
	Pack     bool     `json:"pack,omitempty"`     // git repack -adq
	PackRefs bool     `json:"packrefs,omitempty"` // git pack-refs --all
}

// Commit is a full snapshot committed on a branch.
type Commit struct {
	Branch string  `json:"branch"`
	Parent int     `json:"parent"`
	Files  []RFile `json:"files"`
}

// RFile is one tracked file of a snapshot.
type RFile struct {
	Path string `json:"path"`
	Data string `json:"data"`
	Exec bool   `json:"exec,omitempty"`
}

// Tag is a lightweight or annotated tag of commit At.
type Tag struct {
	Name      string `json:"name"`
	At        int    `json:"at"`
	Annotated bool   `json:"annotated,omitempty"`
}

// Edit is a local change applied after the checkout.
//
//	write   : write Data to Path in the worktree (modify or create untracked)
//	delete  : remove Path from the worktree
//	stage   : write Data to Path and `git add` it
//	unstage : `git rm --cached` Path (the file stays in the worktree)
type Edit struct {
	Kind string `json:"kind"`
	Path string `json:"path"`
	Data string `json:"data,omitempty"`
}

// Paths is the path alphabet of generated repositories (no directory/file
// conflicts between members; several members share the glob prefix "a").
var Paths = []string{"a1", "a2", "ab", "b", "d/x", "d/y", "d/e/z", "f/g"}

// Datas is the content alphabet (different lengths, one pair of equal length).
var Datas = []string{"one\n", "two\n", "three\n", "", "line1\nline2\nline3\n", "x"}

// Branches of generated repositories.
var Branches = []string{"main", "other", "topic"}

// GenRecipe draws a recipe: 1..maxCommits commits over up to three branches.
func GenRecipe(t *rapid.T, maxCommits int, dirty bool) Recipe {
	var r Recipe
	n := rapid.IntRange(1, maxCommits).Draw(t, "ncommits")
	for i := 0; i < n; i++ {
		c := Commit{Parent: -1, Branch: "main"}
		if i > 0 {
			c.Parent = rapid.IntRange(0, i-1).Draw(t, "parent")
			c.Branch = rapid.SampledFrom(Branches).Draw(t, "branch")
		}
		c.Files = genFiles(t)
		r.Commits = append(r.Commits, c)
	}
	r.normalise()
	if rapid.IntRange(0, 3).Draw(t, "ntags") == 0 {
		r.Tags = append(r.Tags, Tag{Name: "v1", At: rapid.IntRange(0, n-1).Draw(t, "tagat"), Annotated: rapid.Bool().Draw(t, "annot")})
	}
	heads := r.BranchNames()
	if rapid.IntRange(0, 5).Draw(t, "detached") == 0 {
		r.Head = fmt.Sprintf("@%d", rapid.IntRange(0, n-1).Draw(t, "headat"))
	} else {
		r.Head = rapid.SampledFrom(heads).Draw(t, "head")
	}
	if dirty {
		nd := rapid.IntRange(0, 4).Draw(t, "ndirty")
		hot := r.HeadPaths()
		for i := 0; i < nd; i++ {
			r.Dirty = append(r.Dirty, Edit{
				Kind: rapid.SampledFrom([]string{"write", "write", "delete", "stage", "unstage"}).Draw(t, "ekind"),
				Path: GenPath(t, hot),
				Data: rapid.SampledFrom(Datas).Draw(t, "edata"),
			})
		}
	}
	r.Pack = rapid.IntRange(0, 3).Draw(t, "pack") == 0
	r.PackRefs = rapid.IntRange(0, 3).Draw(t, "packrefs") == 0
	return r
}

// GenPath draws a path, preferring (3 in 4) the given hot paths (usually the
// files tracked at HEAD) so that edits and operations meet tracked files.
func GenPath(t *rapid.T, hot []string) string {
	if len(hot) > 0 && rapid.IntRange(0, 3).Draw(t, "hot") > 0 {
		return rapid.SampledFrom(hot).Draw(t, "hotpath")
	}
	return rapid.SampledFrom(Paths).Draw(t, "path")
}

// HeadCommit returns the index of the commit HEAD points at after the build.
func (r *Recipe) HeadCommit() int {
	if strings.HasPrefix(r.Head, "@") {
		var i int
		fmt.Sscanf(r.Head, "@%d", &i)
		if i < 0 {
			i = 0
		}
		return i % len(r.Commits)
	}
	if t := r.Tip(r.Head); t >= 0 {
		return t
	}
	return r.Tip("main")
}

// HeadPaths returns the paths tracked at HEAD.
func (r *Recipe) HeadPaths() []string {
	var out []string
	for _, f := range r.Commits[r.HeadCommit()].Files {
		out = append(out, f.Path)
	}
	return out
}

func genFiles(t *rapid.T) []RFile {
	m := map[string]RFile{}
	k := rapid.IntRange(1, 5).Draw(t, "nfiles")
	for j := 0; j < k; j++ {
		p := rapid.SampledFrom(Paths).Draw(t, "path")
		m[p] = RFile{Path: p, Data: rapid.SampledFrom(Datas).Draw(t, "data"), Exec: rapid.IntRange(0, 7).Draw(t, "exec") == 0}
	}
	var out []RFile
	for _, f := range m {
		out = append(out, f)
	}
	sort.Slice(out, func(i, j int) bool { return out[i].Path < out[j].Path })
	return out
}

// normalise makes the recipe buildable whatever a shrinker or a hand-written
// witness did to it: parents precede children, the first commit is a root on
// main, a branch's later commits descend from... nothing is required there
// (fast-import simply moves the branch).
func (r *Recipe) normalise() {
	for i := range r.Commits {
		c := &r.Commits[i]
		if c.Parent >= i {
			c.Parent = i - 1
		}
		if c.Parent < -1 {
			c.Parent = -1
		}
		if i == 0 {
			c.Parent = -1
		}
		if c.Branch == "" {
			c.Branch = "main"
		}
	}
}

// BranchNames returns the branches that exist after the build, sorted.
func (r *Recipe) BranchNames() []string {
	seen := map[string]bool{}
	for _, c := range r.Commits {
		seen[c.Branch] = true
	}
	var out []string
	for b := range seen {
		out = append(out, b)
	}
	sort.Strings(out)
	return out
}

// Tip returns the index of the last commit made on branch, or -1.
func (r *Recipe) Tip(branch string) int {
	tip := -1
	for i, c := range r.Commits {
		if c.Branch == branch {
			tip = i
		}
	}
	return tip
}

// Built is a repository created from a Recipe.
type Built struct {
	Dir    string   // worktree root; .git inside
	Hashes []string // commit id of Commits[i]
}

// Build creates the repository in dir (which must not exist or be empty).
// Failures are INFRA panics: the set-up is never an oracle answer.
func (r Recipe) Build(dir string) Built {
	r.normalise()
	if len(r.Commits) == 0 {
		panic("INFRA: recipe without commits")
	}
	initRepo(dir)
	var sb bytes.Buffer
	for i, c := range r.Commits {
		fmt.Fprintf(&sb, "commit refs/heads/%s\nmark :%d\ncommitter C O Mitter <committer@example.com> %d +0000\n", c.Branch, i+1, 1700000000+i)
		msg := fmt.Sprintf("c%d\n", i)
		fmt.Fprintf(&sb, "data %d\n%s", len(msg), msg)
		if c.Parent >= 0 {
			fmt.Fprintf(&sb, "from :%d\n", c.Parent+1)
		}
		sb.WriteString("deleteall\n")
		for _, f := range c.Files {
			mode := "100644"
			if f.Exec {
				mode = "100755"
			}
			fmt.Fprintf(&sb, "M %s inline %s\ndata %d\n%s\n", mode, f.Path, len(f.Data), f.Data)
		}
	}
	for _, t := range r.Tags {
		at := t.At % len(r.Commits)
		if at < 0 {
			at = 0
		}
		if t.Annotated {
			fmt.Fprintf(&sb, "tag %s\nfrom :%d\ntagger T <t@example.com> 1700000100 +0000\ndata 4\ntag\n\n", t.Name, at+1)
		} else {
			fmt.Fprintf(&sb, "reset refs/tags/%s\nfrom :%d\n\n", t.Name, at+1)
		}
	}
	marks := filepath.Join(dir, ".git", "marks.tmp")
	gitx.MustIn(dir, sb.Bytes(), "fast-import", "--quiet", "--force", "--export-marks="+marks)
	mb, err := os.ReadFile(marks)
	if err != nil {
		panic("INFRA: marks: " + err.Error())
	}
	os.Remove(marks)
	b := Built{Dir: dir, Hashes: make([]string, len(r.Commits))}
	for _, l := range strings.Split(strings.TrimSpace(string(mb)), "\n") {
		var m int
		var h string
		if _, err := fmt.Sscanf(l, ":%d %s", &m, &h); err == nil && m >= 1 && m <= len(b.Hashes) {
			b.Hashes[m-1] = h
		}
	}
	for i, h := range b.Hashes {
		if h == "" {
			panic(fmt.Sprintf("INFRA: no mark for commit %d", i))
		}
	}
	head := r.Head
	if strings.HasPrefix(head, "@") {
		var i int
		fmt.Sscanf(head, "@%d", &i)
		if i < 0 {
			i = 0
		}
		gitx.Must(dir, "checkout", "-q", "--detach", b.Hashes[i%len(b.Hashes)])
	} else {
		if r.Tip(head) < 0 {
			head = "main"
		}
		gitx.Must(dir, "checkout", "-q", "-f", head)
	}
	// Timestamps are made independent of how fast the set-up ran: every checked
	// out file gets the fixed time T0 and the index is refreshed, so no entry is
	// "racily clean" by accident (go-git re-hashes such files, which would make
	// the number of filesystem calls of an operation vary from run to run); local
	// edits get T0+100+i and the index file itself T0+1000.
	t0 := time.Unix(1700000000, 0)
	filepath.Walk(dir, func(p string, fi os.FileInfo, err error) error {
		if err != nil {
			return nil
		}
		if fi.IsDir() {
			if fi.Name() == ".git" {
				return filepath.SkipDir
			}
			return nil
		}
		os.Chtimes(p, t0, t0)
		return nil
	})
	gitx.Try(dir, "update-index", "-q", "--refresh")
	for i, e := range r.Dirty {
		t1 := t0.Add(time.Duration(100+i) * time.Second)
		p := filepath.Join(dir, filepath.FromSlash(e.Path))
		switch e.Kind {
		case "write":
			os.MkdirAll(filepath.Dir(p), 0o755)
			if err := os.WriteFile(p, []byte(e.Data), 0o644); err != nil {
				panic("INFRA: " + err.Error())
			}
			os.Chtimes(p, t1, t1)
		case "delete":
			os.Remove(p)
		case "stage":
			os.MkdirAll(filepath.Dir(p), 0o755)
			if err := os.WriteFile(p, []byte(e.Data), 0o644); err != nil {
				panic("INFRA: " + err.Error())
			}
			os.Chtimes(p, t1, t1)
			gitx.Must(dir, "add", "--", e.Path)
		case "unstage":
			gitx.Try(dir, "rm", "-q", "--cached", "--", e.Path) // may be untracked: then nothing to do
		}
	}
	t2 := t0.Add(1000 * time.Second)
	os.Chtimes(filepath.Join(dir, ".git", "index"), t2, t2)
	if r.Pack {
		gitx.Must(dir, "repack", "-adq")
	}
	if r.PackRefs {
		gitx.Must(dir, "pack-refs", "--all")
	}
	return b
}

// initRepo lays out what `git init -q -b main --template=` creates (compared
// byte for byte with git 2.39.5), saving one subprocess per case.
func initRepo(dir string) {
	g := filepath.Join(dir, ".git")
	for _, d := range []string{"objects/info", "objects/pack", "refs/heads", "refs/tags"} {
		if err := os.MkdirAll(filepath.Join(g, d), 0o755); err != nil {
			panic("INFRA: " + err.Error())
		}
	}
	w := func(n, s string) {
		if err := os.WriteFile(filepath.Join(g, n), []byte(s), 0o644); err != nil {
			panic("INFRA: " + err.Error())
		}
	}
	w("HEAD", "ref: refs/heads/main\n")
	w("config", "[core]\n\trepositoryformatversion = 0\n\tfilemode = true\n\tbare = false\n\tlogallrefupdates = true\n")
}

// CopyTree copies a directory tree preserving modes and times (cp -a).
func CopyTree(src, dst string) {
	if out, err := exec.Command("cp", "-a", src, dst).CombinedOutput(); err != nil {
		panic(fmt.Sprintf("INFRA: cp -a %s %s: %v %s", src, dst, err, out))
	}
}

// CopyTreeGo copies a directory tree in-process (no subprocess), preserving
// permissions, symlinks and modification times.
func CopyTreeGo(src, dst string) {
	type dt struct {
		p  string
		fi os.FileInfo
	}
	var dirs []dt
	err := filepath.Walk(src, func(p string, fi os.FileInfo, err error) error {
		if err != nil {
			return err
		}
		rel, _ := filepath.Rel(src, p)
		q := filepath.Join(dst, rel)
		switch {
		case fi.IsDir():
			dirs = append(dirs, dt{q, fi})
			return os.MkdirAll(q, 0o755)
		case fi.Mode()&os.ModeSymlink != 0:
			t, err := os.Readlink(p)
			if err != nil {
				return err
			}
			return os.Symlink(t, q)
		default:
			b, err := os.ReadFile(p)
			if err != nil {
				return err
			}
			if err := os.WriteFile(q, b, fi.Mode().Perm()|0o200); err != nil {
				return err
			}
			if err := os.Chmod(q, fi.Mode().Perm()); err != nil {
				return err
			}
			return os.Chtimes(q, fi.ModTime(), fi.ModTime())
		}
	})
	if err != nil {
		panic("INFRA: copy tree: " + err.Error())
	}
	for i := len(dirs) - 1; i >= 0; i-- {
		os.Chmod(dirs[i].p, dirs[i].fi.Mode().Perm())
		os.Chtimes(dirs[i].p, dirs[i].fi.ModTime(), dirs[i].fi.ModTime())
	}
}

// Scratch creates a scratch directory under $VERIF_SCRATCH (or /dev/shm).
func Scratch() string {
	base := os.Getenv("VERIF_SCRATCH")
	if base == "" {
		base = "/dev/shm"
	}
	d, err := os.MkdirTemp(base, "fsx-")
	if err != nil {
		panic("INFRA: scratch: " + err.Error())
	}
	return d
}
