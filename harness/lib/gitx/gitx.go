// Package gitx runs the real git binary (the differential oracle) in a sealed
// environment: no system/global config, fixed identity and dates, C locale,
// UTC. stdout and stderr are kept apart; usage errors (exit 129) are reported
// as infrastructure errors, never as "git rejects".
package gitx

import (
	"bytes"
	"errors"
	"fmt"
	"os"
	"os/exec"
	"path/filepath"
	"strings"
)

// Env is the sealed environment for every git subprocess.
func Env(extra ...string) []string {
	home := os.Getenv("VERIF_GIT_HOME")
	if home == "" {
		home = "/dev/shm/verif-githome"
		os.MkdirAll(home, 0o755)
	}
	e := []string{
		"PATH=" + os.Getenv("PATH"),
		"HOME=" + home,
		"XDG_CONFIG_HOME=" + home,
		"GIT_CONFIG_NOSYSTEM=1",
		"GIT_CONFIG_GLOBAL=/dev/null",
		"GIT_AUTHOR_NAME=A U Thor", "GIT_AUTHOR_EMAIL=author@example.com",
		"GIT_COMMITTER_NAME=C O Mitter", "GIT_COMMITTER_EMAIL=committer@example.com",
		"GIT_AUTHOR_DATE=@1700000000 +0000", "GIT_COMMITTER_DATE=@1700000000 +0000",
		"LC_ALL=C", "LANG=C", "TZ=UTC",
		"GIT_TERMINAL_PROMPT=0", "GIT_ADVICE=0", "GIT_PAGER=cat", "GIT_OPTIONAL_LOCKS=0",
	}
	return append(e, extra...)
}

// Res is the outcome of one git invocation.
type Res struct {
	Out, Err []byte
	Code     int
}

// ErrInfra marks outcomes that must never be read as an answer from git.
var ErrInfra = errors.New("gitx: infrastructure error")

// Cmd describes one invocation.
type Cmd struct {
	Dir   string
	Stdin []byte
	Env   []string // extra environment
	Args  []string
}

// Run executes git; a non-zero exit is returned in Res.Code with a nil error.
// Exit 129 (usage) or failure to start is ErrInfra.
func Run(c Cmd) (Res, error) {
	cmd := exec.Command("git", c.Args...)
	cmd.Dir = c.Dir
	cmd.Env = Env(c.Env...)
	if c.Stdin != nil {
		cmd.Stdin = bytes.NewReader(c.Stdin)
	}
	var so, se bytes.Buffer
	cmd.Stdout, cmd.Stderr = &so, &se
	err := cmd.Run()
	r := Res{Out: so.Bytes(), Err: se.Bytes()}
	if err != nil {
		var ee *exec.ExitError
		if errors.As(err, &ee) && ee.ExitCode() >= 0 {
			r.Code = ee.ExitCode()
			if r.Code == 129 {
				return r, fmt.Errorf("%w: git %v: usage error: %s", ErrInfra, c.Args, se.String())
			}
			return r, nil
		}
		return r, fmt.Errorf("%w: git %v: %v (%s)", ErrInfra, c.Args, err, se.String())
	}
	return r, nil
}

// Must runs git in dir and panics with an INFRA message on any failure; for
// set-up steps whose failure is never an oracle answer.
func Must(dir string, args ...string) string {
	r, err := Run(Cmd{Dir: dir, Args: args})
	if err != nil || r.Code != 0 {
		panic(fmt.Sprintf("INFRA: git %v in %s: code=%d err=%v stderr=%s", args, dir, r.Code, err, r.Err))
	}
	return string(r.Out)
}

// MustIn is Must with stdin.
func MustIn(dir string, stdin []byte, args ...string) string {
	if stdin == nil {
		stdin = []byte{}
	}
	r, err := Run(Cmd{Dir: dir, Args: args, Stdin: stdin})
	if err != nil || r.Code != 0 {
		panic(fmt.Sprintf("INFRA: git %v in %s: code=%d err=%v stderr=%s", args, dir, r.Code, err, r.Err))
	}
	return string(r.Out)
}

// Try runs git and returns stdout, stderr, exit code; infra errors panic.
func Try(dir string, args ...string) (string, string, int) {
	r, err := Run(Cmd{Dir: dir, Args: args})
	if err != nil {
		panic("INFRA: " + err.Error())
	}
	return string(r.Out), string(r.Err), r.Code
}

// TryIn is Try with stdin.
func TryIn(dir string, stdin []byte, args ...string) (string, string, int) {
	if stdin == nil {
		stdin = []byte{}
	}
	r, err := Run(Cmd{Dir: dir, Args: args, Stdin: stdin})
	if err != nil {
		panic("INFRA: " + err.Error())
	}
	return string(r.Out), string(r.Err), r.Code
}

// Init creates a repository (no templates, branch main). format is "sha1",
// "sha256" or "".
func Init(dir string, bare bool, format string) {
	os.MkdirAll(dir, 0o755)
	args := []string{"init", "-q", "-b", "main", "--template="}
	if bare {
		args = append(args, "--bare")
	}
	if format != "" {
		args = append(args, "--object-format="+format)
	}
	Must(dir, args...)
}

// GitDir returns the .git directory for a repository created by Init.
func GitDir(dir string, bare bool) string {
	if bare {
		return dir
	}
	return filepath.Join(dir, ".git")
}

// IsInfraPanic reports whether a recovered panic value came from this package.
func IsInfraPanic(p any) bool {
	s, ok := p.(string)
	return ok && strings.HasPrefix(s, "INFRA:")
}
