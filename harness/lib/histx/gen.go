package histx

import "pgregory.net/rapid"

type genNode struct {
	NP   int
	Offs [3]int
	T    int
	DT   int
}

// GenOpts tunes GenDAG.
type GenOpts struct {
	MinN, MaxN int
	MaxParents int // 1..3 (default 3: octopus merges)
	AuthorTime bool
}

// GenDAG draws a history: chains, forks, merges, octopus merges, several
// roots; committer times monotone, monotone with ties, arbitrary in a small
// range (ties and children older than parents), reversed (every child older
// than its parents), arbitrary in a wide range, or all equal.
//
// Nodes are drawn as a slice so that rapid can shrink a failing history by
// deleting commits; parents are offsets back from the node, resolved modulo.
func GenDAG(t *rapid.T, o GenOpts) DAG {
	if o.MaxParents == 0 {
		o.MaxParents = 3
	}
	near := rapid.Bool().Draw(t, "near") // prefer recent parents (deep histories) vs any earlier commit
	mode := rapid.IntRange(0, 5).Draw(t, "timemode")
	npChoices := []int{0, 1, 1, 1, 1, 2, 2, 2, 3}
	nodes := rapid.SliceOfN(rapid.Custom(func(t *rapid.T) genNode {
		g := genNode{NP: rapid.SampledFrom(npChoices).Draw(t, "np")}
		hi := 63
		if near {
			hi = 3
		}
		for k := 0; k < g.NP && k < 3; k++ {
			g.Offs[k] = rapid.IntRange(0, hi).Draw(t, "off")
		}
		switch mode {
		case 1:
			g.DT = rapid.IntRange(0, 1).Draw(t, "dt")
		case 2:
			g.T = rapid.IntRange(0, 6).Draw(t, "t")
		case 4:
			g.T = rapid.IntRange(0, 1000).Draw(t, "t")
		}
		return g
	}), o.MinN, o.MaxN).Draw(t, "nodes")
	n := len(nodes)
	d := DAG{Parents: make([][]int, n), Times: make([]int64, n)}
	var cur int64
	for i, g := range nodes {
		d.Parents[i] = []int{}
		if i > 0 {
			seen := map[int]bool{}
			for k := 0; k < g.NP && k < o.MaxParents; k++ {
				p := i - 1 - g.Offs[k]%i
				if !seen[p] {
					seen[p] = true
					d.Parents[i] = append(d.Parents[i], p)
				}
			}
		}
		switch mode {
		case 0: // monotone, distinct
			d.Times[i] = int64(10 * i)
		case 1: // monotone with ties
			cur += int64(g.DT)
			d.Times[i] = cur
		case 2, 4: // arbitrary: ties and skew
			d.Times[i] = int64(g.T)
		case 3: // reversed: every child older than its parents
			d.Times[i] = int64(10 * (n - i))
		case 5: // all equal
			d.Times[i] = 7
		}
	}
	if o.AuthorTime {
		am := rapid.IntRange(0, 2).Draw(t, "atimemode")
		if am > 0 {
			d.ATimes = make([]int64, n)
			for i := range d.ATimes {
				if am == 1 {
					d.ATimes[i] = int64(rapid.IntRange(0, 8).Draw(t, "at"))
				} else {
					d.ATimes[i] = d.Times[n-1-i]
				}
			}
		}
	}
	return d
}
