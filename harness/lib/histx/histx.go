// Package histx builds commit histories (DAGs with arbitrary committer times)
// both in a go-git memory storage and, byte for byte identically, in a real git
// repository through `git fast-import`, and provides the reachability model
// used as the oracle by the history checks (C42, C43, C47).
//
// A DAG is given in topological numbering: every parent index of node i is
// smaller than i. All commits carry the empty tree, so the only thing that
// distinguishes histories is shape, parent order, times and messages.
package histx

import (
	"bytes"
	"fmt"
	"math/bits"
	"os"
	"path/filepath"
	"strings"
	"time"

	"github.com/go-git/go-git/v6/plumbing"
	"github.com/go-git/go-git/v6/plumbing/object"
	"github.com/go-git/go-git/v6/storage/memory"

	"verif/harness/lib/gitx"
)

// EmptyTree is the SHA-1 of the empty tree.
const EmptyTree = "4b825dc642cb6eb9a060e54bf8d69288fbee4904"

// MaxN is the largest DAG the bitset model supports.
const MaxN = 64

// DAG is a commit history. Parents[i] lists the parents of node i in parent
// order (all < i, no repeats). Times[i] is the committer time of node i in
// seconds after Epoch; ATimes (optional) the author time; Msgs (optional) the
// commit message (default "c<i>\n").
type DAG struct {
	Parents [][]int  `json:"parents"`
	Times   []int64  `json:"times"`
	ATimes  []int64  `json:"atimes,omitempty"`
	Msgs    []string `json:"msgs,omitempty"`
}

// Epoch is added to every generated time.
const Epoch = 1_000_000_000

// N is the number of commits.
func (d DAG) N() int { return len(d.Parents) }

// Valid reports whether d is well formed (used to discard hand-edited replay
// files rather than crash on them).
func (d DAG) Valid() bool {
	n := d.N()
	if n == 0 || n > MaxN || len(d.Times) != n {
		return false
	}
	if d.ATimes != nil && len(d.ATimes) != n {
		return false
	}
	if d.Msgs != nil && len(d.Msgs) != n {
		return false
	}
	for i, ps := range d.Parents {
		seen := map[int]bool{}
		for _, p := range ps {
			if p < 0 || p >= i || seen[p] {
				return false
			}
			seen[p] = true
		}
	}
	for _, t := range d.Times {
		if t < 0 || t > 1_000_000_000 {
			return false
		}
	}
	for _, t := range d.ATimes {
		if t < 0 || t > 1_000_000_000 {
			return false
		}
	}
	return true
}

// CTime is the absolute committer time of node i.
func (d DAG) CTime(i int) int64 { return Epoch + d.Times[i] }

// ATime is the absolute author time of node i.
func (d DAG) ATime(i int) int64 {
	if d.ATimes != nil {
		return Epoch + d.ATimes[i]
	}
	return d.CTime(i)
}

// Msg is the message of node i.
func (d DAG) Msg(i int) string {
	if d.Msgs != nil {
		return d.Msgs[i]
	}
	return fmt.Sprintf("c%d\n", i)
}

// Set is a set of node indices.
type Set uint64

// Has reports membership.
func (s Set) Has(i int) bool { return s&(1<<uint(i)) != 0 }

// With adds i.
func (s Set) With(i int) Set { return s | 1<<uint(i) }

// Len is the cardinality.
func (s Set) Len() int { return bits.OnesCount64(uint64(s)) }

// List returns the members in increasing order.
func (s Set) List() []int {
	var out []int
	for i := 0; i < MaxN; i++ {
		if s.Has(i) {
			out = append(out, i)
		}
	}
	return out
}

// SetOf builds a set.
func SetOf(xs ...int) Set {
	var s Set
	for _, x := range xs {
		s = s.With(x)
	}
	return s
}

// Anc returns, for every node, the set of its ancestors including itself.
func (d DAG) Anc() []Set { return d.AncCut(0) }

// AncCut is Anc in the graph where the parent edges of the nodes in cut are
// removed (git's view of a shallow repository whose shallow file lists cut).
func (d DAG) AncCut(cut Set) []Set {
	anc := make([]Set, d.N())
	for i := range anc {
		anc[i] = SetOf(i)
		if cut.Has(i) {
			continue
		}
		for _, p := range d.Parents[i] {
			anc[i] |= anc[p]
		}
	}
	return anc
}

// Reach is the union of the ancestor sets of the members of from.
func Reach(anc []Set, from Set) Set {
	var r Set
	for _, i := range from.List() {
		r |= anc[i]
	}
	return r
}

// Maximal returns the members of s that are not a proper ancestor of another
// member of s (git merge-base --independent; and, applied to the common
// ancestors of two commits, git merge-base --all).
func Maximal(anc []Set, s Set) Set {
	var out Set
	for _, x := range s.List() {
		dom := false
		for _, y := range s.List() {
			if y != x && anc[y].Has(x) {
				dom = true
				break
			}
		}
		if !dom {
			out = out.With(x)
		}
	}
	return out
}

// MergeBases is the model of git merge-base --all a b.
func MergeBases(anc []Set, a, b int) Set { return Maximal(anc, anc[a]&anc[b]) }

// HasMerge reports whether some node has two or more parents.
func (d DAG) HasMerge() bool {
	for _, ps := range d.Parents {
		if len(ps) > 1 {
			return true
		}
	}
	return false
}

// Skewed reports whether some parent is strictly newer (committer time) than
// its child.
func (d DAG) Skewed() bool {
	for i, ps := range d.Parents {
		for _, p := range ps {
			if d.Times[p] > d.Times[i] {
				return true
			}
		}
	}
	return false
}

// EqualTimes reports whether two nodes share a committer time.
func (d DAG) EqualTimes() bool {
	seen := map[int64]bool{}
	for _, t := range d.Times {
		if seen[t] {
			return true
		}
		seen[t] = true
	}
	return false
}

// Heads returns the nodes that are nobody's parent.
func (d DAG) Heads() Set {
	var par Set
	for _, ps := range d.Parents {
		for _, p := range ps {
			par = par.With(p)
		}
	}
	var out Set
	for i := 0; i < d.N(); i++ {
		if !par.Has(i) {
			out = out.With(i)
		}
	}
	return out
}

// Key is a canonical string of the history.
func (d DAG) Key() string {
	var sb strings.Builder
	for i, ps := range d.Parents {
		fmt.Fprintf(&sb, "%d:%v@%d", i, ps, d.Times[i])
		if d.ATimes != nil {
			fmt.Fprintf(&sb, "/%d", d.ATimes[i])
		}
		if d.Msgs != nil {
			fmt.Fprintf(&sb, "%q", d.Msgs[i])
		}
		sb.WriteByte(';')
	}
	return sb.String()
}

// Mem is a history materialised in a go-git memory storage.
type Mem struct {
	St      *memory.Storage
	Hashes  []plumbing.Hash
	Commits []*object.Commit
	Index   map[plumbing.Hash]int
}

// Ident is the identity used for every commit (both by Build and FastImport).
const (
	IdentName  = "a"
	IdentEmail = "a@b"
)

// Build stores the commits of d whose index is in only (all when only == 0) in
// a fresh memory storage. Hashes are computed for every node regardless, so a
// missing commit can still be named. Panics with an INFRA message on storage
// errors (they are never an oracle answer).
func Build(d DAG, only Set) *Mem {
	st := memory.NewStorage()
	n := d.N()
	m := &Mem{St: st, Hashes: make([]plumbing.Hash, n), Commits: make([]*object.Commit, n), Index: map[plumbing.Hash]int{}}
	tree := plumbing.NewHash(EmptyTree)
	to := st.NewEncodedObject()
	to.SetType(plumbing.TreeObject)
	if _, err := st.SetEncodedObject(to); err != nil {
		panic("INFRA: histx: store empty tree: " + err.Error())
	}
	scratch := memory.NewStorage()
	for i := 0; i < n; i++ {
		cm := &object.Commit{Message: d.Msg(i), TreeHash: tree}
		cm.Author = object.Signature{Name: IdentName, Email: IdentEmail, When: time.Unix(d.ATime(i), 0).UTC()}
		cm.Committer = object.Signature{Name: IdentName, Email: IdentEmail, When: time.Unix(d.CTime(i), 0).UTC()}
		for _, p := range d.Parents[i] {
			cm.ParentHashes = append(cm.ParentHashes, m.Hashes[p])
		}
		target := scratch
		if only == 0 || only.Has(i) {
			target = st
		}
		o := target.NewEncodedObject()
		if err := cm.Encode(o); err != nil {
			panic("INFRA: histx: encode commit: " + err.Error())
		}
		h, err := target.SetEncodedObject(o)
		if err != nil {
			panic("INFRA: histx: store commit: " + err.Error())
		}
		m.Hashes[i] = h
		m.Index[h] = i
	}
	for i := 0; i < n; i++ {
		if only == 0 || only.Has(i) {
			c, err := object.GetCommit(st, m.Hashes[i])
			if err != nil {
				panic("INFRA: histx: read back commit: " + err.Error())
			}
			m.Commits[i] = c
		}
	}
	return m
}

// Indices maps commits to node indices; unknown hashes map to -1.
func (m *Mem) Indices(cs []*object.Commit) []int {
	out := make([]int, len(cs))
	for i, c := range cs {
		if j, ok := m.Index[c.Hash]; ok {
			out[i] = j
		} else {
			out[i] = -1
		}
	}
	return out
}

// FastImport returns a fast-import stream creating refs/verif/c<i> for every
// node, with exactly the commit bytes Build produces.
func (d DAG) FastImport() []byte {
	var b bytes.Buffer
	for i := 0; i < d.N(); i++ {
		msg := d.Msg(i)
		fmt.Fprintf(&b, "commit refs/verif/c%d\nmark :%d\n", i, i+1)
		fmt.Fprintf(&b, "author %s <%s> %d +0000\n", IdentName, IdentEmail, d.ATime(i))
		fmt.Fprintf(&b, "committer %s <%s> %d +0000\n", IdentName, IdentEmail, d.CTime(i))
		fmt.Fprintf(&b, "data %d\n%s\n", len(msg), msg)
		for k, p := range d.Parents[i] {
			if k == 0 {
				fmt.Fprintf(&b, "from :%d\n", p+1)
			} else {
				fmt.Fprintf(&b, "merge :%d\n", p+1)
			}
		}
		b.WriteString("\n")
	}
	return b.Bytes()
}

// GitRepo creates a bare repository at dir holding d (refs/verif/c<i> point at
// the nodes) and returns the object ids git assigned, in node order.
func GitRepo(dir string, d DAG) []string {
	gitx.Init(dir, true, "")
	marks := filepath.Join(dir, "verif-marks")
	gitx.MustIn(dir, d.FastImport(), "fast-import", "--quiet", "--export-marks="+marks)
	b, err := os.ReadFile(marks)
	if err != nil {
		panic("INFRA: histx: marks: " + err.Error())
	}
	out := make([]string, d.N())
	for _, l := range strings.Split(strings.TrimSpace(string(b)), "\n") {
		var k int
		var h string
		if _, err := fmt.Sscanf(l, ":%d %s", &k, &h); err != nil || k < 1 || k > d.N() {
			panic("INFRA: histx: bad marks line " + l)
		}
		out[k-1] = h
	}
	os.Remove(marks)
	return out
}

// SameIDs panics (INFRA) unless git and go-git computed the same ids: the two
// constructions are meant to be byte-identical, a difference is a harness bug
// (object encoding is the subject of other properties).
func SameIDs(m *Mem, ids []string) {
	for i, h := range m.Hashes {
		if h.String() != ids[i] {
			panic(fmt.Sprintf("INFRA: histx: node %d: go-git id %s, git id %s", i, h, ids[i]))
		}
	}
}

// Scratch makes a scratch directory under $VERIF_SCRATCH (or /dev/shm).
func Scratch() string {
	base := os.Getenv("VERIF_SCRATCH")
	if base == "" {
		base = "/dev/shm"
	}
	d, err := os.MkdirTemp(base, "hx-")
	if err != nil {
		panic("INFRA: scratch: " + err.Error())
	}
	return d
}
