package wtgen

import (
	"os"
	"path/filepath"
	"sort"
	"strings"

	"pgregory.net/rapid"

	"verif/harness/lib/gitx"
)

// Dirt is one step that makes the worktree and/or index differ from HEAD.
//
//	write    replace whatever is at Path by a regular file with Data (0644);
//	         non-directory ancestors are replaced by directories
//	writex   same, mode 0755
//	link     replace Path by a symlink to Data
//	rm       remove Path (recursively when it is a directory)
//	chmod    toggle the exec bit of a regular file at Path
//	mkdir    replace Path by an empty directory
//	stage    git add -A -- Path      (index := worktree for Path)
//	uncache  git rm --cached -r -- Path (index entry dropped, file stays)
type Dirt struct {
	Op   string `json:"op"`
	Path string `json:"p"`
	Data string `json:"d,omitempty"`
}

// ExtraPaths are names that are never in a generated tree (always untracked).
var ExtraPaths = []string{"u1", "d/u2", "new/u3", "a/u4", "d/e/u5", "X/u6", "new/sub/u7", "U1"}

// DirtData is the content alphabet of local modifications (disjoint from Contents).
var DirtData = []string{"local1\n", "local2\n", "", "local no newline", "@bigL"}

// DirtPaths returns the sorted candidate paths for dirt given the trees involved.
func DirtPaths(trees ...Tree) []string {
	m := map[string]bool{}
	for _, p := range Pool {
		m[p] = true
	}
	for _, p := range ExtraPaths {
		m[p] = true
	}
	for _, t := range trees {
		for _, e := range t {
			m[e.Path] = true
		}
		for _, d := range t.Dirs() {
			m[d] = true
		}
	}
	var o []string
	for p := range m {
		o = append(o, p)
	}
	sort.Strings(o)
	return o
}

// GenDirt draws up to max dirt steps. focus (may be empty) lists paths that
// get extra weight (e.g. the paths that differ between the two commits).
func GenDirt(t *rapid.T, paths, focus []string, min, max int, ops []string) []Dirt {
	if len(ops) == 0 {
		ops = []string{"write", "write", "write", "writex", "link", "rm", "chmod", "mkdir", "stage", "stage", "uncache"}
	}
	n := rapid.IntRange(min, max).Draw(t, "ndirt")
	var out []Dirt
	for i := 0; i < n; i++ {
		var p string
		if len(focus) > 0 && rapid.IntRange(0, 2).Draw(t, "focus") > 0 {
			p = rapid.SampledFrom(focus).Draw(t, "fpath")
		} else {
			p = rapid.SampledFrom(paths).Draw(t, "dpath")
		}
		d := Dirt{Op: rapid.SampledFrom(ops).Draw(t, "dop"), Path: p}
		switch d.Op {
		case "write", "writex":
			d.Data = rapid.SampledFrom(DirtData).Draw(t, "ddata")
		case "link":
			d.Data = rapid.SampledFrom(Targets).Draw(t, "dtarget")
		}
		out = append(out, d)
		// a modification is often followed by staging it
		if (d.Op == "write" || d.Op == "rm" || d.Op == "link") && rapid.IntRange(0, 3).Draw(t, "thenstage") == 0 {
			out = append(out, Dirt{Op: "stage", Path: p})
		}
	}
	return out
}

func validRel(p string) bool {
	if p == "" || strings.HasPrefix(p, "/") {
		return false
	}
	for _, c := range strings.Split(p, "/") {
		if c == "" || c == "." || c == ".." || strings.EqualFold(c, ".git") {
			return false
		}
	}
	return true
}

// ensureParents makes every ancestor of rel a real directory (replacing
// files/symlinks in the way), never following a symlink.
func ensureParents(root, rel string) {
	parts := strings.Split(rel, "/")
	cur := root
	for _, c := range parts[:len(parts)-1] {
		cur = filepath.Join(cur, c)
		fi, err := os.Lstat(cur)
		if err == nil && !fi.IsDir() {
			if err := os.Remove(cur); err != nil {
				panic("INFRA: dirt: " + err.Error())
			}
			err = os.ErrNotExist
		}
		if err != nil {
			if err := os.Mkdir(cur, 0o755); err != nil {
				panic("INFRA: dirt: " + err.Error())
			}
		}
	}
}

// hasSymlinkAncestor reports whether some proper ancestor of rel is a symlink.
func hasSymlinkAncestor(root, rel string) bool {
	parts := strings.Split(rel, "/")
	cur := root
	for _, c := range parts[:len(parts)-1] {
		cur = filepath.Join(cur, c)
		if fi, err := os.Lstat(cur); err == nil && fi.Mode()&os.ModeSymlink != 0 {
			return true
		}
	}
	return false
}

// ApplyDirt executes the steps in order in the repository at root. Steps
// that make no sense in the current state are skipped deterministically.
// It returns the number of steps that were executed.
func ApplyDirt(root string, ds []Dirt) int {
	n := 0
	for _, d := range ds {
		if !validRel(d.Path) {
			continue
		}
		full := filepath.Join(root, filepath.FromSlash(d.Path))
		fi, lerr := os.Lstat(full)
		if hasSymlinkAncestor(root, d.Path) && (d.Op == "rm" || d.Op == "chmod") {
			continue
		}
		switch d.Op {
		case "write", "writex", "link", "mkdir":
			ensureParents(root, d.Path)
			if _, err := os.Lstat(full); err == nil {
				if err := os.RemoveAll(full); err != nil {
					panic("INFRA: dirt: " + err.Error())
				}
			}
			var err error
			switch d.Op {
			case "write":
				err = os.WriteFile(full, Expand(d.Data), 0o644)
			case "writex":
				if err = os.WriteFile(full, Expand(d.Data), 0o755); err == nil {
					err = os.Chmod(full, 0o755)
				}
			case "link":
				err = os.Symlink(d.Data, full)
			case "mkdir":
				err = os.Mkdir(full, 0o755)
			}
			if err != nil {
				panic("INFRA: dirt: " + err.Error())
			}
			n++
		case "rm":
			if lerr != nil {
				continue
			}
			if err := os.RemoveAll(full); err != nil {
				panic("INFRA: dirt: " + err.Error())
			}
			// like `rm` by hand: leave parents in place
			n++
		case "chmod":
			if lerr != nil || !fi.Mode().IsRegular() {
				continue
			}
			if err := os.Chmod(full, fi.Mode().Perm()^0o111); err != nil {
				panic("INFRA: dirt: " + err.Error())
			}
			n++
		case "stage":
			_, _, code := gitx.Try(root, "add", "-A", "--", d.Path)
			if code == 0 {
				n++
			}
		case "uncache":
			_, _, code := gitx.Try(root, "rm", "--cached", "-q", "-r", "--ignore-unmatch", "--", d.Path)
			if code == 0 {
				n++
			}
		}
	}
	return n
}
