package wtgen

import (
	"crypto/sha1"
	"encoding/hex"
	"fmt"
	"sort"
	"strings"

	"verif/harness/lib/gitx"
)

// StatusEntry is one record of `git status --porcelain=v2 -z`.
type StatusEntry struct {
	Type string // "1" changed, "u" unmerged, "?" untracked, "!" ignored
	XY   string // e.g. "M.", ".M", "A.", ".D" ("" for ? and !)
	Sub  string // submodule field, e.g. "N..." or "S..U"
	MH   string // mode in HEAD
	MI   string // mode in index
	MW   string // mode in worktree
	HH   string // hash in HEAD
	HI   string // hash in index
	Path string
}

// Status runs git status (porcelain v2, -z, all untracked files, no rename
// detection, ignored files listed) and parses it.
func Status(dir string) []StatusEntry {
	_, es := StatusHead(dir)
	return es
}

// StatusHead is Status plus the commit id HEAD resolves to ("(initial)" on
// an unborn branch), taken from the same git invocation (--branch header).
func StatusHead(dir string) (string, []StatusEntry) {
	h, es, msg := TryStatusHead(dir)
	if msg != "" {
		panic("INFRA: git status: " + msg)
	}
	return h, es
}

// TryStatusHead is StatusHead for states git status may refuse to describe
// (e.g. a symlink where the index has a gitlink): a non-empty third result
// is git's error message.
func TryStatusHead(dir string) (string, []StatusEntry, string) {
	out, stderr, code := gitx.Try(dir, "status", "--porcelain=v2", "--branch", "-z", "--untracked-files=all", "--no-renames", "--ignored=matching")
	if code != 0 {
		return "", nil, fmt.Sprintf("exit %d: %s", code, strings.TrimSpace(stderr))
	}
	var res []StatusEntry
	head := ""
	for _, rec := range strings.Split(out, "\x00") {
		if rec == "" {
			continue
		}
		switch rec[0] {
		case '#':
			if strings.HasPrefix(rec, "# branch.oid ") {
				head = strings.TrimPrefix(rec, "# branch.oid ")
			}
		case '?', '!':
			res = append(res, StatusEntry{Type: rec[:1], Path: rec[2:]})
		case '1':
			f := strings.SplitN(rec, " ", 9)
			if len(f) != 9 {
				panic("INFRA: cannot parse status record " + rec)
			}
			res = append(res, StatusEntry{Type: "1", XY: f[1], Sub: f[2], MH: f[3], MI: f[4], MW: f[5], HH: f[6], HI: f[7], Path: f[8]})
		case 'u':
			f := strings.SplitN(rec, " ", 11)
			if len(f) != 11 {
				panic("INFRA: cannot parse status record " + rec)
			}
			res = append(res, StatusEntry{Type: "u", XY: f[1], Sub: f[2], Path: f[10]})
		default:
			panic("INFRA: unexpected status record " + rec)
		}
	}
	return head, res, ""
}

// Tracked returns the entries that are tracked changes (types 1 and u).
func Tracked(es []StatusEntry) []StatusEntry {
	var o []StatusEntry
	for _, e := range es {
		if e.Type == "1" || e.Type == "u" {
			o = append(o, e)
		}
	}
	return o
}

// Untracked returns the sorted paths reported as untracked (or ignored).
func Untracked(es []StatusEntry) []string {
	var o []string
	for _, e := range es {
		if e.Type == "?" || e.Type == "!" {
			o = append(o, strings.TrimSuffix(e.Path, "/"))
		}
	}
	sort.Strings(o)
	return o
}

// IndexEntry is one line of ls-files -s / ls-tree -r: "mode hash stage".
type IndexEntry struct {
	Mode, Hash string
	Stage      string
}

// LsFiles returns path -> entries of the index (`git ls-files -s -z`),
// rendered "mode hash stage" per path in stage order.
func LsFiles(dir string) map[string]string {
	out := gitx.Must(dir, "ls-files", "-s", "-z")
	m := map[string]string{}
	for _, rec := range strings.Split(out, "\x00") {
		if rec == "" {
			continue
		}
		i := strings.IndexByte(rec, '\t')
		if i < 0 {
			panic("INFRA: ls-files record " + rec)
		}
		p := rec[i+1:]
		if m[p] != "" {
			m[p] += ";"
		}
		m[p] += rec[:i]
	}
	return m
}

// LsTree returns path -> "mode hash 0" for every leaf of rev's tree, in the
// same rendering as LsFiles for a fully merged index.
func LsTree(dir, rev string) map[string]string {
	out := gitx.Must(dir, "ls-tree", "-r", "-z", rev)
	m := map[string]string{}
	for _, rec := range strings.Split(out, "\x00") {
		if rec == "" {
			continue
		}
		i := strings.IndexByte(rec, '\t')
		f := strings.Fields(rec[:i])
		if i < 0 || len(f) != 3 {
			panic("INFRA: ls-tree record " + rec)
		}
		m[rec[i+1:]] = f[0] + " " + f[2] + " 0"
	}
	return m
}

// SortedKeys returns the sorted keys of a string-keyed map.
func SortedKeys[V any](m map[string]V) []string {
	o := make([]string, 0, len(m))
	for k := range m {
		o = append(o, k)
	}
	sort.Strings(o)
	return o
}

// BlobID is the SHA-1 git blob id of data.
func BlobID(data []byte) string {
	h := sha1.New()
	fmt.Fprintf(h, "blob %d\x00", len(data))
	h.Write(data)
	return hex.EncodeToString(h.Sum(nil))
}

// EntryOf renders a worktree state the way LsFiles renders an index entry
// ("mode hash 0"), or "" for directories and unknown kinds.
func EntryOf(s State) string {
	switch s.Kind {
	case File:
		return "100644 " + BlobID([]byte(s.Data)) + " 0"
	case Exec:
		return "100755 " + BlobID([]byte(s.Data)) + " 0"
	case Link:
		return "120000 " + BlobID([]byte(s.Data)) + " 0"
	}
	return ""
}

// TreeEntries renders a tree model like LsTree renders the commit built from it.
func TreeEntries(t Tree) map[string]string {
	m := map[string]string{}
	for _, e := range t {
		switch e.Kind {
		case File:
			m[e.Path] = "100644 " + BlobID(Expand(e.Data)) + " 0"
		case Exec:
			m[e.Path] = "100755 " + BlobID(Expand(e.Data)) + " 0"
		case Link:
			m[e.Path] = "120000 " + BlobID([]byte(e.Data)) + " 0"
		case Sub:
			m[e.Path] = "160000 " + SubIDs[e.Data] + " 0"
		}
	}
	return m
}
