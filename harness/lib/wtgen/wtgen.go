// Package wtgen is the shared generator for the worktree-porcelain checks
// (C25, C26, C30): a *tree model* (path -> file / exec / symlink / submodule +
// content) over a small path pool with case variants and nested directories,
// commit pairs obtained by mutation, and pre-existing worktree "dirt".
// Repositories are built by real git (fast-import + reset --hard); all
// random choices are drawn from rapid and end up in plain JSON-serialisable
// values, so a case can be replayed without rapid.
package wtgen

import (
	"bytes"
	"fmt"
	"os"
	"path/filepath"
	"sort"
	"strings"
	"sync"

	"pgregory.net/rapid"

	"verif/harness/lib/gitx"
)

// Entry kinds.
const (
	File = "f" // regular, 100644
	Exec = "x" // regular, 100755
	Link = "l" // symlink, Data = target
	Sub  = "s" // gitlink, Data = token naming a fixed commit id
	Dir  = "d" // only in snapshots of a worktree (never in a Tree)
)

// Entry is one leaf of a tree model.
type Entry struct {
	Path string `json:"p"`
	Kind string `json:"k"`
	Data string `json:"d"`
}

// Tree is a D/F-consistent set of entries, sorted by path.
type Tree []Entry

// Pool is the path alphabet: nested directories, case variants (x/X, d/D),
// names that are both a possible file and a possible directory (a, d, d/e),
// a name with a space and a non-ASCII name.
var Pool = []string{
	"a", "a/b", "a/c", "b", "c.txt", "x", "X", "d", "D", "d/a", "d/b", "d/X", "d/x",
	"d/e", "d/e/f", "d/e/g", "D/a", "e", "e/a", "sp ace", "é", "é/z", "sp ace/q",
}

// Contents is the content alphabet for regular files. A value starting with
// "@big" is expanded (see Expand) to ~100 KiB.
var Contents = []string{"v1\n", "v2\n", "v3\n", "", "no newline", "a\r\nb\n", "\x00bin\x01\n", "@big1", "@big2"}

// Targets is the symlink-target alphabet (dangling, file, directory, parent
// traversal, absolute).
var Targets = []string{"a", "d", "b", "../x", "nonexistent", "d/a", "/dev/null", ".", "d/e"}

// SubIDs maps the gitlink tokens to fixed (non-existent) commit ids.
var SubIDs = map[string]string{
	"s1": "1111111111111111111111111111111111111111",
	"s2": "2222222222222222222222222222222222222222",
	"s3": "3333333333333333333333333333333333333333",
}

// Expand maps a content token to its bytes.
func Expand(d string) []byte {
	if strings.HasPrefix(d, "@big") {
		return []byte(strings.Repeat(d+" 0123456789abcdef\n", 4400))
	}
	return []byte(d)
}

// Sorted returns a sorted copy.
func (t Tree) Sorted() Tree {
	o := append(Tree(nil), t...)
	sort.Slice(o, func(i, j int) bool { return o[i].Path < o[j].Path })
	return o
}

// Get returns the entry at path.
func (t Tree) Get(p string) (Entry, bool) {
	for _, e := range t {
		if e.Path == p {
			return e, true
		}
	}
	return Entry{}, false
}

// Has reports whether p is a leaf of t.
func (t Tree) Has(p string) bool { _, ok := t.Get(p); return ok }

// IsDir reports whether p is a proper directory prefix of some leaf.
func (t Tree) IsDir(p string) bool {
	for _, e := range t {
		if strings.HasPrefix(e.Path, p+"/") {
			return true
		}
	}
	return false
}

// Conflicts reports whether adding a leaf at p would break D/F consistency
// (p already present, an ancestor of p is a leaf, or p is a directory).
func (t Tree) Conflicts(p string) bool {
	return t.Has(p) || t.IsDir(p) || t.LeafAncestor(p) != ""
}

// LeafAncestor returns the leaf of t that is a proper ancestor of p, or "".
func (t Tree) LeafAncestor(p string) string {
	for _, e := range t {
		if strings.HasPrefix(p, e.Path+"/") {
			return e.Path
		}
	}
	return ""
}

// DFRelated reports whether path p is in a directory/file relation with any
// leaf of t (ancestor or descendant), i.e. both cannot exist at once.
func (t Tree) DFRelated(p string) bool { return t.IsDir(p) || t.LeafAncestor(p) != "" }

// Without returns t minus the leaf p and everything below directory p.
func (t Tree) Without(p string) Tree {
	var o Tree
	for _, e := range t {
		if e.Path == p || strings.HasPrefix(e.Path, p+"/") {
			continue
		}
		o = append(o, e)
	}
	return o
}

// With returns t plus e (replacing a leaf at the same path).
func (t Tree) With(e Entry) Tree {
	o := t.Without(e.Path)
	o = append(o, e)
	return o.Sorted()
}

// Dirs returns the directory prefixes of t, sorted.
func (t Tree) Dirs() []string {
	m := map[string]bool{}
	for _, e := range t {
		for d := filepath.Dir(e.Path); d != "."; d = filepath.Dir(d) {
			m[d] = true
		}
	}
	var o []string
	for d := range m {
		o = append(o, d)
	}
	sort.Strings(o)
	return o
}

// Valid reports whether t is D/F consistent, duplicate-free and uses known kinds.
func (t Tree) Valid() bool {
	seen := map[string]bool{}
	for _, e := range t {
		if e.Path == "" || seen[e.Path] || strings.HasPrefix(e.Path, "/") || strings.HasSuffix(e.Path, "/") {
			return false
		}
		for _, c := range strings.Split(e.Path, "/") {
			if c == "" || c == "." || c == ".." || strings.EqualFold(c, ".git") {
				return false
			}
		}
		seen[e.Path] = true
		switch e.Kind {
		case File, Exec, Link:
		case Sub:
			if SubIDs[e.Data] == "" {
				return false
			}
		default:
			return false
		}
		if e.Kind == Link && (e.Data == "" || strings.ContainsRune(e.Data, 0)) {
			return false
		}
	}
	for _, e := range t {
		if t.IsDir(e.Path) {
			return false
		}
	}
	return true
}

// GenOpts tunes the generators.
type GenOpts struct {
	NoSub bool // never generate gitlinks
}

func genLeaf(t *rapid.T, p string, o GenOpts) Entry {
	k := rapid.SampledFrom([]string{File, File, File, Exec, Link, Link, Sub}).Draw(t, "kind")
	if k == Sub && o.NoSub {
		k = File
	}
	return Entry{Path: p, Kind: k, Data: genData(t, k)}
}

func genData(t *rapid.T, k string) string {
	switch k {
	case Link:
		return rapid.SampledFrom(Targets).Draw(t, "target")
	case Sub:
		return rapid.SampledFrom([]string{"s1", "s2", "s3"}).Draw(t, "sub")
	}
	return rapid.SampledFrom(Contents).Draw(t, "content")
}

// GenTree draws a tree over Pool.
func GenTree(t *rapid.T, o GenOpts) Tree {
	var tr Tree
	deepFirst := rapid.Bool().Draw(t, "deepFirst")
	pool := append([]string(nil), Pool...)
	if deepFirst {
		sort.SliceStable(pool, func(i, j int) bool { return strings.Count(pool[i], "/") > strings.Count(pool[j], "/") })
	}
	for _, p := range pool {
		if !rapid.Bool().Draw(t, "present") {
			continue
		}
		if tr.Conflicts(p) {
			continue
		}
		tr = append(tr, genLeaf(t, p, o))
	}
	return tr.Sorted()
}

// Mutate derives a second tree from a by 1..5 mutations: add, delete, modify,
// chmod, type swap among file/symlink/gitlink, file->directory,
// directory->leaf, case rename.
func Mutate(t *rapid.T, a Tree, o GenOpts) Tree {
	b := append(Tree(nil), a...)
	n := rapid.IntRange(1, 5).Draw(t, "nmut")
	for i := 0; i < n; i++ {
		op := rapid.SampledFrom([]string{"add", "add", "del", "mod", "mod", "chmod", "swap", "swap", "todir", "toleaf", "case"}).Draw(t, "mut")
		pick := func() (Entry, bool) {
			if len(b) == 0 {
				return Entry{}, false
			}
			return b[rapid.IntRange(0, len(b)-1).Draw(t, "which")], true
		}
		switch op {
		case "add":
			p := rapid.SampledFrom(Pool).Draw(t, "path")
			if !b.Conflicts(p) {
				b = b.With(genLeaf(t, p, o))
			}
		case "del":
			if e, ok := pick(); ok {
				b = b.Without(e.Path)
			}
		case "mod":
			if e, ok := pick(); ok {
				e.Data = genData(t, e.Kind)
				b = b.With(e)
			}
		case "chmod":
			if e, ok := pick(); ok {
				switch e.Kind {
				case File:
					e.Kind = Exec
				case Exec:
					e.Kind = File
				}
				b = b.With(e)
			}
		case "swap":
			if e, ok := pick(); ok {
				ne := genLeaf(t, e.Path, o)
				if (ne.Kind == File || ne.Kind == Exec) && (e.Kind == File || e.Kind == Exec) {
					ne.Kind = Link
					ne.Data = rapid.SampledFrom(Targets).Draw(t, "target")
				}
				b = b.With(ne)
			}
		case "todir":
			if e, ok := pick(); ok {
				b = b.Without(e.Path)
				kids := []string{e.Path + "/n"}
				for _, p := range Pool {
					if strings.HasPrefix(p, e.Path+"/") {
						kids = append(kids, p)
					}
				}
				k := rapid.IntRange(1, 2).Draw(t, "nkids")
				for j := 0; j < k; j++ {
					p := rapid.SampledFrom(kids).Draw(t, "kid")
					if !b.Conflicts(p) {
						b = b.With(genLeaf(t, p, o))
					}
				}
			}
		case "toleaf":
			ds := b.Dirs()
			if len(ds) > 0 {
				d := ds[rapid.IntRange(0, len(ds)-1).Draw(t, "dir")]
				b = b.Without(d)
				if !b.Conflicts(d) {
					b = b.With(genLeaf(t, d, o))
				}
			}
		case "case":
			if e, ok := pick(); ok {
				np := swapCase(e.Path)
				if np != e.Path && !b.Without(e.Path).Conflicts(np) {
					b = b.Without(e.Path)
					e.Path = np
					b = b.With(e)
				}
			}
		}
	}
	return b.Sorted()
}

func swapCase(p string) string {
	i := strings.LastIndex(p, "/") + 1
	c := p[i:]
	if c == strings.ToLower(c) {
		c = strings.ToUpper(c)
	} else {
		c = strings.ToLower(c)
	}
	return p[:i] + c
}

// ---------------------------------------------------------------------------
// Classification of a pair.

// PairInfo describes how two trees differ.
type PairInfo struct {
	Added, Deleted, Modified, ModeChange, TypeSwap, DirFileSwap, CaseVariant, Sub int
	Changed                                                                       map[string]bool // every leaf path that differs (present in one only, or different kind/data)
}

func class(k string) string {
	if k == Exec {
		return File
	}
	return k
}

// Diff classifies the differences between a and b.
func Diff(a, b Tree) PairInfo {
	pi := PairInfo{Changed: map[string]bool{}}
	lower := map[string]string{}
	for _, t := range []Tree{a, b} {
		for _, e := range t {
			l := strings.ToLower(e.Path)
			if o, ok := lower[l]; ok && o != e.Path {
				pi.CaseVariant++
			}
			lower[l] = e.Path
			if e.Kind == Sub {
				pi.Sub++
			}
		}
	}
	for _, e := range a {
		f, ok := b.Get(e.Path)
		switch {
		case !ok:
			pi.Deleted++
			pi.Changed[e.Path] = true
			if b.DFRelated(e.Path) {
				pi.DirFileSwap++
			}
		case e == f:
		default:
			pi.Changed[e.Path] = true
			if class(e.Kind) != class(f.Kind) {
				pi.TypeSwap++
			} else if e.Kind != f.Kind {
				pi.ModeChange++
				if e.Data != f.Data {
					pi.Modified++
				}
			} else {
				pi.Modified++
			}
		}
	}
	for _, f := range b {
		if !a.Has(f.Path) {
			pi.Added++
			pi.Changed[f.Path] = true
		}
	}
	return pi
}

// ---------------------------------------------------------------------------
// Building repositories with git.

// Scratch returns a fresh scratch directory (caller removes it).
func Scratch(prefix string) string {
	base := os.Getenv("VERIF_SCRATCH")
	if base == "" {
		base = "/dev/shm"
	}
	d, err := os.MkdirTemp(base, prefix)
	if err != nil {
		panic("INFRA: scratch: " + err.Error())
	}
	return d
}

// Commit is one commit of a fast-import build: branch name, tree, optional
// parent (index into the list, -1 = root).
type Commit struct {
	Branch string
	Tree   Tree
	Parent int
	// Gitmodules, when true, adds a .gitmodules file listing every gitlink
	// of the tree (name == path, url ./nowhere).
	Gitmodules bool
}

// Gitmodules renders the .gitmodules content for the gitlinks of t.
func Gitmodules(t Tree) string {
	var sb strings.Builder
	for _, e := range t {
		if e.Kind == Sub {
			fmt.Fprintf(&sb, "[submodule %q]\n\tpath = %s\n\turl = ./nowhere\n", e.Path, e.Path)
		}
	}
	return sb.String()
}

// Effective returns the tree actually committed for c (with .gitmodules).
func (c Commit) Effective() Tree {
	if c.Gitmodules {
		if gm := Gitmodules(c.Tree); gm != "" && !c.Tree.Conflicts(".gitmodules") {
			return c.Tree.With(Entry{Path: ".gitmodules", Kind: File, Data: gm})
		}
	}
	return c.Tree
}

func quotePath(p string) string {
	if strings.ContainsAny(p, "\"\n\\") || strings.HasPrefix(p, " ") {
		var sb strings.Builder
		sb.WriteByte('"')
		for i := 0; i < len(p); i++ {
			switch c := p[i]; c {
			case '"', '\\':
				sb.WriteByte('\\')
				sb.WriteByte(c)
			case '\n':
				sb.WriteString("\\n")
			default:
				sb.WriteByte(c)
			}
		}
		sb.WriteByte('"')
		return sb.String()
	}
	return p
}

// Build creates a non-bare repository in dir (git init -b main) holding the
// given commits (one `git fast-import`), and returns their ids. The worktree
// and index are left empty; HEAD is refs/heads/main.
func Build(dir string, commits []Commit) []string {
	InitRepo(dir)
	var buf bytes.Buffer
	for i, c := range commits {
		fmt.Fprintf(&buf, "commit refs/heads/%s\nmark :%d\ncommitter C O Mitter <committer@example.com> %d +0000\n", c.Branch, i+1, 1700000000+i)
		msg := fmt.Sprintf("c%d\n", i)
		fmt.Fprintf(&buf, "data %d\n%s", len(msg), msg)
		if c.Parent >= 0 {
			fmt.Fprintf(&buf, "from :%d\n", c.Parent+1)
		}
		buf.WriteString("deleteall\n")
		for _, e := range c.Effective() {
			switch e.Kind {
			case Sub:
				fmt.Fprintf(&buf, "M 160000 %s %s\n", SubIDs[e.Data], quotePath(e.Path))
				continue
			}
			mode := map[string]string{File: "100644", Exec: "100755", Link: "120000"}[e.Kind]
			data := Expand(e.Data)
			if e.Kind == Link {
				data = []byte(e.Data)
			}
			fmt.Fprintf(&buf, "M %s inline %s\ndata %d\n", mode, quotePath(e.Path), len(data))
			buf.Write(data)
			buf.WriteByte('\n')
		}
		buf.WriteByte('\n')
	}
	buf.WriteString("done\n")
	marks := filepath.Join(dir, ".git", "verif-marks")
	gitx.MustIn(dir, buf.Bytes(), "fast-import", "--quiet", "--done", "--export-marks="+marks)
	mb, err := os.ReadFile(marks)
	if err != nil {
		panic("INFRA: marks: " + err.Error())
	}
	os.Remove(marks)
	ids := make([]string, len(commits))
	for _, l := range strings.Split(strings.TrimSpace(string(mb)), "\n") {
		var n int
		var h string
		if _, err := fmt.Sscanf(l, ":%d %s", &n, &h); err == nil && n >= 1 && n <= len(ids) {
			ids[n-1] = h
		}
	}
	for i, h := range ids {
		if len(h) != 40 {
			panic(fmt.Sprintf("INFRA: fast-import gave no id for commit %d", i))
		}
	}
	return ids
}

var (
	tmplOnce  sync.Once
	tmplFiles map[string][]byte // relative path -> content ("" key suffix "/" = directory)
)

// InitRepo creates an empty non-bare repository exactly as `git init -q -b
// main --template=` does: git init is run once per process and its output
// (a handful of small files) is replicated afterwards, which saves one
// subprocess per case.
func InitRepo(dir string) {
	tmplOnce.Do(func() {
		t := Scratch("wtgen-tmpl-")
		defer os.RemoveAll(t)
		gitx.Init(t, false, "")
		tmplFiles = map[string][]byte{}
		var walk func(rel string)
		walk = func(rel string) {
			ents, err := os.ReadDir(filepath.Join(t, rel))
			if err != nil {
				panic("INFRA: template: " + err.Error())
			}
			for _, de := range ents {
				p := filepath.Join(rel, de.Name())
				if de.IsDir() {
					tmplFiles[p+"/"] = nil
					walk(p)
					continue
				}
				b, err := os.ReadFile(filepath.Join(t, p))
				if err != nil {
					panic("INFRA: template: " + err.Error())
				}
				tmplFiles[p] = b
			}
		}
		walk("")
	})
	if err := os.MkdirAll(dir, 0o755); err != nil {
		panic("INFRA: init: " + err.Error())
	}
	for _, p := range SortedKeys(tmplFiles) {
		var err error
		if strings.HasSuffix(p, "/") {
			err = os.MkdirAll(filepath.Join(dir, p), 0o755)
		} else {
			err = os.WriteFile(filepath.Join(dir, p), tmplFiles[p], 0o644)
		}
		if err != nil {
			panic("INFRA: init: " + err.Error())
		}
	}
}

// Detach makes HEAD a detached reference to id (what `git checkout --detach`
// leaves in .git/HEAD), without touching index or worktree.
func Detach(dir, id string) {
	if err := os.WriteFile(filepath.Join(dir, ".git", "HEAD"), []byte(id+"\n"), 0o644); err != nil {
		panic("INFRA: detach: " + err.Error())
	}
}

// Materialise makes worktree and index equal to HEAD using git itself.
func Materialise(dir string) { gitx.Must(dir, "reset", "-q", "--hard") }

// ---------------------------------------------------------------------------
// Worktree snapshots.

// State is what is at one worktree path.
type State struct {
	Kind string // File, Exec, Link, Dir
	Data string // file bytes / link target
}

// Snapshot walks the worktree (skipping the top-level .git) and returns
// path -> state for every file, symlink and directory.
func Snapshot(root string) map[string]State {
	out := map[string]State{}
	var walk func(rel string)
	walk = func(rel string) {
		ents, err := os.ReadDir(filepath.Join(root, rel))
		if err != nil {
			panic("INFRA: snapshot readdir: " + err.Error())
		}
		for _, de := range ents {
			if rel == "" && de.Name() == ".git" {
				continue
			}
			p := filepath.Join(rel, de.Name())
			full := filepath.Join(root, p)
			fi, err := os.Lstat(full)
			if err != nil {
				panic("INFRA: snapshot lstat: " + err.Error())
			}
			switch {
			case fi.Mode()&os.ModeSymlink != 0:
				tg, _ := os.Readlink(full)
				out[p] = State{Link, tg}
			case fi.IsDir():
				out[p] = State{Dir, ""}
				walk(p)
			case fi.Mode().IsRegular():
				b, err := os.ReadFile(full)
				if err != nil {
					panic("INFRA: snapshot read: " + err.Error())
				}
				k := File
				if fi.Mode()&0o100 != 0 {
					k = Exec
				}
				out[p] = State{k, string(b)}
			default:
				out[p] = State{"?", ""}
			}
		}
	}
	walk("")
	return out
}

// Matches reports whether the worktree state s materialises tree entry e.
func Matches(e Entry, s State, ok bool) bool {
	if !ok {
		return false
	}
	switch e.Kind {
	case File, Exec:
		return s.Kind == e.Kind && s.Data == string(Expand(e.Data))
	case Link:
		return s.Kind == Link && s.Data == e.Data
	case Sub:
		return s.Kind == Dir
	}
	return false
}

// CopyDir copies a directory tree (files, modes, symlinks, mtimes are not
// preserved beyond what os gives) — used to make a twin of a repository.
func CopyDir(src, dst string) {
	ents, err := os.ReadDir(src)
	if err != nil {
		panic("INFRA: copy: " + err.Error())
	}
	if err := os.MkdirAll(dst, 0o755); err != nil {
		panic("INFRA: copy: " + err.Error())
	}
	for _, de := range ents {
		s, d := filepath.Join(src, de.Name()), filepath.Join(dst, de.Name())
		fi, err := os.Lstat(s)
		if err != nil {
			panic("INFRA: copy: " + err.Error())
		}
		switch {
		case fi.Mode()&os.ModeSymlink != 0:
			tg, _ := os.Readlink(s)
			if err := os.Symlink(tg, d); err != nil {
				panic("INFRA: copy: " + err.Error())
			}
		case fi.IsDir():
			CopyDir(s, d)
		default:
			b, err := os.ReadFile(s)
			if err != nil {
				panic("INFRA: copy: " + err.Error())
			}
			if err := os.WriteFile(d, b, fi.Mode().Perm()); err != nil {
				panic("INFRA: copy: " + err.Error())
			}
			os.Chmod(d, fi.Mode().Perm())
		}
	}
}
