// Package c01 decides C01: object ids and loose objects are identical to git's.
//
// One case = (object format, object type, content recipe, writing entry point,
// write chunking, git-side zlib level, go-git LargeObjectThreshold).
//
//	(a) every hashing entry point of go-git yields the id `git hash-object -t T
//	    --literally` yields;
//	(b) the loose object written by the selected go-git entry point into a
//	    repository created by `git init --object-format=F` is returned by
//	    `git cat-file --batch` with the same type, size and bytes, and `git fsck`
//	    says about that repository exactly what it says about a repository in
//	    which git itself stored the object (differential: a corrupt file, trailing
//	    garbage or a hash/path mismatch would add lines);
//	(c) the loose object git wrote (core.looseCompression in {0,1,9,default}) is
//	    returned by a fresh go-git filesystem storage (also with
//	    LargeObjectThreshold=1, the streaming path) with the same type, size,
//	    bytes and id.
package c01

import (
	"bytes"
	"fmt"
	"io"
	"os"
	"path/filepath"
	"strconv"
	"strings"
	"sync"
	"testing"

	"github.com/go-git/go-billy/v6/osfs"
	git "github.com/go-git/go-git/v6"
	"github.com/go-git/go-git/v6/plumbing"
	"github.com/go-git/go-git/v6/plumbing/cache"
	fcfg "github.com/go-git/go-git/v6/plumbing/format/config"
	"github.com/go-git/go-git/v6/plumbing/storer"
	"github.com/go-git/go-git/v6/storage/filesystem"
	"github.com/go-git/go-git/v6/storage/memory"
	"pgregory.net/rapid"

	"verif/harness/lib/evid"
	"verif/harness/lib/gitx"
)

// Content is a compact recipe: Pre + Unit*Rep + prng(RandSeed)[:RandLen] + Post
// + Unit2*Rep2 + Post2 (the second filler and trailer are used by the "eol"
// shape only; absent in cases recorded earlier).
type Content struct {
	Shape    string
	Pre      []byte
	Unit     []byte
	Rep      int
	RandLen  int
	RandSeed uint64
	Post     []byte
	Unit2    []byte `json:",omitempty"`
	Rep2     int    `json:",omitempty"`
	Post2    []byte `json:",omitempty"`
}

// Bytes expands the recipe (deterministic).
func (c Content) Bytes() []byte {
	n := len(c.Pre) + len(c.Unit)*c.Rep + c.RandLen + len(c.Post) + len(c.Unit2)*c.Rep2 + len(c.Post2)
	b := make([]byte, 0, n)
	b = append(b, c.Pre...)
	for i := 0; i < c.Rep; i++ {
		b = append(b, c.Unit...)
	}
	x := c.RandSeed
	for i := 0; i < c.RandLen; i++ { // splitmix64, one byte per step: incompressible
		x += 0x9e3779b97f4a7c15
		z := x
		z = (z ^ (z >> 30)) * 0xbf58476d1ce4e5b9
		z = (z ^ (z >> 27)) * 0x94d049bb133111eb
		z ^= z >> 31
		b = append(b, byte(z))
	}
	b = append(b, c.Post...)
	for i := 0; i < c.Rep2; i++ {
		b = append(b, c.Unit2...)
	}
	b = append(b, c.Post2...)
	return b
}

// Case is one object, one writing entry point and the reading configurations.
type Case struct {
	Format    string // sha1 | sha256
	Type      string // blob | tree | commit | tag
	Content   Content
	Entry     string // fs-set | fs-raw | fs-lazy | wt-add | mem-set | mem-raw
	Chunk     int    // write chunk size used for go-git writers (0 = one Write)
	GitLevel  int    // core.looseCompression for the git-written object, -1 = default
	Threshold int64  // filesystem.Options.LargeObjectThreshold for the reverse read
	// AutoCRLF (wt-add only): core.autocrlf of the repository the file is added
	// to: "" (unset), "false", "input", "true". The id and the stored bytes
	// expected from Worktree.Add are then the ones of `git -c core.autocrlf=X
	// hash-object -w --path=f --stdin` (git's clean conversion of a file that is
	// not in the index), not the ones of the literal bytes.
	AutoCRLF string `json:",omitempty"`
}

var types = []string{"blob", "tree", "commit", "tag"}

var boundaries = []int{1, 9, 10, 99, 100, 4095, 4096, 4097, 8191, 8192, 32767, 32768, 32769, 65535, 65536, 65537}

func gen(t *rapid.T, _ *evid.Recorder) Case {
	c := Case{
		Format: rapid.SampledFrom([]string{"sha1", "sha256"}).Draw(t, "format"),
		Type:   rapid.SampledFrom(types).Draw(t, "type"),
	}
	bs := func(lo, hi int, l string) []byte { return rapid.SliceOfN(rapid.Byte(), lo, hi).Draw(t, l) }
	switch rapid.IntRange(0, 12).Draw(t, "shape") {
	case 0:
		c.Content.Shape = "empty"
	case 1:
		c.Content.Shape = "small"
		c.Content.Pre = bs(1, 300, "bytes")
	case 2: // looks like a loose-object header, sometimes with the truthful length
		c.Content.Shape = "headerlike"
		tail := bs(0, 50, "tail")
		ht := rapid.SampledFrom(types).Draw(t, "htype")
		n := rapid.SampledFrom([]int{len(tail), 12, 0, 1 << 20}).Draw(t, "hlen")
		c.Content.Pre = append([]byte(ht+" "+strconv.Itoa(n)+"\x00"), tail...)
	case 3:
		c.Content.Shape = "nulrun"
		c.Content.Unit = []byte{0}
		c.Content.Rep = rapid.IntRange(1, 5000).Draw(t, "nul")
		c.Content.Post = bs(0, 3, "post")
	case 4:
		c.Content.Shape = "repeat"
		c.Content.Unit = bs(1, 40, "unit")
		c.Content.Rep = rapid.IntRange(1, 1600).Draw(t, "rep")
	case 5:
		c.Content.Shape = "random"
		c.Content.RandLen = rapid.IntRange(1, 65536).Draw(t, "rlen")
		c.Content.RandSeed = rapid.Uint64().Draw(t, "rseed")
	case 6: // buffer-size and decimal-length boundaries
		c.Content.Shape = "boundary"
		c.Content.RandLen = rapid.SampledFrom(boundaries).Draw(t, "blen")
		c.Content.RandSeed = rapid.Uint64().Draw(t, "rseed")
	case 7: // plausible object text (the content is opaque to the property, but this is what real objects look like)
		c.Content.Shape = "objectlike"
		switch c.Type {
		case "tree":
			c.Content.Pre = []byte("100644 a\x00")
			c.Content.RandLen = 20
			if c.Format == "sha256" {
				c.Content.RandLen = 32
			}
			c.Content.RandSeed = rapid.Uint64().Draw(t, "rseed")
		case "commit":
			c.Content.Pre = []byte("tree 4b825dc642cb6eb9a060e54bf8d69288fbee4904\nauthor A <a@b> 1 +0000\ncommitter A <a@b> 1 +0000\n\n")
			c.Content.Post = bs(0, 40, "msg")
		case "tag":
			c.Content.Pre = []byte("object 4b825dc642cb6eb9a060e54bf8d69288fbee4904\ntype tree\ntag x\ntagger A <a@b> 1 +0000\n\n")
			c.Content.Post = bs(0, 40, "msg")
		default:
			c.Content.Pre = []byte("line one\r\nline two\n\x00\xff")
			c.Content.Post = bs(0, 40, "msg")
		}
	case 8: // large; only the thorough tier draws MiB sizes
		c.Content.Shape = "large"
		hi := 200_000
		if evid.Thorough() {
			hi = 3 << 20
		}
		if rapid.Bool().Draw(t, "compressible") {
			c.Content.Unit = bs(1, 64, "unit")
			c.Content.Rep = rapid.IntRange(65536, hi).Draw(t, "total") / len(c.Content.Unit)
		} else {
			c.Content.RandLen = rapid.IntRange(65536, hi).Draw(t, "rlen")
			c.Content.RandSeed = rapid.Uint64().Draw(t, "rseed")
		}
	case 9, 10, 11, 12:
		// line-structured content with one end-of-line / binary marker placed at a chosen
		// distance from a buffer boundary: the 8000-byte prefix git's *other* text heuristics
		// look at, the 32 KiB copy buffer, bufio's 4096, 64 KiB. What matters to
		// core.autocrlf is the classification of the WHOLE file.
		c.Content.Shape = "eol"
		c.Type = "blob"
		fill := func(l string) []byte {
			return []byte(rapid.SampledFrom([]string{"a\n", "ab\r\n", "abc\r\n", "x", "line\n", "\r\n", "\n", "ab\r\nc\n", "\ttab\r\n", "\x01\x02\x03\n", "\xc3\xa9\r\n", "ab\r\n", "\r\n"}).Draw(t, l))
		}
		mark := func(l string) []byte {
			return []byte(rapid.SampledFrom([]string{"\r\n", "\r\n", "\r\n", "\r", "\x00", "\x00", "\n", "\r\r\n", "\x1a", "\r\nX", "\x7f", "\x01", "\rX", "\n\r", ""}).Draw(t, l))
		}
		at := rapid.SampledFrom([]int{8000, 8000, 8000, 8000, 32768, 32768, 32768, 4096, 8192, 65536, 100, 16000}).Draw(t, "boundary") + rapid.SampledFrom([]int{-3, -2, -1, -1, -1, 0, 0, 1, 2}).Draw(t, "delta")
		c.Content.Unit = fill("unit")
		c.Content.Rep = at / len(c.Content.Unit)
		c.Content.Pre = bytes.Repeat([]byte("z"), at%len(c.Content.Unit)) // the marker starts exactly at offset `at`
		c.Content.Post = mark("marker")
		c.Content.Unit2 = fill("unit2")
		c.Content.Rep2 = rapid.SampledFrom([]int{0, 0, 1, 3, 40, 2000, 9000}).Draw(t, "rep2")
		if rapid.IntRange(0, 3).Draw(t, "late") == 0 {
			c.Content.Post2 = mark("marker2")
		}
	}
	entries := []string{"fs-set", "fs-raw", "fs-lazy", "mem-set", "mem-raw", "fs-set", "fs-raw", "fs-lazy"}
	if c.Type == "blob" {
		entries = append(entries, "wt-add", "wt-add", "wt-add")
	}
	if c.Content.Shape == "eol" { // mostly through Worktree.Add, the only entry point that looks at line endings
		entries = []string{"wt-add", "wt-add", "wt-add", "wt-add", "wt-add", "wt-add", "fs-set", "fs-raw", "fs-lazy", "mem-set"}
	}
	c.Entry = rapid.SampledFrom(entries).Draw(t, "entry")
	if c.Entry == "wt-add" {
		c.AutoCRLF = rapid.SampledFrom([]string{"", "false", "input", "true", "input", "true", "input", "true"}).Draw(t, "autocrlf")
	}
	c.Chunk = rapid.SampledFrom([]int{0, 1, 7, 512, 4096, 32768, 32769}).Draw(t, "chunk")
	c.GitLevel = rapid.SampledFrom([]int{-1, 0, 1, 9}).Draw(t, "gitlevel")
	c.Threshold = rapid.SampledFrom([]int64{0, 1, 0, 4096}).Draw(t, "threshold")
	return c
}

func scratch() string {
	base := os.Getenv("VERIF_SCRATCH")
	if base == "" {
		base = "/dev/shm"
	}
	d, err := os.MkdirTemp(base, "c01-")
	if err != nil {
		panic("INFRA: scratch: " + err.Error())
	}
	return d
}

// eolLabels measures which end-of-line shapes a file added under
// core.autocrlf=input|true has (labels only; the verdict comes from git).
func eolLabels(b []byte) []string {
	binary := func(b []byte) bool { // NUL or a CR not followed by LF
		for i, x := range b {
			if x == 0 || (x == '\r' && (i+1 == len(b) || b[i+1] != '\n')) {
				return true
			}
		}
		return false
	}
	var l []string
	if bytes.Contains(b, []byte("\r\n")) {
		l = append(l, "eol:has-CRLF")
		if len(b) > 8000 {
			l = append(l, "eol:has-CRLF,size>8000")
			if binary(b) && !binary(b[:8000]) {
				l = append(l, "eol:has-CRLF,NUL-or-lone-CR-only-after-offset-8000")
			}
			if b[7999] == '\r' && b[8000] == '\n' {
				l = append(l, "eol:CRLF-straddles-offset-8000")
				if !binary(b) {
					l = append(l, "eol:CRLF-straddles-offset-8000,text")
				}
			}
		}
		for k := 32768; k < len(b); k += 32768 {
			if b[k-1] == '\r' && b[k] == '\n' {
				l = append(l, "eol:CRLF-straddles-a-multiple-of-32768")
				break
			}
		}
	}
	return l
}

func headerLike(b []byte) bool {
	for _, ty := range types {
		if bytes.HasPrefix(b, []byte(ty+" ")) {
			i := bytes.IndexByte(b, 0)
			if i > len(ty)+1 && i < 32 {
				if _, err := strconv.Atoi(string(b[len(ty)+1 : i])); err == nil {
					return true
				}
			}
		}
	}
	return false
}

func sizeBucket(n int) string {
	switch {
	case n == 0:
		return "size:0"
	case n < 10:
		return "size:1-9"
	case n <= 4096:
		return "size:10-4K"
	case n <= 65536:
		return "size:4K-64K"
	case n <= 1<<20:
		return "size:64K-1M"
	}
	return "size:>1M"
}

// writeChunks writes b through w in chunks of the given size (0 = all at once).
func writeChunks(w io.Writer, b []byte, chunk int) error {
	if chunk <= 0 || len(b) == 0 {
		_, err := w.Write(b)
		return err
	}
	if min := len(b) / 4000; chunk < min { // keep 1-byte chunking affordable on large inputs
		chunk = min + 1
	}
	for len(b) > 0 {
		n := chunk
		if n > len(b) {
			n = len(b)
		}
		if _, err := w.Write(b[:n]); err != nil {
			return err
		}
		b = b[n:]
	}
	return nil
}

// catBatch asks git for one object: type, size as printed, bytes.
func catBatch(dir, oid string) (typ string, size int, data []byte, found bool) {
	out, stderr, code := gitx.TryIn(dir, []byte(oid+"\n"), "cat-file", "--batch")
	if code != 0 {
		return "", 0, []byte(stderr), false
	}
	nl := strings.IndexByte(out, '\n')
	if nl < 0 {
		return "", 0, []byte(out + stderr), false
	}
	f := strings.Fields(out[:nl])
	if len(f) != 3 || f[0] != oid {
		return "", 0, []byte(out[:nl] + " " + stderr), false
	}
	sz, err := strconv.Atoi(f[2])
	if err != nil {
		return "", 0, []byte(out[:nl]), false
	}
	body := out[nl+1:]
	if len(body) != sz+1 || body[sz] != '\n' {
		return f[1], sz, []byte(body), false
	}
	return f[1], sz, []byte(body[:sz]), true
}

func fsck(dir string) string {
	out, stderr, _ := gitx.Try(dir, "fsck", "--no-dangling", "--no-progress")
	return out + "\x00" + stderr
}

type hasher interface{ Hash() plumbing.Hash }

func openFS(gitdir string, thr int64) *filesystem.Storage {
	return filesystem.NewStorageWithOptions(osfs.New(gitdir), cache.NewObjectLRUDefault(), filesystem.Options{LargeObjectThreshold: thr})
}

func abbrev(b []byte) string {
	if len(b) > 48 {
		return fmt.Sprintf("%q…(%d bytes)", b[:48], len(b))
	}
	return fmt.Sprintf("%q", b)
}

func check(c Case) evid.Result {
	content := c.Content.Bytes()
	typ, err := plumbing.ParseObjectType(c.Type)
	if err != nil || (c.Format != "sha1" && c.Format != "sha256") {
		return evid.Result{Discard: true}
	}
	if c.Entry == "wt-add" && c.Type != "blob" {
		return evid.Result{Discard: true}
	}
	switch c.AutoCRLF {
	case "":
	case "false", "input", "true":
		if c.Entry != "wt-add" {
			return evid.Result{Discard: true}
		}
	default:
		return evid.Result{Discard: true}
	}
	of := fcfg.SHA1
	if c.Format == "sha256" {
		of = fcfg.SHA256
	}
	hl := headerLike(content)
	hasNUL := bytes.IndexByte(content, 0) >= 0
	res := evid.Result{
		NonTrivial: len(content) > 0 && (c.Type != "blob" || hasNUL || hl || len(content) > 4096),
		Labels: []string{"fmt:" + c.Format, "type:" + c.Type, "entry:" + c.Entry, "shape:" + c.Content.Shape,
			sizeBucket(len(content)), "gitlevel:" + strconv.Itoa(c.GitLevel), "thr:" + strconv.FormatInt(c.Threshold, 10)},
	}
	if hl {
		res.Labels = append(res.Labels, "headerlike-prefix")
	}
	if hasNUL {
		res.Labels = append(res.Labels, "has-NUL")
	}
	if c.Entry == "wt-add" {
		v := c.AutoCRLF
		if v == "" {
			v = "unset"
		}
		res.Labels = append(res.Labels, "wt-add:autocrlf="+v)
		if c.AutoCRLF == "input" || c.AutoCRLF == "true" {
			res.Labels = append(res.Labels, eolLabels(content)...)
		}
	}
	sig := func(what string) string { return "C01/" + what + ":" + c.Format + ":" + c.Type }

	root := scratch()
	defer os.RemoveAll(root)
	gdir := filepath.Join(root, "g") // git writes here
	wdir := filepath.Join(root, "w") // go-git writes here
	newRepo(gdir, c.Format)
	newRepo(wdir, c.Format)

	// ---- git's answer, and the git-written loose object
	args := []string{}
	if c.GitLevel >= 0 {
		args = append(args, "-c", "core.looseCompression="+strconv.Itoa(c.GitLevel))
	}
	args = append(args, "hash-object", "-w", "-t", c.Type, "--literally", "--stdin")
	want := strings.TrimSpace(gitx.MustIn(gdir, content, args...))
	if len(want) != of.HexSize() {
		panic("INFRA: unexpected hash-object output " + want)
	}
	wantPath := filepath.Join("objects", want[:2], want[2:])
	if _, err := os.Stat(filepath.Join(gdir, ".git", wantPath)); err != nil {
		panic("INFRA: git did not write a loose object: " + err.Error())
	}

	// ---- (a) pure hashing entry points
	if h, err := plumbing.FromObjectFormat(of).Compute(typ, content); err != nil || h.String() != want {
		res.Fail = evid.Failf(sig("id-ObjectHasher.Compute"), "ObjectHasher.Compute(%s, %s) = %s err=%v, git hash-object = %s", c.Type, abbrev(content), h, err, want)
		return res
	}
	{ // a reused ObjectHasher must give the same answer on the second call
		oh := plumbing.FromObjectFormat(of)
		_, _ = oh.Compute(plumbing.BlobObject, []byte("previous"))
		if h, err := oh.Compute(typ, content); err != nil || h.String() != want {
			res.Fail = evid.Failf(sig("id-ObjectHasher.Compute-reused"), "reused ObjectHasher.Compute = %s err=%v, git = %s", h, err, want)
			return res
		}
	}
	{
		hs := plumbing.NewHasher(of, typ, int64(len(content)))
		if err := writeChunks(hs, content, c.Chunk); err != nil {
			res.Fail = evid.Failf(sig("id-NewHasher"), "Hasher.Write: %v", err)
			return res
		}
		if h := hs.Sum(); h.String() != want {
			res.Fail = evid.Failf(sig("id-NewHasher"), "NewHasher(%s,%s,%d)+Write = %s, git = %s", c.Format, c.Type, len(content), h, want)
			return res
		}
	}
	{
		mo := plumbing.NewMemoryObject(plumbing.FromObjectFormat(of))
		mo.SetType(typ)
		mo.SetSize(int64(len(content)))
		_ = writeChunks(mo, content, c.Chunk)
		if h := mo.Hash(); h.String() != want {
			res.Fail = evid.Failf(sig("id-MemoryObject.Hash"), "MemoryObject.Hash = %s, git = %s (content %s)", h, want, abbrev(content))
			return res
		}
	}

	// ---- (c) go-git reads what git wrote
	{
		st := openFS(filepath.Join(gdir, ".git"), c.Threshold)
		f := readBack(st, typ, want, content, int64(len(content)))
		st.Close()
		if f != "" {
			res.Fail = evid.Failf(sig("read-git-loose"), "git-written loose object %s (level %d, threshold %d): %s", want, c.GitLevel, c.Threshold, f)
			return res
		}
	}

	// ---- (b) go-git writes, git reads
	// Under core.autocrlf Worktree.Add has to store what git's clean conversion stores for a
	// file of these bytes that is new to the index: git says which id and which bytes.
	entryName := c.Entry
	if c.Entry == "wt-add" && c.AutoCRLF != "" {
		a := []string{"-c", "core.autocrlf=" + c.AutoCRLF}
		if c.GitLevel >= 0 {
			a = append(a, "-c", "core.looseCompression="+strconv.Itoa(c.GitLevel))
		}
		a = append(a, "hash-object", "-w", "--path=f", "--stdin")
		cw := strings.TrimSpace(gitx.MustIn(gdir, content, a...))
		if len(cw) != of.HexSize() {
			panic("INFRA: unexpected hash-object output " + cw)
		}
		kept := "git-keeps-bytes"
		if cw != want {
			gt, _, gdata, ok := catBatch(gdir, cw)
			if !ok || gt != "blob" {
				panic("INFRA: git cannot read back its own converted blob " + cw)
			}
			if c.AutoCRLF == "false" || !bytes.Equal(gdata, bytes.ReplaceAll(content, []byte("\r\n"), []byte("\n"))) {
				panic(fmt.Sprintf("INFRA: oracle: git -c core.autocrlf=%s hash-object --path stored something other than the CRLF->LF image of the input (%s for %s)", c.AutoCRLF, abbrev(gdata), abbrev(content)))
			}
			want, content, kept = cw, gdata, "git-converts"
			wantPath = filepath.Join("objects", want[:2], want[2:])
			res.Labels = append(res.Labels, "wt-add:git-converts-CRLF")
		}
		entryName = fmt.Sprintf("wt-add(autocrlf=%s,%s)", c.AutoCRLF, kept)
		f, err := os.OpenFile(filepath.Join(wdir, ".git", "config"), os.O_APPEND|os.O_WRONLY, 0)
		if err == nil {
			_, err = f.WriteString("[core]\n\tautocrlf = " + c.AutoCRLF + "\n")
			if cerr := f.Close(); err == nil {
				err = cerr
			}
		}
		if err != nil {
			panic("INFRA: " + err.Error())
		}
	}
	var got plumbing.Hash
	var werr error
	var memst *memory.Storage
	switch c.Entry {
	case "fs-set", "fs-raw", "fs-lazy":
		st := openFS(filepath.Join(wdir, ".git"), 0)
		switch c.Entry {
		case "fs-set":
			o := st.NewEncodedObject()
			o.SetType(typ)
			o.SetSize(int64(len(content)))
			w, err := o.Writer()
			if err == nil {
				err = writeChunks(w, content, c.Chunk)
				if cerr := w.Close(); err == nil {
					err = cerr
				}
			}
			if err == nil {
				got, err = st.SetEncodedObject(o)
			}
			werr = err
		case "fs-raw":
			w, err := st.RawObjectWriter(typ, int64(len(content)))
			if err == nil {
				err = writeChunks(w, content, c.Chunk)
				if cerr := w.Close(); err == nil {
					err = cerr
				}
				if hw, ok := w.(hasher); ok {
					got = hw.Hash()
				} else {
					err = fmt.Errorf("RawObjectWriter result has no Hash method: %T", w)
				}
			}
			werr = err
		case "fs-lazy":
			w, wh, err := st.LazyWriter()
			if err == nil {
				err = wh(typ, int64(len(content)))
				if err == nil {
					err = writeChunks(w, content, c.Chunk)
				}
				if cerr := w.Close(); err == nil {
					err = cerr
				}
				if hw, ok := w.(hasher); ok {
					got = hw.Hash()
				} else {
					err = fmt.Errorf("LazyWriter result has no Hash method: %T", w)
				}
			}
			werr = err
		}
		st.Close()
	case "wt-add":
		if err := os.WriteFile(filepath.Join(wdir, "f"), c.Content.Bytes(), 0o644); err != nil {
			panic("INFRA: " + err.Error())
		}
		r, err := git.PlainOpen(wdir)
		if err == nil {
			var wt *git.Worktree
			wt, err = r.Worktree()
			if err == nil {
				got, err = wt.Add("f")
			}
			if cl, ok := r.Storer.(io.Closer); ok {
				cl.Close()
			}
		}
		werr = err
	case "mem-set", "mem-raw":
		memst = memory.NewStorage(memory.WithObjectFormat(of))
		if c.Entry == "mem-set" {
			o := memst.NewEncodedObject()
			o.SetType(typ)
			o.SetSize(int64(len(content)))
			w, _ := o.Writer()
			_ = writeChunks(w, content, c.Chunk)
			w.Close()
			got, werr = memst.SetEncodedObject(o)
		} else {
			w, err := memst.RawObjectWriter(typ, int64(len(content)))
			if err == nil {
				err = writeChunks(w, content, c.Chunk)
				if cerr := w.Close(); err == nil {
					err = cerr
				}
				// the raw writer does not return the id: the object must be retrievable under git's id
				got, _ = plumbing.FromHex(want)
			}
			werr = err
		}
	default:
		return evid.Result{Discard: true}
	}
	if werr != nil {
		res.Fail = evid.Failf(sig("write-error-"+entryName), "%s of %d bytes failed: %v", entryName, len(content), werr)
		return res
	}
	if got.String() != want {
		res.Fail = evid.Failf(sig("id-"+entryName), "%s returned id %s, git hash-object = %s (content %s)", entryName, got, want, abbrev(content))
		return res
	}
	if memst != nil {
		if f := readBack(memst, typ, want, content, int64(len(content))); f != "" {
			res.Fail = evid.Failf(sig("read-"+entryName), "memory storage after %s: %s", entryName, f)
		}
		return res
	}
	if _, err := os.Stat(filepath.Join(wdir, ".git", wantPath)); err != nil {
		res.Fail = evid.Failf(sig("loose-path-"+entryName), "%s: no loose object at %s: %v", entryName, wantPath, err)
		return res
	}
	gt, gsz, gdata, ok := catBatch(wdir, want)
	if !ok || gt != c.Type || gsz != len(content) || !bytes.Equal(gdata, content) {
		res.Fail = evid.Failf(sig("git-reads-"+entryName), "git cat-file --batch on the object written by %s: ok=%v type=%q (want %s) size=%d (want %d) bytes=%s (want %s)",
			entryName, ok, gt, c.Type, gsz, len(content), abbrev(gdata), abbrev(content))
		return res
	}
	// differential fsck: same single object in both repositories (the index of wt-add only adds a reference to it).
	// The git-side run is skipped when go-git's repository is reported clean (git's cannot be cleaner).
	if fw := fsck(wdir); fw != fsckClean {
		fg := fsck(gdir)
		res.Labels = append(res.Labels, "fsck-differential")
		if fg == fw {
			return rereadOwn(c, entryName, res, wdir, typ, want, content, sig)
		}
		res.Fail = evid.Failf(sig("fsck-differs-"+entryName), "git fsck differs between the repository where git stored %s and the one where go-git (%s) did:\n--- git-written\n%s\n--- go-git-written\n%s", want, entryName, fg, fw)
		return res
	}
	return rereadOwn(c, entryName, res, wdir, typ, want, content, sig)
}

const fsckClean = "\x00notice: HEAD points to an unborn branch (main)\nnotice: No default references\n"

// rereadOwn: go-git reads its own object back through a fresh storage.
func rereadOwn(c Case, entryName string, res evid.Result, wdir string, typ plumbing.ObjectType, want string, content []byte, sig func(string) string) evid.Result {
	st := openFS(filepath.Join(wdir, ".git"), c.Threshold)
	f := readBack(st, typ, want, content, int64(len(content)))
	st.Close()
	if f != "" {
		res.Fail = evid.Failf(sig("reread-"+entryName), "go-git re-reading the object written by %s: %s", entryName, f)
	}
	return res
}

// readBack fetches want from st and compares type, size, bytes and id; "" = equal.
func readBack(st storer.EncodedObjectStorer, typ plumbing.ObjectType, want string, content []byte, size int64) string {
	h, ok := plumbing.FromHex(want)
	if !ok {
		panic("INFRA: FromHex rejects git's id " + want)
	}
	if err := st.HasEncodedObject(h); err != nil {
		return fmt.Sprintf("HasEncodedObject: %v", err)
	}
	if sz, err := st.EncodedObjectSize(h); err != nil || sz != size {
		return fmt.Sprintf("EncodedObjectSize = %d, %v; want %d", sz, err, size)
	}
	for _, q := range []plumbing.ObjectType{plumbing.AnyObject, typ} {
		o, err := st.EncodedObject(q, h)
		if err != nil {
			return fmt.Sprintf("EncodedObject(%s): %v", q, err)
		}
		if o.Type() != typ {
			return fmt.Sprintf("type %s, want %s", o.Type(), typ)
		}
		if o.Size() != size {
			return fmt.Sprintf("size %d, want %d", o.Size(), size)
		}
		if o.Hash().String() != want {
			return fmt.Sprintf("id %s, want %s", o.Hash(), want)
		}
		r, err := o.Reader()
		if err != nil {
			return fmt.Sprintf("Reader: %v", err)
		}
		b, err := io.ReadAll(r)
		r.Close()
		if err != nil {
			return fmt.Sprintf("read: %v", err)
		}
		if !bytes.Equal(b, content) {
			return fmt.Sprintf("bytes %s, want %s", abbrev(b), abbrev(content))
		}
	}
	return ""
}

var (
	tmplOnce sync.Once
	tmplDir  string
)

// newRepo creates an empty repository exactly as `git init --template=
// --object-format=F` does: git runs once per process and format, the (tiny,
// constant) result is copied for every case.
func newRepo(dir, format string) {
	tmplOnce.Do(func() {
		tmplDir = scratch()
		gitx.Init(filepath.Join(tmplDir, "sha1"), false, "sha1")
		gitx.Init(filepath.Join(tmplDir, "sha256"), false, "sha256")
	})
	src := filepath.Join(tmplDir, format)
	err := filepath.Walk(src, func(p string, fi os.FileInfo, err error) error {
		if err != nil {
			return err
		}
		rel, _ := filepath.Rel(src, p)
		if fi.IsDir() {
			return os.MkdirAll(filepath.Join(dir, rel), 0o755)
		}
		b, err := os.ReadFile(p)
		if err != nil {
			return err
		}
		return os.WriteFile(filepath.Join(dir, rel), b, fi.Mode().Perm())
	})
	if err != nil {
		panic("INFRA: copy template repository: " + err.Error())
	}
}

func TestMain(m *testing.M) {
	// go-git reads the global/system git configuration of the process (autocrlf
	// would alter Worktree.Add): seal it like gitx seals git's.
	home := os.Getenv("VERIF_GIT_HOME")
	if home == "" {
		home = "/dev/shm/verif-githome"
		os.MkdirAll(home, 0o755)
	}
	os.Setenv("HOME", home)
	os.Setenv("XDG_CONFIG_HOME", home)
	os.Setenv("GIT_CONFIG_NOSYSTEM", "1")
	rc := m.Run()
	if tmplDir != "" {
		os.RemoveAll(tmplDir)
	}
	os.Exit(rc)
}

func TestC01(t *testing.T) {
	evid.Run(t, evid.Spec[Case]{ID: "C01", Gen: gen, Check: check})
}
