// Package c02 decides C02: commit and tag codecs are faithful to git.
//
//	TestC02Reencode raw bytes -> Decode -> Encode -> same bytes
//	TestC02Model    raw bytes -> Decode -> fields equal the structure the bytes were built from
//	TestC02Git      as Model, plus fields equal git's own parse (log --format / for-each-ref)
//	TestC02Struct   well-formed in-memory Commit/Tag -> Encode -> Decode -> same fields
//	TestC02GitMade  objects produced by git's own writers (commit-tree, merge of a
//	                signed tag, tag -a/-s, mktag): the canonical tier
package c02

import (
	"bytes"
	"fmt"
	"io"
	"os"
	"path/filepath"
	"strconv"
	"strings"
	"sync"
	"testing"

	"github.com/go-git/go-git/v6/plumbing"
	"github.com/go-git/go-git/v6/plumbing/object"
	"pgregory.net/rapid"

	"verif/harness/lib/evid"
	"verif/harness/lib/gitx"
)

// ---------------------------------------------------------------- scratch

func scratch() string {
	base := os.Getenv("VERIF_SCRATCH")
	if base == "" {
		base = "/dev/shm"
	}
	d, err := os.MkdirTemp(base, "c02-")
	if err != nil {
		panic("INFRA: scratch: " + err.Error())
	}
	return d
}

var (
	tmplOnce sync.Once
	tmplDir  string
)

func copyTree(src, dst string) {
	err := filepath.Walk(src, func(p string, fi os.FileInfo, err error) error {
		if err != nil {
			return err
		}
		rel, _ := filepath.Rel(src, p)
		if fi.IsDir() {
			return os.MkdirAll(filepath.Join(dst, rel), 0o755)
		}
		b, err := os.ReadFile(p)
		if err != nil {
			return err
		}
		return os.WriteFile(filepath.Join(dst, rel), b, fi.Mode().Perm()|0o200)
	})
	if err != nil {
		panic("INFRA: copy template repository: " + err.Error())
	}
}

// newRepo creates an empty repository as `git init --template= --object-format=F`
// does (git runs once per process and format; the constant result is copied).
func newRepo(dir, format string) {
	tmplOnce.Do(func() {
		tmplDir = scratch()
		gitx.Init(filepath.Join(tmplDir, "sha1"), false, "sha1")
		gitx.Init(filepath.Join(tmplDir, "sha256"), false, "sha256")
	})
	copyTree(filepath.Join(tmplDir, format), dir)
}

func TestMain(m *testing.M) {
	rc := m.Run()
	if tmplDir != "" {
		os.RemoveAll(tmplDir)
	}
	if madeDir != "" {
		os.RemoveAll(madeDir)
	}
	os.Exit(rc)
}

// ---------------------------------------------------------------- go-git side

func memObj(t plumbing.ObjectType, raw []byte) *plumbing.MemoryObject {
	o := &plumbing.MemoryObject{}
	o.SetType(t)
	o.Write(raw)
	return o
}

func objBytes(o plumbing.EncodedObject) []byte {
	r, err := o.Reader()
	if err != nil {
		panic("INFRA: memory object reader: " + err.Error())
	}
	defer r.Close()
	b, _ := io.ReadAll(r)
	return b
}

func tzSec(s object.Signature) int {
	_, off := s.When.Zone()
	return off
}

// ---------------------------------------------------------------- known findings

// A confirmed-open finding whose signature names exactly one structural
// feature ("C02/<kind>/<oracle part>/<feature>") switches that feature off in
// the generator, for that kind and for the oracle class the part belongs to
// (reencode | fields | decode), so the search continues past it. The driver
// passes only signatures whose witness still fails (VERIF_KNOWN).
var guardedFeatures = func() map[string]bool {
	g := map[string]bool{}
	for _, s := range strings.Split(os.Getenv("VERIF_KNOWN"), "\x1f") {
		p := strings.Split(s, "/")
		if len(p) == 4 && p[0] == "C02" && !strings.Contains(p[3], "+") && p[3] != "canonical" {
			g[partClass(p[2])+"/"+p[1]+"/"+p[3]] = true
		}
	}
	return g
}()

func partClass(part string) string {
	switch {
	case strings.HasPrefix(part, "reencode") || strings.HasPrefix(part, "encode"):
		return "reencode"
	case strings.HasPrefix(part, "decode"):
		return "decode"
	}
	return "fields"
}

// generation context (generation is single-threaded per process)
var curKind, curMode string

func guarded(_ *evid.Recorder, feature string) bool {
	cls := "fields"
	if curMode == "reencode" {
		cls = "reencode"
	}
	for _, k := range []string{curKind, "ident"} {
		if guardedFeatures[cls+"/"+k+"/"+feature] || guardedFeatures["decode/"+k+"/"+feature] {
			return true
		}
	}
	return false
}

// ---------------------------------------------------------------- generator

var hashes40 = []string{
	"4b825dc642cb6eb9a060e54bf8d69288fbee4904", "1111111111111111111111111111111111111111",
	"e69de29bb2d1d6434b8b29ae775ad8c2e48c5391", "00000000000000000000000000000000000000ff",
	"ffffffffffffffffffffffffffffffffffffffff", "0123456789abcdef0123456789abcdef01234567",
}

func genHash(t *rapid.T, format, label string) string {
	h := rapid.SampledFrom(hashes40).Draw(t, label)
	if format == "sha256" {
		return h + h[:24]
	}
	return h
}

var nameToks = []string{"A", "U", "Thor", "Ünï", "O'Neil", "J.", "名前", "x-y", "a\tb", "\xff\xfe", "0", "von", "Jr"}
var emails = []string{"a@b", "author@example.com", "", "x y@z", "user+tag@example.com", "üser@ex", "a@b c", "@", "1"}
var stamps = []string{"0", "1", "5", "86399", "1700000000", "2147483647", "2147483648", "4294967296", "253402300800", "9223372036854775807", "1234567890"}
var encodings = []string{"ISO-8859-1", "latin1", "utf-8", "SHIFT_JIS", "x-unknown", "EUC-JP"}

func genIdent(t *rapid.T, r *evid.Recorder, tier int, l string) string {
	n := rapid.IntRange(1, 3).Draw(t, l+"nn")
	toks := make([]string, n)
	for i := range toks {
		toks[i] = rapid.SampledFrom(nameToks).Draw(t, l+"tok")
	}
	name := strings.Join(toks, " ")
	email := rapid.SampledFrom(emails).Draw(t, l+"email")
	ts := rapid.SampledFrom(stamps).Draw(t, l+"ts")
	if rapid.Bool().Draw(t, l+"tsrand") {
		ts = strconv.FormatInt(rapid.Int64Range(0, 4_000_000_000).Draw(t, l+"tsv"), 10)
	}
	sign := rapid.SampledFrom([]string{"+", "-"}).Draw(t, l+"sign")
	hh := rapid.SampledFrom([]int{0, 0, 1, 2, 5, 9, 11, 12, 13, 14}).Draw(t, l+"hh")
	mm := rapid.SampledFrom([]int{0, 0, 0, 30, 45, 15}).Draw(t, l+"mm")
	if sign == "-" && hh == 0 {
		if mm == 0 || guarded(r, "tz-neg-subhour") {
			sign = "+"
		}
	}
	tz := fmt.Sprintf("%s%02d%02d", sign, hh, mm)
	pre, post, sep := "", " ", " "
	if tier >= 1 {
		switch 9 - rapid.IntRange(0, 9).Draw(t, l+"odd2") { // 0 (the shrink target) = nothing odd
		case 0:
			if !guarded(r, "ident-blanks") {
				pre = rapid.SampledFrom([]string{" ", "  ", "\t"}).Draw(t, l+"pre")
			}
		case 1:
			if !guarded(r, "ident-blanks") {
				post = rapid.SampledFrom([]string{"  ", " \t ", "   "}).Draw(t, l+"post")
			}
		case 2:
			if !guarded(r, "tz-minus-zero") {
				tz = "-0000"
			}
		case 3:
			if !guarded(r, "tz-mm-ge-60") {
				tz = rapid.SampledFrom([]string{"+0060", "-0575", "+9999", "+1299"}).Draw(t, l+"tzodd")
			}
		case 4:
			tz = rapid.SampledFrom([]string{"+9900", "-2359", "+2400", "+1500"}).Draw(t, l+"tzbig")
		}
	}
	s := pre + name + post + "<" + email + ">" + sep + ts + " " + tz
	if tier >= 2 {
		odd := rapid.IntRange(0, 17).Draw(t, l+"odd3")
		feat := []string{"", "", "", "ident-no-brackets", "ident-no-brackets", "ident-multi-brackets", "ident-multi-brackets", "ident-name-empty",
			"ident-no-space-before-email", "ident-no-date", "ident-no-space-before-date", "ts-negative", "ts-overflow", "ts-overflow",
			"ts-zero-padded", "ts-malformed", "tz-malformed", "tz-malformed"}[odd]
		if feat != "" && guarded(r, feat) {
			odd = 0
		}
		switch odd {
		case 3:
			s = name + " " + email + " " + ts + " " + tz
		case 4:
			s = name + " <" + email + " " + ts + " " + tz
		case 5:
			s = name + " <" + email + "> <x@y> " + ts + " " + tz
		case 6:
			s = name + " <<" + email + ">> " + ts + " " + tz
		case 7:
			s = rapid.SampledFrom([]string{"", " ", "  "}).Draw(t, l+"emptyname") + "<" + email + "> " + ts + " " + tz
		case 8:
			s = name + "<" + email + "> " + ts + " " + tz
		case 9:
			s = name + " <" + email + ">"
		case 10:
			s = name + " <" + email + ">" + rapid.SampledFrom([]string{"x ", "", "\t"}).Draw(t, l+"nosp") + ts + " " + tz
		case 11:
			s = name + " <" + email + "> -" + ts + " " + tz
		case 12:
			s = name + " <" + email + "> 9223372036854775808 " + tz
		case 13:
			s = name + " <" + email + "> 99999999999999999999999 " + tz
		case 14:
			s = name + " <" + email + "> 00" + ts + " " + tz
		case 15:
			s = name + " <" + email + "> " + rapid.SampledFrom([]string{"1e9", "0x10", "12.5", "now", "+5"}).Draw(t, l+"tsbad") + " " + tz
		case 16:
			s = name + " <" + email + "> " + ts + rapid.SampledFrom([]string{"", " ", " +02", " +01000", " 0100", " UTC", " +0a00", " +0100 x"}).Draw(t, l+"tzbad")
		case 17:
			s = name + " <" + email + "> " + ts + " " + tz + rapid.SampledFrom([]string{" ", " trailing"}).Draw(t, l+"tztrail")
		}
	}
	return s
}

var armors = []string{
	"-----BEGIN PGP SIGNATURE-----\n\niQEzBAABCAAdFiEE\n=AbCd\n-----END PGP SIGNATURE-----",
	"-----BEGIN PGP SIGNATURE-----\nVersion: GnuPG v1\n\nwsBcBAABCAAQBQJ\n-----END PGP SIGNATURE-----",
	"-----BEGIN SSH SIGNATURE-----\nU1NIU0lHAAAAAQAAADMAAAALc3NoLWVkMjU1MTkAAAAg\n-----END SSH SIGNATURE-----",
	"-----BEGIN SIGNED MESSAGE-----\nMIIDzgYJKoZIhvcNAQcCoIIDvzCCA7sCAQExDTALBglghkgBZQMEAgEwCwYJKoZI\n-----END SIGNED MESSAGE-----",
	"-----BEGIN PGP MESSAGE-----\nabc\n-----END PGP MESSAGE-----",
	"one-line-signature",
}

var msgToks = []string{"subject\n", "\n", "body line\n", "no newline at end", "caf\xe9 latin1\n", "ünï ✓\n", " leading space\n", "\ttab\n",
	"tree 4b825dc642cb6eb9a060e54bf8d69288fbee4904\n", "gpgsig fake\n continued\n", "Signed-off-by: A <a@b>\n", "crlf\r\n", "\n\n",
	"-----BEGIN PGP SIGNATURE-----\nxyz\n-----END PGP SIGNATURE-----\n", "-----BEGIN SSH SIGNATURE-----\nxyz\n-----END SSH SIGNATURE-----\n",
	"-----BEGIN SIGNED MESSAGE-----\nxyz\n-----END SIGNED MESSAGE-----\n", "-----BEGIN PGP SIGNATURE-----", "x-----BEGIN PGP SIGNATURE-----\n"}

func genMsg(t *rapid.T) string {
	n := rapid.IntRange(0, 4).Draw(t, "nmsg")
	var sb strings.Builder
	for i := 0; i < n; i++ {
		sb.WriteString(rapid.SampledFrom(msgToks).Draw(t, "msgtok"))
	}
	return sb.String()
}

func cannedTag(t *rapid.T, format string) string {
	s := "object " + genHash(t, format, "mtobj") + "\ntype commit\ntag " + rapid.SampledFrom([]string{"v1.0", "rel/2", "x y"}).Draw(t, "mtname") +
		"\ntagger T <t@x> 1600000000 +0200\n\n" + rapid.SampledFrom([]string{"release", "release\n\nnotes", ""}).Draw(t, "mtmsg")
	if rapid.Bool().Draw(t, "mtsigned") {
		s += "\n" + armors[0]
	}
	return s
}

var extraKeys = []string{"mergetag", "HG:rename-source", "change-id", "foo", "x-extra", "gpgsigx", "gpgsig-sha512", "Encoding", "treeish", "note"}
var extraVals = []string{"bar", "two words", "multi\nline", "a\n\nb", "x\n leading-space-line", "ünï", "trailing-space ", "-----BEGIN PGP SIGNATURE-----\nabc\n-----END PGP SIGNATURE-----"}

// genCase draws a case; a draw that contains a feature with a confirmed-open
// finding (possible through interactions the in-line guards do not see) is
// redrawn, finally from the canonical tier.
func genCase(t *rapid.T, r *evid.Recorder, mode string) Case {
	for try := 0; ; try++ {
		c := genCase1(t, r, mode, try >= 3)
		ok := true
		for _, f := range analyze(c).features {
			if guarded(r, f) {
				ok = false
			}
		}
		if ok || try >= 4 {
			return c
		}
	}
}

func genCase1(t *rapid.T, r *evid.Recorder, mode string, canonical bool) Case {
	c := Case{Mode: mode}
	curMode = mode
	c.Fmt = rapid.SampledFrom([]string{"sha1", "sha256"}).Draw(t, "fmt")
	c.Kind = rapid.SampledFrom([]string{"commit", "commit", "commit", "tag", "tag"}).Draw(t, "kind")
	curKind = c.Kind
	tier := rapid.SampledFrom([]int{0, 1, 2, 0, 1, 2, 0, 1}).Draw(t, "tier")
	if canonical {
		tier = 0
	}
	pick := func(l, feature string, p int) bool { // one chance in p, never for a guarded feature
		return rapid.IntRange(0, p-1).Draw(t, l) == p-1 && !guarded(r, feature) // shrinks towards "absent"
	}
	if c.Kind == "commit" {
		c.H = append(c.H, Hdr{K: "tree", V: genHash(t, c.Fmt, "tree")})
		np := rapid.SampledFrom([]int{0, 1, 1, 1, 2, 2, 3, 8}).Draw(t, "np")
		for i := 0; i < np; i++ {
			c.H = append(c.H, Hdr{K: "parent", V: genHash(t, c.Fmt, "parent")})
		}
		c.H = append(c.H, Hdr{K: "author", V: genIdent(t, r, tier, "a")})
		c.H = append(c.H, Hdr{K: "committer", V: genIdent(t, r, tier, "c")})
		var tail []Hdr
		if rapid.IntRange(0, 2).Draw(t, "hasenc") == 2 {
			tail = append(tail, Hdr{K: "encoding", V: rapid.SampledFrom(encodings).Draw(t, "enc")})
		}
		nx := rapid.SampledFrom([]int{0, 0, 1, 1, 2, 3}).Draw(t, "nx")
		for i := 0; i < nx; i++ {
			if tier == 0 || rapid.Bool().Draw(t, "ismergetag") {
				tail = append(tail, Hdr{K: "mergetag", V: cannedTag(t, c.Fmt)})
				continue
			}
			h := Hdr{K: rapid.SampledFrom(extraKeys).Draw(t, "xkey"), V: rapid.SampledFrom(extraVals).Draw(t, "xval")}
			switch {
			case pick("xnosp", "extra-no-space", 8):
				h = Hdr{K: h.K, NoSp: true}
			case pick("xempty", "extra-empty-value", 8):
				h.V = ""
			case pick("xtrail", "extra-trailing-empty-line", 8):
				h.V += rapid.SampledFrom([]string{"\n", "\n\n"}).Draw(t, "xtrailv")
			case pick("xonly", "extra-only-empty-lines", 12):
				h.V = "\n"
			}
			tail = append(tail, h)
		}
		if rapid.IntRange(0, 2).Draw(t, "hassig") == 2 {
			k := "gpgsig"
			if c.Fmt == "sha256" {
				k = "gpgsig-sha256"
			}
			tail = append(tail, Hdr{K: k, V: rapid.SampledFrom(armors).Draw(t, "armor")})
		}
		if tier >= 1 {
			if pick("encutf8", "encoding-explicit-UTF-8", 10) {
				tail = append([]Hdr{{K: "encoding", V: "UTF-8"}}, tail...)
			}
			if pick("dupenc", "dup-encoding", 10) {
				tail = append(tail, Hdr{K: "encoding", V: rapid.SampledFrom(encodings).Draw(t, "enc2")})
			}
			if pick("sig2", "both-sig-headers", 6) {
				k := rapid.SampledFrom([]string{"gpgsig", "gpgsig-sha256"}).Draw(t, "sigk")
				h := Hdr{K: k, V: rapid.SampledFrom(armors).Draw(t, "armor2")}
				switch {
				case pick("signosp", "sig-no-space", 8):
					h = Hdr{K: k, NoSp: true}
				case pick("sigempty", "sig-empty-value", 8):
					h.V = ""
				case pick("sigtrail", "sig-trailing-empty-line", 8):
					h.V += "\n"
				}
				if (k == "gpgsig" && guarded(r, "dup-gpgsig")) || (k == "gpgsig-sha256" && guarded(r, "dup-gpgsig-sha256")) {
					// only add when it does not duplicate an existing header of the same key
					dup := false
					for _, x := range tail {
						dup = dup || x.K == k
					}
					if !dup {
						tail = append(tail, h)
					}
				} else {
					tail = append(tail, h)
				}
			}
			if len(tail) > 1 && pick("shuffle", "hdr-order", 3) {
				tail = rapid.Permutation(tail).Draw(t, "perm")
			}
		}
		c.H = append(c.H, tail...)
		if tier >= 2 {
			switch 9 - rapid.IntRange(0, 9).Draw(t, "struct3") {
			case 0: // drop author or committer
				if !guarded(r, "author-missing") && !guarded(r, "committer-missing") {
					k := rapid.SampledFrom([]string{"author", "committer"}).Draw(t, "dropk")
					for i, h := range c.H {
						if h.K == k {
							c.H = append(c.H[:i:i], c.H[i+1:]...)
							break
						}
					}
				}
			case 1: // a standard header out of place
				if !guarded(r, "std-header-late") {
					k := rapid.SampledFrom([]string{"tree", "parent", "author", "committer"}).Draw(t, "latek")
					v := genHash(t, c.Fmt, "lateh")
					if k == "author" || k == "committer" {
						v = "L <l@l> 7 +0000"
					}
					pos := rapid.IntRange(1, len(c.H)).Draw(t, "latepos")
					c.H = append(c.H[:pos:pos], append([]Hdr{{K: k, V: v}}, c.H[pos:]...)...)
				}
			case 2: // swap author and committer lines
				if !guarded(r, "author-late") {
					for i := 0; i+1 < len(c.H); i++ {
						if c.H[i].K == "author" && c.H[i+1].K == "committer" {
							c.H[i], c.H[i+1] = c.H[i+1], c.H[i]
							break
						}
					}
				}
			case 3:
				if !guarded(r, "first-header-bad") {
					c.H[0] = rapid.SampledFrom([]Hdr{{K: "tree", V: "abc"}, {K: "tree", NoSp: true}, {K: "Tree", V: hashes40[0]}, {K: "parent", V: hashes40[0]}, {K: "tree", V: hashes40[0] + "0"}}).Draw(t, "badfirst")
				}
			case 4:
				if !guarded(r, "hash-bad") && len(c.H) > 1 && c.H[1].K == "parent" {
					c.H[1].V = rapid.SampledFrom([]string{"", "zz", hashes40[0][:39]}).Draw(t, "badparent")
				}
			case 6:
				if !guarded(r, "hash-uppercase") {
					c.H[0].V = strings.ToUpper(c.H[0].V)
				}
			case 5:
				if !guarded(r, "mixed-hash-length") && len(c.H) > 1 && c.H[1].K == "parent" {
					other := "sha256"
					if c.Fmt == "sha256" {
						other = "sha1"
					}
					c.H[1].V = genHash(t, other, "mixed")
				}
			}
		}
	} else {
		c.H = append(c.H, Hdr{K: "object", V: genHash(t, c.Fmt, "object")})
		c.H = append(c.H, Hdr{K: "type", V: rapid.SampledFrom([]string{"commit", "commit", "tree", "blob", "tag"}).Draw(t, "ttype")})
		c.H = append(c.H, Hdr{K: "tag", V: rapid.SampledFrom([]string{"v1.0", "v1", "release/2.0", "x y", "ünï", "-dash", "a..b", "refs/tags/x"}).Draw(t, "tname")})
		if tier == 0 || !pick("notagger", "tag-no-tagger", 5) {
			c.H = append(c.H, Hdr{K: "tagger", V: genIdent(t, r, tier, "t")})
		}
		if tier >= 1 {
			if pick("txh", "tag-extra-header", 5) {
				c.H = append(c.H, Hdr{K: rapid.SampledFrom(extraKeys).Draw(t, "xkey"), V: rapid.SampledFrom(extraVals).Draw(t, "xval")})
			}
			if pick("tsig2", "tag-gpgsig-sha256-header", 4) {
				c.H = append(c.H, Hdr{K: "gpgsig-sha256", V: rapid.SampledFrom(armors).Draw(t, "armor2")})
				if pick("tsig2dup", "dup-gpgsig-sha256", 4) {
					c.H = append(c.H, Hdr{K: "gpgsig-sha256", V: rapid.SampledFrom(armors).Draw(t, "armor3")})
				}
			}
			if pick("tsig1", "tag-gpgsig-header", 8) {
				c.H = append(c.H, Hdr{K: "gpgsig", V: rapid.SampledFrom(armors).Draw(t, "armor4")})
			}
			if pick("tnameempty", "tag-name-empty", 12) {
				c.H[2] = rapid.SampledFrom([]Hdr{{K: "tag", V: ""}, {K: "tag", NoSp: true}}).Draw(t, "emptyname")
			}
		}
		if tier >= 2 {
			switch 9 - rapid.IntRange(0, 9).Draw(t, "struct3") {
			case 0:
				if !guarded(r, "tag-type-missing") {
					c.H[1], c.H[2] = c.H[2], c.H[1]
				}
			case 1:
				if !guarded(r, "tag-type-unknown") {
					c.H[1].V = rapid.SampledFrom([]string{"Commit", "", "ofs-delta", "blobby"}).Draw(t, "badtype")
				}
			case 2:
				if !guarded(r, "std-header-late") {
					k := rapid.SampledFrom([]string{"object", "type", "tag", "tagger"}).Draw(t, "latek")
					c.H = append(c.H, Hdr{K: k, V: map[string]string{"object": hashes40[1], "type": "blob", "tag": "late", "tagger": "L <l@l> 7 +0000"}[k]})
				}
			case 3:
				if !guarded(r, "first-header-bad") {
					c.H[0] = rapid.SampledFrom([]Hdr{{K: "object", V: "abc"}, {K: "object", NoSp: true}, {K: "Object", V: hashes40[0]}, {K: "type", V: "commit"}}).Draw(t, "badfirst")
				}
			case 4:
				if !guarded(r, "tag-name-missing") && len(c.H) > 2 {
					c.H = append(c.H[:2:2], c.H[3:]...)
				}
			}
		}
	}
	c.Msg = genMsg(t)
	if c.Kind == "tag" && rapid.IntRange(0, 2).Draw(t, "tagsigned") == 2 {
		if c.Msg != "" && !strings.HasSuffix(c.Msg, "\n") {
			c.Msg += "\n"
		}
		c.Msg += rapid.SampledFrom(armors[:5]).Draw(t, "tarmor") + "\n"
		if rapid.IntRange(0, 5).Draw(t, "aftersig") == 5 {
			c.Msg += rapid.SampledFrom([]string{"trailing text\n", "\n", "x"}).Draw(t, "aftersigv")
		}
	}
	if tier >= 1 && rapid.IntRange(0, 7).Draw(t, "noblank") == 7 {
		if rapid.IntRange(0, 2).Draw(t, "nofinalnl") == 2 {
			c.NoBlank, c.NoFinalNL, c.Msg = true, true, ""
		} else if !guarded(r, "no-blank-line") {
			c.NoBlank, c.Msg = true, ""
		}
	}
	return c
}

// ---------------------------------------------------------------- oracle

func featStr(m *model) string {
	if len(m.features) == 0 {
		return "canonical"
	}
	return strings.Join(m.features, "+")
}

var identFeature = func(f string) bool {
	return strings.HasPrefix(f, "ident-") || strings.HasPrefix(f, "ts-") || strings.HasPrefix(f, "tz-")
}

// mkSig: kind is "ident" when every non-canonical feature of the case is about
// an identity line (Signature.Decode/Encode is shared by commits and tags).
func mkSig(c Case, m *model, part string) string {
	kind := c.Kind
	if len(m.features) > 0 {
		all := true
		for _, f := range m.features {
			all = all && identFeature(f)
		}
		if all {
			kind = "ident"
		}
	}
	return "C02/" + kind + "/" + part + "/" + featStr(m)
}

func trimBlanks(s string) string { return strings.Trim(s, " \t") }

// diffKind classifies how the re-encoded bytes differ from the original.
func diffKind(raw, re []byte) string {
	a, b := strings.SplitAfter(string(raw), "\n"), strings.SplitAfter(string(re), "\n")
	count := map[string]int{}
	for _, l := range a {
		count[l]++
	}
	extra := 0
	for _, l := range b {
		if count[l] > 0 {
			count[l]--
		} else {
			extra++
		}
	}
	missing := 0
	for _, n := range count {
		missing += n
	}
	if missing == 0 && extra == 0 {
		return "permuted" // same lines, different order
	}
	return "altered"
}

func identFail(c Case, m *model, what string, want ident, got object.Signature) *evid.Failure {
	if !want.ok {
		return nil
	}
	if trimBlanks(got.Name) != want.name || got.Email != want.email { // git's own tools disagree on blanks around the name
		return evid.Failf(mkSig(c, m, "model-ident-person"), "%s: decoded name/email %q <%q>, header says %q <%q>\n%s", what, got.Name, got.Email, want.name, want.email, c.Raw())
	}
	if want.hasDate {
		if got.When.Unix() != want.ts {
			return evid.Failf(mkSig(c, m, "model-ident-time"), "%s: decoded time %d, header says %d\n%s", what, got.When.Unix(), want.ts, c.Raw())
		}
		if tzSec(got) != want.tzSec {
			return evid.Failf(mkSig(c, m, "model-ident-zone"), "%s: decoded zone offset %ds, header says %ds\n%s", what, tzSec(got), want.tzSec, c.Raw())
		}
	}
	return nil
}

// gitIdent compares one identity as git reports it (name, email, "ts tz" raw date).
//
// git has two identity parsers (pretty.c split_ident_line behind log/show, and
// ref-filter.c behind for-each-ref) which disagree on lines without exactly one
// well-placed <email> and on dates that are not "digits space sign digits":
// there is no single git answer for those shapes, so they are not compared.
func gitIdent(c Case, m *model, what, gname, gemail, gdate string, rawTS string, id ident, got object.Signature) *evid.Failure {
	for _, f := range id.features {
		switch f {
		case "ident-multiline", "ident-no-brackets", "ident-multi-brackets", "ident-name-empty", "ident-no-space-before-email", "ident-no-date", "ident-no-space-before-date":
			return nil
		case "ts-malformed", "tz-malformed":
			gdate = ""
		}
	}
	if trimBlanks(gname) != trimBlanks(got.Name) {
		return evid.Failf(mkSig(c, m, "git-ident-name"), "%s name: git reports %q, go-git decoded %q\n%s", what, gname, got.Name, c.Raw())
	}
	if gemail != got.Email {
		return evid.Failf(mkSig(c, m, "git-ident-email"), "%s email: git reports %q, go-git decoded %q\n%s", what, gemail, got.Email, c.Raw())
	}
	if gdate == "" {
		return nil // git found no date: nothing to compare
	}
	ts, tz, ok := strings.Cut(gdate, " ")
	n, err := strconv.ParseInt(ts, 10, 64)
	if ok && err != nil && digitsRe.MatchString(ts) {
		return nil // beyond int64: git itself calls such a date unrepresentable elsewhere
	}
	if !ok || err != nil || len(tz) < 2 {
		panic("INFRA: unexpected raw date from git: " + gdate)
	}
	if n == 0 && tz == "+0000" && strings.Trim(rawTS, "0") != "" {
		return nil // git's sentinel for an unrepresentable date
	}
	tzi, err := strconv.Atoi(tz)
	if err != nil {
		panic("INFRA: unexpected raw zone from git: " + gdate)
	}
	abs := tzi
	if abs < 0 {
		abs = -abs
	}
	sec := ((abs/100)*60 + abs%100) * 60
	if tzi < 0 {
		sec = -sec
	}
	if got.When.Unix() != n {
		return evid.Failf(mkSig(c, m, "git-ident-time"), "%s time: git reports %q, go-git decoded %d\n%s", what, gdate, got.When.Unix(), c.Raw())
	}
	if tzSec(got) != sec {
		return evid.Failf(mkSig(c, m, "git-ident-zone"), "%s zone: git reports %q (%ds), go-git decoded offset %ds\n%s", what, gdate, sec, tzSec(got), c.Raw())
	}
	return nil
}

// firstIdent parses the first header with key k the way the model does.
func firstIdent(c Case, k string) ident {
	for _, h := range c.H {
		if h.K == k {
			return parseIdent(h.V)
		}
	}
	return ident{}
}

// rawTS extracts the timestamp token of the first header with key k ("" when absent/unparsable).
func rawTS(c Case, k string) string {
	for _, h := range c.H {
		if h.K == k {
			if i := strings.Index(h.V, ">"); i >= 0 {
				f := strings.Fields(h.V[i+1:])
				if len(f) > 0 {
					return f[0]
				}
			}
			return ""
		}
	}
	return ""
}

func plainASCII(b []byte) bool {
	for _, x := range b {
		if x >= 0x7f || x == '\\' || x == '~' || (x < 0x20 && x != '\n' && x != '\t') {
			return false
		}
	}
	return true
}

var safeEnc = func(s string) bool {
	if s == "" {
		return false
	}
	for _, r := range s {
		if !(r >= 'a' && r <= 'z' || r >= 'A' && r <= 'Z' || r >= '0' && r <= '9' || r == '-' || r == '_' || r == '.') {
			return false
		}
	}
	return true
}

func check(c Case) evid.Result {
	if !c.inDomain() {
		return evid.Result{Discard: true}
	}
	m := analyze(c)
	raw := c.Raw()
	res := evid.Result{Labels: []string{"kind:" + c.Kind, "fmt:" + c.Fmt, "tier:" + m.tier}}
	for _, f := range m.features {
		res.Labels = append(res.Labels, "f:"+f)
	}
	if len(m.features) == 0 {
		res.Labels = append(res.Labels, "f:none")
	}
	if c.Msg != "" && !strings.HasSuffix(c.Msg, "\n") {
		res.Labels = append(res.Labels, "msg-no-trailing-newline")
	}
	nontrivial := len(m.features) > 0 || len(m.extras) > 0 || m.sig != "" || m.sig2 != "" || len(m.parents) > 1 ||
		(c.Msg != "" && !strings.HasSuffix(c.Msg, "\n")) ||
		(m.author.hasDate && m.author.tzSec != 0) || (m.committer.hasDate && m.committer.tzSec != 0) || (m.tagger.hasDate && m.tagger.tzSec != 0) ||
		m.encoding != "UTF-8" || (c.Kind == "tag" && strings.Contains(c.Msg, "-----BEGIN"))
	res.NonTrivial = nontrivial
	if len(m.extras) > 0 {
		res.Labels = append(res.Labels, "has-extra-header")
	}
	if m.sig != "" || m.sig2 != "" {
		res.Labels = append(res.Labels, "has-signature-header")
	}
	if len(m.parents) > 1 {
		res.Labels = append(res.Labels, "merge")
	}

	res.Labels = append(res.Labels, "mode:"+c.Mode)
	// ---- git's view
	var g *gitView
	if c.Mode == "git" {
		dir := scratch()
		defer os.RemoveAll(dir)
		newRepo(dir, c.Fmt)
		oid, labels := storeRaw(dir, c, m, raw)
		g = queryGit(c, m, dir, oid)
		g.labels = append(labels, g.labels...)
		res.Labels = append(res.Labels, g.labels...)
	}
	fail, decodeErr := checkDecoded(c, m, g, raw, false)
	if decodeErr {
		res.Labels = append(res.Labels, "decode-error")
	}
	res.Fail = fail
	return res
}

// checkDecoded decodes raw and applies the oracles of c.Mode (all of them when
// all is set): fields vs the structure, fields vs git's view g, re-encoding.
func checkDecoded(c Case, m *model, g *gitView, raw []byte, all bool) (fail *evid.Failure, decodeErr bool) {
	var (
		cm   *object.Commit
		tg   *object.Tag
		derr error
	)
	typ := plumbing.CommitObject
	if c.Kind == "commit" {
		cm = &object.Commit{}
		derr = cm.Decode(memObj(typ, raw))
	} else {
		typ = plumbing.TagObject
		tg = &object.Tag{}
		derr = tg.Decode(memObj(typ, raw))
	}
	if derr != nil {
		mustDecode := m.tier != "t3"
		if g != nil {
			mustDecode = g.parsed
		}
		if mustDecode {
			return evid.Failf(mkSig(c, m, "decode-error"), "Decode fails (%v) on an object git parses:\n%s", derr, raw), true
		}
		return nil, true
	}
	if c.Mode != "reencode" || all {
		// fields against the structural model (meaningful outside the --literally tier)
		if m.tier != "t3" {
			if f := modelFields(c, m, cm, tg); f != nil {
				return f, false
			}
		}
		// fields against git's own parse
		if g != nil && g.parsed {
			if f := gitFields(c, m, g, cm, tg); f != nil {
				return f, false
			}
		}
	}
	if c.Mode == "reencode" || all {
		return reencode(c, m, raw, typ, cm, tg), false
	}
	return nil, false
}

// reencode: Decode then Encode must reproduce the bytes.
func reencode(c Case, m *model, raw []byte, typ plumbing.ObjectType, cm *object.Commit, tg *object.Tag) *evid.Failure {
	out := &plumbing.MemoryObject{}
	var eerr error
	if cm != nil {
		eerr = cm.Encode(out)
	} else {
		eerr = tg.Encode(out)
	}
	if eerr != nil {
		return evid.Failf(mkSig(c, m, "encode-error"), "Encode of the decoded object fails: %v\n%s", eerr, raw)
	}
	if re := objBytes(out); !bytes.Equal(re, raw) {
		return evid.Failf(mkSig(c, m, "reencode:"+diffKind(raw, re)), "Decode+Encode does not reproduce the object.\n--- original (%d bytes)\n%s\n--- re-encoded (%d bytes)\n%s", len(raw), raw, len(re), re)
	}
	if out.Type() != typ {
		return evid.Failf(mkSig(c, m, "encode-type"), "Encode set type %s", out.Type())
	}
	return nil
}

func modelFields(c Case, m *model, cm *object.Commit, tg *object.Tag) *evid.Failure {
	if cm != nil {
		if cm.TreeHash.String() != strings.ToLower(m.tree) {
			return evid.Failf(mkSig(c, m, "model-tree"), "tree %s, header says %s", cm.TreeHash, m.tree)
		}
		var ps []string
		for _, p := range cm.ParentHashes {
			ps = append(ps, p.String())
		}
		if strings.Join(ps, " ") != strings.ToLower(strings.Join(m.parents, " ")) {
			return evid.Failf(mkSig(c, m, "model-parents"), "parents %v, headers say %v", ps, m.parents)
		}
		if m.hasAuthor {
			if f := identFail(c, m, "author", m.author, cm.Author); f != nil {
				return f
			}
		}
		if m.hasCommit {
			if f := identFail(c, m, "committer", m.committer, cm.Committer); f != nil {
				return f
			}
		}
		if string(cm.Encoding) != m.encoding && !m.has("encoding-multiline") {
			return evid.Failf(mkSig(c, m, "model-encoding"), "Encoding %q, first encoding header says %q\n%s", cm.Encoding, m.encoding, c.Raw())
		}
		if len(cm.ExtraHeaders) != len(m.extras) {
			return evid.Failf(mkSig(c, m, "model-extra-count"), "%d ExtraHeaders %+v, headers have %d %+v\n%s", len(cm.ExtraHeaders), cm.ExtraHeaders, len(m.extras), m.extras, c.Raw())
		}
		for i, e := range m.extras {
			if cm.ExtraHeaders[i].Key != e.K || cm.ExtraHeaders[i].Value != e.V {
				return evid.Failf(mkSig(c, m, "model-extra-value"), "ExtraHeaders[%d] = {%q %q}, header says {%q %q}\n%s", i, cm.ExtraHeaders[i].Key, cm.ExtraHeaders[i].Value, e.K, e.V, c.Raw())
			}
		}
		if cm.Signature != m.sig && !m.sigUnterminated {
			return evid.Failf(mkSig(c, m, "model-gpgsig"), "Signature %q, gpgsig header(s) say %q\n%s", cm.Signature, m.sig, c.Raw())
		}
		if cm.SignatureSHA256 != m.sig2 && !m.sigUnterminated {
			return evid.Failf(mkSig(c, m, "model-gpgsig-sha256"), "SignatureSHA256 %q, gpgsig-sha256 header(s) say %q\n%s", cm.SignatureSHA256, m.sig2, c.Raw())
		}
		if cm.Message != c.Msg {
			return evid.Failf(mkSig(c, m, "model-message"), "Message %q, object has %q", cm.Message, c.Msg)
		}
		return nil
	}
	if tg.Target.String() != strings.ToLower(m.target) {
		return evid.Failf(mkSig(c, m, "model-object"), "Target %s, header says %s", tg.Target, m.target)
	}
	if tg.TargetType.String() != m.targetType {
		return evid.Failf(mkSig(c, m, "model-type"), "TargetType %s, header says %s", tg.TargetType, m.targetType)
	}
	if tg.Name != m.name && !m.has("tag-name-multiline") {
		return evid.Failf(mkSig(c, m, "model-name"), "Name %q, header says %q", tg.Name, m.name)
	}
	if m.hasTagger {
		if f := identFail(c, m, "tagger", m.tagger, tg.Tagger); f != nil {
			return f
		}
	}
	if tg.SignatureSHA256 != m.sig2 && !m.sigUnterminated {
		return evid.Failf(mkSig(c, m, "model-gpgsig-sha256"), "SignatureSHA256 %q, gpgsig-sha256 header(s) say %q\n%s", tg.SignatureSHA256, m.sig2, c.Raw())
	}
	if tg.Message+tg.Signature != c.Msg {
		return evid.Failf(mkSig(c, m, "model-message"), "Message+Signature %q, object has %q", tg.Message+tg.Signature, c.Msg)
	}
	return nil
}

// gitView is git's own parse of the stored object.
type gitView struct {
	labels []string
	parsed bool
	f      []string // fields reported by log --format (commits, when comparable) or for-each-ref (tags)
	r      []string // fields reported by for-each-ref (commits)
}

// storeRaw stores raw with git (without --literally when git's parser accepts
// the object) and asks git fsck for its verdict on that one object: ok, warning
// or error. The verdict is the tier as git sees it; it only feeds labels.
func storeRaw(dir string, c Case, m *model, raw []byte) (oid string, labels []string) {
	out, _, code := gitx.TryIn(dir, raw, "hash-object", "-w", "-t", c.Kind, "--stdin")
	if code != 0 {
		out = gitx.MustIn(dir, raw, "hash-object", "-w", "-t", c.Kind, "--literally", "--stdin")
		labels = append(labels, "git:hash-object-needs-literally")
	}
	oid = strings.TrimSpace(out)
	cls := fsckClass(dir, oid)
	labels = append(labels, "git:fsck-"+cls)
	switch {
	case cls == "error" && m.tier != "t3":
		labels = append(labels, "tier-estimate-too-low")
	case cls != "error" && m.tier == "t3":
		labels = append(labels, "tier-estimate-too-high")
	}
	return oid, labels
}

// fsckClass: what `git fsck` says about object oid (links to absent objects are not about the object).
func fsckClass(dir, oid string) string {
	o, e, _ := gitx.Try(dir, "fsck", "--no-dangling", "--no-progress")
	cls := "ok"
	for _, l := range strings.Split(o+e, "\n") {
		if !strings.Contains(l, oid) {
			continue
		}
		switch {
		case strings.HasPrefix(l, "error"):
			return "error"
		case strings.HasPrefix(l, "warning"):
			cls = "warning"
		}
	}
	return cls
}

// queryGit asks git for the fields of the stored object oid.
func queryGit(c Case, m *model, dir, oid string) *gitView {
	g := &gitView{}
	if c.Kind == "commit" {
		// (1) for-each-ref: never re-encodes anything
		if err := os.WriteFile(filepath.Join(dir, ".git", "refs", "heads", "c02-probe"), []byte(oid+"\n"), 0o644); err != nil {
			panic("INFRA: " + err.Error())
		}
		o, _, code := gitx.Try(dir, "for-each-ref", "--format=%(tree)%00%(parent)%00%(authorname)%00%(authoremail)%00%(authordate:raw)%00%(committername)%00%(committeremail)%00%(committerdate:raw)%00%(contents)%00", "refs/heads/c02-probe")
		if code != 0 {
			g.labels = append(g.labels, "git:cannot-parse")
			return g
		}
		r := strings.Split(o, "\x00")
		if len(r) != 10 || r[9] != "\n" {
			panic(fmt.Sprintf("INFRA: unexpected git for-each-ref output %q", o))
		}
		g.r = r[:9]
		g.parsed = true
		// (2) log --format: exact message and the encoding header, and git's other identity parser.
		// A user format is converted commit-encoding -> UTF-8 -> output encoding; that is the identity
		// only for UTF-8 commits shown as UTF-8, for ISO-8859-1 commits shown as ISO-8859-1, and for ASCII.
		args := []string{"log", "--no-walk", "--date=raw"}
		switch {
		case m.encoding == "UTF-8" || m.encoding == "utf-8":
		case m.encoding == "ISO-8859-1" || m.encoding == "latin1":
			args = append(args, "--encoding="+m.encoding)
		case safeEnc(m.encoding) && plainASCII(c.Raw()):
			args = append(args, "--encoding="+m.encoding)
		default:
			g.labels = append(g.labels, "git:log-not-comparable(encoding)")
			return g
		}
		args = append(args, "--format=%T%x00%P%x00%an%x00%ae%x00%ad%x00%cn%x00%ce%x00%cd%x00%e%x00%B%x00", oid)
		o, _, code = gitx.Try(dir, args...)
		if code != 0 {
			g.labels = append(g.labels, "git:log-cannot-parse")
			return g
		}
		f := strings.Split(o, "\x00")
		if len(f) != 11 || f[10] != "\n" {
			panic(fmt.Sprintf("INFRA: unexpected git log output %q", o))
		}
		g.f = f[:10]
		g.labels = append(g.labels, "git:log-compared")
		return g
	}
	if err := os.WriteFile(filepath.Join(dir, ".git", "refs", "tags", "c02-probe"), []byte(oid+"\n"), 0o644); err != nil {
		panic("INFRA: " + err.Error())
	}
	o, _, code := gitx.Try(dir, "for-each-ref", "--format=%(object)%00%(type)%00%(tag)%00%(taggername)%00%(taggeremail)%00%(taggerdate:raw)%00%(contents)%00%(contents:signature)%00", "refs/tags/c02-probe")
	if code != 0 {
		g.labels = append(g.labels, "git:cannot-parse")
		return g
	}
	f := strings.Split(o, "\x00")
	if len(f) != 9 || f[8] != "\n" {
		panic(fmt.Sprintf("INFRA: unexpected git for-each-ref output %q", o))
	}
	g.f = f[:8]
	g.parsed = true
	return g
}

func gitFields(c Case, m *model, g *gitView, cm *object.Commit, tg *object.Tag) *evid.Failure {
	f := g.f
	if cm != nil {
		var ps []string
		for _, p := range cm.ParentHashes {
			ps = append(ps, p.String())
		}
		r := g.r
		if cm.TreeHash.String() != r[0] {
			return evid.Failf(mkSig(c, m, "git-tree"), "tree: git %s, go-git %s\n%s", r[0], cm.TreeHash, c.Raw())
		}
		if strings.Join(ps, " ") != r[1] {
			return evid.Failf(mkSig(c, m, "git-parents"), "parents: git %q, go-git %q\n%s", r[1], ps, c.Raw())
		}
		strip := func(e string) string { return strings.TrimSuffix(strings.TrimPrefix(e, "<"), ">") }
		// git's two identity readers can disagree (duplicate author/committer headers: for-each-ref takes the
		// first, log --format the last): matching either of git's answers is agreeing with git.
		for i, who := range []string{"author", "committer"} {
			got := cm.Author
			if i == 1 {
				got = cm.Committer
			}
			fl := gitIdent(c, m, who, r[2+3*i], strip(r[3+3*i]), r[4+3*i], rawTS(c, who), firstIdent(c, who), got)
			if fl != nil && f != nil && gitIdent(c, m, who, f[2+3*i], f[3+3*i], f[4+3*i], rawTS(c, who), firstIdent(c, who), got) == nil {
				fl = nil
			}
			if fl != nil {
				return fl
			}
		}
		// %(contents) skips blank lines between the header and the subject
		if strings.TrimLeft(r[8], "\n") != strings.TrimLeft(cm.Message, "\n") {
			return evid.Failf(mkSig(c, m, "git-message"), "message: git for-each-ref %%(contents) %q, go-git %q\n%s", r[8], cm.Message, c.Raw())
		}
		if f == nil {
			return nil
		}
		ge := f[8]
		if ge == "" {
			ge = "UTF-8"
		}
		if ge != string(cm.Encoding) {
			return evid.Failf(mkSig(c, m, "git-encoding"), "encoding: git %q, go-git %q\n%s", f[8], cm.Encoding, c.Raw())
		}
		// without a blank line git's %B prints a tail of the header block (observed: "ncoding ISO-8859-1"): not an answer
		if f[9] != cm.Message && !c.NoBlank {
			return evid.Failf(mkSig(c, m, "git-message"), "message: git log %%B %q, go-git %q\n%s", f[9], cm.Message, c.Raw())
		}
		return nil
	}
	if tg.Target.String() != f[0] {
		return evid.Failf(mkSig(c, m, "git-object"), "object: git %s, go-git %s\n%s", f[0], tg.Target, c.Raw())
	}
	if tg.TargetType.String() != f[1] {
		return evid.Failf(mkSig(c, m, "git-type"), "type: git %s, go-git %s\n%s", f[1], tg.TargetType, c.Raw())
	}
	if tg.Name != f[2] {
		return evid.Failf(mkSig(c, m, "git-tagname"), "tag: git %q, go-git %q\n%s", f[2], tg.Name, c.Raw())
	}
	email := strings.TrimSuffix(strings.TrimPrefix(f[4], "<"), ">")
	if fl := gitIdent(c, m, "tagger", f[3], email, f[5], rawTS(c, "tagger"), firstIdent(c, "tagger"), tg.Tagger); fl != nil {
		return fl
	}
	// %(contents) skips blank lines between the header and the subject
	if strings.TrimLeft(f[6], "\n") != strings.TrimLeft(tg.Message+tg.Signature, "\n") {
		return evid.Failf(mkSig(c, m, "git-contents"), "contents: git %q, go-git Message+Signature %q\n%s", f[6], tg.Message+tg.Signature, c.Raw())
	}
	if f[7] != tg.Signature {
		return evid.Failf(mkSig(c, m, "git-contents-signature"), "trailing signature: git %q, go-git %q\n%s", f[7], tg.Signature, c.Raw())
	}
	return nil
}

func TestC02Reencode(t *testing.T) {
	evid.Run(t, evid.Spec[Case]{ID: "C02", Gen: func(t *rapid.T, r *evid.Recorder) Case { return genCase(t, r, "reencode") }, Check: check})
}

func TestC02Model(t *testing.T) {
	evid.Run(t, evid.Spec[Case]{ID: "C02", Gen: func(t *rapid.T, r *evid.Recorder) Case { return genCase(t, r, "model") }, Check: check})
}

func TestC02Git(t *testing.T) {
	evid.Run(t, evid.Spec[Case]{ID: "C02", Gen: func(t *rapid.T, r *evid.Recorder) Case { return genCase(t, r, "git") }, Check: check})
}

var madeDir string

// ---------------------------------------------------------------- fixed corpus

const h40 = "4b825dc642cb6eb9a060e54bf8d69288fbee4904"
const okIdent = "A <a@b> 0 +0000"

func commitShape(tail []Hdr, mut func(*Case)) Case {
	c := Case{Kind: "commit", Fmt: "sha1", H: []Hdr{{K: "tree", V: h40}, {K: "author", V: okIdent}, {K: "committer", V: okIdent}}, Msg: "m\n"}
	c.H = append(c.H, tail...)
	if mut != nil {
		mut(&c)
	}
	return c
}

func tagShape(tail []Hdr, mut func(*Case)) Case {
	c := Case{Kind: "tag", Fmt: "sha1", H: []Hdr{{K: "object", V: h40}, {K: "type", V: "commit"}, {K: "tag", V: "v1"}, {K: "tagger", V: okIdent}}, Msg: "m\n"}
	c.H = append(c.H, tail...)
	if mut != nil {
		mut(&c)
	}
	return c
}

// shapes is one minimal object per structural feature the generator knows
// (and the canonical variants around them); every run evaluates all of them in
// all three modes, so each named shape is exercised whatever rapid draws.
func shapes() []Case {
	armor := armors[0]
	var out []Case
	idents := []string{okIdent, "A U Thor <author@example.com> 1700000000 -0500", "Ünï 名前 <üser@ex> 2147483648 +0545", "A <> 5 +1400", "a\tb <x y@z> 1 -0030", "A <a@b> 1 -0015",
		"J. <a@b> 1 +0000", "\xff\xfe <a@b> 1 +0000", "0 <a@b> 1 +0000", "O'Neil Jr <a@b> 253402300800 -1200", "A <a@b> 9223372036854775807 +0000", "A <a@b> 1 +9900", "A <a@b> 1 -2359",
		" A <a@b> 1 +0000", "A  <a@b> 1 +0000", "\tA <a@b> 1 +0000", "A \t <a@b> 1 +0000", "A <a@b> 1 -0000", "A <a@b> 1 +0060", "A <a@b> 1 +9999", "A <a@b> 1 -0575",
		"A a@b 1 +0000", "A <a@b 1 +0000", "A a@b> 1 +0000", "A <a@b> <x@y> 1 +0000", "A <<a@b>> 1 +0000", "A >a@b< 1 +0000", "<a@b> 1 +0000", " <a@b> 1 +0000", "A<a@b> 1 +0000",
		"A <a@b>", "A <a@b> ", "A <a@b>x 1 +0000", "A <a@b>1 +0000", "A <a@b>\t1 +0000", "A <a@b> -1 +0000", "A <a@b> -0 +0000", "A <a@b> 9223372036854775808 +0000",
		"A <a@b> 99999999999999999999999 +0000", "A <a@b> 001 +0000", "A <a@b> 1e9 +0000", "A <a@b> now +0000", "A <a@b> +5 +0000", "A <a@b> 1", "A <a@b> 1 ", "A <a@b> 1 +02",
		"A <a@b> 1 +01000", "A <a@b> 1 0100", "A <a@b> 1 UTC", "A <a@b> 1 +0a00", "A <a@b> 1 +0100 x", "A <a@b> 1 +0100 ", "A <a@b>  1 +0100", "A <a@b> 1  +0100", ""}
	for _, id := range idents {
		id := id
		out = append(out, commitShape(nil, func(c *Case) { c.H[1].V = id }))
		out = append(out, commitShape(nil, func(c *Case) { c.H[2].V = id }))
		out = append(out, tagShape(nil, func(c *Case) { c.H[3].V = id }))
	}
	sig := Hdr{K: "gpgsig", V: armor}
	sig2 := Hdr{K: "gpgsig-sha256", V: armor}
	enc := Hdr{K: "encoding", V: "ISO-8859-1"}
	mt := Hdr{K: "mergetag", V: "object " + h40 + "\ntype commit\ntag v1.0\ntagger T <t@x> 1600000000 +0200\n\nrelease\n" + armor}
	foo := Hdr{K: "foo", V: "bar"}
	tails := [][]Hdr{nil, {enc}, {mt}, {sig}, {sig2}, {enc, mt, sig}, {enc, mt, mt, foo, sig, sig2}, {foo}, {{K: "foo", V: "multi\nline"}}, {{K: "foo", V: "a\n\nb"}}, {{K: "foo", V: "x\n leading"}},
		{{K: "gpgsigx", V: "bar"}}, {{K: "gpgsig-sha512", V: "bar"}}, {{K: "Encoding", V: "x"}},
		{sig, enc}, {foo, enc}, {sig, foo}, {sig, sig2}, {sig, sig}, {sig2, sig2}, {enc, enc}, {enc, {K: "encoding", V: "latin1"}}, {{K: "encoding", V: "UTF-8"}}, {{K: "encoding", V: "utf-8"}},
		{{K: "encoding", V: ""}}, {{K: "encoding", NoSp: true}}, {{K: "encoding", V: "a b"}}, {{K: "foo", V: ""}}, {{K: "foo", NoSp: true}}, {{K: "foo", V: "bar\n"}}, {{K: "foo", V: "bar\n\n"}}, {{K: "foo", V: "\n"}}, {{K: "foo", V: "\nbar"}},
		{{K: "gpgsig", V: ""}}, {{K: "gpgsig", NoSp: true}}, {{K: "gpgsig", V: armor + "\n"}}, {{K: "gpgsig", V: "one-line"}}, {{K: "gpgsig-sha256", NoSp: true}}, {{K: "gpgsig-sha256", V: ""}},
		{{K: "tree", V: h40}}, {{K: "parent", V: h40}}, {{K: "author", V: okIdent}}, {{K: "committer", V: okIdent}}, {foo, {K: "parent", V: h40}, sig}}
	for i, tl := range tails {
		out = append(out, commitShape(tl, nil))
		if i < 5 || i == 7 {
			out = append(out, commitShape(tl, func(c *Case) { c.NoBlank, c.Msg = true, "" }))
			out = append(out, commitShape(tl, func(c *Case) { c.NoBlank, c.NoFinalNL, c.Msg = true, true, "" }))
		}
	}
	for _, msg := range []string{"", "\n", "m", "m\n\n", "\n\nm\n", "s\n\nb\n", "caf\xe9\n", armor + "\n", "m\n" + armor + "\n", "m\n" + armors[2] + "\n", "m\n" + armors[3] + "\n", "m\n" + armors[4] + "\n",
		"m\n" + armor + "\ntrailing\n", "m\n" + armor + "\n" + armors[2] + "\n", "m\n" + armor, "m" + armor + "\n", "m\n " + armor + "\n", "-----BEGIN PGP SIGNATURE-----", "tree x\nparent y\n", "a\r\nb\r\n"} {
		msg := msg
		out = append(out, commitShape(nil, func(c *Case) { c.Msg = msg }))
		out = append(out, commitShape([]Hdr{enc, sig}, func(c *Case) { c.Msg = msg }))
		out = append(out, tagShape(nil, func(c *Case) { c.Msg = msg }))
	}
	// commit structure
	p := Hdr{K: "parent", V: "1111111111111111111111111111111111111111"}
	out = append(out,
		commitShape(nil, func(c *Case) { c.H = append(c.H[:1:1], append([]Hdr{p}, c.H[1:]...)...) }),
		commitShape(nil, func(c *Case) { c.H = append(c.H[:1:1], append([]Hdr{p, p, p, p, p, p, p, p}, c.H[1:]...)...) }),
		commitShape(nil, func(c *Case) { c.H = []Hdr{c.H[0], c.H[2]} }),
		commitShape(nil, func(c *Case) { c.H = []Hdr{c.H[0], c.H[1]} }),
		commitShape(nil, func(c *Case) { c.H = []Hdr{c.H[0], c.H[1], {K: "foo", V: "bar"}, c.H[2]} }),
		commitShape(nil, func(c *Case) { c.H = []Hdr{c.H[0], c.H[2], c.H[1]} }),
		commitShape(nil, func(c *Case) { c.H[0].V = strings.ToUpper(h40) }),
		commitShape(nil, func(c *Case) { c.H[0].V = "abc" }),
		commitShape(nil, func(c *Case) { c.H[0] = Hdr{K: "tree", NoSp: true} }),
		commitShape(nil, func(c *Case) { c.H[0].K = "Tree" }),
		commitShape(nil, func(c *Case) { c.H[0].V = h40 + "0" }),
		commitShape(nil, func(c *Case) { c.H[0].V = h40 + h40[:24] }),
		commitShape(nil, func(c *Case) { c.H = append(c.H[:1:1], append([]Hdr{{K: "parent", V: "zz"}}, c.H[1:]...)...) }),
		commitShape(nil, func(c *Case) { c.H = append(c.H[:1:1], append([]Hdr{{K: "parent", V: h40 + h40[:24]}}, c.H[1:]...)...) }),
		commitShape(nil, func(c *Case) { c.Fmt = "sha256"; c.H[0].V = h40 + h40[:24] }),
		commitShape([]Hdr{sig2}, func(c *Case) { c.Fmt = "sha256"; c.H[0].V = h40 + h40[:24] }),
	)
	// tag structure
	out = append(out,
		tagShape(nil, func(c *Case) { c.H = c.H[:3] }),
		tagShape(nil, func(c *Case) { c.NoBlank, c.Msg = true, "" }),
		tagShape(nil, func(c *Case) { c.NoBlank, c.NoFinalNL, c.Msg = true, true, "" }),
		tagShape([]Hdr{foo}, nil), tagShape([]Hdr{mt}, nil), tagShape([]Hdr{sig2}, nil), tagShape([]Hdr{sig2, sig2}, nil), tagShape([]Hdr{sig}, nil), tagShape([]Hdr{enc}, nil),
		tagShape([]Hdr{sig2}, func(c *Case) { c.NoBlank, c.NoFinalNL, c.Msg = true, true, "" }),
		tagShape([]Hdr{sig2}, func(c *Case) { c.Msg = "m\n" + armor + "\n" }),
		tagShape(nil, func(c *Case) { c.H[2].V = "" }), tagShape(nil, func(c *Case) { c.H[2] = Hdr{K: "tag", NoSp: true} }), tagShape(nil, func(c *Case) { c.H[2].V = "x y" }),
		tagShape(nil, func(c *Case) { c.H[1].V = "tree" }), tagShape(nil, func(c *Case) { c.H[1].V = "blob" }), tagShape(nil, func(c *Case) { c.H[1].V = "tag" }),
		tagShape(nil, func(c *Case) { c.H[1].V = "Commit" }), tagShape(nil, func(c *Case) { c.H[1].V = "" }), tagShape(nil, func(c *Case) { c.H[1].V = "ofs-delta" }),
		tagShape(nil, func(c *Case) { c.H[1], c.H[2] = c.H[2], c.H[1] }),
		tagShape(nil, func(c *Case) { c.H = []Hdr{c.H[0], c.H[1], c.H[3]} }),
		tagShape(nil, func(c *Case) { c.H = []Hdr{c.H[0]} }),
		tagShape(nil, func(c *Case) { c.H[0].V = "abc" }), tagShape(nil, func(c *Case) { c.H[0].K = "Object" }), tagShape(nil, func(c *Case) { c.H[0].V = strings.ToUpper(h40) }),
		tagShape([]Hdr{{K: "object", V: h40}}, nil), tagShape([]Hdr{{K: "type", V: "blob"}}, nil), tagShape([]Hdr{{K: "tag", V: "late"}}, nil), tagShape([]Hdr{{K: "tagger", V: okIdent}}, nil),
		tagShape(nil, func(c *Case) { c.Fmt = "sha256"; c.H[0].V = h40 + h40[:24] }),
	)
	return out
}

func TestC02Shapes(t *testing.T) {
	if os.Getenv("VERIF_REPLAY") != "" { // a case found here is replayed like any other
		evid.Run(t, evid.Spec[Case]{ID: "C02", Check: check})
		return
	}
	r := evid.Open(t, "C02")
	n := 0
	shard, nshards := evid.Shard()
	for i, base := range shapes() {
		if i%nshards != shard {
			continue
		}
		for _, mode := range []string{"reencode", "model", "git"} {
			c := base
			c.Mode = mode
			n++
			evid.Each(t, r, check, c) // continues after a failure: every shape is reported
		}
	}
	r.SetExhaustive()
	r.Extra["shapes"] = n
}
