package c02

import (
	"bytes"
	"compress/zlib"
	"fmt"
	"io"
	"os"
	"path/filepath"
	"strings"
	"sync"
	"testing"

	"pgregory.net/rapid"

	"verif/harness/lib/evid"
	"verif/harness/lib/gitx"
)

// MCase asks git itself to write a commit or a tag: the canonical tier.
type MCase struct {
	Op     string // commit-tree | merge-tag | tag | mktag
	Fmt    string
	AName  string
	AEmail string
	ADate  string // "@<ts> <zone>"
	CName  string
	CEmail string
	CDate  string
	Enc    string `json:",omitempty"` // i18n.commitEncoding
	Sign   string `json:",omitempty"` // "" | openpgp | x509
	NPar   int    `json:",omitempty"`
	Msg    string
	Name   string `json:",omitempty"` // tag name
	Target string `json:",omitempty"` // commit | tree | blob | tag
}

var (
	madeOnce [2]sync.Once
	madeIDs  [2]map[string]string
)

const fakeGPG = `#!/bin/sh
# stands in for gpg/gpgsm when git signs: swallow the payload, print an armour
# block, and write the status line git waits for on the status fd (2).
cat >/dev/null
case "$0" in
*x509*) printf '%s\n' '-----BEGIN SIGNED MESSAGE-----' 'MIIDzgYJKoZIhvcNAQcCoIIDvzCCA7sCAQExDTALBglghkgBZQMEAgEw' '-----END SIGNED MESSAGE-----' ;;
*) printf '%s\n' '-----BEGIN PGP SIGNATURE-----' '' 'iQEzBAABCAAdFiEEfakefakefakefakefake' '=AbCd' '-----END PGP SIGNATURE-----' ;;
esac
echo '[GNUPG:] SIG_CREATED D 1 8 00 1700000000 FAKE' >&2
`

// madeTemplate builds, once per process and format, a repository with two
// branches, an annotated signed tag on the side branch, a blob and a tree, and
// returns its path and the ids of those objects.
func madeTemplate(format string) (string, map[string]string) {
	i := 0
	if format == "sha256" {
		i = 1
	}
	madeOnce[i].Do(func() {
		if madeDir == "" {
			madeDir = scratch()
			for _, n := range []string{"fakegpg", "fakegpg-x509"} {
				if err := os.WriteFile(filepath.Join(madeDir, n), []byte(fakeGPG), 0o755); err != nil {
					panic("INFRA: " + err.Error())
				}
			}
		}
		d := filepath.Join(madeDir, format)
		gitx.Init(d, false, format)
		g := func(args ...string) string {
			return strings.TrimSpace(gitx.Must(d, append([]string{"-c", "gpg.program=" + filepath.Join(madeDir, "fakegpg")}, args...)...))
		}
		ids := map[string]string{}
		g("commit", "-q", "--allow-empty", "-m", "base")
		ids["base"] = g("rev-parse", "HEAD")
		g("checkout", "-q", "-b", "side")
		if err := os.WriteFile(filepath.Join(d, "f"), []byte("content\n"), 0o644); err != nil {
			panic("INFRA: " + err.Error())
		}
		g("add", "f")
		g("commit", "-q", "-m", "side")
		ids["side"] = g("rev-parse", "HEAD")
		ids["tree"] = g("rev-parse", "HEAD^{tree}")
		ids["blob"] = g("rev-parse", "HEAD:f")
		g("tag", "-s", "-m", "signed tag", "st", "side")
		ids["tag"] = g("rev-parse", "st")
		g("checkout", "-q", "main")
		g("commit", "-q", "--allow-empty", "-m", "main2")
		ids["main"] = g("rev-parse", "HEAD")
		ids["commit"] = ids["side"]
		madeIDs[i] = ids
	})
	return filepath.Join(madeDir, format), madeIDs[i]
}

var mNames = []string{"A U Thor", "Ünï Çødé", "名前", "O'Neil, Jr.", "a\tb", "x", "J. R. R.", "  padded  ", "dot.", "\"quoted\"", "semi;colon", "A <B>"}
var mEmails = []string{"a@b", "author@example.com", "x y@z", "user+tag@example.com", "üser@ex", " padded@x ", "<angle>", ""}
var mDates = []string{"@0 +0000", "@1 +0000", "@1700000000 -0500", "@1700000000 +0545", "@2147483648 +1400", "@1 -0030", "@1 -0015", "@86400 -1200", "@253402300800 +0000", "@1234567890 +0130", "@4102444800 -0930", "@5 +1245"}

func genMade(t *rapid.T, _ *evid.Recorder) MCase {
	c := MCase{Fmt: rapid.SampledFrom([]string{"sha1", "sha256"}).Draw(t, "fmt")}
	c.Op = rapid.SampledFrom([]string{"commit-tree", "commit-tree", "merge-tag", "tag", "mktag"}).Draw(t, "op")
	negSub := guardedFeatures["fields/ident/tz-neg-subhour"] || guardedFeatures["reencode/ident/tz-neg-subhour"]
	date := func(l string) string {
		d := rapid.SampledFrom(mDates).Draw(t, l)
		if negSub && strings.Contains(d, " -00") {
			d = strings.Replace(d, " -00", " +00", 1)
		}
		return d
	}
	c.AName, c.AEmail, c.ADate = rapid.SampledFrom(mNames).Draw(t, "an"), rapid.SampledFrom(mEmails).Draw(t, "ae"), date("ad")
	c.CName, c.CEmail, c.CDate = rapid.SampledFrom(mNames).Draw(t, "cn"), rapid.SampledFrom(mEmails).Draw(t, "ce"), date("cd")
	c.Sign = rapid.SampledFrom([]string{"", "", "openpgp", "x509"}).Draw(t, "sign")
	c.Msg = genMsg(t)
	switch c.Op {
	case "commit-tree", "merge-tag":
		c.Enc = rapid.SampledFrom([]string{"", "", "ISO-8859-1", "latin1", "UTF-8", "utf8", "EUC-JP"}).Draw(t, "enc")
		c.NPar = rapid.IntRange(0, 3).Draw(t, "npar")
	default:
		c.Name = rapid.SampledFrom([]string{"v1.0", "rel/2", "ünï", "a.b-c", "x@y"}).Draw(t, "tname")
		c.Target = rapid.SampledFrom([]string{"commit", "commit", "tree", "blob", "tag"}).Draw(t, "target")
	}
	return c
}

// looseBytes inflates a loose object and strips its header, without git or go-git.
func looseBytes(dir, oid string) (typ string, body []byte) {
	f, err := os.Open(filepath.Join(dir, ".git", "objects", oid[:2], oid[2:]))
	if err != nil {
		panic("INFRA: git did not leave a loose object: " + err.Error())
	}
	defer f.Close()
	z, err := zlib.NewReader(f)
	if err != nil {
		panic("INFRA: " + err.Error())
	}
	b, err := io.ReadAll(z)
	if err != nil {
		panic("INFRA: " + err.Error())
	}
	i := bytes.IndexByte(b, 0)
	if i < 0 {
		panic("INFRA: no header in loose object")
	}
	typ, _, _ = strings.Cut(string(b[:i]), " ")
	return typ, b[i+1:]
}

// parseCase is the inverse of Case.Raw for objects git wrote.
func parseCase(kind, format string, raw []byte) (Case, bool) {
	c := Case{Kind: kind, Fmt: format, Mode: "git"}
	s := string(raw)
	hdr, msg, found := strings.Cut(s, "\n\n")
	if !found {
		if !strings.HasSuffix(s, "\n") {
			return c, false
		}
		c.NoBlank = true
		hdr = strings.TrimSuffix(s, "\n")
	}
	c.Msg = msg
	for _, l := range strings.Split(hdr, "\n") {
		if strings.HasPrefix(l, " ") {
			if len(c.H) == 0 {
				return c, false
			}
			c.H[len(c.H)-1].V += "\n" + l[1:]
			continue
		}
		k, v, sp := strings.Cut(l, " ")
		c.H = append(c.H, Hdr{K: k, V: v, NoSp: !sp})
	}
	return c, c.inDomain() && bytes.Equal(c.Raw(), raw)
}

func checkMade(mc MCase) evid.Result {
	if mc.Fmt != "sha1" && mc.Fmt != "sha256" {
		return evid.Result{Discard: true}
	}
	tmpl, ids := madeTemplate(mc.Fmt)
	dir := scratch()
	defer os.RemoveAll(dir)
	copyTree(tmpl, dir)
	env := []string{"GIT_AUTHOR_NAME=" + mc.AName, "GIT_AUTHOR_EMAIL=" + mc.AEmail, "GIT_AUTHOR_DATE=" + mc.ADate,
		"GIT_COMMITTER_NAME=" + mc.CName, "GIT_COMMITTER_EMAIL=" + mc.CEmail, "GIT_COMMITTER_DATE=" + mc.CDate}
	for _, e := range env {
		if strings.ContainsRune(e, 0) || strings.Contains(e, "\n") {
			return evid.Result{Discard: true}
		}
	}
	args := []string{"-c", "gpg.program=" + filepath.Join(madeDir, "fakegpg"), "-c", "gpg.x509.program=" + filepath.Join(madeDir, "fakegpg-x509"), "-c", "user.signingkey=FAKE"}
	if mc.Sign != "" {
		args = append(args, "-c", "gpg.format="+mc.Sign)
	}
	if mc.Enc != "" {
		args = append(args, "-c", "i18n.commitEncoding="+mc.Enc)
	}
	res := evid.Result{Labels: []string{"op:" + mc.Op, "fmt:" + mc.Fmt, "sign:" + mc.Sign}}
	var stdin []byte
	kind := "commit"
	switch mc.Op {
	case "commit-tree":
		args = append(args, "commit-tree")
		if mc.Sign != "" {
			args = append(args, "-S")
		}
		for _, p := range []string{"base", "side", "main"}[:mc.NPar%4] {
			args = append(args, "-p", ids[p])
		}
		args = append(args, ids["tree"])
		stdin = []byte(mc.Msg)
	case "merge-tag":
		if strings.TrimSpace(mc.Msg) == "" {
			return evid.Result{Discard: true}
		}
		args = append(args, "merge", "-q", "--no-ff", "--no-edit", "--cleanup=verbatim", "-m", mc.Msg)
		if mc.Sign != "" {
			args = append(args, "-S")
		}
		args = append(args, "st")
	case "tag":
		kind = "tag"
		args = append(args, "tag", "--cleanup=verbatim", "-F", "-")
		if mc.Sign != "" {
			args = append(args, "-s")
		} else {
			args = append(args, "-a")
		}
		args = append(args, mc.Name, ids[mc.Target])
		stdin = []byte(mc.Msg)
	case "mktag":
		kind = "tag"
		if strings.ContainsAny(mc.CName, "<>") || strings.ContainsAny(mc.CEmail, "<> ") || strings.TrimSpace(mc.CName) == "" {
			return evid.Result{Discard: true}
		}
		d := strings.TrimPrefix(mc.CDate, "@")
		stdin = []byte(fmt.Sprintf("object %s\ntype %s\ntag %s\ntagger %s <%s> %s\n\n%s", ids[mc.Target], mc.Target, mc.Name, strings.TrimSpace(mc.CName), mc.CEmail, d, mc.Msg))
		args = append(args, "mktag")
	default:
		return evid.Result{Discard: true}
	}
	if stdin == nil {
		stdin = []byte{}
	}
	r, err := gitx.Run(gitx.Cmd{Dir: dir, Stdin: stdin, Env: env, Args: args})
	if err != nil {
		panic("INFRA: " + err.Error())
	}
	if r.Code != 0 {
		// git refused the request (empty ident, unusable name...): nothing was written
		return evid.Result{Discard: true}
	}
	var oid string
	switch mc.Op {
	case "commit-tree", "mktag":
		oid = strings.TrimSpace(string(r.Out))
	case "merge-tag":
		oid = strings.TrimSpace(gitx.Must(dir, "rev-parse", "HEAD"))
	case "tag":
		oid = strings.TrimSpace(gitx.Must(dir, "rev-parse", "refs/tags/"+mc.Name))
	}
	typ, raw := looseBytes(dir, oid)
	if typ != kind {
		panic("INFRA: git wrote a " + typ + " where a " + kind + " was expected")
	}
	c, ok := parseCase(kind, mc.Fmt, raw)
	if !ok {
		if bytes.IndexByte(raw, 0) >= 0 {
			return evid.Result{Discard: true}
		}
		panic(fmt.Sprintf("INFRA: object written by git does not fit the header grammar:\n%q", raw))
	}
	m := analyze(c)
	res.Labels = append(res.Labels, "tier:"+m.tier)
	for _, f := range m.features {
		res.Labels = append(res.Labels, "f:"+f)
	}
	if len(m.features) == 0 {
		res.Labels = append(res.Labels, "f:none")
	}
	if len(m.extras) > 0 {
		res.Labels = append(res.Labels, "has-extra-header")
	}
	if m.sig != "" || m.sig2 != "" || (kind == "tag" && mc.Sign != "") {
		res.Labels = append(res.Labels, "has-signature")
	}
	res.NonTrivial = len(m.extras) > 0 || m.sig != "" || m.sig2 != "" || len(m.parents) > 1 || m.encoding != "UTF-8" ||
		(c.Msg != "" && !strings.HasSuffix(c.Msg, "\n")) || (kind == "tag" && mc.Sign != "") ||
		m.author.tzSec != 0 || m.committer.tzSec != 0 || m.tagger.tzSec != 0
	g := queryGit(c, m, dir, oid)
	res.Labels = append(res.Labels, g.labels...)
	if !g.parsed {
		res.Fail = evid.Failf("C02/gitmade:"+mc.Op+"/git-cannot-report/"+featStr(m), "git cannot report the fields of an object it wrote itself (%v):\n%s", g.labels, raw)
		return res
	}
	sub, _ := checkDecoded(c, m, g, raw, true)
	if sub != nil {
		p := strings.SplitN(sub.Sig, "/", 4) // C02/<kind>/<part>/<features>
		sub.Sig = "C02/gitmade:" + mc.Op + "/" + p[2] + "/" + p[3]
		res.Fail = sub
	}
	return res
}

func TestC02GitMade(t *testing.T) {
	evid.Run(t, evid.Spec[MCase]{ID: "C02", Gen: genMade, Check: checkMade})
}
