package c02

import (
	"encoding/base64"
	"encoding/json"
	"strings"
	"unicode/utf8"
)

// Case files are JSON; encoding/json replaces invalid UTF-8 by U+FFFD, which
// would silently change a replayed case (names and messages in legacy
// encodings are part of the domain). Strings that are not valid UTF-8 are
// therefore stored as "\u0000b64:<base64>" (NUL never occurs in the domain).

const b64Mark = "\x00b64:"

func encS(s string) string {
	if utf8.ValidString(s) && !strings.HasPrefix(s, b64Mark) {
		return s
	}
	return b64Mark + base64.StdEncoding.EncodeToString([]byte(s))
}

func decS(s string) string {
	if r, ok := strings.CutPrefix(s, b64Mark); ok {
		if b, err := base64.StdEncoding.DecodeString(r); err == nil {
			return string(b)
		}
	}
	return s
}

type hdrJ Hdr

func (h Hdr) MarshalJSON() ([]byte, error) {
	a := hdrJ(h)
	a.K, a.V = encS(a.K), encS(a.V)
	return json.Marshal(a)
}

func (h *Hdr) UnmarshalJSON(b []byte) error {
	var a hdrJ
	if err := json.Unmarshal(b, &a); err != nil {
		return err
	}
	a.K, a.V = decS(a.K), decS(a.V)
	*h = Hdr(a)
	return nil
}

type caseJ Case

func (c Case) MarshalJSON() ([]byte, error) {
	a := caseJ(c)
	a.Msg = encS(a.Msg)
	return json.Marshal(a)
}

func (c *Case) UnmarshalJSON(b []byte) error {
	var a caseJ
	if err := json.Unmarshal(b, &a); err != nil {
		return err
	}
	a.Msg = decS(a.Msg)
	*c = Case(a)
	return nil
}

type sidentJ SIdent

func (i SIdent) MarshalJSON() ([]byte, error) {
	a := sidentJ(i)
	a.Name, a.Email = encS(a.Name), encS(a.Email)
	return json.Marshal(a)
}

func (i *SIdent) UnmarshalJSON(b []byte) error {
	var a sidentJ
	if err := json.Unmarshal(b, &a); err != nil {
		return err
	}
	a.Name, a.Email = decS(a.Name), decS(a.Email)
	*i = SIdent(a)
	return nil
}

type scaseJ SCase

func (c SCase) MarshalJSON() ([]byte, error) {
	a := scaseJ(c)
	a.Msg, a.Name, a.Sig, a.Sig256, a.TagSig, a.Encoding = encS(a.Msg), encS(a.Name), encS(a.Sig), encS(a.Sig256), encS(a.TagSig), encS(a.Encoding)
	return json.Marshal(a)
}

func (c *SCase) UnmarshalJSON(b []byte) error {
	var a scaseJ
	if err := json.Unmarshal(b, &a); err != nil {
		return err
	}
	a.Msg, a.Name, a.Sig, a.Sig256, a.TagSig, a.Encoding = decS(a.Msg), decS(a.Name), decS(a.Sig), decS(a.Sig256), decS(a.TagSig), decS(a.Encoding)
	*c = SCase(a)
	return nil
}

type mcaseJ MCase

func (c MCase) MarshalJSON() ([]byte, error) {
	a := mcaseJ(c)
	a.AName, a.AEmail, a.CName, a.CEmail, a.Msg, a.Name = encS(a.AName), encS(a.AEmail), encS(a.CName), encS(a.CEmail), encS(a.Msg), encS(a.Name)
	return json.Marshal(a)
}

func (c *MCase) UnmarshalJSON(b []byte) error {
	var a mcaseJ
	if err := json.Unmarshal(b, &a); err != nil {
		return err
	}
	a.AName, a.AEmail, a.CName, a.CEmail, a.Msg, a.Name = decS(a.AName), decS(a.AEmail), decS(a.CName), decS(a.CEmail), decS(a.Msg), decS(a.Name)
	*c = MCase(a)
	return nil
}

func init() { // the encoding must be lossless: checked once per process on awkward values
	for _, s := range []string{"", "a", "caf\xe9", "\xff\xfe", "ok ✓", b64Mark + "x"} {
		h := Hdr{K: "k", V: s}
		b, _ := json.Marshal(Case{Kind: "commit", Fmt: "sha1", Mode: "model", H: []Hdr{h}, Msg: s})
		var c Case
		if err := json.Unmarshal(b, &c); err != nil || c.Msg != s || c.H[0].V != s {
			panic("INFRA: case JSON encoding is lossy for " + s)
		}
	}
}
