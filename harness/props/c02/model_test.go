package c02

import (
	"bytes"
	"math"
	"regexp"
	"sort"
	"strconv"
	"strings"
)

// Hdr is one header of a commit/tag: "K V\n" where every "\n" inside V starts a
// continuation line ("\n "), or just "K\n" when NoSp.
type Hdr struct {
	K    string
	V    string
	NoSp bool `json:",omitempty"`
}

// Case is one raw commit or tag object described structurally.
type Case struct {
	Kind      string // commit | tag
	Fmt       string // sha1 | sha256 (repository the object is stored in when Git is set)
	H         []Hdr
	NoBlank   bool   `json:",omitempty"` // no blank separator line (and no message)
	NoFinalNL bool   `json:",omitempty"` // with NoBlank: the last header line is not newline-terminated
	Msg       string // everything after the blank line
	Mode      string // reencode: Decode+Encode reproduces the bytes | model: decoded fields vs the structure | git: decoded fields vs the structure and vs git's own parse
}

// Raw renders the object bytes.
func (c Case) Raw() []byte {
	var b bytes.Buffer
	for i, h := range c.H {
		b.WriteString(h.K)
		if !h.NoSp {
			b.WriteByte(' ')
			b.WriteString(strings.ReplaceAll(h.V, "\n", "\n "))
		}
		if !(c.NoBlank && c.NoFinalNL && i == len(c.H)-1) {
			b.WriteByte('\n')
		}
	}
	if !c.NoBlank {
		b.WriteByte('\n')
		b.WriteString(c.Msg)
	}
	return b.Bytes()
}

// inDomain rejects cases whose rendering would not mean what the structure says.
func (c Case) inDomain() bool {
	if c.Kind != "commit" && c.Kind != "tag" {
		return false
	}
	if c.Fmt != "sha1" && c.Fmt != "sha256" {
		return false
	}
	if c.Mode != "reencode" && c.Mode != "model" && c.Mode != "git" {
		return false
	}
	if len(c.H) == 0 {
		return false
	}
	for _, h := range c.H {
		if h.K == "" || strings.ContainsAny(h.K, " \n\x00") || strings.ContainsRune(h.V, 0) {
			return false
		}
		if h.NoSp && h.V != "" {
			return false
		}
	}
	if strings.ContainsRune(c.Msg, 0) {
		return false // git's own reporting stops at NUL; NUL never crosses the comparison
	}
	if c.NoBlank && c.Msg != "" {
		return false
	}
	if c.NoFinalNL && !c.NoBlank {
		return false
	}
	return true
}

// ident is the harness reading of an identity line, following git's
// split_ident_line for lines with exactly one '<' and one '>'.
type ident struct {
	ok       bool // name/email extracted
	name     string
	email    string
	hasDate  bool
	ts       int64
	tzSec    int // offset east of UTC in seconds, computed the way git does: sign*(hh*60+mm) minutes
	features []string
}

var tzRe = regexp.MustCompile(`^[+-][0-9]{4}$`)
var digitsRe = regexp.MustCompile(`^[0-9]+$`)

func parseIdent(v string) ident {
	var id ident
	add := func(f string) { id.features = append(id.features, f) }
	nOpen, nClose := strings.Count(v, "<"), strings.Count(v, ">")
	if strings.Contains(v, "\n") {
		add("ident-multiline")
		return id
	}
	if nOpen == 0 || nClose == 0 {
		add("ident-no-brackets")
		return id
	}
	if nOpen > 1 || nClose > 1 || strings.Index(v, ">") < strings.Index(v, "<") {
		add("ident-multi-brackets")
		return id
	}
	open, cl := strings.Index(v, "<"), strings.Index(v, ">")
	name := v[:open]
	id.email = v[open+1 : cl]
	id.ok = true
	switch {
	case strings.Trim(name, " \t") == "":
		add("ident-name-empty")
	case !strings.HasSuffix(name, " "):
		add("ident-no-space-before-email")
	default:
		n := name[:len(name)-1]
		if strings.Trim(n, " \t") != n {
			add("ident-blanks")
		}
	}
	id.name = strings.Trim(name, " \t")
	rest := v[cl+1:]
	if rest == "" {
		add("ident-no-date")
		return id
	}
	if !strings.HasPrefix(rest, " ") {
		add("ident-no-space-before-date")
		return id
	}
	tsStr, tzStr, hasTz := strings.Cut(rest[1:], " ")
	switch {
	case !digitsRe.MatchString(tsStr):
		if len(tsStr) > 1 && tsStr[0] == '-' && digitsRe.MatchString(tsStr[1:]) {
			add("ts-negative")
		} else {
			add("ts-malformed")
		}
		return id
	case len(tsStr) > 1 && tsStr[0] == '0':
		add("ts-zero-padded")
	}
	ts, err := strconv.ParseUint(tsStr, 10, 64)
	if err != nil || ts > math.MaxInt64 {
		add("ts-overflow")
		return id
	}
	id.ts = int64(ts)
	if !hasTz || !tzRe.MatchString(tzStr) {
		add("tz-malformed")
		return id
	}
	hh, _ := strconv.Atoi(tzStr[1:3])
	mm, _ := strconv.Atoi(tzStr[3:5])
	id.tzSec = (hh*60 + mm) * 60
	if tzStr[0] == '-' {
		id.tzSec = -id.tzSec
		if hh == 0 && mm == 0 {
			add("tz-minus-zero")
		} else if hh == 0 {
			add("tz-neg-subhour")
		}
	}
	if mm >= 60 {
		add("tz-mm-ge-60")
	}
	id.hasDate = true
	return id
}

// Features git fsck reports as errors (harness estimate, calibrated on the fixed
// corpus; in Git mode the real verdict of `git fsck` is recorded as a label).
var t3Features = map[string]bool{
	"ident-multiline": true, "ident-no-brackets": true, "ident-multi-brackets": true, "ident-name-empty": true,
	"ident-no-space-before-email": true, "ident-no-date": true, "ident-no-space-before-date": true,
	"ts-negative": true, "ts-malformed": true, "ts-zero-padded": true, "ts-overflow": true, "tz-malformed": true,
	"first-header-bad": true, "hash-bad": true, "author-missing": true, "committer-missing": true,
	"unterminated-last-header:std": true, "unterminated-last-header:sig": true, "unterminated-last-header:extra": true, "author-late": true, "committer-late": true, "tag-type-missing": true, "tag-name-missing": true, "tag-type-unknown": true,
	"mixed-hash-length": true,
}

// Features git's own tools can emit when asked (canonical tier).
var t1Features = map[string]bool{"tz-neg-subhour": true}

// model is what the structure says the fields are (meaningful when no T3 feature).
type model struct {
	features []string
	tier     string // t1 | t2 | t3

	// commit
	tree      string
	parents   []string
	author    ident
	committer ident
	hasAuthor bool
	hasCommit bool
	encoding  string
	extras    []Hdr // value with trailing newlines trimmed
	sig, sig2 string
	sigUnterminated bool // the last header line is a signature header without final newline: its value is not compared
	// tag
	target, targetType, name string
	tagger                   ident
	hasTagger                bool
}

var hexRe = regexp.MustCompile(`^[0-9a-fA-F]+$`)

func goodHash(c Case, v string, m *model) bool {
	if !hexRe.MatchString(v) || (len(v) != 40 && len(v) != 64) {
		return false
	}
	if strings.ToLower(v) != v {
		m.add("hash-uppercase") // git's hex parser accepts it; never written by git
	}
	want := 40
	if c.Fmt == "sha256" {
		want = 64
	}
	if len(v) != want {
		m.add("mixed-hash-length")
	}
	return true
}

func (m *model) add(f string) {
	for _, x := range m.features {
		if x == f {
			return
		}
	}
	m.features = append(m.features, f)
}

func (m *model) has(f string) bool {
	for _, x := range m.features {
		if x == f {
			return true
		}
	}
	return false
}

func analyze(c Case) *model {
	m := &model{encoding: "UTF-8"}
	if c.Kind == "commit" {
		analyzeCommit(c, m)
	} else {
		analyzeTag(c, m)
	}
	switch {
	case c.NoBlank && c.NoFinalNL: // implies no blank line; what is lost depends on the kind of the unterminated line
		last := c.H[len(c.H)-1].K
		switch last {
		case "gpgsig", "gpgsig-sha256":
			last = "sig"
			m.sigUnterminated = true
		case "tree", "parent", "author", "committer", "object", "type", "tag", "tagger", "encoding":
			last = "std"
		default:
			last = "extra"
		}
		m.add("unterminated-last-header:" + last)
	case c.NoBlank:
		m.add("no-blank-line")
	}
	// a duplicated gpgsig-sha256 tag header implies the header itself
	if (m.has("dup-gpgsig-sha256") || m.has("unterminated-last-header:sig")) && m.has("tag-gpgsig-sha256-header") {
		var fs []string
		for _, f := range m.features {
			if f != "tag-gpgsig-sha256-header" {
				fs = append(fs, f)
			}
		}
		m.features = fs
	}
	sort.Strings(m.features)
	m.tier = "t1"
	for _, f := range m.features {
		if t3Features[f] {
			m.tier = "t3"
			break
		}
		if !t1Features[f] {
			m.tier = "t2"
		}
	}
	return m
}

func analyzeCommit(c Case, m *model) {
	i := 0
	if c.H[0].K != "tree" || c.H[0].NoSp || !goodHash(c, c.H[0].V, m) {
		m.add("first-header-bad")
		return
	}
	m.tree = c.H[0].V
	i = 1
	for i < len(c.H) && c.H[i].K == "parent" {
		if c.H[i].NoSp || !goodHash(c, c.H[i].V, m) {
			m.add("hash-bad")
		}
		m.parents = append(m.parents, c.H[i].V)
		i++
	}
	if i < len(c.H) && c.H[i].K == "author" {
		m.hasAuthor = true
		m.author = parseIdent(c.H[i].V)
		for _, f := range m.author.features {
			m.add(f)
		}
		i++
	} else if hasKey(c.H[i:], "author") {
		m.add("author-late") // git finds the header wherever it is
	} else {
		m.add("author-missing")
	}
	if i < len(c.H) && c.H[i].K == "committer" {
		m.hasCommit = true
		m.committer = parseIdent(c.H[i].V)
		for _, f := range m.committer.features {
			m.add(f)
		}
		i++
	} else if hasKey(c.H[i:], "committer") {
		m.add("committer-late")
	} else {
		m.add("committer-missing")
	}
	// the rest: encoding < extras < gpgsig < gpgsig-sha256 is the order git's own writer uses
	lastClass := 0
	nEnc, nSig, nSig2 := 0, 0, 0
	lateSeen := map[string]bool{}
	for ; i < len(c.H); i++ {
		h := c.H[i]
		class := 1
		switch h.K {
		case "tree", "parent", "author", "committer":
			switch {
			case h.K == "author" && m.has("author-late"), h.K == "committer" && m.has("committer-late"):
				// already named; a second late copy is a plain late standard header
				if lateSeen[h.K] {
					m.add("std-header-late")
				}
				lateSeen[h.K] = true
			default:
				m.add("std-header-late")
			}
			continue
		case "encoding":
			class = 0
			nEnc++
			if nEnc == 1 {
				m.encoding = h.V
				if h.V == "UTF-8" {
					m.add("encoding-explicit-UTF-8")
				}
				if h.NoSp || h.V == "" {
					m.add("encoding-empty")
				}
				if strings.Contains(h.V, "\n") {
					m.add("encoding-multiline")
				}
			} else {
				m.add("dup-encoding")
			}
		case "gpgsig":
			class = 2
			nSig++
			m.sig += h.V + "\n"
			if nSig > 1 {
				m.add("dup-gpgsig")
			}
			sigShape(h, m)
		case "gpgsig-sha256":
			class = 3
			nSig2++
			m.sig2 += h.V + "\n"
			if nSig2 > 1 {
				m.add("dup-gpgsig-sha256")
			}
			sigShape(h, m)
		default:
			v := strings.TrimRight(h.V, "\n")
			m.extras = append(m.extras, Hdr{K: h.K, V: v})
			switch {
			case h.NoSp:
				m.add("extra-no-space")
			case h.V == "":
				m.add("extra-empty-value")
			case strings.TrimRight(h.V, "\n") == "":
				m.add("extra-only-empty-lines")
			case v != h.V:
				m.add("extra-trailing-empty-line")
			}
		}
		if class < lastClass {
			m.add("hdr-order")
		}
		lastClass = class
	}
	if nSig > 0 && nSig2 > 0 {
		m.add("both-sig-headers")
	}
}

func hasKey(hs []Hdr, k string) bool {
	for _, h := range hs {
		if h.K == k {
			return true
		}
	}
	return false
}

func sigShape(h Hdr, m *model) {
	switch {
	case h.NoSp:
		m.add("sig-no-space")
	case h.V == "":
		m.add("sig-empty-value")
	case strings.HasSuffix(h.V, "\n"):
		m.add("sig-trailing-empty-line")
	}
}

func analyzeTag(c Case, m *model) {
	if c.H[0].K != "object" || c.H[0].NoSp || !goodHash(c, c.H[0].V, m) {
		m.add("first-header-bad")
		return
	}
	m.target = c.H[0].V
	if len(c.H) < 2 || c.H[1].K != "type" {
		m.add("tag-type-missing")
		return
	}
	m.targetType = c.H[1].V
	switch c.H[1].V {
	case "commit", "tree", "blob", "tag":
	default:
		m.add("tag-type-unknown")
	}
	if len(c.H) < 3 || c.H[2].K != "tag" {
		m.add("tag-name-missing")
		return
	}
	m.name = c.H[2].V
	if c.H[2].NoSp || c.H[2].V == "" {
		m.add("tag-name-empty")
	}
	if strings.Contains(c.H[2].V, "\n") {
		m.add("tag-name-multiline")
	}
	i := 3
	if i < len(c.H) && c.H[i].K == "tagger" {
		m.hasTagger = true
		m.tagger = parseIdent(c.H[i].V)
		for _, f := range m.tagger.features {
			m.add(f)
		}
		i++
	} else {
		m.add("tag-no-tagger") // git accepts (missingTaggerEntry is informational): tier 2
	}
	for ; i < len(c.H); i++ {
		h := c.H[i]
		switch h.K {
		case "object", "type", "tag", "tagger":
			m.add("std-header-late")
		case "gpgsig-sha256":
			if m.sig2 != "" {
				m.add("dup-gpgsig-sha256")
			}
			m.sig2 += h.V + "\n"
			m.add("tag-gpgsig-sha256-header")
			sigShape(h, m)
		case "gpgsig":
			m.add("tag-gpgsig-header")
		default:
			m.add("tag-extra-header")
		}
	}
}
