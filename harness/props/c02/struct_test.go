package c02

import (
	"fmt"
	"strings"
	"testing"
	"time"

	"github.com/go-git/go-git/v6/plumbing"
	"github.com/go-git/go-git/v6/plumbing/object"
	"pgregory.net/rapid"

	"verif/harness/lib/evid"
)

// SIdent is an identity of an in-memory object.
type SIdent struct {
	Name, Email string
	TS          int64
	TZMin       int // zone offset in minutes east of UTC
}

// SCase is a well-formed in-memory commit or tag.
type SCase struct {
	Kind      string
	Fmt       string
	Tree      string   `json:",omitempty"`
	Parents   []string `json:",omitempty"`
	Author    SIdent
	Committer SIdent
	Encoding  string `json:",omitempty"`
	Extra     []Hdr  `json:",omitempty"`
	Sig       string `json:",omitempty"`
	Sig256    string `json:",omitempty"`
	Msg       string
	// tag
	Name       string  `json:",omitempty"`
	TargetType string  `json:",omitempty"`
	Target     string  `json:",omitempty"`
	Tagger     *SIdent `json:",omitempty"`
	TagSig     string  `json:",omitempty"` // trailing armoured block
}

func (i SIdent) sig() object.Signature {
	return object.Signature{Name: i.Name, Email: i.Email, When: time.Unix(i.TS, 0).In(time.FixedZone("", i.TZMin*60))}
}

func okIdentS(i SIdent) bool {
	if strings.ContainsAny(i.Name, "<>\n\x00") || strings.ContainsAny(i.Email, "<>\n\x00") {
		return false
	}
	if strings.Trim(i.Name, " ") != i.Name { // git strips blanks around names; Decode does too
		return false
	}
	return i.TS >= 0 && i.TZMin > -6000 && i.TZMin < 6000
}

var stdKeys = map[string]bool{"tree": true, "parent": true, "author": true, "committer": true, "encoding": true, "gpgsig": true, "gpgsig-sha256": true}

var beginMarks = []string{"-----BEGIN PGP SIGNATURE-----", "-----BEGIN PGP MESSAGE-----", "-----BEGIN SSH SIGNATURE-----", "-----BEGIN SIGNED MESSAGE-----"}

func hasMarkLine(s string) bool {
	for _, l := range strings.SplitAfter(s, "\n") {
		for _, m := range beginMarks {
			if strings.HasPrefix(l, m) {
				return true
			}
		}
	}
	return false
}

// wellFormed is the documented domain of Encode: identities without <>\n and
// unpadded names, non-negative times, whole-minute zones, extra headers with a
// non-standard key and a value not ending in a newline, signatures ending in a
// newline, a tag message that ends in a newline before a trailing signature and
// contains no armour header line of its own.
func (c SCase) wellFormed() bool {
	hl := 40
	if c.Fmt == "sha256" {
		hl = 64
	} else if c.Fmt != "sha1" {
		return false
	}
	okHash := func(h string) bool { return len(h) == hl && hexRe.MatchString(h) && strings.ToLower(h) == h }
	okSig := func(s string) bool { return s == "" || (strings.HasSuffix(s, "\n") && !strings.ContainsRune(s, 0)) }
	if strings.ContainsRune(c.Msg, 0) {
		return false
	}
	switch c.Kind {
	case "commit":
		if !okHash(c.Tree) || !okIdentS(c.Author) || !okIdentS(c.Committer) || !okSig(c.Sig) || !okSig(c.Sig256) {
			return false
		}
		for _, p := range c.Parents {
			if !okHash(p) {
				return false
			}
		}
		if strings.ContainsAny(c.Encoding, "\n\x00") {
			return false
		}
		for _, e := range c.Extra {
			if e.K == "" || stdKeys[e.K] || strings.ContainsAny(e.K, " \n\x00") || strings.HasSuffix(e.V, "\n") || strings.ContainsRune(e.V, 0) || e.NoSp {
				return false
			}
		}
		return true
	case "tag":
		if !okHash(c.Target) || strings.ContainsAny(c.Name, "\n\x00") || c.Name == "" {
			return false
		}
		if _, err := plumbing.ParseObjectType(c.TargetType); err != nil || strings.Contains(c.TargetType, "delta") {
			return false
		}
		if c.Tagger != nil && !okIdentS(*c.Tagger) {
			return false
		}
		if !okSig(c.Sig256) || hasMarkLine(c.Msg) {
			return false
		}
		if c.TagSig != "" {
			if !(c.Msg == "" || strings.HasSuffix(c.Msg, "\n")) || !strings.HasSuffix(c.TagSig, "\n") {
				return false
			}
			first := false
			for _, m := range beginMarks {
				first = first || strings.HasPrefix(c.TagSig, m)
			}
			if !first || hasMarkLine(c.TagSig[1:]) && strings.Count(c.TagSig, "-----BEGIN") > 1 {
				return false
			}
		}
		return true
	}
	return false
}

func genSIdent(t *rapid.T, l string) SIdent {
	n := rapid.IntRange(0, 3).Draw(t, l+"nn")
	toks := make([]string, n)
	for i := range toks {
		toks[i] = rapid.SampledFrom(nameToks).Draw(t, l+"tok")
	}
	id := SIdent{Name: strings.Join(toks, " "), Email: rapid.SampledFrom(emails).Draw(t, l+"email")}
	id.TS = rapid.SampledFrom([]int64{0, 1, 1700000000, 2147483647, 2147483648, 253402300800, 1<<62 + 5}).Draw(t, l+"ts")
	if rapid.Bool().Draw(t, l+"tsrand") {
		id.TS = rapid.Int64Range(0, 4_000_000_000).Draw(t, l+"tsv")
	}
	sign := rapid.SampledFrom([]int{1, -1}).Draw(t, l+"sign")
	hh := rapid.SampledFrom([]int{0, 0, 1, 5, 9, 12, 14, 23, 99}).Draw(t, l+"hh")
	mm := rapid.SampledFrom([]int{0, 0, 30, 45, 59, 1}).Draw(t, l+"mm")
	if sign < 0 && hh == 0 && mm > 0 && guardedFeatures["fields/struct/tz-neg-subhour"] {
		sign = 1
	}
	id.TZMin = sign * (hh*60 + mm)
	return id
}

func genStruct(t *rapid.T, _ *evid.Recorder) SCase {
	c := SCase{Fmt: rapid.SampledFrom([]string{"sha1", "sha256"}).Draw(t, "fmt"), Kind: rapid.SampledFrom([]string{"commit", "commit", "tag"}).Draw(t, "kind")}
	if c.Kind == "commit" {
		c.Tree = genHash(t, c.Fmt, "tree")
		for i, n := 0, rapid.SampledFrom([]int{0, 1, 1, 2, 3}).Draw(t, "np"); i < n; i++ {
			c.Parents = append(c.Parents, genHash(t, c.Fmt, "parent"))
		}
		c.Author, c.Committer = genSIdent(t, "a"), genSIdent(t, "c")
		c.Encoding = rapid.SampledFrom([]string{"", "", "UTF-8", "ISO-8859-1", "utf-8", "x y"}).Draw(t, "enc")
		for i, n := 0, rapid.SampledFrom([]int{0, 0, 1, 2, 3}).Draw(t, "nx"); i < n; i++ {
			c.Extra = append(c.Extra, Hdr{K: rapid.SampledFrom(extraKeys).Draw(t, "xkey"), V: rapid.SampledFrom(append(extraVals, "", "\nleading-empty-line", " leading-space")).Draw(t, "xval")})
		}
		if rapid.IntRange(0, 2).Draw(t, "hassig") == 2 {
			c.Sig = rapid.SampledFrom(armors).Draw(t, "armor") + rapid.SampledFrom([]string{"\n", "\n", "\n\n"}).Draw(t, "sigend")
		}
		if rapid.IntRange(0, 3).Draw(t, "hassig2") == 3 {
			c.Sig256 = rapid.SampledFrom(armors).Draw(t, "armor2") + "\n"
		}
		c.Msg = genMsg(t)
		return c
	}
	c.Target = genHash(t, c.Fmt, "object")
	c.TargetType = rapid.SampledFrom([]string{"commit", "tree", "blob", "tag"}).Draw(t, "ttype")
	c.Name = rapid.SampledFrom([]string{"v1.0", "v1", "release/2.0", "x y", "ünï", "-dash", " lead", "trail "}).Draw(t, "tname")
	if rapid.IntRange(0, 4).Draw(t, "hastagger") != 4 {
		id := genSIdent(t, "t")
		c.Tagger = &id
	}
	if rapid.IntRange(0, 3).Draw(t, "hassig2") == 3 {
		c.Sig256 = rapid.SampledFrom(armors).Draw(t, "armor2") + "\n"
	}
	n := rapid.IntRange(0, 3).Draw(t, "nmsg")
	for i := 0; i < n; i++ {
		c.Msg += rapid.SampledFrom(msgToks[:13]).Draw(t, "msgtok")
	}
	if rapid.IntRange(0, 2).Draw(t, "tagsigned") == 2 {
		if c.Msg != "" && !strings.HasSuffix(c.Msg, "\n") {
			c.Msg += "\n"
		}
		c.TagSig = rapid.SampledFrom(armors[:5]).Draw(t, "tarmor") + "\n" + rapid.SampledFrom([]string{"", "", "trailing text\n"}).Draw(t, "aftersig")
	}
	return c
}

func hashOf(s string) plumbing.Hash {
	h, ok := plumbing.FromHex(s)
	if !ok {
		panic("INFRA: bad generated hash " + s)
	}
	return h
}

func sameIdent(a, b object.Signature) string {
	switch {
	case a.Name != b.Name:
		return fmt.Sprintf("name %q -> %q", a.Name, b.Name)
	case a.Email != b.Email:
		return fmt.Sprintf("email %q -> %q", a.Email, b.Email)
	case a.When.Unix() != b.When.Unix():
		return fmt.Sprintf("time %d -> %d", a.When.Unix(), b.When.Unix())
	case tzSec(a) != tzSec(b):
		return fmt.Sprintf("zone %ds -> %ds", tzSec(a), tzSec(b))
	}
	return ""
}

func (c SCase) features() []string {
	var fs []string
	ids := []SIdent{c.Author, c.Committer}
	if c.Kind == "tag" {
		ids = nil
		if c.Tagger != nil {
			ids = []SIdent{*c.Tagger}
		}
	}
	for _, i := range ids {
		if i.TZMin < 0 && i.TZMin > -60 {
			fs = append(fs, "tz-neg-subhour")
			break
		}
	}
	return fs
}

func checkStruct(c SCase) evid.Result {
	if !c.wellFormed() {
		return evid.Result{Discard: true}
	}
	fs := c.features()
	feat := "wellformed"
	if len(fs) > 0 {
		feat = strings.Join(fs, "+")
	}
	res := evid.Result{Labels: []string{"kind:" + c.Kind, "fmt:" + c.Fmt}}
	for _, f := range fs {
		res.Labels = append(res.Labels, "f:"+f)
	}
	sig := func(field string) string {
		if strings.HasPrefix(field, "ident.") {
			return "C02/struct/" + field + "/" + feat
		}
		return "C02/struct/" + c.Kind + ":" + field + "/" + feat
	}
	if c.Kind == "commit" {
		in := &object.Commit{TreeHash: hashOf(c.Tree), Author: c.Author.sig(), Committer: c.Committer.sig(), Encoding: object.MessageEncoding(c.Encoding),
			Signature: c.Sig, SignatureSHA256: c.Sig256, Message: c.Msg}
		for _, p := range c.Parents {
			in.ParentHashes = append(in.ParentHashes, hashOf(p))
		}
		for _, e := range c.Extra {
			in.ExtraHeaders = append(in.ExtraHeaders, object.ExtraHeader{Key: e.K, Value: e.V})
		}
		res.NonTrivial = len(c.Extra) > 0 || c.Sig != "" || c.Sig256 != "" || len(c.Parents) > 1 || c.Author.TZMin != 0 || c.Committer.TZMin != 0 ||
			(c.Msg != "" && !strings.HasSuffix(c.Msg, "\n")) || (c.Encoding != "" && c.Encoding != "UTF-8")
		if len(c.Extra) > 0 {
			res.Labels = append(res.Labels, "has-extra-header")
		}
		if c.Sig != "" || c.Sig256 != "" {
			res.Labels = append(res.Labels, "has-signature")
		}
		o := &plumbing.MemoryObject{}
		if err := in.Encode(o); err != nil {
			res.Fail = evid.Failf(sig("encode-error"), "Encode: %v", err)
			return res
		}
		raw := objBytes(o)
		out := &object.Commit{}
		if err := out.Decode(memObj(plumbing.CommitObject, raw)); err != nil {
			res.Fail = evid.Failf(sig("decode-error"), "Decode of the encoded commit: %v\n%s", err, raw)
			return res
		}
		fail := func(field, d string) evid.Result {
			res.Fail = evid.Failf(sig(field), "%s not preserved by Encode+Decode: %s\nencoded:\n%s", field, d, raw)
			return res
		}
		if out.TreeHash != in.TreeHash {
			return fail("TreeHash", fmt.Sprintf("%s -> %s", in.TreeHash, out.TreeHash))
		}
		if fmt.Sprint(out.ParentHashes) != fmt.Sprint(in.ParentHashes) {
			return fail("ParentHashes", fmt.Sprintf("%v -> %v", in.ParentHashes, out.ParentHashes))
		}
		if d := sameIdent(in.Author, out.Author); d != "" {
			return fail("ident."+strings.Fields(d)[0], "author "+d)
		}
		if d := sameIdent(in.Committer, out.Committer); d != "" {
			return fail("ident."+strings.Fields(d)[0], "committer "+d)
		}
		ie, oe := string(in.Encoding), string(out.Encoding)
		if ie == "" {
			ie = "UTF-8" // unset means UTF-8 (the header is omitted for both)
		}
		if ie != oe {
			return fail("Encoding", fmt.Sprintf("%q -> %q", in.Encoding, out.Encoding))
		}
		if len(in.ExtraHeaders) != len(out.ExtraHeaders) {
			return fail("ExtraHeaders", fmt.Sprintf("%+v -> %+v", in.ExtraHeaders, out.ExtraHeaders))
		}
		for i := range in.ExtraHeaders {
			if in.ExtraHeaders[i] != out.ExtraHeaders[i] {
				return fail("ExtraHeaders", fmt.Sprintf("[%d] {%q %q} -> {%q %q}", i, in.ExtraHeaders[i].Key, in.ExtraHeaders[i].Value, out.ExtraHeaders[i].Key, out.ExtraHeaders[i].Value))
			}
		}
		if in.Signature != out.Signature {
			return fail("Signature", fmt.Sprintf("%q -> %q", in.Signature, out.Signature))
		}
		if in.SignatureSHA256 != out.SignatureSHA256 {
			return fail("SignatureSHA256", fmt.Sprintf("%q -> %q", in.SignatureSHA256, out.SignatureSHA256))
		}
		if in.Message != out.Message {
			return fail("Message", fmt.Sprintf("%q -> %q", in.Message, out.Message))
		}
		return res
	}
	tt, _ := plumbing.ParseObjectType(c.TargetType)
	in := &object.Tag{Name: c.Name, Target: hashOf(c.Target), TargetType: tt, Message: c.Msg, Signature: c.TagSig, SignatureSHA256: c.Sig256}
	if c.Tagger != nil {
		in.Tagger = c.Tagger.sig()
	}
	res.NonTrivial = c.TagSig != "" || c.Sig256 != "" || c.Tagger == nil || c.Tagger.TZMin != 0 || (c.Msg != "" && !strings.HasSuffix(c.Msg, "\n"))
	if c.TagSig != "" || c.Sig256 != "" {
		res.Labels = append(res.Labels, "has-signature")
	}
	if c.Tagger == nil {
		res.Labels = append(res.Labels, "no-tagger")
	}
	o := &plumbing.MemoryObject{}
	if err := in.Encode(o); err != nil {
		res.Fail = evid.Failf(sig("encode-error"), "Encode: %v", err)
		return res
	}
	raw := objBytes(o)
	out := &object.Tag{}
	if err := out.Decode(memObj(plumbing.TagObject, raw)); err != nil {
		res.Fail = evid.Failf(sig("decode-error"), "Decode of the encoded tag: %v\n%s", err, raw)
		return res
	}
	fail := func(field, d string) evid.Result {
		res.Fail = evid.Failf(sig(field), "%s not preserved by Encode+Decode: %s\nencoded:\n%s", field, d, raw)
		return res
	}
	switch {
	case in.Name != out.Name:
		return fail("Name", fmt.Sprintf("%q -> %q", in.Name, out.Name))
	case in.Target != out.Target:
		return fail("Target", fmt.Sprintf("%s -> %s", in.Target, out.Target))
	case in.TargetType != out.TargetType:
		return fail("TargetType", fmt.Sprintf("%s -> %s", in.TargetType, out.TargetType))
	case in.Message != out.Message:
		return fail("Message", fmt.Sprintf("%q -> %q", in.Message, out.Message))
	case in.Signature != out.Signature:
		return fail("Signature", fmt.Sprintf("%q -> %q", in.Signature, out.Signature))
	case in.SignatureSHA256 != out.SignatureSHA256:
		return fail("SignatureSHA256", fmt.Sprintf("%q -> %q", in.SignatureSHA256, out.SignatureSHA256))
	}
	if c.Tagger == nil {
		if !out.Tagger.When.IsZero() || out.Tagger.Name != "" || out.Tagger.Email != "" {
			return fail("Tagger", fmt.Sprintf("zero -> %+v", out.Tagger))
		}
	} else if d := sameIdent(in.Tagger, out.Tagger); d != "" {
		return fail("ident."+strings.Fields(d)[0], "tagger "+d)
	}
	return res
}

func TestC02Struct(t *testing.T) {
	evid.Run(t, evid.Spec[SCase]{ID: "C02", Gen: genStruct, Check: checkStruct})
}
