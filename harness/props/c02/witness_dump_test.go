package c02

import (
	"encoding/json"
	"fmt"
	"os"
	"path/filepath"
	"regexp"
	"sort"
	"strings"
	"testing"
)

// what describes, per structural feature, what fails (text of the known-findings line).
var what = map[string]string{
	"ident-blanks":                "identity line with extra blanks around the name is not reproduced: Decode trims, Encode writes single spaces",
	"tz-minus-zero":               "zone -0000 is re-encoded as +0000",
	"tz-mm-ge-60":                 "zone with minutes >= 60 such as +0060 is re-encoded normalised (+0100)",
	"tz-neg-subhour":              "zone -00MM (git commit-tree/mktag write it when asked) loses its sign: Signature.decodeTimeAndTimeZone tests hours<0, and -00 parses as 0",
	"ident-no-brackets":           "identity without <email> is dropped by Decode and re-encoded as ' <> 0 +0000'",
	"ident-multi-brackets":        "identity with several < or > is split at the last < and > and not reproduced",
	"ident-name-empty":            "identity with empty name is re-encoded with an extra space",
	"ident-no-space-before-email": "'Name<email>' is re-encoded as 'Name <email>'",
	"ident-no-date":               "identity without date is re-encoded with '0 +0000'",
	"ident-no-space-before-date":  "text glued to '>' before the date is lost, date re-encoded as '0 +0000'",
	"ts-negative":                 "negative timestamp is re-encoded as 0",
	"ts-overflow":                 "timestamp beyond int64 is re-encoded as 0",
	"ts-zero-padded":              "zero-padded timestamp is re-encoded unpadded",
	"ts-malformed":                "non-numeric timestamp is re-encoded as '0 +0000'",
	"tz-malformed":                "zone that is not [+-]HHMM (short, long, trailing text) is not reproduced",
	"encoding-explicit-UTF-8":     "explicit 'encoding UTF-8' header is dropped by Encode",
	"encoding-empty":              "'encoding' header with empty value is dropped by Encode",
	"dup-encoding":                "second 'encoding' header is dropped",
	"hdr-order":                   "headers after committer in an order other than encoding, extra headers, gpgsig, gpgsig-sha256 are re-encoded in that fixed order",
	"dup-gpgsig":                  "several gpgsig headers are merged into one on re-encode",
	"dup-gpgsig-sha256":           "several gpgsig-sha256 headers are merged into one on re-encode",
	"sig-no-space":                "'gpgsig' header line without value is re-encoded with a trailing space",
	"extra-empty-value":           "extra header 'key ' (empty value) is re-encoded as 'key'",
	"extra-trailing-empty-line":   "extra header whose value ends in empty continuation lines loses them (ExtraHeader value is right-trimmed)",
	"extra-only-empty-lines":      "extra header whose value is only empty continuation lines is re-encoded as the bare key",
	"no-blank-line":               "object without the blank separator line is re-encoded with one",
	"unterminated-last-header:std":   "object ending in an unterminated standard header line is re-encoded with newline and blank line",
	"unterminated-last-header:sig":   "object ending in an unterminated signature header line is re-encoded with newline and blank line",
	"unterminated-last-header:extra": "object ending in an unterminated extra header line: Decode drops that header (scanHeaders returns at EOF before finaliseExtra)",
	"std-header-late":             "a tree/parent/author/committer (object/type/tag/tagger) header repeated after its canonical slot is dropped",
	"author-late":                 "author header after committer is ignored by Decode although git reports it",
	"committer-late":              "committer header not right after author is ignored by Decode although git reports it",
	"author-missing":              "commit without author is re-encoded with 'author  <> 0 +0000'",
	"committer-missing":           "commit without committer is re-encoded with 'committer  <> 0 +0000'",
	"hash-uppercase":              "upper-case hex object id is re-encoded in lower case",
	"tag-extra-header":            "tag header other than object/type/tag/tagger/gpgsig-sha256 is dropped",
	"tag-gpgsig-header":           "'gpgsig' header in a tag is dropped",
	"tag-name-empty":              "tag with empty name: 'tag' line without value is re-encoded as 'tag '",
}

var sigRe = regexp.MustCompile(`^C02/([^/]+)/([^/]+)/([^/+]+)$`)

// TestC02DumpWitnesses is authoring tooling, not a check: with C02_DUMP=<dir> it
// evaluates the fixed corpus and writes, for every failing single-feature
// signature, the first (smallest) failing case as a witness file plus a
// known-findings line. It never runs under the driver (C02_DUMP unset -> skip).
func TestC02DumpWitnesses(t *testing.T) {
	dir := os.Getenv("C02_DUMP")
	if dir == "" {
		t.Skip("authoring tool; set C02_DUMP")
	}
	os.MkdirAll(filepath.Join(dir, "known"), 0o755)
	type w struct {
		sig, test, file, line string
		size                  int
	}
	best := map[string]w{}
	put := func(sig, test string, c any, size int) {
		verdict := ""
		if cc, ok := c.(Case); ok {
			d := scratch()
			newRepo(d, cc.Fmt)
			oid, _ := storeRaw(d, cc, analyze(cc), cc.Raw())
			verdict = "[git fsck of this object: " + fsckClass(d, oid) + "] "
			os.RemoveAll(d)
		}
		mm := sigRe.FindStringSubmatch(sig)
		if mm == nil {
			fmt.Printf("NOT-SINGLE %s\n", sig)
			return
		}
		if b, ok := best[sig]; ok && b.size <= size {
			return
		}
		cj, _ := json.Marshal(c)
		body, _ := json.MarshalIndent(map[string]any{"property": "C02", "test": test, "sig": sig, "case": json.RawMessage(cj)}, "", " ")
		name := strings.NewReplacer("/", "_", ":", "-").Replace(strings.TrimPrefix(sig, "C02/")) + ".case.json"
		desc := what[mm[3]]
		if desc == "" {
			desc = "UNDESCRIBED " + mm[3]
		}
		part := mm[2]
		switch {
		case strings.HasPrefix(part, "reencode"):
			desc = "Decode+Encode: " + desc
		case strings.HasPrefix(part, "model"):
			desc = "decoded fields differ from the object's headers: " + desc
		case strings.HasPrefix(part, "git"):
			desc = "decoded fields differ from git's own report: " + desc
		default:
			desc = "Encode+Decode of a well-formed struct: " + desc
		}
		best[sig] = w{sig: sig, test: test, file: name, size: size,
			line: fmt.Sprintf("open: property=C02 sig=%s replay=replays/C02/known/%s %s%s", sig, name, verdict, desc)}
		os.WriteFile(filepath.Join(dir, "known", name), append(body, '\n'), 0o644)
	}
	for _, base := range shapes() {
		for _, mode := range []string{"reencode", "model", "git"} {
			c := base
			c.Mode = mode
			res := check(c)
			if mode == "git" {
				for _, l := range res.Labels {
					if strings.HasPrefix(l, "git:fsck-") || l == "git:hash-object-needs-literally" {
						fmt.Printf("FSCK %s %s\n", featStr(analyze(c)), l)
					}
				}
			}
			if res.Fail != nil {
				test := map[string]string{"reencode": "TestC02Reencode", "model": "TestC02Model", "git": "TestC02Git"}[mode]
				put(res.Fail.Sig, test, c, len(c.Raw()))
			}
		}
	}
	for _, tz := range []int{-30} {
		sc := SCase{Kind: "commit", Fmt: "sha1", Tree: h40, Author: SIdent{Name: "A", Email: "a@b", TZMin: tz}, Committer: SIdent{Name: "A", Email: "a@b"}, Msg: "m\n"}
		if res := checkStruct(sc); res.Fail != nil {
			put(res.Fail.Sig, "TestC02Struct", sc, 1)
		}
	}
	var sigs []string
	for s := range best {
		sigs = append(sigs, s)
	}
	sort.Strings(sigs)
	var sb strings.Builder
	for _, s := range sigs {
		sb.WriteString(best[s].line + "\n")
	}
	os.WriteFile(filepath.Join(dir, "C02.txt"), []byte(sb.String()), 0o644)
	fmt.Printf("%d witnesses\n", len(sigs))
}
