// Package c03 decides C03: the payload and the signature go-git extracts from a
// stored commit or tag are the ones git hands to its verifier.
//
// Oracle: `git verify-commit` / `git verify-tag` run with gpg.program,
// gpg.x509.program and gpg.ssh.program pointed at a script that records its
// standard input (the payload) and the signature file it is given. go-git's
// side is EncodeWithoutSignature and the Signature / SignatureSHA256 field that
// belongs to the repository's hash algorithm (commits) or the trailing
// Signature (tags). When git finds no signature go-git must extract none.
// Cases flagged Real carry a genuine OpenPGP signature over a fixed base
// payload (made once with a throw-away key, embedded in realsig_test.go) plus
// headers git leaves out of the payload: when git hands its verifier exactly
// that payload and signature, go-git's Verify must accept the object, and it
// must reject it once the message is altered.
// Mutated cases change an exported field after Decode; the reference is git's
// payload for the object obtained by Encode-ing the mutated struct.
package c03

import (
	"bytes"
	"fmt"
	"io"
	"os"
	"path/filepath"
	"sort"
	"strings"
	"sync"
	"testing"

	"github.com/go-git/go-git/v6/plumbing"
	"github.com/go-git/go-git/v6/plumbing/object"
	"pgregory.net/rapid"

	"verif/harness/lib/evid"
	"verif/harness/lib/gitx"
)

// ---------------------------------------------------------------- scratch, template, fake verifier, key

func scratch() string {
	base := os.Getenv("VERIF_SCRATCH")
	if base == "" {
		base = "/dev/shm"
	}
	d, err := os.MkdirTemp(base, "c03-")
	if err != nil {
		panic("INFRA: scratch: " + err.Error())
	}
	return d
}

const fakeVerifier = `#!/bin/sh
# Stands in for gpg, gpgsm and ssh-keygen while git verifies: records argv, the
# signature file and the payload (stdin), then reports a good signature.
p="$C03_OUT/$$"
printf '%s\n' "$@" > "$p.argv"
prev=""
for a in "$@"; do
  case "$prev" in --verify|-s) cat "$a" > "$p.sig";; esac
  prev="$a"
done
case " $* " in
*" find-principals "*) echo "principal@example.invalid"; exit 0;;
*" -Y verify "*) cat > "$p.payload"; echo 'Good "git" signature for principal@example.invalid with ED25519 key SHA256:fake'; exit 0;;
esac
cat > "$p.payload"
echo "[GNUPG:] GOODSIG 0123456789ABCDEF Fake Signer <fake@example.invalid>"
echo "[GNUPG:] VALIDSIG 0123456789ABCDEF0123456789ABCDEF01234567 2024-01-01 1700000000 0 4 0 1 8 00 0123456789ABCDEF0123456789ABCDEF01234567"
echo "[GNUPG:] TRUST_ULTIMATE 0 pgp"
exit 0
`

var (
	tmplOnce sync.Once
	tmplDir  string
)

func setup() {
	tmplOnce.Do(func() {
		tmplDir = scratch()
		gitx.Init(filepath.Join(tmplDir, "sha1"), false, "sha1")
		gitx.Init(filepath.Join(tmplDir, "sha256"), false, "sha256")
		if err := os.WriteFile(filepath.Join(tmplDir, "fake-verifier"), []byte(fakeVerifier), 0o755); err != nil {
			panic("INFRA: " + err.Error())
		}
		if err := os.WriteFile(filepath.Join(tmplDir, "allowed-signers"), nil, 0o644); err != nil {
			panic("INFRA: " + err.Error())
		}
	})
}

func newRepo(dir, format string) {
	setup()
	src := filepath.Join(tmplDir, format)
	err := filepath.Walk(src, func(p string, fi os.FileInfo, err error) error {
		if err != nil {
			return err
		}
		rel, _ := filepath.Rel(src, p)
		if fi.IsDir() {
			return os.MkdirAll(filepath.Join(dir, rel), 0o755)
		}
		b, err := os.ReadFile(p)
		if err != nil {
			return err
		}
		return os.WriteFile(filepath.Join(dir, rel), b, 0o644)
	})
	if err != nil {
		panic("INFRA: copy template repository: " + err.Error())
	}
}

func TestMain(m *testing.M) {
	rc := m.Run()
	if tmplDir != "" {
		os.RemoveAll(tmplDir)
	}
	os.Exit(rc)
}

// ---------------------------------------------------------------- git side

type gitAnswer struct {
	invoked bool
	payload []byte
	sig     []byte
	why     string // when not invoked: no-signature | git-refuses
	stderr  string
}

func hasHeaderLine(raw []byte, prefix string) bool {
	for _, l := range strings.SplitAfter(string(raw), "\n") {
		if l == "\n" {
			return false
		}
		if strings.HasPrefix(l, prefix) {
			return true
		}
	}
	return false
}

func askGit(dir, kind, sigKey string, raw []byte) gitAnswer {
	oid := strings.TrimSpace(gitx.MustIn(dir, raw, "hash-object", "-w", "-t", kind, "--literally", "--stdin"))
	out := filepath.Join(dir, "verifier-out")
	if err := os.MkdirAll(out, 0o755); err != nil {
		panic("INFRA: " + err.Error())
	}
	fv := filepath.Join(tmplDir, "fake-verifier")
	sub := "verify-commit"
	if kind == "tag" {
		sub = "verify-tag"
	}
	r, err := gitx.Run(gitx.Cmd{Dir: dir, Env: []string{"C03_OUT=" + out}, Args: []string{
		"-c", "gpg.program=" + fv, "-c", "gpg.x509.program=" + fv, "-c", "gpg.ssh.program=" + fv,
		"-c", "gpg.ssh.allowedSignersFile=" + filepath.Join(tmplDir, "allowed-signers"), sub, oid}})
	if err != nil {
		panic("INFRA: " + err.Error())
	}
	a := gitAnswer{stderr: string(r.Err)}
	ents, _ := os.ReadDir(out)
	var names []string
	for _, e := range ents {
		names = append(names, e.Name())
	}
	sort.Strings(names)
	for _, n := range names {
		if strings.HasSuffix(n, ".payload") {
			p, err1 := os.ReadFile(filepath.Join(out, n))
			s, err2 := os.ReadFile(filepath.Join(out, strings.TrimSuffix(n, ".payload")+".sig"))
			if err1 != nil || err2 != nil {
				panic(fmt.Sprintf("INFRA: fake verifier output incomplete: %v %v", err1, err2))
			}
			if a.invoked && (!bytes.Equal(a.payload, p) || !bytes.Equal(a.sig, s)) {
				panic("INFRA: git invoked the verifier twice with different inputs")
			}
			a.invoked, a.payload, a.sig = true, p, s
		}
	}
	os.RemoveAll(out)
	if !a.invoked {
		switch {
		case r.Code == 0:
			panic("INFRA: verify succeeded without invoking the verifier: " + a.stderr)
		case kind == "tag" && strings.Contains(a.stderr, "no signature found"):
			a.why = "no-signature"
		case kind == "commit" && !hasHeaderLine(raw, sigKey+" "):
			// no header line of the repository's signature key before the first empty line: nothing to extract.
			// (verify-commit is equally silent when it gives up before calling the verifier, e.g. for a payload
			// without committer line, so silence alone does not mean "no signature".)
			a.why = "no-signature"
		default:
			a.why = "git-refuses"
		}
	}
	return a
}

// ---------------------------------------------------------------- generator

const h40 = "4b825dc642cb6eb9a060e54bf8d69288fbee4904"

func hashFor(format, h string) string {
	if format == "sha256" {
		return h + h[:24]
	}
	return h
}

var armors = []string{
	"-----BEGIN PGP SIGNATURE-----\n\niQEzBAABCAAdFiEE\n=AbCd\n-----END PGP SIGNATURE-----",
	"-----BEGIN PGP SIGNATURE-----\nVersion: GnuPG v1\n\nwsBcBAABCAAQBQJ\n-----END PGP SIGNATURE-----",
	"-----BEGIN SSH SIGNATURE-----\nU1NIU0lHAAAAAQAAADMAAAALc3NoLWVkMjU1MTkAAAAg\nAAAAB3NzaC1lZDI1NTE5\n-----END SSH SIGNATURE-----",
	"-----BEGIN SIGNED MESSAGE-----\nMIIDzgYJKoZIhvcNAQcCoIIDvzCCA7sCAQExDTALBglghkgBZQMEAgEwCwYJKoZI\n-----END SIGNED MESSAGE-----",
	"-----BEGIN PGP MESSAGE-----\n\nowEBbQGS/pANAwAKAR\n-----END PGP MESSAGE-----",
}

var extraKeys = []string{"mergetag", "foo", "HG:extra", "gpgsigx", "gpgsig-sha512", "gpgsig-sha1", "gpgsig256", "Gpgsig"}
var extraVals = []string{"bar", "multi\nline", "a\n\nb", "-----BEGIN PGP SIGNATURE-----\nabc\n-----END PGP SIGNATURE-----", "x\n leading space"}
var texts = []string{"subject\n", "\n", "body line\n", "no newline", "Signed-off-by: A <a@b>\n", "gpgsig fake\n continued\n", " -----BEGIN PGP SIGNATURE-----\n", "x-----BEGIN PGP SIGNATURE-----\n", "-----END PGP SIGNATURE-----\n", "caf\xe9\n"}

// A confirmed-open finding whose signature names exactly one feature switches
// that feature off in the generator (see c02 for the protocol).
var guardedFeatures = func() map[string]bool {
	g := map[string]bool{}
	for _, s := range strings.Split(os.Getenv("VERIF_KNOWN"), "\x1f") {
		p := strings.Split(s, "/")
		if len(p) != 4 || p[0] != "C03" {
			continue
		}
		if p[2] == "verify-ignores-gpgsig-sha256" {
			g["commit/real:sha256"] = true // Commit.Verify cannot succeed there: no Real commits in SHA-256 repositories
		} else if f, ok := strings.CutPrefix(p[2], "verify-rejects-valid-signature:"); ok && p[3] == "plain" {
			g[p[1]+"/real:"+f] = true
		} else if !strings.Contains(p[3], "+") && p[3] != "plain" {
			g[p[1]+"/"+p[3]] = true
		}
	}
	return g
}()

func gen(t *rapid.T, _ *evid.Recorder) Case {
	for try := 0; ; try++ {
		c := gen1(t, try >= 3)
		ok := true
		for _, f := range analyze(c).features {
			if guardedFeatures[c.Kind+"/"+f] {
				ok = false
			}
		}
		if c.Real && guardedFeatures[c.Kind+"/real:"+c.Fmt] {
			ok = false
		}
		if ok || try >= 4 {
			return c
		}
	}
}

func gen1(t *rapid.T, plain bool) Case {
	c := Case{Fmt: rapid.SampledFrom([]string{"sha1", "sha256"}).Draw(t, "fmt"), Kind: rapid.SampledFrom([]string{"commit", "commit", "tag"}).Draw(t, "kind")}
	pick := func(l string, p int) bool { return !plain && rapid.IntRange(0, p-1).Draw(t, l) == p-1 }
	match, other := "gpgsig", "gpgsig-sha256"
	if c.Fmt == "sha256" {
		match, other = other, match
	}
	text := func(l string, max int) string {
		var sb strings.Builder
		for i, n := 0, rapid.IntRange(0, max).Draw(t, l+"n"); i < n; i++ {
			sb.WriteString(rapid.SampledFrom(texts).Draw(t, l))
		}
		return sb.String()
	}
	if !plain && rapid.IntRange(0, 4).Draw(t, "real") == 4 {
		return genReal(t, c, match, other)
	}
	if c.Kind == "commit" {
		c.H = []Hdr{{K: "tree", V: hashFor(c.Fmt, h40)}}
		for i, n := 0, rapid.SampledFrom([]int{0, 1, 1, 2}).Draw(t, "np"); i < n; i++ {
			c.H = append(c.H, Hdr{K: "parent", V: hashFor(c.Fmt, "1111111111111111111111111111111111111111")})
		}
		c.H = append(c.H, Hdr{K: "author", V: "A U Thor <author@example.com> 1700000000 +0100"}, Hdr{K: "committer", V: "C O Mitter <committer@example.com> 1700000001 -0500"})
		if rapid.IntRange(0, 3).Draw(t, "hasenc") == 3 {
			c.H = append(c.H, Hdr{K: "encoding", V: "ISO-8859-1"})
		}
		for i, n := 0, rapid.SampledFrom([]int{0, 0, 1, 1, 2}).Draw(t, "nx"); i < n; i++ {
			k := "mergetag"
			if !plain {
				k = rapid.SampledFrom(extraKeys).Draw(t, "xkey")
			}
			c.H = append(c.H, Hdr{K: k, V: rapid.SampledFrom(extraVals).Draw(t, "xval")})
		}
		nsig := rapid.SampledFrom([]int{1, 1, 1, 0, 0, 2, 2, 3}).Draw(t, "nsig")
		if plain && nsig > 1 {
			nsig = 1
		}
		canonical := plain || rapid.IntRange(0, 9).Draw(t, "place") < 5
		for i := 0; i < nsig; i++ {
			h := Hdr{K: match, V: rapid.SampledFrom(armors).Draw(t, "armor")}
			if pick("otheralgo", 4) {
				h.K = other
			}
			switch {
			case pick("flat", 12):
				h.Flat = true
			case pick("nosp", 16):
				h = Hdr{K: h.K, NoSp: true}
			}
			pos := len(c.H)
			if !canonical {
				pos = rapid.IntRange(1, len(c.H)).Draw(t, "sigpos")
			}
			c.H = append(c.H[:pos:pos], append([]Hdr{h}, c.H[pos:]...)...)
		}
		c.Msg = text("msg", 3)
		if pick("armourmsg", 8) {
			c.Msg += rapid.SampledFrom(armors).Draw(t, "msgarmor") + "\n"
		}
	} else {
		c.H = []Hdr{{K: "object", V: hashFor(c.Fmt, h40)}, {K: "type", V: "commit"}, {K: "tag", V: rapid.SampledFrom([]string{"v1.0", "rel/2", "x y"}).Draw(t, "tname")},
			{K: "tagger", V: "T Agger <tagger@example.com> 1700000002 +0000"}}
		// git 2.39.5 strips signature headers from a tag payload with remove_signature, which keeps two
		// slots and overwrites the current one for adjacent headers, and lets a following gpgsig-prefixed
		// header extend the removed region: with more than one such header the reference itself is erratic,
		// so tags carry at most one signature header and then no other gpgsig-prefixed header.
		if pick("hsig", 3) {
			h := Hdr{K: rapid.SampledFrom([]string{"gpgsig-sha256", "gpgsig"}).Draw(t, "hsigk"), V: rapid.SampledFrom(armors).Draw(t, "harmor")}
			pos := rapid.IntRange(3, len(c.H)).Draw(t, "hsigpos")
			c.H = append(c.H[:pos:pos], append([]Hdr{h}, c.H[pos:]...)...)
		} else if pick("txh", 6) {
			c.H = append(c.H, Hdr{K: rapid.SampledFrom(extraKeys).Draw(t, "xkey"), V: rapid.SampledFrom(extraVals).Draw(t, "xval")})
		}
		c.Msg = text("msg", 3)
		nb := rapid.SampledFrom([]int{1, 1, 1, 0, 0, 2, 3}).Draw(t, "nblocks")
		if plain && nb > 1 {
			nb = 1
		}
		{
			for i := 0; i < nb; i++ {
				if c.Msg != "" && !strings.HasSuffix(c.Msg, "\n") && !pick("glued", 10) {
					c.Msg += "\n"
				}
				c.Msg += rapid.SampledFrom(armors).Draw(t, "barmor")
				if !pick("noeol", 12) {
					c.Msg += "\n"
				}
				if i < nb-1 || pick("after", 5) {
					c.Msg += text("between", 2)
				}
			}
		}
	}
	if !plain && !c.Real && rapid.IntRange(0, 6).Draw(t, "mutate") == 6 {
		fields := []string{"Message", "AuthorName", "ExtraHeader", "Parent", "Signature"}
		if c.Kind == "tag" {
			fields = []string{"Message", "TagName", "TaggerName", "Signature"}
		}
		c.Mut = &Mutation{Field: rapid.SampledFrom(fields).Draw(t, "mutfield"), Value: rapid.SampledFrom([]string{"x", "changed value", "two\nlines\n", "gpgsig inside"}).Draw(t, "mutval")}
	}
	return c
}

// baseObject returns the headers and body whose rendering is realPayload[kind/format].
func baseObject(kind, format string) ([]Hdr, string) {
	if kind == "commit" {
		return []Hdr{{K: "tree", V: hashFor(format, h40)}, {K: "parent", V: hashFor(format, "1111111111111111111111111111111111111111")},
			{K: "author", V: "A U Thor <author@example.com> 1700000000 +0100"}, {K: "committer", V: "C O Mitter <committer@example.com> 1700000001 -0500"},
			{K: "encoding", V: "ISO-8859-1"}, {K: "mergetag", V: "bar\nsecond line"}}, "signed commit\n\nbody caf\xe9\n"
	}
	return []Hdr{{K: "object", V: hashFor(format, h40)}, {K: "type", V: "commit"}, {K: "tag", V: "v1.0"},
		{K: "tagger", V: "T Agger <tagger@example.com> 1700000002 +0000"}}, "signed tag\n\nbody\n"
}

// genReal: the base object with its genuine signature, the signature header at
// any position, plus headers that git leaves out of the payload.
func genReal(t *rapid.T, c Case, match, other string) Case {
	c.Real = true
	c.H, c.Msg = baseObject(c.Kind, c.Fmt)
	insert := func(h Hdr, lo int, l string) {
		pos := len(c.H)
		if rapid.Bool().Draw(t, l+"any") {
			pos = rapid.IntRange(lo, len(c.H)).Draw(t, l)
		}
		c.H = append(c.H[:pos:pos], append([]Hdr{h}, c.H[pos:]...)...)
	}
	if c.Kind == "commit" {
		insert(Hdr{K: match, V: realToken}, 1, "sigpos")
		for i, n := 0, rapid.SampledFrom([]int{0, 0, 1, 1, 2}).Draw(t, "nnoise"); i < n; i++ {
			switch rapid.IntRange(0, 2).Draw(t, "noise") {
			case 0:
				insert(Hdr{K: other, V: rapid.SampledFrom(armors).Draw(t, "narmor")}, 1, "npos")
			case 1:
				insert(Hdr{K: rapid.SampledFrom([]string{"gpgsigx", "gpgsig-sha512", "gpgsig-sha1"}).Draw(t, "nkey"), V: rapid.SampledFrom(extraVals).Draw(t, "nval")}, 4, "npos")
			case 2:
				insert(Hdr{K: other, NoSp: true}, 4, "npos")
			}
		}
		return c
	}
	c.Msg += realToken + "\n"
	if rapid.IntRange(0, 2).Draw(t, "noise") == 2 { // one signature header at most, see gen1
		insert(Hdr{K: rapid.SampledFrom([]string{"gpgsig-sha256", "gpgsig"}).Draw(t, "nkey"), V: rapid.SampledFrom(armors).Draw(t, "narmor")}, 4, "npos")
	}
	return c
}

// ---------------------------------------------------------------- oracle

func featStr(s shape) string {
	if len(s.features) == 0 {
		return "plain"
	}
	f := append([]string(nil), s.features...)
	sort.Strings(f)
	return strings.Join(f, "+")
}

func objBytes(o plumbing.EncodedObject) []byte {
	r, err := o.Reader()
	if err != nil {
		panic("INFRA: memory object reader: " + err.Error())
	}
	defer r.Close()
	b, _ := io.ReadAll(r)
	return b
}

func memObj(t plumbing.ObjectType, raw []byte) *plumbing.MemoryObject {
	o := &plumbing.MemoryObject{}
	o.SetType(t)
	o.Write(raw)
	return o
}

// decoded wraps a commit or a tag.
type decoded struct {
	cm *object.Commit
	tg *object.Tag
}

func decode(kind string, raw []byte) (decoded, error) {
	if kind == "commit" {
		c := &object.Commit{}
		return decoded{cm: c}, c.Decode(memObj(plumbing.CommitObject, raw))
	}
	t := &object.Tag{}
	return decoded{tg: t}, t.Decode(memObj(plumbing.TagObject, raw))
}

func (d decoded) payload() ([]byte, error) {
	o := &plumbing.MemoryObject{}
	var err error
	if d.cm != nil {
		err = d.cm.EncodeWithoutSignature(o)
	} else {
		err = d.tg.EncodeWithoutSignature(o)
	}
	return objBytes(o), err
}

func (d decoded) encode() ([]byte, error) {
	o := &plumbing.MemoryObject{}
	var err error
	if d.cm != nil {
		err = d.cm.Encode(o)
	} else {
		err = d.tg.Encode(o)
	}
	return objBytes(o), err
}

// signature returns the field a verifier for a repository of this format is given.
func (d decoded) signature(format string) string {
	if d.tg != nil {
		return d.tg.Signature
	}
	if format == "sha256" {
		return d.cm.SignatureSHA256
	}
	return d.cm.Signature
}

func (d decoded) verify(ring string) error {
	var err error
	if d.cm != nil {
		_, err = d.cm.Verify(ring)
	} else {
		_, err = d.tg.Verify(ring)
	}
	return err
}

func (d decoded) mutate(m Mutation, format string) bool {
	v := m.Value
	oneLine := strings.ReplaceAll(strings.TrimSpace(v), "\n", " ")
	switch {
	case d.cm != nil && m.Field == "Message":
		d.cm.Message += v
	case d.cm != nil && m.Field == "AuthorName":
		d.cm.Author.Name = oneLine
	case d.cm != nil && m.Field == "ExtraHeader":
		d.cm.ExtraHeaders = append(d.cm.ExtraHeaders, object.ExtraHeader{Key: "x-added", Value: strings.TrimRight(v, "\n")})
	case d.cm != nil && m.Field == "Parent":
		h, _ := plumbing.FromHex(hashFor(format, "e69de29bb2d1d6434b8b29ae775ad8c2e48c5391"))
		d.cm.ParentHashes = append(d.cm.ParentHashes, h)
	case d.cm != nil && m.Field == "Signature":
		d.cm.Signature, d.cm.SignatureSHA256 = "mutated\n", "mutated\n"
	case d.tg != nil && m.Field == "Message":
		if !strings.HasSuffix(v, "\n") { // Tag.Encode documents that the message must end in a newline before a signature
			v += "\n"
		}
		d.tg.Message = v + d.tg.Message
	case d.tg != nil && m.Field == "TagName":
		d.tg.Name = oneLine
	case d.tg != nil && m.Field == "TaggerName":
		d.tg.Tagger.Name = oneLine
	case d.tg != nil && m.Field == "Signature":
		d.tg.Signature, d.tg.SignatureSHA256 = "mutated\n", "mutated\n"
	default:
		return false
	}
	return true
}

func abbrev(b []byte) string { return fmt.Sprintf("%q", b) }

func check(c Case) evid.Result {
	if !c.inDomain() {
		return evid.Result{Discard: true}
	}
	sh := analyze(c)
	res := evid.Result{Labels: []string{"kind:" + c.Kind, "fmt:" + c.Fmt, fmt.Sprintf("sig-headers:%d", sh.nSigHdr)}}
	for _, f := range sh.features {
		res.Labels = append(res.Labels, "f:"+f)
	}
	if len(sh.features) == 0 {
		res.Labels = append(res.Labels, "f:plain")
	}
	if c.Kind == "tag" {
		res.Labels = append(res.Labels, fmt.Sprintf("body-blocks:%d", sh.nBody))
	}
	if c.Real {
		res.Labels = append(res.Labels, "real-signature")
	}
	nsig := sh.nSigHdr + sh.nBody
	res.NonTrivial = nsig > 0 && (len(sh.features) > 0 || nsig > 1 || c.Real)
	sig := func(part string) string { return "C03/" + c.Kind + "/" + part + "/" + featStr(sh) }

	raw := c.Raw()
	d, err := decode(c.Kind, raw)
	if err != nil {
		res.Fail = evid.Failf(sig("decode-error"), "Decode: %v\n%s", err, raw)
		return res
	}
	stored := raw
	sigMutated := false
	if c.Mut != nil {
		if !d.mutate(*c.Mut, c.Fmt) {
			return evid.Result{Discard: true}
		}
		if c.Mut.Field == "Signature" {
			sigMutated = true // the payload does not depend on the signature fields: reference stays the stored object
		} else {
			stored, err = d.encode()
			if err != nil {
				res.Fail = evid.Failf(sig("encode-error"), "Encode of the mutated object: %v", err)
				return res
			}
		}
	}
	goPayload, err := d.payload()
	if err != nil {
		res.Fail = evid.Failf(sig("payload-error"), "EncodeWithoutSignature: %v\n%s", err, raw)
		return res
	}
	goSig := d.signature(c.Fmt)

	dir := scratch()
	defer os.RemoveAll(dir)
	newRepo(dir, c.Fmt)
	sigKey := "gpgsig"
	if c.Fmt == "sha256" {
		sigKey = "gpgsig-sha256"
	}
	g := askGit(dir, c.Kind, sigKey, stored)
	switch {
	case g.invoked:
		res.Labels = append(res.Labels, "git:verifier-invoked")
		if !bytes.Equal(goPayload, g.payload) {
			res.Fail = evid.Failf(sig("payload"), "payload differs.\n--- stored object\n%s\n--- git hands its verifier\n%s\n--- go-git EncodeWithoutSignature\n%s", stored, abbrev(g.payload), abbrev(goPayload))
			return res
		}
		if !sigMutated && goSig != string(g.sig) {
			res.Fail = evid.Failf(sig("signature"), "signature differs.\n--- stored object\n%s\n--- git hands its verifier\n%s\n--- go-git field\n%s", stored, abbrev(g.sig), abbrev([]byte(goSig)))
			return res
		}
	case g.why == "no-signature":
		res.Labels = append(res.Labels, "git:no-signature")
		if !sigMutated && goSig != "" {
			res.Fail = evid.Failf(sig("signature-where-git-finds-none"), "git finds no signature (%q) but go-git extracts %q\n%s", g.stderr, goSig, stored)
			return res
		}
	default:
		res.Labels = append(res.Labels, "git:refuses-signature")
		return res
	}
	if !c.Real || !g.invoked {
		return res
	}
	// ---- git is handed the genuine signature and the payload it was made over: git accepts, so must Verify
	k := c.Kind + "/" + c.Fmt
	if string(g.payload) != realPayload[k] || string(g.sig) != realSig[k]+"\n" {
		res.Labels = append(res.Labels, "real:git-sees-other-payload-or-signature")
		return res
	}
	res.Labels = append(res.Labels, "real:git-accepts")
	if err := d.verify(pubRing); err != nil {
		if d.cm != nil && c.Fmt == "sha256" && d.cm.SignatureSHA256 == realSig[k]+"\n" {
			// narrow cause, whatever else the object carries: Commit.Verify only reads the gpgsig field
			res.Fail = evid.Failf("C03/commit/verify-ignores-gpgsig-sha256/sha256-repository", "the commit is signed under gpgsig-sha256 (what git writes and verifies in a SHA-256 repository) with a valid OpenPGP signature; Commit.Verify returns: %v\n%s", err, raw)
			return res
		}
		res.Fail = evid.Failf("C03/"+c.Kind+"/verify-rejects-valid-signature:"+c.Fmt+"/"+featStr(sh), "the object carries a valid OpenPGP signature over the payload git verifies; Verify returns: %v\n%s", err, raw)
		return res
	}
	// and once the message is altered the same signature must be refused
	c2 := c
	c2.Msg = "x" + c.Msg
	if d2, err := decode(c.Kind, c2.Raw()); err == nil && d2.verify(pubRing) == nil {
		res.Fail = evid.Failf("C03/"+c.Kind+"/verify-accepts-altered-object:"+c.Fmt+"/"+featStr(sh), "Verify accepts the signature after the message was altered\n%s", c2.Raw())
	}
	return res
}

func TestC03(t *testing.T) {
	evid.Run(t, evid.Spec[Case]{ID: "C03", Gen: gen, Check: check})
}

// ---------------------------------------------------------------- fixed corpus

// shapes: one minimal object per structural feature (and the plain variants
// around them), evaluated on every run whatever rapid draws.
func shapes() []Case {
	const a, cm = "A <a@b> 1 +0000", "C <c@d> 2 +0000"
	pgp, ssh, x509, pgpmsg := armors[0], armors[2], armors[3], armors[4]
	commit := func(format string, hs ...Hdr) Case {
		c := Case{Kind: "commit", Fmt: format, Msg: "m\n"}
		c.H = append([]Hdr{{K: "tree", V: hashFor(format, h40)}, {K: "author", V: a}, {K: "committer", V: cm}}, hs...)
		return c
	}
	at := func(c Case, pos int, h Hdr) Case { // insert h at pos
		c.H = append(append(append([]Hdr(nil), c.H[:pos]...), h), c.H[pos:]...)
		return c
	}
	tag := func(format, msg string, hs ...Hdr) Case {
		c := Case{Kind: "tag", Fmt: format, Msg: msg}
		c.H = append([]Hdr{{K: "object", V: hashFor(format, h40)}, {K: "type", V: "commit"}, {K: "tag", V: "v1"}, {K: "tagger", V: a}}, hs...)
		return c
	}
	S := func(v string) Hdr { return Hdr{K: "gpgsig", V: v} }
	S2 := func(v string) Hdr { return Hdr{K: "gpgsig-sha256", V: v} }
	enc := Hdr{K: "encoding", V: "ISO-8859-1"}
	foo := Hdr{K: "foo", V: "bar\nbaz"}
	out := []Case{
		commit("sha1"), commit("sha1", enc, foo),
		commit("sha1", S(pgp)), commit("sha1", S(ssh)), commit("sha1", S(x509)), commit("sha1", S(pgpmsg)), commit("sha1", enc, foo, S(pgp)),
		at(commit("sha1"), 1, S(pgp)), at(commit("sha1"), 2, S(ssh)), at(commit("sha1", enc, foo), 3, S(pgp)), at(commit("sha1", enc, foo), 4, S(pgp)),
		commit("sha1", S(pgp), S(ssh)), commit("sha1", S(pgp), foo, S(pgp)), at(commit("sha1", S(pgp)), 1, S(ssh)), commit("sha1", S(pgp), S(ssh), S(x509)),
		commit("sha1", S2(pgp)), commit("sha1", S(pgp), S2(ssh)), commit("sha1", S2(ssh), S(pgp)), commit("sha1", S2(ssh), foo, S(pgp)),
		commit("sha256", S2(pgp)), commit("sha256", S(pgp)), commit("sha256", S(pgp), S2(ssh)), commit("sha256", S2(ssh), S(pgp)), at(commit("sha256", S2(pgp)), 1, S2(ssh)),
		commit("sha1", Hdr{K: "gpgsigx", V: "bar"}), commit("sha1", Hdr{K: "gpgsigx", V: "bar\nbaz"}, S(pgp)),
		commit("sha1", Hdr{K: "gpgsig-sha1", V: pgp}, S(pgp)), commit("sha1", Hdr{K: "Gpgsig", V: "bar"}, S(pgp)), commit("sha1", Hdr{K: "gpgsig256", V: "bar"}),
		commit("sha1", Hdr{K: "gpgsig", NoSp: true}), commit("sha1", Hdr{K: "gpgsig", NoSp: true}, S(pgp)), commit("sha1", Hdr{K: "gpgsig-sha256", NoSp: true}, S(pgp)), commit("sha256", Hdr{K: "gpgsig", NoSp: true}, S2(pgp)),
		commit("sha1", Hdr{K: "gpgsig", V: pgp, Flat: true}), commit("sha1", Hdr{K: "gpgsig", V: ssh, Flat: true}), commit("sha1", Hdr{K: "gpgsig", V: ssh, Flat: true}, foo),
	}
	msgArm := commit("sha1", S(pgp))
	msgArm.Msg = "m\n" + ssh + "\n"
	msgArm2 := commit("sha1")
	msgArm2.Msg = "m\n" + pgp + "\n"
	out = append(out, msgArm, msgArm2)
	for _, f := range []string{"Message", "AuthorName", "ExtraHeader", "Parent", "Signature"} {
		for _, base := range []Case{commit("sha1", enc, foo, S(pgp)), commit("sha256", S2(ssh)), commit("sha1", S(pgp), enc)} {
			base.Mut = &Mutation{Field: f, Value: "changed\n"}
			out = append(out, base)
		}
	}
	for _, format := range []string{"sha1", "sha256"} {
		match, other := "gpgsig", "gpgsig-sha256"
		if format == "sha256" {
			match, other = other, match
		}
		h, msg := baseObject("commit", format)
		r := Case{Kind: "commit", Fmt: format, Real: true, H: append(append([]Hdr(nil), h...), Hdr{K: match, V: realToken}), Msg: msg}
		out = append(out, r, at(r, 1, Hdr{K: other, V: ssh}))
		r2 := Case{Kind: "commit", Fmt: format, Real: true, Msg: msg}
		r2.H = append(append(append([]Hdr(nil), h[:3]...), Hdr{K: match, V: realToken}), h[3:]...)
		out = append(out, r2)
		th, tmsg := baseObject("tag", format)
		rt := Case{Kind: "tag", Fmt: format, Real: true, H: th, Msg: tmsg + realToken + "\n"}
		out = append(out, rt, at(rt, 4, Hdr{K: "gpgsig-sha256", V: ssh}), at(rt, 3, Hdr{K: "gpgsig", V: pgp}))
	}
	for _, format := range []string{"sha1", "sha256"} {
		out = append(out,
			tag(format, "m\n"), tag(format, ""), tag(format, "m\n"+pgp+"\n"), tag(format, "m\n"+ssh+"\n"), tag(format, "m\n"+x509+"\n"), tag(format, "m\n"+pgpmsg+"\n"), tag(format, pgp+"\n"),
			tag(format, "m\n"+pgp+"\n"+ssh+"\n"), tag(format, "m\n"+pgp+"\nmiddle\n"+x509+"\ntrailing\n"), tag(format, "m\n"+pgp+"\ntrailing text\n"), tag(format, "m\n"+pgp), tag(format, "m"+pgp+"\n"),
			tag(format, "m\n "+pgp+"\n"), tag(format, "m\n-----BEGIN PGP SIGNATURE-----\nno end line\n"), tag(format, "m\n-----END PGP SIGNATURE-----\n"),
			tag(format, "m\n"+pgp+"\n", S2(ssh)), tag(format, "m\n"+pgp+"\n", S(ssh)), tag(format, "m\n", S2(pgp)), tag(format, "m\n", S(pgp)), at(tag(format, "m\n"+pgp+"\n"), 3, S2(ssh)),
			tag(format, "m\n"+pgp+"\n", Hdr{K: "gpgsigx", V: "bar"}), tag(format, "m\n"+pgp+"\n", foo),
		)
	}
	for _, f := range []string{"Message", "TagName", "TaggerName", "Signature"} {
		for _, base := range []Case{tag("sha1", "m\n"+pgp+"\n"), tag("sha256", "m\n"+ssh+"\n", S2(pgp)), tag("sha1", "m\n"+pgp+"\ntrailing\n")} {
			base.Mut = &Mutation{Field: f, Value: "changed\n"}
			out = append(out, base)
		}
	}
	return out
}

func TestC03Shapes(t *testing.T) {
	if os.Getenv("VERIF_REPLAY") != "" {
		evid.Run(t, evid.Spec[Case]{ID: "C03", Check: check})
		return
	}
	r := evid.Open(t, "C03")
	shard, nshards := evid.Shard()
	n := 0
	for i, c := range shapes() {
		if i%nshards != shard {
			continue
		}
		n++
		evid.Each(t, r, check, c)
	}
	r.SetExhaustive()
	r.Extra["shapes"] = n
}
