package c03

import (
	"bytes"
	"encoding/base64"
	"encoding/json"
	"strings"
	"unicode/utf8"
)

// Hdr is one header: "K V\n" where every "\n" in V starts a continuation line
// ("\n "), or, when Flat, is written without the leading space (so the
// following lines stand as lines of their own, and an empty one ends the
// header block); "K\n" when NoSp.
type Hdr struct {
	K    string
	V    string
	NoSp bool `json:",omitempty"`
	Flat bool `json:",omitempty"`
}

// Mutation is applied to the decoded struct before the payload is asked for.
type Mutation struct {
	Field string // Message | AuthorName | ExtraHeader | Parent | TagName | Signature
	Value string
}

// Case is one stored commit or tag.
type Case struct {
	Kind string // commit | tag
	Fmt  string // sha1 | sha256
	H    []Hdr
	Msg  string
	Mut  *Mutation `json:",omitempty"`
	// Real: the object is the fixed base object of its kind and format (see
	// realsig_test.go) plus headers git leaves out of the payload, and the token
	// realToken stands for the genuine OpenPGP signature over that base payload:
	// git would accept it, so go-git's Verify must.
	Real bool `json:",omitempty"`
}

const realToken = "@@REAL-OPENPGP-SIGNATURE@@"

// Raw renders the object (realToken is replaced by the genuine armour of the kind and format).
func (c Case) Raw() []byte {
	sub := func(s string) string {
		if c.Real {
			return strings.ReplaceAll(s, realToken, realSig[c.Kind+"/"+c.Fmt])
		}
		return s
	}
	var b bytes.Buffer
	for _, h := range c.H {
		b.WriteString(h.K)
		if !h.NoSp {
			b.WriteByte(' ')
			v := sub(h.V)
			if h.Flat {
				b.WriteString(v)
			} else {
				b.WriteString(strings.ReplaceAll(v, "\n", "\n "))
			}
		}
		b.WriteByte('\n')
	}
	b.WriteByte('\n')
	b.WriteString(sub(c.Msg))
	return b.Bytes()
}

func (c Case) inDomain() bool {
	if (c.Kind != "commit" && c.Kind != "tag") || (c.Fmt != "sha1" && c.Fmt != "sha256") || len(c.H) == 0 {
		return false
	}
	for _, h := range c.H {
		if h.K == "" || strings.ContainsAny(h.K, " \n\x00") || strings.ContainsRune(h.V, 0) || (h.NoSp && (h.V != "" || h.Flat)) {
			return false
		}
	}
	if strings.ContainsRune(c.Msg, 0) {
		return false
	}
	if c.Kind == "tag" { // see gen1: the reference is erratic beyond one signature header in a tag
		nsig, npre := 0, 0
		for _, h := range c.H {
			if isSigKey(h.K) && !h.NoSp {
				nsig++
			} else if strings.HasPrefix(h.K, "gpgsig") {
				npre++
			}
		}
		if nsig > 1 || (nsig == 1 && npre > 0) {
			return false
		}
	}
	n := strings.Count(c.Msg, realToken)
	for _, h := range c.H {
		n += strings.Count(h.V, realToken)
	}
	if (c.Real && (n != 1 || c.Mut != nil)) || (!c.Real && n != 0) {
		return false
	}
	if c.Mut != nil && strings.ContainsAny(c.Mut.Value, "\x00<>") {
		return false
	}
	return true
}

// ---- lossless JSON for strings that are not valid UTF-8 (see c02)

const b64Mark = "\x00b64:"

func encS(s string) string {
	if utf8.ValidString(s) && !strings.HasPrefix(s, b64Mark) {
		return s
	}
	return b64Mark + base64.StdEncoding.EncodeToString([]byte(s))
}

func decS(s string) string {
	if r, ok := strings.CutPrefix(s, b64Mark); ok {
		if b, err := base64.StdEncoding.DecodeString(r); err == nil {
			return string(b)
		}
	}
	return s
}

type hdrJ Hdr

func (h Hdr) MarshalJSON() ([]byte, error) {
	a := hdrJ(h)
	a.K, a.V = encS(a.K), encS(a.V)
	return json.Marshal(a)
}

func (h *Hdr) UnmarshalJSON(b []byte) error {
	var a hdrJ
	if err := json.Unmarshal(b, &a); err != nil {
		return err
	}
	a.K, a.V = decS(a.K), decS(a.V)
	*h = Hdr(a)
	return nil
}

type caseJ Case

func (c Case) MarshalJSON() ([]byte, error) {
	a := caseJ(c)
	a.Msg = encS(a.Msg)
	return json.Marshal(a)
}

func (c *Case) UnmarshalJSON(b []byte) error {
	var a caseJ
	if err := json.Unmarshal(b, &a); err != nil {
		return err
	}
	a.Msg = decS(a.Msg)
	*c = Case(a)
	return nil
}

// ---- structural features (labels and signatures)

func isSigKey(k string) bool { return k == "gpgsig" || k == "gpgsig-sha256" }

type shape struct {
	features  []string
	nSigHdr   int  // gpgsig / gpgsig-sha256 header lines with a value
	nMatching int  // of the repository's algorithm (commits)
	nBody     int  // armour header lines in the body
	lastIsSig bool // canonical placement: the only signature header is the last header
}

var beginMarks = []string{"-----BEGIN PGP SIGNATURE-----", "-----BEGIN PGP MESSAGE-----", "-----BEGIN SSH SIGNATURE-----", "-----BEGIN SIGNED MESSAGE-----"}

// markPositions returns the offsets of the lines of s that start an armoured block.
func markPositions(s string) []int {
	var out []int
	off := 0
	for _, l := range strings.SplitAfter(s, "\n") {
		for _, m := range beginMarks {
			if strings.HasPrefix(l, m) {
				out = append(out, off)
				break
			}
		}
		off += len(l)
	}
	return out
}

func markLines(s string) int { return len(markPositions(s)) }

func analyze(c Case) shape {
	var s shape
	add := func(f string) {
		for _, x := range s.features {
			if x == f {
				return
			}
		}
		s.features = append(s.features, f)
	}
	match := "gpgsig"
	if c.Fmt == "sha256" {
		match = "gpgsig-sha256"
	}
	lastSig := -1
	for i, h := range c.H {
		switch {
		case isSigKey(h.K) && !h.NoSp:
			s.nSigHdr++
			lastSig = i
			if h.K == match {
				s.nMatching++
			} else if c.Kind == "commit" {
				add("other-algo-sig-header")
			}
			if h.Flat && strings.Contains(h.V, "\n") {
				add("sig-continuation-without-space")
			}
		case isSigKey(h.K) && h.NoSp:
			add("sig-key-without-value")
		case strings.HasPrefix(h.K, "gpgsig"):
			add("gpgsig-prefixed-other-header")
		}
	}
	s.lastIsSig = lastSig == len(c.H)-1
	if s.nSigHdr > 0 && !s.lastIsSig {
		add("sig-header-not-last")
	}
	if s.nSigHdr > 1 {
		add("several-sig-headers")
	}
	if s.nSigHdr > 2 {
		add("more-than-two-sig-headers")
	}
	if c.Kind == "tag" {
		if s.nSigHdr > 0 {
			add("tag-sig-header")
		}
		s.nBody = markLines(c.Msg)
		if s.nBody > 1 {
			add("several-body-blocks")
		}
		if s.nBody > 0 {
			pos := markPositions(c.Msg)
			tail := c.Msg[pos[len(pos)-1]:]
			if e := strings.Index(tail, "\n-----END "); e < 0 {
				add("body-block-unterminated")
			} else if nl := strings.Index(tail[e+1:], "\n"); nl >= 0 && e+1+nl+1 < len(tail) {
				add("text-after-body-block")
			}
		}
	} else if markLines(c.Msg) > 0 {
		add("armour-in-commit-message")
	}
	if c.Mut != nil {
		add("mutated:" + c.Mut.Field)
	}
	return s
}
