package c03

// Genuine OpenPGP material, made once with a throw-away Ed25519 key
// (ProtonMail/go-crypto, creation time 2023-11-14): the public keyring and one
// detached signature per fixed payload. go-git's Verify is given the keyring;
// the signatures are placed into objects whose payload, as git computes it, is
// exactly the fixed payload.

const pubRing = `-----BEGIN PGP PUBLIC KEY BLOCK-----

xjMEZVPxABYJKwYBBAHaRw8BAQdAiR42QlhNvAvttRrFViUD5ecxTVGG2xOcbvfY
KY4YlEHNIUMwMyBoYXJuZXNzIDxjMDNAZXhhbXBsZS5pbnZhbGlkPsK9BBMWCABv
BYJlU/EAAgsHCRDLLyYqLULSYDUUAAAAAAAcABBzYWx0QG5vdGF0aW9ucy5vcGVu
cGdwanMub3JnAVNkyIaMJmySYU+mcgM/9AIVCAIWAAIZAQKbAwIeARYhBL7AuBCQ
hsTXGs6TP8svJiotQtJgAAAoXwEAog/7+lW4vBRo9jMDyytFQXtdSWn+ElUqKP22
mzzggTEA/1pKxHK/VC1YaugCWcnF2HjQV536qBS7aPfvfotoslMNzjgEZVPxABIK
KwYBBAGXVQEFAQEHQD5cxXRHCW44Ez/AhYUwMucl6CThsrpGa7EZvpOJ6zdMAwEK
CcKuBBgWCABgBYJlU/EACRDLLyYqLULSYDUUAAAAAAAcABBzYWx0QG5vdGF0aW9u
cy5vcGVucGdwanMub3JnlOwTq69gLxnE0EP8yp34IgKbDBYhBL7AuBCQhsTXGs6T
P8svJiotQtJgAAB/GwEA9KJYOJFghLSMV9ujgHLah3Q7LT0szoq1RsfuGKN/Wo0B
ALfD27gWhX/NLxqw2O0caKCOcJZ3vW/H1TiOM+m6UQ8H
=PeoB
-----END PGP PUBLIC KEY BLOCK-----`

// realPayload[kind+"/"+format] is the payload the signature was made over.
var realPayload = map[string]string{
	"commit/sha1": "tree 4b825dc642cb6eb9a060e54bf8d69288fbee4904\nparent 1111111111111111111111111111111111111111\nauthor A U Thor <author@example.com> 1700000000 +0100\ncommitter C O Mitter <committer@example.com> 1700000001 -0500\nencoding ISO-8859-1\nmergetag bar\n second line\n\nsigned commit\n\nbody caf\xe9\n",
	"commit/sha256": "tree 4b825dc642cb6eb9a060e54bf8d69288fbee49044b825dc642cb6eb9a060e54b\nparent 1111111111111111111111111111111111111111111111111111111111111111\nauthor A U Thor <author@example.com> 1700000000 +0100\ncommitter C O Mitter <committer@example.com> 1700000001 -0500\nencoding ISO-8859-1\nmergetag bar\n second line\n\nsigned commit\n\nbody caf\xe9\n",
	"tag/sha1": "object 4b825dc642cb6eb9a060e54bf8d69288fbee4904\ntype commit\ntag v1.0\ntagger T Agger <tagger@example.com> 1700000002 +0000\n\nsigned tag\n\nbody\n",
	"tag/sha256": "object 4b825dc642cb6eb9a060e54bf8d69288fbee49044b825dc642cb6eb9a060e54b\ntype commit\ntag v1.0\ntagger T Agger <tagger@example.com> 1700000002 +0000\n\nsigned tag\n\nbody\n",
}

// realSig[kind+"/"+format]: armoured detached signature over realPayload, without final newline.
var realSig = map[string]string{
	"commit/sha1": `-----BEGIN PGP SIGNATURE-----

wqsEABYIAF0FgmVT8QAJEMsvJiotQtJgNRQAAAAAABwAEHNhbHRAbm90YXRpb25z
Lm9wZW5wZ3Bqcy5vcmciNloD0HTazNK496iVgDMiFiEEvsC4EJCGxNcazpM/yy8m
Ki1C0mAAABcVAQCzhh0ceAb4Q/etk/cd3xBGHkhmLrErTu7TEg7rIz3otAEA6DNE
LnP+QSvRkaJhMB5zcpYyLWEgJSMsBzETQGUIFQ4=
=pgsA
-----END PGP SIGNATURE-----`,
	"commit/sha256": `-----BEGIN PGP SIGNATURE-----

wqsEABYIAF0FgmVT8QAJEMsvJiotQtJgNRQAAAAAABwAEHNhbHRAbm90YXRpb25z
Lm9wZW5wZ3Bqcy5vcme5kUfPiNBAN8RLLI10tk1TFiEEvsC4EJCGxNcazpM/yy8m
Ki1C0mAAADJYAP4pENJEr8IJFq09tGSPHfsRYDy/ik6h4LTLpBBls+cFywD7B2sk
WVoihxKFKAHbFuUm0XMliBnBq5kLiGTbrOHDUA4=
=jCjm
-----END PGP SIGNATURE-----`,
	"tag/sha1": `-----BEGIN PGP SIGNATURE-----

wqsEABYIAF0FgmVT8QAJEMsvJiotQtJgNRQAAAAAABwAEHNhbHRAbm90YXRpb25z
Lm9wZW5wZ3Bqcy5vcme/5x4vKYsWAf6i9Vfiel/6FiEEvsC4EJCGxNcazpM/yy8m
Ki1C0mAAAI8/AQDVdUyL63XNrdU5/Imqb0Fed+P6i6JsmBXAo7HTOiBXoAD+PvVM
mjiJk3Jdvm1AmSamUUjLiVwT+kFojpDL+lXnRAE=
=EnnO
-----END PGP SIGNATURE-----`,
	"tag/sha256": `-----BEGIN PGP SIGNATURE-----

wqsEABYIAF0FgmVT8QAJEMsvJiotQtJgNRQAAAAAABwAEHNhbHRAbm90YXRpb25z
Lm9wZW5wZ3Bqcy5vcmfjdvkr6VR0NvI/P2rb9ZlrFiEEvsC4EJCGxNcazpM/yy8m
Ki1C0mAAAF22AP9I30pbquRqkp5KUKjUpneBep2LVGudieeBXF3A34P4kgD9F98Y
aDJk+MNgzZZeWa1ogN+SMdxArVMByYaRZ7AlIgI=
=6BWa
-----END PGP SIGNATURE-----`,
}
