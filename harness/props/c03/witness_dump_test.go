package c03

import (
	"encoding/json"
	"fmt"
	"os"
	"path/filepath"
	"regexp"
	"sort"
	"strings"
	"testing"
)

var what = map[string]string{
	"payload/gpgsig-prefixed-other-header":              "a header whose key merely starts with \"gpgsig\" (gpgsigx, gpgsig-sha512...) is left out of the payload by git (parse_buffer_signed_by_header drops every gpgsig* header) but kept by EncodeWithoutSignature (isSignatureHeader matches only gpgsig/gpgsig-sha256)",
	"payload/sig-key-without-value":                     "a bare \"gpgsig\" line (key without value) next to a real signature header: git leaves it out of the payload, EncodeWithoutSignature keeps it (and Decode prepends an empty line to Signature)",
	"signature-where-git-finds-none/sig-key-without-value": "a bare \"gpgsig\" line alone: git finds no signature, Decode sets Signature to \"\\n\"",
	"verify-ignores-gpgsig-sha256/sha256-repository":    "in a SHA-256 repository git signs and verifies commits under the gpgsig-sha256 header; Commit.Verify only reads Signature (gpgsig) and rejects a commit git accepts",
}

var sigRe = regexp.MustCompile(`^C03/([^/]+)/([^/]+)/([^/+]+)$`)

// TestC03DumpWitnesses is authoring tooling (see c02): with C03_DUMP=<dir> it
// writes a witness file and a known-findings line for every failing
// single-feature signature of the fixed corpus. Skipped under the driver.
func TestC03DumpWitnesses(t *testing.T) {
	dir := os.Getenv("C03_DUMP")
	if dir == "" {
		t.Skip("authoring tool; set C03_DUMP")
	}
	os.MkdirAll(filepath.Join(dir, "known"), 0o755)
	lines := map[string]string{}
	size := map[string]int{}
	for _, c := range shapes() {
		res := check(c)
		if res.Fail == nil {
			continue
		}
		sig := res.Fail.Sig
		mm := sigRe.FindStringSubmatch(sig)
		if mm == nil {
			fmt.Printf("NOT-SINGLE %s\n", sig)
			continue
		}
		if n, ok := size[sig]; ok && n <= len(c.Raw()) {
			continue
		}
		size[sig] = len(c.Raw())
		cj, _ := json.Marshal(c)
		body, _ := json.MarshalIndent(map[string]any{"property": "C03", "test": "TestC03", "sig": sig, "case": json.RawMessage(cj)}, "", " ")
		name := strings.NewReplacer("/", "_", ":", "-").Replace(strings.TrimPrefix(sig, "C03/")) + ".case.json"
		desc := what[mm[2]+"/"+mm[3]]
		if desc == "" {
			desc = "UNDESCRIBED"
		}
		lines[sig] = fmt.Sprintf("open: property=C03 sig=%s replay=replays/C03/known/%s %s", sig, name, desc)
		os.WriteFile(filepath.Join(dir, "known", name), append(body, '\n'), 0o644)
	}
	var sigs []string
	for s := range lines {
		sigs = append(sigs, s)
	}
	sort.Strings(sigs)
	var sb strings.Builder
	for _, s := range sigs {
		sb.WriteString(lines[s] + "\n")
	}
	os.WriteFile(filepath.Join(dir, "C03.txt"), []byte(sb.String()), 0o644)
	fmt.Printf("%d witnesses\n", len(sigs))
}
