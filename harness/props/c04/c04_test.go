// Package c04 decides C04: trees are decoded like git lists them, every tree
// go-git writes is free of fsck errors, and go-git does not refuse to write a
// tree that git fsck finds clean.
//
//	decode  raw tree bytes from a grammar (sorted or not, duplicates, zero-padded
//	        and odd modes, any name bytes, truncations) are stored with
//	        `hash-object -t tree --literally`; when `git ls-tree -z` lists the
//	        object, Tree.Decode must yield the same (mode, id, name) sequence.
//	encode  an entry set with arbitrary names and modes is sorted with go-git's
//	        TreeEntrySorter and encoded. If Encode accepts, `git fsck` must
//	        report no error for the stored bytes (under --strict; what stays a warning there is a label: the
//	        property says "without errors"). If Encode refuses, the harness
//	        encodes the same set itself (git's sort order) and asks `git fsck`:
//	        when fsck has nothing at all to say about that tree (no error, no
//	        warning), go-git refused a valid, duplicate-free set.
package c04

import (
	"bytes"
	"encoding/base64"
	"encoding/hex"
	"encoding/json"
	"fmt"
	"io"
	"os"
	"path/filepath"
	"sort"
	"strconv"
	"strings"
	"sync"
	"testing"
	"unicode/utf8"

	"github.com/go-git/go-git/v6/plumbing"
	"github.com/go-git/go-git/v6/plumbing/filemode"
	fcfg "github.com/go-git/go-git/v6/plumbing/format/config"
	"github.com/go-git/go-git/v6/plumbing/object"
	"pgregory.net/rapid"

	"verif/harness/lib/evid"
	"verif/harness/lib/gitx"
)

// Entry is one tree entry. Mode is the octal text as it stands in the object
// (decode) or the value of TreeEntry.Mode in octal (encode).
type Entry struct {
	Mode string
	Name string
	ID   string // hex
}

// Case is one raw tree (decode) or one entry set (encode).
type Case struct {
	Op    string // decode | encode
	Fmt   string // sha1 | sha256
	E     []Entry
	Trunc int `json:",omitempty"` // decode: bytes cut off the end of the object
}

// ---- lossless JSON for names that are not valid UTF-8

const b64Mark = "\x00b64:"

type entryJ Entry

func (e Entry) MarshalJSON() ([]byte, error) {
	a := entryJ(e)
	if !utf8.ValidString(a.Name) || strings.HasPrefix(a.Name, b64Mark) {
		a.Name = b64Mark + base64.StdEncoding.EncodeToString([]byte(a.Name))
	}
	return json.Marshal(a)
}

func (e *Entry) UnmarshalJSON(b []byte) error {
	var a entryJ
	if err := json.Unmarshal(b, &a); err != nil {
		return err
	}
	if r, ok := strings.CutPrefix(a.Name, b64Mark); ok {
		if d, err := base64.StdEncoding.DecodeString(r); err == nil {
			a.Name = string(d)
		}
	}
	*e = Entry(a)
	return nil
}

// ---------------------------------------------------------------- scratch and template

func scratch() string {
	base := os.Getenv("VERIF_SCRATCH")
	if base == "" {
		base = "/dev/shm"
	}
	d, err := os.MkdirTemp(base, "c04-")
	if err != nil {
		panic("INFRA: scratch: " + err.Error())
	}
	return d
}

var (
	tmplOnce sync.Once
	tmplDir  string
	objIDs   = map[string]map[string]string{} // format -> kind -> id of an object present in the template
)

// newRepo copies a repository made once per process by `git init` that holds an
// empty blob, the empty tree and one commit, so that entries can point to
// objects of the right type that exist (fsck then has nothing to say about links).
func newRepo(dir, format string) {
	tmplOnce.Do(func() {
		tmplDir = scratch()
		for _, f := range []string{"sha1", "sha256"} {
			d := filepath.Join(tmplDir, f)
			gitx.Init(d, false, f)
			ids := map[string]string{}
			ids["blob"] = strings.TrimSpace(gitx.MustIn(d, nil, "hash-object", "-w", "-t", "blob", "--stdin"))
			ids["tree"] = strings.TrimSpace(gitx.MustIn(d, nil, "hash-object", "-w", "-t", "tree", "--stdin"))
			ids["commit"] = strings.TrimSpace(gitx.MustIn(d, []byte("m\n"), "commit-tree", ids["tree"]))
			objIDs[f] = ids
		}
	})
	src := filepath.Join(tmplDir, format)
	err := filepath.Walk(src, func(p string, fi os.FileInfo, err error) error {
		if err != nil {
			return err
		}
		rel, _ := filepath.Rel(src, p)
		if fi.IsDir() {
			return os.MkdirAll(filepath.Join(dir, rel), 0o755)
		}
		b, err := os.ReadFile(p)
		if err != nil {
			return err
		}
		return os.WriteFile(filepath.Join(dir, rel), b, 0o644)
	})
	if err != nil {
		panic("INFRA: copy template repository: " + err.Error())
	}
}

func TestMain(m *testing.M) {
	rc := m.Run()
	if tmplDir != "" {
		os.RemoveAll(tmplDir)
	}
	os.Exit(rc)
}

// idFor returns the id of an existing object of the kind a mode points to.
func idFor(format string, mode uint32) string {
	newRepo0(format)
	switch mode & 0o170000 {
	case 0o040000:
		return objIDs[format]["tree"]
	case 0o100000, 0o120000:
		return objIDs[format]["blob"]
	}
	return objIDs[format]["commit"]
}

func newRepo0(format string) { // make sure the template (and objIDs) exists
	if len(objIDs[format]) == 0 {
		d := scratch()
		newRepo(d, format)
		os.RemoveAll(d)
	}
}

// ---------------------------------------------------------------- classification (labels, signatures)

var canonicalModes = map[string]bool{"100644": true, "100755": true, "120000": true, "40000": true, "160000": true}

func modeClass(text string) string {
	if canonicalModes[text] {
		return "canonical"
	}
	v, err := strconv.ParseUint(text, 8, 32)
	if err != nil || text == "" {
		return "not-octal"
	}
	if len(text) > 7 {
		return "more-than-7-digits"
	}
	if strings.HasPrefix(text, "0") && canonicalModes[strings.TrimLeft(text, "0")] {
		return "zero-padded"
	}
	pad := ""
	if strings.HasPrefix(text, "0") {
		pad = "zero-padded+"
	}
	switch v & 0o170000 {
	case 0o100000:
		switch {
		case v == 0o100664:
			return pad + "regular-664"
		case v&0o100 != 0:
			return pad + "regular-odd-perms-owner-x"
		case v&0o011 != 0:
			return pad + "regular-odd-perms-x-for-group-or-other-only"
		}
		return pad + "regular-odd-perms-no-x"
	case 0o040000:
		return pad + "dir-with-perms"
	case 0o120000:
		return pad + "symlink-with-perms"
	case 0o160000:
		return pad + "gitlink-with-perms"
	case 0:
		return pad + "no-type-bits"
	}
	return pad + "other-type-bits"
}

func nameTags(n string) []string {
	var t []string
	add := func(s string) { t = append(t, s) }
	low := strings.ToLower(n)
	switch {
	case n == "":
		add("empty")
	case n == ".":
		add("dot")
	case n == "..":
		add("dotdot")
	case n == ".git":
		add("dotgit")
	case low == ".git":
		add("dotgit-case")
	case strings.HasPrefix(low, ".git") && strings.Trim(low[4:], " .") == "" || strings.HasPrefix(low, "git~1"):
		add("dotgit-ntfs")
	case strings.Contains(n, "\u200c") || strings.Contains(n, "\u200d") || strings.Contains(n, "\ufeff"):
		add("hfs-ignorable")
	}
	for i := 0; i < len(n); i++ {
		if n[i] < 0x20 || n[i] == 0x7f {
			add("ctrl")
			break
		}
	}
	if strings.Contains(n, "/") {
		add("slash")
	}
	if strings.Contains(n, "\\") {
		bs := "backslash"
		for _, p := range strings.Split(n, "\\") {
			lp := strings.ToLower(p)
			switch {
			case p == "." || p == "..":
				bs = "backslash-dot-component"
			case lp == ".git" || strings.HasPrefix(lp, "git~1") || (strings.HasPrefix(lp, ".git") && strings.Trim(lp[4:], " .") == ""):
				bs = "backslash-dotgit-component"
			}
		}
		add(bs)
	}
	if len(n) > 4096 {
		add("long")
	}
	if !utf8.ValidString(n) {
		add("invalid-utf8")
	}
	switch low {
	case ".gitmodules", ".gitattributes", ".gitignore", ".mailmap":
		add("git-metadata-name")
	}
	return t
}

func caseTags(c Case) []string {
	set := map[string]bool{}
	for _, e := range c.E {
		for _, t := range nameTags(e.Name) {
			set["name:"+t] = true
		}
		if mc := modeClass(e.Mode); mc != "canonical" {
			set["mode:"+mc] = true
		}
		if strings.Trim(e.ID, "0") == "" {
			set["null-id"] = true
		}
	}
	var out []string
	for t := range set {
		out = append(out, t)
	}
	sort.Strings(out)
	return out
}

// gitLess is git's base_name_compare: directories sort as if their name ended in '/'.
func gitLess(n1 string, dir1 bool, n2 string, dir2 bool) bool {
	l := len(n1)
	if len(n2) < l {
		l = len(n2)
	}
	if c := strings.Compare(n1[:l], n2[:l]); c != 0 {
		return c < 0
	}
	end := func(n string, dir bool) byte {
		if len(n) > l {
			return n[l]
		}
		if dir {
			return '/'
		}
		return 0
	}
	return end(n1, dir1) < end(n2, dir2)
}

// ---------------------------------------------------------------- generator

var guardedFeatures = func() map[string]bool {
	g := map[string]bool{}
	for _, s := range strings.Split(os.Getenv("VERIF_KNOWN"), "\x1f") {
		p := strings.Split(s, "/")
		if len(p) == 3 && p[0] == "C04" && !strings.Contains(p[2], "+") {
			g[p[1]+"/"+p[2]] = true
		}
	}
	return g
}()

// guarded: is feature (e.g. "name:ctrl", "mode:zero-padded") switched off for op by a confirmed finding?
func guarded(op, feature string) bool {
	for k := range guardedFeatures {
		if strings.HasPrefix(k, op+"-") && strings.HasSuffix(k, "/"+feature) {
			return true
		}
	}
	return false
}

var plainNames = []string{"a", "b", "a.b", "a-b", "a0", "a b", "ab", "A", "Makefile", "src", "é", "名前", "a.txt", "a!", "a~", "-a", "*", "~", " a", "a ", "x.git", "gitx", ".gitx", ".gi", "git", "..a", "a..", "...", "con", "aux.txt", "a,b", "a+b", "a#", "a\"b"}
var carefulNames = []string{".", "..", ".git", ".GIT", ".Git", ".gIT", ".git ", ".git.", ".git . .", "git~1", "GIT~1", "git~2", ".g\u200cit", ".git\u200d", "\ufeff.git", ".gitmodules", ".gitattributes", ".gitignore", ".mailmap",
	".GITMODULES", ".gitmodules ", "gitmod~1", ".gitmodules:$DATA", "\t", "a\tb", "a\x01", "\x7f", "a\nb", "\x1f", "a\\b", "a\\..", "..\\a", "a\\.\\b", "a\\.git", "a\\.git\\b", "a\\git~1", "\\", "C:", "c:\\x", "\xff", "a\xc3", "a/b", "/", "a/", "/a", ""}

func genName(t *rapid.T, op string, tame bool) string {
	hi := 9
	if tame {
		hi = 5 // plain names and neighbours around '/' only
	}
	switch rapid.IntRange(0, hi).Draw(t, "nameshape") {
	case 0, 1, 2, 3:
		return rapid.SampledFrom(plainNames).Draw(t, "plain")
	case 4, 5: // neighbours in sort order around '/': prefix + one of the bytes next to 0x2f
		base := rapid.SampledFrom([]string{"a", "ab", "src", "é"}).Draw(t, "base")
		sfx := []string{"", ".", "-", "0", " ", "!", "\x2e\x2e", "a", "~", ",", "+", "#", "/x", "\x01"}
		if tame {
			sfx = sfx[:12]
		}
		n := base + rapid.SampledFrom(sfx).Draw(t, "suffix")
		for _, tag := range nameTags(n) {
			if guarded(op, "name:"+tag) {
				return base
			}
		}
		return n
	case 6:
		n := string(rapid.SliceOfN(rapid.ByteRange(1, 255), 1, 6).Draw(t, "bytes"))
		for _, tag := range nameTags(n) {
			if guarded(op, "name:"+tag) {
				return "a"
			}
		}
		return n
	case 7:
		if rapid.IntRange(0, 19).Draw(t, "long") == 0 {
			return strings.Repeat("x", rapid.SampledFrom([]int{4095, 4096, 4097, 5000}).Draw(t, "len"))
		}
		return rapid.SampledFrom(plainNames).Draw(t, "plain")
	default:
		for try := 0; try < 4; try++ {
			n := rapid.SampledFrom(carefulNames).Draw(t, "careful")
			ok := true
			for _, tag := range nameTags(n) {
				if guarded(op, "name:"+tag) {
					ok = false
				}
			}
			if ok {
				return n
			}
		}
		return "a"
	}
}

var decodeModes = []string{"100644", "100755", "120000", "40000", "160000", "100644", "40000", "100664", "040000", "0100644", "00100755", "100600", "100700", "100611", "100610", "100601", "100666", "100777", "100000",
	"120777", "40755", "040755", "160777", "644", "755", "0", "170000", "140000", "20000", "777777", "37777777777", "10064x", "1006448", "", "+100644", "100644 "}
var encodeModes = []uint32{0o100644, 0o100755, 0o120000, 0o40000, 0o160000, 0o100644, 0o40000, 0o100664, 0o100600, 0o100666, 0o100775, 0, 0o644, 0o40755, 0o120777, 0o170000, 0o140000}

func genID(t *rapid.T, format string, l string) string {
	n := 20
	if format == "sha256" {
		n = 32
	}
	switch rapid.IntRange(0, 5).Draw(t, l+"k") {
	case 0:
		return strings.Repeat("00", n)
	case 1:
		return hex.EncodeToString(rapid.SliceOfN(rapid.Byte(), n, n).Draw(t, l))
	case 2:
		return strings.Repeat("0a", n) // bytes that look like separators
	default:
		return strings.Repeat(rapid.SampledFrom([]string{"11", "20", "ff", "00ab"}).Draw(t, l+"r"), n)[:2*n]
	}
}

func gen(t *rapid.T, _ *evid.Recorder) Case {
	c := Case{Fmt: rapid.SampledFrom([]string{"sha1", "sha256"}).Draw(t, "fmt"), Op: rapid.SampledFrom([]string{"decode", "encode"}).Draw(t, "op")}
	n := rapid.SampledFrom([]int{0, 1, 2, 2, 3, 3, 4, 5, 8}).Draw(t, "n")
	wild := -1
	if n > 0 && rapid.IntRange(0, 9).Draw(t, "haswild") < 4 {
		wild = rapid.IntRange(0, n-1).Draw(t, "wild")
	}
	for i := 0; i < n; i++ {
		var e Entry
		// encode: at most one entry per tree gets a name from the careful alphabets (else nearly every tree is refused)
		e.Name = genName(t, c.Op, c.Op == "encode" && i != wild)
		if c.Op == "decode" {
			e.Mode = rapid.SampledFrom(decodeModes).Draw(t, "mode")
			for try := 0; guarded("decode", "mode:"+modeClass(e.Mode)) && try < 4; try++ {
				e.Mode = rapid.SampledFrom(decodeModes[:5]).Draw(t, "mode2")
			}
			e.ID = genID(t, c.Fmt, "id")
		} else {
			m := rapid.SampledFrom(encodeModes[:8]).Draw(t, "mode") // the modes Validate admits
			if rapid.IntRange(0, 7).Draw(t, "oddmode") == 7 {
				m = rapid.SampledFrom(encodeModes).Draw(t, "mode2")
			}
			e.Mode = strconv.FormatUint(uint64(m), 8)
			e.ID = idFor(c.Fmt, m)
			if rapid.IntRange(0, 19).Draw(t, "nullid") == 0 {
				e.ID = strings.Repeat("0", len(e.ID))
			}
		}
		c.E = append(c.E, e)
	}
	if n > 0 && rapid.IntRange(0, 5).Draw(t, "dup") == 0 { // duplicate names (same or different mode)
		d := c.E[rapid.IntRange(0, n-1).Draw(t, "dupi")]
		if rapid.Bool().Draw(t, "dupmode") {
			if c.Op == "encode" {
				d.Mode, d.ID = "40000", idFor(c.Fmt, 0o40000)
			} else {
				d.Mode = "40000"
			}
		}
		c.E = append(c.E, d)
	}
	if c.Op == "decode" {
		switch rapid.IntRange(0, 5).Draw(t, "order") {
		case 0, 1, 2: // git's order
			sort.SliceStable(c.E, func(i, j int) bool {
				return gitLess(c.E[i].Name, c.E[i].Mode == "40000" || c.E[i].Mode == "040000", c.E[j].Name, c.E[j].Mode == "40000" || c.E[j].Mode == "040000")
			})
		case 3: // plain byte order
			sort.SliceStable(c.E, func(i, j int) bool { return c.E[i].Name < c.E[j].Name })
		}
		if rapid.IntRange(0, 9).Draw(t, "trunc") == 0 {
			c.Trunc = rapid.IntRange(1, 40).Draw(t, "truncn")
		}
	}
	return c
}

// ---------------------------------------------------------------- oracle

func rawTree(c Case) ([]byte, bool) {
	var b bytes.Buffer
	for _, e := range c.E {
		id, err := hex.DecodeString(e.ID)
		if err != nil || strings.ContainsRune(e.Name, 0) || strings.ContainsAny(e.Mode, " \x00") && c.Op == "encode" {
			return nil, false
		}
		b.WriteString(e.Mode)
		b.WriteByte(' ')
		b.WriteString(e.Name)
		b.WriteByte(0)
		b.Write(id)
	}
	out := b.Bytes()
	if c.Trunc > 0 {
		if c.Trunc >= len(out) {
			return nil, false
		}
		out = out[:len(out)-c.Trunc]
	}
	return out, true
}

// fsckTree returns the error and warning message ids `git fsck --strict` reports about tree oid.
// Under --strict the WARN-level rules (hasDotgit, nullSha1, zeroPaddedFilemode...) are errors; what
// remains a warning is the INFO level (badFilemode for 100664 is the known example).
func fsckTree(dir, oid string) (errs, warns []string) {
	o, e, _ := gitx.Try(dir, "fsck", "--strict", "--no-dangling", "--no-progress")
	for _, l := range strings.Split(o+e, "\n") {
		if !strings.Contains(l, oid) {
			continue
		}
		id := l
		if _, rest, ok := strings.Cut(l, oid+": "); ok {
			id, _, _ = strings.Cut(rest, ":")
		}
		switch {
		case strings.HasPrefix(l, "error"):
			errs = append(errs, id)
		case strings.HasPrefix(l, "warning"):
			warns = append(warns, id)
		}
	}
	sort.Strings(errs)
	sort.Strings(warns)
	return errs, warns
}

func hasher(format string) *plumbing.ObjectHasher {
	if format == "sha256" {
		return plumbing.FromObjectFormat(fcfg.SHA256)
	}
	return plumbing.FromObjectFormat(fcfg.SHA1)
}

func tagStr(tags []string) string {
	if len(tags) == 0 {
		return "plain"
	}
	return strings.Join(tags, "+")
}

func check(c Case) evid.Result {
	if (c.Fmt != "sha1" && c.Fmt != "sha256") || (c.Op != "decode" && c.Op != "encode") {
		return evid.Result{Discard: true}
	}
	idLen := 40
	if c.Fmt == "sha256" {
		idLen = 64
	}
	for _, e := range c.E {
		if len(e.ID) != idLen || strings.ContainsRune(e.Name, 0) {
			return evid.Result{Discard: true}
		}
	}
	tags := caseTags(c)
	res := evid.Result{Labels: []string{"op:" + c.Op, "fmt:" + c.Fmt, fmt.Sprintf("entries:%d", min(len(c.E), 5))}}
	for _, t := range tags {
		res.Labels = append(res.Labels, t)
	}
	careful := len(tags) > 0
	for i := range c.E {
		for j := range c.E {
			if i != j && strings.HasPrefix(c.E[j].Name, c.E[i].Name) && len(c.E[j].Name) > len(c.E[i].Name) && c.E[j].Name[len(c.E[i].Name)] <= '0' {
				careful = true // names that sort around '/'
				res.Labels = append(res.Labels, "sorts-around-slash")
			}
		}
		if c.E[i].Mode != "100644" {
			careful = true
		}
		if !utf8.ValidString(c.E[i].Name) || strings.IndexFunc(c.E[i].Name, func(r rune) bool { return r > 0x7f }) >= 0 {
			careful = true
		}
	}
	res.NonTrivial = len(c.E) >= 2 && careful
	if c.Op == "decode" {
		return checkDecode(c, res, tags)
	}
	return checkEncode(c, res, tags)
}

type lsEntry struct{ mode, typ, id, name string }

// entryTags: the classes of one entry (for signatures that name the culprit entry).
func entryTags(e Entry) []string {
	var t []string
	for _, n := range nameTags(e.Name) {
		t = append(t, "name:"+n)
	}
	if mc := modeClass(e.Mode); mc != "canonical" {
		t = append(t, "mode:"+mc)
	}
	if strings.Trim(e.ID, "0") == "" {
		t = append(t, "null-id")
	}
	sort.Strings(t)
	return t
}

// removeTag rewrites a name so that it no longer carries the given tag.
func removeTag(n, tag string) string {
	switch tag {
	case "ctrl":
		return strings.Map(func(r rune) rune {
			if r < 0x20 || r == 0x7f {
				return 'x'
			}
			return r
		}, n)
	case "invalid-utf8":
		b := []byte(n)
		for i := range b {
			if b[i] >= 0x80 {
				b[i] = 'x'
			}
		}
		return string(b)
	case "backslash", "backslash-dot-component", "backslash-dotgit-component":
		return strings.ReplaceAll(n, "\\", "x")
	case "slash":
		return strings.ReplaceAll(n, "/", "x")
	case "long":
		return n[:100]
	case "hfs-ignorable":
		return strings.NewReplacer("\u200c", "", "\u200d", "", "\ufeff", "").Replace(n)
	}
	return "x" + n // dot, dotdot, dotgit*, git-metadata-name, empty
}

// culprit narrows a failure to what fails on its own: the entries whose
// one-entry case is bad, and of those entries the attributes whose
// neutralisation alone (plain name / tag removed, mode 100644, non-null id)
// makes the one-entry case good. Without such an entry the whole case is named
// as a combination.
func culprit(c Case, bad func(Case) bool) string {
	set := map[string]bool{}
	one := func(e Entry) Case {
		o := c
		o.E, o.Trunc = []Entry{e}, 0
		return o
	}
	for _, e := range c.E {
		if !bad(one(e)) {
			continue
		}
		var rel []string
		for _, t := range nameTags(e.Name) {
			f := e
			f.Name = removeTag(e.Name, t)
			if !bad(one(f)) {
				rel = append(rel, "name:"+t)
			}
		}
		if mc := modeClass(e.Mode); mc != "canonical" {
			f := e
			f.Mode = "100644"
			if !bad(one(f)) {
				rel = append(rel, "mode:"+mc)
			}
		}
		if strings.Trim(e.ID, "0") == "" {
			f := e
			f.ID = strings.Repeat("1", len(e.ID))
			if !bad(one(f)) {
				rel = append(rel, "null-id")
			}
		}
		if len(rel) == 0 {
			rel = entryTags(e)
		}
		if len(rel) == 0 {
			rel = []string{"plain-entry"}
		}
		for _, t := range rel {
			set[t] = true
		}
	}
	if len(set) == 0 {
		return "combination:" + tagStr(caseTags(c))
	}
	var out []string
	for t := range set {
		out = append(out, t)
	}
	sort.Strings(out)
	return strings.Join(out, "+")
}

func decodeFails(c Case) bool {
	raw, ok := rawTree(c)
	if !ok {
		return false
	}
	o := plumbing.NewMemoryObject(hasher(c.Fmt))
	o.SetType(plumbing.TreeObject)
	o.Write(raw)
	return (&object.Tree{}).Decode(o) != nil
}

func validateFails(c Case) bool {
	tr := &object.Tree{}
	for _, e := range c.E {
		m, err := strconv.ParseUint(e.Mode, 8, 32)
		h, ok := plumbing.FromHex(e.ID)
		if err != nil || !ok {
			return false
		}
		tr.Entries = append(tr.Entries, object.TreeEntry{Name: e.Name, Mode: filemode.FileMode(m), Hash: h})
	}
	return tr.Validate() != nil
}

func checkDecode(c Case, res evid.Result, tags []string) evid.Result {
	raw, ok := rawTree(c)
	if !ok {
		return evid.Result{Discard: true}
	}
	if c.Trunc > 0 {
		res.Labels = append(res.Labels, "truncated")
	}
	dir := scratch()
	defer os.RemoveAll(dir)
	newRepo(dir, c.Fmt)
	oid := strings.TrimSpace(gitx.MustIn(dir, raw, "hash-object", "-w", "-t", "tree", "--literally", "--stdin"))
	out, _, code := gitx.Try(dir, "ls-tree", "-z", oid)
	o := plumbing.NewMemoryObject(hasher(c.Fmt))
	o.SetType(plumbing.TreeObject)
	o.Write(raw)
	tr := &object.Tree{}
	derr := tr.Decode(o)
	if code != 0 {
		res.Labels = append(res.Labels, "git-cannot-list")
		if derr == nil {
			res.Labels = append(res.Labels, "go-git-decodes-what-git-cannot-list")
		}
		return res
	}
	var want []lsEntry
	for _, rec := range strings.Split(out, "\x00") {
		if rec == "" {
			continue
		}
		meta, name, ok := strings.Cut(rec, "\t")
		f := strings.Fields(meta)
		if !ok || len(f) != 3 {
			panic(fmt.Sprintf("INFRA: unexpected ls-tree record %q", rec))
		}
		want = append(want, lsEntry{f[0], f[1], f[2], name})
	}
	res.Labels = append(res.Labels, "git-lists")
	sig := func(part, feature string) string { return "C04/decode-" + part + "/" + feature }
	if derr != nil {
		res.Fail = evid.Failf(sig("error", culprit(c, decodeFails)), "git ls-tree lists %d entries, Tree.Decode fails: %v\nobject: %q", len(want), derr, raw)
		return res
	}
	if len(tr.Entries) != len(want) {
		res.Fail = evid.Failf(sig("count", tagStr(tags)), "git ls-tree lists %d entries, Tree.Decode %d\nobject: %q", len(want), len(tr.Entries), raw)
		return res
	}
	for i, w := range want {
		g := tr.Entries[i]
		if g.Name != w.name {
			nt := nameTags(w.name)
			for k := range nt {
				nt[k] = "name:" + nt[k]
			}
			res.Fail = evid.Failf(sig("name", tagStr(nt)), "entry %d: git lists name %q, Tree.Decode %q\nobject: %q", i, w.name, g.Name, raw)
			return res
		}
		if g.Hash.String() != w.id {
			res.Fail = evid.Failf(sig("id", tagStr(tags)), "entry %d (%q): git lists id %s, Tree.Decode %s\nobject: %q", i, w.name, w.id, g.Hash, raw)
			return res
		}
		if gm := fmt.Sprintf("%06o", uint32(g.Mode)); gm != w.mode {
			res.Fail = evid.Failf(sig("mode", "mode:"+modeClass(c.E[i].Mode)), "entry %d (%q) stored with mode %q: git lists mode %s, Tree.Decode %s", i, w.name, c.E[i].Mode, w.mode, gm)
			return res
		}
	}
	return res
}

func checkEncode(c Case, res evid.Result, tags []string) evid.Result {
	tr := &object.Tree{}
	type ref struct {
		mode uint32
		e    Entry
	}
	var refs []ref
	for _, e := range c.E {
		m, err := strconv.ParseUint(e.Mode, 8, 32)
		h, ok := plumbing.FromHex(e.ID)
		if err != nil || !ok {
			return evid.Result{Discard: true}
		}
		tr.Entries = append(tr.Entries, object.TreeEntry{Name: e.Name, Mode: filemode.FileMode(m), Hash: h})
		refs = append(refs, ref{uint32(m), e})
	}
	sort.Stable(object.TreeEntrySorter(tr.Entries)) // as every caller inside go-git does before Encode
	o := plumbing.NewMemoryObject(hasher(c.Fmt))
	eerr := tr.Encode(o)
	dir := scratch()
	defer os.RemoveAll(dir)
	newRepo(dir, c.Fmt)
	if eerr == nil {
		res.Labels = append(res.Labels, "encode-accepts")
		rd, _ := o.Reader()
		b, _ := io.ReadAll(rd)
		rd.Close()
		oid := strings.TrimSpace(gitx.MustIn(dir, b, "hash-object", "-w", "-t", "tree", "--literally", "--stdin"))
		errs, warns := fsckTree(dir, oid)
		for _, w := range warns {
			res.Labels = append(res.Labels, "fsck-warning:"+w)
		}
		if len(errs) > 0 {
			res.Fail = evid.Failf("C04/encode-fsck-error/"+strings.Join(errs, "+"), "Tree.Encode wrote a tree git fsck reports errors for (%v; warnings %v)\nentries: %+v\nobject: %q", errs, warns, tr.Entries, b)
		}
		return res
	}
	res.Labels = append(res.Labels, "encode-refuses")
	// the harness' own encoding of the same set, in git's order
	sort.SliceStable(refs, func(i, j int) bool {
		return gitLess(refs[i].e.Name, refs[i].mode&0o170000 == 0o40000, refs[j].e.Name, refs[j].mode&0o170000 == 0o40000)
	})
	var b bytes.Buffer
	for _, r := range refs {
		id, _ := hex.DecodeString(r.e.ID)
		fmt.Fprintf(&b, "%o %s\x00", r.mode, r.e.Name)
		b.Write(id)
	}
	if len(c.E) == 0 {
		res.Fail = evid.Failf("C04/encode-refuses-valid/empty-tree", "Tree.Encode refuses the empty tree: %v", eerr)
		return res
	}
	oid := strings.TrimSpace(gitx.MustIn(dir, b.Bytes(), "hash-object", "-w", "-t", "tree", "--literally", "--stdin"))
	errs, warns := fsckTree(dir, oid)
	switch {
	case len(errs) > 0:
		res.Labels = append(res.Labels, "refused-set-has-fsck-errors")
	case len(warns) > 0:
		res.Labels = append(res.Labels, "refused-set-has-fsck-warnings-only")
		for _, w := range warns {
			res.Labels = append(res.Labels, "refused-set-fsck-warning:"+w)
		}
	case strings.Contains(tagStr(tags), "name:long"):
		// git 2.39.5 has no rule on name length; later versions warn (fsck.largePathname, default 4096),
		// which is the rule Validate mirrors: not claimed either way
		res.Labels = append(res.Labels, "refused-set-has-over-long-name")
	default:
		res.Fail = evid.Failf("C04/encode-refuses-valid/"+culprit(c, validateFails), "git fsck has nothing to say about the tree built from this duplicate-free entry set, Tree.Encode refuses it: %v\nobject: %q", eerr, b.Bytes())
	}
	return res
}

func TestC04(t *testing.T) {
	evid.Run(t, evid.Spec[Case]{ID: "C04", Gen: gen, Check: check})
}

// ---------------------------------------------------------------- fixed corpus

// shapes: every mode text and every name of the generator's alphabets on its
// own, plus the ordering, duplicate, truncation and null-id shapes; evaluated
// on every run whatever rapid draws.
func shapes() []Case {
	var out []Case
	for _, format := range []string{"sha1", "sha256"} {
		id := strings.Repeat("11", 20)
		if format == "sha256" {
			id = strings.Repeat("11", 32)
		}
		dec := func(tr int, es ...Entry) Case { return Case{Op: "decode", Fmt: format, E: es, Trunc: tr} }
		enc := func(es ...Entry) Case { return Case{Op: "encode", Fmt: format, E: es} }
		E := func(mode uint32, name string) Entry {
			return Entry{Mode: strconv.FormatUint(uint64(mode), 8), Name: name, ID: idFor(format, mode)}
		}
		out = append(out, dec(0), enc())
		for _, m := range decodeModes {
			out = append(out, dec(0, Entry{"100644", "0", id}, Entry{m, "a", id}, Entry{"100644", "b", id}))
		}
		names := append(append([]string(nil), plainNames...), carefulNames...)
		names = append(names, strings.Repeat("x", 4096), strings.Repeat("x", 4097))
		for i, n := range names {
			if strings.ContainsRune(n, 0) || (format == "sha256" && i%6 != 0) { // the name rules do not depend on the hash: a sample suffices for sha256
				continue
			}
			out = append(out, dec(0, Entry{"100644", n, id}))
			out = append(out, enc(E(0o100644, n)), enc(E(0o100644, "0"), E(0o40000, n), E(0o160000, "zz")))
			if len(nameTags(n)) > 0 {
				out = append(out, enc(E(0o120000, n)), dec(0, Entry{"40000", n, id}))
			}
		}
		for _, m := range encodeModes {
			out = append(out, enc(E(0o100644, "0"), E(m, "a"), E(0o40000, "b")))
		}
		null := strings.Repeat("0", len(id))
		out = append(out, enc(Entry{"100644", "a", null}), enc(Entry{"40000", "a", null}), dec(0, Entry{"100644", "a", null}))
		// ordering around '/'
		pairs := [][]Entry{
			{E(0o40000, "a"), E(0o100644, "a.b")}, {E(0o40000, "a"), E(0o100644, "a-b")}, {E(0o40000, "a"), E(0o100644, "a0")}, {E(0o100644, "a"), E(0o100644, "a.b"), E(0o40000, "a-b")},
			{E(0o40000, "a"), E(0o100644, "a b"), E(0o100644, "a!"), E(0o100644, "a.b"), E(0o100644, "a0"), E(0o100644, "ab")}, {E(0o40000, "src"), E(0o100644, "src.c"), E(0o160000, "src-x")},
			{E(0o100644, "a"), E(0o40000, "a")}, {E(0o100644, "a"), E(0o100644, "a")}, {E(0o40000, "a"), E(0o40000, "a")}, {E(0o100644, "a"), E(0o100755, "a")}, {E(0o100644, "A"), E(0o100644, "a")},
			{E(0o100644, "é"), E(0o40000, "e"), E(0o100644, "\xff")}, {E(0o160000, "a"), E(0o100644, "a.b")}, {E(0o120000, "a"), E(0o40000, "a.b"), E(0o100644, "a.b.c")},
		}
		for _, p := range pairs {
			out = append(out, enc(p...))
			rev := make([]Entry, len(p))
			for i := range p {
				rev[len(p)-1-i] = p[i]
			}
			out = append(out, enc(rev...), dec(0, p...), dec(0, rev...))
		}
		for _, tr := range []int{1, 2, len(id) / 2, len(id)/2 + 1, len(id)/2 + 2, len(id)/2 + 8} {
			out = append(out, dec(tr, Entry{"100644", "a", id}, Entry{"40000", "b", id}))
		}
	}
	return out
}

func TestC04Shapes(t *testing.T) {
	if os.Getenv("VERIF_REPLAY") != "" {
		evid.Run(t, evid.Spec[Case]{ID: "C04", Check: check})
		return
	}
	r := evid.Open(t, "C04")
	shard, nshards := evid.Shard()
	n := 0
	for i, c := range shapes() {
		if i%nshards != shard {
			continue
		}
		n++
		evid.Each(t, r, check, c)
	}
	r.SetExhaustive()
	r.Extra["shapes"] = n
}
