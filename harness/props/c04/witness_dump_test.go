package c04

import (
	"encoding/json"
	"fmt"
	"os"
	"path/filepath"
	"sort"
	"strings"
	"testing"
)

// TestC04DumpWitnesses is authoring tooling (see c02): with C04_DUMP=<dir> it
// writes, for every failing signature of the fixed corpus, the smallest failing
// case as a witness file and prints the message. Skipped under the driver.
func TestC04DumpWitnesses(t *testing.T) {
	dir := os.Getenv("C04_DUMP")
	if dir == "" {
		t.Skip("authoring tool; set C04_DUMP")
	}
	os.MkdirAll(filepath.Join(dir, "known"), 0o755)
	type w struct {
		size int
		msg  string
		name string
	}
	best := map[string]w{}
	for _, c := range shapes() {
		res := check(c)
		if res.Fail == nil {
			continue
		}
		sig := res.Fail.Sig
		raw, _ := rawTree(c)
		size := len(raw) + 1000*len(c.E)
		if b, ok := best[sig]; ok && b.size <= size {
			continue
		}
		cj, _ := json.Marshal(c)
		body, _ := json.MarshalIndent(map[string]any{"property": "C04", "test": "TestC04", "sig": sig, "case": json.RawMessage(cj)}, "", " ")
		name := strings.NewReplacer("/", "_", ":", "-", "+", "_").Replace(strings.TrimPrefix(sig, "C04/")) + ".case.json"
		best[sig] = w{size, res.Fail.Msg, name}
		os.WriteFile(filepath.Join(dir, "known", name), append(body, '\n'), 0o644)
	}
	var sigs []string
	for s := range best {
		sigs = append(sigs, s)
	}
	sort.Strings(sigs)
	for _, s := range sigs {
		m := best[s].msg
		if len(m) > 400 {
			m = m[:400]
		}
		fmt.Printf("SIG %s FILE %s\n    %s\n", s, best[s].name, strings.ReplaceAll(m, "\n", "\n    "))
	}
	fmt.Printf("%d witnesses\n", len(sigs))
}
