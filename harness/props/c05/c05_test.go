// Package c05 decides C05: every SHA-1 computation go-git uses to name objects
// or to check file integrity is the collision-detecting one.
//
// TestC05 feeds the published colliding pairs (SHAttered, SHA-mbles; prefix kept
// through the collision blocks, generated common suffix, generated Write
// chunking) and random inputs through every entry point that exposes a raw
// SHA-1 stream. TestC05Identity is the backend-identity probe for the entry
// points that prepend a header / parse before hashing (the published collisions
// are IV dependent and cannot be fed through those from outside): counting
// factories are installed in go-git's registry (hash.RegisterHash) and in the
// crypto registry, each entry point is exercised on generated input, and the
// call sites that took their SHA-1 from a non-detecting registry are reported.
package c05

import (
	"bytes"
	"crypto"
	"crypto/sha1"
	"encoding/hex"
	"fmt"
	stdhash "hash"
	"io"
	"os"
	"path/filepath"
	"runtime"
	"sort"
	"strings"
	"sync"
	"testing"

	"github.com/go-git/go-billy/v6/memfs"
	git "github.com/go-git/go-git/v6"
	"github.com/go-git/go-git/v6/plumbing"
	"github.com/go-git/go-git/v6/plumbing/cache"
	"github.com/go-git/go-git/v6/plumbing/format/commitgraph"
	format "github.com/go-git/go-git/v6/plumbing/format/config"
	"github.com/go-git/go-git/v6/plumbing/format/idxfile"
	"github.com/go-git/go-git/v6/plumbing/format/index"
	"github.com/go-git/go-git/v6/plumbing/format/objfile"
	"github.com/go-git/go-git/v6/plumbing/format/packfile"
	"github.com/go-git/go-git/v6/plumbing/format/revfile"
	gghash "github.com/go-git/go-git/v6/plumbing/hash"
	"github.com/go-git/go-git/v6/storage/filesystem"
	"github.com/go-git/go-git/v6/storage/memory"
	mfs "github.com/go-git/go-git/v6/utils/merkletrie/filesystem"
	"pgregory.net/rapid"

	"verif/harness/lib/evid"
)

// the root package is what EXTENDING.md / crypto.go document as setting up the
// default hash implementations; keep it linked.
var _ = git.ErrRepositoryNotExists

// ---------------------------------------------------------------------------
// corpus

type pair struct {
	name   string
	a, b   []byte
	minLen int // both messages must be kept at least this long (end of the last differing block)
}

var (
	corpusOnce sync.Once
	pairs      []pair
)

func corpus() []pair {
	corpusOnce.Do(func() {
		root := os.Getenv("VERIF_ROOT")
		if root == "" {
			root = "/verif"
		}
		dir := filepath.Join(root, "corpus", "C05")
		for _, n := range [][3]string{{"shattered", "shattered-1.pdf", "shattered-2.pdf"}, {"shambles", "sha-mbles-1.bin", "sha-mbles-2.bin"}} {
			a, err := os.ReadFile(filepath.Join(dir, n[1]))
			if err != nil {
				panic("INFRA: corpus: " + err.Error())
			}
			b, err := os.ReadFile(filepath.Join(dir, n[2]))
			if err != nil {
				panic("INFRA: corpus: " + err.Error())
			}
			if len(a) != len(b) || bytes.Equal(a, b) || sha1.Sum(a) != sha1.Sum(b) {
				panic("INFRA: corpus pair " + n[0] + " is not a SHA-1 collision")
			}
			last := 0
			for i := range a {
				if a[i] != b[i] {
					last = i
				}
			}
			pairs = append(pairs, pair{name: n[0], a: a, b: b, minLen: (last/64 + 1) * 64})
		}
	})
	return pairs
}

// ---------------------------------------------------------------------------
// TestC05: raw streams

// rawEntries are the go-git entry points handing out a raw SHA-1 stream.
var rawEntries = []string{"hash.New", "hash.FromObjectFormat", "plumbing.NewHasher"}

func rawHash(entry string) stdhash.Hash {
	switch entry {
	case "hash.New":
		return gghash.New(crypto.SHA1)
	case "hash.FromObjectFormat":
		h, err := gghash.FromObjectFormat(format.SHA1)
		if err != nil {
			panic("INFRA: hash.FromObjectFormat(SHA1): " + err.Error())
		}
		return h
	case "plumbing.NewHasher":
		// Hasher embeds the hash.Hash it names objects with; Reset() on the
		// embedded hash drops the object header so the stream is raw.
		h := plumbing.NewHasher(format.SHA1, plumbing.BlobObject, 0)
		h.Hash.Reset()
		return h.Hash
	}
	panic("INFRA: unknown entry " + entry)
}

// Case is one message (or colliding message pair) hashed through one entry point.
type Case struct {
	Entry  string // one of rawEntries
	Family string // "shattered", "shambles", "random"
	Keep   int    // colliding families: bytes of the published file kept (>= end of the collision blocks)
	Tail   []byte // colliding families: common suffix; random: the whole message
	Cuts   []int  // Write boundaries (taken modulo the message length)
	MidSum bool   // call Sum(nil) after every Write as well (must not disturb the state)
}

func gen(t *rapid.T, _ *evid.Recorder) Case {
	c := Case{Entry: rapid.SampledFrom(rawEntries).Draw(t, "entry")}
	fam := rapid.IntRange(0, 9).Draw(t, "family")
	switch {
	case fam < 4:
		c.Family = "shattered"
	case fam < 8:
		c.Family = "shambles"
	default:
		c.Family = "random"
	}
	if c.Family == "random" {
		c.Tail = rapid.SliceOfN(rapid.Byte(), 0, 300).Draw(t, "msg")
	} else {
		var p pair
		for _, q := range corpus() {
			if q.name == c.Family {
				p = q
			}
		}
		switch rapid.IntRange(0, 11).Draw(t, "keepmode") {
		case 0:
			c.Keep = len(p.a)
		case 1, 2, 3, 4, 5, 6, 7:
			c.Keep = p.minLen
		default:
			hi := len(p.a)
			if hi > p.minLen+2048 {
				hi = p.minLen + 2048
			}
			c.Keep = rapid.IntRange(p.minLen, hi).Draw(t, "keep")
		}
		if rapid.Bool().Draw(t, "hastail") {
			c.Tail = rapid.SliceOfN(rapid.Byte(), 1, 200).Draw(t, "tail")
		}
	}
	nc := rapid.IntRange(0, 4).Draw(t, "ncuts")
	for i := 0; i < nc; i++ {
		c.Cuts = append(c.Cuts, rapid.IntRange(0, 1<<20).Draw(t, "cut"))
	}
	c.MidSum = rapid.IntRange(0, 3).Draw(t, "midsum") == 0
	return c
}

func digest(entry string, msg []byte, cuts []int, midSum bool) []byte {
	h := rawHash(entry)
	var cs []int
	if len(msg) > 0 {
		for _, c := range cuts {
			cs = append(cs, c%(len(msg)+1))
		}
	}
	sort.Ints(cs)
	prev := 0
	for _, c := range append(cs, len(msg)) {
		if c < prev {
			continue
		}
		n, err := h.Write(msg[prev:c])
		if err != nil || n != c-prev {
			panic(fmt.Sprintf("INFRA: hash.Write returned %d, %v", n, err))
		}
		if midSum {
			h.Sum(nil)
		}
		prev = c
	}
	return h.Sum(nil)
}

func sigFor(site string) string { return "C05/nondetecting-sha1@" + site }

func check(c Case) evid.Result {
	res := evid.Result{}
	okEntry := false
	for _, e := range rawEntries {
		okEntry = okEntry || e == c.Entry
	}
	if !okEntry {
		res.Discard = true
		return res
	}
	res.Labels = append(res.Labels, "entry:"+c.Entry, "family:"+c.Family)
	if len(c.Cuts) > 0 {
		res.Labels = append(res.Labels, "split-writes")
	}
	if c.Family == "random" {
		want := sha1.Sum(c.Tail)
		got := digest(c.Entry, c.Tail, c.Cuts, c.MidSum)
		if !bytes.Equal(got, want[:]) {
			res.Fail = evid.Failf("C05/wrong-digest-noncolliding@"+c.Entry, "%s on a %d-byte non-colliding message: %x, SHA-1 is %x", c.Entry, len(c.Tail), got, want)
		}
		return res
	}
	var p *pair
	for i, q := range corpus() {
		if q.name == c.Family {
			p = &corpus()[i]
		}
	}
	if p == nil || c.Keep < p.minLen || c.Keep > len(p.a) {
		res.Discard = true
		return res
	}
	m1 := append(append([]byte{}, p.a[:c.Keep]...), c.Tail...)
	m2 := append(append([]byte{}, p.b[:c.Keep]...), c.Tail...)
	s1, s2 := sha1.Sum(m1), sha1.Sum(m2)
	if s1 != s2 {
		panic("INFRA: corpus pair does not collide after truncation/suffix")
	}
	res.NonTrivial = len(c.Tail) > 0 || len(c.Cuts) > 0
	if len(c.Tail) > 0 {
		res.Labels = append(res.Labels, "suffix")
	}
	if c.Keep == len(p.a) {
		res.Labels = append(res.Labels, "whole-file")
	}
	d1 := digest(c.Entry, m1, c.Cuts, c.MidSum)
	d2 := digest(c.Entry, m2, c.Cuts, c.MidSum)
	switch {
	case bytes.Equal(d1, s1[:]) || bytes.Equal(d2, s2[:]):
		res.Fail = evid.Failf(sigFor(c.Entry), "%s returns the attacker's colliding digest %x for %s message (keep=%d, suffix %d bytes): digests %x / %x",
			c.Entry, s1, c.Family, c.Keep, len(c.Tail), d1, d2)
	case bytes.Equal(d1, d2):
		res.Fail = evid.Failf(sigFor(c.Entry), "%s gives both %s messages the same digest %x", c.Entry, c.Family, d1)
	}
	return res
}

func TestC05(t *testing.T) {
	evid.Run(t, evid.Spec[Case]{ID: "C05", Gen: gen, Check: check})
}

// ---------------------------------------------------------------------------
// TestC05Identity: which registry does each SHA-1 using entry point draw from?

const modPrefix = "github.com/go-git/go-git/v6/"

// probe state (one check at a time; TestC05Identity is not parallel)
var (
	probeMu      sync.Mutex
	hitsGoGit    = map[string]int{} // site -> instantiations through go-git's registry
	hitsCrypto   = map[string]int{} // site -> instantiations through the crypto registry
	spyInstalled bool
	cryptoSafe   bool // the crypto registry's SHA-1 detects the collisions (decided before the spies go in)
	gogitSafe    bool // go-git's registry default detects the collisions
)

// site names the go-git function that asked a registry for a hash: the
// innermost frame inside go-git that is not the registry package itself.
func site() string {
	pc := make([]uintptr, 48)
	n := runtime.Callers(3, pc)
	fr := runtime.CallersFrames(pc[:n])
	for {
		f, more := fr.Next()
		if strings.HasPrefix(f.Function, modPrefix) {
			fn := strings.TrimPrefix(f.Function, modPrefix)
			if !strings.HasPrefix(fn, "plumbing/hash.") {
				fn = strings.TrimPrefix(fn, "plumbing/format/")
				fn = strings.TrimPrefix(fn, "storage/filesystem/")
				return fn
			}
		}
		if !more {
			return "(caller-outside-go-git)"
		}
	}
}

func detects(newHash func() stdhash.Hash) (ok bool) {
	defer func() {
		if recover() != nil {
			ok = false
		}
	}()
	for _, p := range corpus() {
		h1, h2 := newHash(), newHash()
		h1.Write(p.a)
		h2.Write(p.b)
		d1, d2 := h1.Sum(nil), h2.Sum(nil)
		std := sha1.Sum(p.a)
		if bytes.Equal(d1, d2) || bytes.Equal(d1, std[:]) || bytes.Equal(d2, std[:]) {
			return false
		}
	}
	return true
}

func installSpies() {
	if spyInstalled {
		return
	}
	cryptoSafe = detects(func() stdhash.Hash { return crypto.SHA1.New() })
	gogitSafe = detects(func() stdhash.Hash { return gghash.New(crypto.SHA1) })
	// The spies only ever see generated, non-colliding input, for which every
	// correct SHA-1 gives the same digest.
	if err := gghash.RegisterHash(crypto.SHA1, func() stdhash.Hash {
		s := site()
		probeMu.Lock()
		hitsGoGit[s]++
		probeMu.Unlock()
		return sha1.New()
	}); err != nil {
		panic("INFRA: hash.RegisterHash: " + err.Error())
	}
	crypto.RegisterHash(crypto.SHA1, func() stdhash.Hash {
		s := site()
		probeMu.Lock()
		hitsCrypto[s]++
		probeMu.Unlock()
		return sha1.New()
	})
	spyInstalled = true
}

// ICase is one exercise of one entry point.
type ICase struct {
	Entry string
	Type  int      // object type selector
	Blobs [][]byte // object contents / file contents
	Names []string // file names (index / worktree entries)
}

var identEntries = []string{
	"ObjectHasher.Compute", "Hasher.Sum", "FromHash.Compute", "MemoryObject.Hash", "memory.SetEncodedObject",
	"objfile.Writer", "objfile.Reader", "packfile.Encoder", "packfile.Parser", "fs.PackfileWriter",
	"fs.EncodedObject-packed", "fs.EncodedObject-packed-memidx", "fs.IterEncodedObjects-packed", "fs.SetEncodedObject", "fs.EncodedObject-loose", "fs.SetIndex", "fs.Index",
	"revfile.Decode", "commitgraph.Encoder", "worktree.FileHash",
}

var objTypes = []plumbing.ObjectType{plumbing.BlobObject, plumbing.CommitObject, plumbing.TreeObject, plumbing.TagObject}

func genI(t *rapid.T, _ *evid.Recorder) ICase {
	c := ICase{Entry: rapid.SampledFrom(identEntries).Draw(t, "entry"), Type: rapid.IntRange(0, 3).Draw(t, "type")}
	n := rapid.IntRange(1, 4).Draw(t, "nblobs")
	base := rapid.SliceOfN(rapid.Byte(), 0, 120).Draw(t, "base")
	for i := 0; i < n; i++ {
		if i > 0 && rapid.Bool().Draw(t, "similar") { // delta candidates
			b := append([]byte{}, base...)
			b = append(b, rapid.SliceOfN(rapid.Byte(), 1, 20).Draw(t, "extra")...)
			c.Blobs = append(c.Blobs, b)
		} else {
			c.Blobs = append(c.Blobs, rapid.SliceOfN(rapid.Byte(), 0, 200).Draw(t, "blob"))
		}
		c.Names = append(c.Names, rapid.StringMatching(`[a-z]{1,6}`).Draw(t, "name"))
	}
	if len(c.Blobs) > 0 && len(c.Blobs[0]) == 0 && len(base) > 0 {
		c.Blobs[0] = base
	}
	return c
}

func must(err error, what string) {
	if err != nil {
		panic("INFRA: C05 identity probe, " + what + ": " + err.Error())
	}
}

func gitID(t plumbing.ObjectType, data []byte) plumbing.Hash {
	h := sha1.New()
	fmt.Fprintf(h, "%s %d\x00", t.String(), len(data))
	h.Write(data)
	return plumbing.NewHash(hex.EncodeToString(h.Sum(nil)))
}

func blobStore(blobs [][]byte) (*memory.Storage, []plumbing.Hash) {
	st := memory.NewStorage()
	var hs []plumbing.Hash
	seen := map[plumbing.Hash]bool{}
	for _, b := range blobs {
		o := st.NewEncodedObject()
		o.SetType(plumbing.BlobObject)
		o.SetSize(int64(len(b)))
		w, err := o.Writer()
		must(err, "memory object writer")
		w.Write(b)
		w.Close()
		h, err := st.SetEncodedObject(o)
		must(err, "memory SetEncodedObject")
		if !seen[h] {
			seen[h] = true
			hs = append(hs, h)
		}
	}
	return st, hs
}

func buildPack(blobs [][]byte) ([]byte, []plumbing.Hash) {
	st, hs := blobStore(blobs)
	var buf bytes.Buffer
	_, err := packfile.NewEncoder(&buf, st, false).Encode(hs, 10)
	must(err, "packfile encode")
	return buf.Bytes(), hs
}

func resetHits() {
	probeMu.Lock()
	hitsGoGit, hitsCrypto = map[string]int{}, map[string]int{}
	probeMu.Unlock()
}

// exercise runs the entry point; set-up that itself hashes is done before
// resetHits so only the entry point's own instantiations are attributed.
func exercise(c ICase) {
	ot := objTypes[((c.Type%4)+4)%4]
	data := []byte{}
	if len(c.Blobs) > 0 {
		data = c.Blobs[0]
	}
	want := gitID(ot, data)
	expect := func(got plumbing.Hash, what string) {
		if got != want {
			panic(fmt.Sprintf("INFRA: C05 identity probe: %s returned %s, expected %s (spy registries hand out a plain SHA-1)", what, got, want))
		}
	}
	switch c.Entry {
	case "ObjectHasher.Compute":
		resetHits()
		h, err := plumbing.FromObjectFormat(format.SHA1).Compute(ot, data)
		must(err, "Compute")
		expect(h, c.Entry)
	case "Hasher.Sum":
		resetHits()
		h := plumbing.NewHasher(format.SHA1, ot, int64(len(data)))
		h.Write(data)
		expect(h.Sum(), c.Entry)
	case "FromHash.Compute":
		seed := sha1.New() // only its Size() is consulted
		resetHits()
		oh, err := plumbing.FromHash(seed)
		must(err, "FromHash")
		h, err := oh.Compute(ot, data)
		must(err, "Compute")
		expect(h, c.Entry)
	case "MemoryObject.Hash":
		o := &plumbing.MemoryObject{}
		o.SetType(ot)
		o.Write(data)
		resetHits()
		expect(o.Hash(), c.Entry)
	case "memory.SetEncodedObject":
		resetHits()
		st := memory.NewStorage()
		o := st.NewEncodedObject()
		o.SetType(ot)
		o.SetSize(int64(len(data)))
		w, err := o.Writer()
		must(err, "writer")
		w.Write(data)
		w.Close()
		h, err := st.SetEncodedObject(o)
		must(err, "SetEncodedObject")
		expect(h, c.Entry)
	case "objfile.Writer", "objfile.Reader":
		var buf bytes.Buffer
		resetHits()
		w := objfile.NewWriter(&buf, format.SHA1)
		must(w.WriteHeader(ot, int64(len(data))), "objfile WriteHeader")
		_, err := w.Write(data)
		must(err, "objfile Write")
		must(w.Close(), "objfile Close")
		expect(w.Hash(), "objfile.Writer")
		if c.Entry == "objfile.Reader" {
			resetHits()
			r, err := objfile.NewReader(&buf, format.SHA1)
			must(err, "objfile NewReader")
			_, _, err = r.Header()
			must(err, "objfile Header")
			_, err = io.Copy(io.Discard, r)
			must(err, "objfile Read")
			expect(r.Hash(), c.Entry)
			r.Close()
		}
	case "packfile.Encoder":
		st, hs := blobStore(c.Blobs)
		var buf bytes.Buffer
		resetHits()
		_, err := packfile.NewEncoder(&buf, st, false).Encode(hs, 10)
		must(err, "packfile encode")
	case "packfile.Parser":
		pack, hs := buildPack(c.Blobs)
		resetHits()
		st := memory.NewStorage()
		_, err := packfile.NewParser(bytes.NewReader(pack), packfile.WithStorage(st)).Parse()
		must(err, "packfile parse")
		for _, h := range hs {
			_, err := st.EncodedObject(plumbing.AnyObject, h)
			must(err, "parsed object lookup")
		}
	case "fs.PackfileWriter", "fs.EncodedObject-packed", "fs.EncodedObject-packed-memidx", "fs.IterEncodedObjects-packed":
		pack, hs := buildPack(c.Blobs)
		fs := memfs.New()
		resetHits()
		st := filesystem.NewStorage(fs, cache.NewObjectLRUDefault())
		must(st.Init(), "storage init")
		w, err := st.PackfileWriter()
		must(err, "PackfileWriter")
		_, err = w.Write(pack)
		must(err, "PackfileWriter write")
		must(w.Close(), "PackfileWriter close")
		st.Close()
		if c.Entry == "fs.IterEncodedObjects-packed" {
			resetHits()
			st2 := filesystem.NewStorage(fs, cache.NewObjectLRUDefault())
			it, err := st2.IterEncodedObjects(plumbing.BlobObject)
			must(err, "IterEncodedObjects")
			n := 0
			must(it.ForEach(func(o plumbing.EncodedObject) error { n++; return nil }), "iterate packed objects")
			if n != len(hs) {
				panic(fmt.Sprintf("INFRA: C05 identity probe: iterated %d packed objects, expected %d", n, len(hs)))
			}
			st2.Close()
		}
		if c.Entry == "fs.EncodedObject-packed" || c.Entry == "fs.EncodedObject-packed-memidx" {
			resetHits()
			st2 := filesystem.NewStorageWithOptions(fs, cache.NewObjectLRUDefault(), filesystem.Options{UseInMemoryIdx: c.Entry == "fs.EncodedObject-packed-memidx"})
			for _, h := range hs {
				o, err := st2.EncodedObject(plumbing.AnyObject, h)
				must(err, "EncodedObject from pack")
				r, err := o.Reader()
				must(err, "packed object reader")
				io.Copy(io.Discard, r)
				r.Close()
			}
			st2.Close()
		}
	case "fs.SetEncodedObject", "fs.EncodedObject-loose":
		fs := memfs.New()
		resetHits()
		st := filesystem.NewStorage(fs, cache.NewObjectLRUDefault())
		must(st.Init(), "storage init")
		o := st.NewEncodedObject()
		o.SetType(ot)
		o.SetSize(int64(len(data)))
		w, err := o.Writer()
		must(err, "writer")
		w.Write(data)
		w.Close()
		h, err := st.SetEncodedObject(o)
		must(err, "fs SetEncodedObject")
		expect(h, "fs.SetEncodedObject")
		st.Close()
		if c.Entry == "fs.EncodedObject-loose" {
			resetHits()
			st2 := filesystem.NewStorage(fs, cache.NewObjectLRUDefault())
			o, err := st2.EncodedObject(plumbing.AnyObject, want)
			must(err, "EncodedObject loose")
			expect(o.Hash(), c.Entry)
			st2.Close()
		}
	case "fs.SetIndex", "fs.Index":
		fs := memfs.New()
		idx := &index.Index{Version: 2}
		seen := map[string]bool{}
		names := append([]string{}, c.Names...)
		sort.Strings(names)
		for i, n := range names {
			if seen[n] {
				continue
			}
			seen[n] = true
			var b []byte
			if i < len(c.Blobs) {
				b = c.Blobs[i]
			}
			idx.Entries = append(idx.Entries, &index.Entry{Name: n, Hash: gitID(plumbing.BlobObject, b), Mode: 0o100644, Size: uint32(len(b))})
		}
		resetHits()
		st := filesystem.NewStorage(fs, cache.NewObjectLRUDefault())
		must(st.Init(), "storage init")
		must(st.SetIndex(idx), "SetIndex")
		st.Close()
		if c.Entry == "fs.Index" {
			resetHits()
			st2 := filesystem.NewStorage(fs, cache.NewObjectLRUDefault())
			got, err := st2.Index()
			must(err, "Index")
			if len(got.Entries) != len(idx.Entries) {
				panic("INFRA: C05 identity probe: index round trip lost entries")
			}
			st2.Close()
		}
	case "revfile.Decode":
		pack, _ := buildPack(c.Blobs)
		mi := idxfile.NewMemoryIndex(20)
		w := new(idxfile.Writer)
		_, err := packfile.NewParser(bytes.NewReader(pack), packfile.WithScannerObservers(w)).Parse()
		must(err, "parse for idx")
		mi, err = w.Index()
		must(err, "idx writer")
		var rev bytes.Buffer
		must(revfile.Encode(&rev, sha1.New(), mi), "revfile encode")
		cnt, err := mi.Count()
		must(err, "count")
		out := make(chan uint32, cnt+1)
		resetHits()
		must(revfile.Decode(bytes.NewReader(rev.Bytes()), cnt, mi.PackfileChecksum, out), "revfile decode")
	case "commitgraph.Encoder":
		var buf bytes.Buffer
		mi := commitgraph.NewMemoryIndex()
		for i, b := range c.Blobs {
			mi.Add(gitID(plumbing.CommitObject, append([]byte{byte(i)}, b...)), &commitgraph.CommitData{TreeHash: gitID(plumbing.TreeObject, nil)})
		}
		resetHits()
		must(commitgraph.NewEncoder(&buf).Encode(mi), "commitgraph encode")
	case "worktree.FileHash":
		fs := memfs.New()
		f, err := fs.Create("f")
		must(err, "create")
		f.Write(data)
		f.Close()
		resetHits()
		root := mfs.NewRootNode(fs, nil)
		ch, err := root.Children()
		must(err, "children")
		if len(ch) != 1 {
			panic("INFRA: C05 identity probe: worktree node count")
		}
		got := ch[0].Hash()
		w := gitID(plumbing.BlobObject, data)
		if !bytes.HasPrefix(got, w.Bytes()) {
			panic(fmt.Sprintf("INFRA: C05 identity probe: worktree file hash %x, expected prefix %s", got, w))
		}
	default:
		panic("INFRA: unknown entry " + c.Entry)
	}
}

func knownSigs() map[string]bool {
	m := map[string]bool{}
	for _, s := range strings.Split(os.Getenv("VERIF_KNOWN"), "\x1f") {
		if s != "" {
			m[s] = true
		}
	}
	return m
}

func checkI(c ICase) evid.Result {
	res := evid.Result{}
	ok := false
	for _, e := range identEntries {
		ok = ok || e == c.Entry
	}
	if !ok || len(c.Blobs) == 0 || len(c.Names) < len(c.Blobs) {
		res.Discard = true
		return res
	}
	installSpies()
	exercise(c)
	probeMu.Lock()
	var gs, cs []string
	for s := range hitsGoGit {
		gs = append(gs, s)
	}
	for s := range hitsCrypto {
		cs = append(cs, s)
	}
	probeMu.Unlock()
	sort.Strings(gs)
	sort.Strings(cs)
	res.Labels = append(res.Labels, "entry:"+c.Entry)
	for _, s := range gs {
		res.Labels = append(res.Labels, "via-gogit-registry@"+s)
	}
	for _, s := range cs {
		res.Labels = append(res.Labels, "via-crypto-registry@"+s)
	}
	if len(gs)+len(cs) == 0 {
		// neither registry was asked: the source of this entry point's SHA-1 is
		// not observable from outside; nothing is claimed for it.
		res.Labels = append(res.Labels, "sha1-source-unobserved")
		return res
	}
	res.NonTrivial = true
	var bad []string
	if !gogitSafe {
		if len(gs) > 0 {
			bad = append(bad, "hash.New")
		}
	}
	if !cryptoSafe {
		bad = append(bad, cs...)
	}
	if len(bad) > 0 {
		// several sites can be reached by one entry point: report the first one
		// that is not already a confirmed known finding, so that each site gets
		// its own signature and a new site is never hidden behind a known one.
		known := knownSigs()
		pick := bad[0]
		for _, s := range bad {
			if !known[sigFor(s)] {
				pick = s
				break
			}
		}
		res.Fail = evid.Failf(sigFor(pick), "entry point %s: %s instantiates its SHA-1 from a registry whose implementation does not detect the SHAttered/SHA-mbles collisions "+
			"(crypto registry detecting=%v, go-git registry default detecting=%v; all such sites reached: %v; sites using go-git's registry: %v)",
			c.Entry, pick, cryptoSafe, gogitSafe, bad, gs)
	}
	return res
}

func TestC05Identity(t *testing.T) {
	evid.Run(t, evid.Spec[ICase]{ID: "C05", Gen: genI, Check: checkI})
}
