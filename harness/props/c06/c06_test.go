// Package c06 decides C06: DiffDelta round-trips, and every delta applier of
// go-git (PatchDelta, ApplyDelta, ReaderFromDelta, the pack parser's
// patchDeltaWriter reached through a generated two-entry pack) agrees with a
// reference applier transcribed from git's patch-delta.c on every delta
// stream: same bytes when git accepts, an error when git rejects.
// TestC06Git additionally validates the reference against the real
// `git index-pack` on the same generated packs.
package c06

import (
	"bytes"
	"compress/zlib"
	"crypto/sha1"
	"encoding/binary"
	"encoding/hex"
	"fmt"
	"io"
	"os"
	"path/filepath"
	"sort"
	"strings"
	"sync"
	"testing"

	"github.com/go-git/go-git/v6/plumbing"
	"github.com/go-git/go-git/v6/plumbing/format/packfile"
	"github.com/go-git/go-git/v6/storage/memory"
	"pgregory.net/rapid"

	"verif/harness/lib/evid"
	"verif/harness/lib/gitx"
)

// ---------------------------------------------------------------------------
// case

// Blob is a compact recipe for a byte string: Lit followed by N bytes of a
// xorshift stream seeded with Seed; with Period > 0 the stream repeats every
// Period bytes (repeated blocks).
type Blob struct {
	Lit    []byte
	Seed   uint32
	N      int
	Period int
}

func (b Blob) expand() []byte {
	out := make([]byte, 0, len(b.Lit)+b.N)
	out = append(out, b.Lit...)
	if b.N <= 0 {
		return out
	}
	p := b.N
	if b.Period > 0 && b.Period < p {
		p = b.Period
	}
	x := b.Seed | 1
	blk := make([]byte, p)
	for i := range blk {
		x ^= x << 13
		x ^= x >> 17
		x ^= x << 5
		blk[i] = byte(x >> 8)
	}
	for len(out) < len(b.Lit)+b.N {
		n := len(b.Lit) + b.N - len(out)
		if n > p {
			n = p
		}
		out = append(out, blk[:n]...)
	}
	return out
}

// Op is one step of an edit script ("diff" mode: builds the target from the
// source) or one delta command ("asm" mode: emitted as is, valid or not).
type Op struct {
	K    int  // 0 copy from source, 1 insert, 2 raw opcode bytes (asm only)
	Off  int  // copy offset (diff: modulo the source length)
	Len  int  // copy length (diff: clipped to the source)
	Full bool // asm copy: emit all seven parameter bytes, even zero ones
	Data Blob // insert payload / raw bytes
}

// Mut is one byte-level mutation applied to the finished delta.
type Mut struct {
	K    int // 0 truncate to Pos, 1 append Data, 2 xor byte at Pos with B, 3 delete byte at Pos, 4 insert byte B at Pos
	Pos  int
	B    byte
	Data []byte
}

// Case is one (source, delta) pair and how to embed it in a pack.
type Case struct {
	Mode   string // "diff": delta = DiffDelta(src, target(Ops)); "asm": assembled from Ops; "raw": Raw bytes
	Src    Blob
	Ops    []Op
	SrcAdj int64 // asm: added to the source size written in the header
	TgtAdj int64 // asm: added to the target size written in the header
	SrcPad int   // asm: extra (non canonical) continuation bytes in the header varints
	TgtPad int
	Raw    []byte // raw mode: delta bytes
	RawHdr bool   // raw mode: prefix Raw with LEB128(len(src))
	Muts   []Mut
	Ref    bool // pack entry is REF_DELTA instead of OFS_DELTA
	PV     int  // parser variant: bit0 = input is not seekable, bit1 = no storage (observer only)
	// Only restricts the comparison to one applier ("PatchDelta", "ApplyDelta",
	// "ReaderFromDelta", "Parser"); empty in generated cases (all appliers are
	// compared). Used by witness files so that each applier's divergence on a
	// shared input shape has its own reproducer.
	Only string `json:",omitempty"`
}

var fuzzSeeds = [][2]string{ // FuzzPatchDelta's seed corpus in /repo
	{"some value", "\n\f\fsomenewvalue"},
	{"some value", "\n\x0e\x0evalue"},
	{"some value", "\n\x0e\x0eva"},
	{"some value", "\n\x80\x80\x80\x80\x80\x802\x7fvalue"},
	{"AAAAAAAAAA", "\n\n\aBBBBBBB\aCCCCCCC"},
	{"AAAAAAAAAA", "\n\n\x90\a\x90\a"},
}

// pick draws an index with the given integer weights. rapid's integer
// generators favour small values, so the choice is made from a uniform-ish
// 16-bit draw instead of a small IntRange.
func pick(t *rapid.T, label string, weights ...int) int {
	total := 0
	for _, w := range weights {
		total += w
	}
	x := int(scramble(rapid.Uint16().Draw(t, label))) % total
	for i, w := range weights {
		if x < w {
			return i
		}
		x -= w
	}
	return 0
}

// scramble spreads rapid's small-biased integers over the 16-bit range
// (0 stays 0, so shrinking still converges to the first alternative).
func scramble(x uint16) uint16 { return uint16(uint32(x) * 40503) }

func genBlob(t *rapid.T, label string, maxN int) Blob {
	b := Blob{}
	switch pick(t, label+"-kind", 8, 4, 3, 2, 2, 1) {
	case 0: // pseudo-random
		b.Seed = rapid.Uint32().Draw(t, label+"-seed")
		b.N = rapid.IntRange(1, maxN).Draw(t, label+"-n")
		if rapid.Bool().Draw(t, label+"-atleast64") && b.N < 64 {
			b.N += 64
		}
	case 1: // repeated block
		b.Seed = rapid.Uint32().Draw(t, label+"-seed")
		b.N = rapid.IntRange(17, min(maxN, 4000)).Draw(t, label+"-n")
		b.Period = rapid.SampledFrom([]int{1, 3, 16, 17, 64, 100}).Draw(t, label+"-period")
	case 2: // literal over a tiny alphabet (many repeats)
		b.Lit = rapid.SliceOfN(rapid.SampledFrom([]byte("ab\n")), 1, 80).Draw(t, label+"-lit")
	case 3: // exactly one or two 16-byte blocks
		b.Seed = rapid.Uint32().Draw(t, label+"-seed")
		b.N = rapid.SampledFrom([]int{15, 16, 17, 31, 32, 33}).Draw(t, label+"-n")
	case 4: // tiny literal
		b.Lit = rapid.SliceOfN(rapid.Byte(), 1, 6).Draw(t, label+"-lit")
	default: // empty
	}
	return b
}

func gen(t *rapid.T, _ *evid.Recorder) Case {
	c := Case{Ref: pick(t, "ref", 3, 1) == 1, PV: pick(t, "pv", 1, 1, 1, 1)}
	// source size class
	maxN := 600
	switch sz := pick(t, "szclass", 94, 5, 1); {
	case sz == 1:
		maxN = 200_000 // copies > 64 KiB
	case sz == 2 && evid.Thorough() && pick(t, "huge", 19, 1) == 1:
		maxN = 17_500_000 // offsets > 16 MiB
	}
	c.Src = genBlob(t, "src", maxN)
	if maxN > 600 { // make the large classes large
		lo := maxN / 3
		if maxN > 1<<24 {
			lo = 1<<24 + 100_000
		}
		c.Src = Blob{Seed: rapid.Uint32().Draw(t, "bigseed"), N: rapid.IntRange(lo, maxN).Draw(t, "bign")}
		if pick(t, "bigperiod", 3, 1) == 1 {
			c.Src.Period = rapid.SampledFrom([]int{4096, 65536, 70000}).Draw(t, "period")
		}
	}
	srcLen := len(c.Src.Lit) + c.Src.N
	mode := pick(t, "mode", 8, 8, 3, 1) // diff, asm, raw, round-trip corner
	nops := 1 + pick(t, "nops", 2, 3, 3, 2, 2, 1, 1)
	if pick(t, "noops", 11, 1) == 1 {
		nops = 0
	}
	// hostile: offsets/lengths/opcodes that are mostly invalid; otherwise every
	// command is in range so that multi-command deltas stay valid until mutated
	hostile := pick(t, "hostile", 3, 2) == 1
	genOp := func(asm bool) Op {
		o := Op{}
		k := pick(t, "opk", 5, 4, 1)
		if k == 2 && !(asm && hostile) {
			k = 1
		}
		switch k {
		case 0:
			o.K = 0
			offk, lenk := 3, 5
			if hostile {
				offk = pick(t, "offk", 1, 1, 1, 3)
				lenk = pick(t, "lenk", 1, 1, 1, 1, 1, 3)
			} else if pick(t, "toend", 5, 1) == 1 {
				lenk = 2
			}
			switch offk {
			case 0:
				o.Off = 0
			case 1:
				o.Off = srcLen
			case 2:
				o.Off = rapid.IntRange(0, 1<<25).Draw(t, "off")
			default:
				o.Off = rapid.IntRange(0, max(srcLen-1, 0)).Draw(t, "off")
				if srcLen > 1<<24 && rapid.Bool().Draw(t, "farofs") {
					o.Off = rapid.IntRange(1<<24, srcLen-1).Draw(t, "faroff")
				}
			}
			switch lenk {
			case 0:
				o.Len = 0 // asm: encodes 0x10000
			case 1:
				o.Len = rapid.SampledFrom([]int{1, 15, 16, 17, 0xff, 0x100, 0xffff, 0x10000, 0x10001, 0x20000, 0xffffff}).Draw(t, "len")
			case 2:
				o.Len = max(srcLen-o.Off, 0) // up to the end of the source
			case 3:
				o.Len = max(srcLen-o.Off, 0) + 1 // one past the end
			case 4:
				o.Len = rapid.IntRange(1, max(srcLen, 1)).Draw(t, "len")
			default: // in range, at least one DiffDelta block when possible
				hi := max(srcLen-o.Off, 1)
				o.Len = rapid.IntRange(min(16, hi), hi).Draw(t, "len")
			}
			o.Full = asm && pick(t, "full", 5, 1) == 1
		case 1:
			o.K = 1
			if rapid.Bool().Draw(t, "inslit") {
				o.Data.Lit = rapid.SliceOfN(rapid.Byte(), 1, 12).Draw(t, "ins")
			} else {
				o.Data.Seed = rapid.Uint32().Draw(t, "insseed")
				o.Data.N = rapid.SampledFrom([]int{1, 16, 126, 127, 128, 129, 254, 255, 300}).Draw(t, "insn")
			}
		default:
			o.K = 2
			o.Data.Lit = rapid.SliceOfN(rapid.SampledFrom([]byte{0, 0, 1, 2, 0x7f, 0x80, 0x90, 0x91, 0xb0, 0xff, 'x'}), 1, 4).Draw(t, "rawop")
		}
		return o
	}
	switch mode {
	case 0:
		c.Mode = "diff"
		for i := 0; i < nops; i++ {
			c.Ops = append(c.Ops, genOp(false))
		}
	case 1:
		c.Mode = "asm"
		for i := 0; i < nops; i++ {
			c.Ops = append(c.Ops, genOp(true))
		}
		if hostile {
			if pick(t, "srcadj", 4, 1) == 1 {
				c.SrcAdj = rapid.SampledFrom([]int64{-1, 1, 127, 128, 1 << 32, 1 << 40, 1 << 62}).Draw(t, "srcadjv")
			}
			if pick(t, "tgtadj", 2, 1) == 1 {
				c.TgtAdj = rapid.SampledFrom([]int64{-1, 1, -2, 2, 127, 65536, 1 << 32, 1 << 40, 1 << 62}).Draw(t, "tgtadjv")
			}
		}
		if pick(t, "pad", 7, 1) == 1 {
			c.SrcPad = rapid.IntRange(0, 3).Draw(t, "srcpad")
			c.TgtPad = rapid.IntRange(0, 6).Draw(t, "tgtpad")
		}
	case 2:
		c.Mode = "raw"
		if rapid.Bool().Draw(t, "seedcorpus") {
			s := rapid.SampledFrom(fuzzSeeds).Draw(t, "seed")
			c.Src = Blob{Lit: []byte(s[0])}
			c.Raw = []byte(s[1])
		} else {
			c.RawHdr = pick(t, "rawhdr", 3, 1) == 0
			c.Raw = rapid.SliceOfN(rapid.SampledFrom([]byte{0, 1, 2, 3, 4, 5, 0x7f, 0x80, 0x81, 0x90, 0x91, 0xb0, 0xff, 'a', 'b'}), 0, 14).Draw(t, "raw")
		}
	default: // the empty-target / tiny corner of the round trip
		c.Mode = "diff"
		if rapid.Bool().Draw(t, "one") {
			c.Ops = []Op{{K: 1, Data: Blob{Lit: rapid.SliceOfN(rapid.Byte(), 1, 3).Draw(t, "ins")}}}
		}
	}
	nm := 0
	switch c.Mode {
	case "diff":
		nm = pick(t, "nmut", 4, 1, 1)
	case "asm":
		nm = pick(t, "nmut", 3, 2, 1)
	default:
		nm = pick(t, "nmut", 1, 1)
	}
	for i := 0; i < nm; i++ {
		m := Mut{K: pick(t, "mutk", 3, 1, 2, 1, 1), Pos: int(scramble(rapid.Uint16().Draw(t, "mutpos")))}
		switch m.K {
		case 1:
			m.Data = rapid.SliceOfN(rapid.SampledFrom([]byte{0, 1, 0x80, 0x90, 'z'}), 1, 3).Draw(t, "mutdata")
		case 2:
			m.B = rapid.SampledFrom([]byte{1, 2, 0x10, 0x40, 0x80, 0xff}).Draw(t, "mutb")
		case 4:
			m.B = rapid.SampledFrom([]byte{0, 1, 5, 0x7f, 0x80, 0x90, 0xff}).Draw(t, "mutb")
		}
		c.Muts = append(c.Muts, m)
	}
	return c
}

// ---------------------------------------------------------------------------
// building the delta

func leb(n uint64, pad int) []byte {
	var out []byte
	for {
		b := byte(n & 0x7f)
		n >>= 7
		if n == 0 {
			out = append(out, b)
			break
		}
		out = append(out, b|0x80)
	}
	for i := 0; i < pad; i++ {
		out[len(out)-1] |= 0x80
		out = append(out, 0)
	}
	return out
}

func target(src []byte, ops []Op) []byte {
	var tgt []byte
	for _, o := range ops {
		switch o.K {
		case 0:
			off := 0
			if len(src) > 0 {
				off = ((o.Off % (len(src) + 1)) + len(src) + 1) % (len(src) + 1)
			}
			n := o.Len
			if n < 0 {
				n = 0
			}
			if off+n > len(src) {
				n = len(src) - off
			}
			tgt = append(tgt, src[off:off+n]...)
		default:
			tgt = append(tgt, o.Data.expand()...)
		}
	}
	return tgt
}

func assemble(srcLen int, c Case) []byte {
	var body []byte
	var tsz uint64
	for _, o := range c.Ops {
		switch o.K {
		case 0:
			off := uint32(o.Off)
			n := uint32(o.Len) & 0xffffff
			cmd := byte(0x80)
			var params []byte
			for i := uint(0); i < 4; i++ {
				b := byte(off >> (8 * i))
				if b != 0 || o.Full {
					cmd |= 1 << i
					params = append(params, b)
				}
			}
			enc := n
			if n == 0x10000 && !o.Full {
				enc = 0
			}
			for i := uint(0); i < 3; i++ {
				b := byte(enc >> (8 * i))
				if b != 0 || o.Full {
					cmd |= 0x10 << i
					params = append(params, b)
				}
			}
			body = append(body, cmd)
			body = append(body, params...)
			if n == 0 {
				n = 0x10000
			}
			tsz += uint64(n)
		case 1:
			d := o.Data.expand()
			for len(d) > 0 {
				n := len(d)
				if n > 127 {
					n = 127
				}
				body = append(body, byte(n))
				body = append(body, d[:n]...)
				d = d[n:]
				tsz += uint64(n)
			}
		default:
			body = append(body, o.Data.expand()...)
		}
	}
	out := leb(uint64(int64(srcLen)+c.SrcAdj), c.SrcPad)
	out = append(out, leb(uint64(int64(tsz)+c.TgtAdj), c.TgtPad)...)
	return append(out, body...)
}

func mutate(d []byte, muts []Mut) []byte {
	d = append([]byte{}, d...)
	for _, m := range muts {
		pos := m.Pos
		if pos < 0 {
			pos = -pos
		}
		switch m.K {
		case 0:
			d = d[:pos%(len(d)+1)]
		case 1:
			d = append(d, m.Data...)
		case 2:
			if len(d) > 0 && m.B != 0 {
				d[pos%len(d)] ^= m.B
			}
		case 3:
			if len(d) > 0 {
				p := pos % len(d)
				d = append(d[:p], d[p+1:]...)
			}
		case 4:
			p := pos % (len(d) + 1)
			d = append(d[:p], append([]byte{m.B}, d[p:]...)...)
		}
	}
	return d
}

// ---------------------------------------------------------------------------
// reference applier: git 2.39 patch-delta.c + delta.h:get_delta_hdr_size

type refRes struct {
	ok        bool
	out       []byte
	reason    string // why git rejects ("ok" otherwise)
	undef     bool   // behaviour of the C code is undefined for this input: outside the compared domain
	hdrShort  bool   // a header varint was cut short by the end of the buffer (git tolerates that)
	ncopy     int
	ninsert   int
	bigCopy   bool // a copy longer than 64 KiB in total was applied from consecutive commands / size-0 form
	bigOffset bool // a copy offset beyond 16 MiB was applied
	// a copy command follows (not necessarily directly) a copy that started
	// before the end of its preceding copy, i.e. the source is revisited
	copyAfterBackward bool
}

const deltaSizeMin = 4 // delta.h: DELTA_SIZE_MIN

func refHdr(d []byte, pos int) (size uint64, npos int, die, undef, short bool) {
	// do { cmd = *data++; size |= st_left_shift(cmd & 0x7f, i); i += 7; } while (cmd & 0x80 && data < top);
	i := uint(0)
	for {
		cmd := d[pos]
		pos++
		a := uint64(cmd & 0x7f)
		if i >= 63 {
			// A tenth byte only fits when it carries at most one bit, and from
			// the eleventh on unsigned_left_shift_overflows() no longer guards
			// (shift >= bitsizeof) and the C shift is undefined: header varints
			// longer than nine bytes are outside the compared domain.
			return 0, pos, false, true, false
		} else {
			if a > (^uint64(0))>>i {
				return 0, pos, true, false, false // die("size_t overflow")
			}
			size |= a << i
		}
		i += 7
		if cmd&0x80 == 0 {
			return size, pos, false, false, false
		}
		if pos >= len(d) {
			return size, pos, false, false, true
		}
	}
}

func refPatch(src, d []byte) (r refRes) {
	r.reason = "ok"
	if len(d) < deltaSizeMin {
		r.reason = "delta-shorter-than-4"
		return
	}
	top := len(d)
	size, pos, die, undef, short := refHdr(d, 0)
	if undef {
		r.undef = true
		return
	}
	if die {
		r.reason = "hdr-size-overflow"
		return
	}
	if size != uint64(len(src)) {
		r.reason = "src-size-mismatch"
		return
	}
	if pos >= top {
		// the second header would be read past the end of the buffer (C: out
		// of bounds read): outside the compared domain
		r.undef = true
		return
	}
	r.hdrShort = short
	size, pos, die, undef, short = refHdr(d, pos)
	if undef {
		r.undef = true
		return
	}
	if die {
		r.reason = "hdr-size-overflow"
		return
	}
	r.hdrShort = r.hdrShort || short
	var out []byte
	lastEnd, run := uint64(1<<63), uint64(0)
	basePos, sawBackward := uint64(0), false
	for pos < top {
		trailing := size == 0
		cmd := d[pos]
		pos++
		if cmd&0x80 != 0 {
			var cpOff, cpSize uint64
			for i := uint(0); i < 7; i++ {
				if cmd&(1<<i) != 0 {
					if pos >= top {
						r.reason = "eof-in-copy-params"
						if trailing {
							r.reason = "trailing-data"
						}
						return
					}
					v := uint64(d[pos])
					pos++
					if i < 4 {
						cpOff |= v << (8 * i)
					} else {
						cpSize |= v << (8 * (i - 4))
					}
				}
			}
			if cpSize == 0 {
				cpSize = 0x10000
			}
			if cpOff+cpSize > uint64(len(src)) {
				r.reason = "copy-out-of-range"
				if trailing {
					r.reason = "trailing-data"
				}
				return
			}
			if cpSize > size {
				r.reason = "copy-exceeds-target"
				if trailing {
					r.reason = "trailing-data"
				}
				return
			}
			out = append(out, src[cpOff:cpOff+cpSize]...)
			size -= cpSize
			r.ncopy++
			if sawBackward {
				r.copyAfterBackward = true
			}
			if cpOff < basePos {
				sawBackward = true
			}
			basePos = cpOff + cpSize
			if cpOff == lastEnd {
				run += cpSize
			} else {
				run = cpSize
			}
			lastEnd = cpOff + cpSize
			if run > 0x10000 {
				r.bigCopy = true
			}
			if cpOff >= 1<<24 {
				r.bigOffset = true
			}
		} else if cmd != 0 {
			n := uint64(cmd)
			if n > size {
				r.reason = "insert-exceeds-target"
				if trailing {
					r.reason = "trailing-data"
				}
				return
			}
			if n > uint64(top-pos) {
				r.reason = "insert-past-end"
				return
			}
			out = append(out, d[pos:pos+int(n)]...)
			pos += int(n)
			size -= n
			r.ninsert++
			lastEnd = 1 << 63
		} else {
			r.reason = "opcode-0"
			if trailing {
				r.reason = "trailing-data"
			}
			return
		}
	}
	if size != 0 { // data == top here
		r.reason = "target-short"
		return
	}
	r.ok, r.out = true, out
	return
}

// ---------------------------------------------------------------------------
// go-git appliers

type goRes struct {
	applier string
	ok      bool
	out     []byte
	err     error
	note    string
}

func blobObj(b []byte) *plumbing.MemoryObject {
	o := &plumbing.MemoryObject{}
	o.SetType(plumbing.BlobObject)
	o.Write(b)
	return o
}

func blobID(b []byte) plumbing.Hash {
	h := sha1.New()
	fmt.Fprintf(h, "blob %d\x00", len(b))
	h.Write(b)
	return plumbing.NewHash(hex.EncodeToString(h.Sum(nil)))
}

func runPatchDelta(src, d []byte) goRes {
	out, err := packfile.PatchDelta(src, d)
	return goRes{applier: "PatchDelta", ok: err == nil, out: out, err: err}
}

func runApplyDelta(src, d []byte) goRes {
	tgt := &plumbing.MemoryObject{}
	tgt.SetType(plumbing.BlobObject)
	err := packfile.ApplyDelta(tgt, blobObj(src), bytes.NewBuffer(append([]byte{}, d...)))
	r := goRes{applier: "ApplyDelta", ok: err == nil, err: err}
	if err == nil {
		rd, _ := tgt.Reader()
		r.out, _ = io.ReadAll(rd)
		if tgt.Size() != int64(len(r.out)) {
			r.note = fmt.Sprintf("target object Size()=%d but %d bytes", tgt.Size(), len(r.out))
		}
	}
	return r
}

func runReaderFromDelta(src, d []byte) goRes {
	rc, err := packfile.ReaderFromDelta(blobObj(src), bytes.NewReader(d))
	if err != nil {
		return goRes{applier: "ReaderFromDelta", err: err}
	}
	out, err := io.ReadAll(rc)
	rc.Close()
	return goRes{applier: "ReaderFromDelta", ok: err == nil, out: out, err: err}
}

// zlib writers are expensive to create (about 1 MiB each): keep one per level.
var (
	zMu sync.Mutex
	zW  = map[int]*zlib.Writer{}
)

func deflate(b []byte) []byte {
	var buf bytes.Buffer
	lvl := zlib.BestSpeed
	if len(b) > 1<<16 {
		lvl = zlib.NoCompression
	}
	zMu.Lock()
	defer zMu.Unlock()
	w := zW[lvl]
	if w == nil {
		w, _ = zlib.NewWriterLevel(&buf, lvl)
		zW[lvl] = w
	} else {
		w.Reset(&buf)
	}
	w.Write(b)
	w.Close()
	return buf.Bytes()
}

func entryHdr(typ int, size int) []byte {
	b := byte(typ<<4) | byte(size&0x0f)
	size >>= 4
	var out []byte
	for size > 0 {
		out = append(out, b|0x80)
		b = byte(size & 0x7f)
		size >>= 7
	}
	return append(out, b)
}

func ofsEnc(n int) []byte { // git's offset encoding for OFS_DELTA
	out := []byte{byte(n & 0x7f)}
	n >>= 7
	for n > 0 {
		n--
		out = append([]byte{byte(n&0x7f) | 0x80}, out...)
		n >>= 7
	}
	return out
}

// buildPack makes a version-2 pack: [blob src][delta against it].
func buildPack(src, d []byte, ref bool) []byte {
	var p bytes.Buffer
	p.WriteString("PACK")
	binary.Write(&p, binary.BigEndian, uint32(2))
	binary.Write(&p, binary.BigEndian, uint32(2))
	baseOff := p.Len()
	p.Write(entryHdr(3, len(src)))
	p.Write(deflate(src))
	deltaOff := p.Len()
	if ref {
		p.Write(entryHdr(7, len(d)))
		p.Write(blobID(src).Bytes())
	} else {
		p.Write(entryHdr(6, len(d)))
		p.Write(ofsEnc(deltaOff - baseOff))
	}
	p.Write(deflate(d))
	sum := sha1.Sum(p.Bytes())
	p.Write(sum[:])
	return p.Bytes()
}

type obs struct {
	got map[plumbing.Hash][]byte
}

func (o *obs) OnHeader(uint32) error                                          { return nil }
func (o *obs) OnInflatedObjectHeader(plumbing.ObjectType, int64, int64) error { return nil }
func (o *obs) OnFooter(plumbing.Hash) error                                   { return nil }
func (o *obs) OnInflatedObjectContent(h plumbing.Hash, _ int64, _ uint32, content []byte) error {
	if content != nil {
		o.got[h] = append([]byte{}, content...)
	} else if _, ok := o.got[h]; !ok {
		o.got[h] = nil
	}
	return nil
}

type onlyReader struct{ r io.Reader }

func (o onlyReader) Read(p []byte) (int, error) { return o.r.Read(p) }

// runParser parses the two-entry pack; on success out is the content stored
// under an id other than the base's (or the base's when both are the same
// object) and objs the full id -> content map.
func runParser(src, d []byte, ref bool, pv int) (goRes, map[plumbing.Hash][]byte, bool) {
	pack := buildPack(src, d, ref)
	var in io.Reader = bytes.NewReader(pack)
	if pv&1 != 0 {
		in = onlyReader{in}
	}
	name := fmt.Sprintf("Parser[%s,%s]", map[bool]string{false: "seekable", true: "stream"}[pv&1 != 0], map[bool]string{false: "storage", true: "observer"}[pv&2 != 0])
	objs := map[plumbing.Hash][]byte{}
	contentKnown := true
	var err error
	if pv&2 != 0 {
		o := &obs{got: map[plumbing.Hash][]byte{}}
		_, err = packfile.NewParser(in, packfile.WithScannerObservers(o)).Parse()
		objs = o.got
		for _, v := range objs {
			if v == nil {
				contentKnown = false // ids only
			}
		}
	} else {
		st := memory.NewStorage()
		_, err = packfile.NewParser(in, packfile.WithStorage(st)).Parse()
		if err == nil {
			it, ierr := st.IterEncodedObjects(plumbing.AnyObject)
			if ierr != nil {
				panic("INFRA: IterEncodedObjects: " + ierr.Error())
			}
			it.ForEach(func(o plumbing.EncodedObject) error {
				rd, _ := o.Reader()
				b, _ := io.ReadAll(rd)
				if b == nil {
					b = []byte{}
				}
				objs[o.Hash()] = b
				if o.Size() != int64(len(b)) || o.Type() != plumbing.BlobObject {
					objs[o.Hash()] = append(b, []byte(fmt.Sprintf("<<Size()=%d Type=%s>>", o.Size(), o.Type()))...)
				}
				return nil
			})
		}
	}
	return goRes{applier: name, ok: err == nil, err: err}, objs, contentKnown
}

// ---------------------------------------------------------------------------
// oracle

func knownSigs() map[string]bool {
	m := map[string]bool{}
	for _, s := range strings.Split(os.Getenv("VERIF_KNOWN"), "\x1f") {
		if s != "" {
			m[s] = true
		}
	}
	return m
}

func short(b []byte) string {
	if len(b) > 48 {
		return fmt.Sprintf("%x…(%d bytes)", b[:48], len(b))
	}
	return fmt.Sprintf("%x", b)
}

func sigB(applier, outcome string, ref refRes, srcEmpty bool) string {
	if strings.HasPrefix(applier, "Parser[") && !(srcEmpty && outcome == "rejects" && ref.ok && !ref.hdrShort) {
		applier = "Parser" // the parser variant is part of the signature only for valid deltas on an empty base
	}
	if applier == "PatchDelta" && outcome == "rejects" && ref.ok && srcEmpty {
		return "C06/PatchDelta-empty-source"
	}
	s := "C06/" + applier + "-" + outcome + "/git-" + ref.reason
	if ref.ok && ref.hdrShort {
		s += "+hdr-varint-cut-at-end"
	}
	if ref.ok && ref.copyAfterBackward && applier == "ReaderFromDelta" {
		s += "+copy-after-backward-copy"
	}
	if srcEmpty && outcome == "rejects" && ref.ok && !ref.hdrShort {
		s += "/empty-source"
	}
	return s
}

func check(c Case) evid.Result        { return checkWith(c, false) }
func checkWithGit(c Case) evid.Result { return checkWith(c, true) }

func checkWith(c Case, withGit bool) evid.Result {
	res := evid.Result{}
	src := c.Src.expand()
	if len(src) > 20_000_000 || len(c.Ops) > 64 || len(c.Muts) > 8 {
		res.Discard = true
		return res
	}
	if withGit && len(src) > 300_000 {
		res.Discard = true
		return res
	}
	var delta, tgt []byte
	var fails []*evid.Failure
	switch c.Mode {
	case "diff":
		tgt = target(src, c.Ops)
		delta = packfile.DiffDelta(src, tgt)
	case "asm":
		delta = assemble(len(src), c)
	case "raw":
		if c.RawHdr {
			delta = append(leb(uint64(len(src)), 0), c.Raw...)
		} else {
			delta = append([]byte{}, c.Raw...)
		}
	default:
		res.Discard = true
		return res
	}
	pristine := len(c.Muts) == 0
	delta = mutate(delta, c.Muts)
	res.Labels = append(res.Labels, "mode:"+c.Mode)
	if !pristine {
		res.Labels = append(res.Labels, "mutated")
	}
	if len(src) == 0 {
		res.Labels = append(res.Labels, "src-empty")
	}

	ref := refPatch(src, delta)
	if ref.undef {
		res.Discard = true // header varint longer than 64 bits: undefined behaviour in git's C
		return res
	}
	res.Labels = append(res.Labels, "git:"+ref.reason)
	if ref.ok && ref.hdrShort {
		res.Labels = append(res.Labels, "git-ok-with-cut-header-varint")
	}
	if ref.bigCopy {
		res.Labels = append(res.Labels, "copy>64KiB")
	}
	if ref.bigOffset {
		res.Labels = append(res.Labels, "offset>16MiB")
	}
	if ref.ok && ref.copyAfterBackward {
		res.Labels = append(res.Labels, "copy-after-backward-copy")
	}
	res.NonTrivial = (ref.ok && ref.ncopy >= 1 && ref.ninsert >= 1) || (!ref.ok && (!pristine || c.Mode != "diff"))
	if ref.ok && ref.ncopy >= 1 && ref.ninsert >= 1 {
		res.Labels = append(res.Labels, "copy+insert")
	}

	// Oracle A: the round trip through go-git's own encoder and applier.
	if c.Mode == "diff" && pristine && (c.Only == "" || c.Only == "PatchDelta") {
		res.Labels = append(res.Labels, "roundtrip")
		if len(tgt) == 0 {
			res.Labels = append(res.Labels, "tgt-empty")
		}
		out, err := packfile.PatchDelta(src, delta)
		switch {
		case err != nil && len(src) == 0:
			fails = append(fails, evid.Failf("C06/PatchDelta-empty-source", "PatchDelta(src=\"\", DiffDelta(\"\", %s)=%s) fails: %v (git's patch-delta applies it: %v)", short(tgt), short(delta), err, ref.ok))
		case err != nil:
			fails = append(fails, evid.Failf("C06/roundtrip-PatchDelta-rejects-DiffDelta-output", "PatchDelta(src %s, DiffDelta(src, tgt %s) = %s) fails: %v", short(src), short(tgt), short(delta), err))
		case !bytes.Equal(out, tgt):
			fails = append(fails, evid.Failf("C06/roundtrip-wrong-target", "PatchDelta(src %s, DiffDelta(src, tgt)) = %s, target was %s; delta %s", short(src), short(out), short(tgt), short(delta)))
		}
		if ref.ok && !bytes.Equal(ref.out, tgt) {
			fails = append(fails, evid.Failf("C06/DiffDelta-delta-decodes-to-other-bytes", "git's patch-delta applied to DiffDelta(src %s, tgt %s) = %s gives %s", short(src), short(tgt), short(delta), short(ref.out)))
		}
	}

	// Oracle B: every applier against the reference.
	judge := func(g goRes) {
		if c.Only != "" && !strings.HasPrefix(g.applier, c.Only) {
			return
		}
		outcome := ""
		switch {
		case ref.ok && !g.ok:
			outcome = "rejects"
		case !ref.ok && g.ok:
			outcome = "accepts"
		case ref.ok && g.ok && !bytes.Equal(ref.out, g.out):
			outcome = "wrong-bytes"
			if len(g.out) < len(ref.out) && bytes.HasPrefix(ref.out, g.out) {
				outcome = "short-output"
			}
		case ref.ok && g.ok && g.note != "":
			outcome = "inconsistent-size"
		default:
			return
		}
		fails = append(fails, evid.Failf(sigB(g.applier, outcome, ref, len(src) == 0),
			"%s on src %s delta %s: go-git ok=%v err=%v out=%s %s; git patch-delta: ok=%v (%s) out=%s",
			g.applier, short(src), short(delta), g.ok, g.err, short(g.out), g.note, ref.ok, ref.reason, short(ref.out)))
	}
	judge(runPatchDelta(src, delta))
	judge(runApplyDelta(src, delta))
	judge(runReaderFromDelta(src, delta))

	pr, objs, contentKnown := runParser(src, delta, c.Ref, c.PV&3)
	baseID := blobID(src)
	if pr.ok {
		// what did the parser produce for the delta entry?
		want := map[plumbing.Hash][]byte{baseID: src}
		if ref.ok {
			want[blobID(ref.out)] = ref.out
		}
		same := len(objs) == len(want)
		for h, b := range want {
			got, ok := objs[h]
			if !ok || (contentKnown && !bytes.Equal(got, b)) {
				same = false
			}
		}
		var ids []string
		for h, b := range objs {
			ids = append(ids, h.String()+"="+short(b))
		}
		sort.Strings(ids)
		pr.note = "objects: " + strings.Join(ids, " ")
		switch {
		case !ref.ok:
			pr.out = []byte{}
			for h, b := range objs {
				if h != baseID {
					pr.out = b
				}
			}
			judge(pr)
		case !same:
			pr.out = nil
			for h, b := range objs {
				if h != baseID {
					pr.out = b
				}
			}
			if bytes.Equal(pr.out, ref.out) { // right bytes under a wrong id, or wrong object set
				if c.Only != "" && c.Only != "Parser" {
					break
				}
				fails = append(fails, evid.Failf(sigB(pr.applier, "wrong-object-set", ref, len(src) == 0),
					"%s on src %s delta %s: %s; expected base %s and target %s", pr.applier, short(src), short(delta), pr.note, baseID, blobID(ref.out)))
			} else {
				n := pr.note
				pr.note = ""
				judge(pr)
				if len(fails) > 0 {
					fails[len(fails)-1].Msg += " " + n
				}
			}
		}
	} else {
		judge(pr)
	}

	if withGit {
		gitValidate(src, delta, false, ref) // always OFS_DELTA: index-pack refuses a REF_DELTA whose result equals its base ("duplicate base")
		res.Labels = append(res.Labels, "git-index-pack-agrees-with-reference")
	}

	if len(fails) > 0 {
		known := knownSigs()
		res.Fail = fails[0]
		for _, f := range fails {
			if !known[f.Sig] {
				res.Fail = f
				break
			}
		}
		if len(fails) > 1 {
			var sigs []string
			for _, f := range fails {
				sigs = append(sigs, f.Sig)
			}
			res.Fail = &evid.Failure{Sig: res.Fail.Sig, Msg: res.Fail.Msg + "\n(all divergences of this case: " + strings.Join(sigs, ", ") + ")"}
		}
	}
	return res
}

// gitValidate runs the real git on the pack and panics (INFRA: the oracle, not
// go-git, would be wrong) when the transcribed reference disagrees with it.
func gitValidate(src, delta []byte, refDelta bool, ref refRes) {
	base := os.Getenv("VERIF_SCRATCH")
	if base == "" {
		base = "/dev/shm"
	}
	dir, err := os.MkdirTemp(base, "c06-")
	if err != nil {
		panic("INFRA: scratch: " + err.Error())
	}
	defer os.RemoveAll(dir)
	pack := buildPack(src, delta, refDelta)
	pp := filepath.Join(dir, "p.pack")
	if err := os.WriteFile(pp, pack, 0o644); err != nil {
		panic("INFRA: scratch: " + err.Error())
	}
	_, stderr, code := gitx.Try(dir, "index-pack", "-o", filepath.Join(dir, "p.idx"), pp)
	if code != 0 {
		// a delta git cannot apply dies with "failed to apply delta" or, for an
		// absurd target size in the header, in xmallocz before applying it
		if !strings.Contains(stderr, "delta") && !strings.Contains(stderr, "Out of memory") && !strings.Contains(stderr, "too large to fit") {
			panic(fmt.Sprintf("INFRA: git index-pack failed for a reason other than the delta: %s (src %s delta %s)", stderr, short(src), short(delta)))
		}
		if ref.ok {
			panic(fmt.Sprintf("INFRA: reference applier accepts but git index-pack rejects: %s (src %s delta %s)", stderr, short(src), short(delta)))
		}
		return
	}
	if !ref.ok {
		panic(fmt.Sprintf("INFRA: reference applier rejects (%s) but git index-pack accepts (src %s delta %s)", ref.reason, short(src), short(delta)))
	}
	idx, err := os.ReadFile(filepath.Join(dir, "p.idx"))
	if err != nil {
		panic("INFRA: " + err.Error())
	}
	out, _, code := gitx.TryIn(dir, idx, "show-index")
	if code != 0 {
		panic("INFRA: git show-index failed")
	}
	got := map[string]bool{}
	for _, l := range strings.Split(strings.TrimSpace(out), "\n") {
		f := strings.Fields(l)
		if len(f) >= 2 {
			got[f[1]] = true
		}
	}
	want := map[string]bool{blobID(src).String(): true, blobID(ref.out).String(): true}
	if len(got) != len(want) {
		panic(fmt.Sprintf("INFRA: reference result differs from git's: git has %v, reference expects %v (src %s delta %s)", got, want, short(src), short(delta)))
	}
	for k := range want {
		if !got[k] {
			panic(fmt.Sprintf("INFRA: reference result differs from git's: git has %v, reference expects %v (src %s delta %s)", got, want, short(src), short(delta)))
		}
	}
}

func TestC06(t *testing.T) {
	evid.Run(t, evid.Spec[Case]{ID: "C06", Gen: gen, Check: check})
}

// TestC06Git is TestC06 plus the validation of the reference applier against
// `git index-pack` for every case (two git subprocesses per case).
func TestC06Git(t *testing.T) {
	evid.Run(t, evid.Spec[Case]{ID: "C06", Gen: gen, Check: checkWithGit})
}
