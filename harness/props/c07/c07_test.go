// Package c07 decides C07: packs go-git writes contain exactly the requested
// objects. Objects are built by the harness itself (canonical bytes, ids from
// an independent hasher), stored as loose files / git-made packs / in memory,
// encoded by packfile.Encoder, and the result is judged only by real git
// (index-pack --strict, verify-pack -v, cat-file --batch-all-objects).
package c07

import (
	"bytes"
	"compress/zlib"
	"crypto/sha1"
	"crypto/sha256"
	"encoding/binary"
	"encoding/hex"
	"fmt"
	"hash"
	"os"
	"path/filepath"
	"sort"
	"strconv"
	"strings"
	"testing"

	"github.com/go-git/go-billy/v6/osfs"
	"github.com/go-git/go-git/v6/plumbing"
	"github.com/go-git/go-git/v6/plumbing/cache"
	formatcfg "github.com/go-git/go-git/v6/plumbing/format/config"
	"github.com/go-git/go-git/v6/plumbing/format/packfile"
	"github.com/go-git/go-git/v6/plumbing/storer"
	"github.com/go-git/go-git/v6/storage/filesystem"
	"github.com/go-git/go-git/v6/storage/memory"
	"pgregory.net/rapid"

	"verif/harness/lib/evid"
	"verif/harness/lib/gitx"
)

// ---------------------------------------------------------------- case

// Edit replaces Del bytes at Pos (both reduced modulo the current length) by Ins.
type Edit struct {
	Pos, Del int
	Ins      string
}

// Family is a chain of blob versions: version 0 is synthesised from
// (Kind, Lines, Salt); version k+1 is version k with Steps[k] applied.
type Family struct {
	Kind  int // 0 text lines, 1 hard-to-compress bytes, 2 tiny
	Lines int
	Salt  int
	Steps [][]Edit
}

// TreeChange rewrites entry Slot (appends a new one when Slot >= len) to point at blob Blob.
type TreeChange struct{ Slot, Blob int }

// TreeFam is a chain of tree versions over the generated blobs.
type TreeFam struct {
	N       int
	Salt    int
	Changes []TreeChange
}

// Case holds every choice.
type Case struct {
	Format    string // sha1 | sha256
	Store     string // mem | loose | packed | packed2 | mixed
	GitWindow int    // pack-objects --window for the packed stores
	GitDepth  int    // pack-objects --depth for the packed stores
	Families  []Family
	EmptyBlob bool
	Trees     []TreeFam
	EmptyTree bool
	TopTree   bool // one tree holding every tree version as a sub-directory
	NCommits  int
	NTags     int
	Request   []int // indices (mod number of objects) into the object table; may repeat
	Window    int
	RefDelta  bool
}

// ---------------------------------------------------------------- generator

var insAlpha = []string{"x", "edit", "\n", "0123456789", "line of text that repeats\n", "\x00\x7f", "zz", "A longer inserted fragment, unlike anything else in the file.\n"}

func genEdits(t *rapid.T) []Edit {
	n := rapid.IntRange(1, 3).Draw(t, "nedits")
	es := make([]Edit, n)
	for i := range es {
		var sb strings.Builder
		k := rapid.IntRange(0, 3).Draw(t, "ninstok")
		for j := 0; j < k; j++ {
			sb.WriteString(rapid.SampledFrom(insAlpha).Draw(t, "ins"))
		}
		es[i] = Edit{Pos: rapid.IntRange(0, 1<<16).Draw(t, "pos"), Del: rapid.SampledFrom([]int{0, 0, 1, 5, 40, 400}).Draw(t, "del"), Ins: sb.String()}
	}
	return es
}

func gen(t *rapid.T, _ *evid.Recorder) Case {
	c := Case{}
	c.Format = rapid.SampledFrom([]string{"sha1", "sha1", "sha256"}).Draw(t, "format")
	c.Store = rapid.SampledFrom([]string{"mem", "mem", "loose", "packed", "packed", "packed2", "mixed"}).Draw(t, "store")
	c.GitWindow = rapid.SampledFrom([]int{0, 1, 10, 10, 50}).Draw(t, "gitwindow")
	c.GitDepth = rapid.SampledFrom([]int{1, 2, 5, 50, 50, 100, 200}).Draw(t, "gitdepth")
	nf := rapid.IntRange(0, 4).Draw(t, "nfam")
	for i := 0; i < nf; i++ {
		f := Family{Kind: rapid.SampledFrom([]int{0, 0, 0, 1, 2}).Draw(t, "kind"), Lines: rapid.IntRange(0, 200).Draw(t, "lines"), Salt: rapid.IntRange(0, 5).Draw(t, "salt")}
		ns := rapid.SampledFrom([]int{0, 1, 2, 3, 3, 5, 8, 15, 30, 60, 80}).Draw(t, "chain")
		for s := 0; s < ns; s++ {
			f.Steps = append(f.Steps, genEdits(t))
		}
		c.Families = append(c.Families, f)
	}
	c.EmptyBlob = rapid.IntRange(0, 3).Draw(t, "emptyblob") == 0
	nt := rapid.IntRange(0, 2).Draw(t, "ntreefam")
	for i := 0; i < nt; i++ {
		tf := TreeFam{N: rapid.SampledFrom([]int{0, 1, 3, 20, 60}).Draw(t, "tn"), Salt: rapid.IntRange(0, 9).Draw(t, "tsalt")}
		nc := rapid.SampledFrom([]int{0, 1, 2, 5, 12, 40}).Draw(t, "tchain")
		for s := 0; s < nc; s++ {
			tf.Changes = append(tf.Changes, TreeChange{Slot: rapid.IntRange(0, 70).Draw(t, "slot"), Blob: rapid.IntRange(0, 1000).Draw(t, "tblob")})
		}
		c.Trees = append(c.Trees, tf)
	}
	c.EmptyTree = rapid.IntRange(0, 3).Draw(t, "emptytree") == 0
	c.TopTree = rapid.Bool().Draw(t, "toptree")
	c.NCommits = rapid.SampledFrom([]int{0, 0, 1, 2, 6, 20}).Draw(t, "ncommits")
	c.NTags = rapid.SampledFrom([]int{0, 0, 1, 3}).Draw(t, "ntags")
	c.Window = rapid.SampledFrom([]int{0, 1, 10, 10, 50}).Draw(t, "window")
	c.RefDelta = rapid.Bool().Draw(t, "refdelta")
	switch rapid.IntRange(0, 5).Draw(t, "reqmode") {
	case 0, 1, 2: // everything, in table order (encoded as 0..N-1 with N unknown here: empty = all)
	case 3: // everything plus some ids again
		c.Request = []int{-1} // marker: all, then the explicit indices that follow
		k := rapid.IntRange(1, 3).Draw(t, "ndup")
		for i := 0; i < k; i++ {
			c.Request = append(c.Request, rapid.IntRange(0, 1<<12).Draw(t, "dupidx"))
		}
	case 4: // arbitrary subset in arbitrary order (breaks reused delta chains), repeats by chance
		k := rapid.IntRange(1, 40).Draw(t, "nreq")
		for i := 0; i < k; i++ {
			c.Request = append(c.Request, rapid.IntRange(0, 1<<12).Draw(t, "idx"))
		}
	case 5: // every second / third object
		step := rapid.IntRange(2, 3).Draw(t, "step")
		c.Request = []int{-2, step}
	}
	return c
}

// ---------------------------------------------------------------- object table

type object struct {
	typ  string
	data []byte
	id   string // hex, from the independent hasher
}

func newHash(format string) hash.Hash {
	if format == "sha256" {
		return sha256.New()
	}
	return sha1.New()
}

func oid(format, typ string, data []byte) string {
	h := newHash(format)
	fmt.Fprintf(h, "%s %d\x00", typ, len(data))
	h.Write(data)
	return hex.EncodeToString(h.Sum(nil))
}

func baseBlob(f Family) []byte {
	var b bytes.Buffer
	switch f.Kind {
	case 0:
		for i := 0; i < f.Lines; i++ {
			if (i+f.Salt)%7 == 0 {
				fmt.Fprintf(&b, "unique line %d of family salt %d\n", i, f.Salt)
			} else {
				b.WriteString("line of text that repeats\n")
			}
		}
	case 1:
		// deterministic, poorly compressible: iterated sha256
		s := sha256.Sum256([]byte{byte(f.Salt), byte(f.Lines)})
		for i := 0; i < f.Lines/2+1; i++ {
			b.Write(s[:])
			s = sha256.Sum256(s[:])
		}
	default:
		b.WriteString(strings.Repeat("t", f.Lines%9))
	}
	return b.Bytes()
}

func applyEdits(b []byte, es []Edit) []byte {
	out := append([]byte(nil), b...)
	for _, e := range es {
		pos := 0
		if len(out) > 0 {
			pos = e.Pos % (len(out) + 1)
		}
		del := e.Del
		if pos+del > len(out) {
			del = len(out) - pos
		}
		n := make([]byte, 0, len(out)+len(e.Ins))
		n = append(n, out[:pos]...)
		n = append(n, e.Ins...)
		n = append(n, out[pos+del:]...)
		out = n
	}
	return out
}

type tent struct {
	name string
	dir  bool
	id   string
}

func treeBytes(ents []tent) []byte {
	es := append([]tent(nil), ents...)
	key := func(e tent) string {
		if e.dir {
			return e.name + "/"
		}
		return e.name
	}
	sort.Slice(es, func(i, j int) bool { return key(es[i]) < key(es[j]) })
	var b bytes.Buffer
	for _, e := range es {
		if e.dir {
			b.WriteString("40000 ")
		} else {
			b.WriteString("100644 ")
		}
		b.WriteString(e.name)
		b.WriteByte(0)
		raw, _ := hex.DecodeString(e.id)
		b.Write(raw)
	}
	return b.Bytes()
}

// build returns the table of distinct objects (first occurrence order).
func build(c Case) []object {
	var tab []object
	seen := map[string]bool{}
	add := func(typ string, data []byte) string {
		id := oid(c.Format, typ, data)
		if !seen[id] {
			seen[id] = true
			tab = append(tab, object{typ, data, id})
		}
		return id
	}
	var blobs []string
	for _, f := range c.Families {
		b := baseBlob(f)
		blobs = append(blobs, add("blob", b))
		for _, st := range f.Steps {
			b = applyEdits(b, st)
			blobs = append(blobs, add("blob", b))
		}
	}
	if c.EmptyBlob || len(blobs) == 0 {
		blobs = append(blobs, add("blob", nil))
	}
	var trees []string
	for _, tf := range c.Trees {
		var ents []tent
		for i := 0; i < tf.N; i++ {
			ents = append(ents, tent{name: fmt.Sprintf("file-%03d.txt", i), id: blobs[(i*7+tf.Salt)%len(blobs)]})
		}
		trees = append(trees, add("tree", treeBytes(ents)))
		for _, ch := range tf.Changes {
			b := blobs[ch.Blob%len(blobs)]
			if ch.Slot < len(ents) {
				ents[ch.Slot].id = b
			} else {
				ents = append(ents, tent{name: fmt.Sprintf("file-%03d.txt", len(ents)), id: b})
			}
			trees = append(trees, add("tree", treeBytes(ents)))
		}
	}
	if c.EmptyTree || len(trees) == 0 {
		trees = append(trees, add("tree", nil))
	}
	if c.TopTree {
		var ents []tent
		dd := map[string]bool{}
		for i, t := range trees {
			if dd[t] {
				continue
			}
			dd[t] = true
			ents = append(ents, tent{name: fmt.Sprintf("d%02d", i), dir: true, id: t})
		}
		ents = append(ents, tent{name: "README", id: blobs[0]})
		trees = append(trees, add("tree", treeBytes(ents)))
	}
	var commits []string
	for i := 0; i < c.NCommits; i++ {
		var b bytes.Buffer
		fmt.Fprintf(&b, "tree %s\n", trees[(len(trees)-1-i%len(trees))])
		if i > 0 {
			fmt.Fprintf(&b, "parent %s\n", commits[i-1])
		}
		if i > 2 && i%4 == 0 {
			fmt.Fprintf(&b, "parent %s\n", commits[i-3])
		}
		fmt.Fprintf(&b, "author A U Thor <author@example.com> %d +0000\ncommitter C O Mitter <committer@example.com> %d +0130\n\ncommit number %d\n\n%s", 1700000000+i, 1700000100+i, i, strings.Repeat("body line\n", i%5))
		commits = append(commits, add("commit", b.Bytes()))
	}
	prevTag := ""
	for i := 0; i < c.NTags; i++ {
		target, typ := blobs[0], "blob"
		switch {
		case i == 2 && prevTag != "":
			target, typ = prevTag, "tag"
		case len(commits) > 0 && i%2 == 0:
			target, typ = commits[len(commits)-1], "commit"
		case i%2 == 1:
			target, typ = trees[0], "tree"
		}
		data := fmt.Sprintf("object %s\ntype %s\ntag v%d.0\ntagger T Agger <tagger@example.com> %d -0700\n\nrelease %d\n", target, typ, i, 1700000200+i, i)
		prevTag = add("tag", []byte(data))
	}
	return tab
}

// request resolves Case.Request against a table of n objects.
func request(c Case, n int) []int {
	var out []int
	switch {
	case len(c.Request) == 0:
		for i := 0; i < n; i++ {
			out = append(out, i)
		}
	case c.Request[0] == -1:
		for i := 0; i < n; i++ {
			out = append(out, i)
		}
		for _, x := range c.Request[1:] {
			out = append(out, mod(x, n))
		}
	case c.Request[0] == -2:
		step := 2
		if len(c.Request) > 1 && c.Request[1] > 1 {
			step = c.Request[1]
		}
		for i := 0; i < n; i += step {
			out = append(out, i)
		}
	default:
		for _, x := range c.Request {
			out = append(out, mod(x, n))
		}
	}
	return out
}

func mod(x, n int) int {
	x %= n
	if x < 0 {
		x += n
	}
	return x
}

// ---------------------------------------------------------------- scratch repository

func scratch() string {
	base := os.Getenv("VERIF_SCRATCH")
	if base == "" {
		base = "/dev/shm"
	}
	d, err := os.MkdirTemp(base, "c07-")
	if err != nil {
		panic("INFRA: scratch: " + err.Error())
	}
	return d
}

func must(err error) {
	if err != nil {
		panic("INFRA: " + err.Error())
	}
}

type looseWriter struct {
	z bytes.Buffer
	w *zlib.Writer
}

func (lw *looseWriter) write(gitdir string, o object) {
	lw.z.Reset()
	if lw.w == nil {
		lw.w, _ = zlib.NewWriterLevel(&lw.z, zlib.BestSpeed)
	} else {
		lw.w.Reset(&lw.z)
	}
	w, z := lw.w, &lw.z
	fmt.Fprintf(w, "%s %d\x00", o.typ, len(o.data))
	w.Write(o.data)
	w.Close()
	d := filepath.Join(gitdir, "objects", o.id[:2])
	must(os.MkdirAll(d, 0o755))
	must(os.WriteFile(filepath.Join(d, o.id[2:]), z.Bytes(), 0o444))
}

// initRepo lays out what `git init --template= --object-format=F` creates (saves a subprocess).
func initRepo(gitdir, format string) {
	for _, d := range []string{"objects/pack", "objects/info", "refs/heads", "refs/tags"} {
		must(os.MkdirAll(filepath.Join(gitdir, d), 0o755))
	}
	must(os.WriteFile(filepath.Join(gitdir, "HEAD"), []byte("ref: refs/heads/main\n"), 0o644))
	cfg := "[core]\n\trepositoryformatversion = 0\n\tfilemode = true\n\tbare = false\n"
	if format == "sha256" {
		cfg = "[core]\n\trepositoryformatversion = 1\n\tfilemode = true\n\tbare = false\n[extensions]\n\tobjectformat = sha256\n"
	}
	must(os.WriteFile(filepath.Join(gitdir, "config"), []byte(cfg), 0o644))
}

func gitPack(repo string, c Case, ids []string) {
	if len(ids) == 0 {
		return
	}
	gitx.MustIn(repo, []byte(strings.Join(ids, "\n")+"\n"), "-c", "pack.threads=1", "pack-objects", "-q",
		"--window="+strconv.Itoa(c.GitWindow), "--depth="+strconv.Itoa(c.GitDepth), ".git/objects/pack/pack")
}

// ---------------------------------------------------------------- check

func typeOf(s string) plumbing.ObjectType {
	switch s {
	case "blob":
		return plumbing.BlobObject
	case "tree":
		return plumbing.TreeObject
	case "commit":
		return plumbing.CommitObject
	case "tag":
		return plumbing.TagObject
	}
	panic("INFRA: type " + s)
}

const dupSig = "C07/Encode-same-id-requested-twice-written-twice"

func check(c Case) evid.Result {
	res := run(c)
	if res.Fail == nil || res.Fail.Sig == "INFRA" {
		return res
	}
	// Attribute the failure to duplicate ids only when the identical case with the
	// repeats removed (first occurrences kept, same order) satisfies the property.
	tab := build(c)
	req := request(c, len(tab))
	seen := map[int]bool{}
	var ded []int
	for _, x := range req {
		if !seen[x] {
			seen[x] = true
			ded = append(ded, x)
		}
	}
	if len(ded) == len(req) {
		return res
	}
	c2 := c
	c2.Request = ded
	res2 := run(c2)
	if res2.Fail != nil {
		res2.Labels = append(res2.Labels, "dup-requested")
		return res2
	}
	res.Fail.Sig = dupSig
	return res
}

func run(c Case) (res evid.Result) {
	if c.Format != "sha1" && c.Format != "sha256" {
		return evid.Result{Discard: true}
	}
	tab := build(c)
	req := request(c, len(tab))
	dir := scratch()
	defer os.RemoveAll(dir)
	repo := filepath.Join(dir, "a")
	gitdir := filepath.Join(repo, ".git")
	initRepo(gitdir, c.Format)
	var lw looseWriter
	for _, o := range tab {
		lw.write(gitdir, o)
	}
	lab := func(s string) { res.Labels = append(res.Labels, s) }
	lab("store=" + c.Store)
	lab("format=" + c.Format)
	lab("window=" + strconv.Itoa(c.Window))
	if c.RefDelta {
		lab("kind=ref-delta")
	} else {
		lab("kind=ofs-delta")
	}

	// ---- the storage go-git reads from
	var st storer.EncodedObjectStorer
	switch c.Store {
	case "mem":
		of := formatcfg.SHA1
		if c.Format == "sha256" {
			of = formatcfg.SHA256
		}
		m := memory.NewStorage(memory.WithObjectFormat(of))
		for _, o := range tab {
			eo := m.NewEncodedObject()
			eo.SetType(typeOf(o.typ))
			w, err := eo.Writer()
			must(err)
			w.Write(o.data)
			w.Close()
			h, err := m.SetEncodedObject(eo)
			if err != nil || h.String() != o.id {
				res.Discard = true // the objects are not "stored objects": other properties' business
				lab("setup-hash-mismatch")
				return res
			}
		}
		st = m
	case "loose", "packed", "packed2", "mixed":
		var a, b []string
		for i, o := range tab {
			switch c.Store {
			case "packed":
				a = append(a, o.id)
			case "packed2":
				if i%2 == 0 {
					a = append(a, o.id)
				} else {
					b = append(b, o.id)
				}
			case "mixed":
				if i%3 != 0 {
					a = append(a, o.id)
				}
			}
		}
		if c.Store != "loose" {
			must(os.MkdirAll(filepath.Join(gitdir, "objects", "pack"), 0o755))
			gitPack(repo, c, a)
			gitPack(repo, c, b)
			for _, id := range append(a, b...) { // what prune-packed would do
				must(os.Remove(filepath.Join(gitdir, "objects", id[:2], id[2:])))
			}
		}
		fs := filesystem.NewStorage(osfs.New(gitdir), cache.NewObjectLRUDefault())
		defer fs.Close()
		st = fs
	default:
		return evid.Result{Discard: true}
	}

	// ---- encode
	hashes := make([]plumbing.Hash, len(req))
	uniq := map[string]object{}
	for i, x := range req {
		hashes[i] = plumbing.NewHash(tab[x].id)
		uniq[tab[x].id] = tab[x]
	}
	dups := len(req) - len(uniq)
	if dups > 0 {
		lab("dup-requested")
	}
	kind := "ofs"
	if c.RefDelta {
		kind = "ref"
	}
	shape := fmt.Sprintf("%s:%s:window%s", c.Store, kind, map[bool]string{true: "0", false: "N"}[c.Window == 0])
	fail := func(stage, format string, a ...any) evid.Result {
		res.NonTrivial = true
		res.Fail = evid.Failf("C07/"+stage+":"+shape, "format=%s store=%s window=%d kind=%s objects=%d requested=%d dups=%d: %s",
			c.Format, c.Store, c.Window, kind, len(tab), len(req), dups, fmt.Sprintf(format, a...))
		return res
	}
	var pk bytes.Buffer
	ph, err := packfile.NewEncoder(&pk, st, c.RefDelta).Encode(hashes, uint(c.Window))
	if err != nil {
		return fail("Encode-error", "Encode: %v", err)
	}
	body := pk.Bytes()
	hl := newHash(c.Format).Size()
	if len(body) < 12+hl {
		return fail("pack-too-short", "pack has %d bytes", len(body))
	}
	hh := newHash(c.Format)
	hh.Write(body[:len(body)-hl])
	sum := hex.EncodeToString(hh.Sum(nil))
	if got := hex.EncodeToString(body[len(body)-hl:]); got != sum {
		return fail("trailer-not-checksum", "trailer %s, digest of contents %s", got, sum)
	}
	if ph.String() != sum {
		return fail("returned-hash-not-checksum", "Encode returned %s, digest of contents %s", ph, sum)
	}
	if string(body[:4]) != "PACK" || binary.BigEndian.Uint32(body[4:8]) != 2 {
		return fail("bad-header", "header % x", body[:12])
	}
	count := int(binary.BigEndian.Uint32(body[8:12]))

	// ---- git judges the pack
	out := filepath.Join(dir, "out", "pack")
	must(os.MkdirAll(out, 0o755))
	pp := filepath.Join(out, "pack-"+sum+".pack")
	must(os.WriteFile(pp, body, 0o644))
	ip := strings.TrimSuffix(pp, ".pack") + ".idx"
	_, se, code := gitx.Try(repo, "-c", "pack.threads=1", "index-pack", "--strict", "-o", ip, pp)
	if code != 0 {
		return fail("index-pack-strict-rejects", "git index-pack --strict: exit %d: %s", code, strings.TrimSpace(se))
	}
	vp, se, code := gitx.Try(repo, "verify-pack", "-v", ip)
	if code != 0 {
		return fail("verify-pack-rejects", "git verify-pack -v: exit %d: %s", code, strings.TrimSpace(se))
	}
	entries, deltas, maxDepth := 0, 0, 0
	hexlen := 2 * hl
	for _, l := range strings.Split(vp, "\n") {
		f := strings.Fields(l)
		if len(f) < 5 || len(f[0]) != hexlen {
			continue
		}
		entries++
		o, ok := uniq[f[0]]
		if !ok {
			return fail("object-not-requested", "verify-pack lists %s which was not requested", f[0])
		}
		// for a delta entry verify-pack prints the size of the delta, not of the object
		if f[1] != o.typ || (len(f) < 7 && f[2] != strconv.Itoa(len(o.data))) {
			return fail("type-or-size-differs", "verify-pack: %s is %s/%s, stored object is %s/%d", f[0], f[1], f[2], o.typ, len(o.data))
		}
		if len(f) >= 7 {
			deltas++
			if d, _ := strconv.Atoi(f[5]); d > maxDepth {
				maxDepth = d
			}
			if _, ok := uniq[f[6]]; !ok {
				return fail("delta-base-not-requested", "%s is a delta against %s which is not in the request", f[0], f[6])
			}
		}
	}
	if count != entries {
		return fail("header-count", "header declares %d entries, verify-pack lists %d", count, entries)
	}
	if entries != len(uniq) {
		return fail("object-count", "pack has %d entries, %d distinct ids requested", entries, len(uniq))
	}
	// contents, through an object directory that holds nothing but this pack
	r, err := gitx.Run(gitx.Cmd{Dir: repo, Env: []string{"GIT_OBJECT_DIRECTORY=" + filepath.Join(dir, "out")},
		Args: []string{"cat-file", "--batch-all-objects", "--batch", "--buffer"}})
	if err != nil {
		panic("INFRA: " + err.Error())
	}
	if r.Code != 0 {
		return fail("cat-file-rejects", "git cat-file --batch-all-objects: exit %d: %s", r.Code, strings.TrimSpace(string(r.Err)))
	}
	got := 0
	for b := r.Out; len(b) > 0; {
		nl := bytes.IndexByte(b, '\n')
		if nl < 0 {
			panic("INFRA: cat-file output truncated")
		}
		f := strings.Fields(string(b[:nl]))
		if len(f) != 3 {
			panic("INFRA: cat-file header " + string(b[:nl]))
		}
		sz, _ := strconv.Atoi(f[2])
		if nl+1+sz+1 > len(b) {
			panic("INFRA: cat-file output truncated")
		}
		data := b[nl+1 : nl+1+sz]
		b = b[nl+1+sz+1:]
		o, ok := uniq[f[0]]
		if !ok {
			return fail("object-not-requested", "pack yields %s which was not requested", f[0])
		}
		if f[1] != o.typ || sz != len(o.data) {
			return fail("type-or-size-differs", "%s: cat-file reports %s/%d, stored object is %s/%d", f[0], f[1], sz, o.typ, len(o.data))
		}
		if !bytes.Equal(data, o.data) {
			return fail("content-differs", "%s (%s): %d bytes from the pack differ from the %d stored bytes", f[0], f[1], len(data), len(o.data))
		}
		got++
	}
	if got != len(uniq) {
		return fail("object-missing", "pack yields %d objects, %d distinct ids requested", got, len(uniq))
	}

	// ---- classification
	types := map[string]bool{}
	empty := false
	for _, o := range uniq {
		types[o.typ] = true
		if len(o.data) == 0 {
			empty = true
		}
	}
	if len(types) >= 3 {
		lab("types>=3")
	}
	if empty {
		lab("has-empty-object")
	}
	if len(uniq) < len(tab) {
		lab("subset-request")
	}
	switch {
	case deltas == 0:
		lab("deltas=0")
	default:
		lab("deltas>0")
		switch {
		case maxDepth >= 50:
			lab("chain>=50")
		case maxDepth >= 10:
			lab("chain10-49")
		case maxDepth >= 2:
			lab("chain2-9")
		default:
			lab("chain1")
		}
	}
	res.NonTrivial = deltas > 0 || dups > 0
	return res
}

func TestC07(t *testing.T) {
	evid.Run(t, evid.Spec[Case]{ID: "C07", Gen: gen, Check: check})
}
