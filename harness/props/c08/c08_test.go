// Package c08 decides C08: packs git writes are indexed exactly as git indexes
// them. A generated history (canonical objects built by the harness, written
// as loose files) is packed by `git pack-objects` with generated options;
// go-git's Parser / PackfileWriter reads the pack in one of several modes and
// its .idx/.rev bytes and resolved objects are compared with git index-pack's.
package c08

import (
	"bytes"
	"compress/zlib"
	"crypto/sha1"
	"crypto/sha256"
	"encoding/binary"
	"encoding/hex"
	"errors"
	"fmt"
	"hash"
	"io"
	"os"
	"path/filepath"
	"sort"
	"strconv"
	"strings"
	"testing"

	"github.com/go-git/go-billy/v6/osfs"
	"github.com/go-git/go-git/v6/plumbing"
	"github.com/go-git/go-git/v6/plumbing/cache"
	formatcfg "github.com/go-git/go-git/v6/plumbing/format/config"
	"github.com/go-git/go-git/v6/plumbing/format/idxfile"
	"github.com/go-git/go-git/v6/plumbing/format/packfile"
	"github.com/go-git/go-git/v6/plumbing/format/revfile"
	"github.com/go-git/go-git/v6/plumbing/storer"
	"github.com/go-git/go-git/v6/storage/filesystem"
	"github.com/go-git/go-git/v6/storage/memory"
	"pgregory.net/rapid"

	"verif/harness/lib/evid"
	"verif/harness/lib/gitx"
)

// ---------------------------------------------------------------- case

// Edit replaces Del bytes at Pos (reduced modulo the current length) by Ins.
type Edit struct {
	Pos, Del int
	Ins      string
}

// File is one path of the history with its chain of versions.
type File struct {
	Kind  int // 0 text lines, 1 hard-to-compress bytes, 2 tiny
	Lines int
	Salt  int
	Steps [][]Edit
}

// Case holds every choice.
type Case struct {
	Format  string  // sha1 | sha256
	Files   []File  // file j lives at path f<j>.txt (or d<j%Dirs>/f<j>.txt)
	Dirs    int     // 0 = flat tree
	Commits [][]int // commit i+1 advances these files (indices mod len(Files)) by one version
	Big     int     // 0 none, 1 compressible 1.2 MiB blob, 2 incompressible 1.2 MiB blob (edited in the last commit)
	Tag     bool
	Window  int
	Depth   int
	Ofs     bool // --delta-base-offset
	Thin    bool // --thin
	Exclude int  // -1: pack everything; else ^commit[Exclude mod (n-1)] (never the tip)
	Mode    string
	Chunk   int // write/read granularity for the streaming modes
	Head    int // the very first Read of a streaming reader returns max(Chunk, Head) bytes
}

// shortSig: a valid pack is rejected ("bad signature") only because the first
// Read of a non-seekable reader returned fewer than the 4 signature bytes.
const shortSig = "C08/Parse-stream-first-Read-shorter-than-4-bytes-bad-signature"

var modes = []string{"nostorage", "mem", "mem-stream", "fs", "fs-highmem", "fs-stream", "packwriter"}
var thinModes = []string{"mem", "mem-stream", "fs", "fs-highmem", "fs-stream"}

var insAlpha = []string{"x", "edit", "\n", "0123456789", "line of text that repeats\n", "\x00\x7f", "zz", "A longer inserted fragment, unlike anything else in the file.\n"}

func genEdits(t *rapid.T) []Edit {
	n := rapid.IntRange(1, 3).Draw(t, "nedits")
	es := make([]Edit, n)
	for i := range es {
		var sb strings.Builder
		k := rapid.IntRange(0, 3).Draw(t, "ninstok")
		for j := 0; j < k; j++ {
			sb.WriteString(rapid.SampledFrom(insAlpha).Draw(t, "ins"))
		}
		es[i] = Edit{Pos: rapid.IntRange(0, 1<<16).Draw(t, "pos"), Del: rapid.SampledFrom([]int{0, 0, 1, 5, 40, 400}).Draw(t, "del"), Ins: sb.String()}
	}
	return es
}

func gen(t *rapid.T, r *evid.Recorder) Case {
	c := Case{}
	c.Format = rapid.SampledFrom([]string{"sha1", "sha1", "sha256"}).Draw(t, "format")
	nf := rapid.SampledFrom([]int{3, 2, 4, 1, 5}).Draw(t, "nfiles")
	for i := 0; i < nf; i++ {
		f := File{Kind: rapid.SampledFrom([]int{0, 0, 0, 0, 1, 2}).Draw(t, "kind"), Lines: rapid.SampledFrom([]int{80, 40, 120, 20, 200, 3, 0}).Draw(t, "lines"), Salt: rapid.IntRange(0, 5).Draw(t, "salt")}
		ns := rapid.SampledFrom([]int{12, 8, 20, 5, 40, 3, 1, 0}).Draw(t, "chain")
		for s := 0; s < ns; s++ {
			f.Steps = append(f.Steps, genEdits(t))
		}
		c.Files = append(c.Files, f)
	}
	c.Dirs = rapid.SampledFrom([]int{0, 0, 1, 2}).Draw(t, "dirs")
	nc := rapid.SampledFrom([]int{16, 10, 25, 6, 40, 3, 1, 0}).Draw(t, "ncommits")
	for i := 0; i < nc; i++ {
		c.Commits = append(c.Commits, rapid.SliceOfN(rapid.IntRange(0, 7), 1, 4).Draw(t, "advance"))
	}
	c.Big = rapid.SampledFrom([]int{0, 0, 0, 0, 0, 0, 0, 0, 0, 0, 1, 2}).Draw(t, "big")
	c.Tag = rapid.IntRange(0, 3).Draw(t, "tag") == 0
	c.Window = rapid.SampledFrom([]int{10, 50, 5, 20, 1, 10, 0}).Draw(t, "window")
	c.Depth = rapid.SampledFrom([]int{50, 10, 5, 3, 2, 250, 50, 1, 0}).Draw(t, "depth")
	c.Ofs = rapid.Bool().Draw(t, "ofs")
	c.Exclude = -1
	if nc > 0 && rapid.IntRange(0, 2).Draw(t, "partial") > 0 {
		c.Exclude = rapid.IntRange(0, 63).Draw(t, "exclude")
		c.Thin = rapid.IntRange(0, 3).Draw(t, "thin") > 0
	}
	if c.Thin {
		c.Mode = rapid.SampledFrom(thinModes).Draw(t, "mode")
	} else {
		c.Mode = rapid.SampledFrom(modes).Draw(t, "mode")
	}
	c.Chunk = rapid.SampledFrom([]int{1, 2, 3, 7, 512, 4096, 1 << 20}).Draw(t, "chunk")
	c.Head = rapid.SampledFrom([]int{0, 4, 4, 4}).Draw(t, "head")
	if r != nil && r.IsKnown(shortSig) {
		c.Head = 4 // steer around the confirmed finding so that tiny reads after the signature stay explored
	}
	return c
}

// ---------------------------------------------------------------- objects

type object struct {
	typ  string
	data []byte
	id   string
}

func newHash(format string) hash.Hash {
	if format == "sha256" {
		return sha256.New()
	}
	return sha1.New()
}

func oid(format, typ string, data []byte) string {
	h := newHash(format)
	fmt.Fprintf(h, "%s %d\x00", typ, len(data))
	h.Write(data)
	return hex.EncodeToString(h.Sum(nil))
}

func baseBlob(f File) []byte {
	var b bytes.Buffer
	switch f.Kind {
	case 0:
		for i := 0; i < f.Lines; i++ {
			if (i+f.Salt)%7 == 0 {
				fmt.Fprintf(&b, "unique line %d of family salt %d\n", i, f.Salt)
			} else {
				b.WriteString("line of text that repeats\n")
			}
		}
	case 1:
		s := sha256.Sum256([]byte{byte(f.Salt), byte(f.Lines)})
		for i := 0; i < f.Lines/2+1; i++ {
			b.Write(s[:])
			s = sha256.Sum256(s[:])
		}
	default:
		b.WriteString(strings.Repeat("t", f.Lines%9))
	}
	return b.Bytes()
}

func bigBlob(kind int) []byte {
	const size = 1200 << 10
	b := make([]byte, 0, size+64)
	if kind == 1 {
		for i := 0; len(b) < size; i++ {
			b = append(b, fmt.Sprintf("record %07d: the quick brown fox jumps over the lazy dog\n", i*i%100003)...)
		}
		return b
	}
	s := sha256.Sum256([]byte("big"))
	for len(b) < size {
		b = append(b, s[:]...)
		s = sha256.Sum256(s[:])
	}
	return b
}

func applyEdits(b []byte, es []Edit) []byte {
	out := append([]byte(nil), b...)
	for _, e := range es {
		pos := 0
		if len(out) > 0 {
			pos = e.Pos % (len(out) + 1)
		}
		del := e.Del
		if pos+del > len(out) {
			del = len(out) - pos
		}
		n := make([]byte, 0, len(out)+len(e.Ins))
		n = append(n, out[:pos]...)
		n = append(n, e.Ins...)
		n = append(n, out[pos+del:]...)
		out = n
	}
	return out
}

type tent struct {
	name string
	dir  bool
	id   string
}

func treeBytes(ents []tent) []byte {
	es := append([]tent(nil), ents...)
	key := func(e tent) string {
		if e.dir {
			return e.name + "/"
		}
		return e.name
	}
	sort.Slice(es, func(i, j int) bool { return key(es[i]) < key(es[j]) })
	var b bytes.Buffer
	for _, e := range es {
		if e.dir {
			b.WriteString("40000 ")
		} else {
			b.WriteString("100644 ")
		}
		b.WriteString(e.name)
		b.WriteByte(0)
		raw, _ := hex.DecodeString(e.id)
		b.Write(raw)
	}
	return b.Bytes()
}

type history struct {
	tab     []object
	byID    map[string]int
	commits []string
	closure []map[string]bool // objects reachable from commit i
	tag     string
}

func build(c Case) *history {
	h := &history{byID: map[string]int{}}
	add := func(typ string, data []byte) string {
		id := oid(c.Format, typ, data)
		if _, ok := h.byID[id]; !ok {
			h.byID[id] = len(h.tab)
			h.tab = append(h.tab, object{typ, data, id})
		}
		return id
	}
	// versions of every file
	vers := make([][]string, len(c.Files))
	for j, f := range c.Files {
		b := baseBlob(f)
		vers[j] = append(vers[j], add("blob", b))
		for _, st := range f.Steps {
			b = applyEdits(b, st)
			vers[j] = append(vers[j], add("blob", b))
		}
	}
	var big []string
	if c.Big != 0 {
		b := bigBlob(c.Big)
		big = append(big, add("blob", b))
		b2 := applyEdits(b, []Edit{{Pos: 600 << 10, Del: 10, Ins: "<<edited in the middle>>"}, {Pos: 5, Del: 0, Ins: "head"}})
		big = append(big, add("blob", b2))
	}
	cur := make([]int, len(c.Files))
	n := 1 + len(c.Commits)
	for i := 0; i < n; i++ {
		if i > 0 {
			for _, x := range c.Commits[i-1] {
				j := x % len(c.Files)
				if cur[j]+1 < len(vers[j]) {
					cur[j]++
				}
			}
		}
		reach := map[string]bool{}
		var root []tent
		sub := map[int][]tent{}
		for j := range c.Files {
			e := tent{name: fmt.Sprintf("f%d.txt", j), id: vers[j][cur[j]]}
			reach[e.id] = true
			if c.Dirs > 0 {
				sub[j%c.Dirs] = append(sub[j%c.Dirs], e)
			} else {
				root = append(root, e)
			}
		}
		for d := 0; d < c.Dirs; d++ {
			if len(sub[d]) == 0 {
				continue
			}
			id := add("tree", treeBytes(sub[d]))
			reach[id] = true
			root = append(root, tent{name: fmt.Sprintf("d%d", d), dir: true, id: id})
		}
		if len(big) > 0 {
			b := big[0]
			if i == n-1 && n > 1 {
				b = big[1]
			}
			reach[b] = true
			root = append(root, tent{name: "big.bin", id: b})
		}
		tid := add("tree", treeBytes(root))
		reach[tid] = true
		var b bytes.Buffer
		fmt.Fprintf(&b, "tree %s\n", tid)
		if i > 0 {
			fmt.Fprintf(&b, "parent %s\n", h.commits[i-1])
		}
		fmt.Fprintf(&b, "author A U Thor <author@example.com> %d +0000\ncommitter C O Mitter <committer@example.com> %d +0000\n\ncommit %d\n", 1700000000+i*60, 1700000000+i*60, i)
		cid := add("commit", b.Bytes())
		reach[cid] = true
		if i > 0 {
			for k := range h.closure[i-1] {
				reach[k] = true
			}
		}
		h.commits = append(h.commits, cid)
		h.closure = append(h.closure, reach)
	}
	if c.Tag {
		data := fmt.Sprintf("object %s\ntype commit\ntag v1.0\ntagger T Agger <tagger@example.com> 1700009999 +0000\n\nrelease\n", h.commits[n-1])
		h.tag = add("tag", []byte(data))
	}
	return h
}

// ---------------------------------------------------------------- scratch

func scratch() string {
	base := os.Getenv("VERIF_SCRATCH")
	if base == "" {
		base = "/dev/shm"
	}
	d, err := os.MkdirTemp(base, "c08-")
	if err != nil {
		panic("INFRA: scratch: " + err.Error())
	}
	return d
}

func must(err error) {
	if err != nil {
		panic("INFRA: " + err.Error())
	}
}

type looseWriter struct {
	z bytes.Buffer
	w *zlib.Writer
}

func (lw *looseWriter) write(gitdir string, o object) {
	lw.z.Reset()
	if lw.w == nil {
		lw.w, _ = zlib.NewWriterLevel(&lw.z, zlib.BestSpeed)
	} else {
		lw.w.Reset(&lw.z)
	}
	fmt.Fprintf(lw.w, "%s %d\x00", o.typ, len(o.data))
	lw.w.Write(o.data)
	lw.w.Close()
	d := filepath.Join(gitdir, "objects", o.id[:2])
	must(os.MkdirAll(d, 0o755))
	must(os.WriteFile(filepath.Join(d, o.id[2:]), lw.z.Bytes(), 0o444))
}

// initRepo lays out what `git init --template= --object-format=F` creates.
func initRepo(gitdir, format string) {
	for _, d := range []string{"objects/pack", "objects/info", "refs/heads", "refs/tags"} {
		must(os.MkdirAll(filepath.Join(gitdir, d), 0o755))
	}
	must(os.WriteFile(filepath.Join(gitdir, "HEAD"), []byte("ref: refs/heads/main\n"), 0o644))
	cfg := "[core]\n\trepositoryformatversion = 0\n\tfilemode = true\n\tbare = false\n"
	if format == "sha256" {
		cfg = "[core]\n\trepositoryformatversion = 1\n\tfilemode = true\n\tbare = false\n[extensions]\n\tobjectformat = sha256\n"
	}
	must(os.WriteFile(filepath.Join(gitdir, "config"), []byte(cfg), 0o644))
}

// chunkReader is a non-seekable reader handing out at most n bytes per Read.
type chunkReader struct {
	b    []byte
	n    int
	head int
}

func (r *chunkReader) Read(p []byte) (int, error) {
	if len(r.b) == 0 {
		return 0, io.EOF
	}
	k := r.n
	if r.head > k {
		k = r.head
	}
	r.head = 0
	if k > len(p) {
		k = len(p)
	}
	if k > len(r.b) {
		k = len(r.b)
	}
	copy(p, r.b[:k])
	r.b = r.b[k:]
	return k, nil
}

func typeOf(s string) plumbing.ObjectType {
	switch s {
	case "blob":
		return plumbing.BlobObject
	case "tree":
		return plumbing.TreeObject
	case "commit":
		return plumbing.CommitObject
	case "tag":
		return plumbing.TagObject
	}
	panic("INFRA: type " + s)
}

type gobj struct {
	typ  string
	data []byte
}

// parseBatch parses `cat-file --batch` output into id -> (type, data).
func parseBatch(out []byte) map[string]gobj {
	m := map[string]gobj{}
	for b := out; len(b) > 0; {
		nl := bytes.IndexByte(b, '\n')
		if nl < 0 {
			panic("INFRA: cat-file output truncated")
		}
		f := strings.Fields(string(b[:nl]))
		if len(f) != 3 {
			panic("INFRA: cat-file header " + string(b[:nl]))
		}
		sz, _ := strconv.Atoi(f[2])
		if nl+1+sz+1 > len(b) {
			panic("INFRA: cat-file output truncated")
		}
		m[f[0]] = gobj{f[1], b[nl+1 : nl+1+sz]}
		b = b[nl+1+sz+1:]
	}
	return m
}

type ientry struct {
	off uint64
	id  string
	crc uint32
}

// showIndex parses `git show-index` output.
func showIndex(repo string, idx []byte, format string) []ientry {
	out := gitx.MustIn(repo, idx, "show-index", "--object-format="+format)
	var es []ientry
	for _, l := range strings.Split(strings.TrimSpace(out), "\n") {
		if l == "" {
			continue
		}
		f := strings.Fields(l)
		if len(f) != 3 {
			panic("INFRA: show-index line " + l)
		}
		off, _ := strconv.ParseUint(f[0], 10, 64)
		crc, _ := strconv.ParseUint(strings.Trim(f[2], "()"), 16, 32)
		es = append(es, ientry{off, f[1], uint32(crc)})
	}
	return es
}

// ---------------------------------------------------------------- check

func check(c Case) evid.Result {
	res := run(c)
	if res.Fail != nil && strings.HasPrefix(res.Fail.Sig, "C08/Parse-error:") && strings.HasSuffix(c.Mode, "-stream") && c.Chunk < 4 && c.Head < 4 {
		// attribute to the short first read only if nothing else is wrong with the case
		c2 := c
		c2.Head = 4
		res2 := run(c2)
		if res2.Fail != nil {
			return res2
		}
		res.Fail.Sig = shortSig
		res.Labels = append(res.Labels, "first-read<4")
	}
	return res
}

func run(c Case) (res evid.Result) {
	if (c.Format != "sha1" && c.Format != "sha256") || len(c.Files) == 0 {
		return evid.Result{Discard: true}
	}
	okMode := false
	for _, m := range modes {
		okMode = okMode || m == c.Mode
	}
	if !okMode {
		return evid.Result{Discard: true}
	}
	h := build(c)
	n := len(h.commits)
	dir := scratch()
	if os.Getenv("C08_KEEP") != "" { // debugging aid: keep the scratch tree
		fmt.Println("C08_KEEP:", dir)
	} else {
		defer os.RemoveAll(dir)
	}
	repo := filepath.Join(dir, "g")
	gitdir := filepath.Join(repo, ".git")
	initRepo(gitdir, c.Format)
	var lw looseWriter
	for _, o := range h.tab {
		lw.write(gitdir, o)
	}
	lab := func(s string) { res.Labels = append(res.Labels, s) }
	lab("mode=" + c.Mode)
	lab("format=" + c.Format)
	hl := newHash(c.Format).Size()

	// ---- git writes the pack
	var in bytes.Buffer
	if h.tag != "" {
		in.WriteString(h.tag + "\n")
	}
	in.WriteString(h.commits[n-1] + "\n")
	excl := -1
	if c.Exclude >= 0 && n > 1 {
		excl = c.Exclude % (n - 1)
		in.WriteString("^" + h.commits[excl] + "\n")
	}
	args := []string{"-c", "pack.threads=1", "pack-objects", "-q", "--stdout", "--revs", "--window=" + strconv.Itoa(c.Window), "--depth=" + strconv.Itoa(c.Depth)}
	if c.Ofs {
		args = append(args, "--delta-base-offset")
	}
	thin := c.Thin && excl >= 0
	if thin {
		args = append(args, "--thin")
	}
	r, err := gitx.Run(gitx.Cmd{Dir: repo, Stdin: in.Bytes(), Args: args})
	if err != nil || r.Code != 0 {
		panic(fmt.Sprintf("INFRA: pack-objects: %v %s", err, r.Err))
	}
	pack := r.Out
	if len(pack) < 12+hl {
		panic("INFRA: pack-objects wrote a short pack")
	}
	count := int(binary.BigEndian.Uint32(pack[8:12]))
	trailer := hex.EncodeToString(pack[len(pack)-hl:])

	// ---- git indexes it
	out := filepath.Join(dir, "out", "pack")
	must(os.MkdirAll(out, 0o755))
	gp := filepath.Join(out, "pack-g.pack")
	gi := filepath.Join(out, "pack-g.idx")
	if thin {
		gitx.MustIn(repo, pack, "-c", "pack.threads=1", "index-pack", "--rev-index", "--fix-thin", "--stdin", "-o", gi, gp)
	} else {
		must(os.WriteFile(gp, pack, 0o644))
		gitx.Must(repo, "-c", "pack.threads=1", "index-pack", "--rev-index", "-o", gi, gp)
	}
	wantIdx, err := os.ReadFile(gi)
	must(err)
	wantRev, err := os.ReadFile(filepath.Join(out, "pack-g.rev"))
	must(err)
	gEntries := showIndex(repo, wantIdx, c.Format)
	external := len(gEntries) - count // bases appended by --fix-thin
	if external < 0 || (!thin && external != 0) {
		panic("INFRA: entry count of git's idx")
	}
	vp := gitx.Must(repo, "verify-pack", "-v", gi)
	deltas, maxDepth := 0, 0
	for _, l := range strings.Split(vp, "\n") {
		f := strings.Fields(l)
		if len(f) >= 7 && len(f[0]) == 2*hl {
			deltas++
			if d, _ := strconv.Atoi(f[5]); d > maxDepth {
				maxDepth = d
			}
		}
	}
	kind := "ref"
	if c.Ofs {
		kind = "ofs"
	}
	lab("kind=" + kind)
	if thin {
		if external > 0 {
			lab("thin-with-external-bases")
		} else {
			lab("thin-no-external-base")
		}
	} else if excl >= 0 {
		lab("partial-self-contained")
	} else {
		lab("full")
	}
	switch {
	case deltas == 0:
		lab("deltas=0")
	case maxDepth >= 10:
		lab("depth>=10")
	case maxDepth >= 2:
		lab("depth2-9")
	default:
		lab("depth1")
	}
	if c.Big != 0 {
		lab("blob>1MiB")
	}
	res.NonTrivial = maxDepth >= 2
	shape := c.Mode + ":" + kind + ":" + map[bool]string{true: "thin", false: "self-contained"}[external > 0]
	fail := func(stage, format string, a ...any) evid.Result {
		res.Fail = evid.Failf("C08/"+stage+":"+shape, "format=%s mode=%s kind=%s window=%d depth=%d entries=%d external=%d deltas=%d maxdepth=%d: %s",
			c.Format, c.Mode, kind, c.Window, c.Depth, count, external, deltas, maxDepth, fmt.Sprintf(format, a...))
		return res
	}
	if external > 0 && (c.Mode == "nostorage" || c.Mode == "packwriter") {
		res.Discard = true // no repository to take the bases from: outside the statement
		return res
	}

	// what git resolved: every object of the (completed) pack
	cr, err := gitx.Run(gitx.Cmd{Dir: repo, Env: []string{"GIT_OBJECT_DIRECTORY=" + filepath.Join(dir, "out")},
		Args: []string{"cat-file", "--batch-all-objects", "--batch", "--buffer"}})
	if err != nil || cr.Code != 0 {
		panic(fmt.Sprintf("INFRA: cat-file: %v %s", err, cr.Err))
	}
	gitObjs := parseBatch(cr.Out)
	if len(gitObjs) != len(gEntries) {
		panic("INFRA: cat-file and show-index disagree")
	}

	// ---- go-git reads the same bytes
	of := formatcfg.SHA1
	if c.Format == "sha256" {
		of = formatcfg.SHA256
	}
	var pre map[string]bool // objects the receiving repository already has
	if excl >= 0 && thin {
		pre = h.closure[excl]
	}
	var st storer.EncodedObjectStorer
	var fsst *filesystem.Storage
	sdir := filepath.Join(dir, "s", ".git")
	switch c.Mode {
	case "mem", "mem-stream":
		m := memory.NewStorage(memory.WithObjectFormat(of))
		for _, o := range h.tab {
			if !pre[o.id] {
				continue
			}
			eo := m.NewEncodedObject()
			eo.SetType(typeOf(o.typ))
			w, err := eo.Writer()
			must(err)
			w.Write(o.data)
			w.Close()
			if hh, err := m.SetEncodedObject(eo); err != nil || hh.String() != o.id {
				res.Discard = true
				lab("setup-hash-mismatch")
				return res
			}
		}
		st = m
	case "fs", "fs-highmem", "fs-stream", "packwriter":
		initRepo(sdir, c.Format)
		for _, o := range h.tab {
			if pre[o.id] {
				lw.write(sdir, o)
			}
		}
		fsst = filesystem.NewStorageWithOptions(osfs.New(sdir), cache.NewObjectLRUDefault(), filesystem.Options{HighMemoryMode: c.Mode == "fs-highmem"})
		defer fsst.Close()
		st = fsst
	}
	chunk := c.Chunk
	if chunk <= 0 {
		chunk = 4096
	}

	var gotIdx, gotRev []byte
	var entries []ientry
	if c.Mode == "packwriter" {
		w, err := fsst.PackfileWriter()
		if err != nil {
			return fail("PackfileWriter-error", "PackfileWriter: %v", err)
		}
		// The indexing goroutine behind PackfileWriter reads what has been written so
		// far; a first Write shorter than the 4 signature bytes makes it hit the
		// short-first-read defect (shortSig) or not depending on goroutine timing.
		// To keep the check deterministic the first Write always carries >= 4 bytes.
		first := true
		for b := pack; len(b) > 0; {
			k := chunk
			if first && k < 4 {
				k = 4
			}
			first = false
			if k > len(b) {
				k = len(b)
			}
			if _, err := w.Write(b[:k]); err != nil {
				w.Close()
				return fail("PackfileWriter-error", "Write: %v", err)
			}
			b = b[k:]
		}
		if err := w.Close(); err != nil {
			return fail("PackfileWriter-error", "Close: %v", err)
		}
		base := filepath.Join(sdir, "objects", "pack", "pack-"+trailer)
		gotPack, err := os.ReadFile(base + ".pack")
		if err != nil {
			return fail("pack-file-missing", "%v", err)
		}
		if !bytes.Equal(gotPack, pack) {
			return fail("pack-bytes-differ", "stored pack differs from the received bytes")
		}
		if gotIdx, err = os.ReadFile(base + ".idx"); err != nil {
			return fail("idx-file-missing", "%v", err)
		}
		if gotRev, err = os.ReadFile(base + ".rev"); err != nil {
			return fail("rev-file-missing", "%v", err)
		}
		des, _ := os.ReadDir(filepath.Join(sdir, "objects", "pack"))
		if len(des) != 3 {
			var names []string
			for _, d := range des {
				names = append(names, d.Name())
			}
			return fail("pack-dir-extra-files", "objects/pack holds %v", names)
		}
	} else {
		var rd io.Reader = bytes.NewReader(pack)
		if strings.HasSuffix(c.Mode, "-stream") {
			rd = &chunkReader{b: pack, n: chunk, head: c.Head}
		}
		iw := new(idxfile.Writer)
		opts := []packfile.ParserOption{packfile.WithScannerObservers(iw), packfile.WithObjectFormat(of)}
		if st != nil {
			opts = append(opts, packfile.WithStorage(st))
		}
		sum, err := packfile.NewParser(rd, opts...).Parse()
		if err != nil {
			r := fail("Parse-error", "Parse: %v", err)
			if external > 0 && errors.Is(err, plumbing.ErrObjectNotFound) && chainOnExternalRefDelta(pack, hl, gEntries) {
				r.Fail.Sig = thinChainSig
				r.Labels = append(r.Labels, "thin-chain-on-external-ref-delta")
			}
			return r
		}
		if sum.String() != trailer {
			return fail("checksum-differs", "Parse returned %s, trailer is %s", sum, trailer)
		}
		idx, err := iw.Index()
		if err != nil {
			return fail("idx-writer-error", "Index: %v", err)
		}
		it, err := idx.Entries()
		if err != nil {
			return fail("idx-writer-error", "Entries: %v", err)
		}
		for {
			e, err := it.Next()
			if err == io.EOF {
				break
			}
			if err != nil {
				return fail("idx-writer-error", "Entries.Next: %v", err)
			}
			entries = append(entries, ientry{e.Offset, e.Hash.String(), e.CRC32})
		}
		var ib, rb bytes.Buffer
		if err := idxfile.Encode(&ib, newHash(c.Format), idx); err != nil {
			return fail("idx-encode-error", "idxfile.Encode: %v", err)
		}
		if err := revfile.Encode(&rb, newHash(c.Format), idx); err != nil {
			return fail("rev-encode-error", "revfile.Encode: %v", err)
		}
		gotIdx, gotRev = ib.Bytes(), rb.Bytes()
	}

	if external == 0 {
		if !bytes.Equal(gotIdx, wantIdx) {
			return fail("idx-bytes-differ", "idx differs from git's (%d vs %d bytes, first difference at %d)", len(gotIdx), len(wantIdx), firstDiff(gotIdx, wantIdx))
		}
		if !bytes.Equal(gotRev, wantRev) {
			return fail("rev-bytes-differ", "rev differs from git's (%d vs %d bytes, first difference at %d)", len(gotRev), len(wantRev), firstDiff(gotRev, wantRev))
		}
	} else {
		// git appended the missing bases after the received entries; everything
		// before that must be indexed identically (id, offset, crc).
		limit := uint64(len(pack) - hl)
		var want []ientry
		for _, e := range gEntries {
			if e.off < limit {
				want = append(want, e)
			}
		}
		if len(want) != count {
			panic("INFRA: fix-thin layout")
		}
		if len(entries) != len(want) {
			return fail("thin-entry-count", "go-git indexed %d entries, git %d (before the appended bases)", len(entries), len(want))
		}
		for i := range want { // both sorted by id
			if entries[i] != want[i] {
				return fail("thin-entry-differs", "entry %d: go-git %+v, git %+v", i, entries[i], want[i])
			}
		}
	}

	// ---- resolved objects (storage modes): two-sided against git's resolution
	if st != nil {
		expect := map[string]gobj{}
		for id, o := range gitObjs {
			expect[id] = o
		}
		for _, o := range h.tab {
			if pre[o.id] {
				expect[o.id] = gobj{o.typ, o.data}
			}
		}
		seen := map[string]bool{}
		it, err := st.IterEncodedObjects(plumbing.AnyObject)
		if err != nil {
			return fail("iter-error", "IterEncodedObjects: %v", err)
		}
		var ferr *evid.Failure
		err = it.ForEach(func(o plumbing.EncodedObject) error {
			id := o.Hash().String()
			if seen[id] {
				return nil
			}
			seen[id] = true
			want, ok := expect[id]
			if !ok {
				ferr = fail("object-invented", "storage holds %s (%s) which git did not resolve from the pack", id, o.Type()).Fail
				return io.EOF
			}
			rc, err := o.Reader()
			if err != nil {
				ferr = fail("object-unreadable", "%s: Reader: %v", id, err).Fail
				return io.EOF
			}
			data, err := io.ReadAll(rc)
			rc.Close()
			if err != nil {
				ferr = fail("object-unreadable", "%s: read: %v", id, err).Fail
				return io.EOF
			}
			if o.Type().String() != want.typ || o.Size() != int64(len(want.data)) || !bytes.Equal(data, want.data) {
				ferr = fail("object-differs", "%s: go-git %s/%d (%d bytes read), git %s/%d", id, o.Type(), o.Size(), len(data), want.typ, len(want.data)).Fail
				return io.EOF
			}
			return nil
		})
		if ferr != nil {
			res.Fail = ferr
			return res
		}
		if err != nil {
			return fail("iter-error", "iteration: %v", err)
		}
		ids := make([]string, 0, len(expect))
		for id := range expect {
			ids = append(ids, id)
		}
		sort.Strings(ids)
		for _, id := range ids {
			if !seen[id] {
				return fail("object-missing", "%s (%s) resolved by git is not in the storage", id, expect[id].typ)
			}
			// and by direct lookup
			o, err := st.EncodedObject(plumbing.AnyObject, plumbing.NewHash(id))
			if err != nil {
				return fail("object-missing", "EncodedObject(%s): %v", id, err)
			}
			if o.Type().String() != expect[id].typ {
				return fail("object-differs", "EncodedObject(%s): type %s, git %s", id, o.Type(), expect[id].typ)
			}
		}
	}
	return res
}

// chainOnExternalRefDelta reports whether the thin pack holds an OFS_DELTA entry
// whose base is a REF_DELTA entry against an object outside the pack
// (offsets/ids of the received entries are taken from git's index).
func chainOnExternalRefDelta(pack []byte, hl int, entries []ientry) bool {
	limit := uint64(len(pack) - hl)
	inPack := map[string]uint64{}
	for _, e := range entries {
		if e.off < limit {
			inPack[e.id] = e.off
		}
	}
	type hdr struct {
		typ     int
		baseOff uint64
		baseID  string
	}
	hs := map[uint64]hdr{}
	idAt := map[uint64]string{}
	for id, off := range inPack {
		idAt[off] = id
		p := int(off)
		b := pack[p]
		p++
		typ := int(b>>4) & 7
		for b&0x80 != 0 {
			b = pack[p]
			p++
		}
		h := hdr{typ: typ}
		switch typ {
		case 6:
			b = pack[p]
			p++
			v := uint64(b & 0x7f)
			for b&0x80 != 0 {
				b = pack[p]
				p++
				v = ((v + 1) << 7) | uint64(b&0x7f)
			}
			h.baseOff = off - v
		case 7:
			h.baseID = hex.EncodeToString(pack[p : p+hl])
		}
		hs[off] = h
	}
	ext := map[uint64]bool{}
	for off, h := range hs {
		if h.typ == 7 {
			if _, ok := inPack[h.baseID]; !ok {
				ext[off] = true
			}
		}
	}
	for _, h := range hs {
		if h.typ == 6 && ext[h.baseOff] {
			return true
		}
	}
	return false
}

// thinChainSig: Parser.resolveDeltas never descends into the children of a
// REF_DELTA whose base lies outside the pack.
const thinChainSig = "C08/Parse-thin-pack-ofs-delta-chained-on-externally-based-ref-delta-not-resolved"

func firstDiff(a, b []byte) int {
	n := len(a)
	if len(b) < n {
		n = len(b)
	}
	for i := 0; i < n; i++ {
		if a[i] != b[i] {
			return i
		}
	}
	return n
}

func TestC08(t *testing.T) {
	evid.Run(t, evid.Spec[Case]{ID: "C08", Gen: gen, Check: check})
}
