// Package c09 decides C09: corrupt or malicious packs never yield wrong objects.
// A valid pack is built by the harness's own pack writer (so that delta kind,
// order and chain depth are controlled), damaged by structured and byte-level
// mutation operators, optionally re-sealed with a correct trailer, and fed to
// go-git (Parser with memory / filesystem storage, streaming or seekable, or
// UpdateObjectStorage->PackfileWriter) and to `git index-pack --stdin` in an
// empty repository. Soundness: if go-git accepts, every object it delivered
// re-hashes (independent hasher) to the name it is stored under. Completeness:
// if git rejects, go-git must reject.
package c09

import (
	"bytes"
	"compress/zlib"
	"crypto/sha1"
	"crypto/sha256"
	"encoding/binary"
	"encoding/hex"
	"fmt"
	"hash"
	"io"
	"os"
	"path/filepath"
	"regexp"
	"runtime"
	"sort"
	"strings"
	"testing"
	"time"

	"github.com/go-git/go-billy/v6/osfs"
	"github.com/go-git/go-git/v6/plumbing"
	"github.com/go-git/go-git/v6/plumbing/cache"
	formatcfg "github.com/go-git/go-git/v6/plumbing/format/config"
	"github.com/go-git/go-git/v6/plumbing/format/idxfile"
	"github.com/go-git/go-git/v6/plumbing/format/packfile"
	"github.com/go-git/go-git/v6/storage/filesystem"
	"github.com/go-git/go-git/v6/storage/memory"
	"pgregory.net/rapid"

	"verif/harness/lib/evid"
	"verif/harness/lib/gitx"
)

// ---------------------------------------------------------------- case

// Edit replaces Del bytes at Pos (reduced modulo the current length) by Ins.
type Edit struct {
	Pos, Del int
	Ins      string
}

// Family is a chain of blob versions.
type Family struct {
	Lines int
	Salt  int
	Steps []Edit // version k+1 = version k with Steps[k] applied
}

// Mut is one mutation. Structured kinds act on the entry list before
// serialisation, byte kinds on the serialised pack (in the order given).
type Mut struct {
	Kind string
	A    int // entry index / byte position (reduced modulo)
	B    int // operator parameter
	C    int // second parameter
}

// Case holds every choice.
type Case struct {
	Format   string // sha1 | sha256
	Families []Family
	Tree     bool
	Commit   bool
	Tag      bool
	Delta    int  // 0 no deltas, 1 ofs, 2 ref, 3 alternate
	Forward  bool // ref-deltas are written before their bases (valid for REF_DELTA only)
	Deep     int  // >0: the seed is one blob plus a chain of Deep ofs-deltas instead of the families
	Muts     []Mut
	Reseal   bool // recompute the trailer after the mutations
	Mode     string
}

var modes = []string{"mem", "fs", "packwriter", "mem-stream", "fs-highmem", "nostorage"}

var structKinds = []string{
	"size-inc", "size-dec", "size-set", "payload-shrink", "payload-grow", "type-set",
	"ofs-zero", "ofs-nonheader", "ofs-to-packstart", "ofs-before-start", "ofs-minus1", "ofs-self-next",
	"ref-self", "ref-unknown", "ref-cycle", "delta-basesize", "delta-resultsize", "delta-copy-oob", "delta-truncate",
	"swap", "dup", "drop", "drop-keepcount", "count-inc", "count-dec", "version", "signature",
	"adler", "stream-tail-junk", "to-refdelta-of-self-id",
}
var byteKinds = []string{"bitflip", "byteset", "truncate", "insert", "delete", "trailer-flip"}

var insAlpha = []string{"x", "edit", "\n", "0123456789", "line of text that repeats\n", "zz", "A longer inserted fragment, unlike anything else.\n"}

func gen(t *rapid.T, _ *evid.Recorder) Case {
	c := Case{}
	c.Format = rapid.SampledFrom([]string{"sha1", "sha1", "sha256"}).Draw(t, "format")
	nf := rapid.SampledFrom([]int{2, 1, 3}).Draw(t, "nfam")
	for i := 0; i < nf; i++ {
		f := Family{Lines: rapid.SampledFrom([]int{30, 10, 60, 3, 0}).Draw(t, "lines"), Salt: rapid.IntRange(0, 5).Draw(t, "salt")}
		ns := rapid.SampledFrom([]int{3, 2, 5, 1, 8, 0}).Draw(t, "chain")
		for s := 0; s < ns; s++ {
			var sb strings.Builder
			k := rapid.IntRange(0, 2).Draw(t, "ninstok")
			for j := 0; j < k; j++ {
				sb.WriteString(rapid.SampledFrom(insAlpha).Draw(t, "ins"))
			}
			f.Steps = append(f.Steps, Edit{Pos: rapid.IntRange(0, 1<<12).Draw(t, "pos"), Del: rapid.SampledFrom([]int{0, 1, 5, 40}).Draw(t, "del"), Ins: sb.String()})
		}
		c.Families = append(c.Families, f)
	}
	c.Tree = rapid.Bool().Draw(t, "tree")
	c.Commit = c.Tree && rapid.Bool().Draw(t, "commit")
	c.Tag = c.Commit && rapid.Bool().Draw(t, "tag")
	c.Delta = rapid.SampledFrom([]int{1, 2, 3, 0}).Draw(t, "delta")
	c.Forward = c.Delta == 2 && rapid.IntRange(0, 3).Draw(t, "forward") == 0
	if rapid.IntRange(0, 79).Draw(t, "deep") == 41 {
		c.Deep = rapid.SampledFrom([]int{4095, 4096, 4097, 5000, 300}).Draw(t, "deepn")
	}
	nm := rapid.SampledFrom([]int{1, 1, 1, 2, 3, 0}).Draw(t, "nmut")
	for i := 0; i < nm; i++ {
		var m Mut
		if rapid.IntRange(0, 2).Draw(t, "mclass") == 0 {
			m.Kind = rapid.SampledFrom(byteKinds).Draw(t, "bkind")
		} else {
			m.Kind = rapid.SampledFrom(structKinds).Draw(t, "skind")
		}
		m.A = rapid.IntRange(0, 1<<20).Draw(t, "a")
		m.B = rapid.IntRange(0, 255).Draw(t, "b")
		m.C = rapid.IntRange(0, 7).Draw(t, "c")
		c.Muts = append(c.Muts, m)
	}
	c.Reseal = rapid.IntRange(0, 3).Draw(t, "reseal") > 0
	c.Mode = rapid.SampledFrom(modes).Draw(t, "mode")
	if c.Deep > 0 && c.Mode == "packwriter" {
		c.Mode = "mem"
	}
	return c
}

// ---------------------------------------------------------------- independent object / pack model

func newHash(format string) hash.Hash {
	if format == "sha256" {
		return sha256.New()
	}
	return sha1.New()
}

func oidRaw(format, typ string, data []byte) []byte {
	h := newHash(format)
	fmt.Fprintf(h, "%s %d\x00", typ, len(data))
	h.Write(data)
	return h.Sum(nil)
}

var typeNames = map[int]string{1: "commit", 2: "tree", 3: "blob", 4: "tag"}

func baseBlob(f Family) []byte {
	var b bytes.Buffer
	for i := 0; i < f.Lines; i++ {
		if (i+f.Salt)%7 == 0 {
			fmt.Fprintf(&b, "unique line %d of family salt %d\n", i, f.Salt)
		} else {
			b.WriteString("line of text that repeats\n")
		}
	}
	return b.Bytes()
}

func applyEdit(b []byte, e Edit) []byte {
	pos := 0
	if len(b) > 0 {
		pos = e.Pos % (len(b) + 1)
	}
	del := e.Del
	if pos+del > len(b) {
		del = len(b) - pos
	}
	n := make([]byte, 0, len(b)+len(e.Ins))
	n = append(n, b[:pos]...)
	n = append(n, e.Ins...)
	n = append(n, b[pos+del:]...)
	return n
}

func varint(n uint64) []byte { // delta header size encoding (little-endian base 128)
	var out []byte
	for {
		b := byte(n & 0x7f)
		n >>= 7
		if n != 0 {
			out = append(out, b|0x80)
		} else {
			return append(out, b)
		}
	}
}

// makeDelta encodes target against base: common prefix copy, middle insert, common suffix copy.
func makeDelta(base, target []byte) []byte {
	p := 0
	for p < len(base) && p < len(target) && base[p] == target[p] {
		p++
	}
	s := 0
	for s < len(base)-p && s < len(target)-p && base[len(base)-1-s] == target[len(target)-1-s] {
		s++
	}
	var d []byte
	d = append(d, varint(uint64(len(base)))...)
	d = append(d, varint(uint64(len(target)))...)
	copyOp := func(off, n int) {
		for n > 0 {
			k := n
			if k > 0xffff {
				k = 0xffff
			}
			op := byte(0x80)
			var args []byte
			for i := 0; i < 4; i++ {
				if b := byte(off >> (8 * i)); b != 0 {
					op |= 1 << i
					args = append(args, b)
				}
			}
			for i := 0; i < 2; i++ {
				if b := byte(k >> (8 * i)); b != 0 {
					op |= 0x10 << i
					args = append(args, b)
				}
			}
			d = append(d, op)
			d = append(d, args...)
			off += k
			n -= k
		}
	}
	copyOp(0, p)
	mid := target[p : len(target)-s]
	for len(mid) > 0 {
		k := len(mid)
		if k > 127 {
			k = 127
		}
		d = append(d, byte(k))
		d = append(d, mid[:k]...)
		mid = mid[k:]
	}
	copyOp(len(base)-s, s)
	return d
}

var zw *zlib.Writer // reused: a fresh zlib writer costs more than a megabyte of clearing

func deflate(b []byte) []byte {
	var z bytes.Buffer
	if zw == nil {
		zw, _ = zlib.NewWriterLevel(&z, zlib.BestSpeed)
	} else {
		zw.Reset(&z)
	}
	zw.Write(b)
	zw.Close()
	return z.Bytes()
}

// entry is one pack entry in the harness's model.
type entry struct {
	typ     int    // on-disk type code
	size    uint64 // declared (header) size
	base    int    // index of the base entry for typ 6 (distance computed at layout time)
	distFix string // "", or how the encoded OFS distance is falsified
	baseID  []byte // typ 7
	z       []byte // compressed stream
	payload []byte // what z inflates to in the valid seed (object bytes or delta bytes)
	id      []byte // id of the object this entry stands for in the valid seed
}

type seedObj struct {
	typ  int
	data []byte
	id   []byte
	prev int // index of the previous version in the same family, or -1
}

func buildObjects(c Case) []seedObj {
	var objs []seedObj
	add := func(typ int, data []byte, prev int) int {
		objs = append(objs, seedObj{typ, data, oidRaw(c.Format, typeNames[typ], data), prev})
		return len(objs) - 1
	}
	if c.Deep > 0 {
		b := []byte("base of a very deep chain\n")
		prev := add(3, b, -1)
		for i := 0; i < c.Deep; i++ {
			b = append([]byte{byte('a' + i%26)}, b...)
			prev = add(3, b, prev)
		}
		return objs
	}
	var firstBlobs []int
	seen := map[string]bool{}
	for _, f := range c.Families {
		b := baseBlob(f)
		prev := -1
		if k := string(oidRaw(c.Format, "blob", b)); !seen[k] {
			seen[k] = true
			prev = add(3, b, -1)
			firstBlobs = append(firstBlobs, prev)
		}
		for _, st := range f.Steps {
			b = applyEdit(b, st)
			k := string(oidRaw(c.Format, "blob", b))
			if seen[k] {
				continue
			}
			seen[k] = true
			prev = add(3, b, prev)
		}
	}
	if len(objs) == 0 {
		firstBlobs = append(firstBlobs, add(3, []byte("only\n"), -1))
	}
	if c.Tree {
		var tb bytes.Buffer
		for i, bi := range firstBlobs {
			fmt.Fprintf(&tb, "100644 f%d\x00", i)
			tb.Write(objs[bi].id)
		}
		ti := add(2, tb.Bytes(), -1)
		if c.Commit {
			cm := fmt.Sprintf("tree %s\nauthor A <a@example.com> 1700000000 +0000\ncommitter C <c@example.com> 1700000000 +0000\n\nmsg\n", hex.EncodeToString(objs[ti].id))
			ci := add(1, []byte(cm), -1)
			if c.Tag {
				tg := fmt.Sprintf("object %s\ntype commit\ntag v1\ntagger T <t@example.com> 1700000000 +0000\n\nrel\n", hex.EncodeToString(objs[ci].id))
				add(4, []byte(tg), -1)
			}
		}
	}
	return objs
}

// seedEntries turns the objects into a valid entry list.
func seedEntries(c Case, objs []seedObj) []entry {
	order := make([]int, len(objs))
	for i := range order {
		order[i] = i
	}
	if c.Forward && c.Deep == 0 {
		for i, j := 0, len(order)-1; i < j; i, j = i+1, j-1 {
			order[i], order[j] = order[j], order[i]
		}
	}
	pos := make(map[int]int, len(objs))
	for p, oi := range order {
		pos[oi] = p
	}
	es := make([]entry, len(order))
	for p, oi := range order {
		o := objs[oi]
		kind := 0
		if o.prev >= 0 {
			switch {
			case c.Deep > 0 || c.Delta == 1:
				kind = 6
			case c.Delta == 2:
				kind = 7
			case c.Delta == 3:
				kind = 6 + oi%2
			}
		}
		if kind == 6 && pos[o.prev] > p {
			kind = 7
		}
		if kind != 0 && len(makeDelta(objs[o.prev].data, o.data)) < 4 {
			// git refuses a delta instruction stream shorter than DELTA_SIZE_MIN (4 bytes), e.g. the
			// delta to an empty target: a seed pack must be one git accepts, so store such objects whole
			// (that go-git accepts such deltas is recorded under C06 and as a C09 finding)
			kind = 0
		}
		e := entry{id: o.id}
		switch kind {
		case 0:
			e.typ, e.payload = o.typ, o.data
		case 6:
			e.typ, e.base, e.payload = 6, pos[o.prev], makeDelta(objs[o.prev].data, o.data)
		case 7:
			e.typ, e.baseID, e.payload = 7, objs[o.prev].id, makeDelta(objs[o.prev].data, o.data)
		}
		e.size = uint64(len(e.payload))
		e.z = deflate(e.payload)
		es[p] = e
	}
	return es
}

func entryHeader(typ int, size uint64) []byte {
	b := byte(typ&7)<<4 | byte(size&0x0f)
	size >>= 4
	var out []byte
	for size != 0 {
		out = append(out, b|0x80)
		b = byte(size & 0x7f)
		size >>= 7
	}
	return append(out, b)
}

func ofsVarint(n uint64) []byte {
	out := []byte{byte(n & 0x7f)}
	n >>= 7
	for n != 0 {
		n--
		out = append([]byte{0x80 | byte(n&0x7f)}, out...)
		n >>= 7
	}
	return out
}

type header struct {
	sig     string
	version uint32
	count   uint32
}

func serialise(format string, h header, es []entry) []byte {
	var b bytes.Buffer
	b.WriteString(h.sig)
	binary.Write(&b, binary.BigEndian, h.version)
	binary.Write(&b, binary.BigEndian, h.count)
	offs := make([]uint64, len(es))
	for i, e := range es {
		offs[i] = uint64(b.Len())
		b.Write(entryHeader(e.typ, e.size))
		switch e.typ {
		case 6:
			var d uint64
			if e.base >= 0 && e.base < i {
				d = offs[i] - offs[e.base]
			} else {
				d = offs[i] - 12 // base lost by a structural mutation: point at the first entry
				if i == 0 {
					d = 0
				}
			}
			switch e.distFix {
			case "ofs-zero":
				d = 0
			case "ofs-nonheader":
				if d > 1 {
					d--
				}
			case "ofs-minus1":
				d++
			case "ofs-to-packstart":
				d = offs[i]
			case "ofs-before-start":
				d = offs[i] + 1000
			case "ofs-self-next":
				d = offs[i] - 4
			}
			b.Write(ofsVarint(d))
		case 7:
			b.Write(e.baseID)
		}
		b.Write(e.z)
	}
	hh := newHash(format)
	hh.Write(b.Bytes())
	b.Write(hh.Sum(nil))
	return b.Bytes()
}

func idx(a, n int) int {
	if n <= 0 {
		return 0
	}
	return a % n
}

// mutate applies the case's mutations and returns the damaged pack plus the
// list of mutation kinds that had an effect.
func mutate(c Case, es []entry) ([]byte, []string) {
	h := header{"PACK", 2, uint32(len(es))}
	hl := newHash(c.Format).Size()
	var applied []string
	es = append([]entry(nil), es...)
	deltas := func() []int {
		var d []int
		for i, e := range es {
			if e.typ == 6 || e.typ == 7 {
				d = append(d, i)
			}
		}
		return d
	}
	for _, m := range c.Muts {
		n := len(es)
		if n == 0 {
			break
		}
		i := idx(m.A, n)
		ok := true
		switch m.Kind {
		case "size-inc":
			es[i].size += uint64(1 + m.B%9)
			if m.C == 0 {
				es[i].size += 1 << uint(7+m.B%12)
			}
		case "size-dec":
			k := uint64(1 + m.B%9)
			if es[i].size < k {
				ok = false
			} else {
				es[i].size -= k
			}
		case "size-set":
			ns := []uint64{0, 1, 15, 16, 127, 128, 1 << 14, 1 << 20}[m.B%8]
			ok = ns != es[i].size
			es[i].size = ns
		case "payload-shrink":
			k := 1 + m.B%9
			if len(es[i].payload) < k {
				ok = false
			} else {
				es[i].z = deflate(es[i].payload[:len(es[i].payload)-k])
			}
		case "payload-grow":
			es[i].z = deflate(append(append([]byte(nil), es[i].payload...), bytes.Repeat([]byte{'!'}, 1+m.B%9)...))
		case "type-set":
			nt := []int{0, 1, 2, 3, 4, 5, 6, 7}[m.B%8]
			ok = nt != es[i].typ
			if nt == 7 && es[i].baseID == nil {
				es[i].baseID = es[(i+1)%n].id
			}
			if nt == 6 && es[i].typ != 6 {
				es[i].base = i - 1
			}
			es[i].typ = nt
		case "ofs-zero", "ofs-nonheader", "ofs-to-packstart", "ofs-before-start", "ofs-minus1", "ofs-self-next":
			var o []int
			for _, j := range deltas() {
				if es[j].typ == 6 {
					o = append(o, j)
				}
			}
			if len(o) == 0 {
				ok = false
			} else {
				es[o[idx(m.A, len(o))]].distFix = m.Kind
			}
		case "ref-self", "ref-unknown", "ref-cycle":
			var o []int
			for _, j := range deltas() {
				if es[j].typ == 7 {
					o = append(o, j)
				}
			}
			if len(o) == 0 {
				ok = false
				break
			}
			j := o[idx(m.A, len(o))]
			switch m.Kind {
			case "ref-self":
				es[j].baseID = es[j].id
			case "ref-unknown":
				es[j].baseID = oidRaw(c.Format, "blob", []byte(fmt.Sprintf("nowhere %d", m.B)))
			case "ref-cycle":
				// j's base becomes an object that itself (transitively) depends on j, when there is one
				found := false
				for _, k := range o {
					if k != j && bytes.Equal(es[k].baseID, es[j].id) {
						es[j].baseID = es[k].id
						found = true
						break
					}
				}
				ok = found
			}
		case "delta-basesize", "delta-resultsize", "delta-copy-oob", "delta-truncate":
			d := deltas()
			if len(d) == 0 {
				ok = false
				break
			}
			j := d[idx(m.A, len(d))]
			p := append([]byte(nil), es[j].payload...)
			switch m.Kind {
			case "delta-basesize":
				p[0] ^= byte(1 + m.B%0x7f)
			case "delta-resultsize":
				k := 0
				for p[k]&0x80 != 0 {
					k++
				}
				k++
				if k >= len(p) {
					ok = false
				} else {
					p[k] ^= byte(1 + m.B%0x7f)
				}
			case "delta-copy-oob":
				p = append(p, 0x80|0x01|0x02|0x04|0x10, 0xff, 0xff, 0x7f, 0x10) // copy 16 bytes from a huge offset
			case "delta-truncate":
				k := 1 + m.B%5
				if len(p) <= k {
					ok = false
				} else {
					p = p[:len(p)-k]
				}
			}
			if ok {
				es[j].z = deflate(p)
				if m.C%2 == 0 {
					es[j].size = uint64(len(p)) // keep the entry header consistent with the new delta
				}
			}
		case "swap":
			j := idx(m.B, n)
			ok = i != j
			es[i], es[j] = es[j], es[i]
			// OFS bases keep pointing at the same *positions*
		case "dup":
			es = append(es, es[i])
			if last := &es[len(es)-1]; last.typ == 6 && m.C%2 == 0 {
				last.base = es[i].base
			}
			h.count++
		case "drop", "drop-keepcount":
			es = append(es[:i:i], es[i+1:]...)
			for j := range es {
				if es[j].typ == 6 && es[j].base >= i {
					es[j].base-- // may become -1 / point at a neighbour
				}
			}
			if m.Kind == "drop" {
				h.count--
			}
		case "count-inc":
			h.count += uint32(1 + m.B%3)
		case "count-dec":
			k := uint32(1 + m.B%3)
			if h.count < k {
				ok = false
			} else {
				h.count -= k
			}
		case "version":
			h.version = []uint32{0, 1, 3, 4, 0x02000000}[m.B%5]
		case "signature":
			h.sig = []string{"pack", "PACX", "KCAP", "\x00ACK"}[m.B%4]
		case "adler":
			z := append([]byte(nil), es[i].z...)
			z[len(z)-1-m.B%4] ^= byte(1 << uint(m.C))
			es[i].z = z
		case "stream-tail-junk":
			es[i].z = append(append([]byte(nil), es[i].z...), bytes.Repeat([]byte{byte(m.B)}, 1+m.C)...)
		case "to-refdelta-of-self-id":
			// a full object replaced by a delta against its own (future) id: unresolvable
			es[i].typ, es[i].baseID = 7, es[i].id
			p := makeDelta(es[i].payload, es[i].payload)
			es[i].z, es[i].size = deflate(p), uint64(len(p))
		default:
			ok = false
		}
		if ok && !isByteKind(m.Kind) {
			applied = append(applied, m.Kind)
		}
	}
	pack := serialise(c.Format, h, es)
	for _, m := range c.Muts {
		if !isByteKind(m.Kind) {
			continue
		}
		body := len(pack) - hl
		if body <= 12 {
			break
		}
		ok := true
		switch m.Kind {
		case "bitflip":
			pack[idx(m.A, body)] ^= 1 << uint(m.C)
		case "byteset":
			p := idx(m.A, body)
			ok = pack[p] != byte(m.B)
			pack[p] = byte(m.B)
		case "truncate":
			cut := 12 + idx(m.A, body-12)
			if m.C%2 == 0 {
				pack = append(pack[:cut:cut], pack[body:]...) // cut the body, keep a trailer
			} else {
				pack = pack[:cut] // cut everything after
			}
		case "insert":
			p := idx(m.A, body)
			pack = append(pack[:p:p], append([]byte{byte(m.B)}, pack[p:]...)...)
		case "delete":
			p := idx(m.A, body)
			pack = append(pack[:p:p], pack[p+1:]...)
		case "trailer-flip":
			pack[body+idx(m.A, hl)] ^= 1 << uint(m.C)
		}
		if ok {
			applied = append(applied, m.Kind)
		}
	}
	if c.Reseal && len(pack) > hl {
		body := len(pack) - hl
		hh := newHash(c.Format)
		hh.Write(pack[:body])
		copy(pack[body:], hh.Sum(nil))
	}
	return pack, applied
}

func isByteKind(k string) bool {
	for _, b := range byteKinds {
		if b == k {
			return true
		}
	}
	return false
}

// ---------------------------------------------------------------- lenient walk of a (damaged) pack

type walked struct {
	off      int
	typ      int
	declared uint64
	inflated int    // bytes the zlib stream yields
	streamOK bool   // stream complete, adler32 correct
	delta    []byte // inflated delta instructions (delta entries with an intact stream)
}

// truncatedInsert reports whether the delta's instruction stream ends inside
// the literal bytes of an insert instruction (every earlier instruction being
// complete).
func truncatedInsert(d []byte) bool {
	p := 0
	for k := 0; k < 2; k++ { // base size, result size
		for {
			if p >= len(d) {
				return false
			}
			b := d[p]
			p++
			if b&0x80 == 0 {
				break
			}
		}
	}
	for p < len(d) {
		op := d[p]
		p++
		switch {
		case op&0x80 != 0:
			for i := 0; i < 7; i++ {
				if op&(1<<uint(i)) != 0 {
					p++
				}
			}
			if p > len(d) {
				return false // truncated copy arguments: a different shape
			}
		case op == 0:
			return false
		default:
			if p+int(op) > len(d) {
				return true
			}
			p += int(op)
		}
	}
	return false
}

// walk decodes entry after entry as long as the structure can be followed.
func walk(pack []byte, hl int) []walked {
	var out []walked
	if len(pack) < 12+hl || string(pack[:4]) != "PACK" {
		return nil
	}
	count := binary.BigEndian.Uint32(pack[8:12])
	p := 12
	end := len(pack) - hl
	for i := uint32(0); i < count && p < end; i++ {
		w := walked{off: p}
		b := pack[p]
		p++
		w.typ = int(b>>4) & 7
		w.declared = uint64(b & 0x0f)
		shift := uint(4)
		for b&0x80 != 0 {
			if p >= end || shift > 60 {
				return out
			}
			b = pack[p]
			p++
			w.declared |= uint64(b&0x7f) << shift
			shift += 7
		}
		switch w.typ {
		case 6:
			for {
				if p >= end {
					return out
				}
				b = pack[p]
				p++
				if b&0x80 == 0 {
					break
				}
			}
		case 7:
			p += hl
		case 1, 2, 3, 4:
		default:
			return out
		}
		if p >= end {
			return out
		}
		br := bytes.NewReader(pack[p:end])
		zr, err := zlib.NewReader(br)
		if err != nil {
			return out
		}
		var sink io.Writer = io.Discard
		var db bytes.Buffer
		if w.typ == 6 || w.typ == 7 {
			sink = &db
		}
		n, err := io.Copy(sink, io.LimitReader(zr, 1<<24))
		w.inflated = int(n)
		w.streamOK = err == nil
		if err == nil && (w.typ == 6 || w.typ == 7) {
			w.delta = db.Bytes()
		}
		out = append(out, w)
		if err != nil {
			return out
		}
		p = end - br.Len()
	}
	return out
}

// ---------------------------------------------------------------- scratch / helpers

func scratch() string {
	base := os.Getenv("VERIF_SCRATCH")
	if base == "" {
		base = "/dev/shm"
	}
	d, err := os.MkdirTemp(base, "c09-")
	if err != nil {
		panic("INFRA: scratch: " + err.Error())
	}
	return d
}

func must(err error) {
	if err != nil {
		panic("INFRA: " + err.Error())
	}
}

func initRepo(gitdir, format string) {
	for _, d := range []string{"objects/pack", "objects/info", "refs/heads", "refs/tags"} {
		must(os.MkdirAll(filepath.Join(gitdir, d), 0o755))
	}
	must(os.WriteFile(filepath.Join(gitdir, "HEAD"), []byte("ref: refs/heads/main\n"), 0o644))
	cfg := "[core]\n\trepositoryformatversion = 0\n\tfilemode = true\n\tbare = false\n"
	if format == "sha256" {
		cfg = "[core]\n\trepositoryformatversion = 1\n\tfilemode = true\n\tbare = false\n[extensions]\n\tobjectformat = sha256\n"
	}
	must(os.WriteFile(filepath.Join(gitdir, "config"), []byte(cfg), 0o644))
}

type chunkReader struct {
	b []byte
	n int
}

func (r *chunkReader) Read(p []byte) (int, error) {
	if len(r.b) == 0 {
		return 0, io.EOF
	}
	k := r.n
	if k > len(p) {
		k = len(p)
	}
	if k > len(r.b) {
		k = len(r.b)
	}
	copy(p, r.b[:k])
	r.b = r.b[k:]
	return k, nil
}

var (
	reHex = regexp.MustCompile(`[0-9a-f]{40,64}`)
	reNum = regexp.MustCompile(`-?[0-9]+`)
)

// gitClass normalises git's fatal message into an error class.
func gitClass(stderr string) string {
	s := strings.TrimSpace(stderr)
	if i := strings.LastIndex(s, "fatal: "); i >= 0 {
		s = s[i+7:]
	} else if i := strings.LastIndex(s, "error: "); i >= 0 {
		s = s[i+7:]
	}
	if i := strings.IndexByte(s, '\n'); i >= 0 {
		s = s[:i]
	}
	s = reHex.ReplaceAllString(s, "ID")
	keep := ""
	if i := strings.Index(s, "inflate returned "); i >= 0 { // the zlib status is part of the class
		keep = strings.TrimSpace(s[i+len("inflate returned "):])
		s = s[:i] + "inflate returned"
	}
	s = reNum.ReplaceAllString(s, "N")
	if keep != "" {
		s += " " + keep
	}
	s = strings.Map(func(r rune) rune {
		if r == ' ' || r == ':' || r == '\'' || r == '(' || r == ')' || r == ',' {
			return '-'
		}
		return r
	}, s)
	for strings.Contains(s, "--") {
		s = strings.ReplaceAll(s, "--", "-")
	}
	if len(s) > 70 {
		s = s[:70]
	}
	return strings.Trim(s, "-")
}

type yielded struct {
	name string // name the object is stored / reported under
	typ  string
	size int64
	data []byte
}

// looseObjects reads every loose object file of a dotgit independently of go-git.
func looseObjects(gitdir string) ([]yielded, error) {
	var out []yielded
	root := filepath.Join(gitdir, "objects")
	des, _ := os.ReadDir(root)
	for _, d := range des {
		if !d.IsDir() || len(d.Name()) != 2 {
			continue
		}
		fs, _ := os.ReadDir(filepath.Join(root, d.Name()))
		for _, f := range fs {
			raw, err := os.ReadFile(filepath.Join(root, d.Name(), f.Name()))
			if err != nil {
				return nil, err
			}
			name := d.Name() + f.Name()
			zr, err := zlib.NewReader(bytes.NewReader(raw))
			if err != nil {
				out = append(out, yielded{name: name, typ: "unreadable-zlib"})
				continue
			}
			all, err := io.ReadAll(zr)
			if err != nil {
				out = append(out, yielded{name: name, typ: "unreadable-zlib"})
				continue
			}
			nul := bytes.IndexByte(all, 0)
			if nul < 0 {
				out = append(out, yielded{name: name, typ: "no-header"})
				continue
			}
			var typ string
			var sz int64
			if _, err := fmt.Sscanf(string(all[:nul]), "%s %d", &typ, &sz); err != nil {
				out = append(out, yielded{name: name, typ: "bad-header"})
				continue
			}
			out = append(out, yielded{name, typ, sz, all[nul+1:]})
		}
	}
	sort.Slice(out, func(i, j int) bool { return out[i].name < out[j].name })
	return out, nil
}

// ---------------------------------------------------------------- check

type goResult struct {
	err     error
	objs    []yielded
	idxIDs  []string
	haveIdx bool
	enumErr string
}

func runGo(c Case, pack []byte, dir string) goResult {
	of := formatcfg.SHA1
	if c.Format == "sha256" {
		of = formatcfg.SHA256
	}
	var gr goResult
	var rd io.Reader = bytes.NewReader(pack)
	if c.Mode == "mem-stream" {
		rd = &chunkReader{b: pack, n: 4096}
	}
	iw := new(idxfile.Writer)
	collectIdx := func() {
		ix, err := iw.Index()
		if err != nil {
			return
		}
		it, err := ix.Entries()
		if err != nil {
			return
		}
		for {
			e, err := it.Next()
			if err != nil {
				break
			}
			gr.idxIDs = append(gr.idxIDs, e.Hash.String())
		}
		gr.haveIdx = true
	}
	switch c.Mode {
	case "nostorage":
		_, gr.err = packfile.NewParser(rd, packfile.WithScannerObservers(iw), packfile.WithObjectFormat(of)).Parse()
		if gr.err == nil {
			collectIdx()
		}
	case "mem", "mem-stream":
		m := memory.NewStorage(memory.WithObjectFormat(of))
		_, gr.err = packfile.NewParser(rd, packfile.WithScannerObservers(iw), packfile.WithObjectFormat(of), packfile.WithStorage(m)).Parse()
		if gr.err == nil {
			collectIdx()
			keys := make([]plumbing.Hash, 0, len(m.Objects))
			for k := range m.Objects {
				keys = append(keys, k)
			}
			sort.Slice(keys, func(i, j int) bool { return keys[i].Compare(keys[j].Bytes()) < 0 })
			for _, k := range keys {
				o := m.Objects[k]
				y := yielded{name: k.String(), typ: o.Type().String(), size: o.Size()}
				if r, err := o.Reader(); err == nil {
					y.data, _ = io.ReadAll(r)
					r.Close()
				}
				gr.objs = append(gr.objs, y)
			}
		}
	case "fs", "fs-highmem":
		gd := filepath.Join(dir, "s", ".git")
		initRepo(gd, c.Format)
		st := filesystem.NewStorageWithOptions(osfs.New(gd), cache.NewObjectLRUDefault(), filesystem.Options{HighMemoryMode: c.Mode == "fs-highmem"})
		_, gr.err = packfile.NewParser(rd, packfile.WithScannerObservers(iw), packfile.WithObjectFormat(of), packfile.WithStorage(st)).Parse()
		st.Close()
		if gr.err == nil {
			collectIdx()
			objs, err := looseObjects(gd)
			if err != nil {
				panic("INFRA: " + err.Error())
			}
			gr.objs = objs
		}
	case "packwriter":
		gd := filepath.Join(dir, "s", ".git")
		initRepo(gd, c.Format)
		st := filesystem.NewStorageWithOptions(osfs.New(gd), cache.NewObjectLRUDefault(), filesystem.Options{})
		gr.err = packfile.UpdateObjectStorage(st, rd)
		if gr.err == nil {
			it, err := st.IterEncodedObjects(plumbing.AnyObject)
			if err != nil {
				gr.enumErr = "IterEncodedObjects: " + err.Error()
			} else {
				err = it.ForEach(func(o plumbing.EncodedObject) error {
					y := yielded{name: o.Hash().String(), typ: o.Type().String(), size: o.Size()}
					r, err := o.Reader()
					if err != nil {
						return fmt.Errorf("%s: Reader: %w", y.name, err)
					}
					y.data, err = io.ReadAll(r)
					r.Close()
					if err != nil {
						return fmt.Errorf("%s: read: %w", y.name, err)
					}
					gr.objs = append(gr.objs, y)
					return nil
				})
				if err != nil {
					gr.enumErr = err.Error()
				}
			}
		}
		st.Close()
	}
	return gr
}

func check(c Case) (res evid.Result) {
	if c.Format != "sha1" && c.Format != "sha256" {
		return evid.Result{Discard: true}
	}
	okMode := false
	for _, m := range modes {
		okMode = okMode || m == c.Mode
	}
	if !okMode || c.Deep > 6000 || (c.Deep > 0 && c.Mode == "packwriter") {
		// reading a 4000-deep chain back through the packfile reader is quadratic: not this property
		return evid.Result{Discard: true}
	}
	hl := newHash(c.Format).Size()
	objs := buildObjects(c)
	seed := seedEntries(c, objs)
	pack, applied := mutate(c, seed)
	dir := scratch()
	defer os.RemoveAll(dir)
	lab := func(s string) { res.Labels = append(res.Labels, s) }
	lab("mode=" + c.Mode)
	for _, k := range applied {
		lab("mut=" + k)
	}
	if len(applied) == 0 {
		lab("unmutated")
	}
	if c.Deep > 0 {
		lab("deep-chain")
	}

	// A damaged object count makes idxfile.Writer.OnHeader allocate count*sizeof(Entry)
	// before the first entry is read (an unrecoverable out-of-memory abort under the
	// driver's address-space limit). Resource exhaustion is not what C09 states;
	// such packs are not run (reported separately).
	if len(pack) >= 12 && binary.BigEndian.Uint32(pack[8:12]) > 1<<22 {
		res.Discard = true
		return res
	}

	// ---- git
	grepo := filepath.Join(dir, "g")
	initRepo(filepath.Join(grepo, ".git"), c.Format)
	gres, rerr := gitx.Run(gitx.Cmd{Dir: grepo, Stdin: pack, Args: []string{"-c", "pack.threads=1", "index-pack", "--stdin"}})
	gerr, gcode := string(gres.Err), gres.Code
	gitBug := false
	if rerr != nil {
		// git 2.39.5 itself aborts on some damaged streams ("BUG: zlib.c:57: total_in
		// mismatch"): that is no verdict about the pack; soundness is still checked.
		if !strings.Contains(rerr.Error(), "BUG:") {
			panic("INFRA: " + rerr.Error())
		}
		gitBug = true
		gcode = 0
		lab("git-aborts-BUG(no-verdict)")
	}
	if gcode != 0 && gcode != 128 && gcode != 1 {
		panic(fmt.Sprintf("INFRA: git index-pack exit %d: %s", gcode, gerr))
	}
	gitRejects := gcode != 0
	class := ""
	if gitRejects {
		class = gitClass(gerr)
		if strings.Contains(gerr, "unable to create") || strings.Contains(gerr, "No space") {
			panic("INFRA: git index-pack: " + gerr)
		}
	}
	if len(applied) == 0 && gitRejects {
		panic("INFRA: git rejects the unmutated seed pack: " + gerr)
	}

	// ---- go-git, under a watchdog
	done := make(chan goResult, 1)
	go func() {
		defer func() {
			if p := recover(); p != nil {
				if s, ok := p.(string); ok && strings.HasPrefix(s, "INFRA:") {
					done <- goResult{enumErr: s}
					return
				}
				done <- goResult{err: nil, enumErr: fmt.Sprintf("PANIC: %v", p)}
			}
		}()
		done <- runGo(c, pack, dir)
	}()
	var gr goResult
	select {
	case gr = <-done:
	case <-time.After(watchdog()):
		buf := make([]byte, 1<<20)
		buf = buf[:runtime.Stack(buf, true)]
		st := string(buf)
		if i := strings.Index(st, "c09.runGo"); i >= 0 { // keep the goroutine that runs go-git
			j := strings.LastIndex(st[:i], "\ngoroutine ")
			k := strings.Index(st[i:], "\n\n")
			if j >= 0 && k >= 0 {
				st = st[j : i+k]
			}
		}
		if len(st) > 6000 {
			st = st[:6000]
		}
		res.NonTrivial = true
		res.Fail = evid.Failf("C09/hang:"+c.Mode+":"+strings.Join(applied, "+"), "go-git did not return within %v (git: rejects=%v %s)\n%s", watchdog(), gitRejects, class, st)
		return res
	}
	if strings.HasPrefix(gr.enumErr, "INFRA:") {
		panic(gr.enumErr)
	}
	if strings.HasPrefix(gr.enumErr, "PANIC:") {
		res.NonTrivial = true
		res.Fail = evid.Failf("C09/panic:"+c.Mode+":"+strings.Join(applied, "+"), "go-git panicked: %s", gr.enumErr)
		return res
	}
	goRejects := gr.err != nil

	// ---- classification
	ws := walk(pack, hl)
	underrunFull, underrunDelta, overrun, truncIns := false, false, false, false
	for _, w := range ws {
		if w.delta != nil && truncatedInsert(w.delta) {
			truncIns = true
		}
		if w.streamOK && uint64(w.inflated) < w.declared {
			if w.typ == 6 || w.typ == 7 {
				underrunDelta = true
			} else {
				underrunFull = true
			}
		}
		if w.streamOK && uint64(w.inflated) > w.declared {
			overrun = true
		}
	}
	if underrunFull || underrunDelta {
		lab("declared>inflated")
	}
	if truncIns {
		lab("delta-insert-cut-short")
	}
	if overrun {
		lab("declared<inflated")
	}
	switch {
	case gitRejects && goRejects:
		lab("both-reject")
	case gitBug:
	case !gitRejects && !goRejects:
		lab("both-accept")
	case gitRejects:
		lab("git-rejects-go-accepts")
	default:
		lab("go-rejects-git-accepts")
	}
	if gitRejects {
		lab("git:" + class)
	}
	onlyTrailer := true
	for _, k := range applied {
		if k != "trailer-flip" {
			onlyTrailer = false
		}
	}
	res.NonTrivial = len(applied) > 0 && !onlyTrailer
	muts := strings.Join(applied, "+")
	ctx := fmt.Sprintf("format=%s mode=%s muts=[%s] reseal=%v entries=%d packlen=%d git=%q", c.Format, c.Mode, muts, c.Reseal, len(seed), len(pack), strings.TrimSpace(gerr))

	// ---- the expected defect class, recognised by its cause (computed from the
	// damaged bytes): an entry whose intact zlib stream ends before the size its
	// header declares. git always rejects such a pack; go-git accepting it is the
	// defect, whatever the downstream symptom (missing / misnamed object).
	if !goRejects && gitRejects && (underrunFull || underrunDelta) {
		kind := "non-delta-entry"
		if !underrunFull {
			kind = "delta-entry"
		}
		res.Fail = evid.Failf(underrunSig+kind, "%s: an entry declares more bytes than its zlib stream holds; git index-pack --stdin rejects (%s) but go-git accepts (%d objects delivered)", ctx, class, len(gr.objs))
		return res
	}

	// A second cause recognised from the damaged bytes: a delta whose instruction
	// stream stops inside the literal of an insert instruction. git: "delta replay
	// has gone wild"; go-git's patchDeltaWriter copies what is left and carries on.
	if !goRejects && gitRejects && truncIns {
		res.Fail = evid.Failf(truncInsSig, "%s: a delta's last insert instruction has fewer literal bytes than it announces; git index-pack --stdin rejects (%s) but go-git accepts (%d objects delivered)", ctx, class, len(gr.objs))
		return res
	}

	// ---- soundness
	if !goRejects {
		if gr.enumErr != "" {
			res.Fail = evid.Failf("C09/accepted-pack-unreadable:"+c.Mode+":"+muts, "%s: go-git accepted the pack but reading its objects back fails: %s", ctx, gr.enumErr)
			return res
		}
		names := map[string]bool{}
		for _, y := range gr.objs {
			names[y.name] = true
			bad := ""
			switch {
			case y.typ != "commit" && y.typ != "tree" && y.typ != "blob" && y.typ != "tag":
				bad = "type " + y.typ
			case y.size != int64(len(y.data)):
				bad = fmt.Sprintf("size field %d but %d content bytes", y.size, len(y.data))
			default:
				if want := hex.EncodeToString(oidRaw(c.Format, y.typ, y.data)); want != y.name {
					bad = "content hashes to " + want
				}
			}
			if bad != "" {
				res.Fail = evid.Failf("C09/accepted-object-misnamed:"+c.Mode+":"+muts, "%s: go-git accepted the pack and delivered object %s (%s, %d bytes): %s", ctx, y.name, y.typ, len(y.data), bad)
				return res
			}
		}
		if gr.haveIdx && c.Mode != "nostorage" {
			for _, id := range gr.idxIDs {
				if !names[id] {
					res.Fail = evid.Failf("C09/indexed-id-without-object:"+c.Mode+":"+muts, "%s: the index go-git built names %s but no such object was delivered", ctx, id)
					return res
				}
			}
		}
	}

	// ---- completeness
	if gitRejects && strings.Contains(gerr, "already resolved (duplicate base") {
		// Not a structural reason: every entry of such a pack is well formed and
		// resolvable; git refuses packs in which a REF_DELTA's base id occurs twice
		// because its resolver would visit the delta twice. No verdict.
		lab("git-rejects-duplicate-base(no-verdict)")
		return res
	}
	if gitRejects && strings.Contains(gerr, "Out of memory") {
		// a damaged size field made git try an absurd allocation: a resource
		// failure, not a structural verdict (the underrun rule above still applies)
		lab("git-out-of-memory(no-verdict)")
		return res
	}
	if gitRejects && !goRejects {
		res.Fail = evid.Failf("C09/git-rejects-go-accepts:"+c.Mode+":"+muts+":"+class, "%s: git index-pack --stdin rejects (%s) but go-git accepts (%d objects delivered)", ctx, class, len(gr.objs))
		return res
	}
	return res
}

// truncInsSig names the truncated-insert defect.
const truncInsSig = "C09/accepts-delta-whose-insert-instruction-is-cut-short"

// underrunSig + entry kind names the expected defect class.
const underrunSig = "C09/accepts-entry-whose-declared-size-exceeds-its-inflated-stream:"

func watchdog() time.Duration {
	if s := os.Getenv("C09_WATCHDOG_S"); s != "" {
		if n, err := time.ParseDuration(s + "s"); err == nil {
			return n
		}
	}
	return 180 * time.Second
}

func TestC09(t *testing.T) {
	evid.Run(t, evid.Spec[Case]{ID: "C09", Gen: gen, Check: check})
}
