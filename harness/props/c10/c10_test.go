// Package c10 decides C10: for any set of (object id, pack offset, CRC32)
// entries the idx go-git writes decodes back, and membership, offset, CRC,
// offset->id, prefix enumeration and ordered iteration answer identically in
// MemoryIndex (as built by the Writer and as decoded from the encoded bytes),
// LazyIndex (ReadAt over the encoded idx and rev bytes) and the mmap
// PackScanner (temp files), and agree with a plain map model; `git show-index`
// reads the same triples from go-git's bytes. Corrupted idx / rev files must be
// rejected by the checksummed decoders and must never make the unchecksummed
// readers give an answer that differs from the model (an error is fine) or
// crash.
package c10

import (
	"bytes"
	"crypto/sha1"
	"crypto/sha256"
	"encoding/binary"
	"encoding/hex"
	"errors"
	"fmt"
	"hash"
	"io"
	"io/fs"
	"os"
	"path/filepath"
	"runtime/debug"
	"sort"
	"strconv"
	"strings"
	"testing"
	"time"

	"github.com/go-git/go-billy/v6/osfs"
	"github.com/go-git/go-git/v6/plumbing"
	"github.com/go-git/go-git/v6/plumbing/format/idxfile"
	"github.com/go-git/go-git/v6/plumbing/format/revfile"
	"github.com/go-git/go-git/v6/storage/filesystem/mmap"
	"pgregory.net/rapid"

	"verif/harness/lib/evid"
	"verif/harness/lib/gitx"
)

// ---------------------------------------------------------------------------
// case

// Ent describes one index entry compactly.
type Ent struct {
	B0   byte   // first id byte (fan-out bucket)
	Mid  []byte // id bytes 1.. (shared prefixes)
	Seed uint32 // the remaining id bytes come from a xorshift stream
	Last int    // >= 0: overrides the last id byte (ids differing only at the end)
	OffK int    // offset class: 0 small, 1 around 2^31, 2 around 2^32, 3 anywhere below 2^63
	OffV uint64
	CRC  uint32
}

// Corrupt describes one corruption of the encoded idx or rev bytes.
type Corrupt struct {
	Target string // "idx" | "rev"
	Kind   string // "truncate" | "flip"
	Pos    uint32 // byte position (modulo the length; for flips optionally confined by Region)
	Region int    // flips: 0 anywhere, 1 header+fan-out table (idx) / header (rev), 2 trailer hashes
	Bit    uint8
}

// Case is an entry set, extra probes and an optional corruption.
type Case struct {
	SHA256     bool
	Ents       []Ent
	AllBuckets bool  // additionally one entry in every fan-out bucket
	OneBucket  bool  // force every entry into the bucket of the first one
	Probes     []Ent // extra ids to look up (mostly non-members)
	Prefixes   [][]byte
	Git        bool     // also read the idx with `git show-index`
	Corrupt    *Corrupt `json:",omitempty"`
	// Bulk adds that many synthetic entries (ids from a seeded stream, every
	// Bulk64-th one with an offset at or above 2^31), so that tables grow past
	// internal chunk sizes (e.g. more than 8192 entries = 32 KiB of 32-bit offsets).
	Bulk   int `json:",omitempty"`
	Bulk64 int `json:",omitempty"`
}

func scramble(x uint16) uint16 { return uint16(uint32(x) * 40503) }

func pick(t *rapid.T, label string, weights ...int) int {
	total := 0
	for _, w := range weights {
		total += w
	}
	x := int(scramble(rapid.Uint16().Draw(t, label))) % total
	for i, w := range weights {
		if x < w {
			return i
		}
		x -= w
	}
	return 0
}

func genEnt(t *rapid.T, mids [][]byte) Ent {
	e := Ent{B0: byte(scramble(rapid.Uint16().Draw(t, "b0"))), Seed: rapid.Uint32().Draw(t, "seed"), Last: -1}
	switch pick(t, "b0k", 4, 2, 1, 1) {
	case 1:
		e.B0 = rapid.SampledFrom([]byte{0x00, 0x01, 0x7f, 0x80, 0xfe, 0xff}).Draw(t, "b0edge")
	case 2:
		e.B0 = 0xab
	case 3:
		e.B0 = 0x00
	}
	if pick(t, "mid", 2, 1) == 1 {
		e.Mid = rapid.SampledFrom(mids).Draw(t, "midv")
		if pick(t, "sameseed", 2, 1) == 1 {
			e.Seed = rapid.SampledFrom([]uint32{1, 2, 3}).Draw(t, "fewseeds")
		}
	}
	if pick(t, "last", 3, 1) == 1 {
		e.Last = int(rapid.SampledFrom([]byte{0, 1, 2, 0x7f, 0x80, 0xff}).Draw(t, "lastv"))
		e.Seed = rapid.SampledFrom([]uint32{1, 2, 3}).Draw(t, "fewseeds2")
	}
	e.OffK = pick(t, "offk", 5, 2, 2, 2)
	e.OffV = rapid.Uint64().Draw(t, "offv")
	e.CRC = rapid.Uint32().Draw(t, "crc")
	return e
}

func gen(t *rapid.T, _ *evid.Recorder) Case {
	c := Case{SHA256: pick(t, "fmt", 3, 1) == 1}
	mids := [][]byte{{0}, {0, 0}, {0, 0, 0}, {0xff}, {0xab, 0xcd}, {0xab, 0xcd, 0xef}, {0x12}}
	n := 0
	switch pick(t, "nk", 6, 3, 1, 1) {
	case 0:
		n = 1 + int(scramble(rapid.Uint16().Draw(t, "n")))%12
	case 1:
		n = 12 + int(scramble(rapid.Uint16().Draw(t, "n")))%60
	case 2:
		n = 0
	case 3:
		n = 1
	}
	for i := 0; i < n; i++ {
		c.Ents = append(c.Ents, genEnt(t, mids))
	}
	switch pick(t, "shape", 6, 1, 2) {
	case 1:
		c.AllBuckets = true
	case 2:
		c.OneBucket = true
	}
	np := pick(t, "np", 1, 2, 2, 1)
	for i := 0; i < np; i++ {
		c.Probes = append(c.Probes, genEnt(t, mids))
	}
	npf := pick(t, "npf", 1, 2, 2)
	for i := 0; i < npf; i++ {
		c.Prefixes = append(c.Prefixes, rapid.SliceOfN(rapid.SampledFrom([]byte{0, 1, 0x7f, 0x80, 0xab, 0xcd, 0xef, 0xff, 0x12}), 1, 4).Draw(t, "prefix"))
	}
	c.Git = pick(t, "git", 5, 1) == 1
	if pick(t, "bulk", 74, 1) == 1 {
		c.Bulk = rapid.SampledFrom([]int{4095, 4096, 4097, 8191, 8192, 8193, 9000, 16384, 16385, 20000, 33000}).Draw(t, "bulk-n")
		c.Bulk64 = rapid.SampledFrom([]int{1, 2, 7, 64, 1000, 8191, 8193}).Draw(t, "bulk-64")
		return c // no corruption on bulk cases: every member is still compared with the model
	}
	if pick(t, "corrupt", 2, 1) == 1 {
		k := &Corrupt{Target: "idx", Kind: "truncate", Pos: uint32(scramble(rapid.Uint16().Draw(t, "cpos"))) | uint32(rapid.Uint16().Draw(t, "cposhi"))<<16, Bit: uint8(rapid.IntRange(0, 7).Draw(t, "cbit"))}
		if pick(t, "ctarget", 3, 1) == 1 {
			k.Target = "rev"
		}
		if pick(t, "ckind", 1, 2) == 1 {
			k.Kind = "flip"
			k.Region = pick(t, "cregion", 2, 2, 1)
		}
		c.Corrupt = k
	}
	return c
}

// ---------------------------------------------------------------------------
// model

type entry struct {
	id  []byte
	off uint64
	crc uint32
}

func (e Ent) id(size int, forceB0 *byte) []byte {
	b := make([]byte, size)
	x := e.Seed | 1
	for i := range b {
		x ^= x << 13
		x ^= x >> 17
		x ^= x << 5
		b[i] = byte(x >> 8)
	}
	b[0] = e.B0
	if forceB0 != nil {
		b[0] = *forceB0
	}
	mid := e.Mid
	if len(mid) > 3 {
		mid = mid[:3]
	}
	copy(b[1:], mid)
	if e.Last >= 0 {
		b[size-1] = byte(e.Last)
	}
	return b
}

func (e Ent) offset() uint64 {
	switch ((e.OffK % 4) + 4) % 4 {
	case 0:
		return 12 + e.OffV%1_000_000
	case 1:
		return 1<<31 - 3 + e.OffV%6
	case 2:
		return 1<<32 - 3 + e.OffV%6
	default:
		return 12 + e.OffV%(1<<63-12)
	}
}

func isZero(b []byte) bool {
	for _, x := range b {
		if x != 0 {
			return false
		}
	}
	return true
}

// entries resolves the case to a duplicate-free entry list (first occurrence
// of an id or of an offset wins), sorted by id.
func (c Case) entries(size int) []entry {
	var force *byte
	if c.OneBucket && len(c.Ents) > 0 {
		b := c.Ents[0].B0
		force = &b
	}
	ids := map[string]bool{}
	offs := map[uint64]bool{}
	var out []entry
	add := func(e entry) {
		if isZero(e.id) || ids[string(e.id)] || offs[e.off] {
			return
		}
		ids[string(e.id)] = true
		offs[e.off] = true
		out = append(out, e)
	}
	for _, e := range c.Ents {
		add(entry{e.id(size, force), e.offset(), e.CRC})
	}
	if c.AllBuckets {
		for b := 0; b < 256; b++ {
			e := Ent{B0: byte(b), Seed: uint32(7919*b + 13), Last: -1}
			add(entry{e.id(size, nil), 12 + uint64(b)*131 + 1<<20, uint32(b) * 2654435761})
		}
	}
	for k := 0; k < c.Bulk; k++ {
		e := Ent{B0: byte(uint32(k) * 2654435761 >> 24), Seed: uint32(1000003*k + 17), Last: -1}
		off := uint64(1<<21) + uint64(k)*97
		if c.Bulk64 > 0 && k%c.Bulk64 == c.Bulk64-1 {
			off = uint64(1)<<31 + uint64(k)*4099
			if k%3 == 0 {
				off = uint64(1)<<33 + uint64(k)*8209
			}
		}
		add(entry{e.id(size, nil), off, uint32(k) * 2246822519})
	}
	// A pack's first object sits at offset 12, so at most n-1 offsets need the
	// 64-bit table (git's idx size check relies on it): pin the lowest offset.
	if len(out) > 0 && !offs[12] {
		lo := 0
		for i := range out {
			if out[i].off < out[lo].off {
				lo = i
			}
		}
		out[lo].off = 12
	}
	sort.Slice(out, func(i, j int) bool { return bytes.Compare(out[i].id, out[j].id) < 0 })
	return out
}

func toHash(b []byte) plumbing.Hash {
	h, ok := plumbing.FromBytes(b)
	if !ok {
		panic("INFRA: FromBytes on a " + strconv.Itoa(len(b)) + "-byte id")
	}
	return h
}

// ---------------------------------------------------------------------------
// plumbing around the implementations

type statReader struct {
	*bytes.Reader
	n int64
}
type fileInfo struct{ n int64 }

func (f fileInfo) Name() string                 { return "x.idx" }
func (f fileInfo) Size() int64                  { return f.n }
func (f fileInfo) Mode() fs.FileMode            { return 0o644 }
func (f fileInfo) ModTime() time.Time           { return time.Time{} }
func (f fileInfo) IsDir() bool                  { return false }
func (f fileInfo) Sys() any                     { return nil }
func (s statReader) Stat() (fs.FileInfo, error) { return fileInfo{s.n}, nil }

type memFile struct{ *bytes.Reader }

func (memFile) Close() error { return nil }

func newHasher(sha256fmt bool) hash.Hash {
	if sha256fmt {
		return sha256.New()
	}
	return sha1.New()
}

func decodeIdx(b []byte, size int, sha256fmt bool) (*idxfile.MemoryIndex, error) {
	m := idxfile.NewMemoryIndex(size)
	err := idxfile.NewDecoder(statReader{bytes.NewReader(b), int64(len(b))}, newHasher(sha256fmt)).Decode(m)
	return m, err
}

func openLazy(idx, rev []byte, packHash plumbing.Hash) (*idxfile.LazyIndex, error) {
	return idxfile.NewLazyIndex(
		func() (idxfile.ReadAtCloser, error) { return memFile{bytes.NewReader(idx)}, nil },
		func() (idxfile.ReadAtCloser, error) { return memFile{bytes.NewReader(rev)}, nil },
		packHash)
}

type failure = evid.Failure

// guard runs f, turning a panic into a failure with the given signature.
func guard(sig, what string, fails *[]*failure, f func()) {
	defer func() {
		if p := recover(); p != nil {
			if s, ok := p.(string); ok && strings.HasPrefix(s, "INFRA:") {
				panic(p)
			}
			st := string(debug.Stack())
			// name the innermost go-git frame in the signature
			site := "unknown"
			seen := false
			for _, l := range strings.Split(st, "\n") {
				if strings.HasPrefix(l, "panic(") {
					seen = true
					continue
				}
				if seen && strings.HasPrefix(l, "github.com/go-git/go-git/v6/") {
					l = strings.TrimPrefix(l, "github.com/go-git/go-git/v6/")
					if i := strings.LastIndex(l, "("); i > 0 {
						l = l[:i]
					}
					if i := strings.LastIndex(l, "/"); i >= 0 {
						l = l[i+1:]
					}
					site = l
					break
				}
			}
			if !strings.Contains(sig, "/corrupt-") {
				sig = strings.Replace(sig, ":panic", ":panic@"+site, 1)
			}
			*fails = append(*fails, evid.Failf(sig, "%s panics: %v\n%s", what, p, st))
		}
	}()
	f()
}

// ---------------------------------------------------------------------------
// comparing one Index implementation with the model

type cmpCtx struct {
	impl    string
	suffix  string // appended to every signature (corruption class)
	lenient bool   // corrupted input: an error instead of an answer is acceptable
	note    string // appended to messages (what was corrupted)
	fails   *[]*failure
}

func (x cmpCtx) fail(op, kind, format string, a ...any) {
	sig := "C10/" + x.impl + ":" + op + ":" + kind + x.suffix
	if x.lenient {
		// corrupted input: one signature per reader and corrupted file; which
		// query exposes the missing validation is incidental
		sig = "C10/" + x.impl + ":wrong-answer" + x.suffix
	}
	*x.fails = append(*x.fails, evid.Failf(sig, x.impl+"."+op+": "+format+x.note, a...))
}

func drain(it idxfile.EntryIter) ([]entry, error) {
	defer it.Close()
	var out []entry
	for i := 0; i < 1<<20; i++ {
		e, err := it.Next()
		if err == io.EOF {
			return out, nil
		}
		if err != nil {
			return out, err
		}
		if e == nil {
			return out, errors.New("nil entry without error")
		}
		out = append(out, entry{append([]byte{}, e.Hash.Bytes()...), e.Offset, e.CRC32})
	}
	return out, errors.New("iterator does not terminate")
}

func sameEntries(a, b []entry) bool {
	if len(a) != len(b) {
		return false
	}
	for i := range a {
		if !bytes.Equal(a[i].id, b[i].id) || a[i].off != b[i].off || a[i].crc != b[i].crc {
			return false
		}
	}
	return true
}

func isPrefixOf(got, want []entry) bool {
	return len(got) <= len(want) && sameEntries(got, want[:len(got)])
}

func fmtEntries(es []entry) string {
	var sb strings.Builder
	for i, e := range es {
		if i == 6 {
			fmt.Fprintf(&sb, " …(%d entries)", len(es))
			break
		}
		fmt.Fprintf(&sb, " %x@%d/%08x", e.id, e.off, e.crc)
	}
	return sb.String()
}

func (x cmpCtx) seq(op string, it idxfile.EntryIter, err error, want []entry) {
	if err != nil {
		if !x.lenient {
			x.fail(op, "error-on-valid-index", "returns %v", err)
		}
		return
	}
	got, err := drain(it)
	switch {
	case err != nil && x.lenient && isPrefixOf(got, want):
	case err != nil:
		x.fail(op, "iteration-error", "iteration stops with %v after%s; model:%s", err, fmtEntries(got), fmtEntries(want))
	case !sameEntries(got, want):
		kind := "wrong-entries"
		if len(got) < len(want) && isPrefixOf(got, want) {
			kind = "entries-dropped"
		}
		x.fail(op, kind, "yields%s; model:%s", fmtEntries(got), fmtEntries(want))
	}
}

func off64(e entry) string {
	if e.off >= 1<<31 {
		return "+offset>=2^31"
	}
	return ""
}

// compareIndex asks idx everything the model can answer. order picks whether
// FindHash queries precede the FindOffset ones (MemoryIndex caches offsets).
func compareIndex(x cmpCtx, idx idxfile.Index, model []entry, probes [][]byte, prefixes [][]byte, hashFirst bool) {
	byID := map[string]entry{}
	byOff := map[uint64]entry{}
	for _, e := range model {
		byID[string(e.id)] = e
		byOff[e.off] = e
	}
	if n, err := idx.Count(); err != nil || n != int64(len(model)) {
		if !(x.lenient && err != nil) {
			x.fail("Count", "wrong-value", "= %d, %v; model has %d entries", n, err, len(model))
		}
	}
	findHash := func() {
		for _, e := range model {
			h, err := idx.FindHash(int64(e.off))
			switch {
			case err != nil && x.lenient:
			case err != nil:
				x.fail("FindHash", "false-negative"+off64(e), "(%d) = %v; model: %x", e.off, err, e.id)
			case !bytes.Equal(h.Bytes(), e.id):
				x.fail("FindHash", "wrong-value"+off64(e), "(%d) = %s; model: %x", e.off, h, e.id)
			}
			for _, o := range []uint64{e.off - 1, e.off + 1} {
				if _, member := byOff[o]; member || o >= 1<<63 {
					continue
				}
				if h, err := idx.FindHash(int64(o)); err == nil {
					x.fail("FindHash", "false-positive", "(%d) = %s; no entry has that offset", o, h)
				}
			}
		}
	}
	findByID := func() {
		for _, e := range model {
			h := toHash(e.id)
			if !idx.MayContain(h) {
				x.fail("MayContain", "false-negative", "(%x) = false for a member", e.id)
			}
			ok, err := idx.Contains(h)
			if !(ok && err == nil) && !(x.lenient && err != nil) {
				x.fail("Contains", "false-negative", "(%x) = %v, %v for a member", e.id, ok, err)
			}
			off, err := idx.FindOffset(h)
			switch {
			case err != nil && x.lenient:
			case err != nil:
				x.fail("FindOffset", "false-negative"+off64(e), "(%x) = %v; model: %d", e.id, err, e.off)
			case uint64(off) != e.off:
				x.fail("FindOffset", "wrong-value"+off64(e), "(%x) = %d; model: %d", e.id, off, e.off)
			}
			crc, err := idx.FindCRC32(h)
			switch {
			case err != nil && x.lenient:
			case err != nil:
				x.fail("FindCRC32", "false-negative", "(%x) = %v; model: %08x", e.id, err, e.crc)
			case crc != e.crc:
				x.fail("FindCRC32", "wrong-value", "(%x) = %08x; model: %08x", e.id, crc, e.crc)
			}
		}
		for _, p := range probes {
			if _, member := byID[string(p)]; member || isZero(p) {
				continue
			}
			h := toHash(p)
			if ok, err := idx.Contains(h); ok {
				x.fail("Contains", "false-positive", "(%x) = true, %v for a non-member", p, err)
			}
			if off, err := idx.FindOffset(h); err == nil {
				x.fail("FindOffset", "false-positive", "(%x) = %d for a non-member", p, off)
			}
			if crc, err := idx.FindCRC32(h); err == nil {
				x.fail("FindCRC32", "false-positive", "(%x) = %08x for a non-member", p, crc)
			}
		}
	}
	if hashFirst {
		findHash()
		findByID()
	} else {
		findByID()
		findHash()
	}
	it, err := idx.Entries()
	x.seq("Entries", it, err, model)
	byOffset := append([]entry{}, model...)
	sort.Slice(byOffset, func(i, j int) bool { return byOffset[i].off < byOffset[j].off })
	it, err = idx.EntriesByOffset()
	x.seq("EntriesByOffset", it, err, byOffset)
	for _, p := range prefixes {
		var want []entry
		for _, e := range model {
			if bytes.HasPrefix(e.id, p) {
				want = append(want, e)
			}
		}
		it, err := idx.EntriesWithPrefix(p)
		x.seq(fmt.Sprintf("EntriesWithPrefix[len=%d]", min(len(p), 5)), it, err, want)
	}
}

// derived probes and prefixes: neighbours of every member
func derive(model []entry, size int, c Case) (probes [][]byte, prefixes [][]byte) {
	seenP := map[string]bool{}
	addPrefix := func(p []byte) {
		if !seenP[string(p)] {
			seenP[string(p)] = true
			prefixes = append(prefixes, append([]byte{}, p...))
		}
	}
	addPrefix(nil)
	for i, e := range model {
		for _, mut := range [][2]int{{size - 1, 1}, {size - 1, 0x80}, {0, 1}, {0, 0x80}, {1, 1}, {size / 2, 0x10}} {
			p := append([]byte{}, e.id...)
			p[mut[0]] ^= byte(mut[1])
			probes = append(probes, p)
		}
		if i < 24 || i%16 == 0 {
			for l := 1; l <= 4; l++ {
				addPrefix(e.id[:l])
				p := append([]byte{}, e.id[:l]...)
				p[l-1] ^= 1
				addPrefix(p)
			}
			if i < 4 {
				addPrefix(e.id)
				addPrefix(append(append([]byte{}, e.id...), 0))
			}
		}
	}
	var force *byte
	if c.OneBucket && len(c.Ents) > 0 {
		b := c.Ents[0].B0
		force = &b
	}
	for _, p := range c.Probes {
		probes = append(probes, p.id(size, nil))
		if force != nil {
			probes = append(probes, p.id(size, force))
		}
	}
	for _, p := range c.Prefixes {
		if len(p) > 0 && len(p) <= size+1 {
			addPrefix(p)
		}
	}
	return
}

// ---------------------------------------------------------------------------
// mmap scanner

func fakePack(n int, packHash []byte) []byte {
	var b bytes.Buffer
	b.WriteString("PACK")
	binary.Write(&b, binary.BigEndian, uint32(2))
	binary.Write(&b, binary.BigEndian, uint32(n))
	b.Write(packHash)
	for b.Len() < 32 {
		b.WriteByte(0)
	}
	return b.Bytes()
}

func openMmap(dir string, size int, pack, idx, rev []byte) (*mmap.PackScanner, error) {
	fsys := osfs.New(dir)
	var files [3]interface {
		io.Closer
	}
	names := []string{"p.pack", "p.idx", "p.rev"}
	for i, b := range [][]byte{pack, idx, rev} {
		if err := os.WriteFile(filepath.Join(dir, names[i]), b, 0o644); err != nil {
			panic("INFRA: scratch: " + err.Error())
		}
	}
	pf, err := fsys.Open("p.pack")
	if err != nil {
		panic("INFRA: scratch: " + err.Error())
	}
	xf, err := fsys.Open("p.idx")
	if err != nil {
		panic("INFRA: scratch: " + err.Error())
	}
	rf, err := fsys.Open("p.rev")
	if err != nil {
		panic("INFRA: scratch: " + err.Error())
	}
	_ = files
	s, err := mmap.NewPackScanner(size, pf, xf, rf)
	if err != nil {
		pf.Close()
		xf.Close()
		rf.Close()
	}
	return s, err
}

func compareMmap(x cmpCtx, s *mmap.PackScanner, model []entry, probes [][]byte) {
	byID := map[string]entry{}
	byOff := map[uint64]entry{}
	for _, e := range model {
		byID[string(e.id)] = e
		byOff[e.off] = e
	}
	for _, e := range model {
		off, err := s.FindOffset(toHash(e.id))
		switch {
		case err != nil && x.lenient:
		case err != nil:
			x.fail("FindOffset", "false-negative"+off64(e), "(%x) = %v; model: %d", e.id, err, e.off)
		case off != e.off:
			x.fail("FindOffset", "wrong-value"+off64(e), "(%x) = %d; model: %d", e.id, off, e.off)
		}
		h, err := s.FindHash(e.off)
		switch {
		case err != nil && x.lenient:
		case err != nil:
			x.fail("FindHash", "false-negative"+off64(e), "(%d) = %v; model: %x", e.off, err, e.id)
		case !bytes.Equal(h.Bytes(), e.id):
			x.fail("FindHash", "wrong-value"+off64(e), "(%d) = %s; model: %x", e.off, h, e.id)
		}
		for _, o := range []uint64{e.off - 1, e.off + 1} {
			if _, member := byOff[o]; member {
				continue
			}
			if h, err := s.FindHash(o); err == nil {
				x.fail("FindHash", "false-positive", "(%d) = %s; no entry has that offset", o, h)
			}
		}
	}
	for _, p := range probes {
		if _, member := byID[string(p)]; member || isZero(p) {
			continue
		}
		if off, err := s.FindOffset(toHash(p)); err == nil {
			x.fail("FindOffset", "false-positive", "(%x) = %d for a non-member", p, off)
		}
	}
}

// ---------------------------------------------------------------------------
// reference structure check of an idx v2 file (git: check_packed_git_idx)

func idxStructurallyValid(b []byte, size int) bool {
	if len(b) < 8+1024+2*size {
		return false
	}
	if !bytes.Equal(b[:4], []byte{0xff, 't', 'O', 'c'}) || binary.BigEndian.Uint32(b[4:]) != 2 {
		return false
	}
	var prev uint32
	for i := 0; i < 256; i++ {
		n := binary.BigEndian.Uint32(b[8+4*i:])
		if n < prev {
			return false
		}
		prev = n
	}
	nr := uint64(prev)
	minSz := 8 + 1024 + nr*uint64(size+4+4) + 2*uint64(size)
	maxSz := minSz
	if nr > 0 {
		maxSz += (nr - 1) * 8
	}
	return uint64(len(b)) >= minSz && uint64(len(b)) <= maxSz
}

// ---------------------------------------------------------------------------
// check

func knownSigs() map[string]bool {
	m := map[string]bool{}
	for _, s := range strings.Split(os.Getenv("VERIF_KNOWN"), "\x1f") {
		if s != "" {
			m[s] = true
		}
	}
	return m
}

func scratch() string {
	base := os.Getenv("VERIF_SCRATCH")
	if base == "" {
		base = "/dev/shm"
	}
	d, err := os.MkdirTemp(base, "c10-")
	if err != nil {
		panic("INFRA: scratch: " + err.Error())
	}
	return d
}

func check(c Case) evid.Result {
	res := evid.Result{}
	size := 20
	if c.SHA256 {
		size = 32
	}
	if len(c.Ents) > 400 || len(c.Probes) > 64 || len(c.Prefixes) > 64 {
		res.Discard = true
		return res
	}
	model := c.entries(size)
	probes, prefixes := derive(model, size, c)
	var fails []*failure

	// labels / non-triviality
	bucket := map[byte]int{}
	has64, has33 := false, false
	for _, e := range model {
		bucket[e.id[0]]++
		has64 = has64 || e.off >= 1<<31
		has33 = has33 || e.off >= 1<<32
	}
	multi := false
	for _, n := range bucket {
		multi = multi || n >= 2
	}
	res.NonTrivial = multi || has64
	res.Labels = append(res.Labels, map[bool]string{false: "sha1", true: "sha256"}[c.SHA256])
	if c.Bulk > 0 {
		res.Labels = append(res.Labels, "bulk>4000-entries")
		if len(model) > 8192 {
			res.Labels = append(res.Labels, "bulk>8192-entries")
		}
	}
	if len(model) == 0 {
		res.Labels = append(res.Labels, "empty")
	}
	if multi {
		res.Labels = append(res.Labels, "bucket-with>=2")
	}
	if len(bucket) == 1 && len(model) > 1 {
		res.Labels = append(res.Labels, "all-in-one-bucket")
	}
	if len(bucket) == 256 {
		res.Labels = append(res.Labels, "every-bucket")
	}
	if has64 {
		res.Labels = append(res.Labels, "offset>=2^31")
	}
	if has33 {
		res.Labels = append(res.Labels, "offset>=2^32")
	}
	shared := false
	for i := 1; i < len(model); i++ {
		if bytes.Equal(model[i].id[:3], model[i-1].id[:3]) {
			shared = true
		}
	}
	if shared {
		res.Labels = append(res.Labels, "shared-3-byte-prefix")
	}
	emptySuffix := ""
	if len(model) == 0 {
		emptySuffix = "/empty-index"
	}

	// build with go-git's writer
	packHash := make([]byte, size)
	for i := range packHash {
		packHash[i] = byte(0xa0 + i)
	}
	w := new(idxfile.Writer)
	// insertion order: as generated (not sorted), to exercise the writer's sort
	order := append([]entry{}, model...)
	sort.SliceStable(order, func(i, j int) bool { return order[i].crc < order[j].crc })
	for _, e := range order {
		w.Add(toHash(e.id), e.off, e.crc)
	}
	if err := w.OnFooter(toHash(packHash)); err != nil {
		res.Fail = evid.Failf("C10/Writer:OnFooter:error"+emptySuffix, "Writer.OnFooter: %v", err)
		return res
	}
	mem1, err := w.Index()
	if err != nil {
		res.Fail = evid.Failf("C10/Writer:Index:error"+emptySuffix, "Writer.Index: %v", err)
		return res
	}
	var idxBuf, revBuf bytes.Buffer
	if err := idxfile.Encode(&idxBuf, newHasher(c.SHA256), mem1); err != nil {
		res.Fail = evid.Failf("C10/Encode:error"+emptySuffix, "idxfile.Encode: %v", err)
		return res
	}
	if err := revfile.Encode(&revBuf, newHasher(c.SHA256), mem1); err != nil {
		res.Fail = evid.Failf("C10/revfile.Encode:error"+emptySuffix, "revfile.Encode: %v", err)
		return res
	}
	idxBytes, revBytes := idxBuf.Bytes(), revBuf.Bytes()

	if c.Corrupt == nil {
		res.Labels = append(res.Labels, "intact")
		ctx := func(impl string) cmpCtx { return cmpCtx{impl: impl, suffix: emptySuffix, fails: &fails} }
		guard("C10/MemoryIndex(writer):panic"+emptySuffix, "MemoryIndex built by Writer", &fails, func() {
			compareIndex(ctx("MemoryIndex(writer)"), mem1, model, probes, prefixes, false)
		})
		mem2, err := decodeIdx(idxBytes, size, c.SHA256)
		if err != nil {
			fails = append(fails, evid.Failf("C10/Decoder:rejects-own-encoding"+emptySuffix, "Decode(Encode(index of %d entries)) = %v", len(model), err))
		} else {
			guard("C10/MemoryIndex(decoded):panic"+emptySuffix, "decoded MemoryIndex", &fails, func() {
				compareIndex(ctx("MemoryIndex(decoded)"), mem2, model, probes, prefixes, true)
			})
			if mem2.PackfileChecksum.Compare(packHash) != 0 {
				fails = append(fails, evid.Failf("C10/Decoder:pack-checksum", "decoded pack checksum %s, written %x", mem2.PackfileChecksum, packHash))
			}
		}
		if len(model) > 0 { // revfile.Decode documents ErrEmptyReverseIndex for 0 objects
			ch := make(chan uint32, len(model)+1)
			if err := revfile.Decode(bytes.NewReader(revBytes), int64(len(model)), toHash(packHash), ch); err != nil {
				fails = append(fails, evid.Failf("C10/revfile.Decode:rejects-own-encoding", "revfile.Decode(revfile.Encode(index of %d entries)) = %v", len(model), err))
			} else {
				var pos []uint32
				for p := range ch {
					pos = append(pos, p)
				}
				okRev := len(pos) == len(model)
				for i := 1; okRev && i < len(pos); i++ {
					okRev = int(pos[i]) < len(model) && int(pos[i-1]) < len(model) && model[pos[i-1]].off < model[pos[i]].off
				}
				if !okRev {
					fails = append(fails, evid.Failf("C10/revfile:not-offset-order", "rev positions %v do not list the %d entries by ascending offset", pos, len(model)))
				}
			}
		}
		lazy, err := openLazy(idxBytes, revBytes, toHash(packHash))
		if err != nil {
			fails = append(fails, evid.Failf("C10/LazyIndex:open-error"+emptySuffix, "NewLazyIndex on go-git's own idx/rev (%d entries): %v", len(model), err))
		} else {
			guard("C10/LazyIndex:panic"+emptySuffix, "LazyIndex", &fails, func() {
				compareIndex(ctx("LazyIndex"), lazy, model, probes, prefixes, false)
			})
			lazy.Close()
		}
		dir := scratch()
		guard("C10/mmap.PackScanner:panic"+emptySuffix, "mmap.PackScanner", &fails, func() {
			s, err := openMmap(dir, size, fakePack(len(model), packHash), idxBytes, revBytes)
			if err != nil {
				fails = append(fails, evid.Failf("C10/mmap.PackScanner:open-error"+emptySuffix, "NewPackScanner on go-git's own idx/rev (%d entries): %v", len(model), err))
				return
			}
			defer s.Close()
			compareMmap(ctx("mmap.PackScanner"), s, model, probes)
		})
		os.RemoveAll(dir)
		if c.Git {
			res.Labels = append(res.Labels, "git-show-index")
			args := []string{"show-index"}
			if c.SHA256 {
				args = append(args, "--object-format=sha256")
			}
			out, stderr, code := gitx.TryIn("", idxBytes, args...)
			if code != 0 {
				fails = append(fails, evid.Failf("C10/git-show-index:rejects"+emptySuffix, "git show-index rejects go-git's idx of %d entries: %s", len(model), stderr))
			} else {
				var got []entry
				for _, l := range strings.Split(strings.TrimSpace(out), "\n") {
					if l == "" {
						continue
					}
					f := strings.Fields(l)
					if len(f) != 3 {
						panic("INFRA: unexpected show-index line: " + l)
					}
					off, e1 := strconv.ParseUint(f[0], 10, 64)
					id, e2 := hex.DecodeString(f[1])
					crc, e3 := strconv.ParseUint(strings.Trim(f[2], "()"), 16, 32)
					if e1 != nil || e2 != nil || e3 != nil {
						panic("INFRA: unexpected show-index line: " + l)
					}
					got = append(got, entry{id, off, uint32(crc)})
				}
				if !sameEntries(got, model) {
					fails = append(fails, evid.Failf("C10/git-show-index:differs", "git show-index reads%s; model:%s", fmtEntries(got), fmtEntries(model)))
				}
			}
		}
	} else {
		k := *c.Corrupt
		orig := idxBytes
		if k.Target == "rev" {
			orig = revBytes
		} else {
			k.Target = "idx"
		}
		bad := append([]byte{}, orig...)
		class := ""
		judge := true // whether answers of the unchecksummed readers are judged against the model
		switch k.Kind {
		case "truncate":
			bad = bad[:int(k.Pos)%len(bad)]
			class = "truncated"
		default:
			k.Kind = "flip"
			lo, hi := 0, len(bad)
			switch k.Region {
			case 1:
				hi = 8 + 1024
				if k.Target == "rev" {
					hi = 12
				}
				class = "header-flip"
				if k.Target == "idx" {
					class = "header-or-fanout-flip"
				}
			case 2:
				lo = len(bad) - 2*size
				class = "trailer-flip"
			default:
				class = "flip"
			}
			pos := lo + int(k.Pos)%(hi-lo)
			bad[pos] ^= 1 << (k.Bit % 8)
			if k.Target == "idx" {
				// judged only when git's structural checks would refuse the file
				judge = !idxStructurallyValid(bad, size)
			} else {
				judge = pos < 12 // rev header (magic, version, hash id); table flips are not detectable
			}
			if k.Target == "idx" && pos >= 8+1024 && pos < len(bad)-2*size {
				class = "table-flip"
			}
			if k.Target == "rev" && pos >= 12 && pos < len(bad)-2*size {
				class = "table-flip"
			}
		}
		res.Labels = append(res.Labels, "corrupt-"+k.Target+"-"+class)
		if judge {
			res.Labels = append(res.Labels, "corruption-judged")
		}
		res.NonTrivial = true
		suffix := "/corrupt-" + k.Target // the corruption class is a label, not part of the signature
		detail := fmt.Sprintf(" [%s of %s at %d, class %s, %d entries]", k.Kind, k.Target, int(k.Pos)%len(orig), class, len(model))
		// 1. checksummed decoders must refuse
		if k.Target == "idx" {
			guard("C10/Decoder:panic"+suffix, "idxfile.Decoder"+detail, &fails, func() {
				if _, err := decodeIdx(bad, size, c.SHA256); err == nil {
					fails = append(fails, evid.Failf("C10/Decoder:accepts"+suffix, "Decode accepts an idx (%d entries, %d bytes)%s", len(model), len(orig), detail))
				}
			})
		} else if len(model) > 0 {
			guard("C10/revfile.Decode:panic"+suffix, "revfile.Decode"+detail, &fails, func() {
				ch := make(chan uint32, len(model)+1)
				if err := revfile.Decode(bytes.NewReader(bad), int64(len(model)), toHash(packHash), ch); err == nil {
					fails = append(fails, evid.Failf("C10/revfile.Decode:accepts"+suffix, "revfile.Decode accepts a rev file (%d entries, %d bytes)%s", len(model), len(orig), detail))
				}
			})
		}
		// 2. unchecksummed readers: reject, or answer like the model, never crash
		ib, rb := idxBytes, revBytes
		if k.Target == "idx" {
			ib = bad
		} else {
			rb = bad
		}
		if !judge {
			// answers cannot be judged (a flipped table byte is a different,
			// structurally valid index): only crashes count
			probes, prefixes = probes[:min(len(probes), 8)], prefixes[:min(len(prefixes), 8)]
		}
		var sink []*failure
		target := &fails
		guard("C10/LazyIndex:panic"+suffix, "LazyIndex"+detail, &fails, func() {
			lazy, err := openLazy(ib, rb, toHash(packHash))
			if err != nil {
				return
			}
			defer lazy.Close()
			if !judge {
				target = &sink
			}
			compareIndex(cmpCtx{impl: "LazyIndex", suffix: suffix, lenient: true, note: detail, fails: target}, lazy, model, probes, prefixes, false)
		})
		dir := scratch()
		guard("C10/mmap.PackScanner:panic"+suffix, "mmap.PackScanner"+detail, &fails, func() {
			s, err := openMmap(dir, size, fakePack(len(model), packHash), ib, rb)
			if err != nil {
				return
			}
			defer s.Close()
			t2 := &fails
			if !judge {
				t2 = &sink
			}
			compareMmap(cmpCtx{impl: "mmap.PackScanner", suffix: suffix, lenient: true, note: detail, fails: t2}, s, model, probes)
		})
		os.RemoveAll(dir)
	}

	if len(fails) > 0 {
		known := knownSigs()
		res.Fail = fails[0]
		for _, f := range fails {
			if !known[f.Sig] {
				res.Fail = f
				break
			}
		}
		if len(fails) > 1 {
			seen := map[string]bool{}
			var sigs []string
			for _, f := range fails {
				if !seen[f.Sig] {
					seen[f.Sig] = true
					sigs = append(sigs, f.Sig)
				}
			}
			res.Fail = &failure{Sig: res.Fail.Sig, Msg: res.Fail.Msg + "\n(all divergences of this case: " + strings.Join(sigs, ", ") + ")"}
		}
	}
	return res
}

func TestC10(t *testing.T) {
	evid.Run(t, evid.Spec[Case]{ID: "C10", Gen: gen, Check: check})
}
