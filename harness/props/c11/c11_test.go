// Package c11 decides C11: every stored object reads back identically on every
// read path. A repository is laid out by the harness (canonical objects as
// loose files, packs made by `git pack-objects` over chosen subsets, an
// alternate object directory), opened by go-git's filesystem storage with a
// generated option combination, and a generated sequence of reads (by id, by
// type, size, existence, delta form, full and partial iteration, prefix
// search, by pack offset) is compared step by step with the table printed by
// `git cat-file --batch-all-objects --batch`.
package c11

import (
	"bytes"
	"compress/zlib"
	"crypto/sha1"
	"crypto/sha256"
	"encoding/binary"
	"encoding/hex"
	"errors"
	"fmt"
	"hash"
	"io"
	"os"
	"path/filepath"
	"sort"
	"strconv"
	"strings"
	"testing"

	"github.com/go-git/go-billy/v6"
	"github.com/go-git/go-billy/v6/osfs"
	"github.com/go-git/go-git/v6/plumbing"
	"github.com/go-git/go-git/v6/plumbing/cache"
	"github.com/go-git/go-git/v6/plumbing/format/idxfile"
	"github.com/go-git/go-git/v6/plumbing/format/packfile"
	"github.com/go-git/go-git/v6/storage/filesystem"
	"github.com/go-git/go-git/v6/x/fdpool"
	"pgregory.net/rapid"

	"verif/harness/lib/evid"
	"verif/harness/lib/gitx"
)

// ---------------------------------------------------------------- case

// Edit replaces Del bytes at Pos (reduced modulo the current length) by Ins.
type Edit struct {
	Pos, Del int
	Ins      string
}

// Family is a chain of blob versions.
type Family struct {
	Kind  int // 0 text, 1 hard to compress, 2 tiny
	Lines int
	Salt  int
	Steps []Edit
}

// Opts are the storage options under test.
type Opts struct {
	Cache     int   // 0 default LRU, 1 tiny (64 B), 2 large (256 MiB), 3 nil (storage default)
	InMemIdx  bool  // UseInMemoryIdx
	Threshold int64 // LargeObjectThreshold
	Exclusive bool
	Pool      int  // -1 default, else fdpool.New(Pool)
	ReadRev   int  // 0 config unset, 1 pack.readReverseIndex=true, 2 =false
	RevFiles  bool // git writes .rev files
	Mmap      bool
	HighMem   bool
}

// Op is one read. A/B/C are reduced modulo at run time.
type Op struct {
	Kind string
	A    int
	B    int
	C    int
}

// Case holds every choice.
type Case struct {
	Format   string
	Families []Family
	NTrees   int
	NCommits int
	NTags    int
	Place    []int // location mask of object i = Place[i mod len]: 1 loose, 2 pack0, 4 pack1, 8 pack2, 16 alt loose, 32 alt pack
	Window   int
	Depth    int
	Opts     Opts
	Ops      []Op
}

var opKinds = []string{"get", "get", "get", "get-typed", "get-wrongtype", "get-partial", "size", "has", "delta", "iter", "iter-partial", "prefix",
	"pack-offset", "pack-size", "pack-findhash", "pack-get", "absent", "close-idle"}

var insAlpha = []string{"x", "edit", "\n", "0123456789", "line of text that repeats\n", "zz", "A longer inserted fragment, unlike anything else in the file.\n"}

func gen(t *rapid.T, rec *evid.Recorder) Case {
	c := Case{}
	c.Format = rapid.SampledFrom([]string{"sha1", "sha1", "sha256"}).Draw(t, "format")
	nf := rapid.SampledFrom([]int{2, 3, 1, 4}).Draw(t, "nfam")
	for i := 0; i < nf; i++ {
		f := Family{Kind: rapid.SampledFrom([]int{0, 0, 0, 1, 2}).Draw(t, "kind"), Lines: rapid.SampledFrom([]int{40, 80, 20, 150, 3, 0}).Draw(t, "lines"), Salt: rapid.IntRange(0, 5).Draw(t, "salt")}
		ns := rapid.SampledFrom([]int{6, 3, 10, 1, 20, 0}).Draw(t, "chain")
		for s := 0; s < ns; s++ {
			var sb strings.Builder
			k := rapid.IntRange(0, 2).Draw(t, "ninstok")
			for j := 0; j < k; j++ {
				sb.WriteString(rapid.SampledFrom(insAlpha).Draw(t, "ins"))
			}
			f.Steps = append(f.Steps, Edit{Pos: rapid.IntRange(0, 1<<13).Draw(t, "pos"), Del: rapid.SampledFrom([]int{0, 1, 5, 40}).Draw(t, "del"), Ins: sb.String()})
		}
		c.Families = append(c.Families, f)
	}
	c.NTrees = rapid.SampledFrom([]int{3, 1, 6, 0}).Draw(t, "ntrees")
	c.NCommits = rapid.SampledFrom([]int{3, 1, 6, 0}).Draw(t, "ncommits")
	c.NTags = rapid.SampledFrom([]int{1, 0, 2}).Draw(t, "ntags")
	c.Place = rapid.SliceOfN(rapid.SampledFrom([]int{2, 4, 2, 4, 8, 1, 3, 6, 16, 32, 5, 34, 48, 12, 17}), 1, 8).Draw(t, "place")
	c.Window = rapid.SampledFrom([]int{10, 50, 1, 0}).Draw(t, "window")
	c.Depth = rapid.SampledFrom([]int{50, 5, 1, 250}).Draw(t, "depth")
	c.Opts = Opts{
		Cache:     rapid.SampledFrom([]int{0, 1, 2, 3}).Draw(t, "cache"),
		InMemIdx:  rapid.Bool().Draw(t, "inmemidx"),
		Threshold: rapid.SampledFrom([]int64{0, 1, 512}).Draw(t, "threshold"),
		Exclusive: rapid.Bool().Draw(t, "exclusive"),
		Pool:      rapid.SampledFrom([]int{-1, 1, 3, 0}).Draw(t, "pool"),
		ReadRev:   rapid.SampledFrom([]int{0, 1, 2}).Draw(t, "readrev"),
		RevFiles:  rapid.Bool().Draw(t, "revfiles"),
		Mmap:      rapid.Bool().Draw(t, "mmap"),
		HighMem:   rapid.Bool().Draw(t, "highmem"),
	}
	nops := rapid.IntRange(8, 60).Draw(t, "nops")
	for i := 0; i < nops; i++ {
		c.Ops = append(c.Ops, Op{Kind: rapid.SampledFrom(opKinds).Draw(t, "op"), A: rapid.IntRange(0, 1<<16).Draw(t, "a"), B: rapid.IntRange(0, 1<<10).Draw(t, "b"), C: rapid.IntRange(0, 7).Draw(t, "c")})
	}
	if rec != nil && rec.IsKnown(aliasSig) && c.Opts.Exclusive {
		// steer around the confirmed finding: prefix searches still run (and are judged),
		// but last, so that the list they overwrite is not consulted afterwards
		var head, tail []Op
		for _, o := range c.Ops {
			if o.Kind == "prefix" {
				tail = append(tail, o)
			} else {
				head = append(head, o)
			}
		}
		c.Ops = append(head, tail...)
	}
	return c
}

// ---------------------------------------------------------------- objects

type object struct {
	typ  string
	data []byte
	id   string
}

func newHash(format string) hash.Hash {
	if format == "sha256" {
		return sha256.New()
	}
	return sha1.New()
}

func oid(format, typ string, data []byte) string {
	h := newHash(format)
	fmt.Fprintf(h, "%s %d\x00", typ, len(data))
	h.Write(data)
	return hex.EncodeToString(h.Sum(nil))
}

func baseBlob(f Family) []byte {
	var b bytes.Buffer
	switch f.Kind {
	case 0:
		for i := 0; i < f.Lines; i++ {
			if (i+f.Salt)%7 == 0 {
				fmt.Fprintf(&b, "unique line %d of family salt %d\n", i, f.Salt)
			} else {
				b.WriteString("line of text that repeats\n")
			}
		}
	case 1:
		s := sha256.Sum256([]byte{byte(f.Salt), byte(f.Lines)})
		for i := 0; i < f.Lines/2+1; i++ {
			b.Write(s[:])
			s = sha256.Sum256(s[:])
		}
	default:
		b.WriteString(strings.Repeat("t", f.Lines%9))
	}
	return b.Bytes()
}

func applyEdit(b []byte, e Edit) []byte {
	pos := 0
	if len(b) > 0 {
		pos = e.Pos % (len(b) + 1)
	}
	del := e.Del
	if pos+del > len(b) {
		del = len(b) - pos
	}
	n := make([]byte, 0, len(b)+len(e.Ins))
	n = append(n, b[:pos]...)
	n = append(n, e.Ins...)
	n = append(n, b[pos+del:]...)
	return n
}

func build(c Case) []object {
	var tab []object
	seen := map[string]bool{}
	add := func(typ string, data []byte) string {
		id := oid(c.Format, typ, data)
		if !seen[id] {
			seen[id] = true
			tab = append(tab, object{typ, data, id})
		}
		return id
	}
	var blobs []string
	for _, f := range c.Families {
		b := baseBlob(f)
		blobs = append(blobs, add("blob", b))
		for _, st := range f.Steps {
			b = applyEdit(b, st)
			blobs = append(blobs, add("blob", b))
		}
	}
	var trees []string
	for i := 0; i < c.NTrees; i++ {
		// tree i: entries f000.. over a sliding window of the blobs (sorted names)
		var tb bytes.Buffer
		n := 2 + 3*i
		for j := 0; j < n; j++ {
			fmt.Fprintf(&tb, "100644 f%03d\x00", j)
			raw, _ := hex.DecodeString(blobs[(i+j)%len(blobs)])
			tb.Write(raw)
		}
		trees = append(trees, add("tree", tb.Bytes()))
	}
	if len(trees) == 0 {
		trees = append(trees, add("tree", nil))
	}
	var commits []string
	for i := 0; i < c.NCommits; i++ {
		var b bytes.Buffer
		fmt.Fprintf(&b, "tree %s\n", trees[i%len(trees)])
		if i > 0 {
			fmt.Fprintf(&b, "parent %s\n", commits[i-1])
		}
		fmt.Fprintf(&b, "author A U Thor <author@example.com> %d +0000\ncommitter C O Mitter <committer@example.com> %d +0000\n\ncommit %d\n", 1700000000+i, 1700000000+i, i)
		commits = append(commits, add("commit", b.Bytes()))
	}
	for i := 0; i < c.NTags; i++ {
		target, typ := blobs[0], "blob"
		if len(commits) > 0 && i == 0 {
			target, typ = commits[len(commits)-1], "commit"
		}
		add("tag", []byte(fmt.Sprintf("object %s\ntype %s\ntag v%d\ntagger T <t@example.com> 1700000300 +0000\n\nrelease %d\n", target, typ, i, i)))
	}
	return tab
}

// ---------------------------------------------------------------- repository layout

func scratch() string {
	base := os.Getenv("VERIF_SCRATCH")
	if base == "" {
		base = "/dev/shm"
	}
	d, err := os.MkdirTemp(base, "c11-")
	if err != nil {
		panic("INFRA: scratch: " + err.Error())
	}
	return d
}

func must(err error) {
	if err != nil {
		panic("INFRA: " + err.Error())
	}
}

type looseWriter struct {
	z bytes.Buffer
	w *zlib.Writer
}

func (lw *looseWriter) write(gitdir string, o object) {
	lw.z.Reset()
	if lw.w == nil {
		lw.w, _ = zlib.NewWriterLevel(&lw.z, zlib.BestSpeed)
	} else {
		lw.w.Reset(&lw.z)
	}
	fmt.Fprintf(lw.w, "%s %d\x00", o.typ, len(o.data))
	lw.w.Write(o.data)
	lw.w.Close()
	d := filepath.Join(gitdir, "objects", o.id[:2])
	must(os.MkdirAll(d, 0o755))
	must(os.WriteFile(filepath.Join(d, o.id[2:]), lw.z.Bytes(), 0o444))
}

func initRepo(gitdir, format, extra string) {
	for _, d := range []string{"objects/pack", "objects/info", "refs/heads", "refs/tags"} {
		must(os.MkdirAll(filepath.Join(gitdir, d), 0o755))
	}
	must(os.WriteFile(filepath.Join(gitdir, "HEAD"), []byte("ref: refs/heads/main\n"), 0o644))
	cfg := "[core]\n\trepositoryformatversion = 0\n\tfilemode = true\n\tbare = false\n"
	if format == "sha256" {
		cfg = "[core]\n\trepositoryformatversion = 1\n\tfilemode = true\n\tbare = false\n[extensions]\n\tobjectformat = sha256\n"
	}
	must(os.WriteFile(filepath.Join(gitdir, "config"), []byte(cfg+extra), 0o644))
}

type packInfo struct {
	path    string // .pack
	alt     bool
	offs    []int64 // sorted entry offsets
	idAt    map[int64]string
	deltaAt map[int64]bool
}

// readIdx decodes a version-2 .idx independently of go-git.
func readIdx(path string, hl int) map[int64]string {
	b, err := os.ReadFile(path)
	must(err)
	if len(b) < 8+256*4 || !bytes.Equal(b[:4], []byte{0xff, 't', 'O', 'c'}) {
		panic("INFRA: idx header " + path)
	}
	n := int(binary.BigEndian.Uint32(b[8+255*4:]))
	ids := 8 + 256*4
	crcs := ids + n*hl
	o32 := crcs + n*4
	o64 := o32 + n*4
	out := map[int64]string{}
	for i := 0; i < n; i++ {
		id := hex.EncodeToString(b[ids+i*hl : ids+(i+1)*hl])
		v := binary.BigEndian.Uint32(b[o32+i*4:])
		off := int64(v)
		if v&0x80000000 != 0 {
			off = int64(binary.BigEndian.Uint64(b[o64+int(v&0x7fffffff)*8:]))
		}
		out[off] = id
	}
	return out
}

// ---------------------------------------------------------------- check

type row struct {
	typ  string
	data []byte
	loc  int // location mask
}

func typeOf(s string) plumbing.ObjectType {
	switch s {
	case "blob":
		return plumbing.BlobObject
	case "tree":
		return plumbing.TreeObject
	case "commit":
		return plumbing.CommitObject
	case "tag":
		return plumbing.TagObject
	}
	panic("INFRA: type " + s)
}

var allTypes = []string{"blob", "tree", "commit", "tag"}

func readAll(o plumbing.EncodedObject) ([]byte, error) {
	r, err := o.Reader()
	if err != nil {
		return nil, fmt.Errorf("Reader: %w", err)
	}
	b, err := io.ReadAll(r)
	cerr := r.Close()
	if err != nil {
		return nil, fmt.Errorf("read: %w", err)
	}
	if cerr != nil {
		return nil, fmt.Errorf("close: %w", cerr)
	}
	return b, nil
}

// applyDelta is an independent delta interpreter.
func applyDelta(base, d []byte) ([]byte, error) {
	p := 0
	rd := func() (uint64, error) {
		var v uint64
		var s uint
		for {
			if p >= len(d) {
				return 0, errors.New("short delta header")
			}
			b := d[p]
			p++
			v |= uint64(b&0x7f) << s
			s += 7
			if b&0x80 == 0 {
				return v, nil
			}
		}
	}
	bs, err := rd()
	if err != nil {
		return nil, err
	}
	if bs != uint64(len(base)) {
		return nil, fmt.Errorf("delta base size %d, base has %d", bs, len(base))
	}
	rs, err := rd()
	if err != nil {
		return nil, err
	}
	var out []byte
	for p < len(d) {
		op := d[p]
		p++
		if op&0x80 != 0 {
			var off, n uint32
			for i := uint(0); i < 4; i++ {
				if op&(1<<i) != 0 {
					if p >= len(d) {
						return nil, errors.New("short copy")
					}
					off |= uint32(d[p]) << (8 * i)
					p++
				}
			}
			for i := uint(0); i < 3; i++ {
				if op&(0x10<<i) != 0 {
					if p >= len(d) {
						return nil, errors.New("short copy")
					}
					n |= uint32(d[p]) << (8 * i)
					p++
				}
			}
			if n == 0 {
				n = 0x10000
			}
			if int(off)+int(n) > len(base) {
				return nil, errors.New("copy out of bounds")
			}
			out = append(out, base[off:off+n]...)
		} else if op != 0 {
			if p+int(op) > len(d) {
				return nil, errors.New("short insert")
			}
			out = append(out, d[p:p+int(op)]...)
			p += int(op)
		} else {
			return nil, errors.New("opcode 0")
		}
	}
	if uint64(len(out)) != rs {
		return nil, fmt.Errorf("delta result size %d, produced %d", rs, len(out))
	}
	return out, nil
}

func locClass(loc int, delta bool) string {
	var s []string
	if loc&1 != 0 {
		s = append(s, "loose")
	}
	if loc&14 != 0 {
		if delta {
			s = append(s, "packed-delta")
		} else {
			s = append(s, "packed")
		}
	}
	if loc&48 != 0 && loc&15 == 0 {
		s = append(s, "alternate-only")
	} else if loc&48 != 0 {
		s = append(s, "alternate")
	}
	return strings.Join(s, "+")
}

// Known-finding signatures with dedicated handling.
const (
	// deltaObject.ActualSize() returns the size of the delta, not of the object.
	actualSizeSig = "C11/DeltaObject-ActualSize-is-the-delta-size-not-the-object-size"
	// HasEncodedObject with ExclusiveAccess never consults the alternates.
	hasAltSig = "C11/HasEncodedObject-ExclusiveAccess-alternate-only-object-reported-missing"
	// With ExclusiveAccess DotGit.ObjectsWithPrefix returns a sub-slice of its cached,
	// sorted loose-object list and ObjectStorage.HashesWithPrefix appends pack hashes to
	// it, overwriting the cached list: later loose-object listing/iteration is wrong.
	aliasSig = "C11/ExclusiveAccess-HashesWithPrefix-overwrites-cached-loose-object-list"
)

// DotGit.ObjectsWithPrefix gives up when the prefix is longer than plumbing.ZeroHash.Size()
// (20): in a sha256 repository a 21..32-byte prefix never matches a loose object.
const longPrefixSig = "C11/HashesWithPrefix-sha256-prefix-longer-than-20-bytes-misses-loose-objects"

func knownSet() map[string]bool {
	m := map[string]bool{}
	for _, s := range strings.Split(os.Getenv("VERIF_KNOWN"), "\x1f") {
		if s != "" {
			m[s] = true
		}
	}
	return m
}

func check(c Case) evid.Result {
	res, step := run(c)
	if res.Fail == nil || res.Fail.Sig == "INFRA" || !c.Opts.Exclusive || step < 0 {
		return res
	}
	// Counterfactual for aliasSig: the same case without the earlier prefix searches.
	c2 := c
	c2.Ops = append([]Op(nil), c.Ops...)
	had := false
	for i := 0; i < step && i < len(c2.Ops); i++ {
		if c2.Ops[i].Kind == "prefix" {
			c2.Ops[i].Kind = "nop"
			had = true
		}
	}
	if !had {
		return res
	}
	if res2, _ := run(c2); res2.Fail == nil {
		res.Fail.Sig = aliasSig
		res.Labels = append(res.Labels, "exclusive-prefix-then-loose-listing")
	}
	return res
}

// run executes the case; the second result is the index of the failing step (-1: none / deferred).
func run(c Case) (res evid.Result, failedStep int) {
	failedStep = -1
	if (c.Format != "sha1" && c.Format != "sha256") || len(c.Families) == 0 || len(c.Place) == 0 {
		return evid.Result{Discard: true}, -1
	}
	hl := newHash(c.Format).Size()
	tab := build(c)
	dir := scratch()
	defer os.RemoveAll(dir)
	repo := filepath.Join(dir, "r")
	gitdir := filepath.Join(repo, ".git")
	altrepo := filepath.Join(dir, "alt")
	altgit := filepath.Join(altrepo, ".git")
	extra := ""
	switch c.Opts.ReadRev {
	case 1:
		extra = "[pack]\n\treadReverseIndex = true\n"
	case 2:
		extra = "[pack]\n\treadReverseIndex = false\n"
	}
	initRepo(gitdir, c.Format, extra)
	initRepo(altgit, c.Format, "")

	// ---- lay the objects out
	loc := make([]int, len(tab))
	groups := map[int][]string{} // pack bit -> ids
	var lw looseWriter
	usesAlt := false
	for i, o := range tab {
		m := c.Place[i%len(c.Place)] & 63
		if m == 0 {
			m = 1
		}
		loc[i] = m
		// every object is first a loose file where git can find it for packing
		if m&(1|2|4|8) != 0 {
			lw.write(gitdir, o)
		}
		if m&(16|32) != 0 {
			lw.write(altgit, o)
			usesAlt = true
		}
		for _, bit := range []int{2, 4, 8, 32} {
			if m&bit != 0 {
				groups[bit] = append(groups[bit], o.id)
			}
		}
	}
	packArgs := func() []string {
		a := []string{"-c", "pack.threads=1"}
		if c.Opts.RevFiles {
			a = append(a, "-c", "pack.writeReverseIndex=true")
		} else {
			a = append(a, "-c", "pack.writeReverseIndex=false")
		}
		return append(a, "pack-objects", "-q", "--window="+strconv.Itoa(c.Window), "--depth="+strconv.Itoa(c.Depth), ".git/objects/pack/pack")
	}
	var packs []*packInfo
	for _, bit := range []int{2, 4, 8, 32} {
		ids := groups[bit]
		if len(ids) == 0 {
			continue
		}
		r := repo
		if bit == 32 {
			r = altrepo
		}
		out := strings.TrimSpace(gitx.MustIn(r, []byte(strings.Join(ids, "\n")+"\n"), packArgs()...))
		base := filepath.Join(r, ".git", "objects", "pack", "pack-"+out)
		pi := &packInfo{path: base + ".pack", alt: bit == 32, idAt: readIdx(base+".idx", hl), deltaAt: map[int64]bool{}}
		pb, err := os.ReadFile(pi.path)
		must(err)
		for off := range pi.idAt {
			pi.offs = append(pi.offs, off)
			t := (pb[off] >> 4) & 7
			pi.deltaAt[off] = t == 6 || t == 7
		}
		sort.Slice(pi.offs, func(i, j int) bool { return pi.offs[i] < pi.offs[j] })
		packs = append(packs, pi)
	}
	// remove the loose copies of objects that are meant to live in packs only
	for i, o := range tab {
		if loc[i]&1 == 0 && loc[i]&(2|4|8) != 0 {
			must(os.Remove(filepath.Join(gitdir, "objects", o.id[:2], o.id[2:])))
		}
		if loc[i]&16 == 0 && loc[i]&32 != 0 {
			must(os.Remove(filepath.Join(altgit, "objects", o.id[:2], o.id[2:])))
		}
	}
	if usesAlt {
		must(os.WriteFile(filepath.Join(gitdir, "objects", "info", "alternates"), []byte(filepath.Join(altgit, "objects")+"\n"), 0o644))
	}

	// ---- the oracle table
	cr, err := gitx.Run(gitx.Cmd{Dir: repo, Args: []string{"cat-file", "--batch-all-objects", "--batch", "--buffer"}})
	if err != nil || cr.Code != 0 {
		panic(fmt.Sprintf("INFRA: cat-file: %v %s", err, cr.Err))
	}
	table := map[string]*row{}
	for b := cr.Out; len(b) > 0; {
		nl := bytes.IndexByte(b, '\n')
		if nl < 0 {
			panic("INFRA: cat-file output truncated")
		}
		f := strings.Fields(string(b[:nl]))
		if len(f) != 3 {
			panic("INFRA: cat-file header " + string(b[:nl]))
		}
		sz, _ := strconv.Atoi(f[2])
		if nl+1+sz+1 > len(b) {
			panic("INFRA: cat-file output truncated")
		}
		table[f[0]] = &row{typ: f[1], data: b[nl+1 : nl+1+sz]}
		b = b[nl+1+sz+1:]
	}
	if len(table) != len(tab) {
		panic(fmt.Sprintf("INFRA: git lists %d objects, %d were laid out", len(table), len(tab)))
	}
	ids := make([]string, len(tab))
	for i, o := range tab {
		r, ok := table[o.id]
		if !ok || r.typ != o.typ || !bytes.Equal(r.data, o.data) {
			panic("INFRA: git's table disagrees with the laid-out object " + o.id)
		}
		r.loc = loc[i]
		ids[i] = o.id
	}
	storedDelta := map[string]bool{} // stored as a delta in some local pack
	inPacks := map[string][]int{}
	for k, p := range packs {
		for off, id := range p.idAt {
			inPacks[id] = append(inPacks[id], k)
			if p.deltaAt[off] && !p.alt {
				storedDelta[id] = true
			}
		}
	}

	// ---- open with go-git
	var fsOpts []osfs.Option
	if c.Opts.Mmap {
		fsOpts = append(fsOpts, osfs.WithMmap())
	}
	var bfs billy.Filesystem = osfs.New(gitdir, fsOpts...)
	var oc cache.Object
	switch c.Opts.Cache {
	case 0:
		oc = cache.NewObjectLRUDefault()
	case 1:
		oc = cache.NewObjectLRU(64 * cache.Byte)
	case 2:
		oc = cache.NewObjectLRU(256 * cache.MiByte)
	}
	so := filesystem.Options{ExclusiveAccess: c.Opts.Exclusive, LargeObjectThreshold: c.Opts.Threshold, UseInMemoryIdx: c.Opts.InMemIdx,
		HighMemoryMode: c.Opts.HighMem, AlternatesFS: osfs.New("/", fsOpts...)}
	if c.Opts.Pool >= 0 {
		so.Pool = fdpool.New(c.Opts.Pool)
	}
	st := filesystem.NewStorageWithOptions(bfs, oc, so)
	defer st.Close()
	var pfs []*packfile.Packfile // standalone Packfile per local pack, opened lazily
	defer func() {
		for _, p := range pfs {
			if p != nil {
				p.Close()
			}
		}
	}()
	pfs = make([]*packfile.Packfile, len(packs))
	openPack := func(k int, withFs bool) (*packfile.Packfile, error) {
		if pfs[k] != nil {
			return pfs[k], nil
		}
		rel, _ := filepath.Rel(gitdir, packs[k].path)
		root := bfs
		if packs[k].alt {
			root = osfs.New(altgit, fsOpts...)
			rel, _ = filepath.Rel(altgit, packs[k].path)
		}
		f, err := root.Open(rel)
		if err != nil {
			return nil, err
		}
		xf, err := root.Open(strings.TrimSuffix(rel, ".pack") + ".idx")
		if err != nil {
			return nil, err
		}
		defer xf.Close()
		mi := idxfile.NewMemoryIndex(hl)
		if err := idxfile.NewDecoder(xf, newHash(c.Format)).Decode(mi); err != nil {
			return nil, fmt.Errorf("idx decode: %w", err)
		}
		po := []packfile.PackfileOption{packfile.WithIdx(mi), packfile.WithObjectIDSize(hl)}
		if withFs {
			po = append(po, packfile.WithFs(root))
		}
		if oc != nil {
			po = append(po, packfile.WithCache(oc))
		}
		pfs[k] = packfile.NewPackfile(f, po...)
		return pfs[k], nil
	}

	lab := func(s string) { res.Labels = append(res.Labels, s) }
	lab("format=" + c.Format)
	lab(fmt.Sprintf("packs=%d", len(packs)))
	if usesAlt {
		lab("alternate")
	}
	lab(fmt.Sprintf("cache=%d", c.Opts.Cache))
	lab(fmt.Sprintf("threshold=%d", c.Opts.Threshold))
	lab(fmt.Sprintf("pool=%d", c.Opts.Pool))
	if c.Opts.Mmap {
		lab("mmap")
	}
	if c.Opts.InMemIdx {
		lab("inmemidx")
	}

	step := 0
	var curOp Op
	var soft []*evid.Failure // failures with a dedicated signature that leave the storage usable: the sequence goes on
	fail := func(what, id, format string, a ...any) (evid.Result, int) {
		cls := "absent"
		if r, ok := table[id]; ok {
			cls = locClass(r.loc, storedDelta[id])
			if c.Opts.Threshold > 0 && int64(len(r.data)) > c.Opts.Threshold {
				cls += ":over-threshold"
			}
		} else if id == "" {
			cls = "-"
		}
		res.NonTrivial = true
		res.Fail = evid.Failf("C11/"+curOp.Kind+":"+what+":"+cls, "step %d %+v opts=%+v id=%s: %s", step, curOp, c.Opts, id, fmt.Sprintf(format, a...))
		return res, step
	}
	softFail := func(sig, id, format string, a ...any) {
		for _, f := range soft {
			if f.Sig == sig {
				return
			}
		}
		soft = append(soft, evid.Failf(sig, "step %d %+v opts=%+v id=%s: %s", step, curOp, c.Opts, id, fmt.Sprintf(format, a...)))
	}
	// compare verifies one returned object against git's row.
	compare := func(o plumbing.EncodedObject, id string) (string, string) {
		r := table[id]
		if o.Hash().String() != id {
			return "hash-differs", fmt.Sprintf("Hash() = %s", o.Hash())
		}
		if o.Type().String() != r.typ {
			return "type-differs", fmt.Sprintf("Type() = %s, git says %s", o.Type(), r.typ)
		}
		if o.Size() != int64(len(r.data)) {
			return "size-differs", fmt.Sprintf("Size() = %d, git says %d", o.Size(), len(r.data))
		}
		b, err := readAll(o)
		if err != nil {
			return "unreadable", err.Error()
		}
		if !bytes.Equal(b, r.data) {
			return "content-differs", fmt.Sprintf("%d bytes read, git prints %d bytes, first difference at %d", len(b), len(r.data), firstDiff(b, r.data))
		}
		return "", ""
	}
	absentID := func(k int) string {
		return oid(c.Format, "blob", []byte(fmt.Sprintf("absent object %d", k)))
	}

	touchedPacks := map[int]bool{}
	populated := false  // some successful full read happened
	deltaAfter := false // a delta-stored object was read after that
	typed := map[string][]string{}
	for _, id := range ids {
		typed[table[id].typ] = append(typed[table[id].typ], id)
	}
	noteRead := func(id string) {
		if ks := inPacks[id]; len(ks) > 0 {
			touchedPacks[ks[0]] = true
			if len(ks) > 1 {
				touchedPacks[ks[1]] = true
			}
		}
		if storedDelta[id] && populated {
			deltaAfter = true
		}
		populated = true
	}

	for si, op := range c.Ops {
		step, curOp = si, op
		id := ids[op.A%len(ids)]
		r := table[id]
		switch op.Kind {
		case "get", "get-typed", "get-partial":
			t := plumbing.AnyObject
			if op.Kind == "get-typed" {
				t = typeOf(r.typ)
			}
			o, err := st.EncodedObject(t, plumbing.NewHash(id))
			if err != nil {
				return fail("error", id, "EncodedObject(%s): %v", t, err)
			}
			if op.Kind == "get-partial" {
				// read a prefix only, then drop the reader
				if o.Hash().String() != id || o.Type().String() != r.typ || o.Size() != int64(len(r.data)) {
					return fail("header-differs", id, "got %s %s %d, git says %s %d", o.Hash(), o.Type(), o.Size(), r.typ, len(r.data))
				}
				rd, err := o.Reader()
				if err != nil {
					return fail("unreadable", id, "Reader: %v", err)
				}
				k := op.B
				if k > len(r.data) {
					k = len(r.data)
				}
				buf := make([]byte, k)
				if _, err := io.ReadFull(rd, buf); err != nil {
					rd.Close()
					return fail("unreadable", id, "reading %d bytes: %v", k, err)
				}
				rd.Close()
				if !bytes.Equal(buf, r.data[:k]) {
					return fail("content-differs", id, "first %d bytes differ", k)
				}
			} else if what, msg := compare(o, id); what != "" {
				return fail(what, id, "EncodedObject(%s): %s", t, msg)
			}
			noteRead(id)
		case "get-wrongtype":
			wrong := allTypes[(indexOf(allTypes, r.typ)+1+op.C%3)%4]
			o, err := st.EncodedObject(typeOf(wrong), plumbing.NewHash(id))
			if err == nil {
				return fail("wrong-type-returned", id, "EncodedObject(%s) on a %s returned an object of type %s", wrong, r.typ, o.Type())
			}
			if !errors.Is(err, plumbing.ErrObjectNotFound) {
				return fail("wrong-type-error", id, "EncodedObject(%s) on a %s: %v (want ErrObjectNotFound)", wrong, r.typ, err)
			}
		case "size":
			n, err := st.EncodedObjectSize(plumbing.NewHash(id))
			if err != nil {
				return fail("error", id, "EncodedObjectSize: %v", err)
			}
			if n != int64(len(r.data)) {
				return fail("size-differs", id, "EncodedObjectSize = %d, git says %d", n, len(r.data))
			}
		case "has":
			if err := st.HasEncodedObject(plumbing.NewHash(id)); err != nil {
				if c.Opts.Exclusive && r.loc&15 == 0 && errors.Is(err, plumbing.ErrObjectNotFound) {
					softFail(hasAltSig, id, "HasEncodedObject on an object that exists only in the alternate: %v (EncodedObject and EncodedObjectSize find it)", err)
					continue
				}
				return fail("error", id, "HasEncodedObject: %v", err)
			}
		case "delta":
			if r.loc&15 == 0 {
				continue // alternate-only: DeltaObject does not consult alternates; not a read path the statement names
			}
			o, err := st.DeltaObject(plumbing.AnyObject, plumbing.NewHash(id))
			if err != nil {
				return fail("error", id, "DeltaObject: %v", err)
			}
			if d, ok := o.(plumbing.DeltaObject); ok {
				if d.ActualHash().String() != id {
					return fail("hash-differs", id, "ActualHash() = %s", d.ActualHash())
				}
				br, ok := table[d.BaseHash().String()]
				if !ok {
					return fail("delta-base-unknown", id, "BaseHash() = %s is not an object of the repository", d.BaseHash())
				}
				db, err := readAll(d)
				if err != nil {
					return fail("unreadable", id, "delta bytes: %v", err)
				}
				if d.ActualSize() != int64(len(r.data)) {
					if d.ActualSize() != int64(len(db)) {
						return fail("size-differs", id, "ActualSize() = %d, git says %d (delta has %d bytes)", d.ActualSize(), len(r.data), len(db))
					}
					softFail(actualSizeSig, id, "DeltaObject(...).ActualSize() = %d = length of the delta; the object has %d bytes", d.ActualSize(), len(r.data))
				}
				got, err := applyDelta(br.data, db)
				if err != nil {
					return fail("delta-invalid", id, "delta against %s does not apply: %v", d.BaseHash(), err)
				}
				if !bytes.Equal(got, r.data) {
					return fail("content-differs", id, "delta against %s yields %d bytes that differ from git's %d", d.BaseHash(), len(got), len(r.data))
				}
				lab("delta-object-returned")
			} else if what, msg := compare(o, id); what != "" {
				return fail(what, id, "DeltaObject: %s", msg)
			}
			noteRead(id)
		case "iter", "iter-partial":
			tn := []string{"any", "blob", "tree", "commit", "tag"}[op.B%5]
			t := plumbing.AnyObject
			if tn != "any" {
				t = typeOf(tn)
			}
			it, err := st.IterEncodedObjects(t)
			if err != nil {
				return fail("error", "", "IterEncodedObjects(%s): %v", tn, err)
			}
			limit := -1
			if op.Kind == "iter-partial" {
				limit = op.A % 7
			}
			seen := map[string]bool{}
			n := 0
			for limit < 0 || n < limit {
				o, err := it.Next()
				if err == io.EOF {
					break
				}
				if err != nil {
					it.Close()
					return fail("error", "", "IterEncodedObjects(%s).Next: %v", tn, err)
				}
				n++
				oid := o.Hash().String()
				if _, ok := table[oid]; !ok {
					it.Close()
					return fail("invented", "", "IterEncodedObjects(%s) yields %s which git does not list", tn, oid)
				}
				if seen[oid] {
					it.Close()
					return fail("duplicate", oid, "IterEncodedObjects(%s) yields %s twice", tn, oid)
				}
				seen[oid] = true
				if tn != "any" && table[oid].typ != tn {
					it.Close()
					return fail("wrong-type-yielded", oid, "IterEncodedObjects(%s) yields a %s", tn, table[oid].typ)
				}
				if what, msg := compare(o, oid); what != "" {
					it.Close()
					return fail(what, oid, "IterEncodedObjects(%s): %s", tn, msg)
				}
				noteRead(oid)
			}
			it.Close()
			if limit < 0 {
				// complete iteration: every object of the repository's own object directory must appear
				// (whether objects that exist only in the alternate are listed is left open)
				for _, x := range ids {
					rr := table[x]
					if rr.loc&15 != 0 && (tn == "any" || rr.typ == tn) && !seen[x] {
						return fail("dropped", x, "IterEncodedObjects(%s) ended after %d objects without %s", tn, n, x)
					}
				}
			}
		case "prefix":
			n := []int{1, 2, 3, hl, 2, 1, 21, hl - 1}[op.C%8]
			if n > hl {
				n = hl
			}
			raw, _ := hex.DecodeString(id)
			pre := raw[:n]
			if op.B%5 == 0 { // a prefix that (most likely) matches nothing
				araw, _ := hex.DecodeString(absentID(op.B))
				pre = araw[:n]
			}
			hs, err := st.HashesWithPrefix(pre)
			if err != nil {
				return fail("error", "", "HashesWithPrefix(%x): %v", pre, err)
			}
			want := map[string]bool{}
			for _, x := range ids {
				if strings.HasPrefix(x, hex.EncodeToString(pre)) {
					want[x] = true
				}
			}
			got := map[string]bool{}
			for _, h := range hs {
				x := h.String()
				if got[x] {
					return fail("duplicate", x, "HashesWithPrefix(%x) lists %s twice", pre, x)
				}
				got[x] = true
				if !want[x] {
					return fail("invented", "", "HashesWithPrefix(%x) lists %s", pre, x)
				}
			}
			for _, x := range ids {
				if want[x] && !got[x] {
					if c.Format == "sha256" && len(pre) > 20 && table[x].loc&(1|16) != 0 {
						softFail(longPrefixSig, x, "HashesWithPrefix(%x) (%d-byte prefix, sha256 repository) misses the loose object %s", pre, len(pre), x)
						break
					}
					return fail("dropped", x, "HashesWithPrefix(%x) misses %s", pre, x)
				}
			}
		case "pack-offset", "pack-size", "pack-findhash", "pack-get":
			if len(packs) == 0 {
				continue
			}
			k := op.B % len(packs)
			p := packs[k]
			pf, err := openPack(k, op.C%2 == 0)
			if err != nil {
				return fail("error", "", "open pack %d: %v", k, err)
			}
			off := p.offs[op.A%len(p.offs)]
			pid := p.idAt[off]
			id = pid
			switch op.Kind {
			case "pack-offset":
				o, err := pf.GetByOffset(off)
				if err != nil {
					return fail("error", pid, "Packfile.GetByOffset(%d): %v", off, err)
				}
				if what, msg := compare(o, pid); what != "" {
					return fail(what, pid, "Packfile.GetByOffset(%d): %s", off, msg)
				}
				noteRead(pid)
				touchedPacks[k] = true
			case "pack-get":
				o, err := pf.Get(plumbing.NewHash(pid))
				if err != nil {
					return fail("error", pid, "Packfile.Get: %v", err)
				}
				if what, msg := compare(o, pid); what != "" {
					return fail(what, pid, "Packfile.Get: %s", msg)
				}
				noteRead(pid)
				touchedPacks[k] = true
			case "pack-size":
				n, err := pf.GetSizeByOffset(off)
				if err != nil {
					return fail("error", pid, "Packfile.GetSizeByOffset(%d): %v", off, err)
				}
				if n != int64(len(table[pid].data)) {
					return fail("size-differs", pid, "Packfile.GetSizeByOffset(%d) = %d, git says %d", off, n, len(table[pid].data))
				}
			case "pack-findhash":
				h, err := pf.FindHash(off)
				if err != nil {
					return fail("error", pid, "Packfile.FindHash(%d): %v", off, err)
				}
				if h.String() != pid {
					return fail("hash-differs", pid, "Packfile.FindHash(%d) = %s", off, h)
				}
				if _, err := pf.FindHash(off + 1); err == nil && p.idAt[off+1] == "" {
					return fail("invented", "", "Packfile.FindHash(%d) succeeds though no entry starts there", off+1)
				}
			}
		case "absent":
			a := absentID(op.A)
			id = a
			h := plumbing.NewHash(a)
			switch op.C % 4 {
			case 0:
				if o, err := st.EncodedObject(plumbing.AnyObject, h); err == nil {
					return fail("invented", "", "EncodedObject(absent id) returned %s", o.Hash())
				} else if !errors.Is(err, plumbing.ErrObjectNotFound) {
					return fail("absent-error", "", "EncodedObject(absent id): %v (want ErrObjectNotFound)", err)
				}
			case 1:
				if err := st.HasEncodedObject(h); err == nil {
					return fail("invented", "", "HasEncodedObject(absent id) = nil")
				} else if !errors.Is(err, plumbing.ErrObjectNotFound) {
					return fail("absent-error", "", "HasEncodedObject(absent id): %v (want ErrObjectNotFound)", err)
				}
			case 2:
				if n, err := st.EncodedObjectSize(h); err == nil {
					return fail("invented", "", "EncodedObjectSize(absent id) = %d", n)
				} else if !errors.Is(err, plumbing.ErrObjectNotFound) {
					return fail("absent-error", "", "EncodedObjectSize(absent id): %v (want ErrObjectNotFound)", err)
				}
			case 3:
				if o, err := st.DeltaObject(plumbing.AnyObject, h); err == nil {
					return fail("invented", "", "DeltaObject(absent id) returned %s", o.Hash())
				} else if !errors.Is(err, plumbing.ErrObjectNotFound) {
					return fail("absent-error", "", "DeltaObject(absent id): %v (want ErrObjectNotFound)", err)
				}
			}
		case "nop":
		case "close-idle":
			if err := st.CloseIdleDescriptors(); err != nil {
				return fail("error", "", "CloseIdleDescriptors: %v", err)
			}
		}
	}
	if deltaAfter {
		lab("delta-read-after-cache-populating-read")
	}
	if len(touchedPacks) >= 2 {
		lab("touches>=2packs")
	}
	res.NonTrivial = deltaAfter && len(touchedPacks) >= 2
	if len(soft) > 0 {
		known := knownSet()
		res.Fail = soft[0]
		for _, f := range soft {
			if !known[f.Sig] {
				res.Fail = f
				break
			}
		}
	}
	return res, -1
}

func indexOf(xs []string, x string) int {
	for i, y := range xs {
		if x == y {
			return i
		}
	}
	return 0
}

func firstDiff(a, b []byte) int {
	n := len(a)
	if len(b) < n {
		n = len(b)
	}
	for i := 0; i < n; i++ {
		if a[i] != b[i] {
			return i
		}
	}
	return n
}

func TestC11(t *testing.T) {
	evid.Run(t, evid.Spec[Case]{ID: "C11", Gen: gen, Check: check})
}
