package c12

import (
	"bytes"
	"crypto/sha256"
	"encoding/binary"
	"encoding/hex"
	"fmt"
	"os"
	"path/filepath"
	"reflect"
	"sort"
	"strings"
	"testing"
	"time"

	"github.com/go-git/go-git/v6/plumbing"
	"github.com/go-git/go-git/v6/plumbing/filemode"
	"github.com/go-git/go-git/v6/plumbing/format/index"
	"pgregory.net/rapid"

	"verif/harness/lib/evid"
	"verif/harness/lib/gitx"
)

// ---------------------------------------------------------------------------
// shared: normalised entries, go-git decode, git listing, comparison

type nEntry struct {
	Name                     string
	Mode                     uint32
	Hash                     string
	Stage                    int
	CSec, CNsec, MSec, MNsec uint32
	Dev, Ino, UID, GID, Size uint32
	ITA, Skip                bool
}

func tparts(t time.Time) (uint32, uint32) {
	if t.IsZero() {
		return 0, 0
	}
	return uint32(t.Unix()), uint32(t.Nanosecond())
}

func normGo(e *index.Entry) nEntry {
	n := nEntry{Name: e.Name, Mode: uint32(e.Mode), Hash: e.Hash.String(), Stage: int(e.Stage),
		Dev: e.Dev, Ino: e.Inode, UID: e.UID, GID: e.GID, Size: e.Size, ITA: e.IntentToAdd, Skip: e.SkipWorktree}
	n.CSec, n.CNsec = tparts(e.CreatedAt)
	n.MSec, n.MNsec = tparts(e.ModifiedAt)
	return n
}

func normGit(g gitEntry) nEntry {
	return nEntry{Name: g.Name, Mode: g.Mode, Hash: g.Hash, Stage: g.Stage, CSec: g.CSec, CNsec: g.CNsec, MSec: g.MSec, MNsec: g.MNsec,
		Dev: g.Dev, Ino: g.Ino, UID: g.UID, GID: g.GID, Size: g.Size, ITA: g.ita(), Skip: g.skip()}
}

// firstDiff names the first differing field of two entry lists ("" = equal).
func firstDiff(a, b []nEntry) (string, int) {
	if len(a) != len(b) {
		return "count", min(len(a), len(b))
	}
	for i := range a {
		va, vb := reflect.ValueOf(a[i]), reflect.ValueOf(b[i])
		for f := 0; f < va.NumField(); f++ {
			if !reflect.DeepEqual(va.Field(f).Interface(), vb.Field(f).Interface()) {
				return va.Type().Field(f).Name, i
			}
		}
	}
	return "", -1
}

// orderOnlyDiff returns the first differing position when a holds exactly the
// entries of b in another order, -1 otherwise (equal, or different contents).
func orderOnlyDiff(a, b []nEntry) int {
	if len(a) != len(b) {
		return -1
	}
	cnt := map[nEntry]int{}
	for _, e := range b {
		cnt[e]++
	}
	for _, e := range a {
		cnt[e]--
		if cnt[e] < 0 {
			return -1
		}
	}
	for i := range a {
		if a[i] != b[i] {
			return i
		}
	}
	return -1
}

func short(e nEntry) string {
	n := e.Name
	if len(n) > 60 {
		n = fmt.Sprintf("%s…(%d bytes)", n[:40], len(n))
	}
	e.Name = n
	return fmt.Sprintf("%+v", e)
}

func at(l []nEntry, i int) string {
	if i < 0 || i >= len(l) {
		return "<none>"
	}
	return short(l[i])
}

func goDecode(b []byte, s256 bool, opts ...index.Option) (*index.Index, error) {
	idx := &index.Index{}
	err := index.NewDecoder(bytes.NewReader(b), newHash(s256), opts...).Decode(idx)
	return idx, err
}

// gitListing reports what the index *file* holds. With sparse checkout on, git
// (>= 2.36) clears the skip-worktree bit in memory for paths present in the
// worktree while reading; sparse.expectFilesOutsideOfPatterns switches that
// read-time rewrite off so the on-disk bit is printed.
func gitListing(repo, idxFile string) ([]nEntry, string, int) {
	r, err := gitx.Run(gitx.Cmd{Dir: repo, Env: []string{"GIT_INDEX_FILE=" + idxFile},
		Args: []string{"-c", "sparse.expectFilesOutsideOfPatterns=true", "ls-files", "--stage", "--debug", "-z"}})
	if err != nil {
		panic("INFRA: " + err.Error())
	}
	if r.Code != 0 {
		return nil, string(r.Err), r.Code
	}
	var out []nEntry
	for _, g := range parseDebugListing(string(r.Out)) {
		out = append(out, normGit(g))
	}
	return out, string(r.Err), 0
}

func gitWith(repo, idxFile string, stdin []byte, args ...string) (string, string, int) {
	r, err := gitx.Run(gitx.Cmd{Dir: repo, Env: []string{"GIT_INDEX_FILE=" + idxFile}, Args: args, Stdin: stdin})
	if err != nil {
		panic("INFRA: " + err.Error())
	}
	return string(r.Out), string(r.Err), r.Code
}

func features(ents []nEntry, ver uint32, lab map[string]bool) (nontrivial bool) {
	lab[fmt.Sprintf("v%d", ver)] = true
	if ver == 4 {
		nontrivial = true
	}
	for _, e := range ents {
		if e.ITA || e.Skip {
			lab["extended-flag"] = true
			nontrivial = true
		}
		if e.ITA {
			lab["intent-to-add"] = true
		}
		if e.Skip {
			lab["skip-worktree"] = true
		}
		if e.Stage > 0 {
			lab["stage>0"] = true
			nontrivial = true
		}
		if len(e.Name) >= 0xfff {
			lab["name>=0xFFF"] = true
			nontrivial = true
		}
		if e.Mode == 0o160000 {
			lab["gitlink"] = true
		}
		if e.Mode == 0o120000 {
			lab["symlink"] = true
		}
	}
	if len(ents) == 0 {
		lab["empty-index"] = true
	}
	return
}

// ---------------------------------------------------------------------------
// Direction A: indexes written by git, decoded by go-git

// Op is one git command acting on the scratch worktree/index.
type Op struct {
	K string // kind
	P int    // path selector
	Q int    // variant / content selector
}

// DCase is a history of git operations; the index git leaves behind is
// decoded after every step.
type DCase struct {
	SHA256  bool
	Ver     int  // index.version in the config (0 = unset)
	EOIE    bool // index.recordEndOfIndexEntries + recordOffsetTable
	ZeroSum bool // final file also checked with the trailing hash zeroed (what git >= 2.40 writes under index.skipHash)
	Ops     []Op
	// KnownREUC is set by the generator only while the known finding
	// C12/Decode-REUC-stage-hashes-permuted is confirmed open: the id-to-stage
	// assignment inside one resolve-undo entry is then not compared (paths,
	// stage sets and id multisets still are) so the history is checked to its end.
	KnownREUC bool `json:",omitempty"`
}

const sigREUC = "C12/Decode-REUC-stage-hashes-permuted"

var paths = []string{"a", "b", "d/a", "d/b", "d/e/f", "d/e/g", "e/x y", "é/ü", "d/-dash", "n\nl", "t\tab", "q\"uote", "back\\slash",
	".hidden", "d.txt", "d0", "e/deep/er/still/file", "-lead", "d/e.c", "e/x", "c*?[x]"}

func longPath(q int) string {
	lens := []int{4094, 4095, 4096, 4097, 4400, 5003, 4095, 4095}
	q = ((q % len(lens)) + len(lens)) % len(lens)
	L := lens[q]
	var sb strings.Builder
	sb.WriteString([]string{"L", "L", "L", "L", "L", "d", "L", "Lb"}[q])
	for sb.Len() < L {
		rem := L - sb.Len() - 1
		n := min(rem, 200)
		sb.WriteString("/")
		ch := "p"
		if q == 6 && rem <= 200 {
			ch = "q" // shares a 3.9 KiB prefix with variant 1
		}
		sb.WriteString(strings.Repeat(ch, n))
	}
	return sb.String()
}

var opKinds = []string{"add", "add", "add", "add", "addx", "link", "ita", "ita", "rmc", "rm", "ver", "ver", "skip", "skip", "noskip", "assume",
	"commit", "commit", "wtree", "stages", "stages", "stages", "merge", "resolve", "resolve", "resolve", "unresolve", "clearru",
	"cacheinfo", "cacheinfo", "gitlink", "sparse", "sparse", "nosparse", "untr", "untr", "readtree", "reset", "refresh", "mv"}

func genD(t *rapid.T, rec *evid.Recorder) DCase {
	c := DCase{
		KnownREUC: rec != nil && rec.IsKnown(sigREUC),
		SHA256:    rapid.IntRange(0, 4).Draw(t, "sha256") == 0,
		Ver:       rapid.SampledFrom([]int{0, 0, 2, 3, 4, 4}).Draw(t, "ver"),
		EOIE:      rapid.IntRange(0, 2).Draw(t, "eoie") == 0,
		ZeroSum:   rapid.IntRange(0, 3).Draw(t, "zerosum") == 0,
	}
	n := rapid.IntRange(1, 10).Draw(t, "nops")
	for i := 0; i < n; i++ {
		op := Op{
			K: rapid.SampledFrom(opKinds).Draw(t, "k"),
			P: rapid.IntRange(0, len(paths)-1).Draw(t, "p"),
			Q: rapid.IntRange(0, 7).Draw(t, "q"),
		}
		c.Ops = append(c.Ops, op)
		// a conflict is often followed by its resolution (that is what records resolve-undo data)
		if (op.K == "stages" || op.K == "merge") && rapid.IntRange(0, 2).Draw(t, "then-resolve") > 0 {
			c.Ops = append(c.Ops, Op{K: "resolve", P: rapid.IntRange(0, 3).Draw(t, "rp"), Q: rapid.SampledFrom([]int{0, 2, 3, 5, 6, 7}).Draw(t, "rq")})
		}
	}
	return c
}

type drepo struct {
	dir     string
	s256    bool
	blobs   []string
	step    int
	usage   int
	crashed int
	// what git listed after the previous step: lets a step aim at an existing
	// entry / conflicted path / resolve-undo record (selector resolved modulo)
	names, conflicted, undo []string
}

func pick(l []string, i int, def string) string {
	if len(l) == 0 {
		return def
	}
	return l[((i%len(l))+len(l))%len(l)]
}

// git runs a history step; its outcome is never an oracle answer, so failures
// (including usage errors, counted in usage) only mean the step did nothing.
func (r *drepo) git(args ...string) int {
	res, err := gitx.Run(gitx.Cmd{Dir: r.dir, Args: args})
	if err != nil {
		if res.Code == 129 {
			r.usage++
			return 129
		}
		if strings.Contains(err.Error(), "signal:") {
			// git 2.39.5 itself crashes in some steps (seen: sparse-checkout set --cone
			// with unmerged/not-up-to-date paths). The index is replaced by rename, so
			// the file is the old or the new one; only a stale lock can remain.
			r.crashed++
			os.Remove(filepath.Join(r.dir, ".git", "index.lock"))
			return -1
		}
		panic("INFRA: " + err.Error())
	}
	return res.Code
}

func (r *drepo) write(rel, content string) {
	p := filepath.Join(r.dir, rel)
	os.MkdirAll(filepath.Dir(p), 0o755)
	if fi, err := os.Lstat(p); err == nil && !fi.Mode().IsRegular() {
		os.RemoveAll(p)
	}
	os.WriteFile(p, []byte(content), 0o644) // may fail (parent is a file): the op then simply fails in git
}

func (r *drepo) zero() string {
	if r.s256 {
		return strings.Repeat("0", 64)
	}
	return strings.Repeat("0", 40)
}

func (r *drepo) apply(op Op) {
	r.step++
	p := paths[((op.P%len(paths))+len(paths))%len(paths)]
	q := ((op.Q % 8) + 8) % 8
	switch op.K {
	case "skip", "noskip", "assume", "rmc", "rm", "mv":
		if q%4 != 0 {
			p = pick(r.names, op.P, p)
		}
	case "resolve":
		if q%8 != 1 {
			p = pick(r.conflicted, op.P, p)
		}
	case "unresolve":
		p = pick(r.undo, op.P, p)
	}
	switch op.K {
	case "add":
		r.write(p, fmt.Sprintf("c%d\n", q))
		r.git("add", "--", p)
	case "addx":
		r.write(p, fmt.Sprintf("x%d\n", q))
		r.git("add", "--", p)
		r.git("update-index", "--chmod=+x", "--", p)
	case "link":
		full := filepath.Join(r.dir, p)
		os.MkdirAll(filepath.Dir(full), 0o755)
		os.RemoveAll(full)
		os.Symlink(fmt.Sprintf("target%d", q), full)
		r.git("add", "--", p)
	case "ita":
		r.write(p, fmt.Sprintf("i%d\n", q))
		r.git("add", "-N", "--", p)
	case "rmc":
		r.git("rm", "-q", "-r", "--cached", "-f", "--ignore-unmatch", "--", p)
	case "rm":
		r.git("rm", "-q", "-r", "-f", "--ignore-unmatch", "--", p)
	case "ver":
		r.git("update-index", "--index-version", fmt.Sprint(2+q%3))
	case "skip":
		r.git("update-index", "--skip-worktree", "--", p)
	case "noskip":
		r.git("update-index", "--no-skip-worktree", "--", p)
	case "assume":
		r.git("update-index", "--assume-unchanged", "--", p)
	case "commit":
		r.git("commit", "-q", "--allow-empty", "-m", "m")
	case "wtree":
		r.git("write-tree")
	case "stages":
		mask := q%7 + 1
		var in bytes.Buffer
		fmt.Fprintf(&in, "0 %s\t%s\x00", r.zero(), p)
		for s := 1; s <= 3; s++ {
			if mask&(1<<(s-1)) != 0 {
				mode := "100644"
				if (q+s)%5 == 0 {
					mode = "100755"
				}
				fmt.Fprintf(&in, "%s %s %d\t%s\x00", mode, r.blobs[(q+s)%len(r.blobs)], s, p)
			}
		}
		gitx.TryIn(r.dir, in.Bytes(), "update-index", "-z", "--index-info")
	case "merge":
		if r.git("add", "-A") != 0 || r.git("commit", "-q", "--allow-empty", "-m", "base") != 0 {
			return
		}
		side := fmt.Sprintf("side%d", r.step)
		if r.git("checkout", "-q", "-b", side) != 0 {
			return
		}
		if q%3 == 0 {
			os.RemoveAll(filepath.Join(r.dir, p))
		} else {
			r.write(p, fmt.Sprintf("side%d\n", q))
		}
		r.git("add", "-A")
		r.git("commit", "-q", "--allow-empty", "-m", "side")
		if r.git("checkout", "-q", "main") != 0 {
			return
		}
		r.write(p, fmt.Sprintf("main%d\n", q))
		r.git("add", "-A")
		r.git("commit", "-q", "--allow-empty", "-m", "main")
		r.git("merge", "-q", side)
	case "resolve":
		if q%4 == 0 {
			r.git("rm", "-q", "-f", "--", p)
		} else {
			r.write(p, fmt.Sprintf("r%d\n", q))
			r.git("add", "--", p)
		}
	case "unresolve":
		r.git("update-index", "--unresolve", "--", p)
	case "clearru":
		r.git("update-index", "--clear-resolve-undo")
	case "cacheinfo":
		mode := []string{"100644", "100755", "120000"}[q%3]
		r.git("update-index", "--add", "--cacheinfo", mode+","+r.blobs[q%len(r.blobs)]+","+longPath(q+op.P))
	case "gitlink":
		r.git("update-index", "--add", "--cacheinfo", "160000,"+r.blobs[q%len(r.blobs)]+","+p)
	case "sparse":
		dir := []string{"d", "e", "d/e", "é"}[q%4]
		if q >= 4 {
			r.git("sparse-checkout", "set", "--no-sparse-index", "--cone", dir)
		} else {
			r.git("sparse-checkout", "set", "--no-sparse-index", "--no-cone", "/"+dir+"/", "!/d/e/")
		}
	case "nosparse":
		r.git("sparse-checkout", "disable")
	case "untr":
		if q%3 == 0 {
			r.git("update-index", "--no-untracked-cache")
		} else {
			r.git("update-index", "--untracked-cache")
		}
	case "readtree":
		switch q % 3 {
		case 0:
			r.git("read-tree", "HEAD")
		case 1:
			r.git("read-tree", "--empty")
		default:
			r.git("read-tree", "-m", "HEAD")
		}
	case "reset":
		if q%2 == 0 {
			r.git("reset", "-q")
		} else {
			r.git("reset", "-q", "--hard")
		}
	case "refresh":
		if q%2 == 0 {
			r.git("update-index", "-q", "--refresh")
		} else {
			r.git("update-index", "-q", "--really-refresh")
		}
	case "mv":
		r.git("mv", "-k", "--", p, paths[(op.P+q+1)%len(paths)])
	}
}

func sigFeatures(ri *refIndex) string {
	s := fmt.Sprintf("v%d", ri.Version)
	if x := ri.extSigs(); x != "" {
		s += ":" + x
	}
	return s
}

// compareDecoded decides Oracle A for one index file that git wrote.
func compareDecoded(r *drepo, idxFile string, b []byte, s256 bool, tolerateREUC bool, lab map[string]bool, nontrivial *bool) *evid.Failure {
	repo := r.dir
	hs := 20
	if s256 {
		hs = 32
	}
	ri, err := parseRef(b, s256)
	if err != nil {
		panic(fmt.Sprintf("INFRA: reference parser cannot read an index git wrote: %v", err))
	}
	for _, e := range ri.Exts {
		lab["ext:"+e.Sig] = true
	}
	idx, err := goDecode(b, s256)
	if err != nil {
		return evid.Failf("C12/Decode-rejects-git-index:"+sigFeatures(ri), "go-git cannot decode an index written by git (%s, %d entries): %v", sigFeatures(ri), ri.N, err)
	}
	idx2, err := goDecode(b, s256)
	if err != nil {
		return evid.Failf("C12/Decode-nondeterministic:error", "second decode of the same bytes failed: %v", err)
	}
	if idx.Version != ri.Version {
		return evid.Failf("C12/Decode-version", "version: go-git %d, file header %d", idx.Version, ri.Version)
	}
	var goEnts []nEntry
	for _, e := range idx.Entries {
		goEnts = append(goEnts, normGo(e))
	}
	gitEnts, stderr, code := gitListing(repo, idxFile)
	if code != 0 {
		panic("INFRA: git cannot list its own index: " + stderr)
	}
	if features(gitEnts, ri.Version, lab) {
		*nontrivial = true
	}
	r.names, r.conflicted, r.undo = nil, nil, nil
	for _, e := range gitEnts {
		if len(e.Name) < 300 {
			r.names = append(r.names, e.Name)
			if e.Stage > 0 && (len(r.conflicted) == 0 || r.conflicted[len(r.conflicted)-1] != e.Name) {
				r.conflicted = append(r.conflicted, e.Name)
			}
		}
	}
	if f, i := firstDiff(goEnts, gitEnts); f != "" {
		extra := ""
		if ri.Version == 4 {
			extra = ":v4"
		}
		return evid.Failf("C12/Decode-entries-differ:"+f+extra, "entry %d field %s (%s): go-git %s, git ls-files --debug %s (counts %d/%d)", i, f, sigFeatures(ri),
			at(goEnts, i), at(gitEnts, i), len(goEnts), len(gitEnts))
	}
	if !reflect.DeepEqual(idx.Entries, idx2.Entries) {
		return evid.Failf("C12/Decode-nondeterministic:entries", "two decodes of the same bytes give different entries")
	}

	// resolve-undo
	reuc := ri.ext("REUC")
	if (reuc != nil) != (idx.ResolveUndo != nil) {
		return evid.Failf("C12/Decode-REUC-presence", "REUC extension in file: %v, Index.ResolveUndo set: %v", reuc != nil, idx.ResolveUndo != nil)
	}
	if reuc != nil {
		out, stderr, code := gitWith(repo, idxFile, nil, "ls-files", "--resolve-undo", "-z")
		if code != 0 {
			panic("INFRA: ls-files --resolve-undo: " + stderr)
		}
		want := parseStageListing(out)
		sortStage(want)
		for _, w := range want {
			if len(r.undo) == 0 || r.undo[len(r.undo)-1] != w.Path {
				r.undo = append(r.undo, w.Path)
			}
		}
		got := reucList(idx.ResolveUndo)
		multi := false
		perPath := map[string]int{}
		for _, w := range want {
			perPath[w.Path]++
			if perPath[w.Path] > 1 {
				multi = true
			}
		}
		lab["REUC-entries"] = len(want) > 0
		if multi {
			lab["REUC-multi-stage"] = true
		}
		// decoding is repeated: the statement demands a deterministic result
		rounds := 2
		if multi {
			rounds = 300
		}
		for k := 0; k < rounds; k++ {
			if k > 0 {
				again, err := goDecode(b, s256)
				if err != nil {
					return evid.Failf("C12/Decode-nondeterministic:error", "decode #%d of the same bytes failed: %v", k+1, err)
				}
				got = reucList(again.ResolveUndo)
			}
			if !reflect.DeepEqual(got, want) {
				if samePerPathMultiset(got, want) {
					if tolerateREUC {
						lab["known-shape:REUC-ids-permuted"] = true
						break
					}
					return evid.Failf(sigREUC, "resolve-undo (decode #%d of the same bytes): go-git assigns the recorded ids to the wrong stages: go-git %v, git ls-files --resolve-undo %v", k+1, got, want)
				}
				return evid.Failf("C12/Decode-REUC-differs", "resolve-undo (decode #%d): go-git %v, git ls-files --resolve-undo %v", k+1, got, want)
			}
		}
	}

	// cached tree
	tree := ri.ext("TREE")
	if (tree != nil) != (idx.Cache != nil) {
		return evid.Failf("C12/Decode-TREE-presence", "TREE extension in file: %v, Index.Cache set: %v", tree != nil, idx.Cache != nil)
	}
	if tree != nil {
		nodes, err := parseRefTree(tree.Data, hs)
		if err != nil {
			panic(fmt.Sprintf("INFRA: reference TREE parser: %v", err))
		}
		var valid []refTreeNode
		for _, n := range nodes {
			if n.Entries >= 0 {
				valid = append(valid, n)
			} else {
				lab["TREE-invalidated-node"] = true
			}
		}
		if len(valid) > 1 {
			lab["TREE-valid-subtrees"] = true
		}
		if len(valid) > 0 {
			lab["TREE-valid-nodes"] = true
			verifyTreeWithGit(repo, gitEnts, valid, s256)
		}
		if len(idx.Cache.Entries) != len(valid) {
			return evid.Failf("C12/Decode-TREE-differs:count", "cached tree: go-git has %d nodes, git wrote %d valid nodes (%d total)", len(idx.Cache.Entries), len(valid), len(nodes))
		}
		for i, n := range valid {
			g := idx.Cache.Entries[i]
			if g.Path != n.Path || g.Entries != n.Entries || g.Trees != n.Trees || g.Hash.String() != n.Hash {
				return evid.Failf("C12/Decode-TREE-differs:node", "cached tree node %d (%q): go-git {%q %d %d %s}, git {%q %d %d %s}", i, n.Full, g.Path, g.Entries, g.Trees, g.Hash, n.Path, n.Entries, n.Trees, n.Hash)
			}
		}
		if !reflect.DeepEqual(idx.Cache, idx2.Cache) {
			return evid.Failf("C12/Decode-nondeterministic:TREE", "two decodes give different cached trees")
		}
	}

	// end-of-index-entries
	eoie := ri.ext("EOIE")
	if (eoie != nil) != (idx.EndOfIndexEntry != nil) {
		return evid.Failf("C12/Decode-EOIE-presence", "EOIE extension in file: %v, Index.EndOfIndexEntry set: %v", eoie != nil, idx.EndOfIndexEntry != nil)
	}
	if eoie != nil {
		if len(eoie.Data) != 4+hs {
			panic("INFRA: EOIE size")
		}
		off := binary.BigEndian.Uint32(eoie.Data)
		h := newHash(s256)
		for _, e := range ri.Exts {
			if e.Sig == "EOIE" {
				break
			}
			var hdr [8]byte
			copy(hdr[:4], e.Sig)
			binary.BigEndian.PutUint32(hdr[4:], uint32(len(e.Data)))
			h.Write(hdr[:])
		}
		if int(off) != ri.EntriesEnd || hex.EncodeToString(h.Sum(nil)) != hex.EncodeToString(eoie.Data[4:]) {
			panic(fmt.Sprintf("INFRA: reference reading of EOIE disagrees with git's file: off %d vs %d", off, ri.EntriesEnd))
		}
		if idx.EndOfIndexEntry.Offset != off || idx.EndOfIndexEntry.Hash.String() != hex.EncodeToString(eoie.Data[4:]) {
			return evid.Failf("C12/Decode-EOIE-differs", "EOIE: go-git {%d %s}, file {%d %x}", idx.EndOfIndexEntry.Offset, idx.EndOfIndexEntry.Hash, off, eoie.Data[4:])
		}
	}
	return nil
}

func sortStage(l []stageRec) {
	sort.Slice(l, func(i, j int) bool {
		if l[i].Path != l[j].Path {
			return l[i].Path < l[j].Path
		}
		return l[i].Stage < l[j].Stage
	})
}

func reucList(ru *index.ResolveUndo) []stageRec {
	var out []stageRec
	if ru == nil {
		return nil
	}
	for _, e := range ru.Entries {
		for s, h := range e.Stages {
			out = append(out, stageRec{Path: e.Path, Stage: int(s), Hash: h.String()})
		}
	}
	sortStage(out)
	return out
}

func samePerPathMultiset(a, b []stageRec) bool {
	if len(a) != len(b) {
		return false
	}
	key := func(l []stageRec) ([]string, []string) {
		var hs, st []string
		for _, x := range l {
			hs = append(hs, x.Path+"\x00"+x.Hash)
			st = append(st, fmt.Sprintf("%s\x00%d", x.Path, x.Stage))
		}
		sort.Strings(hs)
		sort.Strings(st)
		return hs, st
	}
	ah, as := key(a)
	bh, bs := key(b)
	return reflect.DeepEqual(ah, bh) && reflect.DeepEqual(as, bs)
}

// verifyTreeWithGit grounds the reference reading of the TREE extension in
// git's own semantics: a valid node's id is the tree git writes for that span
// of the index and its count is the number of index entries below it. A
// disagreement means the oracle is wrong, not go-git.
func verifyTreeWithGit(repo string, ents []nEntry, valid []refTreeNode, s256 bool) {
	tmp := filepath.Join(repo, ".git", "c12-tmp-index")
	defer os.Remove(tmp)
	var in bytes.Buffer
	for _, e := range ents {
		if e.Stage == 0 && !e.ITA {
			fmt.Fprintf(&in, "%06o %s %d\t%s\x00", e.Mode, e.Hash, 0, e.Name)
		}
	}
	if _, stderr, code := gitWith(repo, tmp, in.Bytes(), "update-index", "-z", "--index-info"); code != 0 {
		panic("INFRA: update-index --index-info: " + stderr)
	}
	out, stderr, code := gitWith(repo, tmp, nil, "write-tree", "--missing-ok")
	if code != 0 {
		panic("INFRA: write-tree: " + stderr)
	}
	root := strings.TrimSpace(out)
	trees := map[string]string{"": root}
	lt, stderr, code := gitWith(repo, tmp, nil, "ls-tree", "-r", "-t", "-z", root)
	if code != 0 {
		panic("INFRA: ls-tree: " + stderr)
	}
	for _, rec := range strings.Split(lt, "\x00") {
		if rec == "" {
			continue
		}
		tab := strings.IndexByte(rec, '\t')
		f := strings.Fields(rec[:tab])
		if f[1] == "tree" {
			trees[rec[tab+1:]] = f[2]
		}
	}
	for _, n := range valid {
		cnt := 0
		for _, e := range ents {
			if n.Full == "" || strings.HasPrefix(e.Name, n.Full+"/") {
				cnt++
			}
		}
		if trees[n.Full] != n.Hash || cnt != n.Entries {
			panic(fmt.Sprintf("INFRA: cache-tree oracle inconsistent at %q: file says {%d %s}, git write-tree says {%d %s}", n.Full, n.Entries, n.Hash, cnt, trees[n.Full]))
		}
	}
}

func checkD(c DCase) evid.Result {
	res := evid.Result{}
	lab := map[string]bool{}
	base := scratchDir()
	defer os.RemoveAll(base)
	repo := filepath.Join(base, "r")
	format := "sha1"
	if c.SHA256 {
		format = "sha256"
		lab["sha256"] = true
	}
	gitx.Init(repo, false, format)
	var cfg strings.Builder
	cfg.WriteString("[index]\n\tsparse = false\n")
	if c.Ver >= 2 && c.Ver <= 4 {
		fmt.Fprintf(&cfg, "\tversion = %d\n", c.Ver)
	}
	if c.EOIE {
		cfg.WriteString("\trecordEndOfIndexEntries = true\n\trecordOffsetTable = true\n\tthreads = 2\n")
	}
	f, err := os.OpenFile(filepath.Join(repo, ".git", "config"), os.O_APPEND|os.O_WRONLY, 0o644)
	if err != nil {
		panic("INFRA: " + err.Error())
	}
	f.WriteString(cfg.String())
	f.Close()
	r := &drepo{dir: repo, s256: c.SHA256}
	var in bytes.Buffer
	for i := 0; i < 6; i++ {
		p := filepath.Join(base, fmt.Sprintf("blob%d", i))
		os.WriteFile(p, []byte(fmt.Sprintf("blob %d\n", i)), 0o644)
		in.WriteString(p + "\n")
	}
	r.blobs = strings.Fields(gitx.MustIn(repo, in.Bytes(), "hash-object", "-w", "--stdin-paths"))
	if len(r.blobs) != 6 {
		panic("INFRA: hash-object")
	}

	idxFile := filepath.Join(repo, ".git", "index")
	var last []byte
	compared := 0
	nontrivial := false
	finish := func(fail *evid.Failure) evid.Result {
		res.Fail = fail
		res.NonTrivial = nontrivial
		lab[fmt.Sprintf("indexes-compared:%d", min(compared, 8)/2*2)] = true
		if r.usage > 0 {
			lab["step-usage-error"] = true
		}
		if r.crashed > 0 {
			lab["step-git-crashed"] = true
		}
		for k, v := range lab {
			if v {
				res.Labels = append(res.Labels, k)
			}
		}
		sort.Strings(res.Labels)
		return res
	}
	for _, op := range c.Ops {
		r.apply(op)
		b, err := os.ReadFile(idxFile)
		if err != nil || bytes.Equal(b, last) {
			continue
		}
		last = b
		compared++
		if fail := compareDecoded(r, idxFile, b, c.SHA256, c.KnownREUC, lab, &nontrivial); fail != nil {
			return finish(fail)
		}
	}
	if last == nil {
		lab["no-index-written"] = true
		return finish(nil)
	}
	// skipped checksum: git >= 2.40 with index.skipHash writes a null trailing hash
	if c.ZeroSum {
		hs := 20
		if c.SHA256 {
			hs = 32
		}
		z := append([]byte{}, last...)
		copy(z[len(z)-hs:], make([]byte, hs))
		zf := filepath.Join(base, "zero-index")
		os.WriteFile(zf, z, 0o644)
		lab["null-checksum"] = true
		want, stderr, code := gitListing(repo, zf)
		if code != 0 {
			panic("INFRA: git refuses the null-checksum index: " + stderr)
		}
		for _, opts := range [][]index.Option{nil, {index.WithSkipHash()}} {
			idx, err := goDecode(z, c.SHA256, opts...)
			if err != nil {
				return finish(evid.Failf("C12/Decode-rejects-null-checksum", "index with a null trailing hash (index.skipHash) rejected (WithSkipHash=%v): %v", opts != nil, err))
			}
			var got []nEntry
			for _, e := range idx.Entries {
				got = append(got, normGo(e))
			}
			if f, i := firstDiff(got, want); f != "" {
				return finish(evid.Failf("C12/Decode-null-checksum-entries-differ:"+f, "null-checksum index, entry %d field %s: go-git %s, git %s", i, f, at(got, i), at(want, i)))
			}
		}
	}
	// git -> go-git -> git: what go-git re-encodes from a decoded git index is listed identically by git
	idx, err := goDecode(last, c.SHA256)
	if err == nil {
		want, _, _ := gitListing(repo, idxFile)
		var buf bytes.Buffer
		if err := index.NewEncoder(&buf, newHash(c.SHA256)).Encode(idx); err != nil {
			return finish(evid.Failf("C12/Encode-rejects-decoded-git-index", "re-encoding a decoded git index (v%d): %v", idx.Version, err))
		}
		rf := filepath.Join(base, "reencoded-index")
		os.WriteFile(rf, buf.Bytes(), 0o644)
		got, stderr, code := gitListing(repo, rf)
		if code != 0 || strings.TrimSpace(stderr) != "" {
			return finish(evid.Failf(fmt.Sprintf("C12/Reencode-git-rejects:v%d", idx.Version), "git cannot read go-git's re-encoding of its own index (v%d): exit %d: %s", idx.Version, code, stderr))
		}
		if f, i := firstDiff(got, want); f != "" {
			return finish(evid.Failf(fmt.Sprintf("C12/Reencode-entries-differ:%s:v%d", f, idx.Version), "after decode+encode, entry %d field %s: git lists %s, originally %s", i, f, at(got, i), at(want, i)))
		}
		lab["reencoded"] = true
	}
	return finish(nil)
}

func TestC12Decode(t *testing.T) {
	evid.Run(t, evid.Spec[DCase]{ID: "C12", Gen: genD, Check: checkD})
}

// ---------------------------------------------------------------------------
// Direction B: in-memory indexes written by go-git, read by git and by go-git

var compTable = []string{"a", "b", "ab", "a.b", "a-b", "d", "e", "é", "x y", "\xff\xfe", "n\nl", "t\tb", "\"q\"", "-x", "\\", "a0", "a/", "zz", strings.Repeat("L", 300)}

// EEntry is one generated index entry. The name is Comps joined by "/",
// optionally extended by a run of 'p' to exactly PadTo bytes, then Tail.
type EEntry struct {
	Comps                    []int
	PadTo                    int
	Tail                     int
	Mode                     int
	Stage                    int
	Skip, ITA                bool
	ZeroTimes                bool
	CSec, CNsec, MSec, MNsec uint32
	Dev, Ino, UID, GID, Size uint32
	HashSeed                 int
}

// ECase is one in-memory index.
type ECase struct {
	SHA256   bool
	Ver      int
	SkipHash bool
	Entries  []EEntry
}

func (e EEntry) name() string {
	var parts []string
	for _, c := range e.Comps {
		s := compTable[((c%len(compTable))+len(compTable))%len(compTable)]
		parts = append(parts, strings.TrimSuffix(s, "/"))
	}
	n := strings.Join(parts, "/")
	tail := []string{"", "q", "r/s", "~"}[((e.Tail%4)+4)%4]
	if e.PadTo > len(n)+1+len(tail) {
		n += "/" + strings.Repeat("p", e.PadTo-len(n)-1-len(tail))
	} else if tail != "" {
		n += "/"
	}
	return n + tail
}

var modes = []filemode.FileMode{filemode.Regular, filemode.Executable, filemode.Symlink, filemode.Submodule}

func genU32(t *rapid.T, label string) uint32 {
	switch rapid.IntRange(0, 5).Draw(t, label+"-class") {
	case 0:
		return 0
	case 1:
		return uint32(rapid.IntRange(1, 1000).Draw(t, label))
	case 2:
		return uint32(rapid.Uint32Range(1<<31-2, 1<<31+2).Draw(t, label))
	case 3:
		return uint32(rapid.Uint32Range(1<<32-3, 1<<32-1).Draw(t, label))
	default:
		return rapid.Uint32().Draw(t, label)
	}
}

func genE(t *rapid.T, _ *evid.Recorder) ECase {
	c := ECase{
		SHA256:   rapid.IntRange(0, 4).Draw(t, "sha256") == 0,
		Ver:      rapid.SampledFrom([]int{2, 3, 4, 4}).Draw(t, "ver"),
		SkipHash: rapid.IntRange(0, 5).Draw(t, "skiphash") == 0,
	}
	// A path is drawn once and carries either one merged entry or the stage
	// entries of an unmerged path: a non-empty subset of {1,2,3} in an arbitrary
	// order (the encoder is handed whatever order its caller appended in).
	n := rapid.IntRange(0, 10).Draw(t, "n")
	for i := 0; i < n; i++ {
		p := EEntry{
			Comps: rapid.SliceOfN(rapid.IntRange(0, len(compTable)-1), 1, 4).Draw(t, "comps"),
			Tail:  rapid.IntRange(0, 3).Draw(t, "tail"),
		}
		switch rapid.IntRange(0, 11).Draw(t, "len-class") {
		case 0:
			p.PadTo = rapid.IntRange(4090, 4100).Draw(t, "padto")
		case 1:
			p.PadTo = rapid.SampledFrom([]int{4094, 4095, 4096}).Draw(t, "padto")
		case 2:
			p.PadTo = rapid.IntRange(4101, 6000).Draw(t, "padto")
		case 3:
			p.PadTo = rapid.SampledFrom([]int{120, 127, 128, 129, 300, 16510, 16511, 16512, 20000}).Draw(t, "padto")
		}
		stages := []int{0}
		if rapid.IntRange(0, 2).Draw(t, "staged") == 0 {
			perm := rapid.Permutation([]int{1, 2, 3}).Draw(t, "stage-order")
			stages = perm[:rapid.SampledFrom([]int{1, 2, 2, 3, 3}).Draw(t, "nstages")]
		}
		for _, st := range stages {
			e := p
			e.Comps = append([]int(nil), p.Comps...)
			e.Stage = st
			e.Mode = rapid.IntRange(0, len(modes)-1).Draw(t, "mode")
			if rapid.IntRange(0, 2).Draw(t, "ext") == 0 {
				e.Skip = rapid.Bool().Draw(t, "skip")
				e.ITA = rapid.Bool().Draw(t, "ita")
			}
			e.ZeroTimes = rapid.IntRange(0, 7).Draw(t, "zerotimes") == 0
			e.CSec, e.MSec = genU32(t, "csec"), genU32(t, "msec")
			e.CNsec = uint32(rapid.IntRange(0, 999999999).Draw(t, "cnsec"))
			e.MNsec = uint32(rapid.SampledFrom([]int{0, 1, 999999999, 123456789}).Draw(t, "mnsec"))
			e.Dev, e.Ino, e.UID, e.GID, e.Size = genU32(t, "dev"), genU32(t, "ino"), genU32(t, "uid"), genU32(t, "gid"), genU32(t, "size")
			e.HashSeed = rapid.IntRange(0, 5).Draw(t, "hash")
			c.Entries = append(c.Entries, e)
		}
	}
	// Order in which the caller's slice holds the entries (the case lists them
	// in exactly that order; checkE does not rearrange anything):
	//   as-drawn      paths in random order, the stages of a path adjacent
	//   shuffled      every entry anywhere
	//   by-name       names non-decreasing, the stages of a path in the order drawn
	//   by-name-desc  names non-decreasing, the stages of a path descending
	//   sorted        (name, stage) ascending, what a decoded index looks like
	//   reversed      (name, stage) descending
	byName := func(stage func(a, b int) bool) {
		sort.SliceStable(c.Entries, func(i, j int) bool {
			a, b := c.Entries[i].name(), c.Entries[j].name()
			if a != b {
				return a < b
			}
			return stage != nil && stage(c.Entries[i].Stage, c.Entries[j].Stage)
		})
	}
	switch rapid.SampledFrom([]string{"as-drawn", "as-drawn", "shuffled", "shuffled", "by-name", "by-name", "by-name", "by-name-desc", "sorted", "reversed"}).Draw(t, "arrange") {
	case "shuffled":
		if len(c.Entries) > 1 {
			c.Entries = rapid.Permutation(c.Entries).Draw(t, "shuffle")
		}
	case "by-name":
		byName(nil)
	case "by-name-desc":
		byName(func(a, b int) bool { return a > b })
	case "sorted":
		byName(func(a, b int) bool { return a < b })
	case "reversed":
		byName(func(a, b int) bool { return a < b })
		for i, j := 0, len(c.Entries)-1; i < j; i, j = i+1, j-1 {
			c.Entries[i], c.Entries[j] = c.Entries[j], c.Entries[i]
		}
	}
	return c
}

func checkE(c ECase) evid.Result {
	res := evid.Result{}
	lab := map[string]bool{}
	if c.Ver < 2 || c.Ver > 4 {
		res.Discard = true
		return res
	}
	hs := 20
	if c.SHA256 {
		hs = 32
		lab["sha256"] = true
	}
	// build the index; keep only entries that can coexist in an index git accepts:
	// unique (name, stage); a name has either stage 0 or stages 1..3
	idx := &index.Index{Version: uint32(c.Ver)}
	var want []nEntry
	kind := map[string]int{} // name -> 1 merged, 2 unmerged
	seen := map[string]bool{}
	for _, g := range c.Entries {
		name := g.name()
		st := ((g.Stage % 4) + 4) % 4
		k := 1
		if st > 0 {
			k = 2
		}
		key := fmt.Sprintf("%s\x00%d", name, st)
		if name == "" || seen[key] || (kind[name] != 0 && kind[name] != k) {
			lab["dropped-colliding-entry"] = true
			continue
		}
		seen[key], kind[name] = true, k
		sum := sha256.Sum256([]byte(fmt.Sprintf("h%d", g.HashSeed)))
		id, ok := plumbing.FromBytes(sum[:hs])
		if !ok {
			panic("INFRA: FromBytes")
		}
		e := &index.Entry{Name: name, Hash: id, Mode: modes[((g.Mode%len(modes))+len(modes))%len(modes)], Stage: index.Stage(st),
			SkipWorktree: g.Skip, IntentToAdd: g.ITA, Dev: g.Dev, Inode: g.Ino, UID: g.UID, GID: g.GID, Size: g.Size}
		if !g.ZeroTimes {
			e.CreatedAt = time.Unix(int64(g.CSec), int64(g.CNsec%1000000000))
			e.ModifiedAt = time.Unix(int64(g.MSec), int64(g.MNsec%1000000000))
		} else {
			lab["zero-time"] = true
		}
		idx.Entries = append(idx.Entries, e)
		want = append(want, normGo(e))
	}
	// how the caller's slice is ordered before the encoder sees it
	if len(want) > 1 {
		namesSorted, stagesSorted := true, true
		for i := 1; i < len(want); i++ {
			switch a, b := want[i-1], want[i]; {
			case a.Name > b.Name:
				namesSorted = false
			case a.Name == b.Name && a.Stage > b.Stage:
				stagesSorted = false
			}
		}
		stagesAsc := map[string]int{}
		for _, e := range want { // same question independent of adjacency
			if last, ok := stagesAsc[e.Name]; ok && last > e.Stage {
				lab["unmerged-path-stages-not-ascending"] = true
			}
			stagesAsc[e.Name] = e.Stage
		}
		switch {
		case namesSorted && stagesSorted:
			lab["order:presorted"] = true
		case namesSorted:
			lab["order:names-presorted-stages-not"] = true
		default:
			lab["order:names-unsorted"] = true
		}
	}
	sort.SliceStable(want, func(i, j int) bool {
		if want[i].Name != want[j].Name {
			return want[i].Name < want[j].Name
		}
		return want[i].Stage < want[j].Stage
	})
	res.NonTrivial = features(want, uint32(c.Ver), lab)
	extUnderV2 := false
	maxStrip := 0
	for i, e := range want {
		if c.Ver == 2 && (e.ITA || e.Skip) {
			extUnderV2 = true
		}
		if i > 0 {
			p := 0
			for p < len(e.Name) && p < len(want[i-1].Name) && e.Name[p] == want[i-1].Name[p] {
				p++
			}
			maxStrip = max(maxStrip, len(want[i-1].Name)-p)
			if p >= 0xfff {
				lab["shared-prefix>=0xFFF"] = true
			}
		}
	}
	if extUnderV2 {
		lab["extended-flag-under-v2-header"] = true
	}
	if c.Ver == 4 {
		switch {
		case maxStrip >= 16512:
			lab["v4-strip-varint-3-bytes"] = true
		case maxStrip >= 128:
			lab["v4-strip-varint-2-bytes"] = true
		}
	}
	finish := func(fail *evid.Failure) evid.Result {
		res.Fail = fail
		for k, v := range lab {
			if v {
				res.Labels = append(res.Labels, k)
			}
		}
		sort.Strings(res.Labels)
		return res
	}
	suffix := fmt.Sprintf(":v%d", c.Ver)

	var opts []index.Option
	if c.SkipHash {
		opts = append(opts, index.WithSkipHash())
		lab["WithSkipHash"] = true
	}
	var buf bytes.Buffer
	if err := index.NewEncoder(&buf, newHash(c.SHA256), opts...).Encode(idx); err != nil {
		return finish(evid.Failf("C12/Encode-error"+suffix, "Encode of a valid in-memory index (v%d, %d entries) failed: %v", c.Ver, len(want), err))
	}
	b := buf.Bytes()

	// git reads it
	base := scratchDir()
	defer os.RemoveAll(base)
	repo := filepath.Join(base, "r")
	format := "sha1"
	if c.SHA256 {
		format = "sha256"
	}
	bareBones(repo, format)
	idxFile := filepath.Join(repo, ".git", "index")
	if err := os.WriteFile(idxFile, b, 0o644); err != nil {
		panic("INFRA: " + err.Error())
	}
	got, stderr, code := gitListing(repo, idxFile)
	if code != 0 || strings.TrimSpace(stderr) != "" {
		s := "C12/Encode-git-rejects" + suffix
		if extUnderV2 {
			s += ":extended-flags"
		}
		return finish(evid.Failf(s, "git ls-files on go-git's index (v%d, %d entries): exit %d: %s", c.Ver, len(want), code, stderr))
	}
	if i := orderOnlyDiff(got, want); i >= 0 {
		return finish(evid.Failf("C12/Encode-git-lists-in-different-order"+suffix, "git lists the encoded entries, but not in (name, stage) order: position %d is %s, expected %s (%d entries)", i, at(got, i), at(want, i), len(want)))
	}
	if f, i := firstDiff(got, want); f != "" {
		return finish(evid.Failf("C12/Encode-git-lists-differently:"+f+suffix, "entry %d field %s: git lists %s, encoded %s (counts %d/%d)", i, f, at(got, i), at(want, i), len(got), len(want)))
	}
	// structure and checksum, as any reader of the documented format sees them
	ri, err := parseRef(b, c.SHA256)
	if err != nil {
		return finish(evid.Failf("C12/Encode-malformed-file"+suffix, "go-git wrote a file the format reference reader cannot walk: %v", err))
	}
	if c.SkipHash && !ri.ZeroSum {
		return finish(evid.Failf("C12/Encode-skiphash-trailer", "WithSkipHash: trailing hash is not null"))
	}
	if !c.SkipHash && !ri.SumOK {
		return finish(evid.Failf("C12/Encode-bad-checksum"+suffix, "trailing hash does not cover the content"))
	}

	// git refreshes (reads, stats, rewrites) it without complaint
	if !c.SkipHash {
		_, stderr, code = gitWith(repo, idxFile, nil, "update-index", "-q", "--refresh")
		low := strings.ToLower(stderr)
		if code > 1 || strings.Contains(low, "fatal") || strings.Contains(low, "corrupt") || strings.Contains(low, "bad ") || strings.Contains(low, "error:") {
			return finish(evid.Failf("C12/Encode-git-refresh-complains"+suffix, "git update-index --refresh on go-git's index: exit %d: %s", code, stderr))
		}
	}

	// go-git reads it back
	for _, dopts := range [][]index.Option{nil, {index.WithSkipHash()}} {
		back, err := goDecode(b, c.SHA256, dopts...)
		if err != nil {
			return finish(evid.Failf("C12/Roundtrip-decode-error"+suffix, "Decode(Encode(x)) failed (WithSkipHash=%v): %v", dopts != nil, err))
		}
		if back.Version != uint32(c.Ver) {
			return finish(evid.Failf("C12/Roundtrip-version", "version %d came back as %d", c.Ver, back.Version))
		}
		var rt []nEntry
		for _, e := range back.Entries {
			rt = append(rt, normGo(e))
		}
		if i := orderOnlyDiff(rt, want); i >= 0 {
			return finish(evid.Failf("C12/Roundtrip-order-differs"+suffix, "Decode(Encode(x)) holds the encoded entries, but not in (name, stage) order: position %d is %s, expected %s", i, at(rt, i), at(want, i)))
		}
		if f, i := firstDiff(rt, want); f != "" {
			return finish(evid.Failf("C12/Roundtrip-differs:"+f+suffix, "Decode(Encode(x)) entry %d field %s: got %s, encoded %s", i, f, at(rt, i), at(want, i)))
		}
	}
	return finish(nil)
}

func TestC12Encode(t *testing.T) {
	evid.Run(t, evid.Spec[ECase]{ID: "C12", Gen: genE, Check: checkE})
}

// bareBones lays out the minimum git recognises as a repository (what
// `git init --template=` creates, without spawning a process).
func bareBones(repo, format string) {
	gd := filepath.Join(repo, ".git")
	for _, d := range []string{"objects/info", "objects/pack", "refs/heads", "refs/tags"} {
		if err := os.MkdirAll(filepath.Join(gd, d), 0o755); err != nil {
			panic("INFRA: " + err.Error())
		}
	}
	cfg := "[core]\n\trepositoryformatversion = 0\n\tfilemode = true\n\tbare = false\n"
	if format == "sha256" {
		cfg = "[core]\n\trepositoryformatversion = 1\n\tfilemode = true\n\tbare = false\n[extensions]\n\tobjectformat = sha256\n"
	}
	os.WriteFile(filepath.Join(gd, "config"), []byte(cfg), 0o644)
	os.WriteFile(filepath.Join(gd, "HEAD"), []byte("ref: refs/heads/main\n"), 0o644)
}
