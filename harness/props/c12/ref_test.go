package c12

// Independent reference reader of the index file layout (Documentation/gitformat-index.txt)
// used to locate extensions, and parsers for the output of `git ls-files`.

import (
	"bytes"
	"crypto/sha1"
	"crypto/sha256"
	"encoding/binary"
	"encoding/hex"
	"fmt"
	"hash"
	"os"
	"strconv"
	"strings"
)

type refExt struct {
	Sig  string
	Data []byte
	Off  int // offset of the 4-byte signature in the file
}

type refTreeNode struct {
	Full    string // full path ("" = root), no trailing slash
	Path    string
	Entries int
	Trees   int
	Hash    string // hex, "" when invalidated
}

type refIndex struct {
	Version    uint32
	N          uint32
	Names      []string
	EntriesEnd int
	Exts       []refExt
	Trailer    []byte
	SumOK      bool
	ZeroSum    bool
}

func newHash(sha256fmt bool) hash.Hash {
	if sha256fmt {
		return sha256.New()
	}
	return sha1.New()
}

// parseRef walks the file. Any structural surprise is an error (reported by the
// caller as INFRA: the file came from git).
func parseRef(b []byte, sha256fmt bool) (*refIndex, error) {
	hs := 20
	if sha256fmt {
		hs = 32
	}
	if len(b) < 12+hs || string(b[:4]) != "DIRC" {
		return nil, fmt.Errorf("short or bad signature")
	}
	ri := &refIndex{Version: binary.BigEndian.Uint32(b[4:8]), N: binary.BigEndian.Uint32(b[8:12])}
	pos := 12
	end := len(b) - hs
	prev := ""
	for i := uint32(0); i < ri.N; i++ {
		start := pos
		if pos+40+hs+2 > end {
			return nil, fmt.Errorf("entry %d truncated", i)
		}
		pos += 40 + hs
		flags := binary.BigEndian.Uint16(b[pos:])
		pos += 2
		if flags&0x4000 != 0 {
			pos += 2
		}
		var name string
		if ri.Version == 4 {
			// offset-style varint
			c := b[pos]
			pos++
			val := int(c & 127)
			for c&128 != 0 {
				val++
				c = b[pos]
				pos++
				val = (val << 7) + int(c&127)
			}
			if val > len(prev) {
				return nil, fmt.Errorf("entry %d: strip %d > %d", i, val, len(prev))
			}
			z := bytes.IndexByte(b[pos:end], 0)
			if z < 0 {
				return nil, fmt.Errorf("entry %d: unterminated name", i)
			}
			name = prev[:len(prev)-val] + string(b[pos:pos+z])
			pos += z + 1
		} else {
			nl := int(flags & 0xfff)
			if nl == 0xfff {
				z := bytes.IndexByte(b[pos:end], 0)
				if z < 0 {
					return nil, fmt.Errorf("entry %d: unterminated long name", i)
				}
				nl = z
			}
			if pos+nl > end {
				return nil, fmt.Errorf("entry %d: name truncated", i)
			}
			name = string(b[pos : pos+nl])
			fixed := pos - start
			pos = start + ((fixed + nl + 8) &^ 7)
		}
		prev = name
		ri.Names = append(ri.Names, name)
	}
	ri.EntriesEnd = pos
	for pos+8 <= end {
		sig := string(b[pos : pos+4])
		sz := int(binary.BigEndian.Uint32(b[pos+4:]))
		if pos+8+sz > end {
			return nil, fmt.Errorf("extension %q overruns the file", sig)
		}
		ri.Exts = append(ri.Exts, refExt{Sig: sig, Data: b[pos+8 : pos+8+sz], Off: pos})
		pos += 8 + sz
	}
	if pos != end {
		return nil, fmt.Errorf("%d stray bytes before the trailer", end-pos)
	}
	ri.Trailer = b[end:]
	h := newHash(sha256fmt)
	h.Write(b[:end])
	ri.SumOK = bytes.Equal(h.Sum(nil), ri.Trailer)
	ri.ZeroSum = bytes.Equal(ri.Trailer, make([]byte, hs))
	return ri, nil
}

func (ri *refIndex) ext(sig string) *refExt {
	for i := range ri.Exts {
		if ri.Exts[i].Sig == sig {
			return &ri.Exts[i]
		}
	}
	return nil
}

func (ri *refIndex) extSigs() string {
	var s []string
	for _, e := range ri.Exts {
		s = append(s, e.Sig)
	}
	return strings.Join(s, "+")
}

// parseRefTree reads a TREE extension into pre-order nodes with full paths.
func parseRefTree(d []byte, hs int) ([]refTreeNode, error) {
	var out []refTreeNode
	pos := 0
	var rec func(parent string, root bool) error
	rec = func(parent string, root bool) error {
		z := bytes.IndexByte(d[pos:], 0)
		if z < 0 {
			return fmt.Errorf("TREE: no NUL")
		}
		n := refTreeNode{Path: string(d[pos : pos+z])}
		pos += z + 1
		sp := bytes.IndexByte(d[pos:], ' ')
		if sp < 0 {
			return fmt.Errorf("TREE: no space")
		}
		var err error
		if n.Entries, err = strconv.Atoi(string(d[pos : pos+sp])); err != nil {
			return err
		}
		pos += sp + 1
		nl := bytes.IndexByte(d[pos:], '\n')
		if nl < 0 {
			return fmt.Errorf("TREE: no newline")
		}
		if n.Trees, err = strconv.Atoi(string(d[pos : pos+nl])); err != nil {
			return err
		}
		pos += nl + 1
		if n.Entries >= 0 {
			if pos+hs > len(d) {
				return fmt.Errorf("TREE: hash truncated")
			}
			n.Hash = hex.EncodeToString(d[pos : pos+hs])
			pos += hs
		}
		switch {
		case root:
			n.Full = ""
		case parent == "":
			n.Full = n.Path
		default:
			n.Full = parent + "/" + n.Path
		}
		out = append(out, n)
		for i := 0; i < n.Trees; i++ {
			if err := rec(n.Full, false); err != nil {
				return err
			}
		}
		return nil
	}
	if len(d) == 0 {
		return nil, nil
	}
	if err := rec("", true); err != nil {
		return nil, err
	}
	if pos != len(d) {
		return nil, fmt.Errorf("TREE: %d stray bytes", len(d)-pos)
	}
	return out, nil
}

// gitEntry is one record of `git ls-files --stage --debug -z`.
type gitEntry struct {
	Name                     string
	Mode                     uint32
	Hash                     string
	Stage                    int
	CSec, CNsec, MSec, MNsec uint32
	Dev, Ino, UID, GID, Size uint32
	Flags                    uint32
}

func (g gitEntry) ita() bool  { return g.Flags&(1<<29) != 0 }
func (g gitEntry) skip() bool { return g.Flags&(1<<30) != 0 }

func u32(s string) uint32 {
	v, err := strconv.ParseUint(s, 10, 32)
	if err != nil {
		panic("INFRA: ls-files --debug number " + strconv.Quote(s))
	}
	return uint32(v)
}

// parseDebugListing parses "mode hash stage\tname\0  ctime: s:n\n  mtime: s:n\n  dev: d\tino: i\n  uid: u\tgid: g\n  size: s\tflags: x\n".
func parseDebugListing(out string) []gitEntry {
	var res []gitEntry
	for len(out) > 0 {
		z := strings.IndexByte(out, 0)
		if z < 0 {
			panic("INFRA: ls-files --debug -z: no NUL in " + strconv.Quote(out))
		}
		head := out[:z]
		out = out[z+1:]
		tab := strings.IndexByte(head, '\t')
		f := strings.Fields(head[:tab])
		if tab < 0 || len(f) != 3 {
			panic("INFRA: ls-files --debug -z: bad head " + strconv.Quote(head))
		}
		var g gitEntry
		g.Name = head[tab+1:]
		m, err := strconv.ParseUint(f[0], 8, 32)
		if err != nil {
			panic("INFRA: mode " + f[0])
		}
		g.Mode = uint32(m)
		g.Hash = f[1]
		g.Stage, _ = strconv.Atoi(f[2])
		var lines [5]string
		for i := range lines {
			nl := strings.IndexByte(out, '\n')
			if nl < 0 {
				panic("INFRA: ls-files --debug -z: truncated debug block")
			}
			lines[i] = out[:nl]
			out = out[nl+1:]
		}
		two := func(line, k1, k2 string) (string, string) {
			line = strings.TrimPrefix(line, "  "+k1+": ")
			i := strings.Index(line, k2)
			if i < 0 {
				panic("INFRA: debug line " + strconv.Quote(line))
			}
			return strings.TrimSpace(line[:i]), strings.TrimSpace(line[i+len(k2):])
		}
		a, b := two(lines[0], "ctime", ":")
		g.CSec, g.CNsec = u32(a), u32(b)
		a, b = two(lines[1], "mtime", ":")
		g.MSec, g.MNsec = u32(a), u32(b)
		a, b = two(lines[2], "dev", "\tino: ")
		g.Dev, g.Ino = u32(a), u32(b)
		a, b = two(lines[3], "uid", "\tgid: ")
		g.UID, g.GID = u32(a), u32(b)
		a, b = two(lines[4], "size", "\tflags: ")
		g.Size = u32(a)
		fl, err := strconv.ParseUint(b, 16, 32)
		if err != nil {
			panic("INFRA: flags " + b)
		}
		g.Flags = uint32(fl)
		res = append(res, g)
	}
	return res
}

type stageRec struct {
	Path  string
	Stage int
	Hash  string
}

// parseStageListing parses "mode hash stage\tname\0" records (ls-files -s -z, --resolve-undo -z).
func parseStageListing(out string) []stageRec {
	var res []stageRec
	for _, rec := range strings.Split(out, "\x00") {
		if rec == "" {
			continue
		}
		tab := strings.IndexByte(rec, '\t')
		if tab < 0 {
			panic("INFRA: stage listing record " + strconv.Quote(rec))
		}
		f := strings.Fields(rec[:tab])
		if len(f) != 3 {
			panic("INFRA: stage listing record " + strconv.Quote(rec))
		}
		st, _ := strconv.Atoi(f[2])
		res = append(res, stageRec{Path: rec[tab+1:], Stage: st, Hash: f[1]})
	}
	return res
}

func scratchDir() string {
	base := os.Getenv("VERIF_SCRATCH")
	if base == "" {
		base = "/dev/shm"
	}
	d, err := os.MkdirTemp(base, "c12-")
	if err != nil {
		panic("INFRA: scratch: " + err.Error())
	}
	return d
}
