package c13

import (
	"strings"
	"testing"

	"github.com/go-git/go-git/v6/plumbing"
	"pgregory.net/rapid"

	"verif/harness/lib/evid"
	"verif/harness/lib/gitx"
)

// Case is one candidate reference name.
type Case struct {
	Name string
}

var alpha = []string{"a", "b", "/", ".", "..", "@", "{", "@{", "~", "^", ":", "?", "*", "[", "\\", " ", "\t", "\n", "\x7f", "\x01", "\x1f",
	"é", "\xff", ".lock", "lock", "-", "refs", "heads", "tags", "HEAD", "remotes", "x.y", "}", "]", "#", "%", "+", ",", ";", "=", "\"", "'", "|", "<", ">", "$", "&", "(", ")", "!"}

var realRefs = []string{"refs/heads/main", "refs/heads/feature/x", "refs/tags/v1.0", "refs/remotes/origin/HEAD", "refs/notes/commits", "refs/stash", "refs/pull/12/head", "HEAD", "FETCH_HEAD", "refs/heads/a.lock/b", "refs/heads/release-1.2"}

func gen(t *rapid.T, _ *evid.Recorder) Case {
	var sb strings.Builder
	switch rapid.IntRange(0, 3).Draw(t, "mode") {
	case 0: // free token soup
		n := rapid.IntRange(1, 7).Draw(t, "n")
		for i := 0; i < n; i++ {
			sb.WriteString(rapid.SampledFrom(alpha).Draw(t, "tok"))
		}
	case 1: // prefixed, component-wise
		sb.WriteString(rapid.SampledFrom([]string{"refs/heads/", "refs/tags/", "refs/", "refs/remotes/o/", "refs/heads", "x/"}).Draw(t, "pfx"))
		nc := rapid.IntRange(1, 4).Draw(t, "nc")
		for c := 0; c < nc; c++ {
			if c > 0 {
				sb.WriteString("/")
			}
			n := rapid.IntRange(0, 3).Draw(t, "n")
			for i := 0; i < n; i++ {
				sb.WriteString(rapid.SampledFrom(alpha).Draw(t, "tok"))
			}
		}
	case 2: // mutate a real ref name
		b := []byte(rapid.SampledFrom(realRefs).Draw(t, "real"))
		nm := rapid.IntRange(0, 3).Draw(t, "nm")
		for i := 0; i < nm; i++ {
			pos := rapid.IntRange(0, len(b)).Draw(t, "pos")
			tok := rapid.SampledFrom(alpha).Draw(t, "tok")
			if rapid.Bool().Draw(t, "replace") && pos < len(b) {
				b = append(b[:pos:pos], append([]byte(tok), b[pos+1:]...)...)
			} else {
				b = append(b[:pos:pos], append([]byte(tok), b[pos:]...)...)
			}
		}
		sb.Write(b)
	case 3: // arbitrary bytes from a small rich alphabet
		bs := rapid.SliceOfN(rapid.SampledFrom([]byte("ab/.@{~^:?*[\\ -\x01\x7f\xc3\xa9lock")), 1, 24).Draw(t, "bytes")
		if rapid.Bool().Draw(t, "pfx") {
			sb.WriteString("refs/heads/")
		}
		sb.Write(bs)
	}
	return Case{Name: sb.String()}
}

func special(name string) bool {
	return strings.ContainsAny(name, ".@{~^:?*[\\ \t\n\x7f\x01\x1f-") || strings.Count(name, "/") >= 2
}

func check(c Case) evid.Result {
	name := c.Name
	res := evid.Result{Key: name}
	// out of domain: cannot cross a process boundary / parsed as an option by the git CLI
	if name == "" || strings.ContainsRune(name, 0) || strings.HasPrefix(name, "-") {
		res.Discard = true
		return res
	}
	res.NonTrivial = special(name)
	_, _, code := gitx.Try("", "check-ref-format", name)
	gitOK := code == 0
	if code != 0 && code != 1 {
		panic("INFRA: check-ref-format exit code unexpected")
	}
	goOK := plumbing.ReferenceName(name).Validate() == nil
	parts := strings.Split(name, "/")
	dash := (strings.HasPrefix(name, "refs/heads/") || strings.HasPrefix(name, "refs/tags/")) && len(parts) > 2 && strings.HasPrefix(parts[2], "-")
	expect := gitOK && !dash
	if name == "HEAD" { // accepted by both go-git and check-ref-format --allow-onelevel
		expect = true
	}
	if gitOK {
		res.Labels = append(res.Labels, "git-accepts")
	} else {
		res.Labels = append(res.Labels, "git-rejects")
	}
	if dash {
		res.Labels = append(res.Labels, "leading-dash-rule")
	}
	if expect != goOK {
		res.Fail = evid.Failf(sig(name, gitOK, goOK), "name %q: git check-ref-format accepts=%v, expected Validate accept=%v, got %v", name, gitOK, expect, goOK)
	}
	return res
}

// sig classifies a divergence narrowly: the '@'-component class is recognised
// only when replacing every "@" component by "x" makes go-git agree with git.
func sig(name string, gitOK, goOK bool) string {
	if gitOK && !goOK {
		parts := strings.Split(name, "/")
		has := false
		for i, p := range parts {
			if p == "@" {
				parts[i] = "x"
				has = true
			}
		}
		if has && plumbing.ReferenceName(strings.Join(parts, "/")).Validate() == nil {
			return "C13/Validate-rejects-component-equal-@"
		}
		return "C13/Validate-rejects-git-accepts"
	}
	return "C13/Validate-accepts-git-rejects"
}

func TestC13(t *testing.T) {
	evid.Run(t, evid.Spec[Case]{ID: "C13", Gen: gen, Check: check})
}
