// Package c14 decides C14: reference and reflog storage never touches a file
// outside refs/**, logs/**, packed-refs (and its temp file) or an all-caps
// top-level pseudo-ref slot, whatever the reference name, and also when
// directories or files below refs/ and logs/ are planted symbolic links.
package c14

import (
	"errors"
	"fmt"
	"os"
	"path/filepath"
	"sort"
	"strings"
	"syscall"
	"testing"
	"unicode/utf8"

	"github.com/go-git/go-git/v6/plumbing"
	"github.com/go-git/go-git/v6/plumbing/cache"
	"github.com/go-git/go-git/v6/plumbing/format/reflog"
	"github.com/go-git/go-git/v6/plumbing/storer"
	"github.com/go-git/go-git/v6/storage/filesystem"
	"github.com/go-git/go-git/v6/storage/filesystem/dotgit"
	"pgregory.net/rapid"

	"verif/harness/lib/evid"
)

// Plant is one symbolic link created below refs/ or logs/ before the run.
type Plant struct {
	Link   string // path relative to the gitdir
	Target string // link target; "$TOP" stands for the scratch directory that holds the gitdir
}

// Case is one hostile name, the planted links, and the operations run on it.
type Case struct {
	Name   string
	Target string // symbolic target used by "setsym"
	Plants []Plant
	Ops    []string
}

const (
	h1 = "1111111111111111111111111111111111111111"
	h2 = "2222222222222222222222222222222222222222"
	h3 = "3333333333333333333333333333333333333333"
	h4 = "4444444444444444444444444444444444444444"
)

var opKinds = []string{"set", "setsym", "cas", "casabsent", "get", "resolve", "remove", "iter", "pack", "count", "logappend", "logread", "logdel"}

var entryPoint = map[string]string{
	"set": "SetReference", "setsym": "SetReference", "cas": "CheckAndSetReference", "casabsent": "CheckAndSetReference",
	"get": "Reference", "resolve": "Reference", "remove": "RemoveReference", "iter": "IterReferences",
	"pack": "PackRefs", "count": "CountLooseRefs", "logappend": "AppendReflog", "logread": "Reflog", "logdel": "DeleteReflog",
}

// sentinel files of the scratch repository (relative to the gitdir) and above it.
var repoFiles = map[string]string{
	"HEAD":                 "ref: refs/heads/main\n",
	"config":               "[core]\n\trepositoryformatversion = 0\n\tbare = true\n",
	"index":                "DIRC-sentinel-index\n",
	"description":          h3 + "\n",
	"shallow-sentinel":     h3 + "\n",
	"hooks/post-receive":   h3 + "\n",
	"hooks/sub/x":          h3 + "\n",
	"info/exclude":         "# exclude\n",
	"objects/info/packs":   "\n",
	"objects/11/" + h1[2:]: "loose-object-sentinel",
	"objects/pack/keep":    "k",
	"modules/m/HEAD":       h3 + "\n",
	"refs/heads/main":      h1 + "\n",
	"refs/tags/v1":         h1 + "\n",
	"logs/HEAD":            h1 + " " + h1 + " A <a@b> 1700000000 +0000\tinit\n",
	"logs/refs/heads/main": h1 + " " + h1 + " A <a@b> 1700000000 +0000\tinit\n",
	"packed-refs":          "# pack-refs with: peeled fully-peeled sorted \n" + h4 + " refs/heads/packed\n",
}

var outsideFiles = map[string]string{
	"OUTSIDE":     h3 + "\n",
	"outdir/f":    h3 + "\n",
	"outdir/d/g":  h3 + "\n",
	"config":      "outside-config\n",
	"refs/heads/": "",
}

// ---------------------------------------------------------------- generator

var toks = []string{"refs", "heads", "tags", "/", "/", "..", ".", "a", "b", "config", "index", "objects", "info", "HEAD", "\\", ". ", ".. ", "...", ".. .",
	"\u200c", ".\u200c.", "\u200c..", "..\u200d", "\ufeff", "::$DATA", ":", "C:", "c:\\", "x\x01", "\x00", "\n", "\t", "\x7f", "logs", "packed-refs", "hooks",
	"post-receive", "LOWER_up", "FETCH_HEAD", "ORIG_HEAD", "main", "link", "refs/", "refs/heads/", "../", "..\\", "~1", "é", "\xff", ".lock", "@{", "*"}

var sentinels = []string{"config", "index", "hooks/post-receive", "objects/info/packs", "description", "HEAD", "packed-refs", "info/exclude", "modules/m/HEAD", "shallow-sentinel", "OUTSIDE", "outdir/f"}

// dotdot spellings: literal, NTFS (trailing space/dot, ADS), HFS (ignorable code points), backslash handled by sep.
var dotdots = []string{"..", "..", ".. ", ".. .", "...", "..::$INDEX_ALLOCATION", "..:x", ".\u200c.", "\u200c..", "..\u200d", "\ufeff.\u200e.", ". .", ".\u200c"}
var seps = []string{"/", "/", "/", "\\", "//", "/./"}
var realRefs = []string{"refs/heads/main", "refs/heads/feature/x", "refs/tags/v1", "refs/remotes/origin/HEAD", "refs/notes/commits", "refs/stash", "HEAD", "FETCH_HEAD", "ORIG_HEAD", "refs/heads/packed"}

// where links are planted: path below the gitdir, number of ".." needed to reach the gitdir from the link's directory
var linkLocs = []struct {
	p     string
	depth int
}{
	{"refs/heads/link", 2}, {"refs/link", 1}, {"refs/tags/link", 2}, {"refs/remotes/origin", 2}, {"refs/heads/d/link", 3},
	{"logs/refs/heads/link", 3}, {"logs/refs/link", 2}, {"logs/refs/remotes/origin", 3}, {"logs/refs/tags/link", 3}, {"logs/LINK", 1},
}
var dirTargets = []string{"hooks", "objects", "objects/info", "info", ".", "modules/m", "refs/tags", "logs/refs/heads", "$OUT/outdir", "$OUT"}
var fileTargets = []string{"config", "index", "hooks/post-receive", "description", "HEAD", "packed-refs", "objects/info/packs", "refs/heads/main", "$OUT/OUTSIDE", "$OUT/outdir/f", "missing-file"}
var suffixes = []string{"post-receive", "x", "new/y", "packs", "info/packs", "11/" + h1[2:], "sub/x", "f", "d/g", "config", "HEAD", "index", "m/HEAD", "exclude", "main", "heads/main", "v1", "OUTSIDE", "outdir/f"}

func genPlant(t *rapid.T) (Plant, string, bool) {
	loc := rapid.SampledFrom(linkLocs).Draw(t, "linkloc")
	isFile := rapid.IntRange(0, 3).Draw(t, "filelink") == 0
	var tgt string
	if isFile {
		tgt = rapid.SampledFrom(fileTargets).Draw(t, "ftarget")
	} else {
		tgt = rapid.SampledFrom(dirTargets).Draw(t, "dtarget")
	}
	abs := rapid.IntRange(0, 3).Draw(t, "abs") == 0
	var target string
	switch {
	case strings.HasPrefix(tgt, "$OUT"):
		rest := strings.TrimPrefix(strings.TrimPrefix(tgt, "$OUT"), "/")
		if abs {
			target = strings.TrimSuffix("$TOP/"+rest, "/")
		} else {
			target = strings.TrimSuffix(strings.Repeat("../", loc.depth+1)+rest, "/")
		}
	case abs:
		target = filepath.Join("$TOP/repo", tgt)
	default:
		target = strings.TrimSuffix(strings.Repeat("../", loc.depth)+tgt, "/")
		if tgt == "." {
			target = strings.TrimSuffix(strings.Repeat("../", loc.depth), "/")
		}
	}
	return Plant{Link: loc.p, Target: target}, strings.TrimPrefix(loc.p, "logs/"), isFile
}

func gen(t *rapid.T, _ *evid.Recorder) Case {
	var c Case
	np := rapid.SampledFrom([]int{0, 0, 1, 1, 1, 2}).Draw(t, "nplants")
	var viaNames []string
	for i := 0; i < np; i++ {
		p, refname, isFile := genPlant(t)
		dup := false
		for _, q := range c.Plants {
			if q.Link == p.Link || strings.HasPrefix(q.Link, p.Link+"/") || strings.HasPrefix(p.Link, q.Link+"/") {
				dup = true
			}
		}
		if dup {
			continue
		}
		c.Plants = append(c.Plants, p)
		if isFile {
			viaNames = append(viaNames, refname)
		} else {
			viaNames = append(viaNames, refname+"/"+rapid.SampledFrom(suffixes).Draw(t, "suffix"))
		}
	}
	c.Name = genName(t, viaNames, "name")
	if rapid.IntRange(0, 2).Draw(t, "hostiletarget") == 0 {
		c.Target = genName(t, viaNames, "target")
	} else {
		c.Target = rapid.SampledFrom(realRefs).Draw(t, "target")
	}
	n := rapid.IntRange(1, 7).Draw(t, "nops")
	for i := 0; i < n; i++ {
		c.Ops = append(c.Ops, rapid.SampledFrom(opKinds).Draw(t, "op"))
	}
	return c
}

func genName(t *rapid.T, via []string, label string) string {
	mode := rapid.SampledFrom([]int{0, 1, 1, 1, 2, 3, 4, 5, 6}).Draw(t, label+"-mode")
	if len(via) > 0 && rapid.IntRange(0, 3).Draw(t, label+"-via") != 0 {
		mode = 7
	}
	var sb strings.Builder
	switch mode {
	case 0: // token soup
		k := rapid.IntRange(1, 7).Draw(t, "k")
		for i := 0; i < k; i++ {
			sb.WriteString(rapid.SampledFrom(toks).Draw(t, "tok"))
		}
	case 1: // climb out of a ref prefix with (disguised) ".." components towards a sentinel
		pfx := rapid.SampledFrom([]string{"refs", "refs/heads", "refs/heads/a", "refs/tags", "HEAD", "ORIG_HEAD", "", "logs", "refs/remotes/o/x"}).Draw(t, "pfx")
		sb.WriteString(pfx)
		depth := 0
		if pfx != "" {
			depth = strings.Count(pfx, "/") + 1
		}
		// enough components to reach the gitdir from refs/<...> (ref file) or from logs/refs/<...> (reflog), or a free count
		k := depth + rapid.SampledFrom([]int{0, 0, 1, 1, 2}).Draw(t, "extra")
		if k == 0 || rapid.IntRange(0, 4).Draw(t, "freek") == 0 {
			k = rapid.IntRange(1, 5).Draw(t, "k")
		}
		one := ""
		if rapid.Bool().Draw(t, "uniform") {
			one = rapid.SampledFrom(dotdots).Draw(t, "dd")
		}
		sep := ""
		if rapid.IntRange(0, 2).Draw(t, "uniformsep") != 0 {
			sep = rapid.SampledFrom(seps).Draw(t, "sep")
		}
		pick := func() string {
			if sep != "" {
				return sep
			}
			return rapid.SampledFrom(seps).Draw(t, "sep")
		}
		for i := 0; i < k; i++ {
			if i > 0 || pfx != "" {
				sb.WriteString(pick())
			}
			if one != "" {
				sb.WriteString(one)
			} else {
				sb.WriteString(rapid.SampledFrom(dotdots).Draw(t, "dd"))
			}
		}
		sb.WriteString(pick())
		sb.WriteString(rapid.SampledFrom(sentinels).Draw(t, "sentinel"))
	case 2: // one-level and lowercase metadata names, absolute and drive-prefixed paths
		s := rapid.SampledFrom(sentinels).Draw(t, "sentinel")
		sb.WriteString(rapid.SampledFrom([]string{"", "", "/", "./", "//", "C:", "C:\\", "c:/", "\\", "\\\\?\\", "$TOP/", "$TOP/repo/", "objects/", "Refs/", "REFS/", "refs\\heads\\", "refs/../", "refs/heads/../../"}).Draw(t, "lead"))
		sb.WriteString(s)
	case 3: // mutate a real ref name
		b := []byte(rapid.SampledFrom(realRefs).Draw(t, "real"))
		nm := rapid.IntRange(0, 3).Draw(t, "nm")
		for i := 0; i < nm; i++ {
			pos := rapid.IntRange(0, len(b)).Draw(t, "pos")
			tok := rapid.SampledFrom(toks).Draw(t, "tok")
			if rapid.Bool().Draw(t, "replace") && pos < len(b) {
				b = append(b[:pos:pos], append([]byte(tok), b[pos+1:]...)...)
			} else {
				b = append(b[:pos:pos], append([]byte(tok), b[pos:]...)...)
			}
		}
		sb.Write(b)
	case 4: // pseudo-ref look-alikes
		sb.WriteString(rapid.SampledFrom([]string{"HEAD", "FETCH_HEAD", "CONFIG", "INDEX", "Config", "HEAd", "HEAD ", "HEAD.", "HEAD/x", "HEAD/../config", "A_B", "_", "MERGE_HEAD~1", "ORIG_HEAD.lock", "HEAD\x00x", "ÀB", "HEAD1", "config", "index", "packed-refs", "objects", "shallow", "hooks", "refs", "logs", "refs/", ""}).Draw(t, "pseudo"))
	case 5: // very long names
		comp := strings.Repeat(rapid.SampledFrom([]string{"a", "..", "é", "x/"}).Draw(t, "unit"), rapid.SampledFrom([]int{100, 255, 256, 300, 1100, 4200}).Draw(t, "len"))
		sb.WriteString(rapid.SampledFrom([]string{"refs/heads/", "", "refs/"}).Draw(t, "pfx") + comp)
	case 6: // plain valid names (the storage must stay inside the namespace for these too)
		sb.WriteString(rapid.SampledFrom(realRefs).Draw(t, "real"))
		if rapid.Bool().Draw(t, "nest") {
			sb.WriteString("/" + rapid.SampledFrom([]string{"x", "y/z", "main"}).Draw(t, "nestname"))
		}
	case 7: // through a planted link (constructed: random tokens almost never spell it)
		sb.WriteString(rapid.SampledFrom(via).Draw(t, "via"))
		if rapid.IntRange(0, 5).Draw(t, "extra") == 0 {
			sb.WriteString(rapid.SampledFrom(seps).Draw(t, "sep") + rapid.SampledFrom(dotdots).Draw(t, "dd") + "/" + rapid.SampledFrom(sentinels).Draw(t, "sentinel"))
		}
	}
	return sb.String()
}

// ------------------------------------------------------------------- oracle

func isPseudo(s string) bool {
	if s == "" {
		return false
	}
	for i := 0; i < len(s); i++ {
		if (s[i] < 'A' || s[i] > 'Z') && s[i] != '_' {
			return false
		}
	}
	return true
}

// allowedRel reports whether rel (clean, relative to the gitdir) lies in the
// part of the repository that reference and reflog storage may touch.
func allowedRel(rel string) bool {
	if rel == "" || rel == "." || strings.HasPrefix(rel, "../") || rel == ".." || strings.HasPrefix(rel, "/") {
		return false
	}
	parts := strings.Split(rel, "/")
	first := parts[0]
	switch {
	case first == "refs" || first == "logs":
		return true
	case len(parts) == 1 && (first == "packed-refs" || strings.HasPrefix(first, "._packed-refs")):
		return true
	case len(parts) == 1 && isPseudo(first):
		return true
	case first == ".tmp" && (len(parts) == 1 || len(parts) == 2 && strings.HasPrefix(parts[1], "._packed-refs")):
		// osfs.TempFile("", prefix) creates its files in <root>/.tmp: the temp file of packed-refs
		return true
	}
	return false
}

func physAllowed(root, phys string) bool {
	if phys == root {
		return false
	}
	if !strings.HasPrefix(phys, root+"/") {
		return false
	}
	return allowedRel(phys[len(root)+1:])
}

var hfsIgnored = map[rune]bool{0x200c: true, 0x200d: true, 0x200e: true, 0x200f: true, 0x202a: true, 0x202b: true, 0x202c: true, 0x202d: true, 0x202e: true,
	0x206a: true, 0x206b: true, 0x206c: true, 0x206d: true, 0x206e: true, 0x206f: true, 0xfeff: true}

// Folding follows git's own model of the two filesystems that alias names
// (path.c is_ntfs_dot_generic, utf8.c next_hfs_char / is_hfs_dot_generic):
// on NTFS '\\' separates components, an alternate-data-stream suffix ":x" and
// trailing spaces and periods are dropped, so ".." followed by any run of
// spaces/periods is ".." and "." followed by such a run (not starting with
// "..") is "."; on HFS+ the ignorable code points vanish. The two models are
// applied separately (they are different filesystems).
func foldNTFS(c string) string {
	if i := strings.IndexByte(c, ':'); i >= 0 {
		c = c[:i]
	}
	switch {
	case strings.HasPrefix(c, "..") && strings.Trim(c[2:], ". ") == "":
		return ".."
	case strings.HasPrefix(c, ".") && strings.Trim(c, ". ") == "":
		return "."
	}
	return c
}

func foldHFS(c string) string {
	if !utf8.ValidString(c) {
		return c
	}
	var sb strings.Builder
	for _, r := range c {
		if !hfsIgnored[r] {
			sb.WriteRune(r)
		}
	}
	return sb.String()
}

// foldedRel returns the clean gitdir-relative path that p can denote on NTFS
// (ntfs=true) or HFS+; ok=false when it is drive-prefixed or climbs above the
// gitdir.
func foldedRel(p string, ntfs bool) (string, bool) {
	s := p
	if ntfs {
		s = strings.ReplaceAll(p, "\\", "/")
		if len(s) >= 2 && s[1] == ':' && ((s[0] >= 'a' && s[0] <= 'z') || (s[0] >= 'A' && s[0] <= 'Z')) {
			return s, false
		}
	}
	var out []string
	for _, c := range strings.Split(s, "/") {
		if ntfs {
			c = foldNTFS(c)
		} else {
			c = foldHFS(c)
		}
		switch c {
		case "", ".":
		case "..":
			if len(out) == 0 {
				return s, false
			}
			out = out[:len(out)-1]
		default:
			out = append(out, c)
		}
	}
	return strings.Join(out, "/"), true
}

// foldsOutside reports whether p denotes something outside the namespace on
// either folding filesystem, and on which.
func foldsOutside(p string) (string, string) {
	if r, ok := foldedRel(p, true); !ok || !allowedRel(r) {
		return "ntfs", r
	}
	if r, ok := foldedRel(p, false); !ok || !allowedRel(r) {
		return "hfs", r
	}
	return "", ""
}

type violation struct {
	Entry, Class, Detail string
}

func (v violation) sig() string { return "C14/" + v.Entry + "/" + v.Class }

var statLike = map[string]bool{"Stat": true, "Lstat": true}

// judge classifies the filesystem calls recorded during one operation.
func judge(root, entry, name string, log []access, labels map[string]bool) []violation {
	var out []violation
	for _, a := range log {
		if a.Blocked {
			labels["fs-containment-refused-a-call"] = true
			continue
		}
		lex := filepath.Clean("/" + strings.TrimPrefix(a.Path, root))[1:]
		lexOK := allowedRel(lex)
		physOK := physAllowed(root, a.Phys)
		foldFS, frel := foldsOutside(strings.TrimPrefix(strings.TrimPrefix(a.Path, root), "/"))
		foldOK := foldFS == ""
		if lexOK && physOK && foldOK {
			continue
		}
		if statLike[a.Call] {
			// existence probes are not counted as reading a file; whenever the file
			// exists the access that follows is.
			labels["stat-outside-namespace"] = true
			continue
		}
		if a.Err != nil {
			// the call failed: no file was read, created, modified or removed by it (a partial
			// effect, e.g. parent directories, shows up in the snapshot comparison)
			labels["failed-call-outside-namespace"] = true
			continue
		}
		var class string
		switch {
		case !lexOK:
			class = "path-outside-namespace:" + nameShape(name)
		case !physOK:
			kind := "dir"
			for _, h := range a.Links {
				if !h.Dir {
					kind = "file"
				}
			}
			tree := "refs"
			if strings.HasPrefix(lex, "logs/") {
				tree = "logs"
			}
			class = "follows-planted-" + kind + "-symlink-under-" + tree
		default:
			class = "folds-outside-namespace-on-" + foldFS
		}
		out = append(out, violation{Entry: entry, Class: class,
			Detail: fmt.Sprintf("%s(%q) err=%v: physical path %q; on %s it denotes %q", a.Call, a.Path, a.Err, a.Phys, map[string]string{"": "ntfs/hfs", "ntfs": "NTFS", "hfs": "HFS+"}[foldFS], frel)})
	}
	return out
}

// nameShape names the trick a path uses, for signatures.
func nameShape(p string) string {
	switch {
	case strings.HasPrefix(p, "/"):
		return "absolute"
	case strings.Contains(p, "\\"):
		return "backslash"
	case hasComponent(p, ".."):
		return "dotdot"
	case func() bool { f, _ := foldsOutside(p); return f == "ntfs" }() && allowedRel(filepath.Clean(p)):
		return "ntfs-disguise"
	case func() bool { f, _ := foldsOutside(p); return f == "hfs" }() && allowedRel(filepath.Clean(p)):
		return "hfs-disguise"
	case !strings.Contains(p, "/"):
		return "one-level"
	case strings.HasPrefix(p, "refs/") || strings.HasPrefix(p, "logs/"):
		return "under-refs"
	}
	return "other-prefix"
}

func hasComponent(p, c string) bool {
	for _, x := range strings.Split(p, "/") {
		if x == c {
			return true
		}
	}
	return false
}

// snapshot maps every path below top to its type and (size, mtime, inode) or link target.
func snapshot(top string) map[string]string {
	m := map[string]string{}
	err := filepath.WalkDir(top, func(p string, d os.DirEntry, err error) error {
		if err != nil {
			return err
		}
		switch {
		case d.Type()&os.ModeSymlink != 0:
			t, _ := os.Readlink(p)
			m[p] = "l:" + t
		case d.IsDir():
			m[p] = "d"
		default:
			// size, mtime (ns on tmpfs) and inode change whenever the file is rewritten, truncated or replaced
			fi, err := d.Info()
			if err != nil {
				return err
			}
			ino := uint64(0)
			if st, ok := fi.Sys().(*syscall.Stat_t); ok {
				ino = st.Ino
			}
			m[p] = fmt.Sprintf("f:%d:%d:%d", fi.Size(), fi.ModTime().UnixNano(), ino)
		}
		return nil
	})
	if err != nil {
		panic("INFRA: snapshot: " + err.Error())
	}
	return m
}

func diffSnap(a, b map[string]string) []string {
	var out []string
	for p, v := range a {
		if w, ok := b[p]; !ok {
			out = append(out, "removed "+p)
		} else if w != v {
			out = append(out, "modified "+p)
		}
	}
	for p := range b {
		if _, ok := a[p]; !ok {
			out = append(out, "created "+p)
		}
	}
	sort.Strings(out)
	return out
}

func known() map[string]bool {
	m := map[string]bool{}
	for _, s := range strings.Split(os.Getenv("VERIF_KNOWN"), "\x1f") {
		if s != "" {
			m[s] = true
		}
	}
	return m
}

func writeTree(base string, files map[string]string) {
	// sorted: the creation order decides the directory order that ReadDir (unsorted in osfs) reports
	keys := make([]string, 0, len(files))
	for p := range files {
		keys = append(keys, p)
	}
	sort.Strings(keys)
	for _, p := range keys {
		content := files[p]
		full := filepath.Join(base, p)
		if strings.HasSuffix(p, "/") {
			if err := os.MkdirAll(full, 0o755); err != nil {
				panic("INFRA: " + err.Error())
			}
			continue
		}
		if err := os.MkdirAll(filepath.Dir(full), 0o755); err != nil {
			panic("INFRA: " + err.Error())
		}
		if err := os.WriteFile(full, []byte(content), 0o644); err != nil {
			panic("INFRA: " + err.Error())
		}
	}
}

func check(c Case) evid.Result {
	base := os.Getenv("VERIF_SCRATCH")
	if base == "" {
		base = "/dev/shm"
	}
	top, err := os.MkdirTemp(base, "c14-")
	if err != nil {
		panic("INFRA: scratch: " + err.Error())
	}
	defer os.RemoveAll(top)
	if top, err = filepath.EvalSymlinks(top); err != nil {
		panic("INFRA: " + err.Error())
	}
	root := filepath.Join(top, "repo")
	writeTree(top, outsideFiles)
	writeTree(root, repoFiles)
	sub := func(s string) string { return strings.ReplaceAll(s, "$TOP", top) }
	for _, p := range c.Plants {
		if !(strings.HasPrefix(p.Link, "refs/") || strings.HasPrefix(p.Link, "logs/")) || hasComponent(p.Link, "..") {
			return evid.Result{Discard: true}
		}
		link := filepath.Join(root, p.Link)
		if _, err := os.Lstat(link); err == nil {
			return evid.Result{Discard: true}
		}
		if err := os.MkdirAll(filepath.Dir(link), 0o755); err != nil {
			panic("INFRA: " + err.Error())
		}
		if err := os.Symlink(sub(p.Target), link); err != nil {
			panic("INFRA: " + err.Error())
		}
	}
	name := plumbing.ReferenceName(sub(c.Name))
	target := plumbing.ReferenceName(sub(c.Target))

	rfs := newRecFS(root)
	st := filesystem.NewStorage(rfs, cache.NewObjectLRUDefault())
	defer st.ObjectStorage.Close()
	rfs.on = true

	labels := map[string]bool{}
	kn := known()
	var first, firstNew *violation
	before := snapshot(top)
	refused, accepted := 0, 0
	for _, op := range c.Ops {
		entry, ok := entryPoint[op]
		if !ok {
			return evid.Result{Discard: true}
		}
		rfs.log = rfs.log[:0]
		err := runOp(st, rfs, op, name, target)
		takesName := op != "iter" && op != "pack" && op != "count"
		if takesName {
			if errors.Is(err, dotgit.ErrReferenceNameEscape) {
				refused++
			} else {
				accepted++
			}
		}
		vs := judge(root, entry, string(name), rfs.log, labels)
		after := snapshot(top)
		for _, d := range diffSnap(before, after) {
			p := d[strings.IndexByte(d, ' ')+1:]
			if physAllowed(root, p) {
				continue
			}
			// a change outside the namespace: attribute it to a recorded access when there is one
			if len(vs) == 0 {
				vs = append(vs, violation{Entry: entry, Class: "unrecorded-change-outside-namespace", Detail: d})
			} else {
				vs[0].Detail += "; " + d
			}
		}
		before = after
		for i := range vs {
			v := vs[i]
			if first == nil {
				first = &v
			}
			if firstNew == nil && !kn[v.sig()] {
				firstNew = &v
			}
		}
	}

	// classification
	res := evid.Result{}
	via := false
	for _, p := range c.Plants {
		refname := strings.TrimPrefix(p.Link, "logs/")
		if string(name) == refname || strings.HasPrefix(string(name), refname+"/") {
			via = true
			if strings.HasPrefix(p.Link, "logs/") {
				labels["name-through-planted-link:logs"] = true
			} else {
				labels["name-through-planted-link:refs"] = true
			}
		}
	}
	invalid := name.Validate() != nil
	res.NonTrivial = invalid || via
	labels["name:"+nameShape(string(name))] = true
	if invalid {
		labels["name-fails-Validate"] = true
	}
	if len(c.Plants) > 0 {
		labels["planted-links"] = true
	}
	if refused > 0 {
		labels["refused-by-name-check"] = true
	}
	if accepted > 0 {
		labels["accepted-by-name-check"] = true
	}
	if refused > 0 && accepted > 0 {
		labels["mixed-refusal"] = true
	}
	for l := range labels {
		res.Labels = append(res.Labels, l)
	}
	sort.Strings(res.Labels)
	v := firstNew
	if v == nil {
		v = first
	}
	if v != nil {
		res.Fail = evid.Failf(v.sig(), "name %q (plants %v): %s touched a file outside refs/**, logs/**, packed-refs and the pseudo-ref slots: %s", string(name), c.Plants, v.Entry, v.Detail)
	}
	return res
}

func runOp(st *filesystem.Storage, rfs *recFS, op string, name, target plumbing.ReferenceName) error {
	switch op {
	case "set":
		return st.SetReference(plumbing.NewHashReference(name, plumbing.NewHash(h2)))
	case "setsym":
		return st.SetReference(plumbing.NewSymbolicReference(name, target))
	case "cas":
		rfs.on = false // the helper read is Reference's footprint ("get"), not CheckAndSetReference's
		old, err := st.Reference(name)
		rfs.on = true
		if err != nil || old == nil {
			old = plumbing.NewHashReference(name, plumbing.NewHash(h1))
		}
		return st.CheckAndSetReference(plumbing.NewHashReference(name, plumbing.NewHash(h3)), old)
	case "casabsent":
		return st.CheckAndSetReference(plumbing.NewHashReference(name, plumbing.NewHash(h3)), plumbing.NewHashReference(name, plumbing.NewHash(h4)))
	case "get":
		_, err := st.Reference(name)
		return err
	case "resolve":
		_, err := storer.ResolveReference(st, name)
		return err
	case "remove":
		return st.RemoveReference(name)
	case "iter":
		it, err := st.IterReferences()
		if err != nil {
			return err
		}
		defer it.Close()
		return it.ForEach(func(*plumbing.Reference) error { return nil })
	case "pack":
		return st.PackRefs()
	case "count":
		_, err := st.CountLooseRefs()
		return err
	case "logappend":
		return st.AppendReflog(name, &reflog.Entry{OldHash: plumbing.NewHash(h1), NewHash: plumbing.NewHash(h2),
			Committer: reflog.Signature{Name: "A", Email: "a@b"}, Message: "m"})
	case "logread":
		_, err := st.Reflog(name)
		return err
	case "logdel":
		return st.DeleteReflog(name)
	}
	panic("INFRA: unknown op " + op)
}

func TestC14(t *testing.T) {
	evid.Run(t, evid.Spec[Case]{ID: "C14", Gen: gen, Check: check})
}
