package c14

import (
	"errors"
	"fmt"
	"net/url"
	"os"
	"path/filepath"
	"sort"
	"strings"
	"testing"
	"time"

	git "github.com/go-git/go-git/v6"
	"github.com/go-git/go-git/v6/config"
	"github.com/go-git/go-git/v6/plumbing"
	"github.com/go-git/go-git/v6/plumbing/cache"
	"github.com/go-git/go-git/v6/plumbing/client"
	"github.com/go-git/go-git/v6/plumbing/object"
	"github.com/go-git/go-git/v6/plumbing/storer"
	"github.com/go-git/go-git/v6/storage"
	"github.com/go-git/go-git/v6/storage/filesystem"
	"github.com/go-git/go-git/v6/storage/memory"
	"pgregory.net/rapid"

	"verif/harness/lib/evid"
)

// FetchCase is a fetch from a remote whose advertised reference names are hostile.
type FetchCase struct {
	Names []string // advertised next to refs/heads/main, all pointing at the same commit
	Head  string   // target of the remote's symbolic HEAD
	Spec  int      // index into fetchSpecs
	Tags  int      // 0 following, 1 all, 2 none
}

var fetchSpecs = [][]config.RefSpec{
	{"+refs/heads/*:refs/remotes/origin/*"},
	{"+refs/*:refs/*"},
	{"+refs/heads/*:refs/heads/*", "+refs/tags/*:refs/tags/*"},
	{"+refs/*:refs/remotes/x/*"},
	{"+HEAD:refs/remotes/origin/HEAD", "+refs/heads/*:refs/remotes/origin/*"},
}

func genFetch(t *rapid.T, _ *evid.Recorder) FetchCase {
	var c FetchCase
	n := rapid.IntRange(1, 3).Draw(t, "n")
	for i := 0; i < n; i++ {
		name := genName(t, nil, "name")
		// names under the fetched hierarchies reach the refspec mapping; the others test the advertisement path
		switch rapid.IntRange(0, 3).Draw(t, "wrap") {
		case 0:
			name = "refs/heads/" + name
		case 1:
			name = "refs/tags/" + name
		}
		c.Names = append(c.Names, name)
	}
	if rapid.IntRange(0, 2).Draw(t, "hostilehead") == 0 {
		c.Head = genName(t, nil, "head")
	} else {
		c.Head = "refs/heads/main"
	}
	c.Spec = rapid.IntRange(0, len(fetchSpecs)-1).Draw(t, "spec")
	c.Tags = rapid.IntRange(0, 2).Draw(t, "tags")
	return c
}

// sortedRemote is the in-memory remote; references are advertised in name order
// (a Go map has none) so that the case decides everything.
type sortedRemote struct {
	*memory.Storage
}

func (s sortedRemote) IterReferences() (storer.ReferenceIter, error) {
	it, err := s.Storage.IterReferences()
	if err != nil {
		return nil, err
	}
	var refs []*plumbing.Reference
	it.ForEach(func(r *plumbing.Reference) error { refs = append(refs, r); return nil })
	sort.Slice(refs, func(i, j int) bool { return refs[i].Name() < refs[j].Name() })
	return storer.NewReferenceSliceIter(refs), nil
}

type fixedLoader struct{ st storage.Storer }

func (l fixedLoader) Load(*url.URL) (storage.Storer, error) { return l.st, nil }

func buildRemote(c FetchCase, sub func(string) string) (storage.Storer, plumbing.Hash) {
	st := memory.NewStorage()
	put := func(enc func(plumbing.EncodedObject) error) plumbing.Hash {
		o := st.NewEncodedObject()
		if err := enc(o); err != nil {
			panic("INFRA: encode: " + err.Error())
		}
		h, err := st.SetEncodedObject(o)
		if err != nil {
			panic("INFRA: store: " + err.Error())
		}
		return h
	}
	tree := put((&object.Tree{}).Encode)
	sig := object.Signature{Name: "A", Email: "a@b", When: time.Unix(1700000000, 0).UTC()}
	commit := put((&object.Commit{Author: sig, Committer: sig, Message: "m\n", TreeHash: tree}).Encode)
	tag := put((&object.Tag{Name: "v1", Tagger: sig, Message: "t\n", TargetType: plumbing.CommitObject, Target: commit}).Encode)
	st.SetReference(plumbing.NewHashReference("refs/heads/main", commit))
	st.SetReference(plumbing.NewHashReference("refs/tags/v1", tag))
	for _, n := range c.Names {
		st.SetReference(plumbing.NewHashReference(plumbing.ReferenceName(sub(n)), commit))
	}
	st.SetReference(plumbing.NewSymbolicReference(plumbing.HEAD, plumbing.ReferenceName(sub(c.Head))))
	return sortedRemote{st}, commit
}

// fetchAllowedRel: what a fetch may touch besides the reference namespace.
func fetchAllowedRel(rel string) bool {
	if allowedRel(rel) {
		return true
	}
	switch rel {
	case "objects", "config", "config.worktree", "shallow", "commondir":
		return true
	}
	if strings.HasPrefix(rel, "objects/") {
		rest := strings.Split(rel, "/")[1:]
		switch {
		case rest[0] == "pack" || rest[0] == "info" || rest[0] == "incoming" || strings.HasPrefix(rest[0], "incoming-") || strings.HasPrefix(rest[0], "tmp_"):
			return true
		case len(rest[0]) == 2 && len(rest) <= 2 && strings.Trim(rest[0], "0123456789abcdef") == "":
			return true
		}
	}
	return false
}

func checkFetch(c FetchCase) evid.Result {
	if c.Spec < 0 || c.Spec >= len(fetchSpecs) || len(c.Names) == 0 {
		return evid.Result{Discard: true}
	}
	base := os.Getenv("VERIF_SCRATCH")
	if base == "" {
		base = "/dev/shm"
	}
	top, err := os.MkdirTemp(base, "c14f-")
	if err != nil {
		panic("INFRA: scratch: " + err.Error())
	}
	defer os.RemoveAll(top)
	if top, err = filepath.EvalSymlinks(top); err != nil {
		panic("INFRA: " + err.Error())
	}
	root := filepath.Join(top, "repo")
	writeTree(top, outsideFiles)
	writeTree(root, repoFiles)
	os.Remove(filepath.Join(root, "objects/11/"+h1[2:])) // not a real object
	os.Remove(filepath.Join(root, "objects/11"))
	cfg := "[core]\n\trepositoryformatversion = 0\n\tbare = true\n[remote \"origin\"]\n\turl = file:///remote\n\tfetch = +refs/heads/*:refs/remotes/origin/*\n"
	if err := os.WriteFile(filepath.Join(root, "config"), []byte(cfg), 0o644); err != nil {
		panic("INFRA: " + err.Error())
	}
	sub := func(s string) string { return strings.ReplaceAll(s, "$TOP", top) }
	remote, _ := buildRemote(c, sub)

	rfs := newRecFS(root)
	st := filesystem.NewStorage(rfs, cache.NewObjectLRUDefault())
	defer st.ObjectStorage.Close()
	repo, err := git.Open(st, nil)
	if err != nil {
		panic("INFRA: open scratch repository: " + err.Error())
	}
	before := snapshot(top)
	rfs.on = true
	tags := []plumbing.TagMode{plumbing.TagFollowing, plumbing.AllTags, plumbing.NoTags}[c.Tags%3]
	ferr := repo.Fetch(&git.FetchOptions{RefSpecs: fetchSpecs[c.Spec], Tags: tags, Force: true,
		ClientOptions: []client.Option{client.WithLoader(fixedLoader{remote})}})
	rfs.on = false
	after := snapshot(top)

	res := evid.Result{}
	labels := map[string]bool{}
	hostile := false
	for _, n := range append([]string{c.Head}, c.Names...) {
		if plumbing.ReferenceName(sub(n)).Validate() != nil {
			hostile = true
		}
		labels["name:"+nameShape(sub(n))] = true
	}
	res.NonTrivial = hostile
	switch {
	case ferr == nil:
		labels["fetch-ok"] = true
	case errors.Is(ferr, git.NoErrAlreadyUpToDate):
		labels["fetch-up-to-date"] = true
	default:
		labels["fetch-error"] = true
		if strings.Contains(ferr.Error(), "escapes the reference storage") {
			labels["fetch-error:name-refused-by-storage"] = true
		}
	}
	created := 0
	var bad []string
	for _, d := range diffSnap(before, after) {
		p := d[strings.IndexByte(d, ' ')+1:]
		if strings.HasPrefix(p, root+"/refs/") && strings.HasPrefix(d, "created") {
			created++
		}
		if !strings.HasPrefix(p, root+"/") || !fetchAllowedRel(p[len(root)+1:]) || p == root+"/config" {
			bad = append(bad, d)
		}
	}
	if created > 1 {
		labels["created-several-refs"] = true
	}
	var detail string
	class := ""
	for _, a := range rfs.log {
		if a.Blocked || a.Err != nil || statLike[a.Call] {
			continue
		}
		rel := strings.TrimPrefix(strings.TrimPrefix(a.Path, root), "/")
		lex := filepath.Clean("/" + rel)[1:]
		physOK := a.Phys == root || (strings.HasPrefix(a.Phys, root+"/") && fetchAllowedRel(a.Phys[len(root)+1:]))
		if lex == "" && (a.Call == "ReadDir" || a.Call == "MkdirAll") {
			continue
		}
		fs, frel := "", ""
		if r, ok := foldedRel(rel, true); !ok || (r != "" && !fetchAllowedRel(r)) {
			fs, frel = "ntfs", r
		} else if r, ok := foldedRel(rel, false); !ok || (r != "" && !fetchAllowedRel(r)) {
			fs, frel = "hfs", r
		}
		switch {
		case !fetchAllowedRel(lex) || !physOK:
			class = "path-outside-namespace"
		case fs != "":
			class = "folds-outside-namespace-on-" + fs
		default:
			continue
		}
		detail = fmt.Sprintf("%s(%q): physical path %q, folded %q", a.Call, a.Path, a.Phys, frel)
		break
	}
	if class == "" && len(bad) > 0 {
		class, detail = "change-outside-namespace", strings.Join(bad, "; ")
	} else if len(bad) > 0 {
		detail += "; " + strings.Join(bad, "; ")
	}
	for l := range labels {
		res.Labels = append(res.Labels, l)
	}
	sort.Strings(res.Labels)
	if class != "" {
		res.Fail = evid.Failf("C14/Fetch/"+class, "fetch (refspecs %v) from a remote advertising %q (HEAD -> %q) touched a file outside the reference namespace, objects/ and the repository's own metadata: %s (fetch error: %v)",
			fetchSpecs[c.Spec], c.Names, c.Head, detail, ferr)
	}
	return res
}

func TestC14Fetch(t *testing.T) {
	evid.Run(t, evid.Spec[FetchCase]{ID: "C14", Gen: genFetch, Check: checkFetch})
}
