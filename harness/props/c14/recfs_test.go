package c14

import (
	"errors"
	"io/fs"
	"os"
	"path/filepath"
	"strings"

	"github.com/go-git/go-billy/v6"
	"github.com/go-git/go-billy/v6/osfs"
)

// access is one call that go-git made on the dotgit filesystem.
type access struct {
	Call    string // Open, OpenFile, Create, Stat, Lstat, Remove, Rename, RenameTo, ReadDir, MkdirAll, TempFile, Symlink, Readlink, Chroot
	Path    string // as passed by go-git
	Phys    string // physical path at call time (symlinks followed as the kernel would)
	Links   []hop  // symbolic links traversed while resolving
	Err     error
	Blocked bool // refused by the filesystem's own containment (os.Root)
}

// hop is one symbolic link followed during resolution.
type hop struct {
	At   string // physical path of the link
	Last bool   // it was the final component of the accessed path
	Dir  bool   // it leads to a directory (a missing target counts as a directory unless it was the final component)
}

// recFS wraps the real osfs rooted at root and records every call together
// with the physical path it denotes at the moment of the call.
type recFS struct {
	billy.Filesystem
	root string // physical (symlink-free) path of the gitdir
	on   bool
	log  []access
}

func newRecFS(root string) *recFS {
	return &recFS{Filesystem: osfs.New(root), root: root}
}

// Capabilities forwards the capabilities of the wrapped filesystem.
func (r *recFS) Capabilities() billy.Capability { return billy.Capabilities(r.Filesystem) }

func (r *recFS) pre(call, p string, followLast bool) int {
	if !r.on {
		return -1
	}
	phys, links := resolve(r.root, p, followLast)
	r.log = append(r.log, access{Call: call, Path: p, Phys: phys, Links: links})
	return len(r.log) - 1
}

func (r *recFS) post(i int, err error) {
	if i < 0 {
		return
	}
	r.log[i].Err = err
	if err != nil && (errors.Is(err, osfs.ErrPathEscapesParent) || errors.Is(err, billy.ErrCrossedBoundary) ||
		strings.Contains(err.Error(), osfs.ErrPathEscapesParent.Error())) {
		r.log[i].Blocked = true
	}
}

func (r *recFS) Create(n string) (billy.File, error) {
	i := r.pre("Create", n, true)
	f, err := r.Filesystem.Create(n)
	r.post(i, err)
	return f, err
}

func (r *recFS) Open(n string) (billy.File, error) {
	i := r.pre("Open", n, true)
	f, err := r.Filesystem.Open(n)
	r.post(i, err)
	return f, err
}

func (r *recFS) OpenFile(n string, flag int, perm fs.FileMode) (billy.File, error) {
	i := r.pre("OpenFile", n, true)
	f, err := r.Filesystem.OpenFile(n, flag, perm)
	r.post(i, err)
	return f, err
}

func (r *recFS) Stat(n string) (fs.FileInfo, error) {
	i := r.pre("Stat", n, true)
	fi, err := r.Filesystem.Stat(n)
	r.post(i, err)
	return fi, err
}

func (r *recFS) Lstat(n string) (fs.FileInfo, error) {
	i := r.pre("Lstat", n, false)
	fi, err := r.Filesystem.Lstat(n)
	r.post(i, err)
	return fi, err
}

func (r *recFS) Rename(a, b string) error {
	i := r.pre("Rename", a, false)
	j := r.pre("RenameTo", b, false)
	err := r.Filesystem.Rename(a, b)
	r.post(i, err)
	r.post(j, err)
	return err
}

func (r *recFS) Remove(n string) error {
	i := r.pre("Remove", n, false)
	err := r.Filesystem.Remove(n)
	r.post(i, err)
	return err
}

func (r *recFS) MkdirAll(n string, perm fs.FileMode) error {
	i := r.pre("MkdirAll", n, true)
	err := r.Filesystem.MkdirAll(n, perm)
	r.post(i, err)
	return err
}

func (r *recFS) ReadDir(n string) ([]fs.DirEntry, error) {
	i := r.pre("ReadDir", n, true)
	es, err := r.Filesystem.ReadDir(n)
	r.post(i, err)
	return es, err
}

func (r *recFS) TempFile(dir, prefix string) (billy.File, error) {
	f, err := r.Filesystem.TempFile(dir, prefix)
	if r.on {
		name := filepath.Join(dir, prefix+"*")
		if err == nil {
			name = f.Name()
			if filepath.IsAbs(name) {
				if rel, e := filepath.Rel(r.root, name); e == nil && !strings.HasPrefix(rel, "..") {
					name = rel
				}
			}
		}
		i := r.pre("TempFile", name, false)
		r.post(i, err)
	}
	return f, err
}

func (r *recFS) Symlink(target, link string) error {
	i := r.pre("Symlink", link, false)
	err := r.Filesystem.Symlink(target, link)
	r.post(i, err)
	return err
}

func (r *recFS) Readlink(n string) (string, error) {
	i := r.pre("Readlink", n, false)
	s, err := r.Filesystem.Readlink(n)
	r.post(i, err)
	return s, err
}

func (r *recFS) Chroot(p string) (billy.Filesystem, error) {
	i := r.pre("Chroot", p, true)
	f, err := r.Filesystem.Chroot(p)
	r.post(i, err)
	return f, err
}

// resolve computes the physical path that p (relative to root; an absolute p
// is root-relative, as in billy) denotes right now: symbolic links in every
// intermediate component are followed, the last one only if followLast; ".."
// is applied physically; components that do not exist are appended as they
// are. It also returns the links that were followed.
func resolve(root, p string, followLast bool) (string, []hop) {
	split := func(s string) []string {
		var out []string
		for _, c := range strings.Split(s, "/") {
			if c != "" && c != "." {
				out = append(out, c)
			}
		}
		return out
	}
	// osfs cleans the path lexically under its root before it opens anything
	if p == root || strings.HasPrefix(p, root+"/") {
		p = p[len(root):]
	}
	queue := split(filepath.Clean("/" + p))
	cur := root
	var hops []hop
	missing := false
	for n := 0; len(queue) > 0; {
		c := queue[0]
		queue = queue[1:]
		if c == ".." {
			if cur != "/" {
				cur = filepath.Dir(cur)
			}
			continue
		}
		next := cur + "/" + c
		if cur == "/" {
			next = "/" + c
		}
		if missing {
			cur = next
			continue
		}
		fi, err := os.Lstat(next)
		if err != nil {
			missing = true
			cur = next
			continue
		}
		last := len(queue) == 0
		if fi.Mode()&os.ModeSymlink != 0 && (!last || followLast) {
			n++
			if n > 40 {
				return next, hops
			}
			t, err := os.Readlink(next)
			if err != nil {
				cur = next
				continue
			}
			isDir := !last
			if ti, err := os.Stat(next); err == nil {
				isDir = ti.IsDir()
			}
			hops = append(hops, hop{At: next, Last: last, Dir: isDir})
			if strings.HasPrefix(t, "/") {
				cur = "/"
			}
			queue = append(split(t), queue...)
			continue
		}
		cur = next
	}
	return cur, hops
}
