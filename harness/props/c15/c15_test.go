// Package c15 decides C15: the filesystem reference store behaves like a
// name-to-value map under Set / CheckAndSet / Remove / PackRefs / reopen,
// starting from loose and packed references in git's format, and real git
// (show-ref, symbolic-ref) sees the same references.
package c15

import (
	"errors"
	"fmt"
	"os"
	"path/filepath"
	"sort"
	"strings"
	"sync"
	"testing"

	"github.com/go-git/go-billy/v6/osfs"
	"github.com/go-git/go-git/v6/plumbing"
	"github.com/go-git/go-git/v6/plumbing/cache"
	"github.com/go-git/go-git/v6/storage/filesystem"
	"pgregory.net/rapid"

	"verif/harness/lib/evid"
	"verif/harness/lib/gitx"
)

// The name universe. Only names[symFrom:] may hold symbolic values, and
// symbolic targets are never such names: no chains, no cycles.
var names = []string{"refs/heads/a", "refs/heads/a/b", "refs/heads/b", "refs/tags/t", "refs/tags/ann", "ORIG_HEAD",
	"refs/x/sym", "refs/heads/sym", "refs/remotes/o/HEAD", "HEAD"}

const (
	symFrom = 6
	headIdx = 9
	nHash   = 4 // values 0..2 commits, 3 the annotated tag object
)

var symTargets = []string{"refs/heads/a", "refs/heads/b", "refs/heads/a/b", "refs/tags/ann", "refs/heads/missing"}

// InitRef is one reference present before go-git opens the repository.
type InitRef struct {
	Name   int
	Val    int  // 0..3 hash values, 4.. symbolic to symTargets[Val-4]
	Packed bool // in packed-refs (hash values only)
	Both   bool // packed with an older value and loose with Val
}

// Op is one step. Name/Val are indices; Old: 0 = the current value, 1 = another hash.
type Op struct {
	Kind string // set cas remove pack reopen
	Name int
	Val  int
	Old  int
}

// Case is an initial state plus a history.
type Case struct {
	InitBy string // files | git | gogit
	Header int    // packed-refs header when InitBy=files: 0 none, 1 git's (peeled fully-peeled sorted), 2 "peeled fully-peeled" and unsorted
	Init   []InitRef
	Ops    []Op
}

// ------------------------------------------------------------------ fixture

type fixture struct {
	dir  string
	vals [nHash]string
	peel string // commit the annotated tag points to
}

var (
	fixOnce sync.Once
	fix     fixture
)

func scratchBase() string {
	base := os.Getenv("VERIF_SCRATCH")
	if base == "" {
		base = "/dev/shm"
	}
	return base
}

// template builds, once per process, a bare repository holding three commits
// and an annotated tag (fixed dates: the hashes are the same in every run).
func template() fixture {
	fixOnce.Do(func() {
		d, err := os.MkdirTemp(scratchBase(), "c15-template-")
		if err != nil {
			panic("INFRA: scratch: " + err.Error())
		}
		gitx.Init(d, true, "sha1")
		tree := strings.TrimSpace(gitx.MustIn(d, nil, "mktree"))
		for i := 0; i < 3; i++ {
			fix.vals[i] = strings.TrimSpace(gitx.Must(d, "commit-tree", "-m", fmt.Sprintf("c%d", i), tree))
		}
		tag := fmt.Sprintf("object %s\ntype commit\ntag ann\ntagger T <t@example.com> 1700000000 +0000\n\nmsg\n", fix.vals[0])
		fix.vals[3] = strings.TrimSpace(gitx.MustIn(d, []byte(tag), "mktag"))
		fix.peel = fix.vals[0]
		os.RemoveAll(filepath.Join(d, "refs"))
		os.MkdirAll(filepath.Join(d, "refs/heads"), 0o755)
		os.MkdirAll(filepath.Join(d, "refs/tags"), 0o755)
		os.Remove(filepath.Join(d, "packed-refs"))
		fix.dir = d
	})
	return fix
}

func TestMain(m *testing.M) {
	code := m.Run()
	if fix.dir != "" {
		os.RemoveAll(fix.dir)
	}
	os.Exit(code)
}

func copyTree(src, dst string) {
	err := filepath.WalkDir(src, func(p string, d os.DirEntry, err error) error {
		if err != nil {
			return err
		}
		rel, _ := filepath.Rel(src, p)
		if d.IsDir() {
			return os.MkdirAll(filepath.Join(dst, rel), 0o755)
		}
		b, err := os.ReadFile(p)
		if err != nil {
			return err
		}
		return os.WriteFile(filepath.Join(dst, rel), b, 0o644)
	})
	if err != nil {
		panic("INFRA: copy template: " + err.Error())
	}
}

// ---------------------------------------------------------------- generator

func genVal(t *rapid.T, name int) int {
	// HEAD is mostly symbolic; the other names seldom, so that most histories can be packed
	// (PackRefs with a loose symbolic reference under refs/ is a recorded finding)
	if (name == headIdx && rapid.IntRange(0, 2).Draw(t, "symbolic") != 0) || (name >= symFrom && name != headIdx && rapid.IntRange(0, 4).Draw(t, "symbolic") == 0) {
		return nHash + rapid.IntRange(0, len(symTargets)-1).Draw(t, "symtarget")
	}
	if strings.HasPrefix(names[name], "refs/tags/") && rapid.Bool().Draw(t, "tagobj") {
		return 3
	}
	return rapid.IntRange(0, 2).Draw(t, "hash")
}

func gen(t *rapid.T, _ *evid.Recorder) Case {
	c := Case{InitBy: rapid.SampledFrom([]string{"files", "files", "git", "gogit"}).Draw(t, "initby"),
		Header: rapid.IntRange(0, 2).Draw(t, "header")}
	hasA, hasAB := false, false
	for i := range names {
		if i == headIdx {
			continue
		}
		if rapid.IntRange(0, 9).Draw(t, "present") >= 4 {
			continue
		}
		if (i == 0 && hasAB) || (i == 1 && hasA) { // no directory/file conflict in the initial state
			continue
		}
		r := InitRef{Name: i, Val: genVal(t, i)}
		if r.Val < nHash && i != 5 {
			switch rapid.IntRange(0, 3).Draw(t, "where") {
			case 0, 1:
				r.Packed = true
			case 2:
				r.Both = true
			}
		}
		hasA = hasA || i == 0
		hasAB = hasAB || i == 1
		c.Init = append(c.Init, r)
	}
	c.Init = append(c.Init, InitRef{Name: headIdx, Val: genVal(t, headIdx)})
	n := rapid.IntRange(1, 12).Draw(t, "nops")
	for i := 0; i < n; i++ {
		o := Op{Kind: rapid.SampledFrom([]string{"set", "set", "set", "cas", "cas", "remove", "remove", "pack", "pack", "pack", "reopen"}).Draw(t, "kind")}
		switch o.Kind {
		case "set", "cas":
			o.Name = rapid.IntRange(0, len(names)-1).Draw(t, "name")
			o.Val = genVal(t, o.Name)
			if o.Kind == "cas" {
				o.Old = rapid.IntRange(0, 1).Draw(t, "old")
			}
		case "remove":
			o.Name = rapid.IntRange(0, len(names)-2).Draw(t, "name") // never HEAD: git needs it to recognise the repository
		}
		c.Ops = append(c.Ops, o)
	}
	return c
}

// ------------------------------------------------------------------- oracle

func (f fixture) valString(v int) string {
	if v < nHash {
		return f.vals[v]
	}
	return "ref: " + symTargets[(v-nHash)%len(symTargets)]
}

func refOf(name, val string) *plumbing.Reference { return plumbing.NewReferenceFromStrings(name, val) }

func valOf(r *plumbing.Reference) string { return r.Strings()[1] }

// conflict reports a directory/file conflict between name and another present name.
func conflict(model map[string]string, name string) bool {
	for n := range model {
		if n != name && (strings.HasPrefix(n, name+"/") || strings.HasPrefix(name, n+"/")) {
			return true
		}
	}
	return false
}

func hasConflict(model map[string]string) bool {
	for n := range model {
		if conflict(model, n) {
			return true
		}
	}
	return false
}

type env struct {
	dir   string
	st    *filesystem.Storage
	model map[string]string
	f     fixture
}

func (e *env) open() {
	if e.st != nil {
		e.st.ObjectStorage.Close()
	}
	e.st = filesystem.NewStorage(osfs.New(e.dir), cache.NewObjectLRUDefault())
}

// compare checks every read and the listing against the model.
func (e *env) compare() (kind, msg string) {
	for _, n := range names {
		r, err := e.st.Reference(plumbing.ReferenceName(n))
		want, ok := e.model[n]
		switch {
		case ok && err != nil:
			return "read-fails", fmt.Sprintf("Reference(%s) = error %v, the map holds %q", n, err, want)
		case ok && valOf(r) != want:
			return "read-wrong-value", fmt.Sprintf("Reference(%s) = %q, the map holds %q", n, valOf(r), want)
		case ok && string(r.Name()) != n:
			return "read-wrong-name", fmt.Sprintf("Reference(%s) returned a reference named %q", n, r.Name())
		case !ok && err == nil:
			return "read-invents", fmt.Sprintf("Reference(%s) = %q, the map has no such key", n, valOf(r))
		case !ok && !errors.Is(err, plumbing.ErrReferenceNotFound):
			return "read-fails", fmt.Sprintf("Reference(%s) on an absent key = error %v, want ErrReferenceNotFound", n, err)
		}
	}
	it, err := e.st.IterReferences()
	if err != nil {
		return "list-fails", fmt.Sprintf("IterReferences = error %v", err)
	}
	got := map[string]string{}
	var dup string
	err = it.ForEach(func(r *plumbing.Reference) error {
		if _, ok := got[string(r.Name())]; ok {
			dup = string(r.Name())
		}
		got[string(r.Name())] = valOf(r)
		return nil
	})
	if err != nil {
		return "list-fails", fmt.Sprintf("IterReferences.ForEach = error %v", err)
	}
	if dup != "" {
		return "list-duplicate", fmt.Sprintf("IterReferences returned %s twice", dup)
	}
	for n, v := range e.model {
		if n != "HEAD" && !strings.HasPrefix(n, "refs/") {
			continue // other pseudo-refs are not listed (neither by git for-each-ref / show-ref)
		}
		g, ok := got[n]
		if !ok {
			return "list-drops", fmt.Sprintf("IterReferences lacks %s = %q", n, v)
		}
		if g != v {
			return "list-wrong-value", fmt.Sprintf("IterReferences has %s = %q, the map holds %q", n, g, v)
		}
	}
	var extra []string
	for n := range got {
		if _, ok := e.model[n]; !ok {
			extra = append(extra, n)
		}
	}
	if len(extra) > 0 {
		sort.Strings(extra)
		return "list-invents", fmt.Sprintf("IterReferences has %v, the map does not", extra)
	}
	return "", ""
}

// resolve follows at most one symbolic hop (the universe has no chains).
func (e *env) resolve(n string) (string, bool) {
	v, ok := e.model[n]
	if !ok {
		return "", false
	}
	if t, sym := strings.CutPrefix(v, "ref: "); sym {
		v, ok = e.model[t]
		if !ok || strings.HasPrefix(v, "ref: ") {
			return "", false
		}
	}
	return v, true
}

// compareGit checks git show-ref --head -d and git symbolic-ref against the model.
func (e *env) compareGit(full bool) (kind, msg string) {
	var want []string
	ns := make([]string, 0, len(e.model))
	for n := range e.model {
		ns = append(ns, n)
	}
	sort.Strings(ns)
	for _, n := range ns {
		if n != "HEAD" && !strings.HasPrefix(n, "refs/") {
			continue
		}
		h, ok := e.resolve(n)
		if !ok {
			continue // dangling symbolic reference: not shown
		}
		want = append(want, h+" "+n)
		if h == e.f.vals[3] {
			want = append(want, e.f.peel+" "+n+"^{}")
		}
	}
	out, stderr, code := gitx.Try(e.dir, "show-ref", "--head", "-d")
	if code != 0 && !(code == 1 && out == "") {
		return "git-show-ref-fails", fmt.Sprintf("git show-ref --head -d exits %d: %s", code, stderr)
	}
	got := strings.Split(strings.TrimSpace(out), "\n")
	if strings.TrimSpace(out) == "" {
		got = nil
	}
	sort.Strings(got)
	sort.Strings(want)
	if strings.Join(got, "\n") != strings.Join(want, "\n") {
		return "git-show-ref-differs", fmt.Sprintf("git show-ref --head -d:\n%s\nthe map gives:\n%s\n(stderr: %s)", strings.Join(got, "\n"), strings.Join(want, "\n"), stderr)
	}
	if !full {
		return "", ""
	}
	// which names git considers symbolic, and their targets: HEAD by git symbolic-ref, the
	// names under refs/ by for-each-ref %(symref) (one process for all of them)
	gotSym := map[string]string{}
	out, stderr, code = gitx.Try(e.dir, "for-each-ref", "--format=%(refname) %(symref)")
	if code != 0 {
		return "git-for-each-ref-fails", fmt.Sprintf("git for-each-ref exits %d: %s", code, stderr)
	}
	for _, l := range strings.Split(strings.TrimSpace(out), "\n") {
		if f := strings.SplitN(l, " ", 2); len(f) == 2 && f[1] != "" {
			gotSym[f[0]] = f[1]
		}
	}
	out, _, code = gitx.Try(e.dir, "symbolic-ref", "-q", "HEAD")
	if code == 0 {
		gotSym["HEAD"] = strings.TrimSpace(out)
	}
	for _, n := range names[symFrom:] {
		v, ok := e.model[n]
		if !ok {
			continue
		}
		t, sym := strings.CutPrefix(v, "ref: ")
		g, gsym := gotSym[n]
		if sym && n != "HEAD" {
			if _, resolvable := e.resolve(n); !resolvable {
				continue // for-each-ref does not list a dangling symbolic reference
			}
		}
		switch {
		case sym && (!gsym || g != t):
			return "git-symbolic-ref-differs", fmt.Sprintf("git sees %s as symbolic=%v %q, the map holds %q", n, gsym, g, v)
		case !sym && gsym:
			return "git-symbolic-ref-differs", fmt.Sprintf("git sees %s as symbolic to %q, the map holds the hash %q", n, g, v)
		}
	}
	return "", ""
}

// looseSymbolicUnderRefs reports whether a loose file below refs/ holds "ref: ...".
func looseSymbolicUnderRefs(dir string) bool {
	found := false
	filepath.WalkDir(filepath.Join(dir, "refs"), func(p string, d os.DirEntry, err error) error {
		if err == nil && !d.IsDir() {
			if b, e := os.ReadFile(p); e == nil && strings.HasPrefix(string(b), "ref: ") {
				found = true
			}
		}
		return nil
	})
	return found
}

// packedWithPeel reports whether packed-refs holds name followed by a "^" line.
func packedWithPeel(dir, name string) bool {
	b, err := os.ReadFile(filepath.Join(dir, "packed-refs"))
	if err != nil {
		return false
	}
	lines := strings.Split(string(b), "\n")
	for i, l := range lines {
		if strings.HasSuffix(l, " "+name) && i+1 < len(lines) && strings.HasPrefix(lines[i+1], "^") {
			return true
		}
	}
	return false
}

func known() map[string]bool {
	m := map[string]bool{}
	for _, s := range strings.Split(os.Getenv("VERIF_KNOWN"), "\x1f") {
		if s != "" {
			m[s] = true
		}
	}
	return m
}

const (
	sigPackSym   = "C15/PackRefs/loose-symbolic-ref-under-refs-corrupts-packed-refs"
	sigCasAbsent = "C15/CheckAndSetReference/refused-on-absent-ref-leaves-empty-loose-file"
	sigCasPacked = "C15/CheckAndSetReference/refused-on-packed-only-ref-leaves-empty-loose-file"
	sigRmPeel    = "C15/RemoveReference/packed-annotated-tag-leaves-orphan-peel-line"
	sigEmptyDir  = "C15/SetReference/empty-directory-left-behind-blocks-the-name"
)

// looseFile reports whether name exists as a loose reference file.
func looseFile(dir, name string) bool {
	fi, err := os.Lstat(filepath.Join(dir, name))
	return err == nil && !fi.IsDir()
}

// emptyDirAt reports whether the path of name is a directory tree without any file.
func emptyDirAt(dir, name string) bool {
	fi, err := os.Lstat(filepath.Join(dir, name))
	if err != nil || !fi.IsDir() {
		return false
	}
	empty := true
	filepath.WalkDir(filepath.Join(dir, name), func(p string, d os.DirEntry, err error) error {
		if err == nil && !d.IsDir() {
			empty = false
		}
		return nil
	})
	return empty
}

func writeFile(p, content string) {
	if err := os.MkdirAll(filepath.Dir(p), 0o755); err != nil {
		panic("INFRA: " + err.Error())
	}
	if err := os.WriteFile(p, []byte(content), 0o644); err != nil {
		panic("INFRA: " + err.Error())
	}
}

// initState writes the initial references and fills the model; ok=false when the case is malformed.
func (e *env) initState(c Case) bool {
	seen := map[int]bool{}
	var packed []InitRef
	for _, r := range c.Init {
		if r.Name < 0 || r.Name >= len(names) || seen[r.Name] || r.Val < 0 || r.Val >= nHash+len(symTargets) {
			return false
		}
		if r.Val >= nHash && (r.Name < symFrom || r.Packed || r.Both) {
			return false
		}
		if !strings.HasPrefix(names[r.Name], "refs/") && (r.Packed || r.Both) {
			return false
		}
		seen[r.Name] = true
		e.model[names[r.Name]] = e.f.valString(r.Val)
		if r.Packed || r.Both {
			packed = append(packed, r)
		}
	}
	if !seen[headIdx] || hasConflict(e.model) {
		return false
	}
	old := func(r InitRef) string { // the shadowed packed value of a Both entry
		return e.f.vals[(r.Val+1)%3]
	}
	switch c.InitBy {
	case "files":
		if len(packed) > 0 {
			if c.Header != 2 {
				sort.Slice(packed, func(i, j int) bool { return names[packed[i].Name] < names[packed[j].Name] })
			}
			var sb strings.Builder
			switch c.Header {
			case 1:
				sb.WriteString("# pack-refs with: peeled fully-peeled sorted \n")
			case 2:
				sb.WriteString("# pack-refs with: peeled fully-peeled \n")
			}
			for _, r := range packed {
				v := e.f.valString(r.Val)
				if r.Both {
					v = old(r)
				}
				sb.WriteString(v + " " + names[r.Name] + "\n")
				if v == e.f.vals[3] && c.Header != 0 {
					sb.WriteString("^" + e.f.peel + "\n")
				}
			}
			writeFile(filepath.Join(e.dir, "packed-refs"), sb.String())
		}
		for _, r := range c.Init {
			if !r.Packed {
				writeFile(filepath.Join(e.dir, names[r.Name]), e.f.valString(r.Val)+"\n")
			}
		}
	case "git":
		var sb strings.Builder
		for _, r := range packed {
			v := e.f.valString(r.Val)
			if r.Both {
				v = old(r)
			}
			sb.WriteString("create " + names[r.Name] + " " + v + "\n")
		}
		if len(packed) > 0 {
			gitx.MustIn(e.dir, []byte(sb.String()), "update-ref", "--stdin")
			gitx.Must(e.dir, "pack-refs", "--all")
		}
		sb.Reset()
		for _, r := range c.Init {
			switch {
			case r.Val >= nHash:
				gitx.Must(e.dir, "symbolic-ref", names[r.Name], symTargets[r.Val-nHash])
			case r.Both:
				sb.WriteString("update " + names[r.Name] + " " + e.f.valString(r.Val) + "\n")
			case !r.Packed && r.Name == headIdx:
				writeFile(filepath.Join(e.dir, "HEAD"), e.f.valString(r.Val)+"\n") // detached HEAD, as git checkout --detach leaves it
			case !r.Packed:
				sb.WriteString("create " + names[r.Name] + " " + e.f.valString(r.Val) + "\n")
			}
		}
		if sb.Len() > 0 {
			gitx.MustIn(e.dir, []byte(sb.String()), "update-ref", "--stdin")
		}
	case "gogit":
		e.open()
		must := func(err error) {
			if err != nil {
				panic("INFRA: go-git initial state: " + err.Error())
			}
		}
		for _, r := range packed {
			v := e.f.valString(r.Val)
			if r.Both {
				v = old(r)
			}
			must(e.st.SetReference(refOf(names[r.Name], v)))
		}
		if len(packed) > 0 {
			must(e.st.PackRefs())
		}
		for _, r := range c.Init {
			if !r.Packed {
				must(e.st.SetReference(refOf(names[r.Name], e.f.valString(r.Val))))
			}
		}
	default:
		return false
	}
	return true
}

func check(c Case) evid.Result {
	f := template()
	dir, err := os.MkdirTemp(scratchBase(), "c15-")
	if err != nil {
		panic("INFRA: scratch: " + err.Error())
	}
	defer os.RemoveAll(dir)
	copyTree(f.dir, dir)
	e := &env{dir: dir, model: map[string]string{}, f: f}
	defer func() {
		if e.st != nil {
			e.st.ObjectStorage.Close()
		}
	}()
	if !e.initState(c) {
		return evid.Result{Discard: true}
	}
	e.open()
	kn := known()
	labels := map[string]bool{"init-by:" + c.InitBy: true}
	res := evid.Result{}
	fail := func(sig, format string, a ...any) evid.Result {
		res.NonTrivial = true
		res.Fail = evid.Failf(sig, format, a...)
		return res
	}
	if k, m := e.compare(); k != "" {
		return fail("C15/initial-state/"+k, "after opening the initial state (%s): %s", c.InitBy, m)
	}
	if !hasConflict(e.model) {
		if k, m := e.compareGit(c.InitBy != "git"); k != "" {
			return fail("C15/initial-state/"+k, "initial state written by %s: %s", c.InitBy, m)
		}
	}
	setSeen, packAfterSet := false, false
	for i, o := range c.Ops {
		if o.Name < 0 || o.Name >= len(names) || o.Val < 0 || o.Val >= nHash+len(symTargets) || (o.Val >= nHash && o.Name < symFrom) {
			return evid.Result{Discard: true}
		}
		name := names[o.Name]
		cur, present := e.model[name]
		sig := "" // the narrow signature of a divergence seen right after this step, if it has a recognised shape
		step := fmt.Sprintf("step %d %s", i, o.Kind)
		switch o.Kind {
		case "set":
			step += fmt.Sprintf("(%s = %q)", name, e.f.valString(o.Val))
			blocked := emptyDirAt(dir, name) && !conflict(e.model, name)
			if blocked && kn[sigEmptyDir] {
				labels["skipped-known-shape:set-on-name-with-empty-directory"] = true
				continue
			}
			err := e.st.SetReference(refOf(name, e.f.valString(o.Val)))
			switch {
			case err != nil && blocked:
				return fail(sigEmptyDir, "%s: error %v; the map has no conflicting key, only an empty directory is left at that path", step, err)
			case err == nil:
				e.model[name] = e.f.valString(o.Val)
				setSeen = true
				labels["set-ok"] = true
			case conflict(e.model, name):
				labels["set-refused:directory-file-conflict"] = true
			default:
				return fail("C15/SetReference/unexpected-error", "%s: error %v without a directory/file conflict", step, err)
			}
		case "cas":
			oldv := cur
			if !present || strings.HasPrefix(cur, "ref: ") {
				oldv = f.vals[1]
			}
			if o.Old == 1 {
				for _, h := range f.vals {
					if h != oldv {
						oldv = h
						break
					}
				}
			}
			step += fmt.Sprintf("(%s = %q, old %q; map holds %q present=%v)", name, f.valString(o.Val), oldv, cur, present)
			match := present && cur == oldv
			if !match && !looseFile(dir, name) && !emptyDirAt(dir, name) {
				// a check-and-set that must be refused, on a name without a loose file
				sig = sigCasAbsent
				if present {
					sig = sigCasPacked
				}
				if kn[sig] {
					labels["skipped-known-shape:refused-cas-without-loose-file"] = true
					continue
				}
			}
			if emptyDirAt(dir, name) && !conflict(e.model, name) {
				if kn[sigEmptyDir] {
					labels["skipped-known-shape:set-on-name-with-empty-directory"] = true
					continue
				}
				sig = sigEmptyDir
			}
			err := e.st.CheckAndSetReference(refOf(name, f.valString(o.Val)), refOf(name, oldv))
			switch {
			case err != nil && sig == sigEmptyDir && match:
				return fail(sigEmptyDir, "%s: error %v; the map has no conflicting key, only an empty directory is left at that path", step, err)
			case err == nil && match:
				e.model[name] = f.valString(o.Val)
				setSeen = true
				labels["cas-ok"] = true
			case err == nil && !present:
				// the storer contract leaves "old given, reference absent" open (the memory backend stores it)
				e.model[name] = f.valString(o.Val)
				labels["cas-on-absent-stored"] = true
			case err == nil:
				return fail("C15/CheckAndSetReference/stores-despite-mismatch", "%s: succeeded although old does not match", step)
			case match && !conflict(e.model, name):
				return fail("C15/CheckAndSetReference/unexpected-error", "%s: error %v although old matches", step, err)
			case !present:
				labels["cas-on-absent-refused"] = true
			default:
				labels["cas-refused"] = true
			}
		case "remove":
			if o.Name == headIdx {
				return evid.Result{Discard: true}
			}
			step += "(" + name + ")"
			if packedWithPeel(dir, name) {
				if kn[sigRmPeel] {
					labels["skipped-known-shape:remove-packed-peeled-tag"] = true
					continue
				}
				sig = sigRmPeel
			}
			err := e.st.RemoveReference(plumbing.ReferenceName(name))
			switch {
			case err != nil && conflict(e.model, name):
				labels["remove-refused:directory-file-conflict"] = true // the map is unchanged
			case err != nil:
				return fail("C15/RemoveReference/unexpected-error", "%s: error %v", step, err)
			default:
				delete(e.model, name)
				if present {
					labels["remove-present"] = true
				}
			}
		case "pack":
			if looseSymbolicUnderRefs(dir) {
				if kn[sigPackSym] {
					labels["skipped-known-shape:pack-with-loose-symbolic-ref"] = true
					continue
				}
				sig = sigPackSym
			}
			if _, err := os.Stat(filepath.Join(dir, "packed-refs")); err == nil {
				labels["pack-onto-existing-packed-refs"] = true
			}
			if err := e.st.PackRefs(); err != nil {
				return fail("C15/PackRefs/unexpected-error", "%s: error %v", step, err)
			}
			if setSeen {
				packAfterSet = true
			}
			labels["pack"] = true
		case "reopen":
			e.open()
			labels["reopen"] = true
		default:
			return evid.Result{Discard: true}
		}
		k, m := e.compare()
		if k == "" && (o.Kind == "pack" || o.Kind == "remove" || i == len(c.Ops)-1) && !hasConflict(e.model) {
			k, m = e.compareGit(i == len(c.Ops)-1) // git symbolic-ref only at the end (one process per name)
			labels["compared-with-git"] = true
		}
		if k != "" {
			if sig == "" {
				sig = "C15/" + o.Kind + "/" + k
			}
			return fail(sig, "after %s: %s", step, m)
		}
	}
	if hasConflict(e.model) {
		labels["ends-with-directory-file-conflict(git-not-consulted)"] = true
	}
	res.NonTrivial = packAfterSet
	for l := range labels {
		res.Labels = append(res.Labels, l)
	}
	sort.Strings(res.Labels)
	return res
}

func TestC15(t *testing.T) {
	evid.Run(t, evid.Spec[Case]{ID: "C15", Gen: gen, Check: check})
}
