// Package c16 decides C16: concurrent CheckAndSetReference / Reference calls on
// one reference behave like a linearizable compare-and-swap register. go-git
// runs on schedfs (see schedfs_test.go); the interleaving is part of the case.
package c16

import (
	"errors"
	"fmt"
	"os"
	"sort"
	"strings"
	"testing"

	"github.com/anishathalye/porcupine"
	"github.com/go-git/go-git/v6/plumbing"
	"github.com/go-git/go-git/v6/plumbing/cache"
	"github.com/go-git/go-git/v6/storage"
	"github.com/go-git/go-git/v6/storage/filesystem"
	"pgregory.net/rapid"

	"verif/harness/lib/evid"
)

const refName = "refs/heads/r"

// COp is one call made by a client.
//
//	read      Reference(r)
//	cas-last  CheckAndSetReference(r = fresh value, old = the value this client saw last (initially the initial value))
//	cas-init  CheckAndSetReference(r = fresh value, old = the initial value)
//	pack      PackRefs()
type COp struct {
	Kind string
}

// Case: how the reference is stored at the start, the clients' scripts, and
// the schedule: at decision k the runnable client number Schedule[k] mod
// (number of runnable clients) runs up to its next filesystem operation;
// when the schedule is exhausted the lowest runnable client runs.
type Case struct {
	Init     string // loose | packed | both (packed-refs holds an older value, the loose file the current one)
	Clients  [][]COp
	Schedule []int
}

func val(i int) string { return fmt.Sprintf("%040x", 0x1000+i) }

var (
	initVal  = val(0)
	staleVal = val(999) // what packed-refs holds under the loose file when Init=both
)

func gen(t *rapid.T, _ *evid.Recorder) Case {
	c := Case{Init: rapid.SampledFrom([]string{"loose", "loose", "packed", "both"}).Draw(t, "init")}
	n := rapid.IntRange(2, 4).Draw(t, "clients")
	withPack := rapid.IntRange(0, 3).Draw(t, "withpack") == 0
	packs := 0
	for i := 0; i < n; i++ {
		k := rapid.IntRange(1, 4).Draw(t, "nops")
		var ops []COp
		// half of the scripts are read-then-update loops: that is how a second client gets a successful update in
		loop := rapid.Bool().Draw(t, "loop")
		for j := 0; j < k; j++ {
			kind := rapid.SampledFrom([]string{"read", "read", "cas-last", "cas-last", "cas-init"}).Draw(t, "kind")
			if loop {
				kind = []string{"read", "cas-last"}[j%2]
			}
			if withPack && packs == 0 && rapid.IntRange(0, 3).Draw(t, "pack") == 0 {
				kind = "pack"
				packs++
			}
			ops = append(ops, COp{Kind: kind})
		}
		c.Clients = append(c.Clients, ops)
	}
	c.Schedule = rapid.SliceOfN(rapid.IntRange(0, 3), 0, 260).Draw(t, "schedule")
	return c
}

// ---------------------------------------------------------------- execution

type opRec struct {
	Client    int
	Kind      string // read cas pack
	Old, New  string
	OK        bool
	Val       string // read: the hash, "!notfound", or "!error"
	Err       string
	Call, Ret int64
	T0, T1    int // trace window
}

func (o opRec) String() string {
	switch o.Kind {
	case "read":
		return fmt.Sprintf("c%d[%d,%d] Reference -> %s", o.Client, o.Call, o.Ret, short(o.Val))
	case "cas":
		return fmt.Sprintf("c%d[%d,%d] CheckAndSet(new %s, old %s) -> ok=%v %s", o.Client, o.Call, o.Ret, short(o.New), short(o.Old), o.OK, o.Err)
	}
	return fmt.Sprintf("c%d[%d,%d] PackRefs -> ok=%v %s", o.Client, o.Call, o.Ret, o.OK, o.Err)
}

func short(v string) string {
	switch {
	case v == initVal:
		return "INIT"
	case v == staleVal:
		return "STALE-PACKED"
	case len(v) == 40:
		return "v" + strings.TrimLeft(v, "0")
	}
	return v
}

type runResult struct {
	ops      []opRec
	trace    []traceEv
	deadlock bool
	overrun  bool
	blockedN int
	steps    int
}

func run(c Case) runResult {
	n := len(c.Clients)
	w := newWorld(n + 1)
	w.put("HEAD", "ref: "+refName+"\n")
	w.put("config", "[core]\n\trepositoryformatversion = 0\n\tbare = true\n")
	switch c.Init {
	case "loose":
		w.put(refName, initVal+"\n")
	case "packed":
		w.put("packed-refs", "# pack-refs with: peeled fully-peeled sorted \n"+initVal+" "+refName+"\n")
	case "both":
		w.put("packed-refs", "# pack-refs with: peeled fully-peeled sorted \n"+staleVal+" "+refName+"\n")
		w.put(refName, initVal+"\n")
	}
	var res runResult
	rn := plumbing.ReferenceName(refName)
	doOp := func(st *filesystem.Storage, id int, kind string, last *string, fresh string) {
		rec := opRec{Client: id, T0: len(w.trace)}
		w.seq++
		rec.Call = w.seq
		switch kind {
		case "read":
			rec.Kind = "read"
			r, err := st.Reference(rn)
			switch {
			case err == nil && r.Type() == plumbing.HashReference:
				rec.Val = r.Hash().String()
				rec.OK = true
				*last = rec.Val
			case err == nil:
				rec.Val = "!symbolic:" + string(r.Target())
			case errors.Is(err, plumbing.ErrReferenceNotFound):
				rec.Val, rec.Err = "!notfound", err.Error()
			default:
				rec.Val, rec.Err = "!error", err.Error()
			}
		case "cas-last", "cas-init":
			rec.Kind = "cas"
			rec.Old = *last
			if kind == "cas-init" {
				rec.Old = initVal
			}
			rec.New = fresh
			err := st.CheckAndSetReference(plumbing.NewHashReference(rn, plumbing.NewHash(rec.New)), plumbing.NewHashReference(rn, plumbing.NewHash(rec.Old)))
			if err == nil {
				rec.OK = true
				*last = rec.New
			} else {
				rec.Err = err.Error()
				if errors.Is(err, storage.ErrReferenceHasChanged) {
					rec.Err = "changed"
				}
			}
		case "pack":
			rec.Kind = "pack"
			err := st.PackRefs()
			rec.OK = err == nil
			if err != nil {
				rec.Err = err.Error()
			}
		}
		w.seq++
		rec.Ret = w.seq
		rec.T1 = len(w.trace)
		res.ops = append(res.ops, rec)
	}
	done := make([]bool, n)
	for i := 0; i < n; i++ {
		cfs := &clientFS{w: w, id: i}
		st := filesystem.NewStorage(cfs, cache.NewObjectLRUDefault()) // constructed with scheduling off
		go func(i int, script []COp) {
			<-w.wake[i]
			cfs.active = true
			last := initVal
			for j, o := range script {
				doOp(st, i, o.Kind, &last, val(1+i*8+j))
			}
			cfs.active = false
			w.parked <- parkMsg{id: i, done: true}
		}(i, c.Clients[i])
	}
	k := 0
	for remaining := n; remaining > 0; {
		var runnable []int
		for i := 0; i < n; i++ {
			if !done[i] && (w.waitLock[i] == nil || !w.waitLock[i].locked) {
				runnable = append(runnable, i)
			}
		}
		res.steps++
		if len(runnable) == 0 || res.steps > 20000 {
			res.deadlock = len(runnable) == 0
			res.overrun = !res.deadlock
			w.abort = true
			for i := 0; i < n; i++ {
				if !done[i] {
					w.wake[i] <- struct{}{}
					<-w.parked
					done[i] = true
				}
			}
			break
		}
		pick := runnable[0]
		if k < len(c.Schedule) {
			s := c.Schedule[k]
			if s < 0 {
				s = -s
			}
			pick = runnable[s%len(runnable)]
			k++
		}
		w.wake[pick] <- struct{}{}
		if m := <-w.parked; m.done {
			done[m.id] = true
			remaining--
		}
	}
	// the quiescent read: a fresh Storage, no concurrency
	if !w.abort {
		cfs := &clientFS{w: w, id: n}
		st := filesystem.NewStorage(cfs, cache.NewObjectLRUDefault())
		last := ""
		doOp(st, n, "read", &last, "")
	}
	res.trace = w.trace
	res.blockedN = w.blockedN
	return res
}

// ------------------------------------------------------------------- oracle

type regIn struct {
	Kind     string
	Old, New string
}

type regOut struct {
	OK  bool
	Val string
}

// casRegister: the sequential specification. A refused CheckAndSet and a
// PackRefs change nothing (the statement constrains successful updates only);
// a successful CheckAndSet needs the register to hold old; a read returns
// what the register holds.
var casRegister = porcupine.Model{
	Init: func() interface{} { return initVal },
	Step: func(state, input, output interface{}) (bool, interface{}) {
		in, out, s := input.(regIn), output.(regOut), state.(string)
		switch in.Kind {
		case "read":
			return out.Val == s, s
		case "cas":
			if !out.OK {
				return true, s
			}
			return in.Old == s, in.New
		}
		return true, s
	},
}

func linearizable(ops []opRec) bool {
	h := make([]porcupine.Operation, 0, len(ops))
	for _, o := range ops {
		h = append(h, porcupine.Operation{ClientId: o.Client, Input: regIn{Kind: o.Kind, Old: o.Old, New: o.New},
			Call: o.Call, Output: regOut{OK: o.OK, Val: o.Val}, Return: o.Ret})
	}
	return porcupine.CheckOperations(casRegister, h)
}

func overlap(a, b opRec) bool { return a.Call < b.Ret && b.Call < a.Ret }

// classify names the shape of a non-linearizable history narrowly.
func classify(c Case, r runResult) (string, string) {
	n := len(c.Clients)
	packSuffix := func(o opRec) string {
		for _, p := range r.ops {
			if p.Kind == "pack" && overlap(p, o) {
				return ":overlapping-PackRefs"
			}
		}
		return ""
	}
	// 1. the updates alone (plus the quiescent read)
	var upd []opRec
	for _, o := range r.ops {
		if o.Kind != "read" || o.Client == n {
			upd = append(upd, o)
		}
	}
	if !linearizable(upd) {
		var oks []opRec
		for _, o := range upd {
			if o.Kind == "cas" && o.OK {
				oks = append(oks, o)
			}
		}
		// explained by the trace: a PackRefs read the loose file and removed it later, and a
		// successful CheckAndSet had the loose file open at some moment in between (its write
		// is deleted with the file, or lands in the unlinked inode)
		suffix := ""
		for _, q := range r.ops {
			if q.Kind != "pack" {
				continue
			}
			rd, rm := -1, -1
			for i := q.T0; i < q.T1; i++ {
				ev := r.trace[i]
				if ev.Client == q.Client && ev.Path == "/"+refName {
					if ev.Op == "read" && rd < 0 {
						rd = i
					}
					if ev.Op == "remove" {
						rm = i
					}
				}
			}
			for _, o := range oks {
				if !overlap(q, o) {
					continue
				}
				suffix = ":overlapping-PackRefs"
				op, cl := -1, -1
				for i := o.T0; i < o.T1; i++ {
					ev := r.trace[i]
					if ev.Client == o.Client && ev.Path == "/"+refName {
						if ev.Op == "open" && op < 0 {
							op = i
						}
						if ev.Op == "close" {
							cl = i
						}
					}
				}
				if rd >= 0 && rm > rd && op >= 0 && cl > op && op < rm && rd < cl {
					return "C16/CheckAndSetReference-overlapping-PackRefs/successful-update-lost",
						fmt.Sprintf("%v held the loose file open while %v read it and later removed it", o, q)
				}
			}
		}
		for i, a := range oks {
			for _, b := range oks[i+1:] {
				if a.Old == b.Old {
					return "C16/CheckAndSetReference/two-succeed-against-the-same-value" + suffix,
						fmt.Sprintf("%v and %v both succeeded: one of the two updates is lost", a, b)
				}
			}
		}
		return "C16/CheckAndSetReference/updates-not-linearizable" + suffix, "no order of the successful updates explains the final value"
	}
	// 2. the updates are fine: find a concurrent read that no linearization admits
	for i, o := range r.ops {
		if o.Kind != "read" || o.Client == n {
			continue
		}
		if linearizable(append(append([]opRec{}, upd...), o)) {
			continue
		}
		class := "returns-a-value-it-never-held-meanwhile"
		switch {
		case o.Val == "!notfound":
			class = "returns-not-found"
		case o.Val == staleVal:
			class = "returns-stale-packed-value"
		case o.Val == initVal && c.Init == "packed":
			class = "returns-stale-packed-value"
		case strings.HasPrefix(o.Val, "!"):
			class = "returns-error"
		}
		// explained by the trace: the reader found the loose file empty while a writer was between truncate and write
		writer := -1
		for _, ev := range r.trace[o.T0:o.T1] {
			if ev.Client == o.Client && ev.Op == "read" && ev.Path == "/"+refName && ev.SawEmptyBy >= 0 {
				writer = ev.SawEmptyBy
			}
		}
		inCas := false
		for _, p := range r.ops {
			if p.Client == writer && p.Kind == "cas" && overlap(p, o) {
				inCas = true
			}
		}
		_ = i
		if inCas {
			return "C16/Reference-overlapping-CheckAndSetReference/reads-truncated-loose-file:" + class,
				fmt.Sprintf("%v ran between client %d's Truncate and Write of the loose file", o, writer)
		}
		return "C16/Reference/not-linearizable:" + class + packSuffix(o), fmt.Sprintf("%v fits no linearization", o)
	}
	return "C16/history-not-linearizable", "reads are individually admissible but not together"
}

func check(c Case) evid.Result {
	if len(c.Clients) < 1 || len(c.Clients) > 6 || (c.Init != "loose" && c.Init != "packed" && c.Init != "both") {
		return evid.Result{Discard: true}
	}
	for _, s := range c.Clients {
		for _, o := range s {
			switch o.Kind {
			case "read", "cas-last", "cas-init", "pack":
			default:
				return evid.Result{Discard: true}
			}
		}
	}
	r := run(c)
	res := evid.Result{}
	labels := map[string]bool{"init:" + c.Init: true, fmt.Sprintf("clients:%d", len(c.Clients)): true}
	if r.overrun {
		return evid.Result{Discard: true}
	}
	if r.deadlock {
		res.NonTrivial = true
		res.Fail = evid.Failf("C16/deadlock", "no client is runnable; trace tail: %v", tail(r.trace, 12))
		return res
	}
	okBy := map[int]bool{}
	overlappingRead, hasPack := false, false
	for _, o := range r.ops {
		if o.Kind == "cas" && o.OK {
			okBy[o.Client] = true
		}
		if o.Kind == "pack" {
			hasPack = true
		}
		if o.Kind == "cas" && !o.OK {
			labels["cas-refused"] = true
			if o.Err != "changed" {
				labels["cas-refused:other-error"] = true
			}
		}
	}
	for _, o := range r.ops {
		if o.Kind == "read" && o.Client != len(c.Clients) {
			for _, p := range r.ops {
				if p.Kind == "cas" && p.Client != o.Client && overlap(o, p) {
					overlappingRead = true
				}
			}
		}
	}
	res.NonTrivial = len(okBy) >= 2 && overlappingRead
	if len(okBy) >= 2 {
		labels["successful-cas-by-2+-clients"] = true
	}
	if overlappingRead {
		labels["read-overlaps-cas"] = true
	}
	if hasPack {
		labels["with-PackRefs"] = true
	}
	if r.blockedN > 0 {
		labels["a-client-waited-for-a-lock"] = true
	}
	for l := range labels {
		res.Labels = append(res.Labels, l)
	}
	sort.Strings(res.Labels)
	if !linearizable(r.ops) {
		sig, why := classify(c, r)
		res.NonTrivial = true
		var hs []string
		for _, o := range r.ops {
			hs = append(hs, o.String())
		}
		res.Fail = evid.Failf(sig, "history is not linearizable against a compare-and-swap register starting at INIT (%s): %s\nhistory (logical call/return times):\n  %s\nfilesystem trace tail: %v",
			c.Init, why, strings.Join(hs, "\n  "), tail(r.trace, 30))
	}
	return res
}

func tail(t []traceEv, n int) []string {
	if len(t) > n {
		t = t[len(t)-n:]
	}
	var out []string
	for _, e := range t {
		out = append(out, fmt.Sprintf("c%d:%s %s", e.Client, e.Op, e.Path))
	}
	return out
}

func TestC16(t *testing.T) {
	_ = os.Getenv
	evid.Run(t, evid.Spec[Case]{ID: "C16", Gen: gen, Check: check})
}
