package c16

import (
	"errors"
	"fmt"
	"io"
	"io/fs"
	"os"
	"path"
	"sort"
	"strings"
	"time"

	"github.com/go-git/go-billy/v6"
)

// schedfs: an in-memory filesystem shared by N clients under a cooperative
// scheduler. Exactly one client goroutine runs at any time; every filesystem
// operation that can interact with another client (open, stat, readdir,
// rename, remove, tempfile, read, write, truncate, lock, close) is a
// scheduling point: the client parks BEFORE executing the operation and the
// operation itself then runs atomically, like a system call. flock is
// modelled per open file description on the inode: exclusive, released by
// Unlock or Close, a blocked locker is simply not runnable.

type inode struct {
	data      []byte
	locked    bool
	mtime     int64
	emptiedBy int // client that truncated/created the file empty and has not written yet; -1 otherwise
}

type traceEv struct {
	Client int
	Op     string
	Path   string
	// SawEmptyBy >= 0: a read found the file empty while that other client was between truncate/create and write
	SawEmptyBy int
}

type parkMsg struct {
	id   int
	done bool
}

type world struct {
	files    map[string]*inode
	clock    int64
	tmpN     int
	wake     []chan struct{}
	parked   chan parkMsg
	waitLock []*inode
	trace    []traceEv
	abort    bool
	seq      int64
	blockedN int // how often a client had to wait for a lock
}

func newWorld(n int) *world {
	w := &world{files: map[string]*inode{}, parked: make(chan parkMsg), wake: make([]chan struct{}, n), waitLock: make([]*inode, n)}
	for i := range w.wake {
		w.wake[i] = make(chan struct{})
	}
	return w
}

func (w *world) tick() int64 { w.clock++; return w.clock }

func (w *world) put(p, content string) {
	w.files[norm(p)] = &inode{data: []byte(content), mtime: w.tick(), emptiedBy: -1}
}

var errAborted = errors.New("schedfs: run aborted")

// clientFS is the view of one client; active=false while its Storage is constructed.
type clientFS struct {
	w      *world
	id     int
	active bool
}

func norm(p string) string { return path.Clean("/" + p) }

// yield parks the client until the scheduler resumes it; lock != nil means
// "resume me only when this inode is unlocked".
func (c *clientFS) yield(op, p string, lock *inode) int {
	w := c.w
	if !c.active || w.abort {
		return -1
	}
	w.trace = append(w.trace, traceEv{Client: c.id, Op: op, Path: p, SawEmptyBy: -1})
	idx := len(w.trace) - 1
	if lock != nil && lock.locked {
		w.blockedN++
	}
	w.waitLock[c.id] = lock
	w.parked <- parkMsg{id: c.id}
	<-w.wake[c.id]
	w.waitLock[c.id] = nil
	return idx
}

type sfile struct {
	c      *clientFS
	name   string
	ino    *inode
	off    int64
	own    bool
	closed bool
}

func (f *sfile) Name() string { return strings.TrimPrefix(f.name, "/") }

func (f *sfile) Read(p []byte) (int, error) {
	idx := f.c.yield("read", f.name, nil)
	if len(f.ino.data) == 0 && f.ino.emptiedBy >= 0 && f.ino.emptiedBy != f.c.id && idx >= 0 {
		f.c.w.trace[idx].SawEmptyBy = f.ino.emptiedBy
	}
	if f.off >= int64(len(f.ino.data)) {
		return 0, io.EOF
	}
	n := copy(p, f.ino.data[f.off:])
	f.off += int64(n)
	return n, nil
}

func (f *sfile) ReadAt(p []byte, off int64) (int, error) {
	if off >= int64(len(f.ino.data)) {
		return 0, io.EOF
	}
	n := copy(p, f.ino.data[off:])
	if n < len(p) {
		return n, io.EOF
	}
	return n, nil
}

func (f *sfile) Write(p []byte) (int, error) {
	f.c.yield("write", f.name, nil)
	end := f.off + int64(len(p))
	if end > int64(len(f.ino.data)) {
		nd := make([]byte, end)
		copy(nd, f.ino.data)
		f.ino.data = nd
	}
	copy(f.ino.data[f.off:], p)
	f.off = end
	f.ino.mtime = f.c.w.tick()
	f.ino.emptiedBy = -1
	return len(p), nil
}

func (f *sfile) WriteAt(p []byte, off int64) (int, error) {
	return 0, errors.New("schedfs: WriteAt not modelled")
}

func (f *sfile) Seek(o int64, wh int) (int64, error) {
	switch wh {
	case io.SeekStart:
		f.off = o
	case io.SeekCurrent:
		f.off += o
	case io.SeekEnd:
		f.off = int64(len(f.ino.data)) + o
	}
	return f.off, nil
}

func (f *sfile) Truncate(sz int64) error {
	f.c.yield("truncate", f.name, nil)
	if sz < int64(len(f.ino.data)) {
		f.ino.data = f.ino.data[:sz]
	}
	f.ino.mtime = f.c.w.tick()
	if sz == 0 {
		f.ino.emptiedBy = f.c.id
	}
	return nil
}

func (f *sfile) Close() error {
	if f.closed {
		return os.ErrClosed
	}
	f.c.yield("close", f.name, nil)
	f.closed = true
	if f.own {
		f.ino.locked = false
		f.own = false
	}
	return nil
}

func (f *sfile) Lock() error {
	if f.own {
		return nil
	}
	f.c.yield("lock", f.name, f.ino)
	if f.c.w.abort {
		return errAborted
	}
	if f.ino.locked {
		if !f.c.active { // never happens: storages are constructed before anything is locked
			return errors.New("schedfs: lock held while scheduling is off")
		}
		panic("INFRA: schedfs resumed a client whose lock is still held")
	}
	f.ino.locked = true
	f.own = true
	return nil
}

func (f *sfile) Unlock() error {
	if f.own {
		f.ino.locked = false
		f.own = false
	}
	return nil
}

func (f *sfile) Stat() (fs.FileInfo, error) {
	return finfo{f.name, int64(len(f.ino.data)), f.ino.mtime}, nil
}

type finfo struct {
	n  string
	sz int64
	mt int64
}

func (i finfo) Name() string       { return path.Base(i.n) }
func (i finfo) Size() int64        { return i.sz }
func (i finfo) Mode() fs.FileMode  { return 0o644 }
func (i finfo) ModTime() time.Time { return time.Unix(0, i.mt) }
func (i finfo) IsDir() bool        { return false }
func (i finfo) Sys() any           { return nil }

type dinfo struct{ n string }

func (i dinfo) Name() string               { return path.Base(i.n) }
func (i dinfo) Size() int64                { return 0 }
func (i dinfo) Mode() fs.FileMode          { return fs.ModeDir | 0o755 }
func (i dinfo) ModTime() time.Time         { return time.Unix(0, 0) }
func (i dinfo) IsDir() bool                { return true }
func (i dinfo) Sys() any                   { return nil }
func (i dinfo) Type() fs.FileMode          { return fs.ModeDir }
func (i dinfo) Info() (fs.FileInfo, error) { return i, nil }

type fent struct{ finfo }

func (e fent) Type() fs.FileMode          { return 0 }
func (e fent) Info() (fs.FileInfo, error) { return e.finfo, nil }

func (c *clientFS) Create(n string) (billy.File, error) {
	return c.OpenFile(n, os.O_RDWR|os.O_CREATE|os.O_TRUNC, 0o666)
}

func (c *clientFS) Open(n string) (billy.File, error) { return c.OpenFile(n, os.O_RDONLY, 0) }

func (c *clientFS) OpenFile(n string, flag int, perm fs.FileMode) (billy.File, error) {
	n = norm(n)
	c.yield("open", n, nil)
	w := c.w
	ino, ok := w.files[n]
	if !ok {
		if c.isDir(n) {
			return nil, &fs.PathError{Op: "open", Path: n, Err: errors.New("is a directory")}
		}
		if flag&os.O_CREATE == 0 {
			return nil, &fs.PathError{Op: "open", Path: n, Err: fs.ErrNotExist}
		}
		ino = &inode{mtime: w.tick(), emptiedBy: c.id}
		w.files[n] = ino
	} else if flag&os.O_TRUNC != 0 && len(ino.data) > 0 {
		ino.data = ino.data[:0]
		ino.mtime = w.tick()
		ino.emptiedBy = c.id
	}
	return &sfile{c: c, name: n, ino: ino}, nil
}

func (c *clientFS) isDir(n string) bool {
	if n == "/" {
		return true
	}
	for k := range c.w.files {
		if strings.HasPrefix(k, n+"/") {
			return true
		}
	}
	// the directories every repository has, also when they are empty
	return n == "/refs" || n == "/refs/heads" || n == "/refs/tags"
}

func (c *clientFS) Stat(n string) (fs.FileInfo, error) {
	n = norm(n)
	c.yield("stat", n, nil)
	if ino, ok := c.w.files[n]; ok {
		return finfo{n, int64(len(ino.data)), ino.mtime}, nil
	}
	if c.isDir(n) {
		return dinfo{n}, nil
	}
	return nil, &fs.PathError{Op: "stat", Path: n, Err: fs.ErrNotExist}
}

func (c *clientFS) Lstat(n string) (fs.FileInfo, error) { return c.Stat(n) }

func (c *clientFS) Rename(o, n string) error {
	o, n = norm(o), norm(n)
	c.yield("rename", o+" -> "+n, nil)
	ino, ok := c.w.files[o]
	if !ok {
		return &fs.PathError{Op: "rename", Path: o, Err: fs.ErrNotExist}
	}
	delete(c.w.files, o)
	c.w.files[n] = ino // the replaced inode lives on for those who hold it open (and its lock with it)
	return nil
}

func (c *clientFS) Remove(n string) error {
	n = norm(n)
	c.yield("remove", n, nil)
	if _, ok := c.w.files[n]; !ok {
		return &fs.PathError{Op: "remove", Path: n, Err: fs.ErrNotExist}
	}
	delete(c.w.files, n)
	return nil
}

func (c *clientFS) Join(e ...string) string { return path.Join(e...) }

func (c *clientFS) TempFile(dir, prefix string) (billy.File, error) {
	c.w.tmpN++
	return c.OpenFile(path.Join(dir, fmt.Sprintf("%s%d", prefix, c.w.tmpN)), os.O_RDWR|os.O_CREATE, 0o600)
}

func (c *clientFS) ReadDir(n string) ([]fs.DirEntry, error) {
	n = norm(n)
	c.yield("readdir", n, nil)
	seen := map[string]fs.DirEntry{}
	pre := n + "/"
	if n == "/" {
		pre = "/"
	}
	for k, ino := range c.w.files {
		if strings.HasPrefix(k, pre) {
			rest := k[len(pre):]
			if i := strings.IndexByte(rest, '/'); i >= 0 {
				seen[rest[:i]] = dinfo{pre + rest[:i]}
			} else {
				seen[rest] = fent{finfo{k, int64(len(ino.data)), ino.mtime}}
			}
		}
	}
	for _, d := range []string{"/refs/heads", "/refs/tags"} {
		if strings.HasPrefix(d, pre) && !strings.Contains(d[len(pre):], "/") {
			if _, ok := seen[d[len(pre):]]; !ok {
				seen[d[len(pre):]] = dinfo{d}
			}
		}
	}
	if len(seen) == 0 && !c.isDir(n) {
		return nil, &fs.PathError{Op: "readdir", Path: n, Err: fs.ErrNotExist}
	}
	names := make([]string, 0, len(seen))
	for k := range seen {
		names = append(names, k)
	}
	sort.Strings(names)
	out := make([]fs.DirEntry, 0, len(names))
	for _, k := range names {
		out = append(out, seen[k])
	}
	return out, nil
}

func (c *clientFS) MkdirAll(string, fs.FileMode) error      { return nil }
func (c *clientFS) Symlink(string, string) error            { return billy.ErrNotSupported }
func (c *clientFS) Readlink(string) (string, error)         { return "", billy.ErrNotSupported }
func (c *clientFS) Chroot(string) (billy.Filesystem, error) { return nil, billy.ErrNotSupported }
func (c *clientFS) Root() string                            { return "/" }
func (c *clientFS) Capabilities() billy.Capability          { return billy.DefaultCapabilities }
