// Package c17: every storage backend (memory, filesystem over memfs/osfs under
// every option combination, sha1/sha256) must behave like one abstract
// repository. A generated operation list is executed on an explicit model and
// on each backend; after every step the backend's observable result (value,
// listing as a set, or error kind) must equal the model's.
package c17

import (
	"bytes"
	"crypto/sha1"
	"crypto/sha256"
	"encoding/hex"
	"errors"
	"fmt"
	"io"
	"os"
	"sort"
	"strings"
	"testing"
	"time"

	"github.com/go-git/go-billy/v6"
	"github.com/go-git/go-billy/v6/memfs"
	"github.com/go-git/go-billy/v6/osfs"
	"github.com/go-git/go-git/v6/config"
	"github.com/go-git/go-git/v6/plumbing"
	"github.com/go-git/go-git/v6/plumbing/cache"
	"github.com/go-git/go-git/v6/plumbing/filemode"
	formatcfg "github.com/go-git/go-git/v6/plumbing/format/config"
	"github.com/go-git/go-git/v6/plumbing/format/index"
	"github.com/go-git/go-git/v6/plumbing/format/packfile"
	"github.com/go-git/go-git/v6/plumbing/format/reflog"
	"github.com/go-git/go-git/v6/plumbing/storer"
	"github.com/go-git/go-git/v6/storage"
	"github.com/go-git/go-git/v6/storage/filesystem"
	"github.com/go-git/go-git/v6/storage/memory"
	"github.com/go-git/go-git/v6/x/fdpool"
	"pgregory.net/rapid"

	"verif/harness/lib/evid"
)

// ---------------------------------------------------------------- case

// FSCfg is one filesystem backend configuration.
type FSCfg struct {
	OSFS       bool  // osfs under scratch (else billy memfs)
	Excl       bool  // Options.ExclusiveAccess
	MemIdx     bool  // Options.UseInMemoryIdx
	LOT        int64 // Options.LargeObjectThreshold
	Cache      int   // object cache bytes; 0 = default LRU
	NoIdxCache bool  // IndexCache that never caches (else default stat cache)
	HighMem    bool  // Options.HighMemoryMode
	Pool       int   // fd pool: 0 = default(nil), -1 = fdpool.New(0), n>0 = fdpool.New(n)
}

// Op is one storage API call; integer fields are indices into the small
// universes below (resolved modulo their size).
type Op struct {
	K string // kind
	I int    // primary index (object / ref name / reflog name / module)
	J int    // secondary index (value, type selector, old-mode ...)
	L []int  // list argument (pack members, shallow list, index entries)
	B bool   // flag (ref-delta pack, chunked raw write ...)
}

// Case is a full scenario.
type Case struct {
	SHA256 bool
	NoMem  bool // witness files only: skip the memory backend
	FS     []FSCfg
	Ops    []Op
}

// ---------------------------------------------------------------- universes

const nObj = 12

var objTypes = [nObj]plumbing.ObjectType{
	plumbing.BlobObject, plumbing.BlobObject, plumbing.BlobObject, plumbing.BlobObject,
	plumbing.BlobObject, plumbing.BlobObject, plumbing.TreeObject, plumbing.TreeObject,
	plumbing.CommitObject, plumbing.CommitObject, plumbing.TagObject, plumbing.BlobObject,
}

func hsum(sha256fmt bool, t plumbing.ObjectType, b []byte) string {
	hdr := []byte(fmt.Sprintf("%s %d\x00", t.String(), len(b)))
	if sha256fmt {
		h := sha256.New()
		h.Write(hdr)
		h.Write(b)
		return hex.EncodeToString(h.Sum(nil))
	}
	h := sha1.New()
	h.Write(hdr)
	h.Write(b)
	return hex.EncodeToString(h.Sum(nil))
}

func longText(seed string, n int) []byte {
	var sb bytes.Buffer
	for i := 0; sb.Len() < n; i++ {
		fmt.Fprintf(&sb, "line %04d of %s: the quick brown fox jumps over the lazy dog\n", i, seed)
	}
	return sb.Bytes()[:n]
}

// universe returns contents and ids of the object universe for a format.
func universe(s256 bool) (content [nObj][]byte, id [nObj]string) {
	content[0] = []byte{}
	content[1] = []byte("abc")
	content[2] = longText("x", 40)
	content[3] = append(longText("x", 40), '!')
	content[4] = longText("big", 2000)
	content[5] = append(append([]byte{}, longText("big", 1500)...), longText("tail", 700)...)
	content[11] = longText("huge", 9000)
	for _, i := range []int{0, 1, 2, 3, 4, 5, 11} {
		id[i] = hsum(s256, objTypes[i], content[i])
	}
	content[6] = []byte{} // empty tree
	id[6] = hsum(s256, plumbing.TreeObject, content[6])
	raw, _ := hex.DecodeString(id[1])
	content[7] = append([]byte("100644 f\x00"), raw...)
	id[7] = hsum(s256, plumbing.TreeObject, content[7])
	content[8] = []byte("tree " + id[6] + "\nauthor A <a@b> 1 +0000\ncommitter A <a@b> 1 +0000\n\nroot\n")
	id[8] = hsum(s256, plumbing.CommitObject, content[8])
	content[9] = []byte("tree " + id[7] + "\nparent " + id[8] + "\nauthor A <a@b> 2 +0000\ncommitter A <a@b> 2 +0000\n\nsecond\n")
	id[9] = hsum(s256, plumbing.CommitObject, content[9])
	content[10] = []byte("object " + id[9] + "\ntype commit\ntag v1\ntagger A <a@b> 3 +0000\n\nrelease\n")
	id[10] = hsum(s256, plumbing.TagObject, content[10])
	return
}

var refNames = []plumbing.ReferenceName{"HEAD", "refs/heads/a", "refs/heads/b", "refs/tags/t", "refs/remotes/o/m", "refs/x/sym"}
var symTargets = []plumbing.ReferenceName{"refs/heads/a", "refs/heads/b", "refs/heads/none"}
var typeSel = []plumbing.ObjectType{plumbing.AnyObject, plumbing.CommitObject, plumbing.TreeObject, plumbing.BlobObject, plumbing.TagObject}
var rlNames = []plumbing.ReferenceName{"HEAD", "refs/heads/a", "refs/remotes/o/m"}
var modNames = []string{"m", "n"}
var idxPaths = []string{"a.txt", "b/c.txt", "b/d", "z"}
var lots = []int64{0, 0, 16, 1000}
var caches = []int{0, 0, 1, 128, 4096}
var pools = []int{0, 0, -1, 1, 2}

// refValue: 0..2 hash refs (ids of objects 8, 9, 1), 3..5 symbolic.
func refValue(name plumbing.ReferenceName, v int, ids *[nObj]string) *plumbing.Reference {
	v = mod(v, 6)
	switch v {
	case 0:
		return plumbing.NewHashReference(name, plumbing.NewHash(ids[8]))
	case 1:
		return plumbing.NewHashReference(name, plumbing.NewHash(ids[9]))
	case 2:
		return plumbing.NewHashReference(name, plumbing.NewHash(ids[1]))
	}
	return plumbing.NewSymbolicReference(name, symTargets[v-3])
}

func refStr(r *plumbing.Reference) string {
	if r == nil {
		return "<nil>"
	}
	if r.Type() == plumbing.SymbolicReference {
		return "sym:" + string(r.Target())
	}
	if r.Type() == plumbing.HashReference {
		return "hash:" + r.Hash().String()
	}
	return fmt.Sprintf("invalid-type-%d", r.Type())
}

func mod(i, n int) int {
	i %= n
	if i < 0 {
		i += n
	}
	return i
}

// ---------------------------------------------------------------- generator

var opKinds = []string{
	"objset", "objset", "objraw", "pack", "pack", "objget", "objget", "objget", "objhas", "objsize", "objiter", "objmiss", "objprefix", "objeach",
	"refset", "refset", "refcas", "refget", "refget", "refiter", "refdel",
	"idxset", "idxget", "cfgset", "cfgget", "shset", "shget",
	"rlapp", "rlget", "rldel", "modobj", "modref", "modget", "reopen",
}

const (
	sigCASMem = "C17/CheckAndSetReference-absent-ref-nonnil-old:memory-sets-it"
	sigCASFS  = "C17/IterReferences-after-CheckAndSetReference-absent-ref-nonnil-old:filesystem-ref-file-is-empty"
	sigModFmt = "C17/Module-object-id:memory-module-ignores-sha256-object-format"
	sigAlias  = "C17/listing-after-HashesWithPrefix-matching-packed-object:filesystem-ExclusiveAccess-loose-object-list-overwritten"
	sigPrefix = "C17/HashesWithPrefix-prefix-longer-than-20-bytes:filesystem-sha256-loose-object-not-listed"
)

func genFS(t *rapid.T) FSCfg {
	return FSCfg{
		OSFS:       rapid.Bool().Draw(t, "osfs"),
		Excl:       rapid.Bool().Draw(t, "excl"),
		MemIdx:     rapid.Bool().Draw(t, "memidx"),
		LOT:        rapid.SampledFrom(lots).Draw(t, "lot"),
		Cache:      rapid.SampledFrom(caches).Draw(t, "cache"),
		NoIdxCache: rapid.Bool().Draw(t, "noidxcache"),
		HighMem:    rapid.Bool().Draw(t, "highmem"),
		Pool:       rapid.SampledFrom(pools).Draw(t, "pool"),
	}
}

func gen(t *rapid.T, r *evid.Recorder) Case {
	c := Case{SHA256: rapid.Bool().Draw(t, "sha256")}
	nfs := rapid.IntRange(1, 3).Draw(t, "nfs")
	for i := 0; i < nfs; i++ {
		c.FS = append(c.FS, genFS(t))
	}
	avoidCAS := r.IsKnown(sigCASMem) || r.IsKnown(sigCASFS)
	avoidMod := r.IsKnown(sigModFmt)
	present := map[int]bool{} // ref name index -> present (generator-side mirror of the model)
	gAny, gLoose := map[int]bool{}, map[int]bool{}
	anyExcl := false
	for _, f := range c.FS {
		anyExcl = anyExcl || f.Excl
	}
	avoidAlias := r.IsKnown(sigAlias) && anyExcl
	n := rapid.IntRange(4, 30).Draw(t, "nops")
	for i := 0; i < n; i++ {
		k := rapid.SampledFrom(opKinds).Draw(t, "k")
		op := Op{K: k}
		switch k {
		case "objset", "objhas", "objsize":
			op.I = rapid.IntRange(0, nObj-1).Draw(t, "obj")
			if k == "objset" {
				gAny[op.I], gLoose[op.I] = true, true
			}
		case "objraw":
			op.I = rapid.IntRange(0, nObj-1).Draw(t, "obj")
			op.B = rapid.Bool().Draw(t, "chunked")
			gAny[op.I], gLoose[op.I] = true, true
		case "objget":
			op.I = rapid.IntRange(0, nObj-1).Draw(t, "obj")
			op.J = rapid.IntRange(0, len(typeSel)-1).Draw(t, "type")
		case "objiter":
			op.J = rapid.IntRange(0, len(typeSel)-1).Draw(t, "type")
		case "objprefix":
			op.I = rapid.IntRange(0, nObj-1).Draw(t, "obj")
			op.J = rapid.IntRange(0, 4).Draw(t, "plen")
			if c.SHA256 && op.J == 3 && r.IsKnown(sigPrefix) {
				op.J = 4
			}
			if avoidAlias && len(gAny) > len(gLoose) { // a packed-only object could match the prefix
				op.K = "objhas"
			}
		case "objmiss":
			op.J = rapid.IntRange(0, 3).Draw(t, "how")
		case "pack":
			op.L = rapid.SliceOfNDistinct(rapid.IntRange(0, nObj-1), 1, 6, rapid.ID[int]).Draw(t, "members")
			op.B = rapid.Bool().Draw(t, "refdelta")
			op.J = rapid.SampledFrom([]int{0, 10}).Draw(t, "window")
			for _, v := range op.L {
				gAny[v] = true
			}
		case "refset":
			op.I = rapid.IntRange(0, len(refNames)-1).Draw(t, "ref")
			op.J = rapid.IntRange(0, 5).Draw(t, "val")
			present[op.I] = true
		case "refcas":
			op.I = rapid.IntRange(0, len(refNames)-1).Draw(t, "ref")
			op.J = rapid.IntRange(0, 5).Draw(t, "val")
			m := rapid.IntRange(0, 2).Draw(t, "oldmode") // 0 nil old, 1 current value, 2 other hash
			if !present[op.I] && avoidCAS {
				m = 0
			}
			op.L = []int{m}
			if m != 2 {
				present[op.I] = true
			}
		case "refget":
			op.I = rapid.IntRange(0, len(refNames)-1).Draw(t, "ref")
		case "refdel":
			op.I = rapid.IntRange(0, len(refNames)-1).Draw(t, "ref")
			delete(present, op.I)
		case "idxset":
			op.L = rapid.SliceOfNDistinct(rapid.IntRange(0, len(idxPaths)*2-1), 0, 5, func(v int) int { return v % len(idxPaths) }).Draw(t, "entries")
			op.J = rapid.SampledFrom([]int{2, 2, 3, 4}).Draw(t, "version")
		case "cfgset":
			op.J = rapid.IntRange(0, 7).Draw(t, "variant")
		case "shset":
			op.L = rapid.SliceOfN(rapid.IntRange(0, nObj-1), 0, 3).Draw(t, "shallows")
		case "rlapp":
			op.I = rapid.IntRange(0, len(rlNames)-1).Draw(t, "rl")
			op.J = rapid.IntRange(0, 5).Draw(t, "entry")
		case "rlget", "rldel":
			op.I = rapid.IntRange(0, len(rlNames)-1).Draw(t, "rl")
		case "modobj":
			op.I = rapid.IntRange(0, len(modNames)-1).Draw(t, "mod")
			op.J = rapid.IntRange(0, nObj-1).Draw(t, "obj")
			if avoidMod && c.SHA256 {
				op.K = "modref"
				op.J = 3 + op.J%3 // symbolic values only: no object ids cross the module boundary
			}
		case "modref":
			op.I = rapid.IntRange(0, len(modNames)-1).Draw(t, "mod")
			op.J = rapid.IntRange(0, 5).Draw(t, "val")
		case "modget":
			op.I = rapid.IntRange(0, len(modNames)-1).Draw(t, "mod")
			op.J = rapid.IntRange(0, nObj-1).Draw(t, "obj")
		}
		c.Ops = append(c.Ops, op)
	}
	return c
}

// ---------------------------------------------------------------- model

type model struct {
	s256    bool
	content [nObj][]byte
	id      [nObj]string
	obj     map[int]bool
	loose   map[int]bool // written as individual objects (not only inside a pack)
	refs    map[plumbing.ReferenceName]string
	idx     string
	cfg     string
	shallow string
	rl      map[plumbing.ReferenceName][]string
	mods    map[string]*model
}

func newModel(s256 bool) *model {
	m := &model{s256: s256, obj: map[int]bool{}, loose: map[int]bool{}, refs: map[plumbing.ReferenceName]string{}, rl: map[plumbing.ReferenceName][]string{}, mods: map[string]*model{}}
	m.content, m.id = universe(s256)
	m.idx = "v2|"
	m.cfg = cfgStr(buildCfg(-1, s256))
	return m
}

func (m *model) module(name string) *model {
	if mm, ok := m.mods[name]; ok {
		return mm
	}
	mm := newModel(m.s256)
	m.mods[name] = mm
	return mm
}

// ---------------------------------------------------------------- backends

type nopIndexCache struct{}

func (nopIndexCache) Get(time.Time, int64) *index.Index  { return nil }
func (nopIndexCache) Set(*index.Index, time.Time, int64) {}
func (nopIndexCache) Clear()                             {}

type fullStorer interface {
	storage.Storer
	storer.ReflogStorer
}

type backend struct {
	name   string
	class  string // "memory" | "filesystem"
	excl   bool
	st     fullStorer
	reopen func() fullStorer
	close  func()
}

func objFormat(s256 bool) formatcfg.ObjectFormat {
	if s256 {
		return formatcfg.SHA256
	}
	return formatcfg.SHA1
}

func scratchDir() string {
	base := os.Getenv("VERIF_SCRATCH")
	if base == "" {
		base = "/dev/shm"
	}
	d, err := os.MkdirTemp(base, "c17-")
	if err != nil {
		panic("INFRA: scratch: " + err.Error())
	}
	return d
}

func newFS(cfg FSCfg, s256 bool, i int) *backend {
	var fs billy.Filesystem
	dir := ""
	if cfg.OSFS {
		dir = scratchDir()
		fs = osfs.New(dir)
	} else {
		fs = memfs.New()
	}
	var pool *fdpool.Pool
	if cfg.Pool == -1 {
		pool = fdpool.New(0)
	} else if cfg.Pool > 0 {
		pool = fdpool.New(cfg.Pool)
	}
	open := func() fullStorer {
		var oc cache.Object
		if cfg.Cache > 0 {
			oc = cache.NewObjectLRU(cache.FileSize(cfg.Cache))
		} else {
			oc = cache.NewObjectLRUDefault()
		}
		o := filesystem.Options{ExclusiveAccess: cfg.Excl, UseInMemoryIdx: cfg.MemIdx, LargeObjectThreshold: cfg.LOT,
			HighMemoryMode: cfg.HighMem, Pool: pool}
		if s256 {
			o.ObjectFormat = formatcfg.SHA256
		}
		if cfg.NoIdxCache {
			o.IndexCache = nopIndexCache{}
		}
		return filesystem.NewStorageWithOptions(fs, oc, o)
	}
	b := &backend{name: fmt.Sprintf("fs%d%+v", i, cfg), class: "filesystem", excl: cfg.Excl}
	st := open().(*filesystem.Storage)
	if err := st.Init(); err != nil {
		panic("INFRA: Init: " + err.Error())
	}
	b.st = st
	b.reopen = func() fullStorer {
		if c, ok := b.st.(io.Closer); ok {
			_ = c.Close()
		}
		return open()
	}
	b.close = func() {
		if c, ok := b.st.(io.Closer); ok {
			_ = c.Close()
		}
		if dir != "" {
			os.RemoveAll(dir)
		}
	}
	return b
}

func newMem(s256 bool) *backend {
	var st *memory.Storage
	if s256 {
		st = memory.NewStorage(memory.WithObjectFormat(formatcfg.SHA256))
	} else {
		st = memory.NewStorage()
	}
	return &backend{name: "memory", class: "memory", st: st, close: func() {}}
}

// ---------------------------------------------------------------- observations

func errKind(err error) string {
	switch {
	case err == nil:
		return "ok"
	case errors.Is(err, plumbing.ErrObjectNotFound):
		return "ErrObjectNotFound"
	case errors.Is(err, plumbing.ErrReferenceNotFound):
		return "ErrReferenceNotFound"
	case errors.Is(err, storage.ErrReferenceHasChanged):
		return "ErrReferenceHasChanged"
	case errors.Is(err, config.ErrInvalid), errors.Is(err, config.ErrRemoteConfigEmptyURL), errors.Is(err, config.ErrRemoteConfigEmptyName):
		return "ErrInvalidConfig"
	}
	return "other-error(" + err.Error() + ")"
}

func readObj(o plumbing.EncodedObject) (string, error) {
	r, err := o.Reader()
	if err != nil {
		return "", err
	}
	defer r.Close()
	b, err := io.ReadAll(r)
	if err != nil {
		return "", err
	}
	h := sha1.Sum(b)
	return fmt.Sprintf("%s/%d/%s/content-sha1:%x/len:%d", o.Type(), o.Size(), o.Hash(), h[:6], len(b)), nil
}

func expectObj(m *model, i int) string {
	h := sha1.Sum(m.content[i])
	return fmt.Sprintf("%s/%d/%s/content-sha1:%x/len:%d", objTypes[i], len(m.content[i]), m.id[i], h[:6], len(m.content[i]))
}

func setObj(st storer.EncodedObjectStorer, t plumbing.ObjectType, b []byte) (plumbing.Hash, error) {
	o := st.NewEncodedObject()
	o.SetType(t)
	o.SetSize(int64(len(b)))
	w, err := o.Writer()
	if err != nil {
		return plumbing.ZeroHash, err
	}
	if _, err := w.Write(b); err != nil {
		return plumbing.ZeroHash, err
	}
	if err := w.Close(); err != nil {
		return plumbing.ZeroHash, err
	}
	return st.SetEncodedObject(o)
}

func buildPack(m *model, members []int, refDelta bool, window int) []byte {
	var src *memory.Storage
	if m.s256 {
		src = memory.NewStorage(memory.WithObjectFormat(formatcfg.SHA256))
	} else {
		src = memory.NewStorage()
	}
	var hs []plumbing.Hash
	for _, i := range members {
		h, err := setObj(src, objTypes[i], m.content[i])
		if err != nil || h.String() != m.id[i] {
			panic(fmt.Sprintf("INFRA: pack source object %d: %v %s != %s", i, err, h, m.id[i]))
		}
		hs = append(hs, h)
	}
	var buf bytes.Buffer
	if _, err := packfile.NewEncoder(&buf, src, refDelta).Encode(hs, uint(window)); err != nil {
		panic("INFRA: pack encode: " + err.Error())
	}
	return buf.Bytes()
}

func listObjs(st storer.EncodedObjectStorer, t plumbing.ObjectType) (map[string]string, string) {
	it, err := st.IterEncodedObjects(t)
	if err != nil {
		return nil, "iter-error:" + errKind(err)
	}
	defer it.Close()
	got := map[string]string{}
	for {
		o, err := it.Next()
		if err == io.EOF {
			return got, ""
		}
		if err != nil {
			return nil, "next-error:" + errKind(err)
		}
		s, err := readObj(o)
		if err != nil {
			return nil, "read-error:" + errKind(err)
		}
		id := o.Hash().String()
		if _, dup := got[id]; dup {
			return nil, "duplicate:" + id
		}
		got[id] = s
	}
}

func sortedKeys(m map[string]string) []string {
	ks := make([]string, 0, len(m))
	for k := range m {
		ks = append(ks, k)
	}
	sort.Strings(ks)
	return ks
}

func mapStr(m map[string]string) string {
	var sb strings.Builder
	for _, k := range sortedKeys(m) {
		sb.WriteString(k + "=" + m[k] + ";")
	}
	return sb.String()
}

// index

func buildIdx(m *model, l []int, version int) *index.Index {
	idx := &index.Index{Version: uint32(version)}
	es := map[string]*index.Entry{}
	for _, v := range l {
		v = mod(v, len(idxPaths)*2)
		p := idxPaths[v%len(idxPaths)]
		e := &index.Entry{Name: p, Hash: plumbing.NewHash(m.id[v%6]), Mode: filemode.Regular, Size: uint32(len(m.content[v%6])),
			CreatedAt: time.Unix(1700000000+int64(v), 5), ModifiedAt: time.Unix(1700000100+int64(v), 7), UID: 1000, GID: 100, Dev: 3, Inode: uint32(40 + v)}
		if v >= len(idxPaths) {
			e.Mode = filemode.Executable
			if version >= 3 {
				e.SkipWorktree = true
			}
		}
		es[p] = e
	}
	var ps []string
	for p := range es {
		ps = append(ps, p)
	}
	sort.Strings(ps)
	for _, p := range ps {
		idx.Entries = append(idx.Entries, es[p])
	}
	return idx
}

func idxStr(idx *index.Index) string {
	if idx == nil {
		return "<nil>"
	}
	var es []string
	for _, e := range idx.Entries {
		es = append(es, fmt.Sprintf("%s:%d:%s:%o:%d:%v:%v:%d.%d:%d.%d:%d:%d:%d:%d", e.Name, e.Stage, e.Hash, uint32(e.Mode), e.Size, e.SkipWorktree, e.IntentToAdd,
			e.CreatedAt.Unix(), e.CreatedAt.Nanosecond(), e.ModifiedAt.Unix(), e.ModifiedAt.Nanosecond(), e.UID, e.GID, e.Dev, e.Inode))
	}
	sort.Strings(es)
	ext := ""
	if idx.Cache != nil || idx.ResolveUndo != nil || idx.EndOfIndexEntry != nil {
		ext = "|ext"
	}
	return fmt.Sprintf("v%d|%s%s", idx.Version, strings.Join(es, ","), ext)
}

// config

// buildCfg returns a fresh config for a variant; -1 = the never-set default.
// Variant 6 and 7 are invalid (Validate fails).
func buildCfg(v int, s256 bool) *config.Config {
	c := config.NewConfig()
	if s256 {
		c.Core.RepositoryFormatVersion = formatcfg.Version1
		c.Extensions.ObjectFormat = formatcfg.SHA256
	}
	switch v {
	case 0:
		c.Core.IsBare = true
	case 1:
		c.User.Name = "Jane Roe"
		c.User.Email = "jane@example.com"
	case 2:
		c.Remotes["origin"] = &config.RemoteConfig{Name: "origin", URLs: []string{"https://example.com/r.git"},
			Fetch: []config.RefSpec{"+refs/heads/*:refs/remotes/origin/*"}}
	case 3:
		c.Remotes["origin"] = &config.RemoteConfig{Name: "origin", URLs: []string{"https://example.com/r.git", "ssh://git@example.com/r.git"},
			Fetch: []config.RefSpec{"+refs/heads/*:refs/remotes/origin/*"}}
		c.Remotes["up"] = &config.RemoteConfig{Name: "up", URLs: []string{"/srv/up.git"}, Fetch: []config.RefSpec{"+refs/heads/*:refs/remotes/up/*"}}
		c.Branches["main"] = &config.Branch{Name: "main", Remote: "origin", Merge: "refs/heads/main"}
	case 4:
		c.Init.DefaultBranch = "trunk"
		c.Core.IsBare = true
		c.User.Name = "X"
	case 5:
		c.Branches["dev"] = &config.Branch{Name: "dev", Remote: "up", Merge: "refs/heads/dev", Rebase: "true"}
	case 6:
		c.Remotes["bad"] = &config.RemoteConfig{Name: "bad"} // no URL: invalid
	case 7:
		c.Remotes["x"] = &config.RemoteConfig{Name: "y", URLs: []string{"https://example.com/x.git"}} // name mismatch: invalid
	}
	return c
}

func cfgStr(c *config.Config) string {
	if c == nil {
		return "<nil>"
	}
	of := c.Extensions.ObjectFormat
	if of == formatcfg.UnsetObjectFormat {
		of = formatcfg.SHA1
	}
	var rs []string
	for n, r := range c.Remotes {
		var fs []string
		for _, f := range r.Fetch {
			fs = append(fs, string(f))
		}
		rs = append(rs, fmt.Sprintf("%s{%s|%s|%s}", n, r.Name, strings.Join(r.URLs, ","), strings.Join(fs, ",")))
	}
	sort.Strings(rs)
	var bs []string
	for n, b := range c.Branches {
		bs = append(bs, fmt.Sprintf("%s{%s|%s|%s|%s}", n, b.Name, b.Remote, b.Merge, b.Rebase))
	}
	sort.Strings(bs)
	return fmt.Sprintf("bare=%v user=%s<%s> init=%s of=%s remotes=%v branches=%v", c.Core.IsBare, c.User.Name, c.User.Email, c.Init.DefaultBranch, of, rs, bs)
}

// reflog

func buildRL(m *model, v int) *reflog.Entry {
	v = mod(v, 6)
	e := &reflog.Entry{
		OldHash:   plumbing.NewHash(m.id[8]),
		NewHash:   plumbing.NewHash(m.id[9]),
		Committer: reflog.Signature{Name: "C O Mitter", Email: "c@example.com", When: time.Unix(1700000000+int64(v)*61, 0).In(time.FixedZone("", (v-2)*3600))},
		Message:   fmt.Sprintf("commit: change %d", v),
	}
	if v == 0 {
		e.OldHash = plumbing.ZeroHash
		e.Message = "branch: Created from HEAD"
	}
	if v == 5 {
		e.OldHash, e.NewHash = e.NewHash, e.OldHash
		e.Message = "reset: moving to HEAD~1"
	}
	return e
}

func hashStr(h plumbing.Hash) string {
	if h.IsZero() {
		return "zero"
	}
	return h.String()
}

func rlStr(e *reflog.Entry) string {
	if e == nil {
		return "<nil>"
	}
	_, off := e.Committer.When.Zone()
	return fmt.Sprintf("%s>%s %s <%s> %d %+d [%s]", hashStr(e.OldHash), hashStr(e.NewHash), e.Committer.Name, e.Committer.Email, e.Committer.When.Unix(), off, e.Message)
}

// ---------------------------------------------------------------- step

// divergence describes one disagreement of a backend with the model.
type divergence struct {
	class string // short class used in the signature
	msg   string
}

func diff(class, want, got string) *divergence {
	if want == got {
		return nil
	}
	return &divergence{class: class, msg: fmt.Sprintf("want %s, got %s", want, got)}
}

func diffSets(what string, want, got map[string]string) *divergence {
	for _, k := range sortedKeys(want) {
		g, ok := got[k]
		if !ok {
			return &divergence{class: what + "-missing", msg: fmt.Sprintf("listing lacks %s=%s (want {%s}, got {%s})", k, want[k], mapStr(want), mapStr(got))}
		}
		if g != want[k] {
			return &divergence{class: what + "-wrong-value", msg: fmt.Sprintf("listing has %s=%s, want %s", k, g, want[k])}
		}
	}
	for _, k := range sortedKeys(got) {
		if _, ok := want[k]; !ok {
			return &divergence{class: what + "-extra", msg: fmt.Sprintf("listing invents %s=%s (want {%s})", k, got[k], mapStr(want))}
		}
	}
	return nil
}

func listRefs(st storer.ReferenceStorer) (map[string]string, string) {
	it, err := st.IterReferences()
	if err != nil {
		return nil, "iter-error:" + errKind(err)
	}
	defer it.Close()
	got := map[string]string{}
	for {
		r, err := it.Next()
		if err == io.EOF {
			return got, ""
		}
		if err != nil {
			return nil, "next-error:" + errKind(err)
		}
		if _, dup := got[string(r.Name())]; dup {
			return nil, "duplicate:" + string(r.Name())
		}
		got[string(r.Name())] = refStr(r)
	}
}

// apply runs op on the backend storage and compares with the model m (which
// has NOT yet been updated for this op); update tells the caller whether to
// apply the model transition (done once by the driver, after all backends).
func apply(m *model, st fullStorer, b *backend, op Op) *divergence {
	switch op.K {
	case "objset":
		i := mod(op.I, nObj)
		h, err := setObj(st, objTypes[i], m.content[i])
		return diff("result", "ok/"+m.id[i], errKind(err)+"/"+h.String())
	case "objraw":
		i := mod(op.I, nObj)
		w, err := st.RawObjectWriter(objTypes[i], int64(len(m.content[i])))
		if err != nil {
			return diff("open", "ok", errKind(err))
		}
		data := m.content[i]
		if op.B && len(data) > 1 {
			if _, err := w.Write(data[:len(data)/2]); err != nil {
				return diff("write", "ok", errKind(err))
			}
			data = data[len(data)/2:]
		}
		if _, err := w.Write(data); err != nil {
			return diff("write", "ok", errKind(err))
		}
		return diff("close", "ok", errKind(w.Close()))
	case "pack":
		var ms []int
		for _, v := range op.L {
			ms = append(ms, mod(v, nObj))
		}
		if len(ms) == 0 {
			return nil
		}
		pk := buildPack(m, ms, op.B, op.J)
		return diff("result", "ok", errKind(packfile.UpdateObjectStorage(st, bytes.NewReader(pk))))
	case "objget":
		i := mod(op.I, nObj)
		t := typeSel[mod(op.J, len(typeSel))]
		want := "ErrObjectNotFound"
		if m.obj[i] && (t == plumbing.AnyObject || t == objTypes[i]) {
			want = expectObj(m, i)
		}
		o, err := st.EncodedObject(t, plumbing.NewHash(m.id[i]))
		if err != nil {
			return diff("result", want, errKind(err))
		}
		s, err := readObj(o)
		if err != nil {
			return diff("read", want, errKind(err))
		}
		return diff("result", want, s)
	case "objhas":
		i := mod(op.I, nObj)
		want := "ErrObjectNotFound"
		if m.obj[i] {
			want = "ok"
		}
		return diff("result", want, errKind(st.HasEncodedObject(plumbing.NewHash(m.id[i]))))
	case "objsize":
		i := mod(op.I, nObj)
		want := "ErrObjectNotFound"
		if m.obj[i] {
			want = fmt.Sprintf("ok/%d", len(m.content[i]))
		}
		sz, err := st.EncodedObjectSize(plumbing.NewHash(m.id[i]))
		got := errKind(err)
		if err == nil {
			got = fmt.Sprintf("ok/%d", sz)
		}
		return diff("result", want, got)
	case "objmiss":
		// an id outside the universe
		h := plumbing.NewHash(hsum(m.s256, plumbing.BlobObject, []byte(fmt.Sprintf("never stored %d", op.J))))
		switch mod(op.J, 4) {
		case 0:
			return diff("has", "ErrObjectNotFound", errKind(st.HasEncodedObject(h)))
		case 1:
			_, err := st.EncodedObjectSize(h)
			return diff("size", "ErrObjectNotFound", errKind(err))
		case 2:
			_, err := st.EncodedObject(plumbing.AnyObject, h)
			return diff("get", "ErrObjectNotFound", errKind(err))
		default:
			_, err := st.EncodedObject(plumbing.BlobObject, h)
			return diff("get-typed", "ErrObjectNotFound", errKind(err))
		}
	case "objiter":
		t := typeSel[mod(op.J, len(typeSel))]
		want := map[string]string{}
		for i := 0; i < nObj; i++ {
			if m.obj[i] && (t == plumbing.AnyObject || t == objTypes[i]) {
				want[m.id[i]] = expectObj(m, i)
			}
		}
		got, e := listObjs(st, t)
		if e != "" {
			return &divergence{class: strings.SplitN(e, ":", 2)[0], msg: e}
		}
		return diffSets("listing", want, got)
	case "objprefix":
		// optional interface (filesystem storage): prefix search must list exactly the stored ids with that prefix
		ps, ok := st.(interface {
			HashesWithPrefix([]byte) ([]plumbing.Hash, error)
		})
		if !ok {
			return nil
		}
		full, _ := hex.DecodeString(m.id[mod(op.I, nObj)])
		prefix := full[:[]int{1, 2, 4, len(full), 20}[mod(op.J, 5)]]
		want := map[string]string{}
		for i := 0; i < nObj; i++ {
			if fb, _ := hex.DecodeString(m.id[i]); m.obj[i] && bytes.HasPrefix(fb, prefix) {
				want[m.id[i]] = ""
			}
		}
		hs, err := ps.HashesWithPrefix(prefix)
		if err != nil {
			return diff("result", "ok", errKind(err))
		}
		got := map[string]string{}
		for _, h := range hs {
			if _, dup := got[h.String()]; dup {
				return &divergence{class: "duplicate", msg: "HashesWithPrefix lists " + h.String() + " twice"}
			}
			got[h.String()] = ""
		}
		return diffSets("listing", want, got)
	case "objeach":
		// LooseObjectStorer: "objects only inside pack files may be omitted"
		ls, ok := st.(storer.LooseObjectStorer)
		if !ok {
			return nil
		}
		got := map[string]string{}
		err := ls.ForEachObjectHash(func(h plumbing.Hash) error {
			got[h.String()] = ""
			return nil
		})
		if err != nil {
			return diff("result", "ok", errKind(err))
		}
		for i := 0; i < nObj; i++ {
			_, listed := got[m.id[i]]
			if m.loose[i] && !listed {
				return &divergence{class: "listing-missing", msg: fmt.Sprintf("ForEachObjectHash omits individually written object %s", m.id[i])}
			}
			delete(got, m.id[i])
			if !m.obj[i] && listed {
				return &divergence{class: "listing-extra", msg: fmt.Sprintf("ForEachObjectHash invents %s", m.id[i])}
			}
		}
		if len(got) > 0 {
			return &divergence{class: "listing-extra", msg: "ForEachObjectHash invents " + mapStr(got)}
		}
		return nil
	case "refset":
		n := refNames[mod(op.I, len(refNames))]
		return diff("result", "ok", errKind(st.SetReference(refValue(n, op.J, &m.id))))
	case "refcas":
		n := refNames[mod(op.I, len(refNames))]
		nr := refValue(n, op.J, &m.id)
		mode := 0
		if len(op.L) > 0 {
			mode = mod(op.L[0], 3)
		}
		cur, has := m.refs[n]
		var old *plumbing.Reference
		want := "ok"
		switch mode {
		case 1: // the current value (when absent: any hash value)
			if has {
				old = refFromStr(n, cur)
			} else {
				old = refValue(n, 0, &m.id)
				want = "error"
			}
		case 2: // a hash the ref certainly does not hold
			old = plumbing.NewHashReference(n, plumbing.NewHash(m.id[4]))
			want = "ErrReferenceHasChanged"
			if !has {
				want = "error"
			}
		}
		got := errKind(st.CheckAndSetReference(nr, old))
		if want == "error" { // contract: "if not [matching], it returns an error and doesn't update"; the kind is not specified
			if got == "ok" {
				return &divergence{class: "absent-ref-set", msg: "CheckAndSetReference with a non-nil old value on an absent reference returned nil (the storer contract: mismatch → error, no update)"}
			}
			return nil
		}
		return diff("result", want, got)
	case "refget":
		n := refNames[mod(op.I, len(refNames))]
		want := "ErrReferenceNotFound"
		if v, ok := m.refs[n]; ok {
			want = string(n) + "=" + v
		}
		r, err := st.Reference(n)
		if err != nil {
			return diff("result", want, errKind(err))
		}
		return diff("result", want, string(r.Name())+"="+refStr(r))
	case "refiter":
		want := map[string]string{}
		for n, v := range m.refs {
			want[string(n)] = v
		}
		got, e := listRefs(st)
		if e != "" {
			return &divergence{class: strings.SplitN(e, ":", 2)[0], msg: e}
		}
		return diffSets("listing", want, got)
	case "refdel":
		n := refNames[mod(op.I, len(refNames))]
		return diff("result", "ok", errKind(st.RemoveReference(n)))
	case "idxset":
		return diff("result", "ok", errKind(st.SetIndex(buildIdx(m, op.L, op.J))))
	case "idxget":
		idx, err := st.Index()
		if err != nil {
			return diff("result", m.idx, errKind(err))
		}
		return diff("result", m.idx, idxStr(idx))
	case "cfgset":
		c := buildCfg(mod(op.J, 8), m.s256)
		want := "ok"
		if c.Validate() != nil {
			want = "ErrInvalidConfig"
		}
		return diff("result", want, errKind(st.SetConfig(c)))
	case "cfgget":
		c, err := st.Config()
		if err != nil {
			return diff("result", m.cfg, errKind(err))
		}
		return diff("result", m.cfg, cfgStr(c))
	case "shset":
		var hs []plumbing.Hash
		for _, v := range op.L {
			hs = append(hs, plumbing.NewHash(m.id[mod(v, nObj)]))
		}
		return diff("result", "ok", errKind(st.SetShallow(hs)))
	case "shget":
		hs, err := st.Shallow()
		if err != nil {
			return diff("result", m.shallow, errKind(err))
		}
		var ss []string
		for _, h := range hs {
			ss = append(ss, h.String())
		}
		return diff("result", m.shallow, strings.Join(ss, ","))
	case "rlapp":
		n := rlNames[mod(op.I, len(rlNames))]
		return diff("result", "ok", errKind(st.AppendReflog(n, buildRL(m, op.J))))
	case "rlget":
		n := rlNames[mod(op.I, len(rlNames))]
		es, err := st.Reflog(n)
		want := strings.Join(m.rl[n], "\n")
		if err != nil {
			return diff("result", want, errKind(err))
		}
		var ss []string
		for _, e := range es {
			ss = append(ss, rlStr(e))
		}
		return diff("result", want, strings.Join(ss, "\n"))
	case "rldel":
		n := rlNames[mod(op.I, len(rlNames))]
		return diff("result", "ok", errKind(st.DeleteReflog(n)))
	case "modobj", "modref", "modget":
		name := modNames[mod(op.I, len(modNames))]
		ms, err := st.Module(name)
		if err != nil {
			return diff("open", "ok", errKind(err))
		}
		defer func() {
			if c, ok := ms.(io.Closer); ok && b.class == "filesystem" {
				_ = c.Close()
			}
		}()
		mm := m.module(name)
		switch op.K {
		case "modobj":
			i := mod(op.J, nObj)
			h, err := setObj(ms, objTypes[i], mm.content[i])
			return diff("object-id", "ok/"+mm.id[i], errKind(err)+"/"+h.String())
		case "modref":
			return diff("result", "ok", errKind(ms.SetReference(refValue("refs/heads/a", op.J, &mm.id))))
		default:
			i := mod(op.J, nObj)
			want := "ErrObjectNotFound"
			if mm.obj[i] {
				want = expectObj(mm, i)
			}
			wantRef := "ErrReferenceNotFound"
			if v, ok := mm.refs["refs/heads/a"]; ok {
				wantRef = v
			}
			got := ""
			o, err := ms.EncodedObject(plumbing.AnyObject, plumbing.NewHash(mm.id[i]))
			if err != nil {
				got = errKind(err)
			} else if got, err = readObj(o); err != nil {
				got = "read:" + errKind(err)
			}
			gotRef := ""
			r, err := ms.Reference("refs/heads/a")
			if err != nil {
				gotRef = errKind(err)
			} else {
				gotRef = refStr(r)
			}
			return diff("result", want+" & "+wantRef, got+" & "+gotRef)
		}
	case "reopen":
		return nil
	}
	panic("INFRA: unknown op kind " + op.K)
}

func refFromStr(n plumbing.ReferenceName, s string) *plumbing.Reference {
	if strings.HasPrefix(s, "sym:") {
		return plumbing.NewSymbolicReference(n, plumbing.ReferenceName(s[4:]))
	}
	return plumbing.NewHashReference(n, plumbing.NewHash(strings.TrimPrefix(s, "hash:")))
}

// transition updates the model for op.
func transition(m *model, op Op) {
	switch op.K {
	case "objset", "objraw":
		m.obj[mod(op.I, nObj)] = true
		m.loose[mod(op.I, nObj)] = true
	case "pack":
		for _, v := range op.L {
			m.obj[mod(v, nObj)] = true
		}
	case "refset":
		n := refNames[mod(op.I, len(refNames))]
		m.refs[n] = refStr(refValue(n, op.J, &m.id))
	case "refcas":
		n := refNames[mod(op.I, len(refNames))]
		mode := 0
		if len(op.L) > 0 {
			mode = mod(op.L[0], 3)
		}
		_, has := m.refs[n]
		if mode == 0 || (mode == 1 && has) {
			m.refs[n] = refStr(refValue(n, op.J, &m.id))
		}
	case "refdel":
		delete(m.refs, refNames[mod(op.I, len(refNames))])
	case "idxset":
		m.idx = idxStr(buildIdx(m, op.L, op.J))
	case "cfgset":
		if c := buildCfg(mod(op.J, 8), m.s256); c.Validate() == nil {
			m.cfg = cfgStr(c)
		}
	case "shset":
		var ss []string
		for _, v := range op.L {
			ss = append(ss, m.id[mod(v, nObj)])
		}
		m.shallow = strings.Join(ss, ",")
	case "rlapp":
		n := rlNames[mod(op.I, len(rlNames))]
		m.rl[n] = append(m.rl[n], rlStr(buildRL(m, op.J)))
	case "rldel":
		delete(m.rl, rlNames[mod(op.I, len(rlNames))])
	case "modobj":
		m.module(modNames[mod(op.I, len(modNames))]).obj[mod(op.J, nObj)] = true
	case "modref":
		mm := m.module(modNames[mod(op.I, len(modNames))])
		mm.refs["refs/heads/a"] = refStr(refValue("refs/heads/a", op.J, &mm.id))
	}
}

// ---------------------------------------------------------------- check

func isRead(k string) bool {
	switch k {
	case "objget", "objhas", "objsize", "objiter", "objprefix", "objeach", "refget", "refiter", "idxget", "cfgget", "shget", "rlget", "modget":
		return true
	}
	return false
}

// classify computes labels and the non-trivial rule from the case alone
// (by running the model): >= 8 steps, a read of something written >= 2 steps
// earlier, and one miss.
func classify(c Case) (labels []string, nonTrivial bool) {
	m := newModel(c.SHA256)
	wroteAt := map[string]int{} // resource key -> step of last write
	lateRead, miss := false, false
	kinds := map[string]bool{}
	for step, op := range c.Ops {
		kinds[op.K] = true
		key := ""
		hit := false
		switch op.K {
		case "objget", "objhas", "objsize":
			i := mod(op.I, nObj)
			key = fmt.Sprint("o", i)
			hit = m.obj[i]
			if hit && !m.loose[i] {
				labels = append(labels, "read-of-packed-only-object")
			}
			if op.K == "objget" {
				t := typeSel[mod(op.J, len(typeSel))]
				if hit && t != plumbing.AnyObject && t != objTypes[i] {
					hit = false
					miss = true
					labels = append(labels, "typed-miss")
				}
			}
		case "objmiss":
			miss = true
		case "objiter", "objeach":
			key = "o*"
			hit = len(m.obj) > 0
		case "objprefix":
			i := mod(op.I, nObj)
			key = fmt.Sprint("o", i)
			hit = m.obj[i]
		case "refget":
			key = fmt.Sprint("r", mod(op.I, len(refNames)))
			_, hit = m.refs[refNames[mod(op.I, len(refNames))]]
		case "refiter":
			key = "r*"
			hit = len(m.refs) > 0
		case "idxget":
			key, hit = "idx", m.idx != "v2|"
		case "cfgget":
			key, hit = "cfg", wroteAt["cfg"] > 0
		case "shget":
			key, hit = "sh", m.shallow != ""
		case "rlget":
			key = fmt.Sprint("l", mod(op.I, len(rlNames)))
			hit = len(m.rl[rlNames[mod(op.I, len(rlNames))]]) > 0
		case "modget":
			key = fmt.Sprint("m", mod(op.I, len(modNames)))
			mm := m.module(modNames[mod(op.I, len(modNames))])
			hit = mm.obj[mod(op.J, nObj)] || len(mm.refs) > 0
		}
		if isRead(op.K) {
			if !hit {
				miss = true
			} else {
				w, ok := wroteAt[key]
				if !ok && strings.HasSuffix(key, "*") {
					for k2, s := range wroteAt {
						if k2[0] == key[0] && (!ok || s < w) {
							w, ok = s, true
						}
					}
				}
				if ok && step+1-w >= 2 {
					lateRead = true
				}
			}
		}
		// writes
		switch op.K {
		case "objset", "objraw":
			wroteAt[fmt.Sprint("o", mod(op.I, nObj))] = step + 1
		case "pack":
			for _, v := range op.L {
				wroteAt[fmt.Sprint("o", mod(v, nObj))] = step + 1
			}
		case "refset", "refcas", "refdel":
			wroteAt[fmt.Sprint("r", mod(op.I, len(refNames)))] = step + 1
		case "idxset":
			wroteAt["idx"] = step + 1
		case "cfgset":
			wroteAt["cfg"] = step + 1
		case "shset":
			wroteAt["sh"] = step + 1
		case "rlapp", "rldel":
			wroteAt[fmt.Sprint("l", mod(op.I, len(rlNames)))] = step + 1
		case "modobj", "modref":
			wroteAt[fmt.Sprint("m", mod(op.I, len(modNames)))] = step + 1
		}
		transition(m, op)
	}
	for k := range kinds {
		labels = append(labels, "op:"+k)
	}
	sort.Strings(labels)
	if lateRead {
		labels = append(labels, "late-read")
	}
	if miss {
		labels = append(labels, "miss")
	}
	if c.SHA256 {
		labels = append(labels, "sha256")
	} else {
		labels = append(labels, "sha1")
	}
	for _, f := range c.FS {
		if f.OSFS {
			labels = append(labels, "fs:osfs")
		} else {
			labels = append(labels, "fs:memfs")
		}
		if f.Excl {
			labels = append(labels, "fs:exclusive")
		}
		if f.MemIdx {
			labels = append(labels, "fs:memidx")
		}
		if f.LOT > 0 {
			labels = append(labels, "fs:large-object-threshold")
		}
		if f.Cache > 0 {
			labels = append(labels, "fs:small-object-cache")
		}
		if f.NoIdxCache {
			labels = append(labels, "fs:no-index-cache")
		}
		if f.Pool != 0 {
			labels = append(labels, "fs:custom-fd-pool")
		}
	}
	return labels, len(c.Ops) >= 8 && lateRead && miss
}

func signature(c Case, b *backend, step int, d *divergence) string {
	op := c.Ops[step]
	m := newModel(c.SHA256)
	for i := 0; i < step; i++ {
		transition(m, c.Ops[i])
	}
	switch {
	case op.K == "refcas" && d.class == "absent-ref-set" && b.class == "memory":
		return sigCASMem
	case op.K == "modobj" && d.class == "object-id" && b.class == "memory" && c.SHA256:
		return sigModFmt
	case op.K == "objprefix" && b.class == "filesystem" && c.SHA256 && mod(op.J, 5) == 3 && d.class == "listing-missing" && m.loose[mod(op.I, nObj)]:
		return sigPrefix
	case (op.K == "objeach" || op.K == "objiter" || op.K == "objprefix") && b.class == "filesystem" && b.excl && priorPrefixHitPacked(c, step):
		return sigAlias
	case op.K == "refiter" && b.class == "filesystem" && strings.Contains(d.msg, "ref file is empty") && priorCASAbsent(c, step):
		return sigCASFS
	}
	return fmt.Sprintf("C17/%s:%s:%s", op.K, b.class, d.class)
}

// priorPrefixHitPacked reports whether, before step, a prefix search matched
// an object that existed only inside a pack.
func priorPrefixHitPacked(c Case, step int) bool {
	m := newModel(c.SHA256)
	for i := 0; i < step; i++ {
		op := c.Ops[i]
		if op.K == "objprefix" {
			full, _ := hex.DecodeString(m.id[mod(op.I, nObj)])
			prefix := full[:[]int{1, 2, 4, len(full), 20}[mod(op.J, 5)]]
			for j := 0; j < nObj; j++ {
				if fb, _ := hex.DecodeString(m.id[j]); m.obj[j] && !m.loose[j] && bytes.HasPrefix(fb, prefix) {
					return true
				}
			}
		}
		transition(m, op)
	}
	return false
}

// priorCASAbsent reports whether, before step, a CheckAndSetReference with a
// non-nil old value was issued on a reference that was absent at that time.
func priorCASAbsent(c Case, step int) bool {
	m := newModel(c.SHA256)
	for i := 0; i < step; i++ {
		op := c.Ops[i]
		if op.K == "refcas" && len(op.L) > 0 && mod(op.L[0], 3) != 0 {
			if _, has := m.refs[refNames[mod(op.I, len(refNames))]]; !has {
				return true
			}
		}
		transition(m, op)
	}
	return false
}

func check(c Case) evid.Result {
	res := evid.Result{}
	if len(c.FS) == 0 || len(c.Ops) == 0 {
		res.Discard = true
		return res
	}
	res.Labels, res.NonTrivial = classify(c)

	var bs []*backend
	if !c.NoMem {
		bs = append(bs, newMem(c.SHA256))
	}
	for i, f := range c.FS {
		bs = append(bs, newFS(f, c.SHA256, i))
	}
	defer func() {
		for _, b := range bs {
			b.close()
		}
	}()

	// Each backend runs the whole list against its own copy of the model; the
	// earliest divergence (ties: backend order) is reported.
	bestStep := -1
	var best *divergence
	var bestB *backend
	for _, b := range bs {
		m := newModel(c.SHA256)
		for step, op := range c.Ops {
			if bestStep >= 0 && step >= bestStep {
				break
			}
			if op.K == "reopen" && b.reopen != nil {
				b.st = b.reopen()
			}
			d := apply(m, b.st, b, op)
			if d != nil {
				bestStep, best, bestB = step, d, b
				break
			}
			transition(m, op)
		}
	}
	if best != nil {
		op := c.Ops[bestStep]
		res.NonTrivial = true
		res.Fail = evid.Failf(signature(c, bestB, bestStep, best), "backend %s diverges from the model at step %d (%+v): %s", bestB.name, bestStep, op, best.msg)
	}
	return res
}

func TestC17(t *testing.T) {
	evid.Run(t, evid.Spec[Case]{ID: "C17", Gen: gen, Check: check})
}
