// Package c18: once a loose-object writer or a packfile writer of the
// filesystem storage has returned nil from Close, every object it wrote must be
// visible to every lookup (has, size, get, type iteration, prefix search, pack
// listing) on the same storage — whatever reads or still-open writers were
// interleaved, with ExclusiveAccess on or off.
package c18

import (
	"bytes"
	"crypto/sha1"
	"crypto/sha256"
	"encoding/hex"
	"errors"
	"fmt"
	"io"
	"os"
	"sort"
	"strings"
	"testing"

	"github.com/go-git/go-billy/v6"
	"github.com/go-git/go-billy/v6/memfs"
	"github.com/go-git/go-billy/v6/osfs"
	"github.com/go-git/go-git/v6/plumbing"
	"github.com/go-git/go-git/v6/plumbing/cache"
	formatcfg "github.com/go-git/go-git/v6/plumbing/format/config"
	"github.com/go-git/go-git/v6/plumbing/format/packfile"
	"github.com/go-git/go-git/v6/plumbing/storer"
	"github.com/go-git/go-git/v6/storage/filesystem"
	"github.com/go-git/go-git/v6/storage/memory"
	"pgregory.net/rapid"

	"verif/harness/lib/evid"
)

// ---------------------------------------------------------------- case

// Op is one step. Writers live in slots numbered in order of opening.
type Op struct {
	K string // oraw olazy set opack write close abort | has size get iter prefix packs miss
	I int    // object index, or slot selector for write/close/abort
	J int    // type selector / prefix length selector / write fraction
	L []int  // pack members
	B bool   // ref-delta pack
	P int    // probe mask run after the step over every committed id
}

// Case is one scenario on one filesystem storage.
type Case struct {
	Excl   bool
	SHA256 bool
	OSFS   bool
	MemIdx bool
	Cache  int // object cache bytes, 0 = default
	Ops    []Op
}

const (
	pHas = 1 << iota
	pSize
	pGet
	pIter
	pPrefix
	pPacks
	pAll = pHas | pSize | pGet | pIter | pPrefix | pPacks
)

// ---------------------------------------------------------------- universe

const nObj = 10

var objTypes = [nObj]plumbing.ObjectType{
	plumbing.BlobObject, plumbing.BlobObject, plumbing.BlobObject, plumbing.BlobObject, plumbing.BlobObject,
	plumbing.BlobObject, plumbing.TreeObject, plumbing.CommitObject, plumbing.TagObject, plumbing.BlobObject,
}

var typeSel = []plumbing.ObjectType{plumbing.AnyObject, plumbing.CommitObject, plumbing.TreeObject, plumbing.BlobObject, plumbing.TagObject}

func hsum(s256 bool, t plumbing.ObjectType, b []byte) string {
	hdr := []byte(fmt.Sprintf("%s %d\x00", t.String(), len(b)))
	if s256 {
		h := sha256.New()
		h.Write(hdr)
		h.Write(b)
		return hex.EncodeToString(h.Sum(nil))
	}
	h := sha1.New()
	h.Write(hdr)
	h.Write(b)
	return hex.EncodeToString(h.Sum(nil))
}

func longText(seed string, n int) []byte {
	var sb bytes.Buffer
	for i := 0; sb.Len() < n; i++ {
		fmt.Fprintf(&sb, "line %04d of %s: the quick brown fox jumps over the lazy dog\n", i, seed)
	}
	return sb.Bytes()[:n]
}

func universe(s256 bool) (content [nObj][]byte, id [nObj]string) {
	content[0] = []byte{}
	content[1] = []byte("abc")
	content[2] = longText("x", 60)
	content[3] = append(longText("x", 60), '!')
	content[4] = longText("big", 3000)
	content[5] = append(append([]byte{}, longText("big", 2500)...), longText("tail", 700)...)
	content[9] = longText("other", 500)
	content[6] = []byte{} // empty tree
	for _, i := range []int{0, 1, 2, 3, 4, 5, 6, 9} {
		id[i] = hsum(s256, objTypes[i], content[i])
	}
	content[7] = []byte("tree " + id[6] + "\nauthor A <a@b> 1 +0000\ncommitter A <a@b> 1 +0000\n\nroot\n")
	id[7] = hsum(s256, plumbing.CommitObject, content[7])
	content[8] = []byte("object " + id[7] + "\ntype commit\ntag v1\ntagger A <a@b> 3 +0000\n\nrelease\n")
	id[8] = hsum(s256, plumbing.TagObject, content[8])
	return
}

func mod(i, n int) int {
	i %= n
	if i < 0 {
		i += n
	}
	return i
}

// ---------------------------------------------------------------- generator

var opKinds = []string{
	"oraw", "oraw", "olazy", "set", "opack", "opack", "write", "write", "close", "close", "close", "abort",
	"has", "size", "get", "iter", "prefix", "packs", "miss", "miss",
}

func gen(t *rapid.T, _ *evid.Recorder) Case {
	c := Case{
		Excl:   rapid.Bool().Draw(t, "excl"),
		SHA256: rapid.Bool().Draw(t, "sha256"),
		OSFS:   rapid.Bool().Draw(t, "osfs"),
		MemIdx: rapid.Bool().Draw(t, "memidx"),
		Cache:  rapid.SampledFrom([]int{0, 0, 1, 256}).Draw(t, "cache"),
	}
	n := rapid.IntRange(3, 24).Draw(t, "nops")
	for i := 0; i < n; i++ {
		k := rapid.SampledFrom(opKinds).Draw(t, "k")
		op := Op{K: k}
		switch k {
		case "oraw", "olazy", "set", "has", "size":
			op.I = rapid.IntRange(0, nObj-1).Draw(t, "obj")
		case "get":
			op.I = rapid.IntRange(0, nObj-1).Draw(t, "obj")
			op.J = rapid.IntRange(0, 1).Draw(t, "typed")
		case "iter":
			op.J = rapid.IntRange(0, len(typeSel)-1).Draw(t, "type")
		case "prefix":
			op.I = rapid.IntRange(0, nObj-1).Draw(t, "obj")
			op.J = rapid.IntRange(0, 3).Draw(t, "plen")
		case "miss":
			op.J = rapid.IntRange(0, 2).Draw(t, "how")
		case "opack":
			op.L = rapid.SliceOfNDistinct(rapid.IntRange(0, nObj-1), 1, 5, rapid.ID[int]).Draw(t, "members")
			op.B = rapid.Bool().Draw(t, "refdelta")
		case "write":
			op.I = rapid.IntRange(0, 5).Draw(t, "slot")
			op.J = rapid.IntRange(0, 2).Draw(t, "frac")
		case "close", "abort":
			op.I = rapid.IntRange(0, 5).Draw(t, "slot")
		}
		if rapid.IntRange(0, 2).Draw(t, "probe?") == 0 {
			op.P = rapid.IntRange(1, pAll).Draw(t, "probe")
		}
		c.Ops = append(c.Ops, op)
	}
	return c
}

// ---------------------------------------------------------------- run state

type writer struct {
	kind    string // raw lazy pack
	obj     int    // loose: object index
	members []int  // pack members
	w       io.WriteCloser
	hdr     func(plumbing.ObjectType, int64) error // lazy: pending header
	data    []byte
	off     int
	pack    string // pack checksum (hex) for pack writers
	openAt  int
}

// sim mirrors, for ExclusiveAccess, which dotgit list caches are populated;
// it is used only to classify a failure (never to accept one).
type sim struct {
	excl        bool
	indexLoaded bool // ObjectStorage.index populated
	objPop      bool
	objPopAt    int
	packPop     bool
	packPopAt   int
	corrupt     bool        // a prefix search appended packed ids into the cached loose list
	looseAt     map[int]int // object -> step at which its loose file was put in place
	packs       []simPack
}

type simPack struct {
	hash    string
	members []int
	at      int
}

func (s *sim) cleanObj()       { s.objPop, s.corrupt = false, false }
func (s *sim) cleanPack()      { s.packPop = false }
func (s *sim) genObj(step int) { s.popObj(step) }
func (s *sim) popObj(step int) {
	if !s.objPop {
		s.objPop, s.objPopAt = true, step
	}
}
func (s *sim) popPack(step int) {
	if !s.packPop {
		s.packPop, s.packPopAt = true, step
	}
}
func (s *sim) requireIndex(step int) {
	if !s.indexLoaded {
		s.indexLoaded = true
		s.popPack(step)
	}
}
func (s *sim) inClosedPack(i int) bool {
	for _, p := range s.packs {
		for _, m := range p.members {
			if m == i {
				return true
			}
		}
	}
	return false
}
func (s *sim) packStale(p simPack) bool { return s.excl && s.packPop && p.at > s.packPopAt }
func (s *sim) anyStalePackWith(i int) bool {
	for _, p := range s.packs {
		for _, m := range p.members {
			if m == i && s.packStale(p) {
				return true
			}
		}
	}
	return false
}
func (s *sim) anyFreshPackWith(i int) bool {
	for _, p := range s.packs {
		for _, m := range p.members {
			if m == i && !s.packStale(p) {
				return true
			}
		}
	}
	return false
}
func (s *sim) looseStale(i int) bool {
	at, ok := s.looseAt[i]
	return ok && s.excl && s.objPop && at > s.objPopAt
}
func (s *sim) looseFresh(i int) bool {
	_, ok := s.looseAt[i]
	return ok && !s.looseStale(i)
}

// read updates the cache mirror for a lookup of object i (-1: none/foreign).
func (s *sim) read(kind string, i, step int) {
	switch kind {
	case "has", "size", "get":
		s.requireIndex(step)
		if i >= 0 && s.inClosedPack(i) {
			if kind != "has" {
				s.popPack(step) // pack handle construction consults the pack list
			}
			return
		}
		s.popObj(step)
	case "iter":
		s.popObj(step)
		s.requireIndex(step)
		s.popPack(step)
	case "prefix":
		s.popObj(step)
		s.requireIndex(step)
	case "packs":
		s.popPack(step)
	}
}

const (
	sigLoose = "C18/loose-writer-open-read-close:ExclusiveAccess-object-list-cache-repopulated-before-rename"
	sigPack  = "C18/pack-writer-open-packlist-read-close:ExclusiveAccess-pack-list-cache-repopulated-before-rename"
	sigAlias = "C18/listing-after-HashesWithPrefix-matching-packed-object:ExclusiveAccess-loose-object-list-overwritten"
)

// aliasOpen reports whether the aliasing defect (sigAlias, repaired by a fix:
// commit) is a confirmed-open finding in this run; only then may a listing
// failure after a prefix search be attributed to it. Otherwise the mirror's
// other explanations apply (and an unexplained failure stays unexplained).
func aliasOpen() bool {
	for _, k := range strings.Split(os.Getenv("VERIF_KNOWN"), "\x1f") {
		if k == sigAlias {
			return true
		}
	}
	return false
}

// explain returns a known-shape signature when the ExclusiveAccess cache
// mirror predicts that lookup kind cannot see object i (or pack p), else "".
func (s *sim) explain(kind string, i int, pack string) string {
	if !s.excl {
		return ""
	}
	switch kind {
	case "has":
		if !s.inClosedPack(i) && s.looseStale(i) {
			return sigLoose
		}
	case "size", "get":
		if s.inClosedPack(i) {
			if s.anyStalePackWith(i) {
				return sigPack
			}
		} else if s.looseStale(i) {
			return sigLoose
		}
	case "iter":
		if s.corrupt && aliasOpen() {
			return sigAlias
		}
		if !s.looseFresh(i) && !s.anyFreshPackWith(i) {
			if s.looseStale(i) {
				return sigLoose
			}
			if s.anyStalePackWith(i) {
				return sigPack
			}
		}
	case "prefix":
		if s.corrupt && aliasOpen() {
			return sigAlias
		}
		if !s.inClosedPack(i) && s.looseStale(i) {
			return sigLoose
		}
	case "packs":
		for _, p := range s.packs {
			if p.hash == pack && s.packStale(p) {
				return sigPack
			}
		}
	}
	return ""
}

// ---------------------------------------------------------------- helpers

func scratchDir() string {
	base := os.Getenv("VERIF_SCRATCH")
	if base == "" {
		base = "/dev/shm"
	}
	d, err := os.MkdirTemp(base, "c18-")
	if err != nil {
		panic("INFRA: scratch: " + err.Error())
	}
	return d
}

func buildPack(s256 bool, content *[nObj][]byte, ids *[nObj]string, members []int, refDelta bool) []byte {
	var src *memory.Storage
	if s256 {
		src = memory.NewStorage(memory.WithObjectFormat(formatcfg.SHA256))
	} else {
		src = memory.NewStorage()
	}
	var hs []plumbing.Hash
	for _, i := range members {
		o := src.NewEncodedObject()
		o.SetType(objTypes[i])
		o.SetSize(int64(len(content[i])))
		w, _ := o.Writer()
		w.Write(content[i])
		w.Close()
		h, err := src.SetEncodedObject(o)
		if err != nil || h.String() != ids[i] {
			panic(fmt.Sprintf("INFRA: pack source object %d: %v %s != %s", i, err, h, ids[i]))
		}
		hs = append(hs, h)
	}
	var buf bytes.Buffer
	if _, err := packfile.NewEncoder(&buf, src, refDelta).Encode(hs, 10); err != nil {
		panic("INFRA: pack encode: " + err.Error())
	}
	return buf.Bytes()
}

func errName(err error) string {
	switch {
	case err == nil:
		return "nil"
	case errors.Is(err, plumbing.ErrObjectNotFound):
		return "ErrObjectNotFound"
	}
	return err.Error()
}

type failure struct {
	sig, msg string
	known    bool
}

// ---------------------------------------------------------------- check

type run struct {
	c        Case
	st       *filesystem.Storage
	content  [nObj][]byte
	id       [nObj]string
	visible  map[int]bool    // committed object ids (a writer containing them returned nil from Close)
	tried    map[int]bool    // a writer for the object was opened at some point
	packsOK  map[string]bool // pack checksums whose writer returned nil from Close
	slots    []*writer
	sim      *sim
	fails    []failure
	labels   map[string]bool
	readOpen bool // a read happened while a writer was open that was later closed successfully
	pendRead map[*writer]bool
}

func (r *run) fail(step int, kind string, i int, pack, what string) {
	known := r.sim.explain(kind, i, pack)
	sig := known
	if sig == "" {
		mode := "shared"
		if r.c.Excl {
			mode = "ExclusiveAccess"
		}
		sig = fmt.Sprintf("C18/%s-misses-committed-object:%s", kind, mode)
	}
	r.fails = append(r.fails, failure{sig: sig, known: known != "", msg: fmt.Sprintf("step %d (%+v): %s", step, r.c.Ops[step], what)})
}

func (r *run) open() []*writer {
	var ws []*writer
	for _, w := range r.slots {
		if w.w != nil {
			ws = append(ws, w)
		}
	}
	return ws
}

func (r *run) noteRead() {
	for _, w := range r.open() {
		r.pendRead[w] = true
	}
}

// lookups ------------------------------------------------------------------

func (r *run) lookHas(step, i int) {
	r.noteRead()
	err := r.st.HasEncodedObject(plumbing.NewHash(r.id[i]))
	if err != nil {
		r.fail(step, "has", i, "", fmt.Sprintf("HasEncodedObject(%s) = %s for an object whose writer was closed successfully", r.id[i], errName(err)))
	}
	r.sim.read("has", i, step)
}

func (r *run) lookSize(step, i int) {
	r.noteRead()
	sz, err := r.st.EncodedObjectSize(plumbing.NewHash(r.id[i]))
	if err != nil || sz != int64(len(r.content[i])) {
		r.fail(step, "size", i, "", fmt.Sprintf("EncodedObjectSize(%s) = %d, %s; want %d, nil", r.id[i], sz, errName(err), len(r.content[i])))
	}
	r.sim.read("size", i, step)
}

func (r *run) lookGet(step, i int, typed bool) {
	r.noteRead()
	t := plumbing.AnyObject
	if typed {
		t = objTypes[i]
	}
	o, err := r.st.EncodedObject(t, plumbing.NewHash(r.id[i]))
	if err != nil {
		r.fail(step, "get", i, "", fmt.Sprintf("EncodedObject(%s, %s) = %s for a committed object", t, r.id[i], errName(err)))
	} else if msg := sameObject(o, objTypes[i], r.content[i], r.id[i]); msg != "" {
		r.fail(step, "get", i, "", fmt.Sprintf("EncodedObject(%s, %s): %s", t, r.id[i], msg))
	}
	r.sim.read("get", i, step)
}

func sameObject(o plumbing.EncodedObject, t plumbing.ObjectType, content []byte, id string) string {
	if o.Type() != t || o.Size() != int64(len(content)) || o.Hash().String() != id {
		return fmt.Sprintf("header %s/%d/%s, want %s/%d/%s", o.Type(), o.Size(), o.Hash(), t, len(content), id)
	}
	rd, err := o.Reader()
	if err != nil {
		return "Reader: " + err.Error()
	}
	defer rd.Close()
	b, err := io.ReadAll(rd)
	if err != nil {
		return "read: " + err.Error()
	}
	if !bytes.Equal(b, content) {
		return fmt.Sprintf("content differs (%d bytes, want %d)", len(b), len(content))
	}
	return ""
}

func (r *run) lookIter(step int, t plumbing.ObjectType) {
	r.noteRead()
	defer r.sim.read("iter", -1, step)
	firstVisible := -1
	for i := 0; i < nObj; i++ {
		if r.visible[i] && (t == plumbing.AnyObject || t == objTypes[i]) {
			firstVisible = i
			break
		}
	}
	it, err := r.st.IterEncodedObjects(t)
	if err != nil {
		if firstVisible >= 0 {
			r.fail(step, "iter", firstVisible, "", fmt.Sprintf("IterEncodedObjects(%s) = %s", t, errName(err)))
		}
		return
	}
	defer it.Close()
	got := map[string]bool{}
	for {
		o, err := it.Next()
		if err == io.EOF {
			break
		}
		if err != nil {
			if firstVisible >= 0 {
				r.fail(step, "iter", firstVisible, "", fmt.Sprintf("IterEncodedObjects(%s).Next = %s", t, errName(err)))
			}
			return
		}
		got[o.Hash().String()] = true
	}
	for i := 0; i < nObj; i++ {
		if r.visible[i] && (t == plumbing.AnyObject || t == objTypes[i]) && !got[r.id[i]] {
			r.fail(step, "iter", i, "", fmt.Sprintf("IterEncodedObjects(%s) does not list committed %s %s", t, objTypes[i], r.id[i]))
		}
	}
}

var plens = []int{1, 2, 4, 20}

func (r *run) lookPrefix(step, i, plen int) {
	r.noteRead()
	full, _ := hex.DecodeString(r.id[i])
	prefix := full[:plens[mod(plen, len(plens))]]
	hs, err := r.st.HashesWithPrefix(prefix)
	got := map[string]bool{}
	for _, h := range hs {
		got[h.String()] = true
	}
	appended := 0 // packed ids the search appends to the slice returned by dotgit (not already listed as loose)
	listedAfter := false
	wasPop := r.sim.objPop
	hi := hex.EncodeToString(prefix)
	for j := 0; j < nObj; j++ {
		at, loose := r.sim.looseAt[j]
		listed := loose && (!wasPop || at <= r.sim.objPopAt) // in dotgit's (possibly just generated) loose list
		if !strings.HasPrefix(r.id[j], hi) {
			if listed && r.id[j] > hi {
				listedAfter = true
			}
			continue
		}
		if r.visible[j] {
			if err != nil {
				r.fail(step, "prefix", j, "", fmt.Sprintf("HashesWithPrefix(%x) = %s", prefix, errName(err)))
			} else if !got[r.id[j]] {
				r.fail(step, "prefix", j, "", fmt.Sprintf("HashesWithPrefix(%x) does not list committed %s", prefix, r.id[j]))
			}
		}
		if r.sim.inClosedPack(j) && !listed {
			appended++
		}
	}
	r.sim.read("prefix", i, step)
	if r.sim.excl && appended > 0 && listedAfter {
		r.sim.corrupt = true
	}
}

func (r *run) lookPacks(step int) {
	r.noteRead()
	ps, err := r.st.ObjectPacks()
	got := map[string]bool{}
	for _, p := range ps {
		got[p.String()] = true
	}
	var want []string
	for p := range r.packsOK {
		want = append(want, p)
	}
	sort.Strings(want)
	for _, p := range want {
		if err != nil {
			r.fail(step, "packs", -1, p, "ObjectPacks = "+errName(err))
		} else if !got[p] {
			r.fail(step, "packs", -1, p, fmt.Sprintf("ObjectPacks does not list pack %s whose writer was closed successfully", p))
		}
	}
	r.sim.read("packs", -1, step)
}

func (r *run) probe(step, mask int) {
	var ids []int
	for i := 0; i < nObj; i++ {
		if r.visible[i] {
			ids = append(ids, i)
		}
	}
	if mask&pHas != 0 {
		for _, i := range ids {
			r.lookHas(step, i)
		}
	}
	if mask&pSize != 0 {
		for _, i := range ids {
			r.lookSize(step, i)
		}
	}
	if mask&pGet != 0 {
		for _, i := range ids {
			r.lookGet(step, i, i%2 == 0)
		}
	}
	if mask&pIter != 0 {
		r.lookIter(step, plumbing.AnyObject)
	}
	if mask&pPrefix != 0 {
		for _, i := range ids {
			r.lookPrefix(step, i, 2+i%2)
		}
	}
	if mask&pPacks != 0 {
		r.lookPacks(step)
	}
}

// writers ------------------------------------------------------------------

func (r *run) pick(sel int) *writer {
	ws := r.open()
	if len(ws) == 0 {
		return nil
	}
	return ws[mod(sel, len(ws))]
}

func (r *run) writeSome(w *writer, n int) error {
	if w.hdr != nil {
		if err := w.hdr(objTypes[w.obj], int64(len(w.data))); err != nil {
			return err
		}
		w.hdr = nil
	}
	if n > len(w.data)-w.off {
		n = len(w.data) - w.off
	}
	if n > 0 {
		if _, err := w.w.Write(w.data[w.off : w.off+n]); err != nil {
			return err
		}
		w.off += n
	}
	return nil
}

func (r *run) commit(step int, w *writer) {
	if r.pendRead[w] {
		r.readOpen = true
	}
	if w.kind == "pack" {
		r.packsOK[w.pack] = true
		r.sim.packs = append(r.sim.packs, simPack{hash: w.pack, members: w.members, at: step})
		for _, m := range w.members {
			r.visible[m] = true
		}
		r.labels["commit:pack"] = true
	} else {
		r.visible[w.obj] = true
		if _, ok := r.sim.looseAt[w.obj]; !ok { // a re-write keeps the existing file
			r.sim.looseAt[w.obj] = step
		}
		r.labels["commit:"+w.kind] = true
	}
}

func check(c Case) evid.Result {
	res := evid.Result{}
	if len(c.Ops) == 0 {
		res.Discard = true
		return res
	}
	var fs billy.Filesystem
	if c.OSFS {
		dir := scratchDir()
		defer os.RemoveAll(dir)
		fs = osfs.New(dir)
	} else {
		fs = memfs.New()
	}
	var oc cache.Object
	if c.Cache > 0 {
		oc = cache.NewObjectLRU(cache.FileSize(c.Cache))
	} else {
		oc = cache.NewObjectLRUDefault()
	}
	o := filesystem.Options{ExclusiveAccess: c.Excl, UseInMemoryIdx: c.MemIdx}
	if c.SHA256 {
		o.ObjectFormat = formatcfg.SHA256
	}
	st := filesystem.NewStorageWithOptions(fs, oc, o)
	if err := st.Init(); err != nil {
		panic("INFRA: Init: " + err.Error())
	}
	defer st.Close()
	var _ storer.PackfileWriter = st

	r := &run{c: c, st: st, visible: map[int]bool{}, tried: map[int]bool{}, packsOK: map[string]bool{}, labels: map[string]bool{},
		pendRead: map[*writer]bool{}, sim: &sim{excl: c.Excl, looseAt: map[int]int{}}}
	r.content, r.id = universe(c.SHA256)
	hashLen := 20
	if c.SHA256 {
		hashLen = 32
	}

	for step, op := range c.Ops {
		switch op.K {
		case "oraw":
			i := mod(op.I, nObj)
			w, err := st.RawObjectWriter(objTypes[i], int64(len(r.content[i])))
			r.sim.cleanObj()
			if err != nil {
				panic("INFRA: RawObjectWriter: " + err.Error())
			}
			r.tried[i] = true
			r.slots = append(r.slots, &writer{kind: "raw", obj: i, w: w, data: r.content[i], openAt: step})
		case "olazy":
			i := mod(op.I, nObj)
			w, wh, err := st.LazyWriter()
			r.sim.cleanObj()
			if err != nil {
				panic("INFRA: LazyWriter: " + err.Error())
			}
			r.tried[i] = true
			r.slots = append(r.slots, &writer{kind: "lazy", obj: i, w: w, hdr: wh, data: r.content[i], openAt: step})
		case "set":
			i := mod(op.I, nObj)
			mo := st.NewEncodedObject()
			mo.SetType(objTypes[i])
			mo.SetSize(int64(len(r.content[i])))
			mw, _ := mo.Writer()
			mw.Write(r.content[i])
			mw.Close()
			r.tried[i] = true
			h, err := st.SetEncodedObject(mo)
			r.sim.cleanObj()
			if err == nil {
				if h.String() != r.id[i] {
					panic(fmt.Sprintf("INFRA: SetEncodedObject id %s != %s", h, r.id[i]))
				}
				r.commit(step, &writer{kind: "set", obj: i})
			} else {
				r.labels["close-error"] = true
			}
		case "opack":
			var ms []int
			for _, v := range op.L {
				ms = append(ms, mod(v, nObj))
			}
			if len(ms) == 0 {
				break
			}
			pk := buildPack(c.SHA256, &r.content, &r.id, ms, op.B)
			r.sim.requireIndex(step)
			w, err := st.PackfileWriter()
			r.sim.cleanPack()
			if err != nil {
				panic("INFRA: PackfileWriter: " + err.Error())
			}
			for _, m := range ms {
				r.tried[m] = true
			}
			r.slots = append(r.slots, &writer{kind: "pack", members: ms, w: w, data: pk, pack: hex.EncodeToString(pk[len(pk)-hashLen:]), openAt: step})
		case "write":
			if w := r.pick(op.I); w != nil {
				rem := len(w.data) - w.off
				n := []int{1, (rem + 1) / 2, rem}[mod(op.J, 3)]
				if w.kind == "pack" && w.off == 0 && n < 12 {
					// The pack scanner reads the 4-byte signature with one Read; a first chunk
					// shorter than that makes Close fail with "bad signature" depending on
					// goroutine timing (reported separately; not a visibility question).
					n = 12
				}
				if err := r.writeSome(w, n); err != nil {
					panic("INFRA: write: " + err.Error())
				}
			}
		case "close", "abort":
			w := r.pick(op.I)
			if w == nil {
				break
			}
			complete := true
			if op.K == "abort" && w.kind == "pack" && w.off < len(w.data) {
				complete = false // a truncated pack stream: Close must fail and publish nothing
				r.labels["abort:pack"] = true
			} else if err := r.writeSome(w, len(w.data)); err != nil {
				panic("INFRA: write: " + err.Error())
			}
			err := w.w.Close()
			w.w = nil
			if err == nil && complete {
				r.commit(step, w)
			} else if complete {
				r.labels["close-error"] = true
				r.labels["close-error:"+err.Error()] = true
			}
			delete(r.pendRead, w)
		case "has":
			i := mod(op.I, nObj)
			if r.visible[i] {
				r.lookHas(step, i)
			} else {
				r.noteRead()
				_ = st.HasEncodedObject(plumbing.NewHash(r.id[i]))
				r.sim.read("has", i, step)
			}
		case "size":
			i := mod(op.I, nObj)
			if r.visible[i] {
				r.lookSize(step, i)
			} else {
				r.noteRead()
				_, _ = st.EncodedObjectSize(plumbing.NewHash(r.id[i]))
				r.sim.read("size", i, step)
			}
		case "get":
			i := mod(op.I, nObj)
			if r.visible[i] {
				r.lookGet(step, i, op.J%2 == 1)
			} else {
				r.noteRead()
				_, _ = st.EncodedObject(plumbing.AnyObject, plumbing.NewHash(r.id[i]))
				r.sim.read("get", i, step)
			}
		case "iter":
			r.lookIter(step, typeSel[mod(op.J, len(typeSel))])
		case "prefix":
			r.lookPrefix(step, mod(op.I, nObj), op.J)
		case "packs":
			r.lookPacks(step)
		case "miss":
			r.noteRead()
			h := plumbing.NewHash(hsum(c.SHA256, plumbing.BlobObject, []byte("never stored")))
			var err error
			switch mod(op.J, 3) {
			case 0:
				err = st.HasEncodedObject(h)
				r.sim.read("has", -1, step)
			case 1:
				_, err = st.EncodedObject(plumbing.AnyObject, h)
				r.sim.read("get", -1, step)
			default:
				_, err = st.EncodedObjectSize(h)
				r.sim.read("size", -1, step)
			}
			if !errors.Is(err, plumbing.ErrObjectNotFound) {
				r.fails = append(r.fails, failure{sig: "C18/lookup-of-never-written-id-not-ErrObjectNotFound", msg: fmt.Sprintf("step %d: lookup of a never written id returned %s", step, errName(err))})
			}
		default:
			panic("INFRA: unknown op " + op.K)
		}
		if op.P != 0 {
			r.probe(step, op.P&pAll)
		}
	}
	// final verification by every lookup; never-attempted ids must stay absent
	last := len(c.Ops) - 1
	r.probe(last, pAll)
	for i := 0; i < nObj; i++ {
		if !r.tried[i] {
			if err := st.HasEncodedObject(plumbing.NewHash(r.id[i])); !errors.Is(err, plumbing.ErrObjectNotFound) {
				r.fails = append(r.fails, failure{sig: "C18/never-written-object-visible", msg: fmt.Sprintf("object %s was never written but HasEncodedObject = %s", r.id[i], errName(err))})
			}
		}
	}
	for _, w := range r.open() { // release temp files / parser goroutines (lazy writers need their header first)
		_ = r.writeSome(w, len(w.data))
		_ = w.w.Close()
	}

	// classification
	kinds := map[string]bool{}
	for _, op := range c.Ops {
		kinds[op.K] = true
	}
	for k := range kinds {
		res.Labels = append(res.Labels, "op:"+k)
	}
	for l := range r.labels {
		if strings.HasPrefix(l, "close-error:") && len(l) > 80 {
			l = l[:80]
		}
		res.Labels = append(res.Labels, l)
	}
	if c.Excl {
		res.Labels = append(res.Labels, "exclusive")
	} else {
		res.Labels = append(res.Labels, "shared")
	}
	if c.SHA256 {
		res.Labels = append(res.Labels, "sha256")
	}
	if r.readOpen {
		res.Labels = append(res.Labels, "read-while-writer-open")
	}
	sort.Strings(res.Labels)
	res.NonTrivial = r.readOpen

	if len(r.fails) > 0 {
		pick := r.fails[0]
		for _, f := range r.fails { // an unexplained failure takes priority over a known shape
			if !f.known {
				pick = f
				break
			}
		}
		res.NonTrivial = true
		var all []string
		for i, f := range r.fails {
			if i == 8 {
				all = append(all, "...")
				break
			}
			all = append(all, f.msg)
		}
		res.Fail = evid.Failf(pick.sig, "%s (excl=%v sha256=%v; %d lookups failed in this case:\n  %s)", pick.msg, c.Excl, c.SHA256, len(r.fails), strings.Join(all, "\n  "))
	}
	return res
}

func TestC18(t *testing.T) {
	evid.Run(t, evid.Spec[Case]{ID: "C18", Gen: gen, Check: check})
}
