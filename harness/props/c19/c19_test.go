// Package c19: a transactional storage must read as "base + pending writes and
// deletions" before Commit (with the base untouched), and after Commit the base
// must equal that view. An explicit overlay model is the oracle.
package c19

import (
	"crypto/sha1"
	"fmt"
	"io"
	"sort"
	"strings"
	"testing"

	"github.com/go-git/go-billy/v6/memfs"
	"github.com/go-git/go-git/v6/plumbing"
	"github.com/go-git/go-git/v6/plumbing/cache"
	formatcfg "github.com/go-git/go-git/v6/plumbing/format/config"
	"github.com/go-git/go-git/v6/plumbing/storer"
	"github.com/go-git/go-git/v6/storage"
	"github.com/go-git/go-git/v6/storage/filesystem"
	"github.com/go-git/go-git/v6/storage/memory"
	"github.com/go-git/go-git/v6/storage/transactional"
	"pgregory.net/rapid"

	"verif/harness/lib/evid"
)

// ---------------------------------------------------------------- case

// Op is one storage call; indices are resolved modulo the universe sizes.
type Op struct {
	K string
	I int
	J int
	L []int
}

// Case: Setup is applied to the base directly, Ops to the transactional
// storage, then Commit.
type Case struct {
	SHA256 bool
	FSBase bool // base = filesystem storage over memfs (else memory)
	Setup  []Op
	Ops    []Op
}

// model only carries the universes (shape shared with the copied helpers).
type model struct {
	s256    bool
	content [nObj][]byte
	id      [nObj]string
}

// state is the abstract content of a repository.
type state struct {
	obj     map[int]bool
	refs    map[plumbing.ReferenceName]string
	idx     string
	cfg     string
	shallow string
	rl      map[plumbing.ReferenceName][]string
}

func newState(s256 bool) *state {
	return &state{obj: map[int]bool{}, refs: map[plumbing.ReferenceName]string{}, idx: "v2|", cfg: cfgStr(buildCfg(-1, s256)),
		rl: map[plumbing.ReferenceName][]string{}}
}

func (s *state) clone() *state {
	c := &state{obj: map[int]bool{}, refs: map[plumbing.ReferenceName]string{}, idx: s.idx, cfg: s.cfg, shallow: s.shallow, rl: map[plumbing.ReferenceName][]string{}}
	for k, v := range s.obj {
		c.obj[k] = v
	}
	for k, v := range s.refs {
		c.refs[k] = v
	}
	for k, v := range s.rl {
		c.rl[k] = append([]string(nil), v...)
	}
	return c
}

// pending records what the transaction did, for classification only.
type pending struct {
	refSet     map[plumbing.ReferenceName]bool // set in the transaction (and not removed since)
	refDel     map[plumbing.ReferenceName]bool // removed in the transaction (and not set since)
	objWritten map[int]bool
	shallowSet bool
}

const (
	sigIterDup   = "C19/IterReferences:base-ref-set-again-in-transaction-listed-twice"
	sigIterDel   = "C19/IterReferences:base-ref-removed-in-transaction-still-listed"
	sigObjDup    = "C19/IterEncodedObjects:base-object-written-again-in-transaction-listed-twice"
	sigCASDel    = "C19/CheckAndSetReference-after-RemoveReference:old-value-taken-from-base-ignoring-pending-removal"
	sigShEmpty   = "C19/Shallow-after-SetShallow-empty:pending-empty-list-ignored-base-list-returned"
)

// ---------------------------------------------------------------- generator

var setupKinds = []string{"objset", "objset", "refset", "refset", "refset", "idxset", "cfgset", "shset", "rlapp"}
var opKinds = []string{
	"objset", "objset", "objget", "objhas", "objsize", "objiter",
	"refset", "refset", "refcas", "refdel", "refdel", "refget", "refget", "refiter", "refiter",
	"idxset", "idxget", "cfgset", "cfgget", "shset", "shget", "rlapp", "rlget", "rldel",
}

func genOp(t *rapid.T, k string) Op {
	op := Op{K: k}
	switch k {
	case "objset", "objhas", "objsize":
		op.I = rapid.IntRange(0, nObj-1).Draw(t, "obj")
	case "objget":
		op.I = rapid.IntRange(0, nObj-1).Draw(t, "obj")
		op.J = rapid.IntRange(0, len(typeSel)-1).Draw(t, "type")
	case "objiter":
		op.J = rapid.IntRange(0, len(typeSel)-1).Draw(t, "type")
	case "refset":
		op.I = rapid.IntRange(0, len(refNames)-1).Draw(t, "ref")
		op.J = rapid.IntRange(0, 5).Draw(t, "val")
	case "refcas":
		op.I = rapid.IntRange(0, len(refNames)-1).Draw(t, "ref")
		op.J = rapid.IntRange(0, 5).Draw(t, "val")
		op.L = []int{rapid.IntRange(0, 2).Draw(t, "oldmode")}
	case "refget", "refdel":
		op.I = rapid.IntRange(0, len(refNames)-1).Draw(t, "ref")
	case "idxset":
		op.L = rapid.SliceOfNDistinct(rapid.IntRange(0, len(idxPaths)*2-1), 0, 4, func(v int) int { return v % len(idxPaths) }).Draw(t, "entries")
		op.J = rapid.SampledFrom([]int{2, 2, 3, 4}).Draw(t, "version")
	case "cfgset":
		op.J = rapid.IntRange(0, 7).Draw(t, "variant")
	case "shset":
		op.L = rapid.SliceOfN(rapid.IntRange(0, nObj-1), 0, 3).Draw(t, "shallows")
	case "rlapp":
		op.I = rapid.IntRange(0, len(rlNames)-1).Draw(t, "rl")
		op.J = rapid.IntRange(0, 5).Draw(t, "entry")
	case "rlget", "rldel":
		op.I = rapid.IntRange(0, len(rlNames)-1).Draw(t, "rl")
	}
	return op
}

func gen(t *rapid.T, r *evid.Recorder) Case {
	c := Case{SHA256: rapid.Bool().Draw(t, "sha256"), FSBase: rapid.Bool().Draw(t, "fsbase")}
	ns := rapid.IntRange(0, 8).Draw(t, "nsetup")
	for i := 0; i < ns; i++ {
		c.Setup = append(c.Setup, genOp(t, rapid.SampledFrom(setupKinds).Draw(t, "sk")))
	}
	avoidCAS := r.IsKnown(sigCASDel)
	// generator-side mirror: names present in the base and removed (not re-set) in the transaction
	inBase, removed := map[int]bool{}, map[int]bool{}
	for _, op := range c.Setup {
		if op.K == "refset" {
			inBase[op.I] = true
		}
	}
	n := rapid.IntRange(2, 24).Draw(t, "nops")
	for i := 0; i < n; i++ {
		op := genOp(t, rapid.SampledFrom(opKinds).Draw(t, "k"))
		switch op.K {
		case "refdel":
			removed[op.I] = true
		case "refset":
			delete(removed, op.I)
		case "refcas":
			if avoidCAS && removed[op.I] && inBase[op.I] {
				op.L = []int{0}
			}
			if op.L[0] == 0 {
				delete(removed, op.I)
			}
		}
		c.Ops = append(c.Ops, op)
	}
	return c
}

// ---------------------------------------------------------------- storages

type fullStorer interface {
	storage.Storer
	storer.ReflogStorer
}

func newBase(c Case) (fullStorer, func()) {
	if c.FSBase {
		o := filesystem.Options{}
		if c.SHA256 {
			o.ObjectFormat = formatcfg.SHA256
		}
		st := filesystem.NewStorageWithOptions(memfs.New(), cache.NewObjectLRUDefault(), o)
		if err := st.Init(); err != nil {
			panic("INFRA: Init: " + err.Error())
		}
		return st, func() { _ = st.Close() }
	}
	return newMem(c.SHA256), func() {}
}

func newMem(s256 bool) *memory.Storage {
	if s256 {
		return memory.NewStorage(memory.WithObjectFormat(formatcfg.SHA256))
	}
	return memory.NewStorage()
}

// ---------------------------------------------------------------- observation

type failure struct {
	sig, msg string
	known    bool
	call     bool // the result of a mutating call itself disagreed (takes priority over known listing shapes)
}

type runner struct {
	c     Case
	u     *model
	fails []failure
}

func (r *runner) add(step int, where, sig string, known bool, format string, a ...any) {
	r.fails = append(r.fails, failure{sig: sig, known: known, msg: fmt.Sprintf("%s step %d: ", where, step) + fmt.Sprintf(format, a...)})
}

// listRefsMulti returns name -> values listed (a multiset), or an error string.
func listRefsMulti(st storer.ReferenceStorer) (map[string][]string, string) {
	it, err := st.IterReferences()
	if err != nil {
		return nil, errKind(err)
	}
	defer it.Close()
	got := map[string][]string{}
	for {
		ref, err := it.Next()
		if err == io.EOF {
			return got, ""
		}
		if err != nil {
			return nil, errKind(err)
		}
		got[string(ref.Name())] = append(got[string(ref.Name())], refStr(ref))
	}
}

func listObjsMulti(st storer.EncodedObjectStorer, t plumbing.ObjectType) (map[string][]string, string) {
	it, err := st.IterEncodedObjects(t)
	if err != nil {
		return nil, errKind(err)
	}
	defer it.Close()
	got := map[string][]string{}
	for {
		o, err := it.Next()
		if err == io.EOF {
			return got, ""
		}
		if err != nil {
			return nil, errKind(err)
		}
		s, err := readObj(o)
		if err != nil {
			return nil, "read:" + errKind(err)
		}
		got[o.Hash().String()] = append(got[o.Hash().String()], s)
	}
}

func sha1sum(b []byte) []byte {
	h := sha1.Sum(b)
	return h[:6]
}

func expectObj(u *model, i int) string {
	return fmt.Sprintf("%s/%d/%s/content-sha1:%x/len:%d", objTypes[i], len(u.content[i]), u.id[i], sha1sum(u.content[i]), len(u.content[i]))
}

// observe compares every read of kind op on st with the abstract state s.
// where names the storage ("tx", "base-before-commit", "base-after-commit");
// p (may be nil) is used to classify listing discrepancies of the transaction
// view; base is the state of the base at transaction start (nil when not "tx").
func (r *runner) observe(step int, where string, st fullStorer, s *state, op Op, p *pending, base *state) {
	u := r.u
	generic := func(kind string) string { return fmt.Sprintf("C19/%s:%s", kind, where) }
	switch op.K {
	case "objget":
		i := mod(op.I, nObj)
		t := typeSel[mod(op.J, len(typeSel))]
		want := "ErrObjectNotFound"
		if s.obj[i] && (t == plumbing.AnyObject || t == objTypes[i]) {
			want = expectObj(u, i)
		}
		got := ""
		o, err := st.EncodedObject(t, plumbing.NewHash(u.id[i]))
		if err != nil {
			got = errKind(err)
		} else if got, err = readObj(o); err != nil {
			got = "read:" + errKind(err)
		}
		if got != want {
			r.add(step, where, generic("EncodedObject"), false, "EncodedObject(%s,%s): want %s, got %s", t, u.id[i], want, got)
		}
	case "objhas":
		i := mod(op.I, nObj)
		want := "ErrObjectNotFound"
		if s.obj[i] {
			want = "ok"
		}
		if got := errKind(st.HasEncodedObject(plumbing.NewHash(u.id[i]))); got != want {
			r.add(step, where, generic("HasEncodedObject"), false, "HasEncodedObject(%s): want %s, got %s", u.id[i], want, got)
		}
	case "objsize":
		i := mod(op.I, nObj)
		want := "ErrObjectNotFound"
		if s.obj[i] {
			want = fmt.Sprintf("ok/%d", len(u.content[i]))
		}
		sz, err := st.EncodedObjectSize(plumbing.NewHash(u.id[i]))
		got := errKind(err)
		if err == nil {
			got = fmt.Sprintf("ok/%d", sz)
		}
		if got != want {
			r.add(step, where, generic("EncodedObjectSize"), false, "EncodedObjectSize(%s): want %s, got %s", u.id[i], want, got)
		}
	case "objiter":
		t := typeSel[mod(op.J, len(typeSel))]
		got, e := listObjsMulti(st, t)
		if e != "" {
			r.add(step, where, generic("IterEncodedObjects-error"), false, "IterEncodedObjects(%s): %s", t, e)
			return
		}
		for i := 0; i < nObj; i++ {
			exp := s.obj[i] && (t == plumbing.AnyObject || t == objTypes[i])
			g := got[u.id[i]]
			delete(got, u.id[i])
			switch {
			case exp && len(g) == 1 && g[0] == expectObj(u, i), !exp && len(g) == 0:
			case exp && len(g) == 2 && g[0] == g[1] && g[0] == expectObj(u, i) && where == "tx" && base.obj[i] && p.objWritten[i]:
				r.add(step, where, sigObjDup, true, "IterEncodedObjects(%s) lists %s twice (it is in the base and was written again in the transaction)", t, u.id[i])
			default:
				r.add(step, where, generic("IterEncodedObjects"), false, "IterEncodedObjects(%s): object %s expected=%v, listed %v", t, u.id[i], exp, g)
			}
		}
		if len(got) > 0 {
			r.add(step, where, generic("IterEncodedObjects"), false, "IterEncodedObjects(%s) invents %v", t, got)
		}
	case "refget":
		n := refNames[mod(op.I, len(refNames))]
		want := "ErrReferenceNotFound"
		if v, ok := s.refs[n]; ok {
			want = string(n) + "=" + v
		}
		got := ""
		ref, err := st.Reference(n)
		if err != nil {
			got = errKind(err)
		} else {
			got = string(ref.Name()) + "=" + refStr(ref)
		}
		if got != want {
			r.add(step, where, generic("Reference"), false, "Reference(%s): want %s, got %s", n, want, got)
		}
	case "refiter":
		got, e := listRefsMulti(st)
		if e != "" {
			r.add(step, where, generic("IterReferences-error"), false, "IterReferences: %s", e)
			return
		}
		for _, n := range refNames {
			want, exp := s.refs[n]
			g := got[string(n)]
			delete(got, string(n))
			switch {
			case exp && len(g) == 1 && g[0] == want, !exp && len(g) == 0:
			case where == "tx" && exp && len(g) == 2 && g[0] == base.refs[n] && g[1] == want && p.refSet[n]:
				r.add(step, where, sigIterDup, true, "IterReferences lists %s twice: %v (base value, then the value set in the transaction); the view holds only %s", n, g, want)
			case where == "tx" && !exp && len(g) == 1 && g[0] == base.refs[n] && p.refDel[n]:
				r.add(step, where, sigIterDel, true, "IterReferences lists %s=%s although it was removed in the transaction", n, g[0])
			default:
				r.add(step, where, generic("IterReferences"), false, "IterReferences: %s expected %q (present=%v), listed %v", n, want, exp, g)
			}
		}
		if len(got) > 0 {
			r.add(step, where, generic("IterReferences"), false, "IterReferences invents %v", got)
		}
	case "idxget":
		idx, err := st.Index()
		got := errKind(err)
		if err == nil {
			got = idxStr(idx)
		}
		if got != s.idx {
			r.add(step, where, generic("Index"), false, "Index: want %s, got %s", s.idx, got)
		}
	case "cfgget":
		cfg, err := st.Config()
		got := errKind(err)
		if err == nil {
			got = cfgStr(cfg)
		}
		if got != s.cfg {
			r.add(step, where, generic("Config"), false, "Config: want %s, got %s", s.cfg, got)
		}
	case "shget":
		hs, err := st.Shallow()
		got := errKind(err)
		if err == nil {
			var ss []string
			for _, h := range hs {
				ss = append(ss, h.String())
			}
			got = strings.Join(ss, ",")
		}
		if got != s.shallow {
			switch {
			case where == "tx" && p.shallowSet && s.shallow == "" && got == base.shallow:
				r.add(step, where, sigShEmpty, true, "Shallow: the transaction set an empty list but the base list %s is returned", got)
			case where == "base-after-commit" && p != nil && p.shallowSet && s.shallow == "" && got == base.shallow:
				r.add(step, where, sigShEmpty, true, "after Commit the base still has shallow list %s; the transaction had set an empty list", got)
			default:
				r.add(step, where, generic("Shallow"), false, "Shallow: want %q, got %q", s.shallow, got)
			}
		}
	case "rlget":
		n := rlNames[mod(op.I, len(rlNames))]
		es, err := st.Reflog(n)
		got := errKind(err)
		if err == nil {
			var ss []string
			for _, e := range es {
				ss = append(ss, rlStr(e))
			}
			got = strings.Join(ss, "\n")
		}
		if want := strings.Join(s.rl[n], "\n"); got != want {
			r.add(step, where, generic("Reflog"), false, "Reflog(%s): want %q, got %q", n, want, got)
		}
	}
}

// allReads enumerates one read of every kind / name / object.
func allReads() []Op {
	var ops []Op
	for i := 0; i < nObj; i++ {
		ops = append(ops, Op{K: "objget", I: i}, Op{K: "objhas", I: i}, Op{K: "objsize", I: i})
	}
	ops = append(ops, Op{K: "objiter"})
	for i := range refNames {
		ops = append(ops, Op{K: "refget", I: i})
	}
	ops = append(ops, Op{K: "refiter"}, Op{K: "idxget"}, Op{K: "cfgget"}, Op{K: "shget"})
	for i := range rlNames {
		ops = append(ops, Op{K: "rlget", I: i})
	}
	return ops
}

// family returns the reads that re-check the component touched by op.
func family(op Op) []Op {
	switch op.K[:2] {
	case "ob":
		return []Op{{K: "objiter"}, {K: "objhas", I: op.I}}
	case "re":
		return []Op{{K: "refiter"}, {K: "refget", I: op.I}}
	case "id":
		return []Op{{K: "idxget"}}
	case "cf":
		return []Op{{K: "cfgget"}}
	case "sh":
		return []Op{{K: "shget"}}
	case "rl":
		return []Op{{K: "rlget", I: op.I}}
	}
	return nil
}

// write applies a mutating op to st and to state s; it returns a non-empty
// (sig, msg) when the result of the call itself disagrees with the model.
func (r *runner) write(st fullStorer, s *state, op Op, p *pending, base *state) (string, string) {
	u := r.u
	uni := u
	switch op.K {
	case "objset":
		i := mod(op.I, nObj)
		h, err := setObj(st, objTypes[i], u.content[i])
		if err != nil || h.String() != u.id[i] {
			return "C19/SetEncodedObject:result", fmt.Sprintf("SetEncodedObject: %s, %s; want %s", h, errKind(err), u.id[i])
		}
		s.obj[i] = true
		if p != nil {
			p.objWritten[i] = true
		}
	case "refset":
		n := refNames[mod(op.I, len(refNames))]
		ref := refValue(n, op.J, &uni.id)
		if err := st.SetReference(ref); err != nil {
			return "C19/SetReference:result", "SetReference: " + errKind(err)
		}
		s.refs[n] = refStr(ref)
		if p != nil {
			p.refSet[n] = true
			delete(p.refDel, n)
		}
	case "refdel":
		n := refNames[mod(op.I, len(refNames))]
		if err := st.RemoveReference(n); err != nil {
			return "C19/RemoveReference:result", "RemoveReference: " + errKind(err)
		}
		delete(s.refs, n)
		if p != nil {
			p.refDel[n] = true
			delete(p.refSet, n)
		}
	case "refcas":
		n := refNames[mod(op.I, len(refNames))]
		nr := refValue(n, op.J, &uni.id)
		mode := 0
		if len(op.L) > 0 {
			mode = mod(op.L[0], 3)
		}
		cur, has := s.refs[n]
		var old *plumbing.Reference
		want := "ok"
		switch mode {
		case 1:
			if has {
				old = refFromStr(n, cur)
			} else {
				old = refValue(n, 0, &uni.id)
				if p != nil && p.refDel[n] {
					if bv, ok := base.refs[n]; ok { // the value the base still holds
						old = refFromStr(n, bv)
					}
				}
				want = "error"
			}
		case 2:
			old = plumbing.NewHashReference(n, plumbing.NewHash(uni.id[4]))
			want = "ErrReferenceHasChanged"
			if !has {
				want = "error"
			}
		}
		got := errKind(st.CheckAndSetReference(nr, old))
		switch {
		case want == "error" && got != "ok":
		case want == "error":
			if p != nil && p.refDel[n] {
				return sigCASDel, fmt.Sprintf("CheckAndSetReference(%s, old=%s) succeeded although %s was removed earlier in the transaction (the view has no such reference)", n, refStr(old), n)
			}
			return "C19/CheckAndSetReference:absent-ref-set", fmt.Sprintf("CheckAndSetReference(%s, old=%s) on a reference absent from the view returned nil", n, refStr(old))
		case got != want:
			return "C19/CheckAndSetReference:result", fmt.Sprintf("CheckAndSetReference(%s): want %s, got %s", n, want, got)
		}
		if want == "ok" {
			s.refs[n] = refStr(nr)
			if p != nil {
				p.refSet[n] = true
				delete(p.refDel, n)
			}
		}
	case "idxset":
		idx := buildIdx(u, op.L, op.J)
		if err := st.SetIndex(idx); err != nil {
			return "C19/SetIndex:result", "SetIndex: " + errKind(err)
		}
		s.idx = idxStr(buildIdx(u, op.L, op.J))
	case "cfgset":
		cfg := buildCfg(mod(op.J, 8), r.c.SHA256)
		want := "ok"
		if cfg.Validate() != nil {
			want = "ErrInvalidConfig"
		}
		if got := errKind(st.SetConfig(cfg)); got != want {
			return "C19/SetConfig:result", fmt.Sprintf("SetConfig: want %s, got %s", want, got)
		}
		if want == "ok" {
			s.cfg = cfgStr(buildCfg(mod(op.J, 8), r.c.SHA256))
		}
	case "shset":
		var hs []plumbing.Hash
		var ss []string
		for _, v := range op.L {
			hs = append(hs, plumbing.NewHash(u.id[mod(v, nObj)]))
			ss = append(ss, u.id[mod(v, nObj)])
		}
		if err := st.SetShallow(hs); err != nil {
			return "C19/SetShallow:result", "SetShallow: " + errKind(err)
		}
		s.shallow = strings.Join(ss, ",")
		if p != nil {
			p.shallowSet = true
		}
	case "rlapp":
		n := rlNames[mod(op.I, len(rlNames))]
		if err := st.AppendReflog(n, buildRL(u, op.J)); err != nil {
			return "C19/AppendReflog:result", "AppendReflog: " + errKind(err)
		}
		s.rl[n] = append(s.rl[n], rlStr(buildRL(u, op.J)))
	case "rldel":
		n := rlNames[mod(op.I, len(rlNames))]
		if err := st.DeleteReflog(n); err != nil {
			return "C19/DeleteReflog:result", "DeleteReflog: " + errKind(err)
		}
		delete(s.rl, n)
	}
	return "", ""
}

func isWrite(k string) bool {
	switch k {
	case "objset", "refset", "refdel", "refcas", "idxset", "cfgset", "shset", "rlapp", "rldel":
		return true
	}
	return false
}

// ---------------------------------------------------------------- check

func classify(c Case) (labels []string, nonTrivial bool) {
	baseRefs, baseObjs := map[int]bool{}, map[int]bool{}
	for _, op := range c.Setup {
		switch op.K {
		case "refset":
			baseRefs[mod(op.I, len(refNames))] = true
		case "objset":
			baseObjs[mod(op.I, nObj)] = true
		}
	}
	kinds := map[string]bool{}
	txRefs, txObjs := map[int]bool{}, map[int]bool{}
	overRef, overObj, delRef, delRL := false, false, map[int]bool{}, map[int]bool{}
	overwriteThenList, deleteThenRead := false, false
	for _, op := range c.Ops {
		kinds[op.K] = true
		switch op.K {
		case "refset", "refcas":
			i := mod(op.I, len(refNames))
			if baseRefs[i] || txRefs[i] {
				overRef = true
			}
			txRefs[i] = true
		case "objset":
			i := mod(op.I, nObj)
			if baseObjs[i] || txObjs[i] {
				overObj = true
			}
			txObjs[i] = true
		case "refdel":
			delRef[mod(op.I, len(refNames))] = true
		case "rldel":
			delRL[mod(op.I, len(rlNames))] = true
		case "refiter":
			if overRef {
				overwriteThenList = true
			}
			if len(delRef) > 0 {
				deleteThenRead = true
			}
		case "objiter":
			if overObj {
				overwriteThenList = true
			}
		case "refget":
			if delRef[mod(op.I, len(refNames))] {
				deleteThenRead = true
			}
		case "rlget":
			if delRL[mod(op.I, len(rlNames))] {
				deleteThenRead = true
			}
		}
	}
	for k := range kinds {
		labels = append(labels, "op:"+k)
	}
	sort.Strings(labels)
	if overwriteThenList {
		labels = append(labels, "overwrite-then-list")
	}
	if deleteThenRead {
		labels = append(labels, "delete-then-read")
	}
	if c.FSBase {
		labels = append(labels, "base:filesystem")
	} else {
		labels = append(labels, "base:memory")
	}
	if c.SHA256 {
		labels = append(labels, "sha256")
	}
	if len(c.Setup) == 0 {
		labels = append(labels, "empty-base")
	}
	return labels, overwriteThenList || deleteThenRead
}

func check(c Case) evid.Result {
	res := evid.Result{}
	if len(c.Ops) == 0 {
		res.Discard = true
		return res
	}
	res.Labels, res.NonTrivial = classify(c)
	u := &model{s256: c.SHA256}
	u.content, u.id = universe(c.SHA256)
	r := &runner{c: c, u: u}

	base, closeBase := newBase(c)
	defer closeBase()
	baseState := newState(c.SHA256)
	for i, op := range c.Setup {
		if !isWrite(op.K) {
			continue
		}
		if sig, msg := r.write(base, baseState, op, nil, nil); sig != "" {
			panic(fmt.Sprintf("INFRA: base setup step %d failed: %s %s", i, sig, msg)) // C17 territory, not this property
		}
	}
	tx := transactional.NewStorage(base, newMem(c.SHA256))
	txs, ok := tx.(fullStorer)
	if !ok {
		panic("INFRA: transactional storage over reflog-capable storages does not expose reflogs")
	}
	view := baseState.clone()
	p := &pending{refSet: map[plumbing.ReferenceName]bool{}, refDel: map[plumbing.ReferenceName]bool{}, objWritten: map[int]bool{}}

	finish := func() evid.Result {
		if len(r.fails) > 0 {
			pick := r.fails[0]
			for _, f := range r.fails { // a failed mutating call outranks known listing shapes
				if f.call {
					pick = f
				}
			}
			for _, f := range r.fails { // anything unexplained outranks every known shape
				if !f.known {
					pick = f
					break
				}
			}
			res.NonTrivial = true
			res.Fail = evid.Failf(pick.sig, "%s (base=%s; %d discrepancies in this case)", pick.msg, map[bool]string{true: "filesystem", false: "memory"}[c.FSBase], len(r.fails))
		}
		return res
	}

	for step, op := range c.Ops {
		if isWrite(op.K) {
			if sig, msg := r.write(txs, view, op, p, baseState); sig != "" {
				// the call's own result disagrees: the real state may now differ from the model, stop here
				r.add(step, "tx", sig, sig == sigCASDel, "%s", msg)
				r.fails[len(r.fails)-1].call = true
				return finish()
			}
			for _, rd := range family(op) {
				r.observe(step, "tx", txs, view, rd, p, baseState)
				r.observe(step, "base-before-commit", base, baseState, rd, nil, nil)
			}
		} else {
			r.observe(step, "tx", txs, view, op, p, baseState)
		}
	}
	last := len(c.Ops)
	for _, rd := range allReads() {
		r.observe(last, "tx", txs, view, rd, p, baseState)
		r.observe(last, "base-before-commit", base, baseState, rd, nil, nil)
	}
	if err := tx.Commit(); err != nil {
		r.add(last, "commit", "C19/Commit:error", false, "Commit: %s", errKind(err))
		return finish()
	}
	for _, rd := range allReads() {
		r.observe(last, "base-after-commit", base, view, rd, p, baseState)
	}
	return finish()
}

func TestC19(t *testing.T) {
	evid.Run(t, evid.Spec[Case]{ID: "C19", Gen: gen, Check: check})
}
