// Helpers copied from props/c17 (universes, canonical string forms).
package c19

import (
	"bytes"
	"crypto/sha1"
	"crypto/sha256"
	"encoding/hex"
	"errors"
	"fmt"
	"io"
	"os"
	"sort"
	"strings"
	"time"

	"github.com/go-git/go-git/v6/config"
	"github.com/go-git/go-git/v6/plumbing"
	"github.com/go-git/go-git/v6/plumbing/filemode"
	formatcfg "github.com/go-git/go-git/v6/plumbing/format/config"
	"github.com/go-git/go-git/v6/plumbing/format/index"
	"github.com/go-git/go-git/v6/plumbing/format/reflog"
	"github.com/go-git/go-git/v6/plumbing/storer"
	"github.com/go-git/go-git/v6/storage"
)

const nObj = 12

var objTypes = [nObj]plumbing.ObjectType{
	plumbing.BlobObject, plumbing.BlobObject, plumbing.BlobObject, plumbing.BlobObject,
	plumbing.BlobObject, plumbing.BlobObject, plumbing.TreeObject, plumbing.TreeObject,
	plumbing.CommitObject, plumbing.CommitObject, plumbing.TagObject, plumbing.BlobObject,
}

func hsum(sha256fmt bool, t plumbing.ObjectType, b []byte) string {
	hdr := []byte(fmt.Sprintf("%s %d\x00", t.String(), len(b)))
	if sha256fmt {
		h := sha256.New()
		h.Write(hdr)
		h.Write(b)
		return hex.EncodeToString(h.Sum(nil))
	}
	h := sha1.New()
	h.Write(hdr)
	h.Write(b)
	return hex.EncodeToString(h.Sum(nil))
}

func longText(seed string, n int) []byte {
	var sb bytes.Buffer
	for i := 0; sb.Len() < n; i++ {
		fmt.Fprintf(&sb, "line %04d of %s: the quick brown fox jumps over the lazy dog\n", i, seed)
	}
	return sb.Bytes()[:n]
}

// universe returns contents and ids of the object universe for a format.
func universe(s256 bool) (content [nObj][]byte, id [nObj]string) {
	content[0] = []byte{}
	content[1] = []byte("abc")
	content[2] = longText("x", 40)
	content[3] = append(longText("x", 40), '!')
	content[4] = longText("big", 2000)
	content[5] = append(append([]byte{}, longText("big", 1500)...), longText("tail", 700)...)
	content[11] = longText("huge", 9000)
	for _, i := range []int{0, 1, 2, 3, 4, 5, 11} {
		id[i] = hsum(s256, objTypes[i], content[i])
	}
	content[6] = []byte{} // empty tree
	id[6] = hsum(s256, plumbing.TreeObject, content[6])
	raw, _ := hex.DecodeString(id[1])
	content[7] = append([]byte("100644 f\x00"), raw...)
	id[7] = hsum(s256, plumbing.TreeObject, content[7])
	content[8] = []byte("tree " + id[6] + "\nauthor A <a@b> 1 +0000\ncommitter A <a@b> 1 +0000\n\nroot\n")
	id[8] = hsum(s256, plumbing.CommitObject, content[8])
	content[9] = []byte("tree " + id[7] + "\nparent " + id[8] + "\nauthor A <a@b> 2 +0000\ncommitter A <a@b> 2 +0000\n\nsecond\n")
	id[9] = hsum(s256, plumbing.CommitObject, content[9])
	content[10] = []byte("object " + id[9] + "\ntype commit\ntag v1\ntagger A <a@b> 3 +0000\n\nrelease\n")
	id[10] = hsum(s256, plumbing.TagObject, content[10])
	return
}

var refNames = []plumbing.ReferenceName{"HEAD", "refs/heads/a", "refs/heads/b", "refs/tags/t", "refs/remotes/o/m", "refs/x/sym"}

var symTargets = []plumbing.ReferenceName{"refs/heads/a", "refs/heads/b", "refs/heads/none"}

var typeSel = []plumbing.ObjectType{plumbing.AnyObject, plumbing.CommitObject, plumbing.TreeObject, plumbing.BlobObject, plumbing.TagObject}

var rlNames = []plumbing.ReferenceName{"HEAD", "refs/heads/a", "refs/remotes/o/m"}

var idxPaths = []string{"a.txt", "b/c.txt", "b/d", "z"}

// refValue: 0..2 hash refs (ids of objects 8, 9, 1), 3..5 symbolic.
func refValue(name plumbing.ReferenceName, v int, ids *[nObj]string) *plumbing.Reference {
	v = mod(v, 6)
	switch v {
	case 0:
		return plumbing.NewHashReference(name, plumbing.NewHash(ids[8]))
	case 1:
		return plumbing.NewHashReference(name, plumbing.NewHash(ids[9]))
	case 2:
		return plumbing.NewHashReference(name, plumbing.NewHash(ids[1]))
	}
	return plumbing.NewSymbolicReference(name, symTargets[v-3])
}

func refStr(r *plumbing.Reference) string {
	if r == nil {
		return "<nil>"
	}
	if r.Type() == plumbing.SymbolicReference {
		return "sym:" + string(r.Target())
	}
	if r.Type() == plumbing.HashReference {
		return "hash:" + r.Hash().String()
	}
	return fmt.Sprintf("invalid-type-%d", r.Type())
}

func mod(i, n int) int {
	i %= n
	if i < 0 {
		i += n
	}
	return i
}

func errKind(err error) string {
	switch {
	case err == nil:
		return "ok"
	case errors.Is(err, plumbing.ErrObjectNotFound):
		return "ErrObjectNotFound"
	case errors.Is(err, plumbing.ErrReferenceNotFound):
		return "ErrReferenceNotFound"
	case errors.Is(err, storage.ErrReferenceHasChanged):
		return "ErrReferenceHasChanged"
	case errors.Is(err, config.ErrInvalid), errors.Is(err, config.ErrRemoteConfigEmptyURL), errors.Is(err, config.ErrRemoteConfigEmptyName):
		return "ErrInvalidConfig"
	}
	return "other-error(" + err.Error() + ")"
}

func readObj(o plumbing.EncodedObject) (string, error) {
	r, err := o.Reader()
	if err != nil {
		return "", err
	}
	defer r.Close()
	b, err := io.ReadAll(r)
	if err != nil {
		return "", err
	}
	h := sha1.Sum(b)
	return fmt.Sprintf("%s/%d/%s/content-sha1:%x/len:%d", o.Type(), o.Size(), o.Hash(), h[:6], len(b)), nil
}

func setObj(st storer.EncodedObjectStorer, t plumbing.ObjectType, b []byte) (plumbing.Hash, error) {
	o := st.NewEncodedObject()
	o.SetType(t)
	o.SetSize(int64(len(b)))
	w, err := o.Writer()
	if err != nil {
		return plumbing.ZeroHash, err
	}
	if _, err := w.Write(b); err != nil {
		return plumbing.ZeroHash, err
	}
	if err := w.Close(); err != nil {
		return plumbing.ZeroHash, err
	}
	return st.SetEncodedObject(o)
}

func sortedKeys(m map[string]string) []string {
	ks := make([]string, 0, len(m))
	for k := range m {
		ks = append(ks, k)
	}
	sort.Strings(ks)
	return ks
}

func mapStr(m map[string]string) string {
	var sb strings.Builder
	for _, k := range sortedKeys(m) {
		sb.WriteString(k + "=" + m[k] + ";")
	}
	return sb.String()
}

func buildIdx(m *model, l []int, version int) *index.Index {
	idx := &index.Index{Version: uint32(version)}
	es := map[string]*index.Entry{}
	for _, v := range l {
		v = mod(v, len(idxPaths)*2)
		p := idxPaths[v%len(idxPaths)]
		e := &index.Entry{Name: p, Hash: plumbing.NewHash(m.id[v%6]), Mode: filemode.Regular, Size: uint32(len(m.content[v%6])),
			CreatedAt: time.Unix(1700000000+int64(v), 5), ModifiedAt: time.Unix(1700000100+int64(v), 7), UID: 1000, GID: 100, Dev: 3, Inode: uint32(40 + v)}
		if v >= len(idxPaths) {
			e.Mode = filemode.Executable
			if version >= 3 {
				e.SkipWorktree = true
			}
		}
		es[p] = e
	}
	var ps []string
	for p := range es {
		ps = append(ps, p)
	}
	sort.Strings(ps)
	for _, p := range ps {
		idx.Entries = append(idx.Entries, es[p])
	}
	return idx
}

func idxStr(idx *index.Index) string {
	if idx == nil {
		return "<nil>"
	}
	var es []string
	for _, e := range idx.Entries {
		es = append(es, fmt.Sprintf("%s:%d:%s:%o:%d:%v:%v:%d.%d:%d.%d:%d:%d:%d:%d", e.Name, e.Stage, e.Hash, uint32(e.Mode), e.Size, e.SkipWorktree, e.IntentToAdd,
			e.CreatedAt.Unix(), e.CreatedAt.Nanosecond(), e.ModifiedAt.Unix(), e.ModifiedAt.Nanosecond(), e.UID, e.GID, e.Dev, e.Inode))
	}
	sort.Strings(es)
	ext := ""
	if idx.Cache != nil || idx.ResolveUndo != nil || idx.EndOfIndexEntry != nil {
		ext = "|ext"
	}
	return fmt.Sprintf("v%d|%s%s", idx.Version, strings.Join(es, ","), ext)
}

// buildCfg returns a fresh config for a variant; -1 = the never-set default.
// Variant 6 and 7 are invalid (Validate fails).
func buildCfg(v int, s256 bool) *config.Config {
	c := config.NewConfig()
	if s256 {
		c.Core.RepositoryFormatVersion = formatcfg.Version1
		c.Extensions.ObjectFormat = formatcfg.SHA256
	}
	switch v {
	case 0:
		c.Core.IsBare = true
	case 1:
		c.User.Name = "Jane Roe"
		c.User.Email = "jane@example.com"
	case 2:
		c.Remotes["origin"] = &config.RemoteConfig{Name: "origin", URLs: []string{"https://example.com/r.git"},
			Fetch: []config.RefSpec{"+refs/heads/*:refs/remotes/origin/*"}}
	case 3:
		c.Remotes["origin"] = &config.RemoteConfig{Name: "origin", URLs: []string{"https://example.com/r.git", "ssh://git@example.com/r.git"},
			Fetch: []config.RefSpec{"+refs/heads/*:refs/remotes/origin/*"}}
		c.Remotes["up"] = &config.RemoteConfig{Name: "up", URLs: []string{"/srv/up.git"}, Fetch: []config.RefSpec{"+refs/heads/*:refs/remotes/up/*"}}
		c.Branches["main"] = &config.Branch{Name: "main", Remote: "origin", Merge: "refs/heads/main"}
	case 4:
		c.Init.DefaultBranch = "trunk"
		c.Core.IsBare = true
		c.User.Name = "X"
	case 5:
		c.Branches["dev"] = &config.Branch{Name: "dev", Remote: "up", Merge: "refs/heads/dev", Rebase: "true"}
	case 6:
		c.Remotes["bad"] = &config.RemoteConfig{Name: "bad"} // no URL: invalid
	case 7:
		c.Remotes["x"] = &config.RemoteConfig{Name: "y", URLs: []string{"https://example.com/x.git"}} // name mismatch: invalid
	}
	return c
}

func cfgStr(c *config.Config) string {
	if c == nil {
		return "<nil>"
	}
	of := c.Extensions.ObjectFormat
	if of == formatcfg.UnsetObjectFormat {
		of = formatcfg.SHA1
	}
	var rs []string
	for n, r := range c.Remotes {
		var fs []string
		for _, f := range r.Fetch {
			fs = append(fs, string(f))
		}
		rs = append(rs, fmt.Sprintf("%s{%s|%s|%s}", n, r.Name, strings.Join(r.URLs, ","), strings.Join(fs, ",")))
	}
	sort.Strings(rs)
	var bs []string
	for n, b := range c.Branches {
		bs = append(bs, fmt.Sprintf("%s{%s|%s|%s|%s}", n, b.Name, b.Remote, b.Merge, b.Rebase))
	}
	sort.Strings(bs)
	return fmt.Sprintf("bare=%v user=%s<%s> init=%s of=%s remotes=%v branches=%v", c.Core.IsBare, c.User.Name, c.User.Email, c.Init.DefaultBranch, of, rs, bs)
}

func buildRL(m *model, v int) *reflog.Entry {
	v = mod(v, 6)
	e := &reflog.Entry{
		OldHash:   plumbing.NewHash(m.id[8]),
		NewHash:   plumbing.NewHash(m.id[9]),
		Committer: reflog.Signature{Name: "C O Mitter", Email: "c@example.com", When: time.Unix(1700000000+int64(v)*61, 0).In(time.FixedZone("", (v-2)*3600))},
		Message:   fmt.Sprintf("commit: change %d", v),
	}
	if v == 0 {
		e.OldHash = plumbing.ZeroHash
		e.Message = "branch: Created from HEAD"
	}
	if v == 5 {
		e.OldHash, e.NewHash = e.NewHash, e.OldHash
		e.Message = "reset: moving to HEAD~1"
	}
	return e
}

func hashStr(h plumbing.Hash) string {
	if h.IsZero() {
		return "zero"
	}
	return h.String()
}

func rlStr(e *reflog.Entry) string {
	if e == nil {
		return "<nil>"
	}
	_, off := e.Committer.When.Zone()
	return fmt.Sprintf("%s>%s %s <%s> %d %+d [%s]", hashStr(e.OldHash), hashStr(e.NewHash), e.Committer.Name, e.Committer.Email, e.Committer.When.Unix(), off, e.Message)
}

func refFromStr(n plumbing.ReferenceName, s string) *plumbing.Reference {
	if strings.HasPrefix(s, "sym:") {
		return plumbing.NewSymbolicReference(n, plumbing.ReferenceName(s[4:]))
	}
	return plumbing.NewHashReference(n, plumbing.NewHash(strings.TrimPrefix(s, "hash:")))
}

func scratchDir() string {
	base := os.Getenv("VERIF_SCRATCH")
	if base == "" {
		base = "/dev/shm"
	}
	d, err := os.MkdirTemp(base, "c19-")
	if err != nil {
		panic("INFRA: scratch: " + err.Error())
	}
	return d
}

