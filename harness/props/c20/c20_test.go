// Package c20 decides C20: through the filesystem storage, reading the index
// always returns what decoding the on-disk index file returns, for any sequence
// of worktree operations (including ones that fail part-way on an injected
// filesystem error) and external rewrites of the index that change its size or
// modification time.
package c20

import (
	"bytes"
	"crypto/sha1"
	"errors"
	"fmt"
	"os"
	"path/filepath"
	"sort"
	"strings"
	"testing"
	"time"

	"github.com/go-git/go-billy/v6/osfs"
	git "github.com/go-git/go-git/v6"
	"github.com/go-git/go-git/v6/plumbing"
	"github.com/go-git/go-git/v6/plumbing/cache"
	"github.com/go-git/go-git/v6/plumbing/format/index"
	"github.com/go-git/go-git/v6/plumbing/object"
	"github.com/go-git/go-git/v6/storage/filesystem"
	"pgregory.net/rapid"

	"verif/harness/lib/evid"
	"verif/harness/lib/fsx"
	"verif/harness/lib/gitx"
)

// Fault is one injected filesystem error: the Nth call of kind Op on
// filesystem FS ("wt" or "dotgit") during the step returns an error. Op "*"
// counts every call. Op "@" places the fault by position: a fault-free dry run
// of the same step on a copy of the current repository counts its filesystem
// calls n, and call number Nth*n/1000 (Nth in 0..999) of the real run fails.
type Fault struct {
	FS  string `json:"fs"`
	Op  string `json:"op"`
	Nth int    `json:"nth"`
	// optional filters (hand-written witnesses): only calls on this path /
	// from a go-git function whose name contains Site are counted
	Path string `json:"path,omitempty"`
	Site string `json:"site,omitempty"`
}

// Op is one step of a history.
type Op struct {
	// go-git steps: add addall addglob remove removeglob move commit commitall
	// reset checkout restore status; raw worktree edits: wtwrite wtdelete;
	// external rewrite by git: ext
	Kind   string   `json:"kind"`
	Path   string   `json:"path,omitempty"`
	To     string   `json:"to,omitempty"`
	Data   string   `json:"data,omitempty"`
	Mode   string   `json:"mode,omitempty"`   // reset: soft mixed hard merge keep
	Target int      `json:"target,omitempty"` // commit index (modulo) for reset / checkout by hash
	Branch string   `json:"branch,omitempty"` // checkout: branch ("" = by hash)
	Create bool     `json:"create,omitempty"`
	Force  bool     `json:"force,omitempty"`
	Keep   bool     `json:"keep,omitempty"`
	Sparse []string `json:"sparse,omitempty"`
	Staged bool     `json:"staged,omitempty"` // restore
	Wt     bool     `json:"wt,omitempty"`     // restore
	Fault  *Fault   `json:"fault,omitempty"`
	Ext    string   `json:"ext,omitempty"`   // add rm-cached cacheinfo reset commit checkout touch add-n skip-worktree
	Stamp  string   `json:"stamp,omitempty"` // natural | keep-mtime (size changed, mtime restored)
	// Unobserved (ext steps only): the oracle does not read the index after this
	// step, so the next go-git step is the first reader of the rewritten file
	// (cache-miss path inside the operation instead of inside the oracle).
	Unobserved bool `json:"unobserved,omitempty"`
}

// Case is a repository recipe plus a history. Cold: the oracle does not read
// the index before the first step (the first step starts with an empty cache).
type Case struct {
	Recipe fsx.Recipe `json:"recipe"`
	Cold   bool       `json:"cold,omitempty"`
	Ops    []Op       `json:"ops"`
}

var goOps = []string{"add", "add", "add", "addall", "addall", "addglob", "addglob", "remove", "removeglob", "move", "move", "commit", "commitall", "commitall", "reset", "reset", "checkout", "checkout", "restore", "status"}
var globs = []string{"a*", "a?", "d/*", "*", "d/e/*", "b"}
var sparseDirs = []string{"d", "f", "d/e"}
var faultOps = map[string][]string{
	"wt":     {"open", "open", "lstat", "lstat", "readdir", "read", "close", "rename", "remove", "openfile", "write", "readlink", "stat"},
	"dotgit": {"create", "create", "create", "write", "write", "close", "open", "read", "stat", "tempfile", "rename", "openfile", "readdir", "fstat", "lock", "mkdirall"},
}

func genFault(t *rapid.T) *Fault {
	switch rapid.IntRange(0, 9).Draw(t, "fpos") {
	case 0, 1:
		return &Fault{FS: "", Op: "@", Nth: rapid.IntRange(0, 999).Draw(t, "fpermille")}
	case 2, 3, 4: // late: the index is written at the end of an operation
		return &Fault{FS: "", Op: "@", Nth: rapid.IntRange(800, 999).Draw(t, "fpermille")}
	case 5, 6, 7: // the index file cannot be (re)created: nothing reaches the disk
		return &Fault{FS: "dotgit", Op: "create", Nth: 0}
	}
	fs := rapid.SampledFrom([]string{"wt", "wt", "dotgit"}).Draw(t, "ffs")
	return &Fault{FS: fs, Op: rapid.SampledFrom(faultOps[fs]).Draw(t, "fop"), Nth: rapid.IntRange(0, 4).Draw(t, "fnth")}
}

func genOp(t *rapid.T, hot []string) Op {
	var o Op
	switch rapid.IntRange(0, 9).Draw(t, "class") {
	case 0, 1: // raw worktree edit
		o.Kind = rapid.SampledFrom([]string{"wtwrite", "wtwrite", "wtdelete"}).Draw(t, "wk")
		o.Path = fsx.GenPath(t, hot)
		o.Data = rapid.SampledFrom(fsx.Datas).Draw(t, "data")
		return o
	case 2: // external rewrite
		o.Kind = "ext"
		o.Ext = rapid.SampledFrom([]string{"add", "add", "rm-cached", "cacheinfo", "cacheinfo", "reset", "commit", "checkout", "touch", "add-n", "skip-worktree"}).Draw(t, "ext")
		o.Path = fsx.GenPath(t, hot)
		o.Data = rapid.SampledFrom(fsx.Datas).Draw(t, "data")
		o.Branch = rapid.SampledFrom(fsx.Branches).Draw(t, "branch")
		o.Stamp = rapid.SampledFrom([]string{"natural", "keep-mtime"}).Draw(t, "stamp")
		o.Unobserved = rapid.Bool().Draw(t, "unobserved")
		return o
	}
	o.Kind = rapid.SampledFrom(goOps).Draw(t, "kind")
	switch o.Kind {
	case "add", "remove":
		if rapid.IntRange(0, 4).Draw(t, "dirarg") == 0 {
			o.Path = rapid.SampledFrom([]string{"d", ".", "d/e", "f"}).Draw(t, "dir")
		} else {
			o.Path = fsx.GenPath(t, hot)
		}
	case "addglob", "removeglob":
		o.Path = rapid.SampledFrom(globs).Draw(t, "glob")
	case "move":
		o.Path = fsx.GenPath(t, hot)
		if rapid.Bool().Draw(t, "tonew") {
			o.To = rapid.SampledFrom([]string{"new", "d/new"}).Draw(t, "to")
		} else {
			o.To = fsx.GenPath(t, hot)
		}
	case "reset":
		o.Mode = rapid.SampledFrom([]string{"soft", "mixed", "hard", "merge", "keep"}).Draw(t, "mode")
		o.Target = rapid.IntRange(0, 5).Draw(t, "target")
		if rapid.IntRange(0, 2).Draw(t, "sp") == 0 {
			o.Sparse = []string{rapid.SampledFrom(sparseDirs).Draw(t, "sparse")}
		}
	case "checkout":
		if rapid.IntRange(0, 3).Draw(t, "byhash") == 0 {
			o.Target = rapid.IntRange(0, 5).Draw(t, "target")
		} else {
			o.Branch = rapid.SampledFrom(append([]string{"fresh"}, fsx.Branches...)).Draw(t, "branch")
			o.Create = rapid.IntRange(0, 3).Draw(t, "create") == 0
		}
		o.Force = rapid.IntRange(0, 2).Draw(t, "force") == 0
		o.Keep = !o.Force && rapid.IntRange(0, 4).Draw(t, "keep") == 0
		if rapid.IntRange(0, 2).Draw(t, "sp") == 0 {
			o.Sparse = []string{rapid.SampledFrom(sparseDirs).Draw(t, "sparse")}
		}
	case "restore":
		o.Staged = true
		o.Wt = rapid.Bool().Draw(t, "wt")
		o.Path = fsx.GenPath(t, hot)
	}
	if rapid.IntRange(0, 9).Draw(t, "faulted") < 7 {
		o.Fault = genFault(t)
	}
	return o
}

func gen(t *rapid.T, _ *evid.Recorder) Case {
	c := Case{Recipe: fsx.GenRecipe(t, 3, true)}
	c.Recipe.Pack, c.Recipe.PackRefs = false, false
	c.Cold = rapid.Bool().Draw(t, "cold")
	n := rapid.IntRange(1, 12).Draw(t, "nops")
	hot := c.Recipe.HeadPaths()
	for i := 0; i < n; i++ {
		c.Ops = append(c.Ops, genOp(t, hot))
	}
	return c
}

// ---- oracle ----

func tkey(t time.Time) string {
	if t.IsZero() {
		return "0:0"
	}
	return fmt.Sprintf("%d:%d", t.Unix(), t.Nanosecond())
}

func entryKey(e *index.Entry) string { return fmt.Sprintf("%s\x00%d", e.Name, e.Stage) }

// diffIndex compares the cached view with the fresh decode. It returns "" when
// they agree, else a class naming the first kind of difference, and a detail.
func diffIndex(cached, disk *index.Index) (string, string) {
	if cached.Version != disk.Version {
		return "version", fmt.Sprintf("version cached=%d disk=%d", cached.Version, disk.Version)
	}
	cm := map[string]*index.Entry{}
	for _, e := range cached.Entries {
		cm[entryKey(e)] = e
	}
	dm := map[string]*index.Entry{}
	var names []string
	for _, e := range disk.Entries {
		dm[entryKey(e)] = e
		names = append(names, entryKey(e))
	}
	for _, e := range cached.Entries {
		if _, ok := dm[entryKey(e)]; !ok {
			names = append(names, entryKey(e))
		}
	}
	sort.Strings(names)
	for _, n := range names {
		c, d := cm[n], dm[n]
		switch {
		case c == nil:
			return "entry-missing-in-cache", fmt.Sprintf("%q on disk (%s) but not in the cached view", d.Name, d.Hash)
		case d == nil:
			return "entry-extra-in-cache", fmt.Sprintf("%q in the cached view (%s) but not on disk", c.Name, c.Hash)
		case c.Hash != d.Hash:
			return "entry-hash", fmt.Sprintf("%q hash cached=%s disk=%s", c.Name, c.Hash, d.Hash)
		case c.SkipWorktree != d.SkipWorktree || c.IntentToAdd != d.IntentToAdd:
			return "entry-flags", fmt.Sprintf("%q skip-worktree cached=%v disk=%v intent-to-add cached=%v disk=%v", c.Name, c.SkipWorktree, d.SkipWorktree, c.IntentToAdd, d.IntentToAdd)
		case c.Mode != d.Mode:
			return "entry-mode", fmt.Sprintf("%q mode cached=%o disk=%o", c.Name, c.Mode, d.Mode)
		case c.Size != d.Size || tkey(c.ModifiedAt) != tkey(d.ModifiedAt) || tkey(c.CreatedAt) != tkey(d.CreatedAt) ||
			c.Dev != d.Dev || c.Inode != d.Inode || c.UID != d.UID || c.GID != d.GID:
			return "entry-stat", fmt.Sprintf("%q stat data cached={size %d mtime %s ctime %s dev %d ino %d uid %d gid %d} disk={size %d mtime %s ctime %s dev %d ino %d uid %d gid %d}",
				c.Name, c.Size, tkey(c.ModifiedAt), tkey(c.CreatedAt), c.Dev, c.Inode, c.UID, c.GID,
				d.Size, tkey(d.ModifiedAt), tkey(d.CreatedAt), d.Dev, d.Inode, d.UID, d.GID)
		}
	}
	if len(cached.Entries) != len(disk.Entries) {
		return "entry-count", fmt.Sprintf("entries cached=%d disk=%d (duplicates)", len(cached.Entries), len(disk.Entries))
	}
	return "", ""
}

func decodeDisk(dir string) (*index.Index, error) {
	raw, err := os.ReadFile(filepath.Join(dir, ".git", "index"))
	if err != nil {
		if os.IsNotExist(err) {
			return &index.Index{Version: 2}, nil
		}
		panic("INFRA: read index: " + err.Error())
	}
	idx := &index.Index{}
	if err := index.NewDecoder(bytes.NewReader(raw), sha1.New()).Decode(idx); err != nil {
		return nil, err
	}
	return idx, nil
}

func sigTime(i int) *object.Signature {
	return &object.Signature{Name: "a", Email: "a@example.com", When: time.Unix(1700001000+int64(i), 0).UTC()}
}

var resetModes = map[string]git.ResetMode{"soft": git.SoftReset, "mixed": git.MixedReset, "hard": git.HardReset, "merge": git.MergeReset, "keep": git.KeepReset}

// runGo executes one go-git step; a panic of the code under test is turned into
// an error (it is not what this property is about).
func runGo(w *git.Worktree, b fsx.Built, o Op, step int) (err error) {
	defer func() {
		if p := recover(); p != nil {
			if gitx.IsInfraPanic(p) {
				panic(p)
			}
			err = fmt.Errorf("panic: %v", p)
		}
	}()
	hashAt := func(i int) plumbing.Hash {
		if i < 0 {
			i = -i
		}
		return plumbing.NewHash(b.Hashes[i%len(b.Hashes)])
	}
	switch o.Kind {
	case "add":
		_, err = w.Add(o.Path)
	case "addall":
		err = w.AddWithOptions(&git.AddOptions{All: true})
	case "addglob":
		err = w.AddGlob(o.Path)
	case "remove":
		_, err = w.Remove(o.Path)
	case "removeglob":
		err = w.RemoveGlob(o.Path)
	case "move":
		_, err = w.Move(o.Path, o.To)
	case "commit", "commitall":
		_, err = w.Commit(fmt.Sprintf("s%d", step), &git.CommitOptions{All: o.Kind == "commitall", Author: sigTime(step), Committer: sigTime(step)})
	case "reset":
		err = w.Reset(&git.ResetOptions{Commit: hashAt(o.Target), Mode: resetModes[o.Mode], SparseDirs: o.Sparse})
	case "checkout":
		co := &git.CheckoutOptions{Create: o.Create, Force: o.Force, Keep: o.Keep, SparseCheckoutDirectories: o.Sparse}
		if o.Branch != "" {
			co.Branch = plumbing.NewBranchReferenceName(o.Branch)
		} else {
			co.Hash = hashAt(o.Target)
		}
		err = w.Checkout(co)
	case "restore":
		err = w.Restore(&git.RestoreOptions{Staged: o.Staged, Worktree: o.Wt, Files: []string{o.Path}})
	case "status":
		_, err = w.Status()
	default:
		panic("INFRA: unknown go op " + o.Kind)
	}
	return err
}

// stamp is the (size, mtime) of the index file at the last moment go-git could
// have read it; ok=false when the file did not exist.
type stamp struct {
	size  int64
	mtime time.Time
	ok    bool
}

func statIndex(dir string) stamp {
	fi, err := os.Stat(filepath.Join(dir, ".git", "index"))
	if err != nil {
		return stamp{}
	}
	return stamp{fi.Size(), fi.ModTime(), true}
}

// runExt rewrites the index with the real git and makes sure that, relative to
// what go-git last saw (last), the file's size or modification time changed, as
// the property requires. It reports whether the index file changed at all.
func runExt(dir string, o Op, last stamp) (changed bool, how string) {
	ip := filepath.Join(dir, ".git", "index")
	before := statIndex(dir)
	braw, _ := os.ReadFile(ip)
	p := filepath.Join(dir, filepath.FromSlash(o.Path))
	switch o.Ext {
	case "add":
		os.MkdirAll(filepath.Dir(p), 0o755)
		os.WriteFile(p, []byte(o.Data), 0o644)
		gitx.Try(dir, "add", "--", o.Path)
	case "rm-cached":
		gitx.Try(dir, "rm", "-q", "--cached", "--", o.Path)
	case "cacheinfo":
		// (a faulted go-git step may have left the repository unusable for git: then nothing happens)
		if h, _, code := gitx.TryIn(dir, []byte(o.Data), "hash-object", "-w", "--stdin"); code == 0 {
			gitx.Try(dir, "update-index", "--add", "--cacheinfo", "100644,"+strings.TrimSpace(h)+","+o.Path)
		}
	case "reset":
		gitx.Try(dir, "reset", "-q")
	case "commit":
		gitx.Try(dir, "commit", "-q", "--allow-empty", "-m", "ext")
	case "checkout":
		gitx.Try(dir, "checkout", "-q", "-f", o.Branch)
	case "touch":
		if before.ok {
			os.Chtimes(ip, before.mtime.Add(time.Second), before.mtime.Add(time.Second))
		}
	case "add-n":
		os.MkdirAll(filepath.Dir(p), 0o755)
		if _, err := os.Lstat(p); err != nil {
			os.WriteFile(p, []byte(o.Data), 0o644)
		}
		gitx.Try(dir, "add", "-N", "--", o.Path)
	case "skip-worktree":
		gitx.Try(dir, "update-index", "--skip-worktree", "--", o.Path)
	default:
		panic("INFRA: unknown ext op " + o.Ext)
	}
	after := statIndex(dir)
	araw, _ := os.ReadFile(ip)
	if !before.ok || !after.ok {
		return before.ok != after.ok, "created-or-removed"
	}
	if bytes.Equal(braw, araw) && before.mtime.Equal(after.mtime) {
		return false, "untouched"
	}
	switch {
	case last.ok && after.size != last.size && o.Stamp == "keep-mtime":
		// size differs from what go-git saw: the property still covers the rewrite
		// when the mtime is the one go-git saw
		if err := os.Chtimes(ip, last.mtime, last.mtime); err != nil {
			panic("INFRA: chtimes: " + err.Error())
		}
		return true, "size-changed-mtime-kept"
	case last.ok && after.size == last.size && after.mtime.Equal(last.mtime):
		// same size and same mtime as what go-git saw (one clock tick, or an earlier
		// restored mtime): outside the property unless the mtime moves
		nt := after.mtime.Add(time.Second)
		if err := os.Chtimes(ip, nt, nt); err != nil {
			panic("INFRA: chtimes: " + err.Error())
		}
		return true, "same-size-mtime-bumped"
	case last.ok && after.size == last.size:
		return true, "same-size-mtime-changed"
	}
	return true, "size-and-mtime-changed"
}

// dryRunCalls executes the step without faults on a copy of the repository
// (fresh Storage, index cache warmed) and returns the number of filesystem calls.
func dryRunCalls(scratch, dir string, b fsx.Built, o Op, step int) int {
	d := filepath.Join(scratch, "dry")
	defer os.RemoveAll(d)
	fsx.CopyTreeGo(dir, d)
	ctl := fsx.NewCtl(false)
	dot := ctl.Wrap(osfs.New(filepath.Join(d, ".git"), osfs.WithBoundOS()), "dotgit")
	wt := ctl.Wrap(osfs.New(d, osfs.WithBoundOS()), "wt")
	st := filesystem.NewStorage(dot, cache.NewObjectLRUDefault())
	defer st.Close()
	repo, err := git.Open(st, wt)
	if err != nil {
		return 0
	}
	w, err := repo.Worktree()
	if err != nil {
		return 0
	}
	st.Index()
	ctl.Reset()
	runGo(w, b, o, step)
	return ctl.Calls()
}

// opName names the entry point for labels; sigOp is the coarser name used in
// signatures (reset mode and checkout flags do not select a different code path
// for what this property observes; the sparse variant does: Index.SkipUnless).
func opName(o Op) string {
	switch o.Kind {
	case "ext":
		return "ext-" + o.Ext
	case "reset":
		n := "Reset-" + o.Mode
		if len(o.Sparse) > 0 {
			n += "-sparse"
		}
		return n
	case "checkout":
		n := "Checkout"
		if o.Force {
			n += "-force"
		}
		if o.Keep {
			n += "-keep"
		}
		if len(o.Sparse) > 0 {
			n += "-sparse"
		}
		return n
	case "restore":
		if o.Wt {
			return "Restore-staged-worktree"
		}
		return "Restore-staged"
	}
	return map[string]string{"add": "Add", "addall": "AddAll", "addglob": "AddGlob", "remove": "Remove", "removeglob": "RemoveGlob",
		"move": "Move", "commit": "Commit", "commitall": "CommitAll", "status": "Status", "wtwrite": "wtwrite", "wtdelete": "wtdelete"}[o.Kind]
}

func sigOp(o Op) string {
	switch o.Kind {
	case "reset":
		if len(o.Sparse) > 0 {
			return "Reset-sparse"
		}
		return "Reset"
	case "checkout":
		if len(o.Sparse) > 0 {
			return "Checkout-sparse"
		}
		return "Checkout"
	case "restore":
		return "Restore"
	}
	return opName(o)
}

// sigClass folds the per-field difference classes: hash, stat data and mode of
// an entry are written together by one routine, flags by another.
func sigClass(cls string) string {
	switch cls {
	case "entry-hash", "entry-stat", "entry-mode":
		return "cached-entry-content-differs"
	case "entry-flags":
		return "cached-entry-flags-differ"
	}
	return cls
}

func check(c Case) evid.Result {
	res := evid.Result{}
	if len(c.Recipe.Commits) == 0 {
		res.Discard = true
		return res
	}
	scratch := fsx.Scratch()
	defer os.RemoveAll(scratch)
	dir := filepath.Join(scratch, "r")
	b := c.Recipe.Build(dir)

	debug := os.Getenv("C20_DEBUG") != ""
	ctl := fsx.NewCtl(debug)
	dot := ctl.Wrap(osfs.New(filepath.Join(dir, ".git"), osfs.WithBoundOS()), "dotgit")
	wt := ctl.Wrap(osfs.New(dir, osfs.WithBoundOS()), "wt")
	st := filesystem.NewStorage(dot, cache.NewObjectLRUDefault())
	defer st.Close()
	repo, err := git.Open(st, wt)
	if err != nil {
		panic("INFRA: open: " + err.Error())
	}
	w, err := repo.Worktree()
	if err != nil {
		panic("INFRA: worktree: " + err.Error())
	}

	labels := map[string]bool{}
	var firstKnown *evid.Failure
	// tolerate handles a divergence: an unknown one ends the case; a confirmed
	// known finding (VERIF_KNOWN, set by the driver only while its witness still
	// fails) is remembered, the cache is resynchronised by moving the index
	// mtime, and the history continues so that other divergences stay reachable.
	tolerate := func(f *evid.Failure) bool {
		if !knownSigs[f.Sig] {
			return false
		}
		if firstKnown == nil {
			firstKnown = f
		}
		ip := filepath.Join(dir, ".git", "index")
		if fi, err := os.Stat(ip); err == nil {
			nt := fi.ModTime().Add(2 * time.Second)
			os.Chtimes(ip, nt, nt)
		}
		return true
	}
	verify := func(step int, o Op, faultFired *fsx.Event, opErr error, extHow string) *evid.Failure {
		cached, cerr := st.Index()
		disk, derr := decodeDisk(dir)
		where := "nofault"
		if faultFired != nil {
			where = "after-fault"
		}
		if o.Kind == "ext" {
			where = extHow
		}
		ctx := fmt.Sprintf("step %d %s", step, opName(o))
		if o.Kind != "ext" && extHow != "" {
			ctx += " [" + extHow + " of the index file]"
		}
		if faultFired != nil {
			ctx += fmt.Sprintf(" (injected error at %s; operation returned: %v)", faultFired.String(), opErr)
		} else if o.Kind != "ext" {
			ctx += fmt.Sprintf(" (no fault fired; operation returned: %v)", opErr)
		} else {
			ctx += " (" + extHow + ")"
		}
		if (cerr != nil) != (derr != nil) {
			return evid.Failf(fmt.Sprintf("C20/%s/%s/error-mismatch", sigOp(o), where), "%s: Storer.Index() error=%v but decoding the on-disk index gives error=%v", ctx, cerr, derr)
		}
		if derr != nil {
			labels["disk-index-undecodable"] = true
			return nil
		}
		if cls, detail := diffIndex(cached, disk); cls != "" {
			return evid.Failf(fmt.Sprintf("C20/%s/%s/%s", sigOp(o), where, sigClass(cls)), "%s: Storer.Index() differs from a fresh decode of .git/index: %s", ctx, detail)
		}
		if (cached.Cache != nil) != (disk.Cache != nil) || (cached.ResolveUndo != nil) != (disk.ResolveUndo != nil) {
			labels["extension-only-difference(not-compared)"] = true
		}
		return nil
	}

	// the state right after opening must agree as well
	if !c.Cold {
		if f := verify(-1, Op{Kind: "status"}, nil, nil, ""); f != nil {
			res.Fail = f
			res.NonTrivial = true
			return res
		}
	} else {
		labels["cold-start"] = true
	}
	pendingExt := c.Cold   // the next go-git step reads an index file nobody has read yet
	last := statIndex(dir) // what go-git last saw (or, cold, could not have seen yet)
	for i, o := range c.Ops {
		switch o.Kind {
		case "wtwrite":
			p := filepath.Join(dir, filepath.FromSlash(o.Path))
			os.MkdirAll(filepath.Dir(p), 0o755)
			os.WriteFile(p, []byte(o.Data), 0o644)
			continue
		case "wtdelete":
			os.Remove(filepath.Join(dir, filepath.FromSlash(o.Path)))
			continue
		case "ext":
			changed, how := runExt(dir, o, last)
			labels["ext:"+o.Ext] = true
			if changed {
				res.NonTrivial = true
				labels["ext-rewrite:"+how] = true
			}
			if o.Unobserved && i < len(c.Ops)-1 {
				pendingExt = pendingExt || changed
				labels["ext-unobserved"] = true
				continue
			}
			pendingExt = false
			f := verify(i, o, nil, nil, how)
			last = statIndex(dir)
			if f != nil && !tolerate(f) {
				res.Fail = f
				return res
			}
			last = statIndex(dir)
			continue
		}
		ctl.Reset()
		if o.Fault != nil && o.Fault.Op == "@" {
			n := dryRunCalls(scratch, dir, b, o, i)
			nth := o.Fault.Nth % 1000
			if nth < 0 {
				nth = -nth
			}
			ctl.FailSeq(nth * n / 1000)
		} else if o.Fault != nil {
			ctl.FailMatch(fsx.Match{FS: o.Fault.FS, Op: o.Fault.Op, Nth: o.Fault.Nth, Path: o.Fault.Path, Site: o.Fault.Site})
		}
		opErr := runGo(w, b, o, i)
		fired := ctl.Fired()
		ctl.Disarm()
		if debug {
			fs := "none"
			if fired != nil {
				fs = fmt.Sprintf("#%d/%d %s", fired.Seq, ctl.Calls(), fired.String())
			}
			fmt.Printf("STEP %d %s fault=%+v fired=%s err=%v\n", i, opName(o), o.Fault, fs, opErr)
		}
		if os.Getenv("C20_DEBUG") == "trace" {
			for _, e := range ctl.Trace() {
				fmt.Printf("TRACE step %d #%d %s\n", i, e.Seq, e.String())
			}
		}
		labels["op:"+opName(o)] = true
		switch {
		case fired != nil && opErr != nil:
			res.NonTrivial = true
			labels["fault-fired-op-failed"] = true
			labels["fault-at:"+fired.FS+":"+fired.Op] = true
			if errors.Is(opErr, fsx.ErrInjected.Err) {
				labels["fault-error-propagated"] = true
			}
		case fired != nil:
			labels["fault-fired-op-succeeded"] = true
		case o.Fault != nil:
			labels["fault-not-reached"] = true
		case opErr != nil:
			labels["op-refused-without-fault"] = true
		}
		how := ""
		if pendingExt {
			how = "first-reader"
			labels["go-op-is-first-reader"] = true
		}
		pendingExt = false
		f := verify(i, o, fired, opErr, how)
		if f != nil && !tolerate(f) {
			res.Fail = f
			res.NonTrivial = true
			return res
		}
		last = statIndex(dir)
	}
	res.Fail = firstKnown
	for l := range labels {
		res.Labels = append(res.Labels, l)
	}
	sort.Strings(res.Labels)
	return res
}

// knownSigs: confirmed-open known findings passed by the driver for the search
// phase (empty during witness replays, so a witness always reports its failure).
var knownSigs = func() map[string]bool {
	m := map[string]bool{}
	for _, s := range strings.Split(os.Getenv("VERIF_KNOWN"), "\x1f") {
		if s != "" {
			m[s] = true
		}
	}
	return m
}()

func TestC20(t *testing.T) {
	evid.Run(t, evid.Spec[Case]{ID: "C20", Gen: gen, Check: check})
}
