// Package c21 decides C21: if the process stops at any filesystem operation
// during a go-git mutation, the repository afterwards can be opened by go-git
// and git, every reference resolves, and no object reachable from any reference
// before or after the operation is missing.
//
// Crash model (crashfs, lib/fsx): the state after a crash is the effect of a
// prefix of the operation's filesystem mutations. A fault-free dry run on a copy
// of the repository counts the mutating calls N; the operation is then
// re-executed on a fresh copy with a wrapper that freezes at the k-th mutating
// call (optionally tearing that call when it is a Write).
package c21

import (
	"context"
	"crypto/sha1"
	"encoding/hex"
	"encoding/json"
	"fmt"
	"net/url"
	"os"
	"path/filepath"
	"regexp"
	"sort"
	"strings"
	"testing"
	"time"

	"github.com/go-git/go-billy/v6/osfs"
	git "github.com/go-git/go-git/v6"
	"github.com/go-git/go-git/v6/config"
	"github.com/go-git/go-git/v6/plumbing"
	"github.com/go-git/go-git/v6/plumbing/cache"
	"github.com/go-git/go-git/v6/plumbing/client"
	"github.com/go-git/go-git/v6/plumbing/object"
	"github.com/go-git/go-git/v6/storage"
	"github.com/go-git/go-git/v6/storage/filesystem"
	"pgregory.net/rapid"

	"verif/harness/lib/evid"
	"verif/harness/lib/fsx"
	"verif/harness/lib/gitx"
)

// OpSpec is the mutating operation under test.
type OpSpec struct {
	// add-commit commit-all commit checkout reset repack prune packrefs
	// setconfig setref removeref tag deltag fetch receive
	Kind   string `json:"kind"`
	Target int    `json:"target,omitempty"` // commit index (modulo) for checkout / reset / setref / tag
	Branch string `json:"branch,omitempty"` // checkout / setref / removeref
	Create bool   `json:"create,omitempty"` // checkout -b
	Force  bool   `json:"force,omitempty"`  // checkout --force
	Mode   string `json:"mode,omitempty"`   // reset: soft mixed hard
	Annot  bool   `json:"annot,omitempty"`  // tag: annotated
	Loose  int    `json:"loose,omitempty"`  // prune / repack: number of extra unreachable loose blobs
	What   string `json:"what,omitempty"`   // setconfig: remote | branch | user
	// fetch / receive: what the other side has that this side lacks
	NewCommits int  `json:"new_commits,omitempty"` // commits added on top of main
	NewBranch  bool `json:"new_branch,omitempty"`
	NewTag     bool `json:"new_tag,omitempty"`
}

// Case is one crash point of one operation on one generated repository.
type Case struct {
	Recipe fsx.Recipe `json:"recipe"`
	Op     OpSpec     `json:"op"`
	K      int        `json:"k"`    // crash point = K modulo the number of mutating calls of the dry run
	Torn   int        `json:"torn"` // 0: the k-th call does nothing; >0: a Write applies 1+(torn-1)%(n-1) bytes first
	// At, when set, addresses the crash point by class instead of by number (the
	// Nth mutating call with this filesystem, kind, normalised path and go-git
	// call site): the form used by witness files.
	At *fsx.Match `json:"at,omitempty"`
}

var opKinds = []string{"add-commit", "add-commit", "commit-all", "commit", "checkout", "checkout", "reset", "reset", "repack", "repack", "prune",
	"packrefs", "setconfig", "setref", "setref", "removeref", "tag", "deltag", "fetch", "fetch", "receive", "receive"}

func genOp(t *rapid.T, kinds []string) OpSpec {
	o := OpSpec{Kind: rapid.SampledFrom(kinds).Draw(t, "kind")}
	switch o.Kind {
	case "checkout":
		o.Branch = rapid.SampledFrom(append([]string{"", "fresh"}, fsx.Branches...)).Draw(t, "branch")
		o.Create = o.Branch == "fresh" || rapid.IntRange(0, 5).Draw(t, "create") == 0
		o.Force = rapid.Bool().Draw(t, "force")
		o.Target = rapid.IntRange(0, 5).Draw(t, "target")
	case "reset":
		o.Mode = rapid.SampledFrom([]string{"soft", "mixed", "hard", "hard"}).Draw(t, "mode")
		o.Target = rapid.IntRange(0, 5).Draw(t, "target")
	case "repack", "prune":
		o.Loose = rapid.IntRange(0, 3).Draw(t, "loose")
	case "setconfig":
		o.What = rapid.SampledFrom([]string{"remote", "branch", "user"}).Draw(t, "what")
	case "setref", "removeref":
		o.Branch = rapid.SampledFrom(append([]string{"fresh"}, fsx.Branches...)).Draw(t, "branch")
		o.Target = rapid.IntRange(0, 5).Draw(t, "target")
	case "tag":
		o.Annot = rapid.Bool().Draw(t, "annot")
		o.Target = rapid.IntRange(0, 5).Draw(t, "target")
	case "fetch", "receive":
		o.NewCommits = rapid.IntRange(0, 2).Draw(t, "newcommits")
		o.NewBranch = rapid.Bool().Draw(t, "newbranch")
		o.NewTag = rapid.Bool().Draw(t, "newtag")
		if o.NewCommits == 0 && !o.NewBranch && !o.NewTag {
			o.NewCommits = 1
		}
	}
	return o
}

func gen(t *rapid.T, _ *evid.Recorder) Case {
	c := Case{Recipe: fsx.GenRecipe(t, 3, true)}
	c.Op = genOp(t, opKinds)
	if c.Op.Kind == "deltag" && len(c.Recipe.Tags) == 0 {
		c.Recipe.Tags = []fsx.Tag{{Name: "v1", At: 0, Annotated: rapid.Bool().Draw(t, "annot")}}
	}
	c.K = rapid.IntRange(0, 1<<16).Draw(t, "k")
	if rapid.IntRange(0, 2).Draw(t, "tear") == 0 {
		c.Torn = rapid.IntRange(1, 64).Draw(t, "torn")
	}
	return c
}

// ---- building the pre-state (real git only) ----

type seed struct {
	dir    string // contains r/ (the repository) and possibly peer/ (the other side)
	built  fsx.Built
	refs   map[string]string // refname -> object id before the operation (HEAD included when it resolves)
	hashes []string          // distinct ids of refs
}

func sigT(i int) *object.Signature {
	return &object.Signature{Name: "a", Email: "a@example.com", When: time.Unix(1700002000+int64(i), 0).UTC()}
}

func readRefs(dir string) (map[string]string, string, string, int) {
	out, errs, code := gitx.Try(dir, "for-each-ref", "--format=%(refname) %(objectname)")
	m := map[string]string{}
	for _, l := range strings.Split(strings.TrimSpace(out), "\n") {
		if f := strings.Fields(l); len(f) == 2 {
			m[f[0]] = f[1]
		}
	}
	return m, out, errs, code
}

// buildSeed builds the repository of a case and, for fetch / receive, the peer.
func buildSeed(c Case, dir string) *seed {
	s := &seed{dir: dir}
	rdir := filepath.Join(dir, "r")
	s.built = c.Recipe.Build(rdir)
	o := c.Op
	for i := 0; i < o.Loose && (o.Kind == "prune" || o.Kind == "repack"); i++ {
		gitx.MustIn(rdir, []byte(fmt.Sprintf("unreachable %d\n", i)), "hash-object", "-w", "--stdin")
	}
	if o.Kind == "fetch" || o.Kind == "receive" {
		peer := filepath.Join(dir, "peer")
		fsx.CopyTreeGo(filepath.Join(rdir, ".git"), peer) // a bare copy of the history
		cfg := "[core]\n\trepositoryformatversion = 0\n\tfilemode = true\n\tbare = true\n"
		if err := os.WriteFile(filepath.Join(peer, "config"), []byte(cfg), 0o644); err != nil {
			panic("INFRA: " + err.Error())
		}
		os.Remove(filepath.Join(peer, "index"))
		// the side that has more: peer for fetch, r for receive
		rich := peer
		if o.Kind == "receive" {
			rich = rdir
		}
		var sb strings.Builder
		mainTip := strings.TrimSpace(gitx.Must(rich, "rev-parse", "refs/heads/main"))
		last := mainTip
		mark := 0
		for i := 0; i < o.NewCommits; i++ {
			mark++
			fmt.Fprintf(&sb, "commit refs/heads/main\nmark :%d\ncommitter P <p@example.com> %d +0000\ndata 3\nn%d\n", mark, 1700005000+i, i)
			if i == 0 {
				fmt.Fprintf(&sb, "from %s\n", mainTip)
			}
			body := fmt.Sprintf("new %d\n", i)
			fmt.Fprintf(&sb, "M 100644 inline new%d\ndata %d\n%s\n", i, len(body), body)
			last = fmt.Sprintf(":%d", mark)
		}
		if o.NewBranch {
			mark++
			fmt.Fprintf(&sb, "commit refs/heads/feat\nmark :%d\ncommitter P <p@example.com> 1700006000 +0000\ndata 5\nfeat\n\nfrom %s\nM 100644 inline featfile\ndata 5\nfeat\n\n", mark, last)
		}
		if o.NewTag {
			fmt.Fprintf(&sb, "tag v2\nfrom %s\ntagger T <t@example.com> 1700007000 +0000\ndata 3\nv2\n\n", last)
		}
		gitx.MustIn(rich, []byte(sb.String()), "fast-import", "--quiet")
		if o.Kind == "fetch" {
			gitx.Must(rdir, "remote", "add", "origin", peer)
		}
	}
	refs, _, errs, code := readRefs(rdir)
	if code != 0 || strings.TrimSpace(errs) != "" {
		panic("INFRA: seed for-each-ref: " + errs)
	}
	if h, _, code := gitx.Try(rdir, "rev-parse", "--verify", "-q", "HEAD^{commit}"); code == 0 {
		refs["HEAD"] = strings.TrimSpace(h)
	}
	s.refs = refs
	seen := map[string]bool{}
	for _, h := range refs {
		if !seen[h] {
			seen[h] = true
			s.hashes = append(s.hashes, h)
		}
	}
	sort.Strings(s.hashes)
	return s
}

// one-entry memo: the enumeration test evaluates many crash points of one
// (recipe, op); the rapid test profits for the dry-run/crash-run pair.
var memo struct {
	key string
	s   *seed
	n   int // mutating calls of the dry run (-1 unknown)
	tr  []fsx.Event
	dry *outcome
}

func seedKey(c Case) string {
	b, _ := json.Marshal(struct {
		R fsx.Recipe
		O OpSpec
	}{c.Recipe, c.Op})
	h := sha1.Sum(b)
	return hex.EncodeToString(h[:])
}

func dropMemo() {
	if memo.s != nil {
		os.RemoveAll(memo.s.dir)
	}
	memo.key, memo.s, memo.n, memo.tr, memo.dry = "", nil, -1, nil, nil
}

// ---- running the operation through crashfs ----

type loader struct{ st storage.Storer }

func (l loader) Load(*url.URL) (storage.Storer, error) { return l.st, nil }

type noCloseStorer struct{ storage.Storer }

// runOp executes the operation on the repository in work/r with both
// filesystems wrapped by ctl. It returns the operation's error.
func runOp(ctl *fsx.Ctl, s *seed, work string, o OpSpec) (err error) {
	rdir := filepath.Join(work, "r")
	dot := ctl.Wrap(osfs.New(filepath.Join(rdir, ".git"), osfs.WithBoundOS()), "dotgit")
	wt := ctl.Wrap(osfs.New(rdir, osfs.WithBoundOS()), "wt")
	st := filesystem.NewStorage(dot, cache.NewObjectLRUDefault())
	defer st.Close()
	defer func() {
		if p := recover(); p != nil {
			if gitx.IsInfraPanic(p) {
				panic(p)
			}
			err = fmt.Errorf("panic: %v", p)
		}
	}()
	r, err := git.Open(st, wt)
	if err != nil {
		return err
	}
	hashAt := func(i int) plumbing.Hash {
		if i < 0 {
			i = -i
		}
		return plumbing.NewHash(s.built.Hashes[i%len(s.built.Hashes)])
	}
	w, err := r.Worktree()
	if err != nil {
		return err
	}
	switch o.Kind {
	case "add-commit":
		if err := w.AddWithOptions(&git.AddOptions{All: true}); err != nil {
			return err
		}
		_, err = w.Commit("crash", &git.CommitOptions{Author: sigT(0), Committer: sigT(0), AllowEmptyCommits: true})
	case "commit-all":
		_, err = w.Commit("crash", &git.CommitOptions{All: true, Author: sigT(0), Committer: sigT(0), AllowEmptyCommits: true})
	case "commit":
		_, err = w.Commit("crash", &git.CommitOptions{Author: sigT(0), Committer: sigT(0), AllowEmptyCommits: true})
	case "checkout":
		co := &git.CheckoutOptions{Create: o.Create, Force: o.Force}
		if o.Branch != "" {
			co.Branch = plumbing.NewBranchReferenceName(o.Branch)
			if o.Create {
				co.Hash = hashAt(o.Target)
			}
		} else {
			co.Hash = hashAt(o.Target)
		}
		err = w.Checkout(co)
	case "reset":
		m := map[string]git.ResetMode{"soft": git.SoftReset, "mixed": git.MixedReset, "hard": git.HardReset}[o.Mode]
		err = w.Reset(&git.ResetOptions{Commit: hashAt(o.Target), Mode: m})
	case "repack":
		err = r.RepackObjects(&git.RepackConfig{})
	case "prune":
		err = r.Prune(git.PruneOptions{Handler: r.DeleteObject})
	case "packrefs":
		err = st.PackRefs()
	case "setconfig":
		switch o.What {
		case "remote":
			_, err = r.CreateRemote(&config.RemoteConfig{Name: "up", URLs: []string{"https://example.com/x.git"}})
		case "branch":
			err = r.CreateBranch(&config.Branch{Name: "main", Remote: "origin", Merge: "refs/heads/main"})
		default:
			var cfg *config.Config
			cfg, err = r.Config()
			if err == nil {
				cfg.User.Name = "Some Body"
				cfg.User.Email = "some@example.com"
				err = r.SetConfig(cfg)
			}
		}
	case "setref":
		err = r.Storer.SetReference(plumbing.NewHashReference(plumbing.NewBranchReferenceName(o.Branch), hashAt(o.Target)))
	case "removeref":
		err = r.Storer.RemoveReference(plumbing.NewBranchReferenceName(o.Branch))
	case "tag":
		var opts *git.CreateTagOptions
		if o.Annot {
			opts = &git.CreateTagOptions{Tagger: sigT(1), Message: "annotated"}
		}
		_, err = r.CreateTag("vnew", hashAt(o.Target), opts)
	case "deltag":
		err = r.DeleteTag("v1")
	case "fetch":
		err = r.Fetch(&git.FetchOptions{RemoteName: "origin"})
	case "receive":
		// the peer pushes into this repository: go-git's in-process receive-pack
		// (file transport) runs against the crash-wrapped storage
		err = pushInto(work, st, o, ctl)
	default:
		panic("INFRA: unknown op " + o.Kind)
	}
	return err
}

// pushInto: for "receive" the repository under test is the receiver. The sender
// is work/sender (a copy of the seed's r, which has the new history); the
// receiver is the crash-wrapped storage st over work/r (the lean side).
func pushInto(work string, st storage.Storer, o OpSpec, ctl *fsx.Ctl) error {
	sender, err := git.PlainOpen(filepath.Join(work, "sender"))
	if err != nil {
		panic("INFRA: open sender: " + err.Error())
	}
	specs := []config.RefSpec{"refs/heads/main:refs/heads/main"}
	if o.NewBranch {
		specs = append(specs, "refs/heads/feat:refs/heads/feat")
	}
	if o.NewTag {
		specs = append(specs, "refs/tags/v2:refs/tags/v2")
	}
	// go-git's in-process file transport can deadlock when receive-pack fails on
	// a storage error while the client is still sending the pack (both ends block
	// writing to unbuffered pipes); the context bounds that. Not this property's
	// subject: the on-disk state is frozen by then.
	ctx, cancel := context.WithTimeout(context.Background(), 100*time.Second)
	defer cancel()
	go func() { // one second after the freeze the push is cancelled
		for {
			select {
			case <-ctx.Done():
				return
			case <-time.After(50 * time.Millisecond):
				if ctl.Dead() {
					time.Sleep(time.Second)
					cancel()
					return
				}
			}
		}
	}()
	u := "file://" + filepath.Join(work, "r")
	rem, err := sender.CreateRemoteAnonymous(&config.RemoteConfig{Name: "anonymous", URLs: []string{u}})
	if err != nil {
		panic("INFRA: anonymous remote: " + err.Error())
	}
	return rem.PushContext(ctx, &git.PushOptions{
		RemoteName:    "anonymous",
		RemoteURL:     u,
		RefSpecs:      specs,
		ClientOptions: []client.Option{client.WithLoader(loader{noCloseStorer{st}})},
	})
}

// prepareWork copies the seed into a fresh work directory. For "receive" the
// roles are: sender = the seed's r (which has the new objects), receiver (the
// repository under test, work/r) = the seed's r *without* the new history, i.e.
// the peer's refs and objects with r's worktree and index.
func prepareWork(s *seed, work string, o OpSpec) {
	os.MkdirAll(work, 0o755)
	if o.Kind != "receive" {
		fsx.CopyTreeGo(filepath.Join(s.dir, "r"), filepath.Join(work, "r"))
		return // for fetch the remote URL in the config points at s.dir/peer, which is only read
	}
	fsx.CopyTreeGo(filepath.Join(s.dir, "r"), filepath.Join(work, "sender"))
	fsx.CopyTreeGo(filepath.Join(s.dir, "recv"), filepath.Join(work, "r"))
}

type outcome struct {
	opErr  error
	hung   bool
	n      int
	fired  *fsx.Event
	trace  []fsx.Event
	failed *obs
}

func execute(s *seed, work string, o OpSpec, k, torn int, keep bool, at *fsx.Match) *outcome {
	prepareWork(s, work, o)
	ctl := fsx.NewCtl(keep)
	if at != nil {
		ctl.CrashMatch(*at, torn)
	} else if k >= 0 {
		ctl.CrashAt(k, torn)
	}
	done := make(chan error, 1)
	go func() { done <- runOp(ctl, s, work, o) }()
	out := &outcome{}
	// A fault-free run gets 120 s. After the crash point was reached the disk is
	// frozen, so the verdict does not depend on whether the operation returns:
	// it is abandoned 3 s after the freeze (label op-hung-after-crash).
	deadline := time.Now().Add(120 * time.Second)
	tick := time.NewTicker(20 * time.Millisecond)
	defer tick.Stop()
	var deadSince time.Time
wait:
	for {
		select {
		case out.opErr = <-done:
			break wait
		case now := <-tick.C:
			if ctl.Dead() {
				if deadSince.IsZero() {
					deadSince = now
				} else if now.Sub(deadSince) > 3*time.Second {
					out.hung = true
					break wait
				}
			}
			if now.After(deadline) {
				out.hung = true
				break wait
			}
		}
	}
	out.n = ctl.Mutations()
	out.fired = ctl.Fired()
	if keep {
		out.trace = ctl.Trace()
	}
	return out
}

// ---- oracle ----

type obs struct {
	class  string
	detail string
}

var reRefClass = regexp.MustCompile(`^(refs/(heads|tags|remotes/[^/]+))/.*$`)

// observe decides the property on the repository in rdir. pre = references
// (and HEAD) before the operation.
func observe(rdir string, pre *seed) *obs {
	clip := func(s string) string {
		s = strings.TrimSpace(s)
		if len(s) > 400 {
			s = s[:400] + "…"
		}
		return s
	}
	classify := func(msg, def string) string {
		switch {
		case strings.Contains(msg, "index file") || strings.Contains(msg, "bad index") || strings.Contains(msg, "index uses"):
			return "index-unreadable"
		case strings.Contains(msg, "bad config") || strings.Contains(msg, "config file"):
			return "config-unreadable"
		case strings.Contains(msg, "not a git repository"):
			return "not-a-repository"
		}
		return def
	}
	// 1. git: references
	post, _, errs, code := readRefs(rdir)
	if code != 0 || strings.TrimSpace(errs) != "" {
		return &obs{classify(errs, "broken-ref"), "git for-each-ref: exit " + fmt.Sprint(code) + ": " + clip(errs)}
	}
	// 2. git: nothing reachable from the references before or after is missing
	seen := map[string]bool{}
	var tips []string
	for _, h := range pre.hashes {
		if !seen[h] {
			seen[h] = true
			tips = append(tips, h)
		}
	}
	var names []string
	for n := range post {
		names = append(names, n)
	}
	sort.Strings(names)
	for _, n := range names {
		if h := post[n]; !seen[h] {
			seen[h] = true
			tips = append(tips, h)
		}
	}
	args := []string{"rev-list", "--objects", "--quiet"}
	if _, ok := pre.refs["HEAD"]; ok {
		args = append(args, "HEAD") // HEAD resolved before the operation: it must still resolve
	}
	if _, e, code := gitx.Try(rdir, append(args, tips...)...); code != 0 {
		def := "missing-object"
		if strings.Contains(e, "'HEAD'") {
			def = "HEAD-unresolvable"
		}
		return &obs{classify(e, def), "git rev-list --objects HEAD + the references before and after: " + clip(e)}
	}
	// 3. git: the index file is readable; the repository as a whole is connected.
	// fsck runs with an empty substitute index: blobs that only the index refers
	// to are not "reachable from a reference" (staged objects are C22's subject);
	// for the same reason reflog entries are not taken as roots (--no-reflogs).
	if _, e, code := gitx.Try(rdir, "ls-files", "--stage"); code != 0 {
		return &obs{classify(e, "index-unreadable"), "git ls-files --stage: " + clip(e)}
	}
	fr, ferr := gitx.Run(gitx.Cmd{Dir: rdir, Env: []string{"GIT_INDEX_FILE=" + filepath.Join(rdir, ".git", "no-such-index")},
		Args: []string{"fsck", "--connectivity-only", "--no-dangling", "--no-progress", "--no-reflogs"}})
	if ferr != nil {
		panic("INFRA: " + ferr.Error())
	}
	if fr.Code != 0 {
		m := string(fr.Err) + " " + string(fr.Out)
		return &obs{classify(m, "fsck-fails"), "git fsck --connectivity-only: exit " + fmt.Sprint(fr.Code) + ": " + clip(m)}
	}
	// 4. go-git, freshly opened, no wrappers
	r, err := git.PlainOpen(rdir)
	if err != nil {
		return &obs{"gogit-open", "PlainOpen: " + err.Error()}
	}
	defer func() {
		if c, ok := r.Storer.(interface{ Close() error }); ok {
			c.Close()
		}
	}()
	if _, ok := pre.refs["HEAD"]; ok {
		if _, err := r.Head(); err != nil {
			return &obs{"HEAD-unresolvable", "go-git Repository.Head: " + err.Error()}
		}
	}
	it, err := r.References()
	if err != nil {
		return &obs{"gogit-refs", "References: " + err.Error()}
	}
	var roots []plumbing.Hash
	for _, h := range tips {
		roots = append(roots, plumbing.NewHash(h))
	}
	var refErr *obs
	err = it.ForEach(func(ref *plumbing.Reference) error {
		if _, ok := pre.refs["HEAD"]; !ok && ref.Name() == plumbing.HEAD {
			return nil // HEAD was unborn before, or its branch is removed by the operation itself
		}
		res, err := r.Reference(ref.Name(), true)
		if err != nil {
			if refErr == nil {
				refErr = &obs{"broken-ref", fmt.Sprintf("go-git: reference %s does not resolve: %v", ref.Name(), err)}
			}
			return nil
		}
		roots = append(roots, res.Hash())
		return nil
	})
	if err != nil {
		return &obs{"gogit-refs", "iterating references: " + err.Error()}
	}
	if refErr != nil {
		return refErr
	}
	if _, err := r.Storer.Index(); err != nil {
		return &obs{"index-unreadable", "go-git Storer.Index: " + err.Error()}
	}
	if _, err := r.Config(); err != nil {
		return &obs{"config-unreadable", "go-git Config: " + err.Error()}
	}
	if miss := walk(r, roots); miss != "" {
		return &obs{"missing-object", "go-git object walk: " + miss}
	}
	return nil
}

// walk visits everything reachable from roots through go-git's storer and
// returns a description of the first missing / unreadable object.
func walk(r *git.Repository, roots []plumbing.Hash) string {
	seen := map[plumbing.Hash]bool{}
	stack := append([]plumbing.Hash(nil), roots...)
	for len(stack) > 0 {
		h := stack[len(stack)-1]
		stack = stack[:len(stack)-1]
		if seen[h] {
			continue
		}
		seen[h] = true
		o, err := r.Object(plumbing.AnyObject, h)
		if err != nil {
			return fmt.Sprintf("object %s: %v", h, err)
		}
		switch o := o.(type) {
		case *object.Commit:
			stack = append(stack, o.TreeHash)
			stack = append(stack, o.ParentHashes...)
		case *object.Tree:
			for _, e := range o.Entries {
				if e.Mode.IsFile() || e.Mode.String() == "0040000" {
					stack = append(stack, e.Hash)
				}
			}
		case *object.Tag:
			stack = append(stack, o.Target)
		case *object.Blob:
			rd, err := o.Reader()
			if err != nil {
				return fmt.Sprintf("blob %s: %v", h, err)
			}
			rd.Close()
		}
	}
	return ""
}

// ---- the check ----

func pathClass(p string) string {
	if m := reRefClass.FindStringSubmatch(p); m != nil {
		return m[1] + "/*"
	}
	return p
}

// eventClass names the call at which the prefix ends: filesystem, call kind and
// class of the file (object ids, temp names and ref names folded). The go-git
// function is in the message only: one write path passes through many helper
// functions (idx/rev encoders) that are not different crash sites.
func eventClass(e *fsx.Event) string {
	if e == nil {
		return "none"
	}
	return fmt.Sprintf("%s:%s:%s", e.FS, e.Op, pathClass(e.Path))
}

// opName: the operation as named in signatures (variants that run the same
// write path are folded; the exact variant is in the case and the message).
func opName(o OpSpec) string { return o.Kind }

func opDetail(o OpSpec) string {
	b, _ := json.Marshal(o)
	return string(b)
}

func check(c Case) evid.Result {
	res := evid.Result{}
	if len(c.Recipe.Commits) == 0 || c.K < 0 || c.Torn < 0 {
		res.Discard = true
		return res
	}
	key := seedKey(c)
	if memo.key != key {
		dropMemo()
		dir := fsx.Scratch()
		s := buildSeed(c, dir)
		if c.Op.Kind == "receive" {
			// the receiver: r's worktree/index/config with the peer's (lean) objects and refs
			recv := filepath.Join(dir, "recv")
			fsx.CopyTreeGo(filepath.Join(dir, "r"), recv)
			for _, sub := range []string{"objects", "refs", "packed-refs", "logs"} {
				os.RemoveAll(filepath.Join(recv, ".git", sub))
			}
			fsx.CopyTreeGo(filepath.Join(dir, "peer", "objects"), filepath.Join(recv, ".git", "objects"))
			fsx.CopyTreeGo(filepath.Join(dir, "peer", "refs"), filepath.Join(recv, ".git", "refs"))
			if b, err := os.ReadFile(filepath.Join(dir, "peer", "packed-refs")); err == nil {
				os.WriteFile(filepath.Join(recv, ".git", "packed-refs"), b, 0o644)
			}
			// the pre-state of the property is the receiver's
			lean := *s
			refs, _, errs, code := readRefs(recv)
			if code != 0 || strings.TrimSpace(errs) != "" {
				panic("INFRA: receiver for-each-ref: " + errs)
			}
			if h, _, code := gitx.Try(recv, "rev-parse", "--verify", "-q", "HEAD^{commit}"); code == 0 {
				refs["HEAD"] = strings.TrimSpace(h)
			}
			lean.refs, lean.hashes = refs, nil
			hs := map[string]bool{}
			for _, h := range refs {
				if !hs[h] {
					hs[h] = true
					lean.hashes = append(lean.hashes, h)
				}
			}
			sort.Strings(lean.hashes)
			s = &lean
			if o := observe(recv, s); o != nil {
				panic("INFRA: the generated receiver fails the oracle before any operation: " + o.class + ": " + o.detail)
			}
		} else if o := observe(filepath.Join(dir, "r"), s); o != nil {
			panic("INFRA: the generated repository fails the oracle before any operation: " + o.class + ": " + o.detail)
		}
		memo.key, memo.s, memo.n = key, s, -1
	}
	s := memo.s
	on := opName(c.Op)
	if c.Op.Kind == "removeref" {
		// removing the branch HEAD points at legitimately leaves HEAD unborn:
		// HEAD is then not required to resolve afterwards
		if hb, err := os.ReadFile(filepath.Join(s.dir, "r", ".git", "HEAD")); err == nil &&
			strings.TrimSpace(string(hb)) == "ref: refs/heads/"+c.Op.Branch {
			if _, ok := s.refs["HEAD"]; ok {
				cp := *s
				cp.refs = map[string]string{}
				for k, v := range s.refs {
					if k != "HEAD" {
						cp.refs[k] = v
					}
				}
				s = &cp
			}
		}
	}
	if memo.n < 0 {
		work := filepath.Join(s.dir, "dry")
		dry := execute(s, work, c.Op, -1, 0, true, nil)
		if dry.hung {
			os.RemoveAll(work)
			panic("INFRA: fault-free dry run of " + on + " did not finish within 120 s")
		}
		dry.failed = observe(filepath.Join(work, "r"), s)
		os.RemoveAll(work)
		memo.n, memo.tr, memo.dry = dry.n, nil, dry
		for _, e := range dry.trace {
			if e.MutSeq >= 0 {
				memo.tr = append(memo.tr, e)
			}
		}
	}
	n := memo.n
	if os.Getenv("C21_DEBUG") != "" {
		fmt.Printf("DRY %s n=%d err=%v failed=%v\n", opDetail(c.Op), n, memo.dry.opErr, memo.dry.failed)
		for _, e := range memo.tr {
			fmt.Printf("  MUT #%d %s\n", e.MutSeq, e.String())
		}
	}
	res.Labels = append(res.Labels, "op:"+on)
	if memo.dry.opErr != nil {
		res.Labels = append(res.Labels, "dry-run-op-refused")
	}
	if n == 0 {
		// the operation performs no filesystem mutation on this repository: no crash point exists
		res.Labels = append(res.Labels, "no-mutations")
		return res
	}
	if memo.dry.failed != nil {
		// the complete, uninterrupted operation already leaves a state that fails
		// the oracle: the prefix "everything" is a crash point too
		res.NonTrivial = true
		res.Fail = evid.Failf(fmt.Sprintf("C21/%s/complete-run/%s", on, memo.dry.failed.class),
			"%s ran to completion without any crash (returned %v) and the repository fails the oracle: %s", on, memo.dry.opErr, memo.dry.failed.detail)
		return res
	}
	k := c.K % n
	res.Key = fmt.Sprintf("%s|%d|%d", key, k, c.Torn)
	res.NonTrivial = k > 0
	if c.At != nil {
		res.Key = fmt.Sprintf("%s|%+v|%d", key, *c.At, c.Torn)
		res.NonTrivial = true
	}
	work := filepath.Join(s.dir, fmt.Sprintf("k%d", k))
	defer os.RemoveAll(work)
	out := execute(s, work, c.Op, k, c.Torn, false, c.At)
	if out.hung {
		res.Labels = append(res.Labels, "op-hung-after-crash")
	}
	if out.fired == nil {
		// the re-execution performed fewer mutations than the dry run (should not happen: both are deterministic)
		res.Labels = append(res.Labels, "crash-point-not-reached")
		return res
	}
	ev := out.fired
	if c.At == nil && k < len(memo.tr) && eventClass(&memo.tr[k]) != eventClass(ev) {
		res.Labels = append(res.Labels, "trace-differs-from-dry-run")
	}
	res.Labels = append(res.Labels, "crash-at:"+ev.FS+":"+ev.Op)
	torn := c.Torn > 0 && (ev.Op == "write" || ev.Op == "writeat")
	if torn {
		res.Labels = append(res.Labels, "torn-write")
	}
	if o := observe(filepath.Join(work, "r"), s); o != nil {
		cls := eventClass(ev)
		if pathClass(ev.Path) == "HEAD" && (o.class == "not-a-repository" || o.class == "HEAD-unresolvable") {
			// an emptied HEAD makes git deny the repository, a torn one ("ref: refs/heads/ma")
			// leaves HEAD dangling: one crash site, one observable
			o.class = "HEAD-unusable"
		}
		res.Fail = evid.Failf(fmt.Sprintf("C21/%s/%s/%s", on, cls, o.class),
			"%s stopped before mutating call %d of %d (%s; address %s%s; operation returned %v): %s", opDetail(c.Op), ev.MutSeq, n, ev.String(), addr(ev),
			map[bool]string{true: ", torn: a proper prefix of the bytes was written", false: ""}[torn], out.opErr, o.detail)
	}
	return res
}

// collect (development aid, C21_COLLECT=<file>): every failure is appended to
// the file as a witness line and the case passes, so one run lists all
// signatures. Never set by the driver.
func collect(c Case, res evid.Result) evid.Result {
	p := os.Getenv("C21_COLLECT")
	if p == "" || res.Fail == nil {
		return res
	}
	if i := strings.Index(res.Fail.Msg, "; address {"); i >= 0 && c.At == nil {
		var m fsx.Match
		j := strings.Index(res.Fail.Msg[i:], "}")
		if j > 0 && json.Unmarshal([]byte(res.Fail.Msg[i+10:i+j+1]), &m) == nil {
			c.At, c.K = &m, 0
		}
	}
	b, _ := json.Marshal(map[string]any{"property": "C21", "test": "TestC21", "sig": res.Fail.Sig, "msg": res.Fail.Msg, "case": c})
	if f, err := os.OpenFile(p, os.O_APPEND|os.O_CREATE|os.O_WRONLY, 0o644); err == nil {
		f.Write(append(b, '\n'))
		f.Close()
	}
	res.Labels = append(res.Labels, "collected:"+res.Fail.Sig)
	res.Fail = nil
	return res
}

func addr(e *fsx.Event) string {
	b, _ := json.Marshal(e.Address())
	return string(b)
}

func checkC(c Case) evid.Result { return collect(c, check(c)) }

func TestMain(m *testing.M) {
	code := m.Run()
	dropMemo()
	os.Exit(code)
}

func TestC21(t *testing.T) {
	evid.Run(t, evid.Spec[Case]{ID: "C21", Gen: gen, Check: checkC})
}

// ---- exhaustive enumeration of the crash points of canonical instances ----

func canonicalRecipes() []fsx.Recipe {
	base := fsx.Recipe{
		Commits: []fsx.Commit{
			{Branch: "main", Parent: -1, Files: []fsx.RFile{{Path: "a1", Data: "one\n"}, {Path: "d/x", Data: "two\n"}}},
			{Branch: "main", Parent: 0, Files: []fsx.RFile{{Path: "a1", Data: "three\n"}, {Path: "b", Data: "x", Exec: true}, {Path: "d/x", Data: "two\n"}}},
			{Branch: "other", Parent: 0, Files: []fsx.RFile{{Path: "a1", Data: "one\n"}, {Path: "a2", Data: "line1\nline2\nline3\n"}}},
		},
		Tags: []fsx.Tag{{Name: "v1", At: 0, Annotated: true}},
		Head: "main",
		Dirty: []fsx.Edit{{Kind: "write", Path: "a1", Data: "two\n"}, {Kind: "write", Path: "f/g", Data: "one\n"},
			{Kind: "stage", Path: "d/y", Data: "three\n"}},
	}
	packed := base
	packed.Pack, packed.PackRefs = true, true
	clean := base
	clean.Dirty = nil
	detached := base
	detached.Head = "@1"
	return []fsx.Recipe{base, packed, clean, detached}
}

func canonicalOps() []OpSpec {
	return []OpSpec{
		{Kind: "add-commit"}, {Kind: "commit-all"}, {Kind: "commit"},
		{Kind: "checkout", Branch: "other", Force: true}, {Kind: "checkout", Branch: "fresh", Create: true, Target: 0, Force: true}, {Kind: "checkout", Target: 0, Force: true},
		{Kind: "reset", Mode: "hard", Target: 0}, {Kind: "reset", Mode: "mixed", Target: 2}, {Kind: "reset", Mode: "soft", Target: 0},
		{Kind: "repack", Loose: 1}, {Kind: "prune", Loose: 2}, {Kind: "packrefs"},
		{Kind: "setconfig", What: "remote"}, {Kind: "setconfig", What: "user"},
		{Kind: "setref", Branch: "fresh", Target: 1}, {Kind: "setref", Branch: "other", Target: 1}, {Kind: "removeref", Branch: "other"},
		{Kind: "tag", Annot: true, Target: 1}, {Kind: "tag", Target: 1}, {Kind: "deltag"},
		{Kind: "fetch", NewCommits: 2, NewBranch: true, NewTag: true}, {Kind: "receive", NewCommits: 2, NewBranch: true, NewTag: true},
	}
}

// TestC21Enum enumerates every crash point (and, for Write calls, one torn
// variant) of canonical (repository, operation) instances. In the quick tier a
// stratified sample of the points of each instance is evaluated.
func TestC21Enum(t *testing.T) {
	if os.Getenv("VERIF_REPLAY") != "" {
		evid.Run(t, evid.Spec[Case]{ID: "C21", Gen: gen, Check: check}) // replay path only
		return
	}
	r := evid.Open(t, "C21")
	shard, nshards := evid.Shard()
	type inst struct {
		rec fsx.Recipe
		op  OpSpec
	}
	var mine []inst
	i := 0
	for ri, rec := range canonicalRecipes() {
		for _, op := range canonicalOps() {
			if ri == 2 && !(op.Kind == "checkout" || op.Kind == "reset" || op.Kind == "receive" || op.Kind == "fetch") {
				continue // the clean variant matters for worktree-changing operations only
			}
			if ri == 3 && !(op.Kind == "checkout" || op.Kind == "reset" || op.Kind == "add-commit" || op.Kind == "commit-all" || op.Kind == "commit") {
				continue // detached HEAD: the operations that rewrite HEAD itself
			}
			if os.Getenv("C21_ENUM_RECIPE") != "" && os.Getenv("C21_ENUM_RECIPE") != fmt.Sprint(ri) {
				continue // development aid
			}
			if f := os.Getenv("C21_ENUM_OPS"); f != "" && !strings.Contains(","+f+",", ","+op.Kind+",") {
				continue // development aid
			}
			if i%nshards == shard {
				mine = append(mine, inst{rec, op})
			}
			i++
		}
	}
	budget := evid.N(150)
	if len(mine) == 0 {
		return
	}
	quota := budget / len(mine)
	if quota < 8 {
		quota = 8
	}
	complete := true
	points, evaluated := 0, 0
	for _, in := range mine {
		// the dry run (inside check) fixes N; evaluate k=0 first to learn it
		c0 := Case{Recipe: in.rec, Op: in.op, K: 0}
		if !evid.Each(t, r, checkC, c0) && !evid.Thorough() {
			return
		}
		evaluated++
		n := memo.n
		type pt struct{ k, torn int }
		var pts []pt
		for k := 1; k < n; k++ {
			pts = append(pts, pt{k, 0})
			if k < len(memo.tr) && (memo.tr[k].Op == "write" || memo.tr[k].Op == "writeat") {
				pts = append(pts, pt{k, 1 + k%7})
			}
		}
		points += len(pts) + 1
		// thorough: every point. quick: one point per call class (filesystem, call
		// kind, file class) - an early repeated occurrence, chosen by the seed, so
		// that every distinct crash site of the instance is visited with few
		// evaluations - capped by the budget.
		sel := pts
		if evid.Thorough() && len(pts) > quota {
			// budget smaller than the instance (reduced --scale): every step-th point
			step := (len(pts) + quota - 1) / quota
			sel = nil
			for j := int(evid.Seed()) % step; j < len(pts); j += step {
				sel = append(sel, pts[j])
			}
			complete = false
		}
		if !evid.Thorough() {
			complete = false
			occ := map[string][]pt{}
			var order []string
			for _, p := range pts {
				ck := eventClass(&memo.tr[p.k])
				if _, ok := occ[ck]; !ok {
					order = append(order, ck)
				}
				if p.torn == 0 {
					occ[ck] = append(occ[ck], p)
				}
			}
			sel = nil
			for ci, ck := range order {
				l := occ[ck]
				if len(l) == 0 {
					continue
				}
				m := len(l)
				if m > 3 {
					m = 3
				}
				p := l[(1+int(evid.Seed()))%m]
				if (int(evid.Seed())+ci)%2 == 1 && (memo.tr[p.k].Op == "write" || memo.tr[p.k].Op == "writeat") {
					p.torn = 1 + p.k%7
				}
				sel = append(sel, p)
			}
			if len(sel) > quota {
				sel = sel[:quota]
			}
		}
		dedup := map[string]int{}
		for _, p := range sel {
			if os.Getenv("C21_ENUM_DEDUP") != "" && p.k < len(memo.tr) { // development aid: two points per call class
				ck := eventClass(&memo.tr[p.k]) + fmt.Sprint(p.torn > 0)
				if dedup[ck]++; dedup[ck] > 2 {
					continue
				}
			}
			evaluated++
			if !evid.Each(t, r, checkC, Case{Recipe: in.rec, Op: in.op, K: p.k, Torn: p.torn}) && !evid.Thorough() {
				return // quick tier: stop at the first new violation of this shard
			}
		}
	}
	r.Extra["enum_instances"] = len(mine)
	r.Extra["enum_crash_points_total"] = points
	r.Extra["enum_crash_points_evaluated"] = evaluated
	if complete {
		r.SetExhaustive()
	}
}
