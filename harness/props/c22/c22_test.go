// Package c22: Prune and RepackObjects must never remove an object reachable
// from a reference, HEAD or the index; after the operation every such object
// is still readable with unchanged bytes. Repositories are generated (history
// by git fast-import or by go-git itself; staged-only blobs, detached HEAD,
// annotated/nested tags, shallow fetches, partial clones, loose/packed
// layouts); the reachable set R is computed by real git before the operation
// and `git fsck` is a second oracle afterwards.
package c22

import (
	"bytes"
	"crypto/sha1"
	"fmt"
	"io"
	"os"
	"path/filepath"
	"sort"
	"strconv"
	"strings"
	"testing"
	"time"

	git "github.com/go-git/go-git/v6"
	"github.com/go-git/go-git/v6/plumbing"
	"github.com/go-git/go-git/v6/plumbing/filemode"
	formatcfg "github.com/go-git/go-git/v6/plumbing/format/config"
	"github.com/go-git/go-git/v6/plumbing/object"
	"github.com/go-git/go-git/v6/plumbing/storer"
	"pgregory.net/rapid"

	"verif/harness/lib/evid"
	"verif/harness/lib/gitx"
)

// ---------------------------------------------------------------- case

// Edit sets (Blob >= 0) or deletes (Blob < 0) a path. Mode: 0 regular, 1 executable, 2 symlink.
type Edit struct {
	Path, Blob, Mode int
}

// Commit i has parents among commits < i and a tree = first parent's tree + edits.
type Commit struct {
	Parents []int
	Edits   []Edit
}

// Tag: annotated tag object (Nested >= 0: points at that earlier annotated tag) or lightweight.
type Tag struct {
	Commit    int
	Annotated bool
	Nested    int // index of an earlier annotated tag to point at, or -1
}

// GCOp is one garbage-collection call made through go-git.
type GCOp struct {
	Repack   bool // else Prune
	Age      bool // Prune: OnlyObjectsOlderThan = threshold; Repack: OnlyDeletePacksOlderThan = threshold
	RefDelta bool
}

// Case is one scenario.
type Case struct {
	SHA256    bool
	GoGit     bool // history written by go-git (plumbing + Worktree.Add) instead of git fast-import
	Packed    bool // fast-import keeps its pack (else objects are unpacked to loose)
	Commits   []Commit
	Branches  []int // branch k points at commit Branches[k]
	Tags      []Tag
	Head      int    // >= 0: HEAD -> branch Head%len(Branches); < 0: detached at commit (-Head-1)
	Transport int    // 0 none; 1 shallow fetch into a fresh repository; 2 partial clone (blob:none)
	Depth     int    // shallow depth
	Layout    []int  // git-side steps before staging: 1 repack -d, 2 repack -a -d, 3 pack-refs --all
	Staged    []Edit // index changes relative to HEAD's tree
	Layout2   []int  // git-side steps after staging
	OldMask   uint32 // bit (i%32) set: i-th loose object / pack (sorted by name) gets an old mtime
	Ops       []GCOp
}

var paths = []string{"a", "b.txt", "d/x", "d/y", "e/f/z", "run.sh"}

const nBlobs = 10 // history blobs 0..5, staged-only candidates 6..9

func blobContent(i int) []byte {
	if i == 0 {
		return []byte{}
	}
	var sb bytes.Buffer
	for l := 0; l < 1+i*i*3; l++ {
		fmt.Fprintf(&sb, "blob %d line %d: lorem ipsum dolor sit amet\n", i, l)
	}
	return sb.Bytes()
}

// ---------------------------------------------------------------- generator

func genEdits(t *rapid.T, label string, maxBlob int, n int) []Edit {
	var es []Edit
	for i := 0; i < n; i++ {
		e := Edit{Path: rapid.IntRange(0, len(paths)-1).Draw(t, label+"path"), Blob: rapid.IntRange(-1, maxBlob).Draw(t, label+"blob")}
		switch rapid.IntRange(0, 11).Draw(t, label+"mode") {
		case 0, 1:
			e.Mode = 1
		case 2:
			e.Mode = 2
		}
		es = append(es, e)
	}
	return es
}

const (
	sigPruneStaged  = "C22/Prune:staged-only-loose-blob-deleted"
	sigRepackStaged = "C22/RepackObjects:old-pack-holding-staged-only-blob-deleted"
)

func gen(t *rapid.T, r *evid.Recorder) Case {
	c := Case{
		SHA256: rapid.Bool().Draw(t, "sha256"),
		GoGit:  rapid.IntRange(0, 3).Draw(t, "builder") == 0,
		Packed: rapid.Bool().Draw(t, "packed"),
	}
	nc := rapid.IntRange(1, 7).Draw(t, "ncommits")
	for i := 0; i < nc; i++ {
		cm := Commit{}
		if i > 0 {
			np := rapid.SampledFrom([]int{0, 1, 1, 1, 2, 2}).Draw(t, "nparents")
			for p := 0; p < np; p++ {
				cm.Parents = append(cm.Parents, rapid.IntRange(0, i-1).Draw(t, "parent"))
			}
		}
		cm.Edits = genEdits(t, "c", 5, rapid.IntRange(1, 3).Draw(t, "nedits"))
		c.Commits = append(c.Commits, cm)
	}
	nb := rapid.IntRange(0, 3).Draw(t, "nbranches")
	for i := 0; i < nb; i++ {
		c.Branches = append(c.Branches, rapid.IntRange(0, nc-1).Draw(t, "branch"))
	}
	nt := rapid.IntRange(0, 3).Draw(t, "ntags")
	for i := 0; i < nt; i++ {
		tg := Tag{Commit: rapid.IntRange(0, nc-1).Draw(t, "tagcommit"), Annotated: rapid.Bool().Draw(t, "annotated"), Nested: -1}
		if tg.Annotated && rapid.Bool().Draw(t, "nested") {
			for j := len(c.Tags) - 1; j >= 0; j-- {
				if c.Tags[j].Annotated {
					tg.Nested = j
					break
				}
			}
		}
		c.Tags = append(c.Tags, tg)
	}
	if nb > 0 && rapid.IntRange(0, 2).Draw(t, "attached") > 0 {
		c.Head = rapid.IntRange(0, nb-1).Draw(t, "headbranch")
	} else {
		c.Head = -1 - rapid.IntRange(0, nc-1).Draw(t, "headcommit")
	}
	if !c.GoGit {
		c.Transport = rapid.SampledFrom([]int{0, 0, 0, 0, 1, 1, 2}).Draw(t, "transport")
		c.Depth = rapid.IntRange(1, 2).Draw(t, "depth")
	}
	c.Layout = rapid.SliceOfN(rapid.IntRange(0, 3), 0, 2).Draw(t, "layout")
	nst := rapid.IntRange(0, 3).Draw(t, "nstaged")
	c.Staged = genEdits(t, "s", nBlobs-1, nst)
	c.Layout2 = rapid.SliceOfN(rapid.IntRange(0, 3), 0, 2).Draw(t, "layout2")
	c.OldMask = rapid.Uint32().Draw(t, "oldmask")
	nops := rapid.IntRange(1, 3).Draw(t, "nops")
	for i := 0; i < nops; i++ {
		c.Ops = append(c.Ops, GCOp{Repack: rapid.Bool().Draw(t, "repack"), Age: rapid.Bool().Draw(t, "age"), RefDelta: rapid.Bool().Draw(t, "refdelta")})
	}
	// Generator guards for the recorded findings. A staged-only object is lost
	// by Prune when it is loose and by RepackObjects when it sits in an old
	// pack; while those are open, steer staged-only objects into the other
	// representation (or drop staging when both operations occur) so that the
	// search goes on with everything else.
	hasPrune, hasRepack := false, false
	for _, op := range c.Ops {
		hasPrune = hasPrune || !op.Repack
		hasRepack = hasRepack || op.Repack
	}
	avoidLoose := hasPrune && r.IsKnown(sigPruneStaged)
	avoidPacked := hasRepack && r.IsKnown(sigRepackStaged)
	switch {
	case avoidLoose && avoidPacked:
		c.Staged = nil
	case avoidLoose && c.Transport == 2: // git cannot repack index entries whose blobs were withheld
		c.Staged = nil
	case avoidLoose: // everything, index objects included, goes into one pack after staging
		c.Layout2 = append(c.Layout2, 2)
	case avoidPacked: // nothing is packed on the git side; fetched packs never hold staged-only blobs
		c.Packed = false
		noRepack := func(l []int) []int {
			var out []int
			for _, s := range l {
				if s%4 == 3 {
					out = append(out, s)
				}
			}
			return out
		}
		c.Layout, c.Layout2 = noRepack(c.Layout), noRepack(c.Layout2)
	}
	return c
}

// ---------------------------------------------------------------- building with git

func scratchDir() string {
	base := os.Getenv("VERIF_SCRATCH")
	if base == "" {
		base = "/dev/shm"
	}
	d, err := os.MkdirTemp(base, "c22-")
	if err != nil {
		panic("INFRA: scratch: " + err.Error())
	}
	return d
}

func format(c Case) string {
	if c.SHA256 {
		return "sha256"
	}
	return "sha1"
}

var modes = []string{"100644", "100755", "120000"}

// treeOf computes the path->(blob,mode) map of every commit.
func treesOf(c Case) []map[int]Edit {
	ts := make([]map[int]Edit, len(c.Commits))
	for i, cm := range c.Commits {
		tr := map[int]Edit{}
		if len(cm.Parents) > 0 && i > 0 {
			for k, v := range ts[cm.Parents[0]%i] {
				tr[k] = v
			}
		}
		for _, e := range cm.Edits {
			if e.Blob < 0 {
				delete(tr, e.Path)
			} else {
				tr[e.Path] = e
			}
		}
		ts[i] = tr
	}
	return ts
}

func sortedPaths(tr map[int]Edit) []int {
	var ks []int
	for k := range tr {
		ks = append(ks, k)
	}
	sort.Ints(ks)
	return ks
}

// buildWithGit creates the repository with git fast-import and returns the ids
// of commits and blobs.
func buildWithGit(c Case, dir string) (commits []string, blobs []string) {
	gitx.Init(dir, false, format(c))
	marks := filepath.Join(dir, ".git", "verif-marks")
	var s bytes.Buffer
	for i := 0; i < nBlobs; i++ { // marks 1..nBlobs; unreferenced blobs are stored too
		b := blobContent(i)
		fmt.Fprintf(&s, "blob\nmark :%d\ndata %d\n", i+1, len(b))
		s.Write(b)
		s.WriteString("\n")
	}
	ts := treesOf(c)
	cm := func(i int) int { return 100 + i }
	for i, co := range c.Commits {
		msg := fmt.Sprintf("commit %d\n", i)
		fmt.Fprintf(&s, "commit refs/tmp/c%d\nmark :%d\nauthor A U Thor <a@example.com> %d +0000\ncommitter C O Mitter <c@example.com> %d +0000\ndata %d\n%s",
			i, cm(i), 1500000000+i*100, 1500000000+i*100, len(msg), msg)
		for k, p := range co.Parents {
			if i == 0 {
				break
			}
			if k == 0 {
				fmt.Fprintf(&s, "from :%d\n", cm(p%i))
			} else {
				fmt.Fprintf(&s, "merge :%d\n", cm(p%i))
			}
		}
		s.WriteString("deleteall\n")
		for _, p := range sortedPaths(ts[i]) {
			e := ts[i][p]
			fmt.Fprintf(&s, "M %s :%d %s\n", modes[e.Mode%3], e.Blob%6+1, paths[p])
		}
		s.WriteString("\n")
	}
	tm := func(i int) int { return 200 + i }
	for i, tg := range c.Tags {
		if !tg.Annotated {
			continue
		}
		msg := fmt.Sprintf("tag %d\n", i)
		from := cm(tg.Commit % len(c.Commits))
		if tg.Nested >= 0 && tg.Nested < i && c.Tags[tg.Nested].Annotated {
			from = tm(tg.Nested)
		}
		fmt.Fprintf(&s, "tag t%d\nmark :%d\nfrom :%d\ntagger T Agger <t@example.com> %d +0000\ndata %d\n%s\n", i, tm(i), from, 1500001000+i, len(msg), msg)
	}
	limit := "fastimport.unpackLimit=100000"
	if c.Packed {
		limit = "fastimport.unpackLimit=1"
	}
	gitx.MustIn(dir, s.Bytes(), "-c", limit, "fast-import", "--quiet", "--export-marks="+marks)
	mb, err := os.ReadFile(marks)
	if err != nil {
		panic("INFRA: marks: " + err.Error())
	}
	os.Remove(marks)
	commits = make([]string, len(c.Commits))
	blobs = make([]string, nBlobs)
	for _, l := range strings.Split(strings.TrimSpace(string(mb)), "\n") {
		f := strings.Fields(l)
		n, _ := strconv.Atoi(strings.TrimPrefix(f[0], ":"))
		switch {
		case n >= 1 && n <= nBlobs:
			blobs[n-1] = f[1]
		case n >= 100 && n < 100+len(c.Commits):
			commits[n-100] = f[1]
		}
	}
	// refs: drop the temporary ones, create branches and lightweight tags
	var u bytes.Buffer
	for i := range c.Commits {
		fmt.Fprintf(&u, "delete refs/tmp/c%d\n", i)
	}
	for k, b := range c.Branches {
		fmt.Fprintf(&u, "create refs/heads/b%d %s\n", k, commits[b%len(commits)])
	}
	for i, tg := range c.Tags {
		if !tg.Annotated {
			fmt.Fprintf(&u, "create refs/tags/t%d %s\n", i, commits[tg.Commit%len(commits)])
		}
	}
	gitx.MustIn(dir, u.Bytes(), "update-ref", "--stdin")
	return commits, blobs
}

func writeHead(c Case, gitDir string, commits []string) {
	var content string
	if c.Head >= 0 && len(c.Branches) > 0 {
		content = fmt.Sprintf("ref: refs/heads/b%d\n", c.Head%len(c.Branches))
	} else {
		h := c.Head
		if h >= 0 {
			h = -1
		}
		content = commits[(-h-1)%len(commits)] + "\n"
	}
	if err := os.WriteFile(filepath.Join(gitDir, "HEAD"), []byte(content), 0o644); err != nil {
		panic("INFRA: HEAD: " + err.Error())
	}
}

func layout(dir string, steps []int) {
	for _, s := range steps {
		switch s % 4 {
		case 1:
			gitx.Must(dir, "repack", "-d", "-q")
		case 2:
			gitx.Must(dir, "repack", "-a", "-d", "-q")
		case 3:
			gitx.Must(dir, "pack-refs", "--all")
		}
	}
}

// stageWithGit applies Staged to the index (read-tree HEAD first).
func stageWithGit(c Case, dir string, blobs []string, headOK bool) {
	if headOK {
		gitx.Must(dir, "read-tree", "HEAD")
	}
	if len(c.Staged) == 0 {
		return
	}
	zero := strings.Repeat("0", len(blobs[0]))
	var s bytes.Buffer
	for _, e := range c.Staged {
		p := paths[e.Path%len(paths)]
		if e.Blob >= 0 {
			// like `git add`: the blob is (re)written loose — an earlier repack -a -d or a
			// transport may have dropped the unreferenced copy made by fast-import
			i := e.Blob % nBlobs
			if id := strings.TrimSpace(gitx.MustIn(dir, blobContent(i), "hash-object", "-w", "--stdin")); id != blobs[i] {
				panic("INFRA: blob id mismatch")
			}
		}
		if e.Blob < 0 {
			fmt.Fprintf(&s, "0 %s\t%s\n", zero, p)
		} else {
			fmt.Fprintf(&s, "%s %s\t%s\n", modes[e.Mode%3], blobs[e.Blob%nBlobs], p)
		}
	}
	gitx.MustIn(dir, s.Bytes(), "update-index", "--add", "--index-info")
}

// ---------------------------------------------------------------- building with go-git

func must(err error, what string) {
	if err != nil {
		panic("INFRA: " + what + ": " + err.Error())
	}
}

func putObj(st storer.EncodedObjectStorer, enc func(plumbing.EncodedObject) error) plumbing.Hash {
	o := st.NewEncodedObject()
	must(enc(o), "encode")
	h, err := st.SetEncodedObject(o)
	must(err, "SetEncodedObject")
	return h
}

func putBlob(st storer.EncodedObjectStorer, b []byte) plumbing.Hash {
	return putObj(st, func(o plumbing.EncodedObject) error {
		o.SetType(plumbing.BlobObject)
		o.SetSize(int64(len(b)))
		w, err := o.Writer()
		if err != nil {
			return err
		}
		if _, err := w.Write(b); err != nil {
			return err
		}
		return w.Close()
	})
}

var fmodes = []filemode.FileMode{filemode.Regular, filemode.Executable, filemode.Symlink}

// putTree writes the (nested) tree for path->entry and returns its id.
func putTree(st storer.EncodedObjectStorer, files map[string]object.TreeEntry) plumbing.Hash {
	direct := []object.TreeEntry{}
	sub := map[string]map[string]object.TreeEntry{}
	for p, e := range files {
		if i := strings.IndexByte(p, '/'); i >= 0 {
			if sub[p[:i]] == nil {
				sub[p[:i]] = map[string]object.TreeEntry{}
			}
			sub[p[:i]][p[i+1:]] = e
		} else {
			e.Name = p
			direct = append(direct, e)
		}
	}
	var names []string
	for n := range sub {
		names = append(names, n)
	}
	sort.Strings(names)
	for _, n := range names {
		direct = append(direct, object.TreeEntry{Name: n, Mode: filemode.Dir, Hash: putTree(st, sub[n])})
	}
	sort.Sort(object.TreeEntrySorter(direct))
	t := &object.Tree{Entries: direct}
	return putObj(st, t.Encode)
}

func buildWithGoGit(c Case, dir string) (commits []string, blobs []string) {
	opts := []git.InitOption{}
	if c.SHA256 {
		opts = append(opts, git.WithObjectFormat(formatcfg.SHA256))
	}
	r, err := git.PlainInit(dir, false, opts...)
	must(err, "PlainInit")
	st := r.Storer
	bh := make([]plumbing.Hash, 6)
	blobs = make([]string, nBlobs)
	for i := 0; i < 6; i++ {
		bh[i] = putBlob(st, blobContent(i))
		blobs[i] = bh[i].String()
	}
	ts := treesOf(c)
	ch := make([]plumbing.Hash, len(c.Commits))
	commits = make([]string, len(c.Commits))
	for i, co := range c.Commits {
		files := map[string]object.TreeEntry{}
		for _, p := range sortedPaths(ts[i]) {
			e := ts[i][p]
			files[paths[p]] = object.TreeEntry{Mode: fmodes[e.Mode%3], Hash: bh[e.Blob%6]}
		}
		when := time.Unix(int64(1500000000+i*100), 0).UTC()
		cm := &object.Commit{
			Author:    object.Signature{Name: "A U Thor", Email: "a@example.com", When: when},
			Committer: object.Signature{Name: "C O Mitter", Email: "c@example.com", When: when},
			Message:   fmt.Sprintf("commit %d\n", i),
			TreeHash:  putTree(st, files),
		}
		for _, p := range co.Parents {
			if i > 0 {
				cm.ParentHashes = append(cm.ParentHashes, ch[p%i])
			}
		}
		ch[i] = putObj(st, cm.Encode)
		commits[i] = ch[i].String()
	}
	th := make([]plumbing.Hash, len(c.Tags))
	for i, tg := range c.Tags {
		target, tt := ch[tg.Commit%len(ch)], plumbing.CommitObject
		if !tg.Annotated {
			must(st.SetReference(plumbing.NewHashReference(plumbing.ReferenceName(fmt.Sprintf("refs/tags/t%d", i)), target)), "tag ref")
			continue
		}
		if tg.Nested >= 0 && tg.Nested < i && c.Tags[tg.Nested].Annotated {
			target, tt = th[tg.Nested], plumbing.TagObject
		}
		to := &object.Tag{Name: fmt.Sprintf("t%d", i), Tagger: object.Signature{Name: "T Agger", Email: "t@example.com", When: time.Unix(int64(1500001000+i), 0).UTC()},
			Message: fmt.Sprintf("tag %d\n", i), TargetType: tt, Target: target}
		th[i] = putObj(st, to.Encode)
		must(st.SetReference(plumbing.NewHashReference(plumbing.ReferenceName(fmt.Sprintf("refs/tags/t%d", i)), th[i])), "tag ref")
	}
	for k, b := range c.Branches {
		must(st.SetReference(plumbing.NewHashReference(plumbing.ReferenceName(fmt.Sprintf("refs/heads/b%d", k)), ch[b%len(ch)])), "branch ref")
	}
	return commits, blobs
}

// stageWithGoGit resets the index to HEAD's tree (mixed reset) and stages the
// edits through Worktree.Add / Remove on real files.
func stageWithGoGit(c Case, dir string, commits []string) (stagedBlobs []string) {
	r, err := git.PlainOpen(dir)
	must(err, "PlainOpen")
	w, err := r.Worktree()
	must(err, "Worktree")
	if head, err := r.Head(); err == nil {
		must(w.Reset(&git.ResetOptions{Mode: git.MixedReset, Commit: head.Hash()}), "Reset")
	}
	for _, e := range c.Staged {
		p := paths[e.Path%len(paths)]
		full := filepath.Join(dir, p)
		if e.Blob < 0 {
			os.Remove(full)
			_, _ = w.Remove(p) // not tracked: nothing to remove
			continue
		}
		must(os.MkdirAll(filepath.Dir(full), 0o755), "mkdir")
		os.Remove(full)
		if e.Mode%3 == 2 {
			must(os.Symlink(fmt.Sprintf("target-%d", e.Blob%nBlobs), full), "symlink")
		} else {
			mode := os.FileMode(0o644)
			if e.Mode%3 == 1 {
				mode = 0o755
			}
			must(os.WriteFile(full, blobContent(e.Blob%nBlobs), mode), "write")
			must(os.Chmod(full, mode), "chmod")
		}
		if _, err := w.Add(p); err != nil {
			panic("INFRA: Add " + p + ": " + err.Error())
		}
	}
	return nil
}

// ---------------------------------------------------------------- oracle helpers

type objInfo struct {
	typ  string
	size int
	sum  [20]byte
}

// catFile reads the given ids with `git cat-file --batch`; a missing id maps to typ "missing".
func catFile(dir string, ids []string) map[string]objInfo {
	out := map[string]objInfo{}
	if len(ids) == 0 {
		return out
	}
	res, err := gitx.Run(gitx.Cmd{Dir: dir, Args: []string{"cat-file", "--batch"}, Stdin: []byte(strings.Join(ids, "\n") + "\n")})
	if err != nil || res.Code != 0 {
		panic(fmt.Sprintf("INFRA: cat-file --batch: %v code=%d %s", err, res.Code, res.Err))
	}
	b := res.Out
	for len(b) > 0 {
		nl := bytes.IndexByte(b, '\n')
		if nl < 0 {
			panic("INFRA: cat-file output truncated")
		}
		f := strings.Fields(string(b[:nl]))
		b = b[nl+1:]
		if len(f) == 2 && f[1] == "missing" {
			out[f[0]] = objInfo{typ: "missing"}
			continue
		}
		if len(f) != 3 {
			panic("INFRA: cat-file header: " + strings.Join(f, " "))
		}
		n, _ := strconv.Atoi(f[2])
		if len(b) < n+1 {
			panic("INFRA: cat-file body truncated")
		}
		out[f[0]] = objInfo{typ: f[1], size: n, sum: sha1.Sum(b[:n])}
		b = b[n+1:]
	}
	return out
}

// localObjects lists every object stored in the repository itself (never
// triggers a lazy fetch in a partial clone).
func localObjects(dir string) map[string]bool {
	set := map[string]bool{}
	for _, l := range lines(gitx.Must(dir, "cat-file", "--batch-all-objects", "--batch-check=%(objectname)")) {
		set[l] = true
	}
	return set
}

func lines(s string) []string {
	var out []string
	for _, l := range strings.Split(s, "\n") {
		if l = strings.TrimSpace(l); l != "" {
			out = append(out, l)
		}
	}
	return out
}

// revObjects lists objects reachable from the given rev-list arguments that are
// present (objects a promisor remote withheld are printed with '?' and skipped).
func revObjects(dir string, args ...string) map[string]bool {
	a := append([]string{"rev-list", "--objects", "--missing=print"}, args...)
	out, stderr, code := gitx.Try(dir, a...)
	if code != 0 {
		panic("INFRA: rev-list " + strings.Join(args, " ") + ": " + stderr)
	}
	set := map[string]bool{}
	for _, l := range lines(out) {
		if strings.HasPrefix(l, "?") {
			continue
		}
		set[strings.Fields(l)[0]] = true
	}
	return set
}

// fsckProblems runs git fsck; with connectivityOnly only objects reachable from
// references, HEAD and the index are traversed (damage confined to unreachable
// objects is not this property's concern).
// missingReachable lists objects reachable from refs, HEAD and the index that
// are absent (in a partial clone the withheld blobs are expected here).
func missingReachable(dir string, headOK bool) map[string]bool {
	args := []string{"rev-list", "--objects", "--missing=print", "--all", "--indexed-objects"}
	if headOK {
		args = append(args, "HEAD")
	}
	out, stderr, code := gitx.Try(dir, args...)
	if code != 0 {
		return map[string]bool{"rev-list failed: " + trunc(stderr, 200): true}
	}
	set := map[string]bool{}
	for _, l := range lines(out) {
		if strings.HasPrefix(l, "?") {
			set[strings.TrimPrefix(strings.Fields(l)[0], "?")] = true
		}
	}
	return set
}

func fsckProblems(dir string, connectivityOnly bool) []string {
	args := []string{"fsck", "--no-dangling", "--no-progress"}
	if connectivityOnly {
		args = append(args, "--connectivity-only")
	}
	out, stderr, _ := gitx.Try(dir, args...)
	var bad []string
	for _, l := range lines(out + "\n" + stderr) {
		if strings.HasPrefix(l, "missing ") || strings.HasPrefix(l, "broken link") || strings.Contains(l, "invalid sha1 pointer") ||
			strings.HasPrefix(l, "error:") || strings.HasPrefix(l, "fatal:") || strings.Contains(l, "bad object") {
			bad = append(bad, l)
		}
	}
	return bad
}

var threshold = time.Date(2015, 1, 1, 0, 0, 0, 0, time.UTC)

// setMtimes gives every loose object and every pack file an explicit old
// (2005) or new (2020) modification time, chosen by the case.
func setMtimes(gitDir string, mask uint32) {
	old := time.Date(2005, 1, 1, 0, 0, 0, 0, time.UTC)
	recent := time.Date(2020, 1, 1, 0, 0, 0, 0, time.UTC)
	var files []string
	filepath.Walk(filepath.Join(gitDir, "objects"), func(p string, fi os.FileInfo, err error) error {
		if err == nil && fi.Mode().IsRegular() {
			files = append(files, p)
		}
		return nil
	})
	sort.Strings(files)
	n := 0
	for _, p := range files {
		base := filepath.Base(p)
		if strings.HasPrefix(base, "pack-") && !strings.HasSuffix(base, ".pack") { // all files of one pack share a time
			continue
		}
		t := recent
		if mask&(1<<(uint(n)%32)) != 0 {
			t = old
		}
		n++
		if strings.HasPrefix(base, "pack-") {
			stem := strings.TrimSuffix(p, ".pack")
			for _, ext := range []string{".pack", ".idx", ".rev", ".promisor"} {
				os.Chtimes(stem+ext, t, t)
			}
		} else {
			os.Chtimes(p, t, t)
		}
	}
}

func looseSet(gitDir string) map[string]bool {
	set := map[string]bool{}
	ds, _ := os.ReadDir(filepath.Join(gitDir, "objects"))
	for _, d := range ds {
		if d.IsDir() && len(d.Name()) == 2 {
			fs, _ := os.ReadDir(filepath.Join(gitDir, "objects", d.Name()))
			for _, f := range fs {
				set[d.Name()+f.Name()] = true
			}
		}
	}
	return set
}

// ---------------------------------------------------------------- check

func sortedSet(m map[string]bool) []string {
	var ks []string
	for k := range m {
		ks = append(ks, k)
	}
	sort.Strings(ks)
	return ks
}

func check(c Case) evid.Result {
	res := evid.Result{}
	if len(c.Commits) == 0 || len(c.Ops) == 0 {
		res.Discard = true
		return res
	}
	root := scratchDir()
	defer os.RemoveAll(root)
	dir := filepath.Join(root, "repo")
	label := map[string]bool{}

	// 1. history
	var commits, blobs []string
	if c.GoGit {
		commits, blobs = buildWithGoGit(c, dir)
		label["builder:go-git"] = true
	} else {
		commits, blobs = buildWithGit(c, dir)
		label["builder:fast-import"] = true
		// 2. optional transport into a fresh repository
		if c.Transport != 0 && (len(c.Branches) > 0 || len(c.Tags) > 0) {
			src := dir
			dir = filepath.Join(root, "clone")
			gitx.Must(src, "config", "uploadpack.allowFilter", "true")
			switch c.Transport {
			case 1:
				gitx.Init(dir, false, format(c))
				gitx.Must(dir, "fetch", "-q", "--depth", strconv.Itoa(max(1, c.Depth)), "file://"+src, "refs/heads/*:refs/heads/*", "refs/tags/*:refs/tags/*")
				label["transport:shallow-fetch"] = true
			case 2:
				gitx.Must(root, "clone", "-q", "--no-checkout", "--filter=blob:none", "file://"+src, dir)
				gitx.Must(dir, "fetch", "-q", "origin", "refs/heads/*:refs/heads/*")
				label["transport:partial-clone"] = true
			}
			os.RemoveAll(src) // nothing can be fetched lazily afterwards
			// commits that did not travel cannot be HEAD: fall back to one that exists
			have := localObjects(dir)
			if c.Head < 0 && !have[commits[(-c.Head-1)%len(commits)]] {
				for i := len(commits) - 1; i >= 0; i-- {
					if have[commits[i]] {
						c.Head = -1 - i
						break
					}
				}
			}
		}
	}
	gitDir := filepath.Join(dir, ".git")
	writeHead(c, gitDir, commits)
	if c.Head < 0 {
		label["head:detached"] = true
	} else {
		label["head:symbolic"] = true
	}

	_, _, hc := gitx.Try(dir, "rev-parse", "-q", "--verify", "HEAD^{commit}")
	headOK := hc == 0

	// 3. layout, staging, layout again
	layout(dir, c.Layout)
	if c.GoGit {
		stageWithGoGit(c, dir, commits)
	} else {
		stageWithGit(c, dir, blobs, headOK)
	}
	if label["transport:partial-clone"] {
		// git repack reads every index entry; the blobs of HEAD's tree were withheld on purpose
		var l2 []int
		for _, st := range c.Layout2 {
			if st%4 == 3 {
				l2 = append(l2, st)
			}
		}
		c.Layout2 = l2
	}
	layout(dir, c.Layout2)
	setMtimes(gitDir, c.OldMask)

	// 4. reachable set R by git, before anything is collected
	refArgs := []string{"--glob=*"} // every ref under refs/ but not HEAD (--all would include HEAD)
	fromRefs := revObjects(dir, refArgs...)
	fromHead := map[string]bool{}
	if headOK {
		fromHead = revObjects(dir, "HEAD")
	}
	fromIndex := map[string]bool{}
	for _, l := range lines(gitx.Must(dir, "ls-files", "-s")) {
		f := strings.Fields(l)
		if f[0] != "160000" {
			fromIndex[f[1]] = true
		}
	}
	R := map[string]bool{}
	headOnly, indexOnly := 0, 0
	for id := range fromRefs {
		R[id] = true
	}
	for id := range fromHead {
		if !R[id] {
			headOnly++
		}
		R[id] = true
	}
	ids := sortedSet(fromIndex)
	present := localObjects(dir)
	stagedOnly := map[string]bool{}
	for _, id := range ids {
		if !present[id] { // e.g. a blob withheld by the promisor remote and still listed in the index
			continue
		}
		if !R[id] {
			indexOnly++
			stagedOnly[id] = true
		}
		R[id] = true
	}
	before := catFile(dir, sortedSet(R))
	for id, oi := range before {
		if oi.typ == "missing" {
			panic("INFRA: object " + id + " of the reachable set is missing before the operation")
		}
	}
	if bad := fsckProblems(dir, false); len(bad) > 0 {
		panic("INFRA: generated repository is not clean before the operation: " + strings.Join(bad, "; "))
	}
	missingBefore := missingReachable(dir, headOK)
	looseBefore := looseSet(gitDir)
	if headOnly > 0 && c.Head < 0 {
		label["R:only-from-detached-HEAD"] = true
	}
	if indexOnly > 0 {
		label["R:only-from-index"] = true
		for id := range stagedOnly {
			if looseBefore[id] {
				label["staged-only:loose"] = true
			} else {
				label["staged-only:packed"] = true
			}
		}
	}
	if st, err := os.ReadFile(filepath.Join(gitDir, "shallow")); err == nil && len(bytes.TrimSpace(st)) > 0 {
		label["shallow-roots"] = true
	}
	if ps, _ := filepath.Glob(filepath.Join(gitDir, "objects", "pack", "*.promisor")); len(ps) > 0 {
		label["promisor-pack"] = true
	}
	if ps, _ := filepath.Glob(filepath.Join(gitDir, "objects", "pack", "*.pack")); len(ps) > 0 {
		label[fmt.Sprintf("packs:%d", min(len(ps), 3))] = true
	}
	res.NonTrivial = indexOnly > 0 || (headOnly > 0 && c.Head < 0)

	// 5. the operations, each followed by the oracles
	var fail *evid.Failure
	for i, op := range c.Ops {
		r, err := git.PlainOpen(dir)
		must(err, "PlainOpen")
		name := "Prune"
		if op.Repack {
			name = "RepackObjects"
			cfg := &git.RepackConfig{UseRefDeltas: op.RefDelta}
			if op.Age {
				cfg.OnlyDeletePacksOlderThan = threshold
			}
			err = r.RepackObjects(cfg)
		} else {
			po := git.PruneOptions{Handler: r.DeleteObject}
			if op.Age {
				po.OnlyObjectsOlderThan = threshold
			}
			err = r.Prune(po)
		}
		if cl, ok := r.Storer.(io.Closer); ok {
			_ = cl.Close()
		}
		label["op:"+name] = true
		if err != nil {
			label["op-error"] = true
			label["op-error:"+name+":"+strings.Join(strings.Fields(trunc(err.Error(), 60))[:min(2, len(strings.Fields(err.Error())))], " ")] = true
		}
		after := catFile(dir, sortedSet(R))
		var lost []string
		for _, id := range sortedSet(R) {
			if after[id] != before[id] {
				lost = append(lost, id)
			}
		}
		if len(lost) == 0 { // go-git must be able to read them too (fresh storage)
			r2, err := git.PlainOpen(dir)
			must(err, "PlainOpen")
			for _, id := range sortedSet(R) {
				o, err := r2.Storer.EncodedObject(plumbing.AnyObject, plumbing.NewHash(id))
				if err != nil {
					lost = append(lost, id)
					continue
				}
				rd, _ := o.Reader()
				b, _ := io.ReadAll(rd)
				rd.Close()
				if o.Type().String() != before[id].typ || len(b) != before[id].size || sha1.Sum(b) != before[id].sum {
					lost = append(lost, id)
				}
			}
			if cl, ok := r2.Storer.(io.Closer); ok {
				_ = cl.Close()
			}
		}
		bad := fsckProblems(dir, true)
		for _, id := range sortedSet(missingReachable(dir, headOK)) {
			if !missingBefore[id] {
				bad = append(bad, "rev-list --missing=print: reachable object "+id+" is now missing")
			}
		}
		if len(lost) > 0 || len(bad) > 0 {
			allStaged, looseAll := len(lost) > 0, true
			for _, id := range lost {
				if !stagedOnly[id] {
					allStaged = false
				}
				if !looseBefore[id] {
					looseAll = false
				}
			}
			sig := fmt.Sprintf("C22/%s:reachable-object-lost", name)
			switch {
			case len(lost) == 0:
				sig = fmt.Sprintf("C22/%s:git-fsck-reports-damage", name)
			case allStaged && !op.Repack && looseAll:
				sig = sigPruneStaged
			case allStaged && op.Repack && !looseAll:
				sig = sigRepackStaged
			case allStaged:
				sig = fmt.Sprintf("C22/%s:staged-only-blob-lost", name)
			}
			fail = evid.Failf(sig, "after op %d (%s %+v, returned %v): %d of %d reachable objects lost or changed: %v (staged-only=%v, loose-before=%v); git fsck: %v",
				i, name, op, err, len(lost), len(R), lost, allStaged, looseAll, bad)
			break
		}
	}

	for l := range label {
		res.Labels = append(res.Labels, l)
	}
	if c.SHA256 {
		res.Labels = append(res.Labels, "sha256")
	}
	sort.Strings(res.Labels)
	if fail != nil {
		res.NonTrivial = true
		res.Fail = fail
	}
	return res
}

func trunc(s string, n int) string {
	if len(s) > n {
		return s[:n]
	}
	return s
}

func TestC22(t *testing.T) {
	evid.Run(t, evid.Spec[Case]{ID: "C22", Gen: gen, Check: check})
}
