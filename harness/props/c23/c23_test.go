//go:build verif

// Package c23: concurrent reads on shared filesystem storage. The schedule is
// perturbed (not owned): reader goroutines run for real under -race, the verif
// Yield points inject Gosched/short sleeps from a stream derived from the case.
// A failure is reported with the case and the logged history; it is not
// guaranteed to reproduce (config: nondeterministic).
package c23

import (
	"bytes"
	"crypto/sha256"
	"errors"
	"fmt"
	"io"
	"os"
	"os/exec"
	"path/filepath"
	"regexp"
	"runtime"
	"strings"
	"sync"
	"sync/atomic"
	"testing"
	"time"

	"github.com/go-git/go-billy/v6/osfs"
	git "github.com/go-git/go-git/v6"
	"github.com/go-git/go-git/v6/plumbing"
	"github.com/go-git/go-git/v6/plumbing/cache"
	"github.com/go-git/go-git/v6/plumbing/format/packfile"
	"github.com/go-git/go-git/v6/storage/filesystem"
	"github.com/go-git/go-git/v6/storage/memory"
	"github.com/go-git/go-git/v6/x/fdpool"
	"github.com/go-git/go-git/v6/x/verifhook"
	"pgregory.net/rapid"

	"verif/harness/lib/evid"
	"verif/harness/lib/gitx"
)

// ReadOp is one read by a reader goroutine.
type ReadOp struct {
	Kind string // get getany size has delta iter prefix ref index
	Obj  int    // index into the pre-existing object table (mod len); negative-ish values pick an absent id
}

// WriteOp is one mutation by the writer (a second Storage instance or real git).
type WriteOp struct {
	Kind string // loose pack repack gitrepack gitgc
	N    int
}

// Case is one scenario.
type Case struct {
	Shape     int
	PoolCap   int // -1 default pool, 0 disabled, >=1 capacity
	InMemIdx  bool
	SmallLRU  bool
	Readers   [][]ReadOp
	Writer    []WriteOp
	YieldSeed uint32
}

var readKinds = []string{"get", "get", "get", "getany", "size", "has", "delta", "iter", "prefix", "ref", "index", "absent"}
var writeKinds = []string{"loose", "loose", "pack", "pack", "repack", "gitrepack"}

func gen(t *rapid.T, r *evid.Recorder) Case {
	wk := writeKinds
	if r != nil && r.IsKnown(staleSig) {
		// confirmed open finding: repacks by the other instance make most later reads fail in the known way,
		// so they are generated rarely (still present: content of what IS returned stays checked)
		wk = []string{"loose", "loose", "loose", "pack", "pack", "pack", "pack", "loose", "pack", "repack", "gitrepack"}
	}
	c := Case{Shape: rapid.IntRange(0, 2).Draw(t, "shape"), PoolCap: rapid.SampledFrom([]int{-1, 0, 1, 1, 1, 2, 2, 3}).Draw(t, "cap"),
		InMemIdx: rapid.Bool().Draw(t, "inmem"), SmallLRU: rapid.Bool().Draw(t, "smalllru"), YieldSeed: rapid.Uint32().Draw(t, "yseed")}
	// "hot" scenarios: many readers hammering point lookups of objects spread over several packs, no writer:
	// the shape that exposes check-then-act windows in the pack routing (MRU hint, index publish, pool eviction)
	hot := rapid.IntRange(0, 2).Draw(t, "hot") == 0
	nr := rapid.IntRange(2, 6).Draw(t, "readers")
	kinds := readKinds
	lo, hi := 3, 25
	if hot {
		if c.Shape == 1 {
			c.Shape = 2
		}
		nr = rapid.IntRange(4, 8).Draw(t, "hotreaders")
		kinds = []string{"get", "get", "getany", "size", "has", "delta"}
		lo, hi = 30, 80
	}
	for i := 0; i < nr; i++ {
		n := rapid.IntRange(lo, hi).Draw(t, "nops")
		var ops []ReadOp
		for j := 0; j < n; j++ {
			ops = append(ops, ReadOp{Kind: rapid.SampledFrom(kinds).Draw(t, "rk"), Obj: rapid.IntRange(0, 1<<16).Draw(t, "obj")})
		}
		c.Readers = append(c.Readers, ops)
	}
	if !hot && rapid.IntRange(0, 3).Draw(t, "haswriter") > 0 {
		n := rapid.IntRange(1, 5).Draw(t, "nw")
		for j := 0; j < n; j++ {
			c.Writer = append(c.Writer, WriteOp{Kind: rapid.SampledFrom(wk).Draw(t, "wk"), N: rapid.IntRange(1, 4).Draw(t, "wn")})
		}
	}
	return c
}

// --- template repositories (built once per process and shape) -----------------

type objInfo struct {
	hash plumbing.Hash
	typ  plumbing.ObjectType
	size int64
	sum  [32]byte
}

type template struct {
	dir     string
	objs    []objInfo
	byHash  map[plumbing.Hash]int
	head    plumbing.Hash
	nIndex  int
	err     error
}

var (
	tmplOnce [3]sync.Once
	tmpls    [3]*template
	tmplRoot string
)

func scratchBase() string {
	if d := os.Getenv("VERIF_SCRATCH"); d != "" {
		return d
	}
	return "/dev/shm"
}

func getTemplate(shape int) *template {
	tmplOnce[shape].Do(func() {
		if tmplRoot == "" {
			d, err := os.MkdirTemp(scratchBase(), "c23-tmpl-")
			if err != nil {
				panic("INFRA: " + err.Error())
			}
			tmplRoot = d
		}
		tmpls[shape] = buildTemplate(shape, filepath.Join(tmplRoot, fmt.Sprint(shape)))
	})
	return tmpls[shape]
}

func buildTemplate(shape int, dir string) *template {
	gitx.Init(dir, false, "")
	batches, per := 3, 12
	switch shape {
	case 1:
		batches, per = 1, 40
	case 2:
		batches, per = 5, 5
	}
	mark := 0
	for b := 0; b < batches; b++ {
		var fi bytes.Buffer
		for i := 0; i < per; i++ {
			mark++
			fmt.Fprintf(&fi, "commit refs/heads/main\ncommitter C <c@x> %d +0000\ndata <<EOM\nc%d\nEOM\n", 1700000000+mark, mark)
			if mark > 1 && i == 0 {
				fi.WriteString("from refs/heads/main^0\n")
			}
			for f := 0; f < 3; f++ {
				var body bytes.Buffer
				for l := 0; l < 60; l++ {
					fmt.Fprintf(&body, "file %d line %d common text to make deltas likely\n", f, l)
				}
				fmt.Fprintf(&body, "revision %d\n", mark*(f+1))
				fmt.Fprintf(&fi, "M 644 inline d%d/f%d.txt\ndata %d\n%s\n", f%2, f, body.Len(), body.String())
			}
		}
		gitx.MustIn(dir, fi.Bytes(), "fast-import", "--quiet", "--date-format=raw")
	}
	if shape == 1 {
		gitx.Must(dir, "repack", "-a", "-d", "-q", "-f", "--depth=30", "--window=20")
	}
	// loose objects
	for i := 0; i < 8; i++ {
		gitx.MustIn(dir, []byte(fmt.Sprintf("loose blob %d shape %d\n", i, shape)), "hash-object", "-w", "--stdin")
	}
	gitx.Must(dir, "read-tree", "HEAD")
	t := &template{dir: dir, byHash: map[plumbing.Hash]int{}}
	t.head = plumbing.NewHash(strings.TrimSpace(gitx.Must(dir, "rev-parse", "HEAD")))
	t.nIndex = strings.Count(gitx.Must(dir, "ls-files", "-s"), "\n")
	// table of every object
	out := []byte(gitx.Must(dir, "cat-file", "--batch-all-objects", "--batch"))
	for len(out) > 0 {
		nl := bytes.IndexByte(out, '\n')
		var h, ty string
		var sz int64
		if _, err := fmt.Sscanf(string(out[:nl]), "%s %s %d", &h, &ty, &sz); err != nil {
			panic("INFRA: cat-file parse: " + string(out[:nl]))
		}
		body := out[nl+1 : nl+1+int(sz)]
		out = out[nl+1+int(sz)+1:]
		typ, _ := plumbing.ParseObjectType(ty)
		t.byHash[plumbing.NewHash(h)] = len(t.objs)
		t.objs = append(t.objs, objInfo{plumbing.NewHash(h), typ, sz, sha256.Sum256(body)})
	}
	return t
}

func TestMain(m *testing.M) {
	rc := m.Run()
	if tmplRoot != "" {
		os.RemoveAll(tmplRoot)
	}
	os.Exit(rc)
}

// --- one scenario ---------------------------------------------------------------

var hexRe = regexp.MustCompile(`[0-9a-f]{7,64}`)
var pathRe = regexp.MustCompile(`/dev/shm/\S+|/tmp/\S+`)

func errClass(err error) string {
	s := pathRe.ReplaceAllString(hexRe.ReplaceAllString(err.Error(), "H"), "P")
	if len(s) > 90 {
		s = s[:90]
	}
	return strings.ReplaceAll(s, " ", "_")
}

type failure struct {
	sig, msg string
}

const staleSig = "C23/pre-existing-object-unreadable-after-repack-by-other-instance"

// closedSig: IterEncodedObjects puts FSObjects bound to the iterator's own pack
// cursor into the shared object cache; a concurrent reader (cache hit, delta
// base lookup, another iterator) that passes FSObject's "is the FD live" probe
// and then reads after the owning iterator closed its cursor gets
// "file already closed".
const closedSig = "C23/cached-object-bound-to-closed-iterator-cursor:file-already-closed"

func knownSig(sig string) bool {
	for _, k := range strings.Split(os.Getenv("VERIF_KNOWN"), "\x1f") {
		if k == sig {
			return true
		}
	}
	return false
}

// staleClass: once another instance has started replacing the packs, an instance
// that loaded the old pack inventory fails in many surface forms (object not
// found, "no such file", "packfile not found", "index is not set", ...), all
// with the root cause recorded as the known finding: no reprepare on miss. Any
// *error* in that history maps to the finding; wrong content, wrong size, races
// and panics never do.
func staleClass(err error) bool { return err != nil }

func check(c Case) (res evid.Result) {
	tm := getTemplate(c.Shape % 3)
	dir, err := os.MkdirTemp(scratchBase(), "c23-")
	if err != nil {
		panic("INFRA: " + err.Error())
	}
	defer os.RemoveAll(dir)
	if out, err := exec.Command("cp", "-a", tm.dir+"/.", dir).CombinedOutput(); err != nil {
		panic("INFRA: cp: " + string(out))
	}
	dot := filepath.Join(dir, ".git")
	open := func() (*filesystem.Storage, *fdpool.Pool) {
		var pool *fdpool.Pool
		if c.PoolCap >= 0 {
			pool = fdpool.New(c.PoolCap)
		}
		var lru cache.Object = cache.NewObjectLRUDefault()
		if c.SmallLRU {
			lru = cache.NewObjectLRU(2 * cache.KiByte)
		}
		return filesystem.NewStorageWithOptions(osfs.New(dot), lru, filesystem.Options{UseInMemoryIdx: c.InMemIdx, Pool: pool}), pool
	}
	s1, pool := open()
	defer s1.Close()

	var ycount atomic.Uint32
	verifhook.SetYield(func(string) {
		n := ycount.Add(1)
		x := (n*2654435761 ^ c.YieldSeed) * 2246822519
		switch (x >> 13) % 16 {
		case 0, 1, 2, 3, 4:
			runtime.Gosched()
		case 5, 6:
			time.Sleep(time.Duration(x>>20%50) * time.Microsecond)
		case 7:
			// a long stall inside a go-git call, so that other goroutines complete whole operations meanwhile
			time.Sleep(time.Duration(200+x>>20%400) * time.Microsecond)
		}
	})
	defer verifhook.SetYield(nil)

	var mu sync.Mutex
	var fails []failure
	report := func(sig, format string, a ...any) {
		mu.Lock()
		fails = append(fails, failure{sig, fmt.Sprintf(format, a...)})
		mu.Unlock()
	}
	var added sync.Map // hashes added by the writer: reads may say not-found
	var writerPhase atomic.Value
	writerPhase.Store("none")
	var repackBegun atomic.Bool
	// errSig maps an error on a pre-existing object to its signature
	hasIter := false
	for _, r := range c.Readers {
		for _, op := range r {
			if op.Kind == "iter" {
				hasIter = true
			}
		}
	}
	errSig := func(op string, err error) string {
		if repackBegun.Load() && staleClass(err) {
			return staleSig
		}
		if hasIter && strings.Contains(err.Error(), "file already closed") {
			return closedSig
		}
		return fmt.Sprintf("C23/%s/error:%s", op, errClass(err))
	}

	verify := func(who string, op string, o objInfo, obj plumbing.EncodedObject, err error) {
		if err != nil {
			report(errSig(op, err), "%s: %s(%s) of a pre-existing %s failed: %v (writer phase: %v)", who, op, o.hash, o.typ, err, writerPhase.Load())
			return
		}
		if obj.Type() != o.typ || obj.Size() != o.size {
			report(fmt.Sprintf("C23/%s/wrong-type-or-size", op), "%s: %s(%s): got %s/%d want %s/%d", who, op, o.hash, obj.Type(), obj.Size(), o.typ, o.size)
			return
		}
		r, err := obj.Reader()
		if err != nil {
			report(errSig(op+".Reader", err), "%s: %s(%s).Reader: %v", who, op, o.hash, err)
			return
		}
		b, err := io.ReadAll(r)
		r.Close()
		if err != nil {
			report(errSig(op+".Read", err), "%s: %s(%s) read: %v (writer phase: %v)", who, op, o.hash, err, writerPhase.Load())
			return
		}
		if sha256.Sum256(b) != o.sum {
			report(fmt.Sprintf("C23/%s/wrong-content", op), "%s: %s(%s): content differs from what git stored (%d bytes read, want %d)", who, op, o.hash, len(b), o.size)
		}
	}

	var wg sync.WaitGroup
	for ri, script := range c.Readers {
		wg.Add(1)
		go func(ri int, script []ReadOp) {
			defer wg.Done()
			who := fmt.Sprintf("reader %d", ri)
			defer func() {
				if p := recover(); p != nil {
					report("C23/panic", "%s panicked: %v", who, p)
				}
			}()
			for _, op := range script {
				o := tm.objs[op.Obj%len(tm.objs)]
				switch op.Kind {
				case "get":
					obj, err := s1.EncodedObject(o.typ, o.hash)
					verify(who, "EncodedObject", o, obj, err)
				case "getany":
					obj, err := s1.EncodedObject(plumbing.AnyObject, o.hash)
					verify(who, "EncodedObject(any)", o, obj, err)
				case "delta":
					obj, err := s1.DeltaObject(plumbing.AnyObject, o.hash)
					if err != nil {
						report(errSig("DeltaObject", err), "%s: DeltaObject(%s): %v", who, o.hash, err)
					} else if _, isDelta := obj.(plumbing.DeltaObject); !isDelta {
						verify(who, "DeltaObject", o, obj, nil)
					}
				case "size":
					sz, err := s1.EncodedObjectSize(o.hash)
					if err != nil {
						report(errSig("EncodedObjectSize", err), "%s: EncodedObjectSize(%s): %v (writer phase: %v)", who, o.hash, err, writerPhase.Load())
					} else if sz != o.size {
						report("C23/EncodedObjectSize/wrong", "%s: EncodedObjectSize(%s)=%d want %d", who, o.hash, sz, o.size)
					}
				case "has":
					if err := s1.HasEncodedObject(o.hash); err != nil {
						report(errSig("HasEncodedObject", err), "%s: HasEncodedObject(%s): %v (writer phase: %v)", who, o.hash, err, writerPhase.Load())
					}
				case "absent":
					var h plumbing.Hash
					hb := sha256.Sum256([]byte(fmt.Sprint("absent", op.Obj)))
					h = plumbing.NewHash(fmt.Sprintf("%x", hb[:20]))
					if _, known := tm.byHash[h]; known {
						break
					}
					if _, err := s1.EncodedObject(plumbing.AnyObject, h); !errors.Is(err, plumbing.ErrObjectNotFound) {
						report("C23/absent/not-ErrObjectNotFound", "%s: EncodedObject(absent %s): err=%v", who, h, err)
					}
				case "iter":
					it, err := s1.IterEncodedObjects(o.typ)
					if err != nil {
						report(errSig("IterEncodedObjects", err), "%s: IterEncodedObjects(%s): %v (writer phase: %v)", who, o.typ, err, writerPhase.Load())
						break
					}
					n := 0
					for n < 1+op.Obj%40 {
						obj, err := it.Next()
						if err == io.EOF {
							break
						}
						if err != nil {
							report(errSig("IterEncodedObjects.Next", err), "%s: iter.Next: %v (writer phase: %v)", who, err, writerPhase.Load())
							break
						}
						n++
						if k, ok := tm.byHash[obj.Hash()]; ok {
							verify(who, "Iter", tm.objs[k], obj, nil)
						} else if _, ok := added.Load(obj.Hash()); !ok && len(c.Writer) == 0 {
							report("C23/Iter/unknown-object", "%s: iterator yielded %s which git does not list", who, obj.Hash())
						}
					}
					it.Close()
				case "prefix":
					hs, err := s1.HashesWithPrefix(o.hash.Bytes()[:2])
					if err != nil {
						report(errSig("HashesWithPrefix", err), "%s: HashesWithPrefix: %v (writer phase: %v)", who, err, writerPhase.Load())
						break
					}
					found := false
					for _, h := range hs {
						if h == o.hash {
							found = true
						}
					}
					if !found && repackBegun.Load() {
						report(staleSig, "%s: HashesWithPrefix(%x) does not list %s (writer phase: %v)", who, o.hash.Bytes()[:2], o.hash, writerPhase.Load())
					} else if !found {
						report("C23/HashesWithPrefix/missing", "%s: HashesWithPrefix(%x) does not list %s (writer phase: %v)", who, o.hash.Bytes()[:2], o.hash, writerPhase.Load())
					}
				case "ref":
					ref, err := s1.Reference("refs/heads/main")
					if err != nil {
						report("C23/Reference/error:"+errClass(err), "%s: Reference(main): %v (writer phase: %v)", who, err, writerPhase.Load())
					} else if ref.Hash() != tm.head {
						report("C23/Reference/wrong", "%s: Reference(main)=%s want %s", who, ref.Hash(), tm.head)
					}
				case "index":
					idx, err := s1.Index()
					if err != nil {
						report("C23/Index/error:"+errClass(err), "%s: Index(): %v", who, err)
					} else if len(idx.Entries) != tm.nIndex {
						report("C23/Index/wrong", "%s: Index() has %d entries want %d", who, len(idx.Entries), tm.nIndex)
					}
				}
			}
		}(ri, script)
	}
	// writer: a second storage instance on the same repository (or real git)
	if len(c.Writer) > 0 {
		wg.Add(1)
		go func() {
			defer wg.Done()
			defer func() {
				if p := recover(); p != nil {
					report("C23/writer-panic", "writer panicked: %v", p)
				}
			}()
			s2, _ := open()
			defer s2.Close()
			seq := 0
			for wi, op := range c.Writer {
				writerPhase.Store(fmt.Sprintf("%d:%s", wi, op.Kind))
				switch op.Kind {
				case "loose":
					for i := 0; i < op.N; i++ {
						seq++
						o := s2.NewEncodedObject()
						o.SetType(plumbing.BlobObject)
						w, _ := o.Writer()
						fmt.Fprintf(w, "writer loose %d %d\n", c.YieldSeed, seq)
						w.Close()
						added.Store(o.Hash(), true)
						if _, err := s2.SetEncodedObject(o); err != nil {
							report("C23/writer/SetEncodedObject:"+errClass(err), "writer: %v", err)
						}
					}
				case "pack":
					ms := memory.NewStorage()
					var hs []plumbing.Hash
					for i := 0; i < op.N+1; i++ {
						seq++
						o := ms.NewEncodedObject()
						o.SetType(plumbing.BlobObject)
						w, _ := o.Writer()
						fmt.Fprintf(w, "writer packed %d %d\n%s", c.YieldSeed, seq, strings.Repeat("filler line\n", 30))
						w.Close()
						h, _ := ms.SetEncodedObject(o)
						hs = append(hs, h)
						added.Store(h, true)
					}
					var buf bytes.Buffer
					if _, err := packfile.NewEncoder(&buf, ms, false).Encode(hs, 10); err != nil {
						panic("INFRA: encode: " + err.Error())
					}
					pw, err := s2.PackfileWriter()
					if err != nil {
						report("C23/writer/PackfileWriter:"+errClass(err), "writer: %v", err)
						break
					}
					if _, err := io.Copy(pw, &buf); err != nil {
						report("C23/writer/pack-copy:"+errClass(err), "writer: %v", err)
					}
					if err := pw.Close(); err != nil {
						report("C23/writer/pack-close:"+errClass(err), "writer: %v", err)
					}
				case "repack":
					repackBegun.Store(true)
					r, err := git.Open(s2, nil)
					if err != nil {
						report("C23/writer/Open:"+errClass(err), "writer: %v", err)
						break
					}
					if err := r.RepackObjects(&git.RepackConfig{}); err != nil {
						report(errSig("writer/RepackObjects", err), "writer: RepackObjects: %v", err)
					}
				case "gitrepack":
					repackBegun.Store(true)
					gitx.Must(dir, "repack", "-a", "-d", "-q")
				}
			}
			writerPhase.Store("done")
		}()
	}
	wg.Wait()
	verifhook.SetYield(nil)

	// quiescent re-read through the same instance: everything pre-existing must still be there
	if len(fails) == 0 {
		for i, o := range tm.objs {
			if i%7 != int(c.YieldSeed%7) {
				continue
			}
			obj, err := s1.EncodedObject(o.typ, o.hash)
			verify("final sweep", "EncodedObject", o, obj, err)
		}
	}

	res.Labels = append(res.Labels, fmt.Sprintf("cap=%d", c.PoolCap), fmt.Sprintf("readers=%d", len(c.Readers)))
	ev := false
	if pool != nil {
		if st := pool.Stats(); st.Evictions > 0 {
			ev = true
			res.Labels = append(res.Labels, "eviction")
		}
	}
	for _, w := range c.Writer {
		res.Labels = append(res.Labels, "writer:"+w.Kind)
	}
	if len(c.Writer) == 0 && len(c.Readers) >= 4 {
		res.Labels = append(res.Labels, "hot-readers")
	}
	res.NonTrivial = len(c.Readers) >= 2 && (ev || len(c.Writer) > 0 || len(c.Readers) >= 4)
	if len(fails) > 0 {
		f := fails[0]
		for _, x := range fails { // report the first observation that is not a confirmed known finding
			if !knownSig(x.sig) {
				f = x
				break
			}
		}
		if f.sig == staleSig {
			res.Labels = append(res.Labels, "stale-after-repack")
		}
		var sb strings.Builder
		for i, x := range fails {
			if i >= 6 {
				fmt.Fprintf(&sb, "... and %d more\n", len(fails)-i)
				break
			}
			fmt.Fprintf(&sb, "[%s] %s\n", x.sig, x.msg)
		}
		res.Fail = evid.Failf(f.sig, "%d failing observations; first ones:\n%s", len(fails), sb.String())
	}
	return res
}

func TestC23(t *testing.T) {
	evid.Run(t, evid.Spec[Case]{ID: "C23", Gen: gen, Check: check})
}
