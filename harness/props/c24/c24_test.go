//go:build verif

package c24

import (
	"fmt"
	"io/fs"
	"os"
	"sync/atomic"
	"testing"
	"testing/synctest"
	"time"

	"github.com/go-git/go-git/v6/x/fdpool"
	"github.com/go-git/go-git/v6/x/verifhook"
	"pgregory.net/rapid"

	"verif/harness/lib/evid"
)

// --- fake file -------------------------------------------------------------

type fakeFile struct {
	owner  int
	closed atomic.Bool
	closes atomic.Int32
}

func (f *fakeFile) ReadAt(p []byte, off int64) (int, error) {
	if f.closed.Load() {
		return 0, fs.ErrClosed
	}
	for i := range p {
		p[i] = byte(f.owner)
	}
	return len(p), nil
}
func (f *fakeFile) Read(p []byte) (int, error) { return f.ReadAt(p, 0) }
func (f *fakeFile) Close() error {
	f.closes.Add(1)
	f.closed.Store(true)
	return nil
}

// --- sequential tier ---------------------------------------------------------

const grace = time.Second

// Op is one step of a sequential history.
type Op struct {
	Kind string // acquire release releasenow close advance failopen
	File int    // index of the SharedFile (mod NFiles)
	Pick int    // which outstanding acquisition to release (mod count)
}

// SeqCase is a sequential history over NFiles shared files and one pool.
type SeqCase struct {
	NFiles  int
	PoolCap int // -1: no pool (grace timer); 0: disabled pool (fdpool.New(0)); >=1: capacity
	Ops     []Op
}

var kinds = []string{"acquire", "acquire", "acquire", "release", "release", "releasenow", "close", "advance", "failopen"}

func genSeq(t *rapid.T, _ *evid.Recorder) SeqCase {
	c := SeqCase{NFiles: rapid.IntRange(1, 4).Draw(t, "nfiles"), PoolCap: rapid.SampledFrom([]int{-1, -1, 0, 1, 1, 2, 2, 3}).Draw(t, "cap")}
	n := rapid.IntRange(1, 40).Draw(t, "nops")
	for i := 0; i < n; i++ {
		c.Ops = append(c.Ops, Op{Kind: rapid.SampledFrom(kinds).Draw(t, "kind"), File: rapid.IntRange(0, 3).Draw(t, "file"), Pick: rapid.IntRange(0, 7).Draw(t, "pick")})
	}
	return c
}

type world struct {
	files    []*verifhook.SharedFile
	opened   [][]*fakeFile // every fake file ever opened per shared file
	failNext []bool
	closedSF []bool
	pool     *fdpool.Pool
	capacity int
	slack    int // in-flight evictions (concurrent tier only)
}

func newWorld(n, capacity int) *world {
	w := &world{capacity: capacity}
	if capacity >= 0 {
		w.pool = fdpool.New(capacity)
	}
	w.opened = make([][]*fakeFile, n)
	w.failNext = make([]bool, n)
	w.closedSF = make([]bool, n)
	for i := 0; i < n; i++ {
		i := i
		open := func() (verifhook.ReadAtCloser, error) {
			if w.failNext[i] {
				w.failNext[i] = false
				return nil, fmt.Errorf("injected open failure")
			}
			f := &fakeFile{owner: i}
			w.opened[i] = append(w.opened[i], f)
			return f, nil
		}
		if w.pool != nil {
			w.files = append(w.files, verifhook.NewSharedFileWithPool(open, grace, w.pool))
		} else {
			w.files = append(w.files, verifhook.NewSharedFile(open, grace))
		}
	}
	return w
}

func (w *world) openCount(i int) int {
	n := 0
	for _, f := range w.opened[i] {
		if !f.closed.Load() {
			n++
		}
	}
	return n
}

type held struct {
	file int
	h    verifhook.ReadAtCloser
}

// invariants checks the state-independent part of the property. pinned[i] is
// the number of outstanding acquisitions (incl. in flight) on file i.
func (w *world) invariants(pinned []int, step string) *evid.Failure {
	totalOpen, pinnedFiles := 0, 0
	for i := range w.files {
		oc := w.openCount(i)
		if oc > 1 {
			return evid.Failf("C24/two-open-descriptors-for-one-file", "%s: shared file %d has %d open descriptors (an earlier one leaked)", step, i, oc)
		}
		for _, f := range w.opened[i] {
			if f.closes.Load() > 1 {
				return evid.Failf("C24/descriptor-closed-twice", "%s: a descriptor of shared file %d was closed %d times", step, i, f.closes.Load())
			}
		}
		totalOpen += oc
		if pinned[i] > 0 {
			pinnedFiles++
		}
		if w.closedSF[i] && oc != 0 {
			return evid.Failf("C24/open-after-Close", "%s: shared file %d still has an open descriptor after Close", step, i)
		}
	}
	if w.capacity >= 1 && totalOpen > w.capacity+pinnedFiles+w.slack {
		return evid.Failf("C24/pool-bound-exceeded", "%s: %d open pooled descriptors > capacity %d + %d pinned", step, totalOpen, w.capacity, pinnedFiles)
	}
	return nil
}

func checkSeqIn(c SeqCase) (res evid.Result) {
	w := newWorld(c.NFiles, c.PoolCap)
	var outstanding []held
	pinned := make([]int, c.NFiles)
	res.Labels = append(res.Labels, fmt.Sprintf("cap=%d", c.PoolCap))
	sawLatch, sawTimer := false, false
	readable := func(h held, step string) *evid.Failure {
		var b [1]byte
		if _, err := h.h.ReadAt(b[:], 0); err != nil && !w.closedSF[h.file] {
			return evid.Failf("C24/descriptor-closed-under-reader", "%s: handle of shared file %d acquired and not released returns %v although Close was never called", step, h.file, err)
		}
		return nil
	}
	for si, op := range c.Ops {
		fi := op.File % c.NFiles
		step := fmt.Sprintf("step %d %s(file %d)", si, op.Kind, fi)
		switch op.Kind {
		case "acquire":
			willFail := w.failNext[fi] && w.openCount(fi) == 0 && !w.closedSF[fi]
			h, err := w.files[fi].Acquire()
			switch {
			case w.closedSF[fi]:
				if err == nil {
					res.Fail = evid.Failf("C24/Acquire-after-Close-succeeds", "%s: Acquire on a closed shared file returned a handle", step)
					return
				}
			case err != nil:
				if !willFail {
					res.Fail = evid.Failf("C24/Acquire-spurious-error", "%s: Acquire failed: %v", step, err)
					return
				}
			default:
				hh := held{fi, h}
				outstanding = append(outstanding, hh)
				pinned[fi]++
				if f := readable(hh, step+" fresh handle"); f != nil {
					res.Fail = f
					return
				}
			}
		case "release":
			if len(outstanding) == 0 {
				w.files[fi].Release() // unbalanced release must be harmless
				break
			}
			k := op.Pick % len(outstanding)
			hh := outstanding[k]
			if f := readable(hh, step+" before release"); f != nil {
				res.Fail = f
				return
			}
			outstanding = append(outstanding[:k], outstanding[k+1:]...)
			pinned[hh.file]--
			w.files[hh.file].Release()
		case "releasenow":
			if pinned[fi] > 0 {
				sawLatch = true
			}
			w.files[fi].ReleaseNow()
		case "close":
			w.closedSF[fi] = true
			w.files[fi].Close()
		case "advance":
			time.Sleep(grace + time.Millisecond)
			synctest.Wait()
			sawTimer = true
			// quiescent files without a governing pool must be closed after the grace period
			for i := range w.files {
				if pinned[i] == 0 && w.capacity <= 0 && w.openCount(i) != 0 {
					sig := "C24/idle-descriptor-not-closed-after-grace"
					if w.capacity == 0 {
						sig = "C24/idle-descriptor-never-closed-with-disabled-pool"
					}
					res.Fail = evid.Failf(sig, "%s: shared file %d idle for longer than the grace period still has an open descriptor (pool capacity %d)", step, i, w.capacity)
					return
				}
			}
		case "failopen":
			w.failNext[fi] = true
		}
		for _, hh := range outstanding {
			if f := readable(hh, step+" afterwards"); f != nil {
				res.Fail = f
				return
			}
		}
		if f := w.invariants(pinned, step); f != nil {
			res.Fail = f
			return
		}
	}
	// teardown: release everything, close everything: nothing may stay open
	for _, hh := range outstanding {
		w.files[hh.file].Release()
	}
	for i := range w.files {
		w.files[i].Close()
		w.closedSF[i] = true
		if _, err := w.files[i].Acquire(); err == nil {
			res.Fail = evid.Failf("C24/Acquire-after-Close-succeeds", "teardown: Acquire after Close succeeded on %d", i)
			return
		}
	}
	if f := w.invariants(make([]int, c.NFiles), "teardown"); f != nil {
		res.Fail = f
		return
	}
	if w.pool != nil {
		st := w.pool.Stats()
		if st.Evictions > 0 {
			res.Labels = append(res.Labels, "eviction")
		}
		if st.PinnedSkips > 0 {
			res.Labels = append(res.Labels, "pinned-skip")
			sawLatch = true
		}
	}
	if sawLatch {
		res.Labels = append(res.Labels, "latch")
	}
	if sawTimer {
		res.Labels = append(res.Labels, "timer")
	}
	res.NonTrivial = sawLatch || (sawTimer && c.PoolCap < 0 && len(c.Ops) >= 4)
	return
}

func checkSeq(t *testing.T) func(SeqCase) evid.Result {
	return func(c SeqCase) (res evid.Result) {
		// each history runs in its own synctest bubble so the grace timer is driven by fake time;
		// a panic inside the bubble would kill the binary, so it is recovered there.
		synctest.Test(t, func(*testing.T) {
			res = evid.Safe(checkSeqIn, c)
		})
		return res
	}
}

func TestC24_Seq(t *testing.T) {
	evid.Run(t, evid.Spec[SeqCase]{ID: "C24", Gen: genSeq, Check: checkSeq(t)})
}

// --- concurrent tier: cooperative scheduler at the verif Yield points ---------

// ConcCase is a set of worker scripts plus the schedule (which runnable worker
// continues at each scheduling point; index modulo the number of runnable workers).
type ConcCase struct {
	NFiles   int
	PoolCap  int // >=1, or -1 = no pool (grace timer never fires in this tier)
	Workers  [][]Op
	Schedule []int
}

var concKinds = []string{"acquire", "acquire", "acquire", "release", "release", "releasenow", "close"}

func genConc(t *rapid.T, _ *evid.Recorder) ConcCase {
	c := ConcCase{NFiles: rapid.IntRange(1, 3).Draw(t, "nfiles"), PoolCap: rapid.SampledFrom([]int{-1, 1, 1, 1, 2, 2}).Draw(t, "cap")}
	nw := rapid.IntRange(2, 3).Draw(t, "workers")
	for w := 0; w < nw; w++ {
		var ops []Op
		n := rapid.IntRange(1, 7).Draw(t, "nops")
		for i := 0; i < n; i++ {
			k := rapid.SampledFrom(concKinds).Draw(t, "kind")
			ops = append(ops, Op{Kind: k, File: rapid.IntRange(0, 2).Draw(t, "file"), Pick: rapid.IntRange(0, 3).Draw(t, "pick")})
		}
		c.Workers = append(c.Workers, ops)
	}
	c.Schedule = rapid.SliceOfN(rapid.IntRange(0, 5), 0, 80).Draw(t, "schedule")
	return c
}

type sched struct {
	turn   []chan struct{}
	back   chan int
	cur    int
	active bool
}

func (s *sched) yield() {
	if !s.active {
		return
	}
	w := s.cur
	s.back <- w
	<-s.turn[w]
}

func checkConc(c ConcCase) (res evid.Result) {
	capacity := c.PoolCap
	w := newWorld(c.NFiles, capacity)
	nw := len(c.Workers)
	s := &sched{turn: make([]chan struct{}, nw), back: make(chan int)}
	for i := range s.turn {
		s.turn[i] = make(chan struct{})
	}
	heldBy := make([][]held, nw)
	inflight := make([]int, c.NFiles)      // Acquire calls started but not returned
	closeCalled := make([]bool, c.NFiles)  // Close invoked (possibly still running)
	var wfail *evid.Failure                 // set by a worker (only one goroutine runs at a time)
	switches, overlapped := 0, false
	inCall := make([]bool, nw)
	evicting := make([]bool, nw)

	trace := os.Getenv("C24_TRACE") != ""
	verifhook.SetYield(func(pt string) {
		if trace && s.active {
			fmt.Printf("  w%d yields at %s\n", s.cur, pt)
		}
		if s.active && pt == "fdpool.Touch:evict" {
			// the victim has left the LRU but its ReleaseNow has not run yet: an eviction is in flight
			evicting[s.cur] = true
		}
		s.yield()
	})
	defer verifhook.SetYield(nil)

	readableAll := func(step string) *evid.Failure {
		for wi := range heldBy {
			for _, hh := range heldBy[wi] {
				var b [1]byte
				if _, err := hh.h.ReadAt(b[:], 0); err != nil && !closeCalled[hh.file] {
					return evid.Failf("C24/descriptor-closed-under-reader", "%s: worker %d's handle of shared file %d (acquired, not released) returns %v although Close was never called", step, wi, hh.file, err)
				}
			}
		}
		return nil
	}
	pinnedNow := func() []int {
		p := make([]int, c.NFiles)
		for wi := range heldBy {
			for _, hh := range heldBy[wi] {
				p[hh.file]++
			}
		}
		for i, n := range inflight {
			p[i] += n
		}
		return p
	}

	worker := func(wi int) {
		<-s.turn[wi]
		for oi, op := range c.Workers[wi] {
			fi := op.File % c.NFiles
			step := fmt.Sprintf("worker %d op %d %s(file %d)", wi, oi, op.Kind, fi)
			inCall[wi] = true
			if trace {
				fmt.Printf("  w%d starts %s\n", wi, step)
			}
			switch op.Kind {
			case "acquire":
				closedBefore := w.closedSF[fi] // Close had already returned
				inflight[fi]++
				h, err := w.files[fi].Acquire()
				inflight[fi]--
				evicting[wi] = false
				if err == nil {
					if closedBefore {
						wfail = evid.Failf("C24/Acquire-after-Close-succeeds", "%s: Acquire started after Close had returned still returned a handle", step)
					}
					heldBy[wi] = append(heldBy[wi], held{fi, h})
				} else if !closeCalled[fi] {
					wfail = evid.Failf("C24/Acquire-spurious-error", "%s: %v", step, err)
				}
			case "release":
				if len(heldBy[wi]) > 0 {
					k := op.Pick % len(heldBy[wi])
					hh := heldBy[wi][k]
					var b [1]byte
					if _, err := hh.h.ReadAt(b[:], 0); err != nil && !closeCalled[hh.file] {
						wfail = evid.Failf("C24/descriptor-closed-under-reader", "%s: handle of shared file %d returns %v just before its Release although Close was never called", step, hh.file, err)
					}
					// the handle counts as pinned until Release has returned
					w.files[hh.file].Release()
					heldBy[wi] = append(heldBy[wi][:k], heldBy[wi][k+1:]...)
				}
			case "releasenow":
				w.files[fi].ReleaseNow()
			case "close":
				closeCalled[fi] = true
				w.files[fi].Close()
				w.closedSF[fi] = true
			}
			inCall[wi] = false
			if wfail != nil {
				break
			}
			s.yield() // between operations
		}
		s.back <- -wi - 1
	}
	s.active = true
	for wi := 0; wi < nw; wi++ {
		go worker(wi)
	}
	alive := make([]int, nw)
	for i := range alive {
		alive[i] = i
	}
	pos := 0
	last := -1
	for len(alive) > 0 {
		k := 0
		if pos < len(c.Schedule) {
			k = c.Schedule[pos] % len(alive)
		}
		pos++
		wi := alive[k]
		if last != -1 && last != wi {
			switches++
			for _, b := range inCall {
				if b {
					overlapped = true
				}
			}
		}
		last = wi
		s.cur = wi
		s.turn[wi] <- struct{}{}
		v := <-s.back
		if v < 0 {
			alive = append(alive[:k], alive[k+1:]...)
		}
		step := fmt.Sprintf("after scheduling event %d (worker %d)", pos, wi)
		if trace {
			fmt.Printf("event %d w%d: open=%v pinned=%v pool=%+v\n", pos, wi, []int{w.openCount(0), w.openCount(1 % c.NFiles), w.openCount(2 % c.NFiles)}, pinnedNow(), w.pool)
		}
		if wfail == nil {
			wfail = readableAll(step)
		}
		if wfail == nil {
			// closedSF is only set once Close has returned, so invariants() checks open-after-Close soundly
			// The capacity bound is stated for quiescent evictions: while a Touch has removed its victim
			// from the LRU and is about to call ReleaseNow (lock released on purpose), that victim is still
			// open. Each in-flight eviction is therefore allowed one descriptor.
			nev := 0
			for _, e := range evicting {
				if e {
					nev++
				}
			}
			w.slack = nev
			wfail = w.invariants(pinnedNow(), step)
			w.slack = 0
		}
		if wfail != nil {
			// drain: let the remaining workers finish so no goroutine outlives the case
			s.active = false
			for _, a := range alive {
				select {
				case s.turn[a] <- struct{}{}:
				default:
				}
			}
			drain(s, alive, v)
			res.Fail = wfail
			return
		}
	}
	s.active = false
	for wi := range heldBy {
		for _, hh := range heldBy[wi] {
			w.files[hh.file].Release()
		}
	}
	for i := range w.files {
		w.files[i].Close()
		w.closedSF[i] = true
	}
	if f := w.invariants(make([]int, c.NFiles), "teardown"); f != nil {
		res.Fail = f
		return
	}
	res.Labels = append(res.Labels, fmt.Sprintf("cap=%d", capacity))
	if w.pool != nil {
		st := w.pool.Stats()
		if st.Evictions > 0 {
			res.Labels = append(res.Labels, "eviction")
		}
		if st.PinnedSkips > 0 {
			res.Labels = append(res.Labels, "pinned-skip")
		}
	}
	if overlapped {
		res.Labels = append(res.Labels, "preempted-inside-call")
	}
	res.NonTrivial = overlapped && switches >= 2
	return
}

// drain lets workers that are still parked run to completion without scheduling.
func drain(s *sched, alive []int, lastEvent int) {
	remaining := map[int]bool{}
	for _, a := range alive {
		remaining[a] = true
	}
	if lastEvent < 0 {
		delete(remaining, -lastEvent-1)
	}
	for len(remaining) > 0 {
		for a := range remaining {
			select {
			case s.turn[a] <- struct{}{}:
			default:
			}
		}
		select {
		case v := <-s.back:
			if v < 0 {
				delete(remaining, -v-1)
			}
		case <-time.After(10 * time.Millisecond):
		}
	}
}

func TestC24_Conc(t *testing.T) {
	evid.Run(t, evid.Spec[ConcCase]{ID: "C24", Gen: genConc, Check: checkConc})
}
