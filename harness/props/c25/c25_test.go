// Package c25: after a successful forced checkout / hard reset to commit C the
// tracked worktree content, the index and HEAD match C exactly (git status
// shows no tracked change) and files that were untracked and not in C keep
// their bytes.
package c25

import (
	"fmt"
	"os"
	"sort"
	"strings"
	"testing"

	git "github.com/go-git/go-git/v6"
	"github.com/go-git/go-git/v6/plumbing"
	"pgregory.net/rapid"

	"verif/harness/lib/evid"
	"verif/harness/lib/gitx"
	"verif/harness/lib/wtgen"
)

// Case is one (current commit A, target commit B, worktree dirt, operation).
type Case struct {
	A, B     wtgen.Tree
	GitmodA  bool // A carries a .gitmodules listing its gitlinks
	GitmodB  bool
	Dirt     []wtgen.Dirt
	Op       string // checkout-branch | checkout-hash | checkout-create | reset-hard
	Detached bool   // HEAD is detached at A before the operation
}

var ops = []string{"checkout-branch", "checkout-hash", "checkout-create", "reset-hard"}

// rec is the recorder of the running rapid search (nil when replaying): used
// only to look past confirmed known findings inside one case.
var rec *evid.Recorder

func gen(t *rapid.T, r *evid.Recorder) Case {
	rec = r
	o := wtgen.GenOpts{NoSub: rapid.IntRange(0, 2).Draw(t, "nosub") > 0}
	c := Case{}
	c.A = wtgen.GenTree(t, o)
	if rapid.IntRange(0, 5).Draw(t, "independent") == 0 {
		c.B = wtgen.GenTree(t, o)
	} else {
		c.B = wtgen.Mutate(t, c.A, o)
	}
	c.GitmodA = rapid.Bool().Draw(t, "gitmodA")
	c.GitmodB = rapid.Bool().Draw(t, "gitmodB")
	pi := wtgen.Diff(c.A, c.B)
	var focus []string
	for _, p := range wtgen.SortedKeys(pi.Changed) { // changed paths and, less often, a name below them
		focus = append(focus, p, p, p, p, p+"/u")
	}
	c.Dirt = wtgen.GenDirt(t, wtgen.DirtPaths(c.A, c.B), focus, 0, 5, nil)
	c.Op = rapid.SampledFrom(ops).Draw(t, "op")
	c.Detached = rapid.IntRange(0, 3).Draw(t, "detached") == 0
	return c
}

func kindAt(t wtgen.Tree, p string) string {
	if e, ok := t.Get(p); ok {
		return e.Kind
	}
	if t.IsDir(p) {
		return "dir"
	}
	return "none"
}

func errClass(err error) string {
	s := err.Error()
	for _, k := range []string{"is a directory", "not a directory", "directory not empty", "file exists", "submodule not found", "invalid path", "no such file"} {
		if strings.Contains(s, k) {
			return strings.ReplaceAll(k, " ", "-")
		}
	}
	return "other"
}

func check(c Case) evid.Result {
	res := evid.Result{}
	valid := false
	for _, o := range ops {
		valid = valid || o == c.Op
	}
	if !valid || !c.A.Valid() || !c.B.Valid() {
		res.Discard = true
		return res
	}
	ca := wtgen.Commit{Branch: "main", Tree: c.A.Sorted(), Parent: -1, Gitmodules: c.GitmodA}
	cb := wtgen.Commit{Branch: "other", Tree: c.B.Sorted(), Parent: 0, Gitmodules: c.GitmodB}
	A, B := ca.Effective(), cb.Effective()

	top := wtgen.Scratch("c25-")
	defer os.RemoveAll(top)
	dir := top + "/r"
	ids := wtgen.Build(dir, []wtgen.Commit{ca, cb})
	target := ids[1]
	wtgen.Materialise(dir)
	if c.Detached {
		wtgen.Detach(dir, ids[0])
	}
	applied := wtgen.ApplyDirt(dir, c.Dirt)

	// ---- state before
	pre := wtgen.Snapshot(dir)
	_, stBefore, serr := wtgen.TryStatusHead(dir)
	if serr != "" {
		// the dirt produced a state git status refuses to describe (a symlink
		// at a gitlink path): "untracked before" is undefined, outside the domain
		res.Discard = true
		return res
	}
	var untracked, conflicting []string
	for _, u := range wtgen.Untracked(stBefore) {
		if B.Has(u) {
			continue // "in C": may be overwritten
		}
		// A path that cannot exist next to the materialised target (it is a
		// leaf where C needs a directory, or lies below a file/symlink of C) is
		// a true conflict: keeping it and materialising C exclude each other, so
		// no verdict is attached to it (git's own outcome is recorded as a label
		// only: e.g. with an untracked symlink e -> "." and an unchanged gitlink
		// e/a, git checkout -f is fooled into keeping the symlink, while go-git
		// replaces it by the directory C requires). A path below a *gitlink* of C
		// can coexist with the gitlink's directory and is judged like any other.
		anc, _ := B.Get(B.LeafAncestor(u))
		if B.IsDir(u) || (B.LeafAncestor(u) != "" && anc.Kind != wtgen.Sub) {
			conflicting = append(conflicting, u)
		} else {
			untracked = append(untracked, u)
		}
	}
	dirty := len(wtgen.Tracked(stBefore)) > 0 || len(wtgen.Untracked(stBefore)) > 0

	pi := wtgen.Diff(A, B)
	res.NonTrivial = (pi.TypeSwap+pi.ModeChange+pi.DirFileSwap) > 0 && dirty
	res.Labels = append(res.Labels, "op:"+c.Op)
	lab := func(cond bool, l string) {
		if cond {
			res.Labels = append(res.Labels, l)
		}
	}
	lab(pi.TypeSwap > 0, "pair:type-swap")
	lab(pi.ModeChange > 0, "pair:mode-change")
	lab(pi.DirFileSwap > 0, "pair:dir-file-swap")
	lab(pi.CaseVariant > 0, "pair:case-variant")
	lab(pi.Sub > 0, "pair:gitlink")
	lab(pi.Added > 0, "pair:add")
	lab(pi.Deleted > 0, "pair:delete")
	lab(pi.Modified > 0, "pair:modify")
	lab(len(pi.Changed) == 0, "pair:identical")
	lab(len(wtgen.Tracked(stBefore)) > 0, "pre:tracked-dirty")
	lab(len(untracked) > 0, "pre:untracked-kept-class")
	lab(len(conflicting) > 0, "pre:untracked-DF-conflict-class")
	lab(applied == 0, "pre:clean")
	lab(c.Detached, "pre:detached")
	staged := false
	untrackedInB := false
	for _, e := range stBefore {
		if e.Type == "1" && e.XY[0] != '.' {
			staged = true
		}
		if e.Type == "?" && B.Has(e.Path) {
			untrackedInB = true
		}
	}
	lab(staged, "pre:staged-change")
	lab(untrackedInB, "pre:untracked-at-target-path")

	// ---- twin: which untracked files does git itself keep? (always all of the
	// non-conflicting ones; the D/F-conflicting ones depend on the case)
	twinKeeps := map[string]bool{}
	var twinPost map[string]wtgen.State // worktree of the git twin after the same operation (nil: git refused)
	{
		tw := top + "/twin"
		wtgen.CopyDir(dir, tw)
		var code int
		switch c.Op {
		case "checkout-branch":
			_, _, code = gitx.Try(tw, "checkout", "-q", "-f", "other")
		case "checkout-hash":
			_, _, code = gitx.Try(tw, "checkout", "-q", "-f", target)
		case "checkout-create":
			_, _, code = gitx.Try(tw, "checkout", "-q", "-f", "-b", "new", target)
		case "reset-hard":
			_, _, code = gitx.Try(tw, "reset", "-q", "--hard", target)
		}
		if code == 0 {
			post := wtgen.Snapshot(tw)
			twinPost = post
			for _, u := range append(append([]string(nil), conflicting...), untracked...) {
				if s, ok := post[u]; ok && s == pre[u] {
					twinKeeps[u] = true
				}
			}
		}
		lab(code != 0, "twin:git-refuses")
		gitLoses := false
		for _, u := range untracked {
			gitLoses = gitLoses || !twinKeeps[u]
		}
		lab(gitLoses && code == 0, "twin:git-loses-nonconflicting-untracked")
		for _, u := range conflicting {
			if twinKeeps[u] {
				lab(true, "twin:git-keeps-conflicting-untracked")
				break
			}
		}
	}

	// ---- operation under test
	r, err := git.PlainOpen(dir)
	if err != nil {
		panic("INFRA: PlainOpen: " + err.Error())
	}
	w, err := r.Worktree()
	if err != nil {
		panic("INFRA: Worktree: " + err.Error())
	}
	th := plumbing.NewHash(target)
	switch c.Op {
	case "checkout-branch":
		err = w.Checkout(&git.CheckoutOptions{Branch: "refs/heads/other", Force: true})
	case "checkout-hash":
		err = w.Checkout(&git.CheckoutOptions{Hash: th, Force: true})
	case "checkout-create":
		err = w.Checkout(&git.CheckoutOptions{Branch: "refs/heads/new", Hash: th, Create: true, Force: true})
	case "reset-hard":
		err = w.Reset(&git.ResetOptions{Mode: git.HardReset, Commit: th})
	}
	if err != nil {
		// outside C25 (the statement is about successful calls); C29 looks at refusals
		if os.Getenv("VERIF_DEBUG") != "" {
			fmt.Fprintf(os.Stderr, "DEBUG op=%s err=%v before=%s\n", c.Op, err, fmtStatus(stBefore))
		}
		res.Labels = append(res.Labels, "result:error", "error:"+errClass(err))
		res.NonTrivial = false
		return res
	}
	res.Labels = append(res.Labels, "result:ok")

	// ---- oracle (all failures of the case are collected; the first one whose
	// signature is not a confirmed known finding is reported)
	var fails []*evid.Failure
	entry := "Checkout-force"
	if c.Op == "reset-hard" {
		entry = "Reset-hard"
	}
	fail := func(aspect, format string, a ...any) {
		fails = append(fails, evid.Failf("C25/"+entry+"/"+aspect, "%s; op=%s status-before=%s", fmt.Sprintf(format, a...), c.Op, fmtStatus(stBefore)))
	}
	shape := func(p string) string { return transition(A, B, p) }

	post := wtgen.Snapshot(dir)
	// model: every leaf of C is materialised with its bytes, exec bit, link target, gitlink directory
	modelBad := map[string]bool{}
	for _, e := range B {
		s, ok := post[e.Path]
		if !wtgen.Matches(e, s, ok) {
			modelBad[e.Path] = true
			sh := shape(e.Path)
			if ps, was := pre[e.Path]; e.Kind == wtgen.Sub && was && ps.Kind != wtgen.Dir && ok && s == ps {
				// a file or symlink sat at the gitlink's path before the call and is still there
				sh = "non-directory-left-at-gitlink-path"
			}
			fail("worktree-differs-from-target:"+sh, "path %q: target has %s %q, worktree has present=%v kind=%s data=%.40q", e.Path, e.Kind, clip(e.Data), ok, s.Kind, s.Data)
		}
	}
	// git's view: HEAD, no tracked change, index == C
	head, stAfter, serr := wtgen.TryStatusHead(dir)
	if serr != "" {
		// git status refuses a symlink at a gitlink path; when the model comparison
		// has already reported that path this is the same failure, not a new one
		secondary := false
		for p := range modelBad {
			if e, _ := B.Get(p); e.Kind == wtgen.Sub && post[p].Kind == wtgen.Link {
				secondary = true
			}
		}
		if !secondary {
			fail("git-status-fails-on-result", "git status on the result: %s", serr)
		}
		if h := strings.TrimSpace(gitx.Must(dir, "rev-parse", "HEAD")); h != target {
			fail("HEAD-not-target", "HEAD=%s target=%s", h, target)
		}
	} else if head != target {
		fail("HEAD-not-target", "HEAD=%s target=%s", head, target)
	}
	for _, e := range wtgen.Tracked(stAfter) {
		if modelBad[e.Path] {
			continue // already reported by the model comparison
		}
		fail("status-reports-tracked-change:"+e.XY+":"+shape(e.Path), "git status after: %s", fmtStatus(wtgen.Tracked(stAfter)))
	}
	// (git diff-index --cached HEAD being empty is implied by HEAD == target and
	// ls-files -s == ls-tree -r target, checked next; not run separately to
	// save a subprocess)
	idx, want := wtgen.LsFiles(dir), wtgen.LsTree(dir, target)
	for _, p := range wtgen.SortedKeys(want) {
		if idx[p] != want[p] {
			fail("index-differs-from-target:"+shape(p), "path %q: index has %q, target tree has %q", p, idx[p], want[p])
		}
	}
	for _, p := range wtgen.SortedKeys(idx) {
		if _, ok := want[p]; !ok {
			fail("index-has-extra-entry:"+shape(p), "index has %q %q which is not in the target tree", p, idx[p])
		}
	}
	// untracked files not in C keep their bytes (judged only where git itself keeps them)
	for _, u := range untracked {
		if !twinKeeps[u] {
			continue
		}
		if s, ok := post[u]; !ok || s != pre[u] {
			fail("untracked-file-lost:"+untrackedClass(u, A, B, stBefore), "untracked %q (%s) before, git keeps it; after go-git: present=%v kind=%s data=%.40q", u, pre[u].Kind, ok, s.Kind, s.Data)
		}
	}
	// formerly tracked paths that are not in C must be gone: a file that is neither in the target tree
	// nor was untracked before, still exists after go-git's operation, and does NOT exist after the
	// same operation by git on the twin, is a stale leftover ("match C exactly")
	if twinPost != nil {
		wasUntracked := map[string]bool{}
		for _, u := range wtgen.Untracked(stBefore) {
			wasUntracked[u] = true
		}
		for _, q := range wtgen.SortedKeys(post) {
			if _, inC := want[q]; inC || wasUntracked[q] {
				continue
			}
			if _, gitHas := twinPost[q]; gitHas {
				continue
			}
			if _, existed := pre[q]; !existed {
				continue // created by the operation itself: judged by the target comparison above
			}
			below := false
			for u := range wasUntracked {
				if strings.HasPrefix(q, u+"/") {
					below = true // inside an untracked directory git status folds into one entry
				}
			}
			if below {
				continue
			}
			cls := "not-in-HEAD"
			if A.Has(q) {
				cls = "tracked-in-HEAD"
			}
			fail("stale-file-left-behind:"+cls, "path %q (%s) is not in the target, was not untracked before, is removed by git's own %s on the twin, but still exists after go-git's", q, pre[q].Kind, c.Op)
		}
	}
	if len(fails) > 0 {
		res.Fail = fails[0]
		for _, f := range fails {
			if rec == nil || !rec.IsKnown(f.Sig) {
				res.Fail = f
				break
			}
		}
		return res
	}
	// informational: stale leftovers of formerly tracked paths (now untracked) — not part of the statement
	stale := false
	preUn := map[string]bool{}
	for _, u := range wtgen.Untracked(stBefore) {
		preUn[u] = true
	}
	for _, u := range wtgen.Untracked(stAfter) {
		if !preUn[u] {
			stale = true
		}
	}
	lab(stale, "post:new-untracked-leftover")
	return res
}

// shapeKind folds exec into file: the signature names the type transition.
func shapeKind(k string) string {
	if k == wtgen.Exec {
		return wtgen.File
	}
	return k
}

// transition names the type transition of path p between the two commits.
// File and symlink are folded into "leaf" when the target side is a gitlink
// or absent (the way the old leaf is disposed of does not depend on which).
func transition(A, B wtgen.Tree, p string) string {
	a, b := shapeKind(kindAt(A, p)), shapeKind(kindAt(B, p))
	if (b == wtgen.Sub || b == "none") && (a == wtgen.File || a == wtgen.Link) {
		a = "leaf"
	}
	return a + "->" + b
}

// untrackedClass names how a lost untracked path relates to the commits:
//
//	in-HEAD-removed-from-index  the path is a leaf of the current commit whose index entry was dropped (git rm --cached)
//	below-tracked-leaf          an ancestor of the path is a leaf of the current commit (a tracked file replaced by a directory)
//	below-gitlink-of-target     the path lies below a gitlink of the target
//	plain                       none of these
func untrackedClass(u string, A, B wtgen.Tree, st []wtgen.StatusEntry) string {
	switch {
	case A.Has(u):
		return "in-HEAD-removed-from-index"
	case A.LeafAncestor(u) != "":
		if k := kindAt(B, A.LeafAncestor(u)); k == "none" || k == "dir" {
			return "below-tracked-leaf-deleted-by-target"
		}
		return "below-tracked-leaf-" + transition(A, B, A.LeafAncestor(u))
	case B.DFRelated(u):
		return "below-gitlink-of-target"
	}
	for _, e := range st {
		if e.Type == "1" && (e.Path == u || strings.HasPrefix(u, e.Path+"/")) {
			return "at-or-below-staged-path"
		}
	}
	return "plain"
}

func clip(s string) string {
	if len(s) > 40 {
		return s[:40] + "…"
	}
	return s
}

func fmtStatus(es []wtgen.StatusEntry) string {
	var o []string
	for _, e := range es {
		if e.Type == "?" || e.Type == "!" {
			o = append(o, e.Type+" "+e.Path)
		} else {
			o = append(o, e.XY+" "+e.Path)
		}
	}
	sort.Strings(o)
	return "[" + strings.Join(o, ", ") + "]"
}

func TestC25(t *testing.T) {
	evid.Run(t, evid.Spec[Case]{ID: "C25", Gen: gen, Check: check})
}
