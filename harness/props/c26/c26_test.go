// Package c26: worktree operations never create, modify, delete or read
// through a path outside the worktree, inside the repository's .git directory
// or inside a submodule's git directory — for hostile raw trees, hostile
// .gitmodules, core.protectNTFS/HFS settings and planted symlinks.
package c26

import (
	"bytes"
	"crypto/sha256"
	"fmt"
	"os"
	"path/filepath"
	"sort"
	"strings"
	"testing"
	"time"
	"unicode/utf8"

	"github.com/go-git/go-billy/v6"
	"github.com/go-git/go-billy/v6/osfs"
	git "github.com/go-git/go-git/v6"
	"github.com/go-git/go-git/v6/plumbing"
	"github.com/go-git/go-git/v6/plumbing/cache"
	"github.com/go-git/go-git/v6/plumbing/object"
	"github.com/go-git/go-git/v6/storage/filesystem"
	"pgregory.net/rapid"

	"verif/harness/lib/evid"
	"verif/harness/lib/wtgen"
)

// RawEntry is one entry of a raw (unvalidated) tree object.
type RawEntry struct {
	Name string     `json:"n"`
	Kind string     `json:"k"`           // f x l d s
	Data string     `json:"d,omitempty"` // payload id / link target token / .gitmodules spec
	Kids []RawEntry `json:"c,omitempty"`
}

// Op is one step of a case.
type Op struct {
	K string `json:"k"`
	N int    `json:"n,omitempty"`
	A string `json:"a,omitempty"`
	B string `json:"b,omitempty"`
	F bool   `json:"f,omitempty"`
}

// Case is a hostile repository plus an operation list.
type Case struct {
	C1, C2      []RawEntry
	ProtectNTFS string // "", "true", "false"
	ProtectHFS  string
	Base        string // bound (recorder over osfs BoundOS), naive (recorder over a non-containing fs), plain (PlainOpen, sentinels only)
	Ops         []Op
}

const zwnj = "‌"

var hostileNames = []string{
	".git", ".GIT", ".Git", ".git ", ".git.", ".git. .", "git~1", "GIT~1", ".git::$INDEX_ALLOCATION",
	".g" + zwnj + "it", ".gi‍t", "‎.git", ".GI" + zwnj + "T",
	"..", ".", "a", "b", "link", "sub", ".gitmodules", ".gitmodules ", ".GITMODULES", "gitmod~1", ".gitmodules" + zwnj,
	"config", "hooks", "HEAD", "modules", "pre-commit", "pwn", "keep",
	"../OUTSIDE-DIR/pwn", "../OUTSIDE", ".git/hooks/pre-commit", ".git/config", "a/../../OUTSIDE-DIR/pwn",
	"a\\..\\..\\OUTSIDE-DIR\\pwn", ".git\\hooks\\pre-commit", "link/pwn", "sub/.git/config", "a/.git", "C:", "aux", "a\x01b",
}

var linkTargets = []string{
	"../OUTSIDE-DIR", "../OUTSIDE", ".git", ".git/hooks", ".git/config", "@ABS/OUTSIDE-DIR", "@ABS/OUTSIDE", "@ABS/wt/.git",
	"a", ".", "..", "../..", "sub/.git", ".git/modules", "../OUTSIDE-DIR/keep", "link", "../wt/.git",
}

var modNames = []string{"sub", "../../OUTSIDE-DIR/m", "..", ".git", "a/../../x", "sub/.git", "m\\..\\..\\x", "../../../OUTSIDE-DIR/m", "hooks", "../hooks"}
var modPaths = []string{"sub", "link", ".git", "../OUTSIDE-DIR/s", "a/.git", "link/sub", ".git/modules/x", "a", "sub/.git", ".GIT"}

// argument paths handed to Add/Remove/Move/Restore by the "user"
var argPaths = []string{
	"a", "b", "link", "sub", "link/pwn", "link/keep", "link/config", "link/hooks/pre-commit", "../OUTSIDE", "../OUTSIDE-DIR/keep",
	"a/../../OUTSIDE", ".git/config", ".git/SENTINEL", ".GIT/config", "sub/.git/config", "a/.git/config", "a/pwn", "a/keep",
	".", "", "/", "@ABS/OUTSIDE", "@ABS/OUTSIDE-DIR/keep", "config", "hooks/pre-commit", ".gitmodules", "a/link/keep", "link/../OUTSIDE",
}

var plantPaths = []string{"a", "b", "link", "sub", "a/link", "hooks", "modules", "config", ".gitmodules", "sub/.git", "a/b", "pwn", ".GIT", "git~1", "sub/x"}

// names that pass every path validation: with them the operation is not
// refused up front, so what protects the outside are the symlink guards
var validNames = []string{"a", "b", "link", "sub", "config", "hooks", "HEAD", "modules", "pre-commit", "pwn", "keep", ".gitmodules", "objects", "x"}

// level 0: valid names only; 1: valid names and at most one hostile name per
// directory; 2: free mix.
func genName(t *rapid.T, level int, usedHostile *bool) string {
	switch {
	case level == 0, level == 1 && *usedHostile:
		return rapid.SampledFrom(validNames).Draw(t, "vname")
	case level == 1:
		if rapid.IntRange(0, 3).Draw(t, "hostile") == 0 {
			*usedHostile = true
			return genHostileName(t)
		}
		return rapid.SampledFrom(validNames).Draw(t, "vname")
	}
	return genHostileName(t)
}

// one hostile name: from the table, or (one draw in three) a generated
// disguise of .git / .gitmodules
func genHostileName(t *rapid.T) string {
	if rapid.IntRange(0, 2).Draw(t, "generated") == 0 {
		return genDisguise(t)
	}
	return rapid.SampledFrom(hostileNames).Draw(t, "name")
}

var hfsIgnorable = []rune{0x200c, 0x200d, 0x200e, 0x200f, 0x202a, 0x202b, 0x202c, 0x202d, 0x202e,
	0x206a, 0x206b, 0x206c, 0x206d, 0x206e, 0x206f, 0xfeff}

// genDisguise draws a name that some filesystem resolves to ".git" (mostly) or
// ".gitmodules": letters in any case, and either
//   - hfs: a run of HFS+-ignorable code points in the gaps of the name (before
//     the dot, between any two characters, after the last): in one gap, in a
//     random subset of the gaps, or in every gap; each run 1..4 code points long,
//     each code point drawn from the whole ignorable set; or
//   - ntfs: the name or its 8.3 short name followed by a run of 1..4 trailing
//     dots/spaces, an alternate data stream, or both; or
//   - case: nothing but the case variation.
func genDisguise(t *rapid.T) string {
	needle := rapid.SampledFrom([]string{".git", ".git", ".git", ".git", ".gitmodules"}).Draw(t, "needle")
	kind := rapid.SampledFrom([]string{"hfs", "hfs", "hfs", "ntfs", "ntfs", "case"}).Draw(t, "disguise")
	base := []rune(needle)
	if kind == "ntfs" && rapid.IntRange(0, 3).Draw(t, "shortname") == 0 {
		base = []rune(map[string]string{".git": "git~1", ".gitmodules": "gitmod~" + rapid.SampledFrom([]string{"1", "2", "4"}).Draw(t, "shortno")}[needle])
	}
	switch rapid.SampledFrom([]string{"lower", "lower", "upper", "mixed", "mixed"}).Draw(t, "case") {
	case "upper":
		base = []rune(strings.ToUpper(string(base)))
	case "mixed":
		for i, r := range base {
			if r >= 'a' && r <= 'z' && rapid.Bool().Draw(t, "up") {
				base[i] = r - 'a' + 'A'
			}
		}
	}
	switch kind {
	case "hfs":
		gaps := len(base) + 1
		runs := make([]int, gaps)
		runLen := rapid.SampledFrom([]int{1, 1, 2, 2, 3, 4})
		switch rapid.SampledFrom([]string{"one-gap", "one-gap", "some-gaps", "some-gaps", "every-gap"}).Draw(t, "gaps") {
		case "one-gap":
			runs[rapid.IntRange(0, gaps-1).Draw(t, "gap")] = runLen.Draw(t, "run")
		case "some-gaps":
			for i := range runs {
				if rapid.Bool().Draw(t, "fill") {
					runs[i] = runLen.Draw(t, "run")
				}
			}
			if !slicesAny(runs) {
				runs[rapid.IntRange(0, gaps-1).Draw(t, "gap")] = runLen.Draw(t, "run")
			}
		default:
			for i := range runs {
				runs[i] = runLen.Draw(t, "run")
			}
		}
		var sb strings.Builder
		for i := 0; i < gaps; i++ {
			for k := 0; k < runs[i]; k++ {
				sb.WriteRune(rapid.SampledFrom(hfsIgnorable).Draw(t, "ignorable"))
			}
			if i < len(base) {
				sb.WriteRune(base[i])
			}
		}
		return sb.String()
	case "ntfs":
		name := string(base)
		tail := rapid.SampledFrom([]string{"run", "run", "run", "stream", "run+stream"}).Draw(t, "tail")
		if tail != "stream" {
			n := rapid.IntRange(1, 4).Draw(t, "run")
			for k := 0; k < n; k++ {
				name += rapid.SampledFrom([]string{".", " "}).Draw(t, "trailing")
			}
		}
		if tail != "run" {
			name += rapid.SampledFrom([]string{"::$INDEX_ALLOCATION", ":x", ":$DATA", ":"}).Draw(t, "stream")
		}
		return name
	}
	return string(base)
}

func slicesAny(l []int) bool {
	for _, v := range l {
		if v != 0 {
			return true
		}
	}
	return false
}

// foldName is a name as a case-insensitive volume that drops HFS+-ignorable
// code points sees it.
func foldName(n string) string {
	var sb strings.Builder
	for _, r := range n {
		if !isIgnorableHFS(r) {
			sb.WriteRune(r)
		}
	}
	return strings.ToLower(sb.String())
}

// disguiseShapes labels the generated classes of .git equivalents among the
// components of a tree (any depth).
func disguiseShapes(es []RawEntry, out map[string]bool) {
	for _, e := range es {
		for _, c := range strings.FieldsFunc(e.Name, func(r rune) bool { return r == '/' || r == '\\' }) {
			switch {
			case c == ".git":
			case strings.EqualFold(c, ".git"):
				out["tree:dotgit-case-variant"] = true
			case hfsEquivalentDotGit(c):
				// runs of ignorables; inner = between the dot and the last letter
				rs := []rune(c)
				longest, inner := 0, 0
				for i := 0; i < len(rs); {
					if !isIgnorableHFS(rs[i]) {
						i++
						continue
					}
					j := i
					for j < len(rs) && isIgnorableHFS(rs[j]) {
						j++
					}
					longest = max(longest, j-i)
					if i > 0 && j < len(rs) {
						inner = max(inner, j-i)
					}
					i = j
				}
				if longest >= 2 {
					out["tree:hfs-dotgit-run>=2"] = true
				} else {
					out["tree:hfs-dotgit-single-ignorables"] = true
				}
				if inner >= 2 {
					out["tree:hfs-dotgit-inner-run>=2"] = true
				}
				if strings.ToLower(c) != c {
					out["tree:hfs-dotgit-with-case-variant"] = true
				}
			case ntfsEquivalentDotGit(c):
				l := strings.ToLower(c)
				rest := strings.TrimPrefix(strings.TrimPrefix(l, ".git"), "git~1")
				if i := strings.IndexByte(rest, ':'); i >= 0 {
					rest = rest[:i]
					out["tree:ntfs-dotgit-stream"] = true
				}
				switch {
				case len(rest) >= 2:
					out["tree:ntfs-dotgit-trailing-run>=2"] = true
				case len(rest) == 1:
					out["tree:ntfs-dotgit-trailing-single"] = true
				}
				if strings.HasPrefix(l, "git~1") {
					out["tree:ntfs-dotgit-shortname"] = true
				}
			}
		}
		disguiseShapes(e.Kids, out)
	}
}

func genEntry(t *rapid.T, depth, level int, name string) RawEntry {
	e := RawEntry{Name: name}
	k := rapid.SampledFrom([]string{"f", "f", "x", "l", "l", "d", "d", "s"}).Draw(t, "kind")
	if k == "d" && depth <= 0 {
		k = "f"
	}
	e.Kind = k
	switch k {
	case "f", "x":
		e.Data = rapid.SampledFrom([]string{"P1", "P2", "P3"}).Draw(t, "payload")
		if strings.Contains(foldName(name), "gitmod") && rapid.Bool().Draw(t, "modspec") {
			e.Data = "@MOD:" + rapid.SampledFrom(modNames).Draw(t, "modname") + "\x1f" + rapid.SampledFrom(modPaths).Draw(t, "modpath")
		}
	case "l":
		e.Data = rapid.SampledFrom(linkTargets).Draw(t, "target")
	case "s":
		e.Data = "@SUBCOMMIT"
	case "d":
		e.Kids = genTree(t, depth-1, level)
	}
	return e
}

func genTree(t *rapid.T, depth, level int) []RawEntry {
	n := rapid.IntRange(1, 4).Draw(t, "nent")
	var es []RawEntry
	seen := map[string]bool{}
	used := false
	for i := 0; i < n; i++ {
		nm := genName(t, level, &used)
		if seen[nm] {
			continue
		}
		seen[nm] = true
		es = append(es, genEntry(t, depth, level, nm))
	}
	return es
}

// coherent submodule: gitlink + .gitmodules naming it (name/path possibly hostile)
func addSubmodule(t *rapid.T, es []RawEntry) []RawEntry {
	name := rapid.SampledFrom(modNames).Draw(t, "modname")
	path := rapid.SampledFrom([]string{"sub", "sub", "link", "a"}).Draw(t, "modpath")
	var out []RawEntry
	for _, e := range es {
		if e.Name != path && e.Name != ".gitmodules" {
			out = append(out, e)
		}
	}
	out = append(out, RawEntry{Name: path, Kind: "s", Data: "@SUBCOMMIT"})
	gm := RawEntry{Name: ".gitmodules", Kind: "f", Data: "@MOD:" + name + "\x1f" + path}
	if rapid.IntRange(0, 5).Draw(t, "gmlink") == 0 {
		gm = RawEntry{Name: ".gitmodules", Kind: "l", Data: rapid.SampledFrom(linkTargets).Draw(t, "target")}
	}
	return append(out, gm)
}

// mutate derives the second tree: symlink<->directory swaps at the same name,
// regenerated entries, additions.
func mutate(t *rapid.T, a []RawEntry, depth, level int) []RawEntry {
	b := append([]RawEntry(nil), a...)
	n := rapid.IntRange(1, 3).Draw(t, "nmut")
	for i := 0; i < n; i++ {
		switch rapid.SampledFrom([]string{"swap", "swap", "regen", "add", "del", "descend"}).Draw(t, "mut") {
		case "swap":
			if len(b) == 0 {
				continue
			}
			j := rapid.IntRange(0, len(b)-1).Draw(t, "which")
			e := b[j]
			switch e.Kind {
			case "l":
				e.Kind, e.Data = "d", ""
				e.Kids = nil
				for _, nm := range []string{"pwn", "config", "keep", "hooks", "pre-commit", "HEAD"} {
					if rapid.Bool().Draw(t, "kid") {
						k := RawEntry{Name: nm, Kind: "f", Data: "P2"}
						if nm == "hooks" {
							k = RawEntry{Name: nm, Kind: "d", Kids: []RawEntry{{Name: "pre-commit", Kind: "x", Data: "P3"}}}
						}
						e.Kids = append(e.Kids, k)
					}
				}
				if len(e.Kids) == 0 {
					e.Kids = []RawEntry{{Name: "pwn", Kind: "f", Data: "P2"}}
				}
			default:
				e.Kind, e.Kids = "l", nil
				e.Data = rapid.SampledFrom(linkTargets).Draw(t, "target")
			}
			b[j] = e
		case "regen":
			if len(b) == 0 {
				continue
			}
			j := rapid.IntRange(0, len(b)-1).Draw(t, "which")
			b[j] = genEntry(t, depth, level, b[j].Name)
		case "add":
			used := false
			nm := genName(t, level, &used)
			dup := false
			for _, e := range b {
				dup = dup || e.Name == nm
			}
			if !dup {
				b = append(b, genEntry(t, depth, level, nm))
			}
		case "del":
			if len(b) > 1 {
				j := rapid.IntRange(0, len(b)-1).Draw(t, "which")
				b = append(b[:j:j], b[j+1:]...)
			}
		case "descend":
			for j := range b {
				if b[j].Kind == "d" && depth > 0 {
					b[j].Kids = mutate(t, b[j].Kids, depth-1, level)
					break
				}
			}
		}
	}
	return b
}

// treePaths lists the directory and leaf paths of a raw tree (joined names).
func treePaths(es []RawEntry, prefix string, dirs, leaves *[]string) {
	for _, e := range es {
		p := e.Name
		if prefix != "" {
			p = prefix + "/" + e.Name
		}
		if e.Kind == "d" {
			*dirs = append(*dirs, p)
			treePaths(e.Kids, p, dirs, leaves)
		} else {
			*leaves = append(*leaves, p)
		}
	}
}

var belowLink = []string{"keep", "pwn", "config", "SENTINEL", "hooks/pre-commit", "HEAD", "x"}

// genOps draws the operation list. Plant locations are mostly the directory
// paths of the two trees (a symlink planted where a commit has a directory is
// the shape the leading-symlink guards exist for); path arguments are mostly
// below a planted symlink or a path of the trees.
func genOps(t *rapid.T, dirs, leaves []string) []Op {
	n := rapid.IntRange(2, 8).Draw(t, "nops")
	var ops []Op
	var plantedAt []string
	arg := func(label string) string {
		switch k := rapid.IntRange(0, 5).Draw(t, label+"-src"); {
		case k <= 1 && len(plantedAt) > 0:
			return rapid.SampledFrom(plantedAt).Draw(t, label+"-planted") + "/" + rapid.SampledFrom(belowLink).Draw(t, label+"-below")
		case k == 2 && len(leaves) > 0:
			return rapid.SampledFrom(leaves).Draw(t, label+"-leaf")
		case k == 3 && len(dirs) > 0:
			return rapid.SampledFrom(dirs).Draw(t, label+"-dir") + "/" + rapid.SampledFrom(belowLink).Draw(t, label+"-below")
		}
		return rapid.SampledFrom(argPaths).Draw(t, label)
	}
	for i := 0; i < n; i++ {
		k := rapid.SampledFrom([]string{"reset", "reset", "reset", "reset", "reset", "checkout", "checkout", "checkout", "plant", "plant", "plant", "plant",
			"restore", "clean", "add", "add-all", "add-glob", "remove", "move", "sub-init", "sub-update", "pull", "cherry-pick", "status"}).Draw(t, "op")
		o := Op{K: k}
		switch k {
		case "reset":
			o.N = rapid.IntRange(0, 1).Draw(t, "commit")
			o.A = rapid.SampledFrom([]string{"hard", "hard", "hard", "merge", "mixed", "keep"}).Draw(t, "mode")
		case "checkout":
			o.N = rapid.IntRange(0, 1).Draw(t, "commit")
			o.F = rapid.Bool().Draw(t, "force")
			o.A = rapid.SampledFrom([]string{"hash", "branch"}).Draw(t, "by")
		case "plant":
			if len(dirs) > 0 && rapid.IntRange(0, 3).Draw(t, "pdir") > 0 {
				o.A = rapid.SampledFrom(dirs).Draw(t, "ppath-dir")
			} else if len(leaves) > 0 && rapid.Bool().Draw(t, "pleaf") {
				o.A = rapid.SampledFrom(leaves).Draw(t, "ppath-leaf")
			} else {
				o.A = rapid.SampledFrom(plantPaths).Draw(t, "ppath")
			}
			if rapid.IntRange(0, 4).Draw(t, "pkind") > 0 {
				o.B = rapid.SampledFrom(linkTargets).Draw(t, "target")
				plantedAt = append(plantedAt, o.A)
			} else {
				o.F = true // plant a real directory instead of a symlink
			}
		case "restore", "add", "remove":
			o.A = arg("arg")
		case "add-glob":
			o.A = rapid.SampledFrom([]string{"*", "link/*", "../*", "a/*", ".git/*", "*/*", "l*k/*", "../OUTSIDE*", "*/*/*"}).Draw(t, "glob")
		case "move":
			o.A = arg("arg")
			o.B = arg("arg2")
		case "clean":
			o.F = rapid.Bool().Draw(t, "dir")
		case "pull":
			o.N = rapid.IntRange(0, 1).Draw(t, "commit")
		case "cherry-pick":
			o.N = rapid.IntRange(0, 1).Draw(t, "commit")
			o.F = rapid.Bool().Draw(t, "ours")
		}
		ops = append(ops, o)
	}
	return ops
}

func gen(t *rapid.T, _ *evid.Recorder) Case {
	c := Case{}
	level := rapid.SampledFrom([]int{0, 0, 0, 0, 1, 1, 1, 2, 2}).Draw(t, "level")
	c.C1 = genTree(t, 2, level)
	if rapid.IntRange(0, 2).Draw(t, "withsub") == 0 {
		c.C1 = addSubmodule(t, c.C1)
	}
	if rapid.IntRange(0, 4).Draw(t, "independent") == 0 {
		c.C2 = genTree(t, 2, level)
	} else {
		c.C2 = mutate(t, c.C1, 2, level)
	}
	c.ProtectNTFS = rapid.SampledFrom([]string{"", "", "true", "false"}).Draw(t, "ntfs")
	// protectHFS is off unless configured: when a tree carries an HFS disguise the
	// setting under which it is judged is drawn more often
	shapes := map[string]bool{}
	disguiseShapes(c.C1, shapes)
	disguiseShapes(c.C2, shapes)
	if shapes["tree:hfs-dotgit-run>=2"] || shapes["tree:hfs-dotgit-single-ignorables"] {
		c.ProtectHFS = rapid.SampledFrom([]string{"", "true", "true", "false"}).Draw(t, "hfs")
	} else {
		c.ProtectHFS = rapid.SampledFrom([]string{"", "", "true", "false"}).Draw(t, "hfs")
	}
	c.Base = rapid.SampledFrom([]string{"bound", "bound", "bound", "naive", "naive", "plain"}).Draw(t, "base")
	var dirs, leaves []string
	treePaths(c.C1, "", &dirs, &leaves)
	treePaths(c.C2, "", &dirs, &leaves)
	c.Ops = genOps(t, dirs, leaves)
	return c
}

// ---------------------------------------------------------------------------
// reference predicates for .git equivalents (independent of go-git's)

func isIgnorableHFS(r rune) bool {
	switch {
	case r >= 0x200c && r <= 0x200f, r >= 0x202a && r <= 0x202e, r >= 0x206a && r <= 0x206f, r == 0xfeff:
		return true
	}
	return false
}

func hfsEquivalentDotGit(c string) bool {
	if !utf8.ValidString(c) {
		return false
	}
	var sb strings.Builder
	ign := false
	for _, r := range c {
		if isIgnorableHFS(r) {
			ign = true
			continue
		}
		sb.WriteRune(r)
	}
	return ign && strings.EqualFold(sb.String(), ".git")
}

func ntfsEquivalentDotGit(c string) bool {
	l := strings.ToLower(c)
	var rest string
	switch {
	case strings.HasPrefix(l, ".git"):
		rest = l[4:]
	case strings.HasPrefix(l, "git~1"):
		rest = l[5:]
	default:
		return false
	}
	for i := 0; i < len(rest); i++ {
		if rest[i] == ':' {
			return true
		}
		if rest[i] != '.' && rest[i] != ' ' {
			return false
		}
	}
	return true
}

// disguise names the class of .git equivalent a path component is under the
// protections in force ("" = none). Exact ".git" is not a disguise.
func disguise(comp string, ntfs, hfs bool) string {
	switch {
	case comp == ".git":
		return ""
	case strings.EqualFold(comp, ".git"):
		return "case-variant"
	case ntfs && ntfsEquivalentDotGit(comp):
		return "ntfs"
	case hfs && hfsEquivalentDotGit(comp):
		return "hfs"
	}
	return ""
}

// ---------------------------------------------------------------------------

type env struct {
	top, wt   string
	st        *filesystem.Storage
	blobs     map[string]plumbing.Hash
	subCommit plumbing.Hash
}

func (e *env) blob(data []byte) plumbing.Hash {
	if h, ok := e.blobs[string(data)]; ok {
		return h
	}
	o := e.st.NewEncodedObject()
	o.SetType(plumbing.BlobObject)
	w, _ := o.Writer()
	w.Write(data)
	w.Close()
	h, err := e.st.SetEncodedObject(o)
	if err != nil {
		panic("INFRA: blob: " + err.Error())
	}
	e.blobs[string(data)] = h
	return h
}

func (e *env) expandTarget(s string) string {
	if strings.HasPrefix(s, "@ABS/") {
		return filepath.Join(e.top, s[5:])
	}
	return s
}

func (e *env) rawTree(es []RawEntry) plumbing.Hash {
	type ent struct {
		mode, name string
		h          plumbing.Hash
	}
	var out []ent
	for _, x := range es {
		if x.Name == "" || strings.ContainsRune(x.Name, 0) {
			continue
		}
		switch x.Kind {
		case "d":
			out = append(out, ent{"40000", x.Name, e.rawTree(x.Kids)})
		case "l":
			out = append(out, ent{"120000", x.Name, e.blob([]byte(e.expandTarget(x.Data)))})
		case "s":
			out = append(out, ent{"160000", x.Name, e.subCommit})
		case "f", "x":
			var data []byte
			if strings.HasPrefix(x.Data, "@MOD:") {
				f := strings.SplitN(x.Data[5:], "\x1f", 2)
				if len(f) == 2 {
					data = []byte(fmt.Sprintf("[submodule %q]\n\tpath = %s\n\turl = %s\n", f[0], f[1], filepath.Join(e.top, "subremote")))
				}
			} else {
				data = []byte("PAYLOAD-" + x.Data + "\n")
			}
			mode := "100644"
			if x.Kind == "x" {
				mode = "100755"
			}
			out = append(out, ent{mode, x.Name, e.blob(data)})
		}
	}
	sort.SliceStable(out, func(i, j int) bool {
		a, b := out[i].name, out[j].name
		if out[i].mode == "40000" {
			a += "/"
		}
		if out[j].mode == "40000" {
			b += "/"
		}
		return a < b
	})
	var buf bytes.Buffer
	for _, x := range out {
		fmt.Fprintf(&buf, "%s %s\x00", x.mode, x.name)
		buf.Write(x.h.Bytes())
	}
	o := e.st.NewEncodedObject()
	o.SetType(plumbing.TreeObject)
	w, _ := o.Writer()
	w.Write(buf.Bytes())
	w.Close()
	h, err := e.st.SetEncodedObject(o)
	if err != nil {
		panic("INFRA: tree: " + err.Error())
	}
	return h
}

func (e *env) commit(tree plumbing.Hash, msg string, parents ...plumbing.Hash) plumbing.Hash {
	sig := object.Signature{Name: "a", Email: "a@b", When: time.Unix(1700000000, 0).UTC()}
	c := &object.Commit{TreeHash: tree, Message: msg, Author: sig, Committer: sig, ParentHashes: parents}
	o := e.st.NewEncodedObject()
	if err := c.Encode(o); err != nil {
		panic("INFRA: commit: " + err.Error())
	}
	h, err := e.st.SetEncodedObject(o)
	if err != nil {
		panic("INFRA: commit: " + err.Error())
	}
	return h
}

// outsideSnapshot describes everything the operations must never change:
// the whole scratch directory except the worktree, plus sentinels in .git.
func outsideSnapshot(top, wt string) map[string]string {
	out := map[string]string{}
	var walk func(dir string)
	walk = func(dir string) {
		ents, err := os.ReadDir(dir)
		if err != nil {
			out[dir] = "unreadable: " + err.Error()
			return
		}
		for _, de := range ents {
			p := filepath.Join(dir, de.Name())
			if p == wt {
				continue
			}
			fi, err := os.Lstat(p)
			if err != nil {
				continue
			}
			switch {
			case fi.Mode()&os.ModeSymlink != 0:
				tg, _ := os.Readlink(p)
				out[p] = "l:" + tg
			case fi.IsDir():
				out[p] = "d"
				walk(p)
			default:
				b, _ := os.ReadFile(p)
				out[p] = fmt.Sprintf("f:%o:%d:%x:%d", fi.Mode().Perm(), len(b), sum6(b), fi.ModTime().UnixNano())
			}
		}
	}
	walk(top)
	g := filepath.Join(wt, ".git")
	for _, n := range []string{"SENTINEL", "description-sentinel"} {
		fi, err := os.Lstat(filepath.Join(g, n))
		if err != nil {
			out[filepath.Join(g, n)] = "missing"
			continue
		}
		b, _ := os.ReadFile(filepath.Join(g, n))
		out[filepath.Join(g, n)] = fmt.Sprintf("f:%o:%s:%d", fi.Mode().Perm(), b, fi.ModTime().UnixNano())
	}
	hooks, _ := os.ReadDir(filepath.Join(g, "hooks"))
	var hn []string
	for _, h := range hooks {
		hn = append(hn, h.Name())
	}
	out[filepath.Join(g, "hooks")] = strings.Join(hn, ",")
	return out
}

// payloadInGitDir looks for checked-out payload bytes inside .git (outside
// the object store), which no legitimate operation produces.
func payloadInGitDir(g string) string {
	found := ""
	var walk func(dir string, depth int)
	walk = func(dir string, depth int) {
		ents, err := os.ReadDir(dir)
		if err != nil {
			return
		}
		for _, de := range ents {
			p := filepath.Join(dir, de.Name())
			if de.IsDir() {
				if de.Name() == "objects" {
					continue
				}
				if depth < 6 {
					walk(p, depth+1)
				}
				continue
			}
			fi, err := os.Lstat(p)
			if err != nil || !fi.Mode().IsRegular() || fi.Size() > 1<<20 {
				continue
			}
			b, _ := os.ReadFile(p)
			if bytes.Contains(b, []byte("PAYLOAD-")) && found == "" {
				found = p
			}
		}
	}
	walk(g, 0)
	return found
}

func sum6(b []byte) []byte { h := sha256.Sum256(b); return h[:6] }

func writeFile(p, s string) {
	if err := os.WriteFile(p, []byte(s), 0o644); err != nil {
		panic("INFRA: " + err.Error())
	}
}

func hostile(es []RawEntry) (n int, swapNames map[string]string) {
	swapNames = map[string]string{}
	for _, e := range es {
		bad := false
		for _, c := range strings.FieldsFunc(e.Name, func(r rune) bool { return r == '/' || r == '\\' }) {
			if c == ".." || c == "." || strings.EqualFold(c, ".git") || ntfsEquivalentDotGit(c) || hfsEquivalentDotGit(c) {
				bad = true
			}
		}
		if strings.ContainsAny(e.Name, "/\\") || strings.Contains(foldName(e.Name), "gitmod") && e.Kind == "l" {
			bad = true
		}
		if e.Kind == "l" && (strings.Contains(e.Data, "..") || strings.Contains(e.Data, ".git") || strings.HasPrefix(e.Data, "@ABS")) {
			bad = true
		}
		if strings.HasPrefix(e.Data, "@MOD:") && (strings.Contains(e.Data, "..") || strings.Contains(e.Data, ".git") || strings.Contains(e.Data, ".GIT")) {
			bad = true
		}
		if bad {
			n++
		}
		swapNames[e.Name] = e.Kind
		kn, _ := hostile(e.Kids)
		n += kn
	}
	return n, swapNames
}

func check(c Case) evid.Result {
	res := evid.Result{}
	if c.Base != "bound" && c.Base != "naive" && c.Base != "plain" {
		res.Discard = true
		return res
	}
	top := wtgen.Scratch("c26-")
	defer os.RemoveAll(top)
	wt := filepath.Join(top, "wt")
	wtgen.InitRepo(wt)
	g := filepath.Join(wt, ".git")
	// sentinels
	writeFile(filepath.Join(top, "OUTSIDE"), "sentinel-outside\n")
	os.MkdirAll(filepath.Join(top, "OUTSIDE-DIR"), 0o755)
	writeFile(filepath.Join(top, "OUTSIDE-DIR", "keep"), "sentinel-keep\n")
	writeFile(filepath.Join(g, "SENTINEL"), "sentinel-git\n")
	writeFile(filepath.Join(g, "description-sentinel"), "sentinel-git2\n")
	os.MkdirAll(filepath.Join(g, "hooks"), 0o755)
	cfg := "[core]\n\trepositoryformatversion = 0\n\tfilemode = true\n\tbare = false\n\tlogallrefupdates = true\n"
	if c.ProtectNTFS != "" {
		cfg += "\tprotectNTFS = " + c.ProtectNTFS + "\n"
	}
	if c.ProtectHFS != "" {
		cfg += "\tprotectHFS = " + c.ProtectHFS + "\n"
	}
	cfg += "[remote \"origin\"]\n\turl = " + wt + "\n\tfetch = +refs/heads/*:refs/remotes/origin/*\n"
	writeFile(filepath.Join(g, "config"), cfg)
	ntfs := c.ProtectNTFS != "false" // default on
	hfs := c.ProtectHFS == "true"    // default off on linux

	// a small well-formed repository that submodule URLs point to
	subremote := filepath.Join(top, "subremote")
	var subCommit plumbing.Hash
	{
		sr, err := git.PlainInit(subremote, false)
		if err != nil {
			panic("INFRA: subremote: " + err.Error())
		}
		sw, _ := sr.Worktree()
		writeFile(filepath.Join(subremote, "f"), "sub\n")
		sw.Add("f")
		sig := &object.Signature{Name: "a", Email: "a@b", When: time.Unix(1700000000, 0).UTC()}
		subCommit, err = sw.Commit("sub", &git.CommitOptions{Author: sig, Committer: sig})
		if err != nil {
			panic("INFRA: subremote commit: " + err.Error())
		}
		sr.Close()
	}

	e := &env{top: top, wt: wt, blobs: map[string]plumbing.Hash{}, subCommit: subCommit}
	e.st = filesystem.NewStorage(osfs.New(g), cache.NewObjectLRUDefault())
	base := e.commit(e.rawTree([]RawEntry{{Name: "ok", Kind: "f", Data: "P0"}}), "base")
	c1 := e.commit(e.rawTree(c.C1), "c1", base)
	c2 := e.commit(e.rawTree(c.C2), "c2", c1)
	commits := []plumbing.Hash{c1, c2}
	for n, h := range map[string]plumbing.Hash{"refs/heads/main": base, "refs/heads/b1": c1, "refs/heads/b2": c2} {
		if err := e.st.SetReference(plumbing.NewHashReference(plumbing.ReferenceName(n), h)); err != nil {
			panic("INFRA: ref: " + err.Error())
		}
	}
	e.st.Close()

	var rec *recorder
	var r *git.Repository
	var err error
	switch c.Base {
	case "plain":
		r, err = git.PlainOpen(wt)
	default:
		var basefs billy.Filesystem = osfs.New(wt)
		if c.Base == "naive" {
			basefs = &naiveFS{root: wt}
		}
		var rfs *recFS
		rfs, rec = newRecFS(basefs, wt)
		st := filesystem.NewStorage(osfs.New(g), cache.NewObjectLRUDefault())
		r, err = git.Open(st, rfs)
	}
	if err != nil {
		panic("INFRA: open: " + err.Error())
	}
	defer r.Close()
	w, err := r.Worktree()
	if err != nil {
		panic("INFRA: worktree: " + err.Error())
	}

	h1, _ := hostile(c.C1)
	h2, _ := hostile(c.C2)
	planted := 0
	res.Labels = append(res.Labels, "base:"+c.Base, "ntfs:"+c.ProtectNTFS, "hfs:"+c.ProtectHFS)

	before := outsideSnapshot(top, wt)
	probes := map[string]bool{}
	seen := 0
	var fails []*evid.Failure
	failf := func(sig, format string, a ...any) {
		fails = append(fails, evid.Failf("C26/"+sig, format, a...))
	}

	for i, o := range c.Ops {
		opName := o.K
		var oerr error
		switch o.K {
		case "plant":
			// done by the "user" with plain os calls, never through a symlink and never into .git
			full := filepath.Join(wt, o.A)
			real := resolve(wt, o.A, false)
			if real != full || strings.HasPrefix(o.A, ".git") {
				continue
			}
			os.MkdirAll(filepath.Dir(full), 0o755)
			if _, err := os.Lstat(full); err == nil {
				continue
			}
			if o.F {
				os.MkdirAll(full, 0o755)
			} else if err := os.Symlink(e.expandTarget(o.B), full); err != nil {
				continue
			}
			planted++
			before = outsideSnapshot(top, wt) // a symlink target's mtime cannot change by planting, but be exact
			continue
		case "reset":
			mode := map[string]git.ResetMode{"hard": git.HardReset, "merge": git.MergeReset, "mixed": git.MixedReset, "keep": git.KeepReset}[o.A]
			opName = "reset-" + o.A
			oerr = w.Reset(&git.ResetOptions{Mode: mode, Commit: commits[o.N%2]})
		case "checkout":
			co := &git.CheckoutOptions{Force: o.F}
			if o.A == "branch" {
				co.Branch = plumbing.ReferenceName([]string{"refs/heads/b1", "refs/heads/b2"}[o.N%2])
			} else {
				co.Hash = commits[o.N%2]
			}
			if o.F {
				opName = "checkout-force"
			}
			oerr = w.Checkout(co)
		case "restore":
			oerr = w.Restore(&git.RestoreOptions{Staged: true, Worktree: true, Files: []string{e.expandTarget(o.A)}})
		case "clean":
			oerr = w.Clean(&git.CleanOptions{Dir: o.F})
		case "add":
			_, oerr = w.Add(e.expandTarget(o.A))
		case "add-all":
			oerr = w.AddWithOptions(&git.AddOptions{All: true})
		case "add-glob":
			oerr = w.AddGlob(o.A)
		case "remove":
			_, oerr = w.Remove(e.expandTarget(o.A))
		case "move":
			_, oerr = w.Move(e.expandTarget(o.A), e.expandTarget(o.B))
		case "status":
			_, oerr = w.Status()
		case "sub-init":
			var subs git.Submodules
			if subs, oerr = w.Submodules(); oerr == nil {
				oerr = subs.Init()
			}
		case "sub-update":
			var subs git.Submodules
			if subs, oerr = w.Submodules(); oerr == nil {
				oerr = subs.Update(&git.SubmoduleUpdateOptions{Init: true})
			}
		case "pull":
			oerr = w.Pull(&git.PullOptions{RemoteName: "origin", ReferenceName: plumbing.ReferenceName([]string{"refs/heads/b1", "refs/heads/b2"}[o.N%2]), SingleBranch: true})
		case "cherry-pick":
			strat := git.TheirsMergeStrategy
			if o.F {
				strat = git.OursMergeStrategy
			}
			sig := &object.Signature{Name: "a", Email: "a@b", When: time.Unix(1700000000, 0).UTC()}
			var co *object.Commit
			if co, oerr = r.CommitObject(commits[o.N%2]); oerr == nil {
				oerr = w.CherryPick(&git.CommitOptions{Author: sig, Committer: sig, AllowEmptyCommits: true}, strat, co)
			}
		default:
			continue
		}
		res.Labels = append(res.Labels, "op:"+opName)
		if oerr == nil {
			res.Labels = append(res.Labels, "ok:"+opName)
		}

		// (a) recorded accesses of this operation
		if rec != nil {
			rec.mu.Lock()
			log := append([]access(nil), rec.log[seen:]...)
			seen = len(rec.log)
			rec.mu.Unlock()
			reported := map[string]bool{}
			for _, a := range log {
				if !a.OK {
					continue
				}
				cls := classify(wt, a)
				if cls != "" && (a.Op == "lstat" || a.Op == "stat") {
					// a metadata probe (e.g. validNoLeadingSymlink lstat-ing "link/hooks"
					// before it finds that "link" is a symlink) returns no content and
					// changes nothing: recorded as a label, not judged
					probes[cls] = true
					continue
				}
				if cls == "" && a.Mut {
					for _, comp := range strings.Split(a.Req, "/") {
						if d := disguise(comp, ntfs, hfs); d != "" {
							cls = "writes-dotgit-disguise-" + d
						}
					}
				}
				if cls == "" {
					continue
				}
				rw := "read"
				if a.Mut {
					rw = "write"
				}
				// the base filesystem matters only for escapes out of the worktree
				// (osfs BoundOS contains those by itself); .git is inside the root
				sig := fmt.Sprintf("%s/%s:%s:%s", opName, cls, rw, a.Op)
				if cls == "outside-worktree" {
					sig = fmt.Sprintf("%s/%s-fs/%s:%s:%s", opName, c.Base, cls, rw, a.Op)
				}
				if !reported[sig] {
					reported[sig] = true
					failf(sig, "step %d (%s %+v, err=%v): %s of %q reaches %s", i, opName, o, oerr, a.Op, a.Req, a.Real)
				}
			}
		}
		// (b) sentinels and everything outside the worktree
		after := outsideSnapshot(top, wt)
		for _, p := range wtgen.SortedKeys(after) {
			if before[p] != after[p] {
				kind := "outside-worktree"
				if strings.HasPrefix(p, g) {
					kind = "inside-dotgit"
				}
				what := "changed"
				if _, ok := before[p]; !ok {
					what = "created"
				}
				rel, _ := filepath.Rel(top, p)
				failf(fmt.Sprintf("%s/%s-fs/%s-%s", opName, c.Base, kind, what), "step %d (%s %+v, err=%v): %s %s: %q -> %q", i, opName, o, oerr, rel, what, before[p], after[p])
				break
			}
		}
		for _, p := range wtgen.SortedKeys(before) {
			if _, ok := after[p]; !ok {
				kind := "outside-worktree"
				if strings.HasPrefix(p, g) {
					kind = "inside-dotgit"
				}
				rel, _ := filepath.Rel(top, p)
				failf(fmt.Sprintf("%s/%s-fs/%s-deleted", opName, c.Base, kind), "step %d (%s %+v, err=%v): %s deleted", i, opName, o, oerr, rel)
				break
			}
		}
		if p := payloadInGitDir(g); p != "" {
			rel, _ := filepath.Rel(wt, p)
			failf(fmt.Sprintf("%s/payload-inside-dotgit", opName), "step %d (%s %+v, err=%v): tree payload found in %s", i, opName, o, oerr, rel)
		}
		stop := false
		for _, f := range fails {
			if known == nil || !known.IsKnown(f.Sig) {
				stop = true
			}
		}
		if stop {
			break // a confirmed known finding does not end the sequence: keep looking past it
		}
		before = after
	}
	res.NonTrivial = h1+h2 > 0 || planted > 0
	if h1+h2 > 0 {
		res.Labels = append(res.Labels, "tree:hostile")
	}
	shapes := map[string]bool{}
	disguiseShapes(c.C1, shapes)
	disguiseShapes(c.C2, shapes)
	for _, k := range wtgen.SortedKeys(shapes) {
		res.Labels = append(res.Labels, k)
		if hfs && strings.HasPrefix(k, "tree:hfs-") {
			res.Labels = append(res.Labels, k+"+protectHFS")
		}
	}
	if planted > 0 {
		res.Labels = append(res.Labels, "planted")
	}
	for _, k := range wtgen.SortedKeys(probes) {
		res.Labels = append(res.Labels, "metadata-probe:"+k)
	}
	if len(fails) > 0 {
		res.Fail = fails[0]
		for _, f := range fails {
			if known == nil || !known.IsKnown(f.Sig) {
				res.Fail = f
				break
			}
		}
	}
	return res
}

// classify maps a successful access to a violation class or "".
func classify(wt string, a access) string {
	rel, err := filepath.Rel(wt, a.Real)
	if err != nil || rel == ".." || strings.HasPrefix(rel, "../") {
		return "outside-worktree"
	}
	if rel == "." {
		return ""
	}
	parts := strings.Split(rel, "/")
	if parts[0] == ".git" {
		if len(parts) == 1 && (a.Op == "lstat" || a.Op == "stat") {
			return "" // metadata of the .git entry itself
		}
		return "inside-dotgit"
	}
	for i := 1; i < len(parts)-1; i++ {
		if parts[i] == ".git" {
			return "inside-nested-dotgit"
		}
	}
	return ""
}

var known *evid.Recorder

func TestC26(t *testing.T) {
	evid.Run(t, evid.Spec[Case]{ID: "C26", Gen: func(rt *rapid.T, r *evid.Recorder) Case { known = r; return gen(rt, r) }, Check: check})
}
