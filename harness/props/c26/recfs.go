package c26

import (
	"io/fs"
	"os"
	"path/filepath"
	"strings"
	"sync"

	"github.com/go-git/go-billy/v6"
)

// ---------------------------------------------------------------------------
// naiveFS: a billy filesystem that maps a name lexically below its root and
// then lets the operating system follow whatever symlinks are on disk (no
// containment of its own, like a custom billy backend). With it, the only
// thing between a hostile worktree state and the outside is go-git itself.

type naiveFS struct{ root string }

func (n *naiveFS) p(name string) string {
	return filepath.Join(n.root, filepath.Clean("/"+filepath.ToSlash(name)))
}

func (n *naiveFS) Create(name string) (billy.File, error) {
	return n.OpenFile(name, os.O_RDWR|os.O_CREATE|os.O_TRUNC, 0o666)
}
func (n *naiveFS) Open(name string) (billy.File, error) { return n.OpenFile(name, os.O_RDONLY, 0) }
func (n *naiveFS) OpenFile(name string, flag int, perm fs.FileMode) (billy.File, error) {
	full := n.p(name)
	if flag&os.O_CREATE != 0 {
		if err := os.MkdirAll(filepath.Dir(full), 0o777); err != nil {
			return nil, err
		}
	}
	f, err := os.OpenFile(full, flag, perm)
	if err != nil {
		return nil, err
	}
	return f, nil
}
func (n *naiveFS) Stat(name string) (fs.FileInfo, error)  { return os.Stat(n.p(name)) }
func (n *naiveFS) Lstat(name string) (fs.FileInfo, error) { return os.Lstat(n.p(name)) }
func (n *naiveFS) Rename(from, to string) error {
	if err := os.MkdirAll(filepath.Dir(n.p(to)), 0o777); err != nil {
		return err
	}
	return os.Rename(n.p(from), n.p(to))
}
func (n *naiveFS) Remove(name string) error      { return os.Remove(n.p(name)) }
func (n *naiveFS) Join(elem ...string) string    { return filepath.Join(elem...) }
func (n *naiveFS) Root() string                  { return n.root }
func (n *naiveFS) Readlink(l string) (string, error) { return os.Readlink(n.p(l)) }
func (n *naiveFS) TempFile(dir, prefix string) (billy.File, error) {
	if err := os.MkdirAll(n.p(dir), 0o777); err != nil {
		return nil, err
	}
	return os.CreateTemp(n.p(dir), prefix)
}
func (n *naiveFS) ReadDir(name string) ([]fs.DirEntry, error) { return os.ReadDir(n.p(name)) }
func (n *naiveFS) MkdirAll(name string, perm fs.FileMode) error {
	return os.MkdirAll(n.p(name), perm)
}
func (n *naiveFS) Symlink(target, link string) error {
	if err := os.MkdirAll(filepath.Dir(n.p(link)), 0o777); err != nil {
		return err
	}
	return os.Symlink(target, n.p(link))
}
func (n *naiveFS) Chroot(path string) (billy.Filesystem, error) {
	return &naiveFS{root: n.p(path)}, nil
}

// ---------------------------------------------------------------------------
// recFS: records every operation together with the real location it would
// reach (resolved against the directory tree as it is just before the call).

type access struct {
	Op   string // create open openfile-w openfile-r stat lstat rename-from rename-to remove mkdirall readdir symlink readlink tempfile chroot
	Req  string // path as requested, relative to the repository worktree root
	Real string // absolute real location
	OK   bool   // the underlying operation succeeded
	Mut  bool   // the operation creates/modifies/deletes
}

type recorder struct {
	mu   sync.Mutex
	root string // real path of the repository worktree root
	log  []access
}

type recFS struct {
	billy.Filesystem
	rec *recorder
	sub string // this filesystem's root relative to rec.root ("" = the worktree root)
}

func newRecFS(base billy.Filesystem, root string) (*recFS, *recorder) {
	r := &recorder{root: root}
	return &recFS{Filesystem: base, rec: r}, r
}

// resolve walks name below root following the symlinks that exist on disk now
// (all components; the last one only when followFinal) and returns the
// absolute location the operating system would reach.
func resolve(root, name string, followFinal bool) string {
	comps := strings.Split(filepath.Clean("/"+filepath.ToSlash(name)), "/")
	var todo []string
	for _, c := range comps {
		if c != "" && c != "." {
			todo = append(todo, c)
		}
	}
	cur := root
	hops := 0
	for len(todo) > 0 {
		c := todo[0]
		todo = todo[1:]
		if c == "." || c == "" {
			continue
		}
		if c == ".." {
			cur = filepath.Dir(cur)
			continue
		}
		next := filepath.Join(cur, c)
		if len(todo) > 0 || followFinal {
			if fi, err := os.Lstat(next); err == nil && fi.Mode()&os.ModeSymlink != 0 && hops < 40 {
				hops++
				tg, err := os.Readlink(next)
				if err == nil {
					tc := strings.Split(filepath.ToSlash(tg), "/")
					if strings.HasPrefix(tg, "/") {
						cur = "/"
					}
					todo = append(append([]string(nil), tc...), todo...)
					continue
				}
			}
		}
		cur = next
	}
	return cur
}

func (r *recFS) note(op, name string, follow, mut bool) int {
	req := filepath.Join(r.sub, filepath.Clean("/"+filepath.ToSlash(name)))
	req = strings.TrimPrefix(req, "/")
	a := access{Op: op, Req: req, Real: resolve(r.rec.root, req, follow), Mut: mut}
	r.rec.mu.Lock()
	r.rec.log = append(r.rec.log, a)
	i := len(r.rec.log) - 1
	r.rec.mu.Unlock()
	return i
}

func (r *recFS) done(i int, err error) {
	r.rec.mu.Lock()
	r.rec.log[i].OK = err == nil
	r.rec.mu.Unlock()
}

func (r *recFS) Create(n string) (billy.File, error) {
	i := r.note("create", n, true, true)
	f, err := r.Filesystem.Create(n)
	r.done(i, err)
	return f, err
}

func (r *recFS) Open(n string) (billy.File, error) {
	i := r.note("open", n, true, false)
	f, err := r.Filesystem.Open(n)
	r.done(i, err)
	return f, err
}

func (r *recFS) OpenFile(n string, flag int, p fs.FileMode) (billy.File, error) {
	w := flag&(os.O_WRONLY|os.O_RDWR|os.O_CREATE|os.O_TRUNC|os.O_APPEND) != 0
	op := "openfile-r"
	if w {
		op = "openfile-w"
	}
	i := r.note(op, n, true, w)
	f, err := r.Filesystem.OpenFile(n, flag, p)
	r.done(i, err)
	return f, err
}

func (r *recFS) Stat(n string) (fs.FileInfo, error) {
	i := r.note("stat", n, true, false)
	fi, err := r.Filesystem.Stat(n)
	r.done(i, err)
	return fi, err
}

func (r *recFS) Lstat(n string) (fs.FileInfo, error) {
	i := r.note("lstat", n, false, false)
	fi, err := r.Filesystem.Lstat(n)
	r.done(i, err)
	return fi, err
}

func (r *recFS) Rename(a, b string) error {
	i := r.note("rename-from", a, false, true)
	j := r.note("rename-to", b, false, true)
	err := r.Filesystem.Rename(a, b)
	r.done(i, err)
	r.done(j, err)
	return err
}

func (r *recFS) Remove(n string) error {
	i := r.note("remove", n, false, true)
	err := r.Filesystem.Remove(n)
	r.done(i, err)
	return err
}

func (r *recFS) MkdirAll(n string, p fs.FileMode) error {
	i := r.note("mkdirall", n, true, true)
	err := r.Filesystem.MkdirAll(n, p)
	r.done(i, err)
	return err
}

func (r *recFS) ReadDir(n string) ([]fs.DirEntry, error) {
	i := r.note("readdir", n, true, false)
	es, err := r.Filesystem.ReadDir(n)
	r.done(i, err)
	return es, err
}

func (r *recFS) TempFile(d, p string) (billy.File, error) {
	i := r.note("tempfile", filepath.Join(d, p+"*"), true, true)
	f, err := r.Filesystem.TempFile(d, p)
	r.done(i, err)
	return f, err
}

func (r *recFS) Symlink(target, link string) error {
	i := r.note("symlink", link, false, true)
	err := r.Filesystem.Symlink(target, link)
	r.done(i, err)
	return err
}

func (r *recFS) Readlink(n string) (string, error) {
	i := r.note("readlink", n, false, false)
	s, err := r.Filesystem.Readlink(n)
	r.done(i, err)
	return s, err
}

func (r *recFS) Chroot(p string) (billy.Filesystem, error) {
	i := r.note("chroot", p, true, false)
	sub, err := r.Filesystem.Chroot(p)
	r.done(i, err)
	if err != nil {
		return nil, err
	}
	return &recFS{Filesystem: sub, rec: r.rec, sub: filepath.Join(r.sub, filepath.Clean("/"+filepath.ToSlash(p)))}, nil
}
