// Package c27 decides C27: for states reachable by random git / go-git /
// filesystem operations, Worktree.Status() reports for every path the same
// (staging, worktree) pair as `git status --porcelain=v1 -z
// --untracked-files=all --no-renames`.
package c27

import (
	"encoding/json"
	"fmt"
	"os"
	"path/filepath"
	"sort"
	"strings"
	"testing"
	"time"

	git "github.com/go-git/go-git/v6"
	"github.com/go-git/go-git/v6/plumbing/filemode"
	"github.com/go-git/go-git/v6/plumbing/format/index"
	"github.com/go-git/go-git/v6/plumbing/object"
	"pgregory.net/rapid"

	"verif/harness/lib/evid"
	"verif/harness/lib/gitx"
)

// Op is one state-building step. P, Q index the pools below (modulo).
type Op struct {
	K string `json:"k"`
	P int    `json:"p"`
	Q int    `json:"q"`
	// S: the op addresses the paths of the case's ignore scenes (scenePaths)
	// instead of the fixed pool; without a scene it is an ordinary op.
	S bool `json:"s,omitempty"`
}

// Case is a repository configuration plus an operation list; the status
// comparison runs after every step.
type Case struct {
	Format   string `json:"format"`   // sha1 | sha256
	FileMode bool   `json:"filemode"` // core.fileMode
	AutoCRLF string `json:"autocrlf"` // "" (unset) | true | input | false
	Base     []Base `json:"base"`     // files created, `git add -A`ed and (unless NoCommit) committed first
	NoCommit bool   `json:"nocommit"`
	// Scenes are built (and compared) after the base commit and before the ops:
	// directories excluded by an ignore rule that hold tracked and untracked
	// files, nested ignore files and ancestor negations. Optional: old replay
	// files have none.
	Scenes []Scene `json:"scenes,omitempty"`
	Ops    []Op    `json:"ops"`
}

// Scene describes one directory D (scDirs[Dir]) and the ignore rules around
// it. Every index is taken modulo its pool.
type Scene struct {
	Dir  int `json:"dir"`
	Rule int `json:"rule"` // scRule: how D (or only its content) is excluded
	// Tracked: files below D (scFiles) that are in the index. How: 0 committed
	// before the rule exists, 1 `git add -f` after the rule (staged), 2 add -f and
	// commit, 3 staged before the rule exists.
	Tracked   []int `json:"tracked,omitempty"`
	How       int   `json:"how"`
	Untracked []int `json:"untracked,omitempty"` // files below D written last, never added
	// nested ignore file: 0 none, 1 D/.gitignore, 2 D/sub/.gitignore
	NestedAt      int   `json:"nestedAt,omitempty"`
	Nested        []int `json:"nested,omitempty"` // scNested patterns
	NestedTracked bool  `json:"nestedTracked,omitempty"`
	// ancestor negations (scNeg), in the ignore file that holds the rule (NegFile 0)
	// or in the root .gitignore (NegFile 1); before or after the rule
	Negs     []int `json:"negs,omitempty"`
	NegFirst bool  `json:"negFirst,omitempty"`
	NegFile  int   `json:"negFile,omitempty"`
	Outside  []int `json:"outside,omitempty"` // untracked files outside D (scOutside)
}

var scDirs = []string{"build", "out.d", "gen/build", "d", "d/e", "tmp.d/cache", "gen/out.d"}

// files below D: siblings, a sub-directory and a deeper one
var scFiles = []string{"keep.txt", "NOTES.md", "obj.o", "sub/README.md", "sub/x.txt", "sub/deep/y.md", "a", ".hid", "sub/deep/keep.txt"}

var scOutside = []string{"new.txt", "README.md", "keep.txt", "gen/other.md", "zz/keep.txt"}

var scNested = []string{"!keep.txt\n", "!*.md\n", "*.o\n", "*\n", "!*\n", "x.txt\n", "!README.md\n", "# c\n", "!sub/\n", "/a\n", "deep/\n", "!*.txt\n"}

const nScRules = 10

func scSplit(D string) (parent, base string) {
	if i := strings.LastIndexByte(D, '/'); i >= 0 {
		return D[:i], D[i+1:]
	}
	return "", D
}

// scRule returns the ignore file (relative to the worktree) and the pattern
// line that rule k writes for directory D. Rules 0-4, 7-9 exclude D itself (or
// an ancestor of it): nothing below it can be re-included. Rules 5 and 6
// exclude only what is in D: a later negation does re-include a direct child.
func scRule(k int, D string) (file, line string) {
	parent, base := scSplit(D)
	top := D
	if i := strings.IndexByte(D, '/'); i >= 0 {
		top = D[:i]
	}
	glob := base[:1] + "*"
	if len(base) > 2 {
		glob = base[:2] + "*"
	}
	if i := strings.LastIndexByte(base, '.'); i > 0 {
		glob = "*" + base[i:]
	}
	switch k % nScRules {
	case 0:
		return ".gitignore", base + "/"
	case 1:
		return ".gitignore", base
	case 2:
		return ".gitignore", "/" + D + "/"
	case 3:
		return ".gitignore", glob + "/"
	case 4:
		return ".gitignore", "**/" + base + "/"
	case 5:
		return ".gitignore", D + "/*"
	case 6:
		return ".gitignore", D + "/**"
	case 7:
		if parent == "" {
			return ".gitignore", glob
		}
		return parent + "/.gitignore", base + "/"
	case 8:
		return ".gitignore", top + "/"
	default:
		if parent == "" {
			return ".gitignore", "/" + base
		}
		return parent + "/.gitignore", "/" + base
	}
}

const nScNegs = 12

// scNeg returns negation line k for directory D as written in ignore file f
// (patterns with a slash are relative to the directory of the file).
func scNeg(k int, D, f string) string {
	_, base := scSplit(D)
	rel := D
	if dir := filepath.Dir(f); dir != "." && strings.HasPrefix(D, dir+"/") {
		rel = D[len(dir)+1:]
	}
	switch k % nScNegs {
	case 0:
		return "!" + rel + "/keep.txt"
	case 1:
		return "!*.md"
	case 2:
		return "!keep.txt"
	case 3:
		return "!" + rel + "/sub/"
	case 4:
		return "!/" + rel + "/NOTES.md"
	case 5:
		return "!**/README.md"
	case 6:
		return "!" + base + "/"
	case 7:
		return "!" + rel + "/**"
	case 8:
		return "!*.txt"
	case 9:
		return "!" + rel + "/*"
	case 10:
		return "!" + rel + "/sub/deep/y.md"
	default:
		return "!*"
	}
}

// scNegNames reports whether negation k, read as a flat pattern, names file
// rel (relative to D). Used for labels only.
func scNegNames(k int, rel string) bool {
	b := rel[strings.LastIndexByte(rel, '/')+1:]
	switch k % nScNegs {
	case 0:
		return rel == "keep.txt"
	case 1:
		return strings.HasSuffix(b, ".md")
	case 2:
		return b == "keep.txt"
	case 3:
		return strings.HasPrefix(rel, "sub/")
	case 4:
		return rel == "NOTES.md"
	case 5:
		return b == "README.md"
	case 6:
		return false
	case 7:
		return true
	case 8:
		return strings.HasSuffix(b, ".txt")
	case 9:
		return !strings.Contains(rel, "/")
	case 10:
		return rel == "sub/deep/y.md"
	default:
		return true
	}
}

// scenePaths lists what an op with S set can address.
func scenePaths(c Case) []string {
	var out []string
	for _, sc := range c.Scenes {
		D := scDirs[sc.Dir%len(scDirs)]
		for _, f := range scFiles {
			out = append(out, D+"/"+f)
		}
		out = append(out, D, D+"/sub")
	}
	return out
}

func appendLine(d, rel, line string) bool {
	f := filepath.Join(d, rel)
	if k := lkind(f); k == "dir" || k == "symlink" {
		return false
	}
	if err := os.MkdirAll(filepath.Dir(f), 0o755); err != nil {
		return false
	}
	fh, err := os.OpenFile(f, os.O_APPEND|os.O_CREATE|os.O_WRONLY, 0o644)
	if err != nil {
		return false
	}
	defer fh.Close()
	_, err = fh.WriteString(line)
	return err == nil
}

func writeNew(d, rel, content string, old bool) bool {
	full := filepath.Join(d, rel)
	if k := lkind(full); k != "none" && k != "file" && k != "exec" {
		return false
	}
	if err := os.MkdirAll(filepath.Dir(full), 0o755); err != nil {
		return false // a parent is a file
	}
	if os.WriteFile(full, []byte(content), 0o644) != nil {
		return false
	}
	if old { // clearly older than the index: not racily clean
		if fi, err := os.Lstat(full); err == nil {
			mt := fi.ModTime().Add(-10 * time.Second)
			os.Chtimes(full, mt, mt)
		}
	}
	return true
}

// buildScene creates scene sc in repository d. Like the ops it is total: a
// step that cannot be carried out (a parent is a file of the base commit, git
// refuses) is skipped and the resulting state is compared all the same.
func buildScene(d string, sc Scene) {
	D := scDirs[sc.Dir%len(scDirs)]
	var tracked []string
	for _, i := range sc.Tracked {
		rel := D + "/" + scFiles[i%len(scFiles)]
		if writeNew(d, rel, "t\n", true) {
			tracked = append(tracked, rel)
		}
	}
	how := sc.How % 4
	if len(tracked) > 0 && (how == 0 || how == 3) {
		gitx.Try(d, append([]string{"add", "--"}, tracked...)...)
		if how == 0 {
			gitx.Try(d, "commit", "-q", "-m", "scene")
		}
	}
	rf, rl := scRule(sc.Rule, D)
	nf := rf
	if sc.NegFile%2 == 1 {
		nf = ".gitignore"
	}
	negs := func() {
		for _, k := range sc.Negs {
			appendLine(d, nf, scNeg(k, D, nf)+"\n")
		}
	}
	if sc.NegFirst {
		negs()
	}
	appendLine(d, rf, rl+"\n")
	if !sc.NegFirst {
		negs()
	}
	if len(tracked) > 0 && (how == 1 || how == 2) {
		gitx.Try(d, append([]string{"add", "-f", "--"}, tracked...)...)
		if how == 2 {
			gitx.Try(d, "commit", "-q", "-m", "scene")
		}
	}
	for _, i := range sc.Untracked {
		rel := D + "/" + scFiles[i%len(scFiles)]
		if lkind(filepath.Join(d, rel)) == "none" {
			writeNew(d, rel, "u\n", false)
		}
	}
	for _, i := range sc.Outside {
		rel := scOutside[i%len(scOutside)]
		if lkind(filepath.Join(d, rel)) == "none" {
			writeNew(d, rel, "o\n", false)
		}
	}
	if at := sc.NestedAt % 3; at != 0 && len(sc.Nested) > 0 {
		nd := D
		if at == 2 {
			nd = D + "/sub"
		}
		ok := false
		for _, k := range sc.Nested {
			if appendLine(d, nd+"/.gitignore", scNested[k%len(scNested)]) {
				ok = true
			}
		}
		if ok && sc.NestedTracked {
			gitx.Try(d, "add", "-f", "--", nd+"/.gitignore")
		}
	}
}

// sceneLabels classifies, from git's answers alone, what the scenes reached.
func sceneLabels(d string, c Case, want map[string]string, lab map[string]bool) {
	for _, sc := range c.Scenes {
		D := scDirs[sc.Dir%len(scDirs)]
		out, _, code := gitx.Try(d, "ls-files", "-z", "--", D)
		if code != 0 {
			continue
		}
		idx := map[string]bool{}
		for _, p := range strings.Split(out, "\x00") {
			if p != "" {
				idx[p] = true
			}
		}
		own := "no-own-gitignore"
		if lkind(filepath.Join(d, D, ".gitignore")) == "file" {
			own = "own-gitignore"
		}
		for _, i := range sc.Untracked {
			rel := scFiles[i%len(scFiles)]
			p := D + "/" + rel
			if k := lkind(filepath.Join(d, p)); (k != "file" && k != "exec") || idx[p] {
				continue
			}
			named := false
			for _, k := range sc.Negs {
				if scNegNames(k, rel) {
					named = true
				}
			}
			depth := "sibling"
			if strings.Contains(rel, "/") {
				depth = "in-subdir"
			}
			if _, listed := want[p]; listed {
				lab["scene:untracked-below-D-listed"] = true
				if named {
					lab["scene:untracked-below-D-listed,named-by-ancestor-negation"] = true
				}
				continue
			}
			lab["scene:untracked-below-D-ignored"] = true
			if len(idx) > 0 {
				lab["scene:ignored-untracked-in-walked-dir(tracked-inside)"] = true
				if named {
					lab["scene:ignored-untracked-in-walked-dir,named-by-ancestor-negation,"+own] = true
					lab["scene:ignored-untracked-in-walked-dir,named-by-ancestor-negation,"+depth] = true
				}
			}
		}
	}
}

// Base is one file of the initial commit. Kind: 0 regular, 1 executable, 2 symlink.
type Base struct {
	P    int `json:"p"`
	Kind int `json:"kind"`
	C    int `json:"c"`
}

var paths = []string{"a", "b", "d/a", "d/b", "d/e/f", "x.txt", "d/x.txt", "e/g.log", "d", "d/e", "ab", "a.txt"}

var contents = []string{"", "one\n", "two\n", "one\ntwo\n", "one\r\ntwo\r\n", "one\r\n", "bin\x00\n", "one\ntwo\r\n"}

var linkTargets = []string{"a", "nonexistent", "d", "../x"}

// ignore files and the patterns appended to them
var ignoreFiles = []string{".gitignore", "d/.gitignore", ".git/info/exclude", "d/e/.gitignore"}

var patterns = []string{"b\n", "d/\n", "*.txt\n", "!x.txt\n", "/a\n", "e\n", "*.log\n", "!d/b\n", "d/*\n", "f\n", "a*\n", "/d/e/\n", "# c\n", "**/f\n"}

var opKinds = []string{
	"write", "write", "write", "write", "rm", "rm", "chmod+x", "chmod-x", "symlink", "mkdir", "touch", "touch", "sameSizeEdit", "sameSizeEditSubsec",
	"gitAdd", "gitAdd", "gitAddAll", "gitAddN", "gitAddN", "gitRmCached", "gitCommit", "gitResetPath", "gitChmodIndex",
	"goAdd", "goCommit", "ignore", "ignore", "gitAddF",
}

func gen(t *rapid.T, r *evid.Recorder) Case {
	c := Case{Format: "sha1", FileMode: true}
	// shrinking moves every draw towards 0 = the default configuration
	if rapid.IntRange(0, 9).Draw(t, "sha256") == 9 {
		c.Format = "sha256"
	}
	if rapid.IntRange(0, 4).Draw(t, "nofilemode") == 4 {
		c.FileMode = false
	}
	c.AutoCRLF = rapid.SampledFrom([]string{"", "", "", "false", "true", "input"}).Draw(t, "autocrlf")
	nb := rapid.IntRange(0, 8).Draw(t, "nbase")
	for i := 0; i < nb; i++ {
		c.Base = append(c.Base, Base{P: rapid.IntRange(0, len(paths)-1).Draw(t, "bp"),
			Kind: rapid.SampledFrom([]int{0, 0, 0, 1, 2}).Draw(t, "bkind"), C: rapid.IntRange(0, len(contents)-1).Draw(t, "bc")})
	}
	c.NoCommit = rapid.IntRange(0, 5).Draw(t, "nocommit") == 5
	// half of the cases get one or two ignore scenes (shrinks to none)
	ns := []int{0, 0, 1, 2}[rapid.IntRange(0, 3).Draw(t, "nscenes")]
	for i := 0; i < ns; i++ {
		c.Scenes = append(c.Scenes, genScene(t))
	}
	n := rapid.IntRange(1, 12).Draw(t, "nops")
	for i := 0; i < n; i++ {
		k := rapid.SampledFrom(opKinds).Draw(t, "k")
		p := rapid.IntRange(0, len(paths)-1).Draw(t, "p")
		if len(c.Base) > 0 && k != "ignore" && rapid.IntRange(0, 2).Draw(t, "onbase") > 0 {
			p = c.Base[rapid.IntRange(0, len(c.Base)-1).Draw(t, "bi")].P // mostly act on tracked paths
		}
		o := Op{K: k, P: p, Q: rapid.IntRange(0, 13).Draw(t, "q")}
		if ns > 0 && rapid.IntRange(0, 2).Draw(t, "onscene") == 2 {
			o.S = true
			o.P = rapid.IntRange(0, ns*(len(scFiles)+2)-1).Draw(t, "sp")
		}
		c.Ops = append(c.Ops, o)
	}
	// Steering around confirmed findings whose effects would combine on one path
	// (each combination would otherwise need its own signature): while the
	// sha256 / core.fileMode=false findings are open, such repositories get no
	// intent-to-add entries, and sha256 repositories keep core.fileMode=true.
	sha := c.Format == "sha256" && r.IsKnown(sigSHA256)
	nofm := !c.FileMode && r.IsKnown(sigFileMode)
	if sha && nofm {
		c.FileMode = true
		nofm = false
	}
	if (sha || nofm) && r.IsKnown(sigITA) {
		for i := range c.Ops {
			if c.Ops[i].K == "gitAddN" {
				c.Ops[i].K = "gitAdd"
			}
		}
	}
	return c
}

func genScene(t *rapid.T) Scene {
	idxs := func(name string, lo, hi, pool int) []int {
		var out []int
		for n := rapid.IntRange(lo, hi).Draw(t, "n"+name); len(out) < n; {
			out = append(out, rapid.IntRange(0, pool-1).Draw(t, name))
		}
		return out
	}
	sc := Scene{
		Dir:  rapid.IntRange(0, len(scDirs)-1).Draw(t, "scdir"),
		Rule: rapid.IntRange(0, nScRules-1).Draw(t, "scrule"),
		How:  rapid.IntRange(0, 3).Draw(t, "schow"),
	}
	sc.Tracked = idxs("sctracked", 0, 2, len(scFiles))
	sc.Untracked = idxs("scuntracked", 1, 4, len(scFiles))
	sc.NestedAt = []int{0, 0, 1, 1, 2}[rapid.IntRange(0, 4).Draw(t, "scnestedat")]
	if sc.NestedAt != 0 {
		sc.Nested = idxs("scnested", 1, 2, len(scNested))
		sc.NestedTracked = rapid.IntRange(0, 3).Draw(t, "scnestedtracked") == 3
	}
	sc.Negs = idxs("scneg", 0, 3, nScNegs)
	sc.NegFirst = rapid.IntRange(0, 4).Draw(t, "scnegfirst") == 4
	sc.NegFile = rapid.IntRange(0, 1).Draw(t, "scnegfile")
	sc.Outside = idxs("scoutside", 0, 2, len(scOutside))
	return sc
}

const (
	sigITA      = "C27/Status:intent-to-add-entry-reported-as-staged-empty-blob"
	sigSHA256   = "C27/Status:sha256-repository:unchanged-tracked-path-rehashed-and-reported-worktree-Modified"
	sigFileMode = "C27/Status:core.fileMode=false:executable-worktree-file-with-index-content-reported-Modified"
)

func scratch() string {
	base := os.Getenv("VERIF_SCRATCH")
	if base == "" {
		base = "/dev/shm"
	}
	d, err := os.MkdirTemp(base, "c27-")
	if err != nil {
		panic("INFRA: scratch: " + err.Error())
	}
	return d
}

var known = func() map[string]bool {
	m := map[string]bool{}
	for _, s := range strings.Split(os.Getenv("VERIF_KNOWN"), "\x1f") {
		if s != "" {
			m[s] = true
		}
	}
	return m
}()

func lkind(p string) string {
	fi, err := os.Lstat(p)
	switch {
	case err != nil:
		return "none"
	case fi.IsDir():
		return "dir"
	case fi.Mode()&os.ModeSymlink != 0:
		return "symlink"
	case fi.Mode()&0o100 != 0:
		return "exec"
	}
	return "file"
}

// apply executes one op in repository d; every op is total (a no-op when it
// does not apply); git failures (e.g. pathspec without match) are part of the
// history, not errors.
func apply(d string, o Op, lab map[string]bool, sp []string) {
	p := paths[o.P%len(paths)]
	if o.S && len(sp) > 0 {
		p = sp[o.P%len(sp)]
	}
	full := filepath.Join(d, p)
	switch o.K {
	case "write":
		if lkind(full) == "dir" {
			return
		}
		if err := os.MkdirAll(filepath.Dir(full), 0o755); err != nil {
			return // a parent is a file
		}
		os.Remove(full)
		os.WriteFile(full, []byte(contents[o.Q%len(contents)]), 0o644)
	case "rm":
		os.RemoveAll(full)
	case "chmod+x":
		if k := lkind(full); k == "file" {
			os.Chmod(full, 0o755)
		}
	case "chmod-x":
		if k := lkind(full); k == "exec" {
			os.Chmod(full, 0o644)
		}
	case "symlink":
		if lkind(full) == "dir" {
			return
		}
		if err := os.MkdirAll(filepath.Dir(full), 0o755); err != nil {
			return
		}
		os.Remove(full)
		os.Symlink(linkTargets[o.Q%len(linkTargets)], full)
	case "mkdir":
		if os.MkdirAll(filepath.Join(d, filepath.Dir(p), "emptydir"), 0o755) == nil {
			lab["empty-dir"] = true
		}
	case "touch": // new mtime, same bytes: defeats the metadata shortcut
		if k := lkind(full); k == "file" || k == "exec" {
			if fi, err := os.Lstat(full); err == nil {
				mt := fi.ModTime().Add(-time.Duration(1+o.Q) * time.Second)
				os.Chtimes(full, mt, mt)
			}
		}
	case "sameSizeEdit", "sameSizeEditSubsec": // same size, other bytes, mtime restored (or moved within the same second)
		if k := lkind(full); k == "file" || k == "exec" {
			fi, err := os.Lstat(full)
			b, err2 := os.ReadFile(full)
			if err != nil || err2 != nil || len(b) == 0 {
				return
			}
			if b[0] != 'X' {
				b[0] = 'X'
			} else {
				b[0] = 'Y'
			}
			// saved the way editors do (temporary file renamed over the old one), so the
			// inode changes and git notices the edit whatever the clock does; an in-place
			// rewrite would leave git with only a ctime change, which it compares by whole
			// seconds: its answer would depend on the wall clock
			tmp := full + ".c27tmp"
			os.WriteFile(tmp, b, fi.Mode().Perm())
			os.Chmod(tmp, fi.Mode().Perm())
			mt := fi.ModTime()
			if o.K == "sameSizeEditSubsec" {
				// a quick edit: the new mtime differs from the staged one only below the second (and stays
				// older than the index file, so the racy-entry guard does not force a re-hash)
				ns := mt.Nanosecond()
				if ns == 0 {
					return
				}
				mt = mt.Add(-time.Duration(1 + (o.Q*7919)%ns))
			}
			os.Chtimes(tmp, mt, mt)
			if os.Rename(tmp, full) != nil {
				os.Remove(tmp)
				return
			}
			if o.K == "sameSizeEditSubsec" {
				lab["same-size-edit-mtime-moved-within-the-second"] = true
			} else {
				lab["same-size-edit-mtime-restored"] = true
			}
		}
	case "gitAdd":
		gitx.Try(d, "add", "-A", "--", p)
	case "gitAddF":
		gitx.Try(d, "add", "-f", "--", p)
	case "gitAddAll":
		gitx.Try(d, "add", "-A")
	case "gitAddN":
		gitx.Try(d, "add", "-N", "--", p)
	case "gitRmCached":
		gitx.Try(d, "rm", "-q", "--cached", "-r", "--ignore-unmatch", "--", p)
	case "gitCommit":
		gitx.Try(d, "commit", "-q", "--allow-empty", "-m", "c")
	case "gitResetPath":
		gitx.Try(d, "reset", "-q", "--", p)
	case "gitChmodIndex":
		x := "+x"
		if o.Q%2 == 1 {
			x = "-x"
		}
		gitx.Try(d, "update-index", "--chmod="+x, "--", p)
	case "goAdd":
		if r, err := git.PlainOpen(d); err == nil {
			if w, err := r.Worktree(); err == nil {
				w.Add(p)
			}
		}
	case "goCommit":
		if r, err := git.PlainOpen(d); err == nil {
			if w, err := r.Worktree(); err == nil {
				sg := &object.Signature{Name: "a", Email: "a@b", When: time.Unix(1700000000, 0).UTC()}
				w.Commit("m", &git.CommitOptions{Author: sg, Committer: sg, AllowEmptyCommits: true})
			}
		}
	case "ignore":
		if o.S && len(sp) > 0 { // a nested ignore file appears (or grows) next to a scene path
			dir := p
			if k := lkind(full); k != "dir" {
				dir = filepath.Dir(p)
			}
			appendLine(d, dir+"/.gitignore", scNested[o.Q%len(scNested)])
			return
		}
		f := filepath.Join(d, ignoreFiles[o.P%len(ignoreFiles)])
		if lkind(f) == "dir" || lkind(f) == "symlink" {
			return
		}
		if err := os.MkdirAll(filepath.Dir(f), 0o755); err != nil {
			return
		}
		fh, err := os.OpenFile(f, os.O_APPEND|os.O_CREATE|os.O_WRONLY, 0o644)
		if err != nil {
			return
		}
		fh.WriteString(patterns[o.Q%len(patterns)])
		fh.Close()
	}
}

var sawTypeChange bool // label only

func gitStatus(d string) (map[string]string, bool) {
	out, se, code := gitx.Try(d, "status", "--porcelain=v1", "-z", "--untracked-files=all", "--no-renames", "--ignored=no")
	if code != 0 {
		panic(fmt.Sprintf("INFRA: git status failed (%d): %s", code, se))
	}
	m := map[string]string{}
	for _, rec := range strings.Split(out, "\x00") {
		if rec == "" {
			continue
		}
		if len(rec) < 4 || rec[2] != ' ' {
			panic(fmt.Sprintf("INFRA: unparsable porcelain record %q", rec))
		}
		xy := rec[:2]
		if strings.Contains(xy, "U") || xy == "AA" || xy == "DD" {
			return nil, false // unmerged: outside this property's domain
		}
		if strings.Contains(xy, "T") {
			sawTypeChange = true
		}
		xy = strings.ReplaceAll(xy, "T", "M") // StatusCode has no type-change code
		if prev, dup := m[rec[3:]]; dup && xy == "??" {
			// git lists a path removed from the index but still present twice ("D  p" and
			// "?? p"); a FileStatus holds one pair: staging from the first, worktree untracked
			xy = prev[:1] + "?"
		}
		m[rec[3:]] = xy
	}
	return m, true
}

var survey = os.Getenv("VERIF_SURVEY") != ""
var surveySeen = map[string]bool{}

type disc struct {
	sig, msg string
}

func u(xy string) string {
	if xy == "" {
		xy = "  "
	}
	return strings.ReplaceAll(xy, " ", "_")
}

func idxKind(e *index.Entry) string {
	if e == nil {
		return "none"
	}
	switch e.Mode {
	case filemode.Regular:
		return "file"
	case filemode.Executable:
		return "exec"
	case filemode.Symlink:
		return "symlink"
	case filemode.Submodule:
		return "submodule"
	}
	return "other"
}

// statusWith runs git status with extra -c settings / environment.
func statusWith(d string, env []string, pre ...string) map[string]string {
	args := append(append([]string{}, pre...), "status", "--porcelain=v1", "-z", "--untracked-files=all", "--no-renames", "--ignored=no")
	r, err := gitx.Run(gitx.Cmd{Dir: d, Args: args, Env: env})
	if err != nil || r.Code != 0 {
		return nil
	}
	m := map[string]string{}
	for _, rec := range strings.Split(string(r.Out), "\x00") {
		if len(rec) >= 4 {
			m[rec[3:]] = strings.ReplaceAll(rec[:2], "T", "M")
		}
	}
	return m
}

// classify names a disagreement on one path. Where the mechanism of an
// already triaged defect can be confirmed by a model (git itself run on the
// state as go-git understands it), the signature names that mechanism;
// otherwise it names the shape of the path: index entry kind, worktree kind,
// whether the worktree bytes are what the index records, the non-default
// configuration axes, and both answers.
func classify(d string, c Case, p, gitXY, goXY string, idx *index.Index) string {
	var e *index.Entry
	if idx != nil {
		for _, x := range idx.Entries {
			if x.Name == p {
				e = x
			}
		}
	}
	if e != nil && e.IntentToAdd {
		// model: the same index with the intent-to-add flag cleared (the entry
		// then is an ordinary staged empty blob)
		tmp := filepath.Join(d, ".git", "c27-index-noita")
		if b, err := os.ReadFile(filepath.Join(d, ".git", "index")); err == nil && os.WriteFile(tmp, b, 0o644) == nil {
			defer os.Remove(tmp)
			env := []string{"GIT_INDEX_FILE=" + tmp}
			ok := true
			for _, x := range idx.Entries {
				if x.IntentToAdd {
					r, err := gitx.Run(gitx.Cmd{Dir: d, Env: env, Args: []string{"update-index", "--add", "--cacheinfo",
						fmt.Sprintf("%o,%s,%s", uint32(x.Mode), x.Hash.String(), x.Name)}})
					if err != nil || r.Code != 0 {
						ok = false
					}
				}
			}
			if m := statusWith(d, env); ok && m != nil && m[p] == goXY {
				return sigITA
			}
		}
		return fmt.Sprintf("C27/Status:intent-to-add-entry:git=%s,go=%s", u(gitXY), u(goXY))
	}
	wk := lkind(filepath.Join(d, p))
	if e == nil && len(gitXY) == 2 && gitXY[1] == '?' && gitXY[0] != '?' && goXY == "??" {
		return "C27/Status:path-removed-from-index-but-present-in-worktree:staging-" + gitXY[:1] + "-reported-Untracked"
	}
	if e == nil && (gitXY == "" || gitXY == "??" || gitXY[1] == ' ') && (goXY == "" || goXY == "??") {
		// the two sides disagree on whether an untracked path is ignored: name the deciding rule
		rule := "none"
		out, _, code := gitx.Try(d, "check-ignore", "-v", "--no-index", "--", p)
		if code == 0 {
			if i := strings.IndexByte(out, '\t'); i > 0 {
				f := strings.SplitN(out[:i], ":", 3)
				if len(f) == 3 {
					rule = f[0] + ":" + f[2]
					if f[0] == ".git/info/exclude" {
						rule = f[0] // no pattern of this file is honoured
					}
				}
			}
		}
		if (gitXY == "??" && goXY == "") || (gitXY == "" && goXY == "??") {
			if mech := ignoreMechanism(d, p, goXY == ""); mech != "" {
				dir := "untracked-path-git-lists-reported-ignored"
				if goXY == "??" {
					dir = "untracked-path-git-ignores-reported-Untracked"
				}
				return "C27/Status:ignore:" + mech + ":" + dir
			}
		}
		if rule == ".git/info/exclude" && goXY == "??" {
			return "C27/Status:untracked-path-ignored-only-by-.git/info/exclude-reported-Untracked"
		}
		return fmt.Sprintf("C27/Status:untracked,wt=%s,ignore-rule=%s:git=%s,go=%s", wk, rule, u(gitXY), u(goXY))
	}
	same := ""
	if e != nil {
		var out string
		code := 1
		switch wk {
		case "file", "exec": // does `git add` consider the worktree bytes identical to the index entry?
			out, _, code = gitx.Try(d, "hash-object", "--path", p, "--", p)
		case "symlink":
			if tgt, err := os.Readlink(filepath.Join(d, p)); err == nil {
				out, _, code = gitx.TryIn(d, []byte(tgt), "hash-object", "--stdin")
			}
		}
		if code == 0 {
			if strings.TrimSpace(out) == e.Hash.String() {
				same = ",content=index"
			} else {
				same = ",content!=index"
			}
		}
	}
	gx, gy, ox, oy := u(gitXY)[0], u(gitXY)[1], u(goXY)[0], u(goXY)[1]
	if c.Format == "sha256" && same == ",content=index" && gx == ox && gy == '_' && oy == 'M' &&
		(idxKind(e) == wk || (!c.FileMode && wk != "symlink" && idxKind(e) != "symlink")) {
		// every worktree blob that has to be re-hashed is hashed with SHA-1
		return sigSHA256
	}
	if e != nil && same == ",content!=index" && gx == ox && gy == 'M' && oy == '_' && (wk == "file" || wk == "exec") {
		// mechanism: the metadata shortcut (size, mtime, mode) accepts the file without hashing it
		if fi, err := os.Lstat(filepath.Join(d, p)); err == nil && uint32(fi.Size()) == e.Size && fi.ModTime().Equal(e.ModifiedAt) {
			return "C27/Status:metadata-shortcut:same-size-edit-with-restored-mtime-reported-Unmodified"
		}
	}
	if !c.FileMode && e != nil && wk == "exec" && same == ",content=index" && gx == ox && gy == '_' && oy == 'M' {
		// mechanism: only the index side is normalised to 100644 when core.fileMode=false
		return sigFileMode
	}
	cfg := ""
	if c.Format == "sha256" {
		cfg += ",sha256"
	}
	if !c.FileMode {
		cfg += ",filemode=false"
	}
	if c.AutoCRLF == "true" || c.AutoCRLF == "input" {
		cfg += ",autocrlf=" + c.AutoCRLF
	}
	return fmt.Sprintf("C27/Status:idx=%s,wt=%s%s%s:git=%s,go=%s", idxKind(e), wk, same, cfg, u(gitXY), u(goXY))
}

// Ignore-rule models. When the two sides disagree on whether an untracked path
// is ignored, a mechanism is confirmed the way the other signatures are: the
// worktree's .gitignore files, rewritten to say explicitly what go-git takes
// the patterns to mean, are given to git in an empty repository; the mechanism
// explains the disagreement when git's answer for the path with the rewritten
// files is go-git's answer (and with the original files it is not).
//
// modelStars: go-git lets a pattern `X/**` match the directory X itself (for
// git it matches only what is inside X), so `X/**` makes X an excluded
// directory below which nothing can be re-included, and `!X/**` re-includes an
// excluded directory X. Rewrite: `X/**` gains the line `/X/`, `!X/**` gains
// `!/X/` (with `**/` in front when the pattern is not anchored).
//
// modelNegDir: go-git matches a pattern without a slash (`!name`, `!name/`)
// against every component of the path, so a negation naming a directory
// re-includes everything below it, whatever other pattern matches there (for
// git the negation re-includes the directory entry only). Rewrite: `!name/`
// and `!name` gain `!**/name/**`; an anchored `!a/b/` gains `!a/b/**`.
const (
	modelStars  = 1
	modelNegDir = 2
)

func rewriteIgnore(lines []string, models int) (out []string, n int) {
	for _, l := range lines {
		out = append(out, l)
		if l == "" || strings.HasPrefix(l, "#") {
			continue
		}
		neg := strings.HasPrefix(l, "!")
		body := strings.TrimPrefix(l, "!")
		if models&modelStars != 0 && strings.HasSuffix(body, "/**") {
			x := strings.TrimSuffix(body, "/**")
			if x != "" && !strings.HasSuffix(x, "*") {
				if !strings.HasPrefix(x, "/") {
					x = "/" + x
				}
				if neg {
					out = append(out, "!"+x+"/")
				} else {
					out = append(out, x+"/")
				}
				n++
			}
		}
		if models&modelNegDir != 0 && neg && !strings.HasSuffix(body, "*") {
			x := strings.TrimSuffix(body, "/")
			switch {
			case x == "":
			case !strings.Contains(x, "/"):
				out = append(out, "!**/"+x+"/**")
				n++
			case strings.HasSuffix(body, "/"):
				out = append(out, "!"+x+"/**")
				n++
			}
		}
	}
	return out, n
}

// ignoreModel answers whether git ignores p given the worktree's .gitignore
// files rewritten for the models (0 = as they are); n = lines rewritten.
func ignoreModel(d, p string, models int) (ignored bool, n int) {
	m := scratch()
	defer os.RemoveAll(m)
	gitx.Init(m, false, "sha1")
	filepath.Walk(d, func(f string, fi os.FileInfo, err error) error {
		if err != nil {
			return nil
		}
		rel, _ := filepath.Rel(d, f)
		if fi.IsDir() && rel == ".git" {
			return filepath.SkipDir
		}
		if fi.Name() != ".gitignore" || !fi.Mode().IsRegular() {
			return nil
		}
		b, err := os.ReadFile(f)
		if err != nil {
			return nil
		}
		lines, k := rewriteIgnore(strings.Split(string(b), "\n"), models)
		n += k
		os.MkdirAll(filepath.Dir(filepath.Join(m, rel)), 0o755)
		os.WriteFile(filepath.Join(m, rel), []byte(strings.Join(lines, "\n")), 0o644)
		return nil
	})
	_, se, code := gitx.Try(m, "check-ignore", "-q", "--no-index", "--", p)
	if code != 0 && code != 1 {
		panic(fmt.Sprintf("INFRA: git check-ignore failed (%d): %s", code, se))
	}
	return code == 0, n
}

// ignoreMechanism names the model (if any) under which git gives go-git's
// answer goIgnored for the untracked path p.
func ignoreMechanism(d, p string, goIgnored bool) string {
	if orig, _ := ignoreModel(d, p, 0); orig == goIgnored {
		return "" // not a disagreement about ignore rules of .gitignore files
	}
	for _, m := range []struct {
		models int
		name   string
	}{
		{modelStars, "pattern-X/**-also-matches-directory-X-itself"},
		{modelNegDir, "negation-naming-a-directory-re-includes-everything-below-it"},
		{modelStars | modelNegDir, "pattern-X/**-also-matches-directory-X-itself+negation-naming-a-directory-re-includes-everything-below-it"},
	} {
		if got, n := ignoreModel(d, p, m.models); n > 0 && got == goIgnored {
			return m.name
		}
	}
	return ""
}

// sizeOnlyModified recognises git's one documented heuristic answer: with
// core.autocrlf=true|input a worktree file whose size differs from the size
// recorded in the index is reported " M" by git without comparing contents
// (read-cache.c ie_modified: "if the size changed we know it is modified"),
// even when the converted content is exactly the index blob and `git diff`
// is empty. go-git compares converted contents and reports the file
// unmodified. Both answers are accepted for exactly that shape.
func sizeOnlyModified(d string, c Case, p, gitXY, goXY string, idx *index.Index) bool {
	if c.AutoCRLF != "true" && c.AutoCRLF != "input" {
		return false
	}
	g, o := u(gitXY), u(goXY)
	if g[0] != o[0] || g[1] != 'M' || o[1] != '_' || idx == nil {
		return false
	}
	var e *index.Entry
	for _, x := range idx.Entries {
		if x.Name == p {
			e = x
		}
	}
	wk := lkind(filepath.Join(d, p))
	if e == nil || e.IntentToAdd || idxKind(e) != wk || (wk != "file" && wk != "exec") {
		return false
	}
	fi, err := os.Lstat(filepath.Join(d, p))
	if err != nil || uint32(fi.Size()) == e.Size {
		return false
	}
	out, _, code := gitx.Try(d, "hash-object", "--path", p, "--", p)
	return code == 0 && strings.TrimSpace(out) == e.Hash.String()
}

func compare(d string, c Case, step int, lab map[string]bool, codes map[string]bool) (ds []disc, inDomain bool) {
	want, ok := gitStatus(d)
	if !ok {
		return nil, false
	}
	if step < 0 {
		sceneLabels(d, c, want, lab)
	}
	r, err := git.PlainOpen(d)
	if err != nil {
		return []disc{{"C27/PlainOpen-error", fmt.Sprintf("step %d: PlainOpen: %v", step, err)}}, true
	}
	w, err := r.Worktree()
	if err != nil {
		return []disc{{"C27/Worktree-error", fmt.Sprintf("step %d: Worktree: %v", step, err)}}, true
	}
	idx, _ := r.Storer.Index()
	s, err := w.Status()
	if err != nil {
		return []disc{{"C27/Status-error", fmt.Sprintf("step %d: Status: %v (git: %v)", step, err, want)}}, true
	}
	got := map[string]string{}
	for p, fs := range s {
		xy := string([]byte{byte(fs.Staging), byte(fs.Worktree)})
		if xy != "  " {
			got[p] = xy
		}
	}
	if idx != nil {
		for _, e := range idx.Entries {
			if e.IntentToAdd {
				lab["intent-to-add"] = true
			}
		}
	}
	keys := map[string]bool{}
	for k, v := range want {
		keys[k] = true
		codes[v] = true
	}
	for k := range got {
		keys[k] = true
	}
	var ks []string
	for k := range keys {
		ks = append(ks, k)
	}
	sort.Strings(ks)
	for _, k := range ks {
		if want[k] != got[k] {
			if sizeOnlyModified(d, c, k, want[k], got[k], idx) {
				lab["accepted:git-M-by-size-only(converted-content-equals-index)"] = true
				continue
			}
			sig := classify(d, c, k, want[k], got[k], idx)
			what := "scenes"
			if step >= 0 {
				what = fmt.Sprintf("%+v", c.Ops[step])
			}
			ds = append(ds, disc{sig, fmt.Sprintf("after step %d (%s): path %q: git status=%q go-git Status=%q\n git:    %v\n go-git: %v",
				step, what, k, want[k], got[k], want, got)})
		}
	}
	return ds, true
}

func check(c Case) evid.Result {
	d := scratch()
	defer os.RemoveAll(d)
	gitx.Init(d, false, c.Format)
	if !c.FileMode {
		gitx.Must(d, "config", "core.fileMode", "false")
	}
	if c.AutoCRLF != "" {
		gitx.Must(d, "config", "core.autocrlf", c.AutoCRLF)
	}
	for _, b := range c.Base {
		switch b.Kind {
		case 2:
			apply(d, Op{K: "symlink", P: b.P, Q: b.C}, map[string]bool{}, nil)
		default:
			apply(d, Op{K: "write", P: b.P, Q: b.C}, map[string]bool{}, nil)
			if b.Kind == 1 {
				apply(d, Op{K: "chmod+x", P: b.P}, map[string]bool{}, nil)
			}
			// base files are clearly older than the index (not racily clean), whatever the
			// timestamp granularity; files written by later ops are fresh
			apply(d, Op{K: "touch", P: b.P, Q: 9}, map[string]bool{}, nil)
		}
	}
	if len(c.Base) > 0 {
		gitx.Must(d, "add", "-A")
		if !c.NoCommit {
			gitx.Must(d, "commit", "-q", "-m", "base")
		}
	}
	sawTypeChange = false
	lab := map[string]bool{"format=" + c.Format: true, fmt.Sprintf("filemode=%v", c.FileMode): true, "autocrlf=" + c.AutoCRLF: true}
	codes := map[string]bool{}
	var res evid.Result
	var firstKnown *disc
	maxCodes := 0
	sp := scenePaths(c)
	for _, sc := range c.Scenes {
		buildScene(d, sc)
	}
	first := 0
	if len(c.Scenes) > 0 {
		first = -1 // step -1: the state the scenes leave is compared before any op
		lab["scene"] = true
	}
	for i := first; i < len(c.Ops); i++ {
		if i >= 0 {
			apply(d, c.Ops[i], lab, sp)
		}
		stepCodes := map[string]bool{}
		ds, ok := compare(d, c, i, lab, stepCodes)
		if !ok {
			res.Discard = true
			return res
		}
		if len(stepCodes) > maxCodes {
			maxCodes = len(stepCodes)
		}
		for k := range stepCodes {
			codes[k] = true
		}
		for j := range ds {
			if survey { // development aid: histogram of disagreement classes instead of stopping at the first
				lab["DISC "+ds[j].sig] = true
				if !surveySeen[ds[j].sig] {
					surveySeen[ds[j].sig] = true
					cj, _ := json.Marshal(c)
					fmt.Fprintf(os.Stderr, "SURVEY %s\n  %s\n  case=%s\n", ds[j].sig, ds[j].msg, cj)
				}
				continue
			}
			if !known[ds[j].sig] {
				res.Fail = evid.Failf(ds[j].sig, "%s", ds[j].msg)
				res.NonTrivial = true
				return res
			}
			if firstKnown == nil {
				firstKnown = &ds[j]
			}
		}
	}
	res.NonTrivial = maxCodes >= 3
	if sawTypeChange {
		lab["git-type-change(T)"] = true
	}
	for _, o := range c.Ops {
		switch o.K {
		case "ignore":
			lab["ignore-file="+ignoreFiles[o.P%len(ignoreFiles)]] = true
		case "symlink", "goAdd", "goCommit", "gitChmodIndex", "gitResetPath", "gitRmCached", "touch", "gitAddF":
			lab["op:"+o.K] = true
		}
		if o.S && len(sp) > 0 {
			lab["op-on-scene-path"] = true
		}
	}
	for k := range codes {
		lab["git="+u(k)] = true
	}
	if res.NonTrivial {
		lab["nontrivial"] = true
	}
	for k := range lab {
		res.Labels = append(res.Labels, k)
	}
	sort.Strings(res.Labels)
	if firstKnown != nil {
		res.Fail = evid.Failf(firstKnown.sig, "%s", firstKnown.msg)
	}
	return res
}

func TestC27(t *testing.T) {
	evid.Run(t, evid.Spec[Case]{ID: "C27", Gen: gen, Check: check})
}
